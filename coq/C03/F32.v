(* C03 — IEEE-754 model of the int16 -> volts -> int16 path (definitions only).
   Kept in its own file so that the exhaustive sweeps (Rt_*.v) depend on nothing else.

   Python (src/spikeglx.py, src/neuropixel.py)            model
   _conversion_sample2v_from_meta (NP2 branch)            gain
   Reader.read:  raw.astype(float32) * s2v                sample2v
   NP2Converter._ind2save: rint(v / s2v).astype(int16)    v2sample, roundtrip *)
From Coq Require Import ZArith List Bool Lia.
From Flocq Require Import Core BinarySingleNaN.
Import ListNotations.
Open Scope Z_scope.

(* ------------------------------------------------------------------ *)
(* A. IEEE-754 arithmetic of the int16 -> volts -> int16 path          *)
(* ------------------------------------------------------------------ *)
Definition f32 := binary_float 24 128.
Definition f64 := binary_float 53 1024.
Definition p32 : Prec_gt_0 24 := eq_refl.
Definition p64 : Prec_gt_0 53 := eq_refl.
Definition e32 : Prec_lt_emax 24 128 := eq_refl.
Definition e64 : Prec_lt_emax 53 1024 := eq_refl.

(* int -> float (exact for |z| < 2^24 resp. 2^53; correctly rounded otherwise) *)
Definition z32 (z : Z) : f32 := binary_normalize 24 128 p32 e32 mode_NE z 0 false.
Definition z64 (z : Z) : f64 := binary_normalize 53 1024 p64 e64 mode_NE z 0 false.
Definition div64 : f64 -> f64 -> f64 :=
  Bdiv (prec:=53) (emax:=1024) (prec_gt_0_:=p64) (prec_lt_emax_:=e64) mode_NE.
Definition mul32 : f32 -> f32 -> f32 :=
  Bmult (prec:=24) (emax:=128) (prec_gt_0_:=p32) (prec_lt_emax_:=e32) mode_NE.
Definition div32 : f32 -> f32 -> f32 :=
  Bdiv (prec:=24) (emax:=128) (prec_gt_0_:=p32) (prec_lt_emax_:=e32) mode_NE.
Definition rint32 : f32 -> f32 :=
  Bnearbyint (prec:=24) (emax:=128) (prec_lt_emax_:=e32) mode_NE.
Definition trunc32 : f32 -> Z := Btrunc (prec:=24) (emax:=128).

(* np.float32(x) for a float64 x: round to nearest even *)
Definition conv64_32 (x : f64) : f32 :=
  match x with
  | B754_finite s m e _ => binary_normalize 24 128 p32 e32 mode_NE (cond_Zopp s (Zpos m)) e s
  | B754_zero s => B754_zero s
  | B754_infinity s => B754_infinity s
  | B754_nan => B754_nan
  end.

(* spikeglx._conversion_sample2v_from_meta, NP2 branch:
     int2volt = md["imAiRangeMax"] / maxint          (float64; imAiRangeMax = float("0.62") = RNE(62/100))
     int2volt / 80 * np.ones(n).astype(np.float32)   (NumPy 2: the python float is cast to float32, times 1.0f)
   imAiRangeMax is given as the decimal fraction num/den (both exactly representable). *)
Definition gain (num den maxint : Z) : f32 :=
  conv64_32 (div64 (div64 (div64 (z64 num) (z64 den)) (z64 maxint)) (z64 80)).

(* the sync channel's factor: np.ones(..., dtype=float32) *)
Definition gain_one : f32 := z32 1.

(* (sign, mantissa, exponent) of a finite float, for the correspondence check *)
Definition f32_parts (x : f32) : list Z :=
  match x with
  | B754_finite s m e _ => [1; if s then 1 else 0; Zpos m; e]
  | B754_zero s => [0; if s then 1 else 0; 0; 0]
  | B754_infinity s => [2; if s then 1 else 0; 0; 0]
  | B754_nan => [3; 0; 0; 0]
  end.

(* Reader.read: darray = raw.astype(float32); darray *= s2v *)
Definition sample2v (s : f32) (r : Z) : f32 := mul32 (z32 r) s.

(* C cast float32 -> int16 of an integral value (x86: via int32, low 16 bits) *)
Definition i16wrap (z : Z) : Z := (z + 32768) mod 65536 - 32768.

(* _ind2save: np.rint(chunk / s2v).astype(np.int16) *)
Definition v2sample (s : f32) (v : f32) : Z := i16wrap (trunc32 (rint32 (div32 v s))).

Definition roundtrip (s : f32) (r : Z) : Z := v2sample s (sample2v s r).

(* all int16 values, built by doubling (no large nat literal) *)
Fixpoint range_pow2 (n : nat) (base : Z) : list Z :=
  match n with
  | O => [base]
  | S n' => range_pow2 n' base ++ range_pow2 n' (base + 2 ^ Z.of_nat n')
  end.
Definition all_i16 : list Z := range_pow2 16 (-32768).
Definition check_gain (s : f32) : bool := forallb (fun r => roundtrip s r =? r) all_i16.

