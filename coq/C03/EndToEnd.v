(* C03 — split, write the subset strings, read them back, reconstruct: the identity. *)
From Coq Require Import ZArith List Bool Lia.
From IBL.lib Require Import PyInt RunLib.
From IBL.C03 Require Import Model RtLib Proofs Codec Gains.
Import ListNotations.
Open Scope Z_scope.

Lemma zlist_eqb_refl l : zlist_eqb l l = true.
Proof. induction l as [|a l IH]; cbn [zlist_eqb]; [reflexivity|]. now rewrite Z.eqb_refl, IH. Qed.

Section Prepare.
Variables (labels : list Z) (data : list row).
Local Notation napch := (Z.of_nat (length labels)).
Local Notation nc := (napch + 1).

Lemma shank_chns_codec sh :
  parse_subset (show_subset (shank_chns labels nc 1 sh)) = Some (shank_chns labels nc 1 sh).
Proof.
  unfold shank_chns. rewrite sync_idx_1. apply codec_roundtrip.
  - intros E. apply app_eq_nil in E as [_ E]. discriminate.
  - apply Forall_app. split.
    + apply Forall_forall. intros k Hk. apply where_eq_bound in Hk. lia.
    + constructor; [lia | constructor].
Qed.

Lemma prepare_files_map l :
  prepare_files labels
    (map (fun sh => (sh, shank_chns labels nc 1 sh, map (gather (shank_chns labels nc 1 sh)) data)) l)
  = Some (map (fun sh => (shank_chns labels nc 1 sh, map (gather (shank_chns labels nc 1 sh)) data)) l).
Proof.
  induction l as [|sh l IH]; [reflexivity|]. cbn [map prepare_files].
  rewrite shank_chns_codec. unfold shank_chns at 1. rewrite sync_idx_1, removelast_last.
  rewrite zlist_eqb_refl, IH. reflexivity.
Qed.

Lemma prepare_files_spec :
  prepare_files labels (split_spec labels nc 1 data) = Some (files_of (chns_list labels) data).
Proof.
  unfold split_spec. rewrite prepare_files_map. unfold files_of, chns_list. now rewrite map_map.
Qed.
End Prepare.

Lemma pub_e2e cap csy labels ns W Wr data :
  labels <> [] -> 1 <= ns -> 576 < W -> 0 < Wr -> ns = Z.of_nat (length data) ->
  (forall r, In r data -> length r = S (length labels)) ->
  (forall r x, In r data -> In x r -> cap x = x /\ csy x = x) ->
  exists split files,
    process_np24 cap csy (Z.of_nat (length labels)) 1 (Z.of_nat (length labels) + 1) labels ns W data
      = Some split /\
    split = split_spec labels (Z.of_nat (length labels) + 1) 1 data /\
    prepare_files labels split = Some files /\
    reconstruct_w Wr files = Some data.
Proof.
  intros Hlab Hns HW HWr Hlen Hrect Hex.
  destruct (pub_roundtrip cap csy labels ns W Wr data Hlab Hns HW HWr Hlen Hrect Hex)
    as (split & Hp & Hs & Hr).
  exists split, (files_of_split split). repeat split; try assumption.
  subst split. rewrite prepare_files_spec. now rewrite files_of_split_spec.
Qed.

Lemma pub_np2_e2e g labels ns W data :
  In g np2_gains ->
  labels <> [] -> 1 <= ns -> 576 < W -> ns = Z.of_nat (length data) ->
  (forall r, In r data -> length r = S (length labels)) ->
  (forall r x, In r data -> In x r -> -32768 <= x <= 32767) ->
  exists split files,
    process_np24 (roundtrip (gain_of g)) (roundtrip gain_one)
                 (Z.of_nat (length labels)) 1 (Z.of_nat (length labels) + 1) labels ns W data
      = Some split /\
    split = split_spec labels (Z.of_nat (length labels) + 1) 1 data /\
    prepare_files labels split = Some files /\
    reconstruct files = Some data.
Proof.
  intros Hg Hlab Hns HW Hlen Hrect Hval.
  apply (pub_e2e _ _ labels ns W RECON_WINDOW data); try assumption; [reflexivity|].
  intros r x Hr Hx. pose proof (Hval r x Hr Hx). split; [now apply gains_exact | now apply sync_exact].
Qed.
