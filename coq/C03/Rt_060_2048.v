(* C03 — exhaustive kernel evaluation: all 65536 int16 values survive
   int16 -> float32 volts -> int16 for imAiRangeMax = 6/10, imMaxInt = 2048, gain 80. *)
From Coq Require Import ZArith.
From IBL.C03 Require Import F32.
Open Scope Z_scope.
Lemma chk : check_gain (gain 6 10 2048) = true.
Proof. vm_cast_no_check (eq_refl true). Qed.
