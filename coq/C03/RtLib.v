(* C03 — lifting the exhaustive boolean sweep over all int16 values to a forall. *)
From Coq Require Import ZArith List Bool Lia.
From IBL.C03 Require Import F32.
Import ListNotations.
Open Scope Z_scope.

Lemma in_range_pow2 n : forall base x,
  In x (range_pow2 n base) <-> base <= x < base + 2 ^ Z.of_nat n.
Proof.
  induction n as [|n IH]; intros base x; cbn [range_pow2].
  - cbn. lia.
  - rewrite in_app_iff, !IH. rewrite Nat2Z.inj_succ, Z.pow_succ_r by lia. lia.
Qed.

Lemma in_all_i16 r : -32768 <= r <= 32767 -> In r all_i16.
Proof. intros H. apply in_range_pow2. change (2 ^ Z.of_nat 16) with 65536. lia. Qed.

Lemma rt_of_check s : check_gain s = true ->
  forall r, -32768 <= r <= 32767 -> roundtrip s r = r.
Proof.
  unfold check_gain. intros H r Hr. rewrite forallb_forall in H.
  apply Z.eqb_eq. exact (H r (in_all_i16 r Hr)).
Qed.
