(* C03 — executable model of NP2.4 shank splitting and reconstruction.
   Definitions only; lemmas in Proofs.v / Rt*.v, property theorems in Props.v.

   Python (src/neuropixel.py, src/spikeglx.py)          model
   ---------------------------------------------          -----
   _conversion_sample2v_from_meta (NP2 branch)            gain
   Reader.read:  raw.astype(float32) * s2v                sample2v
   NP2Converter._ind2save: rint(v / s2v).astype(int16)    v2sample, roundtrip
   NP2Converter._ind2save: ind2save margins, slice        ind2save, save_window
   NP2Converter._process_NP24 (AP branch, window loop)    kept_rows, process_np24
   NP2Converter._prepare_files_NP24: chns per shank       shanks_of, shank_chns
   NP2Converter._split2shanks                             gather, shank_file
   spikeglx._get_savedChans_subset                        show_subset
   NP2Reconstructor._get_chans                            parse_subset
   NP2Reconstructor._prepare_files (channel lists)        prepare_files
   NP2Reconstructor._reconstruct                          assign_cols, recon_window, reconstruct
   NP2Converter._writemetadata_ap                         meta_shank_ap
   NP2Reconstructor.write_metadata                        meta_recon, meta_recon_at (existing .meta)
   _prepare_files_NP24 already_exists / overwrite          process_call
   (window generator: IBL.C17.Model.firstlast / nwin)
*)
From Coq Require Import ZArith NArith List Bool Lia Decimal DecimalN.
From IBL.lib Require Import PyInt RunLib.
From IBL.C17 Require Import Model.
From IBL.C03 Require Export F32.
Import ListNotations.
Open Scope Z_scope.

(* ------------------------------------------------------------------ *)
(* B. Python slicing of a list (sequence of rows)                      *)
(* ------------------------------------------------------------------ *)
(* PySlice_AdjustIndices for step 1 *)
Definition adj (len i : Z) : Z := if i <? 0 then Z.max (i + len) 0 else Z.min i len.

Definition slice_nat {A} (i j : nat) (l : list A) : list A := firstn (j - i) (skipn i l).

Definition pyslice {A} (a b : Z) (l : list A) : list A :=
  let len := Z.of_nat (length l) in
  slice_nat (Z.to_nat (adj len a)) (Z.to_nat (adj len b)) l.

(* ------------------------------------------------------------------ *)
(* C. NP2Converter, AP branch                                          *)
(* ------------------------------------------------------------------ *)
Definition OVERLAP : Z := 576.     (* self.samples_overlap *)
Definition MARGIN : Z := 288.      (* self.samples_taper * 2 = int(576 / 4) * 2 *)
Definition RECON_WINDOW : Z := 60000.  (* NP2Reconstructor.get_params: 2 * fs_ap *)

(* init_params assertions (all AssertionError, before anything is opened or written):
     np.mod(nwindow, 12) == 0            "nwindow must be a factor of 12"
     self.samples_window > self.samples_overlap   (repo 904fe91; without it a window <= 576 lost samples,
                                                    never terminated, or divided by zero)
   0 = accepted, 1 = AssertionError *)
Definition admissible (W : Z) : bool := (W mod 12 =? 0) && (OVERLAP <? W).
Definition params_status (W : Z) : Z := if admissible W then 0 else 1.

(* ind2save = [288, W - 288]; first window -> start 0; window nwin-1 -> stop W *)
Definition ind2save (W nwin iw : Z) : Z * Z :=
  ((if iw =? 0 then 0 else MARGIN), (if iw =? nwin - 1 then W else W - MARGIN)).

Definition row := list Z.

(* per-row value conversion: AP columns through the AP gain, the rest through the sync gain *)
Definition conv_row (napch : Z) (cap csy : Z -> Z) (r : row) : row :=
  map cap (firstn (Z.to_nat napch) r) ++ map csy (skipn (Z.to_nat napch) r).

(* chunk2save of one window: chunk = sr[first:last] ; rows ind2save[0]:ind2save[1] *)
Definition save_window (conv : row -> row) (W nwin iw : Z) (chunk : list row) : list row :=
  let '(a, b) := ind2save W nwin iw in map conv (pyslice a b chunk).

(* the loop `for first, last in wg.firstlast` with wg.iw counting from iw0 *)
Fixpoint windows_rows (conv : row -> row) (W nwin : Z) (data : list row)
         (wins : list (Z * Z)) (iw : Z) : list (list row) :=
  match wins with
  | [] => []
  | (first, last) :: rest =>
      save_window conv W nwin iw (pyslice first last data)
      :: windows_rows conv W nwin data rest (iw + 1)
  end.

(* chunk[:, chns] *)
Definition gather (chns : list Z) (r : row) : row := map (fun c => nth (Z.to_nat c) r 0) chns.

(* np.unique(chn_info["shank"]) *)
Fixpoint insert_uniq (x : Z) (l : list Z) : list Z :=
  match l with
  | [] => [x]
  | y :: t => if x <? y then x :: l else if x =? y then l else y :: insert_uniq x t
  end.
Definition shanks_of (labels : list Z) : list Z := fold_right insert_uniq [] labels.

(* np.where(chn_info["shank"] == sh)[0] *)
Definition where_eq (labels : list Z) (sh : Z) : list Z :=
  map fst (filter (fun p => snd p =? sh) (combine (zrange (length labels)) labels)).

(* _get_sync_trace_indices_from_meta: list(range(ntr - nsync, ntr)) *)
Definition sync_idx (nc nsync : Z) : list Z := map (fun i => nc - nsync + i) (zrange (Z.to_nat nsync)).

Definition shank_chns (labels : list Z) (nc nsync sh : Z) : list Z :=
  where_eq labels sh ++ sync_idx nc nsync.

(* one shank's AP file: every window's chunk2save[:, chns] appended in turn *)
Definition shank_file (chns : list Z) (wrows : list (list row)) : list row :=
  flat_map (map (gather chns)) wrows.

(* _process_NP24 (AP part).  ns = self.nsamples, W = self.samples_window.
   Result: per shank (label, chns, rows of its .ap.bin); None = the window loop does not terminate. *)
Definition process_np24 (cap csy : Z -> Z) (napch nsync nc : Z) (labels : list Z)
           (ns W : Z) (data : list row) : option (list (Z * list Z * list row)) :=
  match firstlast ns W OVERLAP with
  | None => None
  | Some wins =>
      let wrows := windows_rows (conv_row napch cap csy) W (nwin ns W OVERLAP) data wins 0 in
      Some (map (fun sh => let chns := shank_chns labels nc nsync sh in
                           (sh, chns, shank_file chns wrows)) (shanks_of labels))
  end.

(* the global sample range [start, stop) window iw contributes (closed form of
   ind2save + slice clipping), used by the tiling theorem and shown in the check *)
Definition kept (ns W : Z) (w : Z * Z) (iw : Z) : Z * Z :=
  let '(first, last) := w in
  let len := last - first in
  let '(a, b) := ind2save W (nwin ns W OVERLAP) iw in
  let a' := adj len a in let b' := adj len b in
  (first + a', first + Z.max a' b').

Fixpoint kept_list (ns W : Z) (wins : list (Z * Z)) (iw : Z) : list (Z * Z) :=
  match wins with
  | [] => []
  | w :: rest => kept ns W w iw :: kept_list ns W rest (iw + 1)
  end.

(* ------------------------------------------------------------------ *)
(* D. saved-channel subset string (lists of character codes)            *)
(* ------------------------------------------------------------------ *)
Fixpoint uint_chars (u : Decimal.uint) : list Z :=
  match u with
  | Nil => []
  | D0 u => 48 :: uint_chars u | D1 u => 49 :: uint_chars u | D2 u => 50 :: uint_chars u
  | D3 u => 51 :: uint_chars u | D4 u => 52 :: uint_chars u | D5 u => 53 :: uint_chars u
  | D6 u => 54 :: uint_chars u | D7 u => 55 :: uint_chars u | D8 u => 56 :: uint_chars u
  | D9 u => 57 :: uint_chars u
  end.
(* str(n), n >= 0 *)
Definition show_int (n : Z) : list Z := uint_chars (N.to_uint (Z.to_N n)).

Fixpoint chars_uint (l : list Z) : option Decimal.uint :=
  match l with
  | [] => Some Nil
  | c :: t =>
      match chars_uint t with
      | None => None
      | Some u =>
          if c =? 48 then Some (D0 u) else if c =? 49 then Some (D1 u) else if c =? 50 then Some (D2 u)
          else if c =? 51 then Some (D3 u) else if c =? 52 then Some (D4 u) else if c =? 53 then Some (D5 u)
          else if c =? 54 then Some (D6 u) else if c =? 55 then Some (D7 u) else if c =? 56 then Some (D8 u)
          else if c =? 57 then Some (D9 u) else None
      end
  end.
(* int(s) for a string of decimal digits; None = ValueError *)
Definition parse_int (l : list Z) : option Z :=
  match l with
  | [] => None
  | _ => match chars_uint l with Some u => Some (Z.of_N (N.of_uint u)) | None => None end
  end.

Definition COMMA : Z := 44.
Definition COLON : Z := 58.

(* maximal runs of consecutive (+1) values of x :: t, as (first, last) *)
Fixpoint groups (x : Z) (t : list Z) : list (Z * Z) :=
  match t with
  | [] => [(x, x)]
  | y :: t' =>
      match groups y t' with
      | (a, b) :: rest => if y - x =? 1 then (x, b) :: rest else (x, x) :: (a, b) :: rest
      | [] => [(x, x)]
      end
  end.

(* _get_savedChans_subset: every group "a:b", except that a group which starts on the
   very last element is written bare *)
Fixpoint show_groups (g : list (Z * Z)) : list (list Z) :=
  match g with
  | [] => []
  | [(a, b)] => [if a =? b then show_int a else show_int a ++ COLON :: show_int b]
  | (a, b) :: rest => (show_int a ++ COLON :: show_int b) :: show_groups rest
  end.

Fixpoint join (sep : Z) (pieces : list (list Z)) : list Z :=
  match pieces with
  | [] => []
  | [p] => p
  | p :: rest => p ++ sep :: join sep rest
  end.

Definition show_subset (chns : list Z) : list Z :=
  match chns with
  | [] => []
  | x :: t => join COMMA (show_groups (groups x t))
  end.

(* str.split(sep): always at least one piece *)
Fixpoint split (sep : Z) (s : list Z) : list (list Z) :=
  match s with
  | [] => [[]]
  | c :: t =>
      match split sep t with
      | p :: rest => if c =? sep then [] :: p :: rest else (c :: p) :: rest
      | [] => [[c]]
      end
  end.

(* np.arange(a, b + 1) *)
Definition arange_incl (a b : Z) : list Z := map (fun i => a + i) (zrange (Z.to_nat (b + 1 - a))).

(* NP2Reconstructor._get_chans *)
Definition parse_group (piece : list Z) : option (list Z) :=
  match split COLON piece with
  | [p0] => match parse_int p0 with Some a => Some [a] | None => None end
  | p0 :: p1 :: _ =>
      match parse_int p0, parse_int p1 with
      | Some a, Some b => Some (arange_incl a b)
      | _, _ => None
      end
  | [] => None
  end.

Fixpoint concat_opt (l : list (option (list Z))) : option (list Z) :=
  match l with
  | [] => Some []
  | None :: _ => None
  | Some x :: t => match concat_opt t with Some r => Some (x ++ r) | None => None end
  end.

Definition parse_subset (s : list Z) : option (list Z) :=
  concat_opt (map parse_group (split COMMA s)).

(* ------------------------------------------------------------------ *)
(* E. NP2Reconstructor                                                 *)
(* ------------------------------------------------------------------ *)
Fixpoint set_nth (i : nat) (v : Z) (r : row) : row :=
  match r, i with
  | [], _ => []
  | _ :: t, O => v :: t
  | x :: t, S i' => x :: set_nth i' v t
  end.

(* row[idx] = vals  (sequential, last write wins) *)
Fixpoint scatter (idx : list Z) (vals : row) (acc : row) : row :=
  match idx, vals with
  | i :: idx', v :: vals' => scatter idx' vals' (set_nth (Z.to_nat i) v acc)
  | _, _ => acc
  end.

Fixpoint map2opt {A B C} (f : A -> B -> C) (la : list A) (lb : list B) : option (list C) :=
  match la, lb with
  | [], [] => Some []
  | a :: ta, b :: tb => match map2opt f ta tb with Some r => Some (f a b :: r) | None => None end
  | _, _ => None
  end.

(* chunk[:, idx] = src ; None = shape mismatch (ValueError) *)
Definition assign_cols (chunk : list row) (idx : list Z) (src : list row) : option (list row) :=
  if forallb (fun r => (length r =? length idx)%nat) src
  then map2opt (fun acc vals => scatter idx vals acc) chunk src
  else None.

(* one window of _reconstruct: files = [(chns, rows)] in folder order *)
Fixpoint recon_shanks (chunk : list row) (files : list (list Z * list row))
         (first last : Z) (ish : nat) : option (list row) :=
  match files with
  | [] => Some chunk
  | (chns, rows) :: rest =>
      let src := pyslice first last rows in
      let r := match ish with
               | O => assign_cols chunk chns src
               | S _ => assign_cols chunk (removelast chns) (map (@removelast Z) src)
               end in
      match r with
      | Some chunk' => recon_shanks chunk' rest first last (S ish)
      | None => None
      end
  end.

Definition recon_window (nch : Z) (files : list (list Z * list row)) (w : Z * Z) : option (list row) :=
  let '(first, last) := w in
  recon_shanks (repeat (repeat 0 (Z.to_nat nch)) (Z.to_nat (last - first))) files first last O.

Fixpoint concat_opt_rows (l : list (option (list row))) : option (list row) :=
  match l with
  | [] => Some []
  | None :: _ => None
  | Some x :: t => match concat_opt_rows t with Some r => Some (x ++ r) | None => None end
  end.

Definition list_max (l : list Z) : Z := fold_right Z.max 0 l.

(* get_params + _reconstruct: nch = max(chns of shank0) + 1, nsamples = rows of shank0 *)
Definition reconstruct_w (win : Z) (files : list (list Z * list row)) : option (list row) :=
  match files with
  | [] => None
  | (chns0, rows0) :: _ =>
      let nch := list_max chns0 + 1 in
      let ns := Z.of_nat (length rows0) in
      match firstlast ns win 0 with
      | None => None
      | Some wins => concat_opt_rows (map (recon_window nch files) wins)
      end
  end.
Definition reconstruct := reconstruct_w RECON_WINDOW.

(* NP2Reconstructor._prepare_files: every shank folder's channel list is read back from the
   snsSaveChanSubset_orig string that _writemetadata_ap wrote (show_subset chns), and
     assert all(chns[:-1] == np.where(chn_info["shank"] == sh)[0])
   None = ValueError in _get_chans / AssertionError. *)
Fixpoint prepare_files (labels : list Z) (split : list (Z * list Z * list row))
  : option (list (list Z * list row)) :=
  match split with
  | [] => Some []
  | (sh, chns, rows) :: rest =>
      match parse_subset (show_subset chns) with
      | None => None
      | Some c =>
          if zlist_eqb (removelast c) (where_eq labels sh)
          then match prepare_files labels rest with
               | Some r => Some ((c, rows) :: r)
               | None => None
               end
          else None
      end
  end.

(* ------------------------------------------------------------------ *)
(* F. metadata (parsed dictionary, insertion ordered)                   *)
(* ------------------------------------------------------------------ *)
Inductive mval :=
| MInt (z : Z)            (* a number that is an integer *)
| MInts (l : list Z)      (* comma-separated integers, e.g. snsApLfSy *)
| MStr (s : list Z)       (* a string the rewrite produces or inspects (character codes) *)
| MTok (t : Z).           (* any other value, opaque *)

Definition meta := list (Z * mval).

(* keys the rewrites touch; all other keys are codes >= 100 *)
Definition K_acq : Z := 1.          (* acqApLfSy *)
Definition K_sns : Z := 2.          (* snsApLfSy *)
Definition K_nsaved : Z := 3.       (* nSavedChans *)
Definition K_fsize : Z := 4.        (* fileSizeBytes *)
Definition K_subset : Z := 5.       (* snsSaveChanSubset *)
Definition K_subset_orig : Z := 6.  (* snsSaveChanSubset_orig *)
Definition K_origmeta : Z := 7.     (* original_meta *)
Definition K_shank : Z := 8.        (* NP2.4_shank *)

(* d[k] = v : in place if the key exists, appended otherwise *)
Fixpoint mset (k : Z) (v : mval) (m : meta) : meta :=
  match m with
  | [] => [(k, v)]
  | (k', v') :: t => if k' =? k then (k, v) :: t else (k', v') :: mset k v t
  end.
Fixpoint mget (k : Z) (m : meta) : option mval :=
  match m with
  | [] => None
  | (k', v') :: t => if k' =? k then Some v' else mget k t
  end.
(* d.pop(k) *)
Fixpoint mpop (k : Z) (m : meta) : meta :=
  match m with
  | [] => []
  | (k', v') :: t => if k' =? k then t else (k', v') :: mpop k t
  end.
(* d[k][0] = x ; None = KeyError / not a list *)
Definition mset0 (k : Z) (x : Z) (m : meta) : option meta :=
  match mget k m with
  | Some (MInts (_ :: t)) => Some (mset k (MInts (x :: t)) m)
  | _ => None
  end.

Definition str_false : list Z := [70; 97; 108; 115; 101].    (* "False" *)
Definition range_str (n : Z) : list Z := show_int 0 ++ COLON :: show_int n.   (* f"0:{n}" *)

(* _writemetadata_ap for one shank (then write_meta_data / read_meta_data) *)
Definition meta_shank_ap (m : meta) (sh : Z) (chns : list Z) (fsize : Z) : option meta :=
  let n := Z.of_nat (length chns) in
  match mset0 K_acq (n - 1) m with
  | None => None
  | Some m1 =>
      match mset0 K_sns (n - 1) m1 with
      | None => None
      | Some m2 =>
          Some (mset K_shank (MInt sh)
               (mset K_origmeta (MStr str_false)
               (mset K_subset (MStr (range_str (n - 1)))
               (mset K_subset_orig (MStr (show_subset chns))
               (mset K_fsize (MInt fsize)
               (mset K_nsaved (MInt n) m2))))))
      end
  end.

(* NP2Reconstructor.write_metadata from shank0's metadata *)
Definition meta_recon (m0 : meta) (nch fsize : Z) : option meta :=
  match mset0 K_acq (nch - 1) m0 with
  | None => None
  | Some m1 =>
      match mset0 K_sns (nch - 1) m1 with
      | None => None
      | Some m2 =>
          match mget K_shank m2, mget K_subset_orig m2 with
          | Some _, Some _ =>
              Some (mpop K_subset_orig (mpop K_shank
                   (mset K_subset (MStr (range_str (nch - 1)))
                   (mset K_fsize (MInt fsize)
                   (mset K_nsaved (MInt nch) m2)))))
          | _, _ => None           (* KeyError in pop *)
          end
      end
  end.

(* NP2Reconstructor.write_metadata, complete: if <probe>/<name>.ap.meta is already there (the original's
   metadata was left in place, e.g. after delete_original) and its fileSizeBytes equals the size of the
   reassembled binary, it is kept untouched; otherwise it is rewritten from shank0's metadata.
   None = KeyError (no fileSizeBytes in the existing file) or an error of the rewrite. *)
Definition meta_recon_at (existing : option meta) (m0 : meta) (nch fsize : Z) : option meta :=
  match existing with
  | None => meta_recon m0 nch fsize
  | Some me =>
      match mget K_fsize me with
      | None => None
      | Some (MInt z) => if z =? fsize then Some me else meta_recon m0 nch fsize
      | Some _ => meta_recon m0 nch fsize
      end
  end.

(* _prepare_files_NP24 / _process_NP24: a shank folder that exists blocks the run unless overwrite:
   (status, true = the shank files are those of this call / false = the earlier files are left as they were) *)
Definition process_call (existed overwrite : bool) : Z * bool :=
  if existed && negb overwrite then (0, false) else (1, true).

