(* C03 — recording lengths exactly on the window lattice ns = W + k (W - 576): the window count the
   code computes in binary64 (C17's FloatCeil.nwin_float64: float(ns - W) / float(W - 576), ceil, int)
   is exactly k + 1, so _ind2save's last-window test fires on window k and on no earlier one; one
   sample more gives k + 2, one less (k >= 1) gives k + 1. *)
From Coq Require Import ZArith Lia.
From IBL.lib Require Import PyInt.
From IBL.C17 Require Import Model.
From IBL.C17 Require FloatCeil.
From IBL.C03 Require Import Model.
Open Scope Z_scope.

Lemma cdiv_mult k s : 0 < s -> cdiv (k * s) s = k.
Proof. intros Hs. apply cdiv_unique; [exact Hs | nia]. Qed.

Lemma nwin_lattice W k : 576 < W -> 0 <= k -> nwin (W + k * (W - 576)) W 576 = k + 1.
Proof.
  intros HW Hk. unfold nwin.
  replace (W + k * (W - 576) - W) with (k * (W - 576)) by ring.
  rewrite cdiv_mult by lia. lia.
Qed.

Lemma nwin_lattice_plus W k : 577 < W -> 0 <= k -> nwin (W + k * (W - 576) + 1) W 576 = k + 2.
Proof.
  intros HW Hk. unfold nwin.
  replace (W + k * (W - 576) + 1 - W) with (k * (W - 576) + 1) by ring.
  rewrite (cdiv_unique (k * (W - 576) + 1) (W - 576) (k + 1)) by nia. lia.
Qed.

Lemma nwin_lattice_minus W k : 577 < W -> 1 <= k -> nwin (W + k * (W - 576) - 1) W 576 = k + 1.
Proof.
  intros HW Hk. unfold nwin.
  replace (W + k * (W - 576) - 1 - W) with (k * (W - 576) - 1) by ring.
  rewrite (cdiv_unique (k * (W - 576) - 1) (W - 576) k) by nia. lia.
Qed.

(* the same for the float64 expression of the source *)
Theorem nwin_float64_lattice W k : 576 < W -> W < 2 ^ 52 -> 0 <= k -> k * (W - 576) < 2 ^ 53 ->
  FloatCeil.nwin_float64 (W + k * (W - 576)) W 576 = k + 1.
Proof.
  intros HW HW2 Hk Hb.
  rewrite FloatCeil.nwin_float64_exact.
  - exact (nwin_lattice W k HW Hk).
  - replace (W + k * (W - 576) - W) with (k * (W - 576)) by ring. nia.
  - lia.
Qed.

Theorem nwin_float64_lattice_plus W k : 577 < W -> W < 2 ^ 52 -> 0 <= k -> k * (W - 576) + 1 < 2 ^ 53 ->
  FloatCeil.nwin_float64 (W + k * (W - 576) + 1) W 576 = k + 2.
Proof.
  intros HW HW2 Hk Hb.
  rewrite FloatCeil.nwin_float64_exact.
  - exact (nwin_lattice_plus W k HW Hk).
  - replace (W + k * (W - 576) + 1 - W) with (k * (W - 576) + 1) by ring. nia.
  - lia.
Qed.

Theorem nwin_float64_lattice_minus W k : 577 < W -> W < 2 ^ 52 -> 1 <= k -> k * (W - 576) < 2 ^ 53 ->
  FloatCeil.nwin_float64 (W + k * (W - 576) - 1) W 576 = k + 1.
Proof.
  intros HW HW2 Hk Hb.
  rewrite FloatCeil.nwin_float64_exact.
  - exact (nwin_lattice_minus W k HW Hk).
  - replace (W + k * (W - 576) - 1 - W) with (k * (W - 576) - 1) by ring. nia.
  - lia.
Qed.

(* consequence for _ind2save: with the count the code computes, window k keeps up to the end of its chunk
   (stop index W) and every earlier window stops at W - 288 *)
Theorem lattice_last_window W k : 576 < W -> W < 2 ^ 52 -> 0 <= k -> k * (W - 576) < 2 ^ 53 ->
  let n := FloatCeil.nwin_float64 (W + k * (W - 576)) W 576 in
  n = k + 1 /\ n = nwin (W + k * (W - 576)) W OVERLAP /\
  snd (ind2save W n k) = W /\
  forall i, 0 <= i < k -> snd (ind2save W n i) = W - MARGIN.
Proof.
  intros HW HW2 Hk Hb. cbv zeta. rewrite (nwin_float64_lattice W k HW HW2 Hk Hb).
  split; [reflexivity|]. split; [symmetry; exact (nwin_lattice W k HW Hk)|].
  unfold ind2save. cbn [snd]. replace (k + 1 - 1) with k by lia. split.
  - now rewrite Z.eqb_refl.
  - intros i Hi. destruct (Z.eqb_spec i k); [lia | reflexivity].
Qed.
