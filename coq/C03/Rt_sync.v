(* C03 — exhaustive kernel evaluation for the sync channel (factor 1.0f). *)
From Coq Require Import ZArith.
From IBL.C03 Require Import F32.
Open Scope Z_scope.
Lemma chk : check_gain gain_one = true.
Proof. vm_cast_no_check (eq_refl true). Qed.
