(* C03 — the memoised value conversion used by Run.run_full is the same function. *)
From Coq Require Import ZArith List Bool Lia FMapPositive.
From IBL.C03 Require Import Model Run.
Import ListNotations.
Open Scope Z_scope.

Definition table_ok (f : Z -> Z) (m : PositiveMap.t Z) : Prop :=
  forall v y, in_i16 v = true -> PositiveMap.find (key v) m = Some y -> y = f v.

Lemma key_inj v w : in_i16 v = true -> in_i16 w = true -> key v = key w -> v = w.
Proof.
  unfold in_i16, key. intros Hv Hw H.
  apply andb_true_iff in Hv as [Hv1 Hv2]. apply andb_true_iff in Hw as [Hw1 Hw2].
  apply Z.leb_le in Hv1, Hv2, Hw1, Hw2.
  apply (f_equal Zpos) in H. rewrite !Z2Pos.id in H by lia. lia.
Qed.

Lemma memo_table_ok f vals : forall m, table_ok f m ->
  table_ok f (fold_left (fun m v =>
               if in_i16 v then
                 match PositiveMap.find (key v) m with
                 | Some _ => m
                 | None => PositiveMap.add (key v) (f v) m
                 end
               else m) vals m).
Proof.
  induction vals as [|a vals IH]; intros m Hm; cbn [fold_left]; [exact Hm|].
  apply IH. destruct (in_i16 a) eqn:Ea; [|exact Hm].
  destruct (PositiveMap.find (key a) m) eqn:Ef; [exact Hm|].
  intros v y Hv Hy. destruct (Pos.eq_dec (key v) (key a)) as [E|E].
  - rewrite E, PositiveMap.gss in Hy. injection Hy as <-. f_equal. symmetry. now apply key_inj.
  - rewrite PositiveMap.gso in Hy by exact E. now apply Hm.
Qed.

Lemma memo_sound f vals v : memo_apply f (memo_table f vals) v = f v.
Proof.
  unfold memo_apply, memo_table. destruct (in_i16 v) eqn:Ev; [|reflexivity].
  destruct (PositiveMap.find _ _) eqn:Ef; [|reflexivity].
  refine (memo_table_ok f vals _ _ v z Ev Ef).
  intros w y _ H. rewrite PositiveMap.gempty in H. discriminate.
Qed.
