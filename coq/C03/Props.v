(* C03 — property theorems.  Only statements closed by `exact <lemma>` (or a 1-3 line
   wrapper) and the Print Assumptions that the check collects. *)
From Coq Require Import ZArith List Bool Lia.
From IBL.lib Require Import PyInt.
From IBL.C17 Require Import Model.
From IBL.C03 Require Import Model RtLib Proofs.
From IBL.C03 Require Rt_050_512 Rt_050_2048 Rt_050_8192 Rt_060_512 Rt_060_2048 Rt_060_8192
                     Rt_062_512 Rt_062_2048 Rt_062_8192 Rt_sync.
Import ListNotations.
Open Scope Z_scope.

(* ---- every int16 value survives int16 -> float32 volts -> int16, per gain setting ----
   gain num den maxint = float32((float64(num/den) / maxint) / 80); exhaustive kernel
   evaluation over all 65536 values (Rt_*.v), lifted with forallb_forall. *)
Theorem C03_roundtrip_exact_050_512 : forall r, -32768 <= r <= 32767 ->
  roundtrip (gain 5 10 512) r = r.
Proof. exact (rt_of_check _ Rt_050_512.chk). Qed.
Print Assumptions C03_roundtrip_exact_050_512.

Theorem C03_roundtrip_exact_050_2048 : forall r, -32768 <= r <= 32767 ->
  roundtrip (gain 5 10 2048) r = r.
Proof. exact (rt_of_check _ Rt_050_2048.chk). Qed.
Print Assumptions C03_roundtrip_exact_050_2048.

Theorem C03_roundtrip_exact_050_8192 : forall r, -32768 <= r <= 32767 ->
  roundtrip (gain 5 10 8192) r = r.
Proof. exact (rt_of_check _ Rt_050_8192.chk). Qed.
Print Assumptions C03_roundtrip_exact_050_8192.

Theorem C03_roundtrip_exact_060_512 : forall r, -32768 <= r <= 32767 ->
  roundtrip (gain 6 10 512) r = r.
Proof. exact (rt_of_check _ Rt_060_512.chk). Qed.
Print Assumptions C03_roundtrip_exact_060_512.

Theorem C03_roundtrip_exact_060_2048 : forall r, -32768 <= r <= 32767 ->
  roundtrip (gain 6 10 2048) r = r.
Proof. exact (rt_of_check _ Rt_060_2048.chk). Qed.
Print Assumptions C03_roundtrip_exact_060_2048.

Theorem C03_roundtrip_exact_060_8192 : forall r, -32768 <= r <= 32767 ->
  roundtrip (gain 6 10 8192) r = r.
Proof. exact (rt_of_check _ Rt_060_8192.chk). Qed.
Print Assumptions C03_roundtrip_exact_060_8192.

Theorem C03_roundtrip_exact_062_512 : forall r, -32768 <= r <= 32767 ->
  roundtrip (gain 62 100 512) r = r.
Proof. exact (rt_of_check _ Rt_062_512.chk). Qed.
Print Assumptions C03_roundtrip_exact_062_512.

Theorem C03_roundtrip_exact_062_2048 : forall r, -32768 <= r <= 32767 ->
  roundtrip (gain 62 100 2048) r = r.
Proof. exact (rt_of_check _ Rt_062_2048.chk). Qed.
Print Assumptions C03_roundtrip_exact_062_2048.

Theorem C03_roundtrip_exact_062_8192 : forall r, -32768 <= r <= 32767 ->
  roundtrip (gain 62 100 8192) r = r.
Proof. exact (rt_of_check _ Rt_062_8192.chk). Qed.
Print Assumptions C03_roundtrip_exact_062_8192.

(* the sync channel (factor 1.0f) *)
Theorem C03_roundtrip_exact_sync : forall r, -32768 <= r <= 32767 -> roundtrip gain_one r = r.
Proof. exact (rt_of_check _ Rt_sync.chk). Qed.
Print Assumptions C03_roundtrip_exact_sync.
