(* C03 — property theorems.  Only statements closed by `exact <lemma>` (or a 1-3 line
   wrapper) and the Print Assumptions that the check collects. *)
From Coq Require Import ZArith List Bool Lia.
From IBL.lib Require Import PyInt.
From IBL.C17 Require Import Model.
From IBL.C03 Require Import Model RtLib Proofs Gains Codec MetaProofs EndToEnd Run RunSound.
From IBL.C03 Require Rt_050_512 Rt_050_2048 Rt_050_8192 Rt_060_512 Rt_060_2048 Rt_060_8192
                     Rt_062_512 Rt_062_2048 Rt_062_8192 Rt_sync.
Import ListNotations.
Open Scope Z_scope.

(* ---- every int16 value survives int16 -> float32 volts -> int16, per gain setting ----
   gain num den maxint = float32((float64(num/den) / maxint) / 80); exhaustive kernel
   evaluation over all 65536 values (Rt_*.v), lifted with forallb_forall. *)
Theorem C03_roundtrip_exact_050_512 : forall r, -32768 <= r <= 32767 ->
  roundtrip (gain 5 10 512) r = r.
Proof. exact (rt_of_check _ Rt_050_512.chk). Qed.
Print Assumptions C03_roundtrip_exact_050_512.

Theorem C03_roundtrip_exact_050_2048 : forall r, -32768 <= r <= 32767 ->
  roundtrip (gain 5 10 2048) r = r.
Proof. exact (rt_of_check _ Rt_050_2048.chk). Qed.
Print Assumptions C03_roundtrip_exact_050_2048.

Theorem C03_roundtrip_exact_050_8192 : forall r, -32768 <= r <= 32767 ->
  roundtrip (gain 5 10 8192) r = r.
Proof. exact (rt_of_check _ Rt_050_8192.chk). Qed.
Print Assumptions C03_roundtrip_exact_050_8192.

Theorem C03_roundtrip_exact_060_512 : forall r, -32768 <= r <= 32767 ->
  roundtrip (gain 6 10 512) r = r.
Proof. exact (rt_of_check _ Rt_060_512.chk). Qed.
Print Assumptions C03_roundtrip_exact_060_512.

Theorem C03_roundtrip_exact_060_2048 : forall r, -32768 <= r <= 32767 ->
  roundtrip (gain 6 10 2048) r = r.
Proof. exact (rt_of_check _ Rt_060_2048.chk). Qed.
Print Assumptions C03_roundtrip_exact_060_2048.

Theorem C03_roundtrip_exact_060_8192 : forall r, -32768 <= r <= 32767 ->
  roundtrip (gain 6 10 8192) r = r.
Proof. exact (rt_of_check _ Rt_060_8192.chk). Qed.
Print Assumptions C03_roundtrip_exact_060_8192.

Theorem C03_roundtrip_exact_062_512 : forall r, -32768 <= r <= 32767 ->
  roundtrip (gain 62 100 512) r = r.
Proof. exact (rt_of_check _ Rt_062_512.chk). Qed.
Print Assumptions C03_roundtrip_exact_062_512.

Theorem C03_roundtrip_exact_062_2048 : forall r, -32768 <= r <= 32767 ->
  roundtrip (gain 62 100 2048) r = r.
Proof. exact (rt_of_check _ Rt_062_2048.chk). Qed.
Print Assumptions C03_roundtrip_exact_062_2048.

Theorem C03_roundtrip_exact_062_8192 : forall r, -32768 <= r <= 32767 ->
  roundtrip (gain 62 100 8192) r = r.
Proof. exact (rt_of_check _ Rt_062_8192.chk). Qed.
Print Assumptions C03_roundtrip_exact_062_8192.

(* the sync channel (factor 1.0f) *)
Theorem C03_roundtrip_exact_sync : forall r, -32768 <= r <= 32767 -> roundtrip gain_one r = r.
Proof. exact (rt_of_check _ Rt_sync.chk). Qed.
Print Assumptions C03_roundtrip_exact_sync.

(* ---- window bookkeeping: the sample ranges the windows contribute tile [0, ns) ----
   For every recording length and every window size above the hard-coded overlap of 576
   (multiples of 12 included, alignment with the recording length not assumed): the
   window loop terminates, and the kept ranges (ind2save margins 288 / W-288, first and
   last window rules, slice clipping) start at 0, end at ns, are adjacent, non-empty and
   in order. *)
Theorem C03_kept_ranges_tile : forall ns W, 1 <= ns -> 576 < W ->
  exists wins, firstlast ns W OVERLAP = Some wins /\
  let ks := kept_list ns W wins 0 in
  length ks = length wins /\
  fst (nth 0 ks (0, 0)) = 0 /\ snd (nth (length ks - 1) ks (0, 0)) = ns /\
  (forall i, (S i < length ks)%nat -> snd (nth i ks (0, 0)) = fst (nth (S i) ks (0, 0))) /\
  (forall i, (i < length ks)%nat ->
     0 <= fst (nth i ks (0, 0)) < snd (nth i ks (0, 0)) /\ snd (nth i ks (0, 0)) <= ns).
Proof. exact pub_tiles. Qed.
Print Assumptions C03_kept_ranges_tile.

(* ---- what the converter writes, for ANY value conversion ----
   every shank file = the first ns rows, converted value by value, restricted to that
   shank's channels followed by the sync channel, in the original order. *)
Theorem C03_split_is_column_subset : forall cap csy napch nsync nc labels ns W data,
  1 <= ns -> 576 < W -> ns <= Z.of_nat (length data) ->
  process_np24 cap csy napch nsync nc labels ns W data =
  Some (map (fun sh => (sh, shank_chns labels nc nsync sh,
                        map (gather (shank_chns labels nc nsync sh))
                            (map (conv_row napch cap csy) (firstn (Z.to_nat ns) data))))
            (shanks_of labels)).
Proof. exact pub_split. Qed.
Print Assumptions C03_split_is_column_subset.

(* ---- the saved-channel subset string codec ----
   NP2Reconstructor._get_chans (spikeglx._get_savedChans_subset chns) = chns for every non-empty
   list of non-negative channel numbers (sorted or not, with or without repeats), at the level of
   the characters of the string (decimal printing, ':' ranges, ',' separators). *)
Theorem C03_subset_codec_roundtrip : forall l, l <> [] -> Forall (fun c => 0 <= c) l ->
  parse_subset (show_subset l) = Some l.
Proof. exact codec_roundtrip. Qed.
Print Assumptions C03_subset_codec_roundtrip.

(* ---- lossless split and exact inverse, end to end, whenever the value conversion is exact ----
   every assignment of the AP channels to shank labels, every window size > 576, every
   reconstruction window size, every rectangular frame: the converter's output is the column
   subsets; the reconstructor reads each shank's channel list back from the subset string the
   converter wrote (its own assertion on that list holds) and reproduces the frame. *)
Theorem C03_split_reconstruct_id : forall cap csy labels ns W Wr data,
  labels <> [] -> 1 <= ns -> 576 < W -> 0 < Wr -> ns = Z.of_nat (length data) ->
  (forall r, In r data -> length r = S (length labels)) ->
  (forall r x, In r data -> In x r -> cap x = x /\ csy x = x) ->
  exists split files,
    process_np24 cap csy (Z.of_nat (length labels)) 1 (Z.of_nat (length labels) + 1) labels ns W data
      = Some split /\
    split = split_spec labels (Z.of_nat (length labels) + 1) 1 data /\
    prepare_files labels split = Some files /\
    reconstruct_w Wr files = Some data.
Proof. exact pub_e2e. Qed.
Print Assumptions C03_split_reconstruct_id.

(* ---- the property for NP2 recordings: all int16 sample values x the nine gain settings ---- *)
Theorem C03_np2_split_lossless_and_inverse : forall g labels ns W data,
  In g np2_gains ->
  labels <> [] -> 1 <= ns -> 576 < W -> ns = Z.of_nat (length data) ->
  (forall r, In r data -> length r = S (length labels)) ->
  (forall r x, In r data -> In x r -> -32768 <= x <= 32767) ->
  exists split files,
    process_np24 (roundtrip (gain_of g)) (roundtrip gain_one)
                 (Z.of_nat (length labels)) 1 (Z.of_nat (length labels) + 1) labels ns W data
      = Some split /\
    split = split_spec labels (Z.of_nat (length labels) + 1) 1 data /\
    prepare_files labels split = Some files /\
    reconstruct files = Some data.
Proof. exact pub_np2_e2e. Qed.
Print Assumptions C03_np2_split_lossless_and_inverse.

(* ---- metadata: the reconstructor's rewrite undoes the converter's ----
   For a dictionary with unique keys whose acqApLfSy / snsApLfSy start with nch-1, with
   nSavedChans = nch, fileSizeBytes = fs, snsSaveChanSubset = "0:<nch-1>" and without the three
   provenance keys: writing a shank's metadata and rewriting it for the reassembled file gives the
   original dictionary, entry for entry and in order, followed by original_meta = 'False'. *)
Theorem C03_meta_rewrite_inverse : forall m sh fsz nch fs chns ar sr,
  NoDup (keys m) ->
  mget K_acq m = Some (MInts (nch - 1 :: ar)) ->
  mget K_sns m = Some (MInts (nch - 1 :: sr)) ->
  mget K_nsaved m = Some (MInt nch) ->
  mget K_fsize m = Some (MInt fs) ->
  mget K_subset m = Some (MStr (range_str (nch - 1))) ->
  ~ In K_subset_orig (keys m) -> ~ In K_origmeta (keys m) -> ~ In K_shank (keys m) ->
  exists m0, meta_shank_ap m sh chns fsz = Some m0 /\
             meta_recon m0 nch fs = Some (m ++ [(K_origmeta, MStr str_false)]).
Proof. exact meta_inverse. Qed.
Print Assumptions C03_meta_rewrite_inverse.

(* ---- window sizes not above the hard-coded overlap (576) are outside every theorem above.
   The faithful model shows why: a multiple of 12 below the overlap on a shorter recording gives one
   window that is not recognised as the last one (nwin = 2), whose stop index W - 288 cuts the
   chunk: 12 of 200 samples are written (same on the real code, F-C03-b).  W = 576 divides by
   zero; W < 576 with ns > W never terminates (the model runs out of fuel: None). *)
Theorem C03_window_below_overlap_refuted : exists ns W,
  W mod 12 = 0 /\ 0 < W /\ 1 <= ns /\
  firstlast ns W OVERLAP = Some [(0, ns)] /\
  kept_list ns W [(0, ns)] 0 = [(0, 12)] /\ 12 < ns /\
  firstlast 1000 W OVERLAP = None.
Proof.
  exists 200, 300. split; [reflexivity|]. split; [lia|]. split; [lia|].
  split; [vm_compute; reflexivity|]. split; [vm_compute; reflexivity|].
  split; [lia | vm_compute; reflexivity].
Qed.
Print Assumptions C03_window_below_overlap_refuted.

(* ---- glue: the memoised conversion the correspondence runs (Run.run_full) is `roundtrip` itself ---- *)
Theorem C03_run_memo_sound : forall f vals v, memo_apply f (memo_table f vals) v = f v.
Proof. exact memo_sound. Qed.
Print Assumptions C03_run_memo_sound.

(* Non-vacuity: a 2-window, 2-shank recording satisfies the hypotheses and the model computes it. *)
Example C03_example_kept :
  firstlast 1300 1200 OVERLAP = Some [(0, 1200); (624, 1300)] /\
  kept_list 1300 1200 [(0, 1200); (624, 1300)] 0 = [(0, 912); (912, 1300)].
Proof. vm_compute. split; reflexivity. Qed.

Example C03_example_split :
  let data := [[1; 2; 3; 100]; [4; 5; 6; 101]] in
  process_np24 (fun x => x) (fun x => x) 3 1 4 [2; 0; 2] 2 1200 data =
  Some [(0, [1; 3], [[2; 100]; [5; 101]]); (2, [0; 2; 3], [[1; 3; 100]; [4; 6; 101]])] /\
  reconstruct [([1; 3], [[2; 100]; [5; 101]]); ([0; 2; 3], [[1; 3; 100]; [4; 6; 101]])] = Some data.
Proof. vm_compute. split; reflexivity. Qed.
