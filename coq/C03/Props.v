(* C03 — property theorems.  Only statements closed by `exact <lemma>` (or a 1-3 line
   wrapper) and the Print Assumptions that the check collects. *)
From Coq Require Import ZArith List Bool Lia.
From IBL.lib Require Import PyInt.
From IBL.C17 Require Import Model.
From Coq Require Import Reals.
From Flocq Require Import Core BinarySingleNaN.
From IBL.C17 Require FloatCeil.
From IBL.C03 Require Import Model RtLib Proofs Gains Codec MetaProofs EndToEnd AnyGain Lattice Run RunSound.
From IBL.C03 Require Rt_050_512 Rt_050_2048 Rt_050_8192 Rt_060_512 Rt_060_2048 Rt_060_8192
                     Rt_062_512 Rt_062_2048 Rt_062_8192 Rt_sync.
Import ListNotations.
Open Scope Z_scope.

(* ---- every int16 value survives int16 -> float32 volts -> int16, per gain setting ----
   gain num den maxint = float32((float64(num/den) / maxint) / 80); exhaustive kernel
   evaluation over all 65536 values (Rt_*.v), lifted with forallb_forall. *)
Theorem C03_roundtrip_exact_050_512 : forall r, -32768 <= r <= 32767 ->
  roundtrip (gain 5 10 512) r = r.
Proof. exact (rt_of_check _ Rt_050_512.chk). Qed.
Print Assumptions C03_roundtrip_exact_050_512.

Theorem C03_roundtrip_exact_050_2048 : forall r, -32768 <= r <= 32767 ->
  roundtrip (gain 5 10 2048) r = r.
Proof. exact (rt_of_check _ Rt_050_2048.chk). Qed.
Print Assumptions C03_roundtrip_exact_050_2048.

Theorem C03_roundtrip_exact_050_8192 : forall r, -32768 <= r <= 32767 ->
  roundtrip (gain 5 10 8192) r = r.
Proof. exact (rt_of_check _ Rt_050_8192.chk). Qed.
Print Assumptions C03_roundtrip_exact_050_8192.

Theorem C03_roundtrip_exact_060_512 : forall r, -32768 <= r <= 32767 ->
  roundtrip (gain 6 10 512) r = r.
Proof. exact (rt_of_check _ Rt_060_512.chk). Qed.
Print Assumptions C03_roundtrip_exact_060_512.

Theorem C03_roundtrip_exact_060_2048 : forall r, -32768 <= r <= 32767 ->
  roundtrip (gain 6 10 2048) r = r.
Proof. exact (rt_of_check _ Rt_060_2048.chk). Qed.
Print Assumptions C03_roundtrip_exact_060_2048.

Theorem C03_roundtrip_exact_060_8192 : forall r, -32768 <= r <= 32767 ->
  roundtrip (gain 6 10 8192) r = r.
Proof. exact (rt_of_check _ Rt_060_8192.chk). Qed.
Print Assumptions C03_roundtrip_exact_060_8192.

Theorem C03_roundtrip_exact_062_512 : forall r, -32768 <= r <= 32767 ->
  roundtrip (gain 62 100 512) r = r.
Proof. exact (rt_of_check _ Rt_062_512.chk). Qed.
Print Assumptions C03_roundtrip_exact_062_512.

Theorem C03_roundtrip_exact_062_2048 : forall r, -32768 <= r <= 32767 ->
  roundtrip (gain 62 100 2048) r = r.
Proof. exact (rt_of_check _ Rt_062_2048.chk). Qed.
Print Assumptions C03_roundtrip_exact_062_2048.

Theorem C03_roundtrip_exact_062_8192 : forall r, -32768 <= r <= 32767 ->
  roundtrip (gain 62 100 8192) r = r.
Proof. exact (rt_of_check _ Rt_062_8192.chk). Qed.
Print Assumptions C03_roundtrip_exact_062_8192.

(* the sync channel (factor 1.0f) *)
Theorem C03_roundtrip_exact_sync : forall r, -32768 <= r <= 32767 -> roundtrip gain_one r = r.
Proof. exact (rt_of_check _ Rt_sync.chk). Qed.
Print Assumptions C03_roundtrip_exact_sync.

(* ---- ... and for EVERY finite binary32 factor without overflow/underflow ----
   not an enumeration: two roundings to nearest move r by at most 32768*(2^-23+2^-48) < 1/2 and
   rint restores it (Flocq's Bmult/Bdiv/Bnearbyint/Btrunc correctness + relative error of FLT). *)
Theorem C03_roundtrip_any_gain : forall s : f32,
  is_finite s = true ->
  (bpow radix2 (-100) <= Rabs (B2R s))%R -> (Rabs (B2R s) <= bpow radix2 100)%R ->
  forall r, -32768 <= r <= 32767 -> roundtrip s r = r.
Proof. exact roundtrip_any_gain. Qed.
Print Assumptions C03_roundtrip_any_gain.

(* the same under a computable condition on the factor (finite, exponent in [-100, 76]) *)
Theorem C03_roundtrip_any_gain_computable : forall s : f32, ok_gain s = true ->
  forall r, -32768 <= r <= 32767 -> roundtrip s r = r.
Proof. exact roundtrip_ok_gain. Qed.
Print Assumptions C03_roundtrip_any_gain_computable.

(* the hypotheses are met by the nine NP2 settings and by the sync factor *)
Example C03_example_ok_gains :
  forallb (fun g => ok_gain (gain_of g)) np2_gains = true /\ ok_gain gain_one = true /\
  f32_parts (gain 62 100 2048) = [1; 0; 16642998; -42].
Proof. vm_compute. repeat split. Qed.

(* ---- window bookkeeping: the sample ranges the windows contribute tile [0, ns) ----
   For every recording length and every window size above the hard-coded overlap of 576
   (multiples of 12 included, alignment with the recording length not assumed): the
   window loop terminates, and the kept ranges (ind2save margins 288 / W-288, first and
   last window rules, slice clipping) start at 0, end at ns, are adjacent, non-empty and
   in order. *)
Theorem C03_kept_ranges_tile : forall ns W, 1 <= ns -> 576 < W ->
  exists wins, firstlast ns W OVERLAP = Some wins /\
  let ks := kept_list ns W wins 0 in
  length ks = length wins /\
  fst (nth 0 ks (0, 0)) = 0 /\ snd (nth (length ks - 1) ks (0, 0)) = ns /\
  (forall i, (S i < length ks)%nat -> snd (nth i ks (0, 0)) = fst (nth (S i) ks (0, 0))) /\
  (forall i, (i < length ks)%nat ->
     0 <= fst (nth i ks (0, 0)) < snd (nth i ks (0, 0)) /\ snd (nth i ks (0, 0)) <= ns).
Proof. exact pub_tiles. Qed.
Print Assumptions C03_kept_ranges_tile.

(* ---- what the converter writes, for ANY value conversion ----
   every shank file = the first ns rows, converted value by value, restricted to that
   shank's channels followed by the sync channel, in the original order. *)
Theorem C03_split_is_column_subset : forall cap csy napch nsync nc labels ns W data,
  1 <= ns -> 576 < W -> ns <= Z.of_nat (length data) ->
  process_np24 cap csy napch nsync nc labels ns W data =
  Some (map (fun sh => (sh, shank_chns labels nc nsync sh,
                        map (gather (shank_chns labels nc nsync sh))
                            (map (conv_row napch cap csy) (firstn (Z.to_nat ns) data))))
            (shanks_of labels)).
Proof. exact pub_split. Qed.
Print Assumptions C03_split_is_column_subset.

(* ---- the saved-channel subset string codec ----
   NP2Reconstructor._get_chans (spikeglx._get_savedChans_subset chns) = chns for every non-empty
   list of non-negative channel numbers (sorted or not, with or without repeats), at the level of
   the characters of the string (decimal printing, ':' ranges, ',' separators). *)
Theorem C03_subset_codec_roundtrip : forall l, l <> [] -> Forall (fun c => 0 <= c) l ->
  parse_subset (show_subset l) = Some l.
Proof. exact codec_roundtrip. Qed.
Print Assumptions C03_subset_codec_roundtrip.

(* ---- lossless split and exact inverse, end to end, whenever the value conversion is exact ----
   every assignment of the AP channels to shank labels, every window size > 576, every
   reconstruction window size, every rectangular frame: the converter's output is the column
   subsets; the reconstructor reads each shank's channel list back from the subset string the
   converter wrote (its own assertion on that list holds) and reproduces the frame. *)
Theorem C03_split_reconstruct_id : forall cap csy labels ns W Wr data,
  labels <> [] -> 1 <= ns -> 576 < W -> 0 < Wr -> ns = Z.of_nat (length data) ->
  (forall r, In r data -> length r = S (length labels)) ->
  (forall r x, In r data -> In x r -> cap x = x /\ csy x = x) ->
  exists split files,
    process_np24 cap csy (Z.of_nat (length labels)) 1 (Z.of_nat (length labels) + 1) labels ns W data
      = Some split /\
    split = split_spec labels (Z.of_nat (length labels) + 1) 1 data /\
    prepare_files labels split = Some files /\
    reconstruct_w Wr files = Some data.
Proof. exact pub_e2e. Qed.
Print Assumptions C03_split_reconstruct_id.

(* ---- the property for NP2 recordings: all int16 sample values x the nine gain settings ---- *)
Theorem C03_np2_split_lossless_and_inverse : forall g labels ns W data,
  In g np2_gains ->
  labels <> [] -> 1 <= ns -> 576 < W -> ns = Z.of_nat (length data) ->
  (forall r, In r data -> length r = S (length labels)) ->
  (forall r x, In r data -> In x r -> -32768 <= x <= 32767) ->
  exists split files,
    process_np24 (roundtrip (gain_of g)) (roundtrip gain_one)
                 (Z.of_nat (length labels)) 1 (Z.of_nat (length labels) + 1) labels ns W data
      = Some split /\
    split = split_spec labels (Z.of_nat (length labels) + 1) 1 data /\
    prepare_files labels split = Some files /\
    reconstruct files = Some data.
Proof. exact pub_np2_e2e. Qed.
Print Assumptions C03_np2_split_lossless_and_inverse.

(* ---- ... and for any factor satisfying the computable condition (AP and sync) ---- *)
Theorem C03_any_gain_split_lossless_and_inverse : forall sap ssy labels ns W data,
  ok_gain sap = true -> ok_gain ssy = true ->
  labels <> [] -> 1 <= ns -> 576 < W -> ns = Z.of_nat (length data) ->
  (forall r, In r data -> length r = S (length labels)) ->
  (forall r x, In r data -> In x r -> -32768 <= x <= 32767) ->
  exists split files,
    process_np24 (roundtrip sap) (roundtrip ssy)
                 (Z.of_nat (length labels)) 1 (Z.of_nat (length labels) + 1) labels ns W data
      = Some split /\
    split = split_spec labels (Z.of_nat (length labels) + 1) 1 data /\
    prepare_files labels split = Some files /\
    reconstruct files = Some data.
Proof.
  intros sap ssy labels ns W data Ha Hs Hl Hns HW Hlen Hr Hv.
  apply (pub_e2e _ _ labels ns W RECON_WINDOW data); try assumption; [reflexivity|].
  intros r x Hin Hx. pose proof (Hv r x Hin Hx).
  split; now apply roundtrip_ok_gain.
Qed.
Print Assumptions C03_any_gain_split_lossless_and_inverse.

(* ---- metadata: the reconstructor's rewrite undoes the converter's ----
   For a dictionary with unique keys whose acqApLfSy / snsApLfSy start with nch-1, with
   nSavedChans = nch, fileSizeBytes = fs, snsSaveChanSubset = "0:<nch-1>" and without the three
   provenance keys: writing a shank's metadata and rewriting it for the reassembled file gives the
   original dictionary, entry for entry and in order, followed by original_meta = 'False'. *)
Theorem C03_meta_rewrite_inverse : forall m sh fsz nch fs chns ar sr,
  NoDup (keys m) ->
  mget K_acq m = Some (MInts (nch - 1 :: ar)) ->
  mget K_sns m = Some (MInts (nch - 1 :: sr)) ->
  mget K_nsaved m = Some (MInt nch) ->
  mget K_fsize m = Some (MInt fs) ->
  mget K_subset m = Some (MStr (range_str (nch - 1))) ->
  ~ In K_subset_orig (keys m) -> ~ In K_origmeta (keys m) -> ~ In K_shank (keys m) ->
  exists m0, meta_shank_ap m sh chns fsz = Some m0 /\
             meta_recon m0 nch fs = Some (m ++ [(K_origmeta, MStr str_false)]).
Proof. exact meta_inverse. Qed.
Print Assumptions C03_meta_rewrite_inverse.

(* ---- ... also when a .meta is already present in the target folder ----
   In every case the metadata next to the reassembled binary equals the original, entry for entry:
   kept untouched if the original's own .meta is still there (fileSizeBytes = size of the rebuilt file),
   rewritten (original + original_meta) if a stale one with another size is there. *)
Theorem C03_meta_existing_file : forall m sh fsz nch fs chns ar sr,
  NoDup (keys m) ->
  mget K_acq m = Some (MInts (nch - 1 :: ar)) ->
  mget K_sns m = Some (MInts (nch - 1 :: sr)) ->
  mget K_nsaved m = Some (MInt nch) ->
  mget K_fsize m = Some (MInt fs) ->
  mget K_subset m = Some (MStr (range_str (nch - 1))) ->
  ~ In K_subset_orig (keys m) -> ~ In K_origmeta (keys m) -> ~ In K_shank (keys m) ->
  exists m0, meta_shank_ap m sh chns fsz = Some m0 /\
    meta_recon_at (Some m) m0 nch fs = Some m /\
    (forall stale z, mget K_fsize stale = Some (MInt z) -> z <> fs ->
       meta_recon_at (Some stale) m0 nch fs = Some (m ++ [(K_origmeta, MStr str_false)])) /\
    meta_recon_at None m0 nch fs = Some (m ++ [(K_origmeta, MStr str_false)]).
Proof.
  intros m sh fsz nch fs chns ar sr Hnd HA HS HN HF HU H1 H2 H3.
  destruct (meta_inverse m sh fsz nch fs chns ar sr Hnd HA HS HN HF HU H1 H2 H3) as (m0 & Hm0 & Hrec).
  exists m0. split; [exact Hm0|]. split; [now apply meta_existing_kept|]. split; [|exact Hrec].
  intros stale z Hz Hne. now rewrite (meta_existing_stale stale m0 nch fs z Hz Hne).
Qed.
Print Assumptions C03_meta_existing_file.

(* ---- an existing shank folder blocks a second run unless overwrite is requested ---- *)
Theorem C03_rerun_rule : forall existed overwrite,
  process_call existed overwrite =
  if existed then (if overwrite then (1, true) else (0, false)) else (1, true).
Proof. intros [|] [|]; reflexivity. Qed.
Print Assumptions C03_rerun_rule.

(* ---- the converter's own admissibility test is exactly the hypothesis of the theorems above ----
   init_params refuses (AssertionError, nothing opened or written) unless nwindow is a multiple of 12
   above the 576-sample overlap (repo 904fe91 added the second condition); every accepted window
   therefore satisfies `576 < W`, the only window hypothesis of the tiling / lossless theorems. *)
Theorem C03_window_admissibility : forall W,
  params_status W = 0 <-> (W mod 12 = 0 /\ 576 < W).
Proof. exact params_status_spec. Qed.
Print Assumptions C03_window_admissibility.

(* corollaries: for EVERY window the converter accepts *)
Theorem C03_accepted_windows_tile : forall ns W, 1 <= ns -> params_status W = 0 ->
  exists wins, firstlast ns W OVERLAP = Some wins /\
  let ks := kept_list ns W wins 0 in
  length ks = length wins /\
  fst (nth 0 ks (0, 0)) = 0 /\ snd (nth (length ks - 1) ks (0, 0)) = ns /\
  (forall i, (S i < length ks)%nat -> snd (nth i ks (0, 0)) = fst (nth (S i) ks (0, 0))) /\
  (forall i, (i < length ks)%nat ->
     0 <= fst (nth i ks (0, 0)) < snd (nth i ks (0, 0)) /\ snd (nth i ks (0, 0)) <= ns).
Proof. intros ns W Hns HW. apply pub_tiles; [exact Hns | now apply params_status_spec]. Qed.
Print Assumptions C03_accepted_windows_tile.

Theorem C03_accepted_windows_lossless_and_inverse : forall sap ssy labels ns W data,
  ok_gain sap = true -> ok_gain ssy = true -> params_status W = 0 ->
  labels <> [] -> 1 <= ns -> ns = Z.of_nat (length data) ->
  (forall r, In r data -> length r = S (length labels)) ->
  (forall r x, In r data -> In x r -> -32768 <= x <= 32767) ->
  exists split files,
    process_np24 (roundtrip sap) (roundtrip ssy)
                 (Z.of_nat (length labels)) 1 (Z.of_nat (length labels) + 1) labels ns W data
      = Some split /\
    split = split_spec labels (Z.of_nat (length labels) + 1) 1 data /\
    prepare_files labels split = Some files /\
    reconstruct files = Some data.
Proof.
  intros sap ssy labels ns W data Ha Hs HW Hl Hns Hlen Hr Hv.
  apply C03_any_gain_split_lossless_and_inverse; try assumption. now apply params_status_spec.
Qed.
Print Assumptions C03_accepted_windows_lossless_and_inverse.

(* why the second assertion is needed (the window arithmetic below the overlap): a window of 300 on 200
   samples would keep 12 of them; on 1000 samples the window loop would not terminate; both are refused *)
Example C03_example_refused_windows :
  params_status 300 = 1 /\ params_status 576 = 1 /\ params_status 590 = 1 /\ params_status 588 = 0 /\
  kept_list 200 300 [(0, 200)] 0 = [(0, 12)] /\ firstlast 1000 300 OVERLAP = None.
Proof. vm_compute. repeat split. Qed.

(* ---- recording lengths exactly on the window lattice ns = W + k (W - 576) ----
   the window count as the source computes it in binary64 (C17's FloatCeil.nwin_float64, Flocq) is
   exactly k + 1 there (one sample more: k + 2; one less, k >= 1: k + 1), it is the model's nwin, and
   _ind2save's last-window rule therefore applies to window k and to no earlier one. *)
Theorem C03_lattice_window_count : forall W k,
  576 < W -> W < 2 ^ 52 -> 0 <= k -> k * (W - 576) < 2 ^ 53 ->
  let n := FloatCeil.nwin_float64 (W + k * (W - 576)) W 576 in
  n = k + 1 /\ n = nwin (W + k * (W - 576)) W OVERLAP /\
  snd (ind2save W n k) = W /\
  forall i, 0 <= i < k -> snd (ind2save W n i) = W - MARGIN.
Proof. exact lattice_last_window. Qed.
Print Assumptions C03_lattice_window_count.

Theorem C03_lattice_neighbours : forall W k, 577 < W -> W < 2 ^ 52 -> 1 <= k -> k * (W - 576) + 1 < 2 ^ 53 ->
  FloatCeil.nwin_float64 (W + k * (W - 576) + 1) W 576 = k + 2 /\
  FloatCeil.nwin_float64 (W + k * (W - 576) - 1) W 576 = k + 1.
Proof.
  intros W k HW HW2 Hk Hb. split.
  - apply nwin_float64_lattice_plus; lia.
  - apply nwin_float64_lattice_minus; lia.
Qed.
Print Assumptions C03_lattice_neighbours.

Example C03_example_lattice :
  nwin 5424 3000 OVERLAP = 2 /\ kept_list 5424 3000 [(0, 3000); (2424, 5424)] 0 = [(0, 2712); (2712, 5424)] /\
  nwin 17424 9000 OVERLAP = 2 /\ nwin 174144 6000 OVERLAP = 32.
Proof. vm_compute. repeat split. Qed.

(* ---- glue: the memoised conversion the correspondence runs (Run.run_full) is `roundtrip` itself ---- *)
Theorem C03_run_memo_sound : forall f vals v, memo_apply f (memo_table f vals) v = f v.
Proof. exact memo_sound. Qed.
Print Assumptions C03_run_memo_sound.

(* Non-vacuity: a 2-window, 2-shank recording satisfies the hypotheses and the model computes it. *)
Example C03_example_kept :
  firstlast 1300 1200 OVERLAP = Some [(0, 1200); (624, 1300)] /\
  kept_list 1300 1200 [(0, 1200); (624, 1300)] 0 = [(0, 912); (912, 1300)].
Proof. vm_compute. split; reflexivity. Qed.

Example C03_example_split :
  let data := [[1; 2; 3; 100]; [4; 5; 6; 101]] in
  process_np24 (fun x => x) (fun x => x) 3 1 4 [2; 0; 2] 2 1200 data =
  Some [(0, [1; 3], [[2; 100]; [5; 101]]); (2, [0; 2; 3], [[1; 3; 100]; [4; 6; 101]])] /\
  reconstruct [([1; 3], [[2; 100]; [5; 101]]); ([0; 2; 3], [[1; 3; 100]; [4; 6; 101]])] = Some data.
Proof. vm_compute. split; reflexivity. Qed.

(* the codec on a list with a middle singleton, a run, and a bare last element: "0:2,5:5,7:8,384" *)
Example C03_example_codec :
  show_subset [0; 1; 2; 5; 7; 8; 384] =
    [48; 58; 50; 44; 53; 58; 53; 44; 55; 58; 56; 44; 51; 56; 52] /\
  parse_subset (show_subset [0; 1; 2; 5; 7; 8; 384]) = Some [0; 1; 2; 5; 7; 8; 384] /\
  parse_subset (show_subset [5; 3; 4; 4]) = Some [5; 3; 4; 4].
Proof. vm_compute. repeat split. Qed.

(* end to end on the two-shank frame above: strings written, read back, assertion passes *)
Example C03_example_prepare :
  let data := [[1; 2; 3; 100]; [4; 5; 6; 101]] in
  prepare_files [2; 0; 2]
    [(0, [1; 3], [[2; 100]; [5; 101]]); (2, [0; 2; 3], [[1; 3; 100]; [4; 6; 101]])] =
  Some [([1; 3], [[2; 100]; [5; 101]]); ([0; 2; 3], [[1; 3; 100]; [4; 6; 101]])].
Proof. vm_compute. reflexivity. Qed.

(* a dictionary meeting the preconditions of C03_meta_rewrite_inverse (4 channels, 2 foreign keys) *)
Example C03_example_meta :
  let m := [(K_acq, MInts [3; 0; 1]); (100, MTok 7); (K_fsize, MInt 80); (K_nsaved, MInt 4);
            (K_sns, MInts [3; 0; 1]); (K_subset, MStr (range_str 3)); (101, MTok 8)] in
  NoDup (keys m) /\
  exists m0, meta_shank_ap m 2 [0; 2; 3] 60 = Some m0 /\
             mget K_nsaved m0 = Some (MInt 3) /\ mget K_shank m0 = Some (MInt 2) /\
             meta_recon m0 4 80 = Some (m ++ [(K_origmeta, MStr str_false)]).
Proof.
  cbv zeta. split.
  - repeat constructor; cbn; intuition discriminate.
  - eexists. split; [vm_compute; reflexivity|]. vm_compute. repeat split.
Qed.
