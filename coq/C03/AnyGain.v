(* C03 — the int16 -> volts -> int16 path is exact for EVERY finite binary32 factor s with
   2^-100 <= |s| <= 2^100 (no overflow / underflow), not only the nine NP2 settings:
   two roundings to nearest perturb r by at most 32768 * (2^-23 + 2^-48) < 1/2, and rint
   brings the value back.  (Flocq relative-error lemmas; classical reals.) *)
From Coq Require Import ZArith Reals Lia Lra Psatz Bool.
From Flocq Require Import Core BinarySingleNaN Relative.
From IBL.C03 Require Import F32.
Open Scope R_scope.

Local Notation fexp32 := (FLT_exp (-149) 24).
Local Notation rnd32 := (round radix2 fexp32 ZnearestE).

Lemma fexp_eq : SpecFloat.fexp 24 128 = fexp32.
Proof. reflexivity. Qed.

Lemma u_val : / 2 * bpow radix2 (- (24) + 1) = / 16777216.
Proof. simpl. lra. Qed.

Lemma i16_abs r : (-32768 <= r <= 32767)%Z -> Rabs (IZR r) <= 32768.
Proof.
  intros H. rewrite <- abs_IZR. apply IZR_le. lia.
Qed.

Lemma bpow15 : bpow radix2 15 = 32768. Proof. simpl. lra. Qed.
Lemma bpow16 : bpow radix2 16 = 65536. Proof. simpl. lra. Qed.

Lemma z32_exact r : (-32768 <= r <= 32767)%Z ->
  B2R (z32 r) = IZR r /\ is_finite (z32 r) = true.
Proof.
  intros Hr. unfold z32.
  pose proof (binary_normalize_correct 24 128 p32 e32 mode_NE r 0 false) as H. cbv zeta in H.
  rewrite fexp_eq in H. change (round_mode mode_NE) with ZnearestE in H.
  assert (HF : F2R (Float radix2 r 0) = IZR r) by (unfold F2R; simpl; ring).
  rewrite HF in H.
  assert (Hg : generic_format radix2 fexp32 (IZR r)).
  { apply generic_format_FLT. apply (FLT_spec radix2 (-149) 24 (IZR r) (Float radix2 r 0)).
    - now rewrite HF.
    - simpl. lia.
    - simpl. lia. }
  rewrite round_generic in H by (try apply valid_rnd_N; exact Hg).
  rewrite Rlt_bool_true in H.
  - destruct H as (H1 & H2 & _). now split.
  - apply Rle_lt_trans with 32768; [now apply i16_abs|].
    rewrite <- bpow15. apply bpow_lt. lia.
Qed.

Section AnyGain.
Variable s : f32.
Hypothesis Hfin : is_finite s = true.
Hypothesis Hlo : bpow radix2 (-100) <= Rabs (B2R s).
Hypothesis Hhi : Rabs (B2R s) <= bpow radix2 100.

Local Notation S := (B2R s).

Lemma S_nonzero : S <> 0.
Proof using Hlo.
  intros E. rewrite E, Rabs_R0 in Hlo. pose proof (bpow_gt_0 radix2 (-100)). lra.
Qed.

Lemma round_small_no_overflow x e : (e < 128)%Z -> (-149 <= e)%Z ->
  Rabs x <= bpow radix2 e -> Rabs (rnd32 x) < bpow radix2 128.
Proof.
  intros He He' Hx. apply Rle_lt_trans with (bpow radix2 e).
  - apply abs_round_le_generic.
    + apply FLT_exp_valid. reflexivity.
    + apply valid_rnd_N.
    + apply generic_format_FLT_bpow; [reflexivity | exact He'].
    + exact Hx.
  - now apply bpow_lt.
Qed.

Lemma rel_err x : bpow radix2 (-126) <= Rabs x ->
  exists eps, Rabs eps <= / 16777216 /\ rnd32 x = x * (1 + eps).
Proof.
  intros Hx.
  destruct (relative_error_N_FLT_ex radix2 (-149) 24 ltac:(lia) (fun z => negb (Z.even z)) x)
    as (eps & He & Hr).
  { exact Hx. }
  exists eps. split; [now rewrite <- u_val | exact Hr].
Qed.

Theorem roundtrip_any_gain r : (-32768 <= r <= 32767)%Z -> roundtrip s r = r.
Proof using Hfin Hlo Hhi.
  intros Hr. pose proof S_nonzero as HS.
  destruct (z32_exact r Hr) as (Hx & Hxf).
  pose proof (i16_abs r Hr) as HRa.
  unfold roundtrip, sample2v, v2sample, mul32, div32, rint32, trunc32.
  set (x := z32 r) in *.
  (* the product *)
  pose proof (Bmult_correct 24 128 p32 e32 mode_NE x s) as HM.
  rewrite fexp_eq in HM. change (round_mode mode_NE) with ZnearestE in HM. rewrite Hx in HM.
  assert (HRS : Rabs (IZR r * S) <= bpow radix2 115).
  { rewrite Rabs_mult. change 115%Z with (15 + 100)%Z. rewrite bpow_plus, bpow15.
    apply Rmult_le_compat; try apply Rabs_pos; assumption. }
  rewrite Rlt_bool_true in HM by (apply (round_small_no_overflow _ 115); [lia | lia | exact HRS]).
  destruct HM as (HMv & HMf & _). rewrite Hxf, Hfin in HMf. cbn [andb] in HMf.
  set (v := Bmult mode_NE x s) in *.
  (* r = 0 is immediate; otherwise use the relative error of both roundings *)
  assert (HQ : Rabs (rnd32 (B2R v / S) - IZR r) < / 2 /\ Rabs (B2R v / S) <= bpow radix2 16).
  { destruct (Z.eq_dec r 0) as [->|Hr0].
    - rewrite HMv. replace (0 * S) with 0 by ring. rewrite round_0 by apply valid_rnd_N.
      replace (0 / S) with 0 by (field; exact HS). rewrite round_0 by apply valid_rnd_N.
      replace (0 - 0) with 0 by ring. rewrite Rabs_R0. pose proof (bpow_gt_0 radix2 16). lra.
    - assert (HR1 : 1 <= Rabs (IZR r)).
      { rewrite <- abs_IZR. apply (IZR_le 1). lia. }
      destruct (rel_err (IZR r * S)) as (e1 & He1 & HE1).
      { rewrite Rabs_mult. apply Rle_trans with (1 * bpow radix2 (-100)).
        - rewrite Rmult_1_l. apply bpow_le. lia.
        - apply Rmult_le_compat; try lra; apply bpow_ge_0. }
      assert (HVS : B2R v / S = IZR r * (1 + e1)).
      { rewrite HMv, HE1. field. exact HS. }
      rewrite HVS.
      assert (He1' : -/16777216 <= e1 <= /16777216) by (apply Rabs_le_inv; exact He1).
      assert (H1e : Rabs (1 + e1) <= 2 /\ / 2 <= Rabs (1 + e1)).
      { rewrite Rabs_pos_eq by lra. lra. }
      destruct (rel_err (IZR r * (1 + e1))) as (e2 & He2 & HE2).
      { rewrite Rabs_mult. apply Rle_trans with (1 * / 2).
        - rewrite Rmult_1_l. apply Rle_trans with (bpow radix2 (-1)); [apply bpow_le; lia | simpl; lra].
        - apply Rmult_le_compat; lra. }
      assert (He2' : -/16777216 <= e2 <= /16777216) by (apply Rabs_le_inv; exact He2).
      split.
      + rewrite HE2.
        replace (IZR r * (1 + e1) * (1 + e2) - IZR r) with (IZR r * (e1 + e2 + e1 * e2)) by ring.
        rewrite Rabs_mult.
        assert (Hb : Rabs (e1 + e2 + e1 * e2) <= / 4194304).
        { apply Rabs_le. split; nra. }
        apply Rle_lt_trans with (32768 * / 4194304); [|lra].
        apply Rmult_le_compat; try apply Rabs_pos; assumption.
      + rewrite Rabs_mult, bpow16. replace 65536 with (32768 * 2) by lra.
        apply Rmult_le_compat; try apply Rabs_pos; lra. }
  destruct HQ as (HQ1 & HQ2).
  (* the quotient *)
  pose proof (Bdiv_correct 24 128 p32 e32 mode_NE v s HS) as HD.
  rewrite fexp_eq in HD. change (round_mode mode_NE) with ZnearestE in HD.
  rewrite Rlt_bool_true in HD by (apply (round_small_no_overflow _ 16); [lia | lia | exact HQ2]).
  destruct HD as (HDv & _).
  set (q := Bdiv mode_NE v s) in *.
  (* rint and the cast *)
  destruct (Bnearbyint_correct 24 128 e32 mode_NE q) as (HN & _).
  change (round_mode mode_NE) with ZnearestE in HN. rewrite round_FIX_IZR in HN.
  assert (HZ : ZnearestE (B2R q) = r).
  { apply Znearest_imp. rewrite HDv. exact HQ1. }
  rewrite HZ in HN.
  pose proof (Btrunc_correct 24 128 e32 (Bnearbyint (prec_lt_emax_:=e32) mode_NE q)) as HT.
  rewrite HN, round_FIX_IZR, Ztrunc_IZR in HT. apply eq_IZR in HT.
  rewrite HT. unfold i16wrap. rewrite Z.mod_small by lia. lia.
Qed.
End AnyGain.

(* a computable sufficient condition: finite, mantissa below 2^24, exponent in [-100, 76] *)
Definition ok_gain (s : f32) : bool :=
  match s with
  | B754_finite _ m e _ => ((Zpos m <? 16777216) && (-100 <=? e) && (e <=? 76))%Z
  | _ => false
  end.

Lemma ok_gain_bounds s : ok_gain s = true ->
  is_finite s = true /\ bpow radix2 (-100) <= Rabs (B2R s) /\ Rabs (B2R s) <= bpow radix2 100.
Proof.
  destruct s as [sg|sg| |sg m e Hb]; cbn [ok_gain]; try discriminate. intros H.
  apply andb_true_iff in H as [H He2]. apply andb_true_iff in H as [Hm He1].
  apply Z.ltb_lt in Hm. apply Z.leb_le in He1, He2.
  split; [reflexivity|]. cbn [B2R]. unfold F2R. cbn [Fnum Fexp].
  rewrite Rabs_mult, <- abs_IZR, (Rabs_pos_eq (bpow radix2 e)) by apply bpow_ge_0.
  replace (Z.abs (cond_Zopp sg (Z.pos m))) with (Z.pos m) by (destruct sg; reflexivity).
  assert (H1 : 1 <= IZR (Z.pos m)) by (apply (IZR_le 1); lia).
  assert (H2 : IZR (Z.pos m) <= bpow radix2 24).
  { change (bpow radix2 24) with (IZR 16777216). apply IZR_le. lia. }
  pose proof (bpow_ge_0 radix2 e) as Hp. split.
  - apply Rle_trans with (1 * bpow radix2 e); [rewrite Rmult_1_l; apply bpow_le; lia|].
    apply Rmult_le_compat_r; assumption.
  - apply Rle_trans with (bpow radix2 24 * bpow radix2 e).
    + apply Rmult_le_compat_r; assumption.
    + rewrite <- bpow_plus. apply bpow_le. lia.
Qed.

Theorem roundtrip_ok_gain s : ok_gain s = true ->
  forall r, (-32768 <= r <= 32767)%Z -> roundtrip s r = r.
Proof.
  intros H r Hr. destruct (ok_gain_bounds s H) as (Hf & Hl & Hh).
  exact (roundtrip_any_gain s Hf Hl Hh r Hr).
Qed.
