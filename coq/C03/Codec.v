(* C03 — the saved-channel subset string codec round-trips:
   NP2Reconstructor._get_chans (spikeglx._get_savedChans_subset chns) = chns. *)
From Coq Require Import ZArith NArith List Bool Lia Decimal DecimalN DecimalPos.
From IBL.lib Require Import PyInt.
From IBL.C03 Require Import Model.
Import ListNotations.
Open Scope Z_scope.

(* ---- decimal printing / parsing ---- *)
Definition is_digit (c : Z) : Prop := 48 <= c <= 57.

Lemma chars_uint_chars u : chars_uint (uint_chars u) = Some u.
Proof. induction u; cbn [uint_chars chars_uint]; try rewrite IHu; reflexivity. Qed.

Lemma uint_chars_digits u : Forall is_digit (uint_chars u).
Proof. induction u; cbn [uint_chars]; constructor; try assumption; unfold is_digit; lia. Qed.

Lemma uint_chars_nonnil u : u <> Nil -> uint_chars u <> [].
Proof. destruct u; cbn [uint_chars]; congruence. Qed.

Lemma show_int_digits n : Forall is_digit (show_int n).
Proof. apply uint_chars_digits. Qed.

Lemma show_int_nonnil n : show_int n <> [].
Proof.
  unfold show_int. apply uint_chars_nonnil. destruct (Z.to_N n); cbn [N.to_uint].
  - discriminate.
  - apply Unsigned.to_uint_nonnil.
Qed.

Lemma parse_show_int n : 0 <= n -> parse_int (show_int n) = Some n.
Proof.
  intros Hn. unfold parse_int. pose proof (show_int_nonnil n) as Hne.
  destruct (show_int n) as [|c t] eqn:E; [contradiction|]. rewrite <- E. unfold show_int.
  rewrite chars_uint_chars, DecimalN.Unsigned.of_to. f_equal. lia.
Qed.

(* ---- split / join ---- *)
Lemma split_cons sep c t :
  split sep (c :: t) = match split sep t with
                       | p :: rest => if c =? sep then [] :: p :: rest else (c :: p) :: rest
                       | [] => [[c]]
                       end.
Proof. reflexivity. Qed.

Lemma split_nonnil sep s : split sep s <> [].
Proof.
  destruct s as [|c t]; [discriminate|]. rewrite split_cons.
  destruct (split sep t); [discriminate|]. destruct (c =? sep); discriminate.
Qed.

Lemma split_nosep sep s : Forall (fun c => c <> sep) s -> split sep s = [s].
Proof.
  induction s as [|c t IH]; intros H; [reflexivity|]. inversion H as [|? ? Hc Ht]; subst.
  rewrite split_cons, (IH Ht). destruct (Z.eqb_spec c sep); [contradiction | reflexivity].
Qed.

Lemma split_app sep p rest : Forall (fun c => c <> sep) p ->
  split sep (p ++ sep :: rest) = p :: split sep rest.
Proof.
  induction p as [|c p IH]; intros H.
  - change ([] ++ sep :: rest) with (sep :: rest). rewrite split_cons.
    pose proof (split_nonnil sep rest).
    destruct (split sep rest) as [|q r]; [contradiction|]. now rewrite Z.eqb_refl.
  - inversion H as [|? ? Hc Hp]; subst.
    change ((c :: p) ++ sep :: rest) with (c :: (p ++ sep :: rest)). rewrite split_cons, (IH Hp).
    destruct (Z.eqb_spec c sep); [contradiction | reflexivity].
Qed.

Lemma split_join sep pieces : pieces <> [] ->
  Forall (Forall (fun c => c <> sep)) pieces -> split sep (join sep pieces) = pieces.
Proof.
  induction pieces as [|p rest IH]; intros Hne H; [contradiction|].
  inversion H as [|? ? Hp Hr]; subst.
  destruct rest as [|q rest]; cbn [join].
  - now apply split_nosep.
  - rewrite split_app by exact Hp. f_equal. apply IH; [discriminate | exact Hr].
Qed.

(* ---- groups ---- *)
Definition expand (g : list (Z * Z)) : list Z := flat_map (fun ab => arange_incl (fst ab) (snd ab)) g.

Lemma arange_incl_one a : arange_incl a a = [a].
Proof.
  unfold arange_incl. replace (a + 1 - a) with 1 by lia.
  change (zrange (Z.to_nat 1)) with [0]. cbn [map]. f_equal. lia.
Qed.

Lemma arange_incl_cons a b : a <= b -> arange_incl a b = a :: arange_incl (a + 1) b.
Proof.
  intros H. unfold arange_incl, zrange.
  replace (Z.to_nat (b + 1 - a)) with (S (Z.to_nat (b + 1 - (a + 1)))) by lia.
  cbn [seq map]. f_equal; [lia|]. rewrite <- seq_shift, !map_map. apply map_ext. intros i. lia.
Qed.

Lemma groups_head x t : exists b rest, groups x t = (x, b) :: rest /\ x <= b.
Proof.
  revert x. induction t as [|y t IH]; intros x; cbn [groups].
  - exists x, []. split; [reflexivity | lia].
  - destruct (IH y) as (b & rest & E & Hb). rewrite E.
    destruct (y - x =? 1) eqn:Ey.
    + exists b, rest. split; [reflexivity|]. apply Z.eqb_eq in Ey. lia.
    + exists x, ((y, b) :: rest). split; [reflexivity | lia].
Qed.

Lemma expand_groups x t : expand (groups x t) = x :: t.
Proof.
  revert x. induction t as [|y t IH]; intros x; cbn [groups].
  - unfold expand. cbn [flat_map fst snd]. now rewrite arange_incl_one, app_nil_r.
  - pose proof (IH y) as Hy. destruct (groups_head y t) as (b & rest & E & Hb). rewrite E in *.
    unfold expand in *. cbn [flat_map fst snd] in *.
    destruct (Z.eqb_spec (y - x) 1) as [Ey|Ey]; cbn [flat_map fst snd].
    + rewrite arange_incl_cons by lia. replace (x + 1) with y by lia.
      rewrite <- app_comm_cons. f_equal. exact Hy.
    + rewrite arange_incl_one, <- app_comm_cons, app_nil_l. f_equal. exact Hy.
Qed.

Definition nonneg_group (ab : Z * Z) : Prop := 0 <= fst ab /\ 0 <= snd ab.

Lemma groups_nonneg x t : 0 <= x -> Forall (fun c => 0 <= c) t -> Forall nonneg_group (groups x t).
Proof.
  revert x. induction t as [|y t IH]; intros x Hx Ht; cbn [groups].
  - constructor; [split; assumption | constructor].
  - inversion Ht as [|? ? Hy Ht']; subst. pose proof (IH y Hy Ht') as HG.
    destruct (groups y t) as [|[a b] rest]; [constructor; [split; assumption | constructor]|].
    inversion HG as [|? ? Hab Hrest]; subst. destruct Hab as [Ha Hb]; cbn [fst snd] in *.
    destruct (y - x =? 1).
    + constructor; [split; assumption | exact Hrest].
    + constructor; [split; assumption|]. constructor; [split; assumption | exact Hrest].
Qed.

(* ---- rendering and parsing one group ---- *)
Lemma digit_not c sep : is_digit c -> (sep < 48 \/ 57 < sep) -> c <> sep.
Proof. unfold is_digit. lia. Qed.

Lemma digits_no sep l : (sep < 48 \/ 57 < sep) -> Forall is_digit l -> Forall (fun c => c <> sep) l.
Proof. intros Hs H. eapply Forall_impl; [|exact H]. intros c Hc. now apply digit_not. Qed.

Definition render_pair (a b : Z) : list Z := show_int a ++ COLON :: show_int b.

Lemma parse_group_pair a b : 0 <= a -> 0 <= b -> parse_group (render_pair a b) = Some (arange_incl a b).
Proof.
  intros Ha Hb. unfold parse_group, render_pair.
  rewrite split_app by (apply digits_no; [unfold COLON; lia | apply show_int_digits]).
  rewrite split_nosep by (apply digits_no; [unfold COLON; lia | apply show_int_digits]).
  now rewrite !parse_show_int.
Qed.

Lemma parse_group_bare a : 0 <= a -> parse_group (show_int a) = Some [a].
Proof.
  intros Ha. unfold parse_group.
  rewrite split_nosep by (apply digits_no; [unfold COLON; lia | apply show_int_digits]).
  now rewrite parse_show_int.
Qed.

Lemma render_pair_nocomma a b : Forall (fun c => c <> COMMA) (render_pair a b).
Proof.
  unfold render_pair. apply Forall_app. split; [|constructor].
  - apply digits_no; [unfold COMMA; lia | apply show_int_digits].
  - unfold COMMA, COLON. lia.
  - apply digits_no; [unfold COMMA; lia | apply show_int_digits].
Qed.

Lemma show_groups_nocomma g : Forall (Forall (fun c => c <> COMMA)) (show_groups g).
Proof.
  induction g as [|[a b] g IH]; [constructor|].
  destruct g as [|h g]; cbn [show_groups].
  - constructor; [|constructor]. destruct (a =? b).
    + apply digits_no; [unfold COMMA; lia | apply show_int_digits].
    + apply render_pair_nocomma.
  - constructor; [apply render_pair_nocomma | exact IH].
Qed.

Lemma show_groups_nonnil g : g <> [] -> show_groups g <> [].
Proof. destruct g as [|[a b] [|h g]]; cbn [show_groups]; [congruence | discriminate | discriminate]. Qed.

Lemma parse_show_groups g : Forall nonneg_group g ->
  concat_opt (map parse_group (show_groups g)) = Some (expand g).
Proof.
  induction g as [|[a b] g IH]; intros H; [reflexivity|].
  inversion H as [|? ? [Ha Hb] Hg]; subst; cbn [fst snd] in *.
  destruct g as [|h g].
  - cbn [show_groups map concat_opt]. unfold expand. cbn [flat_map fst snd].
    destruct (Z.eqb_spec a b) as [->|Hne].
    + rewrite parse_group_bare by assumption. now rewrite arange_incl_one.
    + fold (render_pair a b). now rewrite parse_group_pair by assumption.
  - change (show_groups ((a, b) :: h :: g)) with (render_pair a b :: show_groups (h :: g)).
    cbn [map concat_opt]. rewrite parse_group_pair by assumption. rewrite (IH Hg). reflexivity.
Qed.

(* ---- the codec theorem ---- *)
Theorem codec_roundtrip l : l <> [] -> Forall (fun c => 0 <= c) l ->
  parse_subset (show_subset l) = Some l.
Proof.
  intros Hne Hpos. destruct l as [|x t]; [contradiction|].
  inversion Hpos as [|? ? Hx Ht]; subst.
  unfold parse_subset, show_subset.
  destruct (groups_head x t) as (b & rest & E & _).
  rewrite split_join.
  - rewrite parse_show_groups by (now apply groups_nonneg). now rewrite expand_groups.
  - apply show_groups_nonnil. rewrite E. discriminate.
  - apply show_groups_nocomma.
Qed.
