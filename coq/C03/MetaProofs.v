(* C03 — the two metadata rewrites are inverse of each other (up to the provenance flag). *)
From Coq Require Import ZArith List Bool Lia.
From IBL.C03 Require Import Model.
Import ListNotations.
Open Scope Z_scope.

Definition keys (m : meta) : list Z := map fst m.

(* in-place update of an existing key, as a map *)
Definition upd1 (k : Z) (v : mval) (kv : Z * mval) : Z * mval :=
  if fst kv =? k then (k, v) else kv.
Definition mapk (k : Z) (v : mval) (m : meta) : meta := map (upd1 k v) m.

Lemma upd1_pair k v k0 x : upd1 k v (k0, x) = (k0, if k0 =? k then v else x).
Proof. unfold upd1. cbn [fst]. destruct (Z.eqb_spec k0 k); congruence. Qed.

Lemma keys_mapk k v m : keys (mapk k v m) = keys m.
Proof.
  unfold keys, mapk, upd1. rewrite map_map. apply map_ext. intros [k' v']. cbn [fst].
  destruct (Z.eqb_spec k' k); cbn [fst]; congruence.
Qed.

Lemma mapk_absent k v m : ~ In k (keys m) -> mapk k v m = m.
Proof.
  unfold keys, mapk, upd1. induction m as [|[k' v'] t IH]; intros H; [reflexivity|].
  cbn [map fst In] in *. destruct (Z.eqb_spec k' k) as [E|E]; [exfalso; apply H; now left|].
  f_equal. apply IH. intros Hin. apply H. now right.
Qed.

Lemma mset_present k v m : In k (keys m) -> NoDup (keys m) -> mset k v m = mapk k v m.
Proof.
  unfold keys. induction m as [|[k' v'] t IH]; intros Hin Hnd; [contradiction|].
  cbn [map fst In] in *. inversion Hnd as [|? ? Hni Hnd']; subst.
  cbn [mset]. unfold mapk. cbn [map]. fold (mapk k v t). rewrite upd1_pair.
  destruct (Z.eqb_spec k' k) as [E|E].
  - subst k'. f_equal. symmetry. now apply mapk_absent.
  - f_equal. apply IH; [|exact Hnd']. destruct Hin; [contradiction | assumption].
Qed.

Lemma mset_absent k v m : ~ In k (keys m) -> mset k v m = m ++ [(k, v)].
Proof.
  unfold keys. induction m as [|[k' v'] t IH]; intros H; [reflexivity|].
  cbn [map fst In mset app] in *. destruct (Z.eqb_spec k' k) as [E|E]; [exfalso; apply H; now left|].
  f_equal. apply IH. intros Hin. apply H. now right.
Qed.

Lemma mget_none k m : ~ In k (keys m) -> mget k m = None.
Proof.
  unfold keys. induction m as [|[k' v'] t IH]; intros H; [reflexivity|].
  cbn [map fst In mget] in *. destruct (Z.eqb_spec k' k) as [E|E]; [exfalso; apply H; now left|].
  apply IH. intros Hin. apply H. now right.
Qed.

Lemma mget_some_in k v m : mget k m = Some v -> In (k, v) m.
Proof.
  induction m as [|[k' v'] t IH]; cbn [mget]; [discriminate|].
  destruct (Z.eqb_spec k' k) as [E|E]; intros H.
  - injection H as <-. subst. now left.
  - right. now apply IH.
Qed.

Lemma mget_some_key k v m : mget k m = Some v -> In k (keys m).
Proof. intros H. apply mget_some_in in H. unfold keys. apply in_map_iff. now exists (k, v). Qed.

Lemma mget_in k v m : NoDup (keys m) -> In (k, v) m -> mget k m = Some v.
Proof.
  unfold keys. induction m as [|[k' v'] t IH]; intros Hnd Hin; [contradiction|].
  cbn [map fst] in Hnd. inversion Hnd as [|? ? Hni Hnd']; subst. cbn [mget].
  destruct Hin as [E|Hin].
  - injection E as -> ->. now rewrite Z.eqb_refl.
  - destruct (Z.eqb_spec k' k) as [E|E]; [|now apply IH].
    subst k'. exfalso. apply Hni. apply in_map_iff. now exists (k, v).
Qed.

Lemma mget_mapk_same k v m : In k (keys m) -> mget k (mapk k v m) = Some v.
Proof.
  unfold keys, mapk, upd1. induction m as [|[k' v'] t IH]; intros H; [contradiction|].
  cbn [map fst In mget] in *. destruct (Z.eqb_spec k' k) as [E|E]; cbn [mget].
  - now rewrite Z.eqb_refl.
  - destruct (Z.eqb_spec k' k); [contradiction|]. apply IH. destruct H; [contradiction | assumption].
Qed.

Lemma mget_mapk_other k k' v m : k <> k' -> mget k (mapk k' v m) = mget k m.
Proof.
  intros Hne. unfold mapk, upd1. induction m as [|[k0 v0] t IH]; [reflexivity|].
  cbn [map fst mget]. destruct (Z.eqb_spec k0 k') as [E|E]; cbn [mget].
  - subst k0. destruct (Z.eqb_spec k' k); [congruence | exact IH].
  - destruct (Z.eqb_spec k0 k); [reflexivity | exact IH].
Qed.

Lemma mget_app k m t :
  mget k (m ++ t) = match mget k m with Some v => Some v | None => mget k t end.
Proof.
  induction m as [|[k' v'] m IH]; [reflexivity|]. cbn [app mget].
  destruct (k' =? k); [reflexivity | exact IH].
Qed.

Lemma mset_app_present k v m t : In k (keys m) -> mset k v (m ++ t) = mset k v m ++ t.
Proof.
  unfold keys. induction m as [|[k' v'] m IH]; intros H; [contradiction|].
  cbn [map fst In app mset] in *. destruct (Z.eqb_spec k' k) as [E|E]; [reflexivity|].
  cbn [app]. f_equal. apply IH. destruct H; [contradiction | assumption].
Qed.

Lemma mpop_app_absent k m t : ~ In k (keys m) -> mpop k (m ++ t) = m ++ mpop k t.
Proof.
  unfold keys. induction m as [|[k' v'] m IH]; intros H; [reflexivity|].
  cbn [map fst In app mpop] in *. destruct (Z.eqb_spec k' k) as [E|E]; [exfalso; apply H; now left|].
  f_equal. apply IH. intros Hin. apply H. now right.
Qed.

Lemma map_id_in' {A} (f : A -> A) l : (forall x, In x l -> f x = x) -> map f l = l.
Proof.
  induction l as [|a l IH]; intros H; [reflexivity|]. cbn [map].
  rewrite (H a (or_introl eq_refl)), IH; [reflexivity|]. intros x Hx. apply H. now right.
Qed.

Section Inverse.
Variables (m : meta) (sh fsz nch fs : Z) (chns ar sr : list Z).
Hypothesis Hnd : NoDup (keys m).
Hypothesis HA : mget K_acq m = Some (MInts (nch - 1 :: ar)).
Hypothesis HS : mget K_sns m = Some (MInts (nch - 1 :: sr)).
Hypothesis HN : mget K_nsaved m = Some (MInt nch).
Hypothesis HF : mget K_fsize m = Some (MInt fs).
Hypothesis HU : mget K_subset m = Some (MStr (range_str (nch - 1))).
Hypothesis Hso : ~ In K_subset_orig (keys m).
Hypothesis Hom : ~ In K_origmeta (keys m).
Hypothesis Hsh : ~ In K_shank (keys m).

Local Notation n := (Z.of_nat (length chns)).

(* the original entries with the five rewritten fields replaced *)
Definition shank_body : meta :=
  mapk K_subset (MStr (range_str (n - 1)))
    (mapk K_fsize (MInt fsz)
      (mapk K_nsaved (MInt n)
        (mapk K_sns (MInts (n - 1 :: sr))
          (mapk K_acq (MInts (n - 1 :: ar)) m)))).

Definition shank_tail : meta :=
  [(K_subset_orig, MStr (show_subset chns)); (K_origmeta, MStr str_false); (K_shank, MInt sh)].

Lemma keys_body : keys shank_body = keys m.
Proof. unfold shank_body. now rewrite !keys_mapk. Qed.

Ltac kin H := apply mget_some_key in H.

Lemma shank_meta_closed :
  meta_shank_ap m sh chns fsz = Some (shank_body ++ shank_tail).
Proof using Hnd HA HS HN HF HU Hso Hom Hsh.
  pose proof (mget_some_key _ _ _ HA) as IA. pose proof (mget_some_key _ _ _ HS) as IS.
  pose proof (mget_some_key _ _ _ HN) as IN. pose proof (mget_some_key _ _ _ HF) as IF.
  pose proof (mget_some_key _ _ _ HU) as IU.
  unfold meta_shank_ap, mset0. rewrite HA.
  rewrite (mset_present K_acq _ m IA Hnd).
  set (m1 := mapk K_acq (MInts (n - 1 :: ar)) m).
  assert (K1 : keys m1 = keys m) by apply keys_mapk.
  assert (G1 : mget K_sns m1 = Some (MInts (nch - 1 :: sr)))
    by (unfold m1; rewrite mget_mapk_other by discriminate; exact HS).
  rewrite G1.
  rewrite (mset_present K_sns _ m1) by (rewrite K1; assumption).
  set (m2 := mapk K_sns (MInts (n - 1 :: sr)) m1).
  assert (K2 : keys m2 = keys m) by (unfold m2; now rewrite keys_mapk).
  rewrite (mset_present K_nsaved _ m2) by (rewrite K2; assumption).
  set (m3 := mapk K_nsaved (MInt n) m2).
  assert (K3 : keys m3 = keys m) by (unfold m3; now rewrite keys_mapk).
  rewrite (mset_present K_fsize _ m3) by (rewrite K3; assumption).
  set (m4 := mapk K_fsize (MInt fsz) m3).
  assert (K4 : keys m4 = keys m) by (unfold m4; now rewrite keys_mapk).
  rewrite (mset_absent K_subset_orig _ m4) by (rewrite K4; assumption).
  rewrite (mset_app_present K_subset _ m4) by (rewrite K4; assumption).
  rewrite (mset_present K_subset _ m4) by (rewrite K4; assumption).
  set (m5 := mapk K_subset (MStr (range_str (n - 1))) m4).
  assert (K5 : keys m5 = keys m) by (unfold m5; now rewrite keys_mapk).
  rewrite (mset_absent K_origmeta).
  2:{ unfold keys. rewrite map_app. fold (keys m5). rewrite K5. intros H. apply in_app_or in H.
      destruct H as [H|H]; [contradiction|]. cbn in H. destruct H as [H|[]]. discriminate. }
  rewrite (mset_absent K_shank).
  2:{ unfold keys. rewrite !map_app. fold (keys m5). rewrite K5. intros H. apply in_app_or in H.
      destruct H as [H|H]; [apply in_app_or in H; destruct H as [H|H]; [contradiction|]|];
        cbn in H; destruct H as [H|[]]; discriminate. }
  f_equal. unfold shank_body, shank_tail. fold m1 m2 m3 m4 m5. now rewrite <- !app_assoc.
Qed.

(* restoring the five fields gives back every original entry *)
Lemma restore_body :
  mapk K_subset (MStr (range_str (nch - 1)))
    (mapk K_fsize (MInt fs)
      (mapk K_nsaved (MInt nch)
        (mapk K_sns (MInts (nch - 1 :: sr))
          (mapk K_acq (MInts (nch - 1 :: ar)) shank_body)))) = m.
Proof using Hnd HA HS HN HF HU.
  unfold shank_body, mapk. rewrite !map_map. apply map_id_in'. intros [k0 v0] Hin.
  pose proof (mget_in k0 v0 m Hnd Hin) as Hg.
  rewrite !upd1_pair. f_equal.
  unfold K_acq, K_sns, K_nsaved, K_fsize, K_subset in *.
  destruct (Z.eqb_spec k0 5) as [->|N5]; [congruence|].
  destruct (Z.eqb_spec k0 4) as [->|N4]; [congruence|].
  destruct (Z.eqb_spec k0 3) as [->|N3]; [congruence|].
  destruct (Z.eqb_spec k0 2) as [->|N2]; [congruence|].
  destruct (Z.eqb_spec k0 1) as [->|N1]; [congruence|].
  reflexivity.
Qed.

Theorem meta_inverse :
  exists m0, meta_shank_ap m sh chns fsz = Some m0 /\
             meta_recon m0 nch fs = Some (m ++ [(K_origmeta, MStr str_false)]).
Proof using Hnd HA HS HN HF HU Hso Hom Hsh.
  exists (shank_body ++ shank_tail). split; [exact shank_meta_closed|].
  pose proof (mget_some_key _ _ _ HA) as IA. pose proof (mget_some_key _ _ _ HS) as IS.
  pose proof (mget_some_key _ _ _ HN) as IN. pose proof (mget_some_key _ _ _ HF) as IF.
  pose proof (mget_some_key _ _ _ HU) as IU.
  pose proof keys_body as KB.
  assert (Hndb : NoDup (keys shank_body)) by (now rewrite KB).
  (* current values of acqApLfSy / snsApLfSy in the shank metadata *)
  assert (GA : mget K_acq shank_body = Some (MInts (n - 1 :: ar))).
  { unfold shank_body. rewrite !(mget_mapk_other K_acq) by discriminate. now apply mget_mapk_same. }
  unfold meta_recon, mset0.
  rewrite mget_app, GA.
  rewrite mset_app_present by (rewrite KB; assumption).
  rewrite (mset_present K_acq _ shank_body) by (rewrite ?KB; assumption).
  set (b1 := mapk K_acq (MInts (nch - 1 :: ar)) shank_body).
  assert (K1 : keys b1 = keys m) by (unfold b1; now rewrite keys_mapk).
  assert (GS : mget K_sns b1 = Some (MInts (n - 1 :: sr))).
  { unfold b1, shank_body. rewrite !(mget_mapk_other K_sns) by discriminate.
    apply mget_mapk_same. now rewrite keys_mapk. }
  rewrite mget_app, GS.
  rewrite mset_app_present by (rewrite K1; assumption).
  rewrite (mset_present K_sns _ b1) by (rewrite ?K1; try assumption; now rewrite <- K1 in Hnd).
  set (b2 := mapk K_sns (MInts (nch - 1 :: sr)) b1).
  assert (K2 : keys b2 = keys m) by (unfold b2; now rewrite keys_mapk).
  (* shank and subset_orig keys are present (in the tail) *)
  assert (Gsh : mget K_shank (b2 ++ shank_tail) = Some (MInt sh)).
  { rewrite mget_app, mget_none by (rewrite K2; assumption). reflexivity. }
  assert (Gso : mget K_subset_orig (b2 ++ shank_tail) = Some (MStr (show_subset chns))).
  { rewrite mget_app, mget_none by (rewrite K2; assumption). reflexivity. }
  rewrite Gsh, Gso.
  rewrite mset_app_present by (rewrite K2; assumption).
  rewrite (mset_present K_nsaved _ b2) by (rewrite ?K2; try assumption; now rewrite <- K2 in Hnd).
  set (b3 := mapk K_nsaved (MInt nch) b2).
  assert (K3 : keys b3 = keys m) by (unfold b3; now rewrite keys_mapk).
  rewrite mset_app_present by (rewrite K3; assumption).
  rewrite (mset_present K_fsize _ b3) by (rewrite ?K3; try assumption; now rewrite <- K3 in Hnd).
  set (b4 := mapk K_fsize (MInt fs) b3).
  assert (K4 : keys b4 = keys m) by (unfold b4; now rewrite keys_mapk).
  rewrite mset_app_present by (rewrite K4; assumption).
  rewrite (mset_present K_subset _ b4) by (rewrite ?K4; try assumption; now rewrite <- K4 in Hnd).
  assert (Hb : mapk K_subset (MStr (range_str (nch - 1))) b4 = m) by exact restore_body.
  rewrite Hb.
  rewrite mpop_app_absent by assumption. rewrite mpop_app_absent by assumption.
  reflexivity.
Qed.
End Inverse.

(* the .meta of the original is still in place with the right size: it is kept as it is *)
Lemma meta_existing_kept me m0 nch fs :
  mget K_fsize me = Some (MInt fs) -> meta_recon_at (Some me) m0 nch fs = Some me.
Proof. intros H. unfold meta_recon_at. now rewrite H, Z.eqb_refl. Qed.

(* a stale .meta (other size) or none: the rewrite *)
Lemma meta_existing_stale me m0 nch fs z :
  mget K_fsize me = Some (MInt z) -> z <> fs -> meta_recon_at (Some me) m0 nch fs = meta_recon m0 nch fs.
Proof.
  intros H Hz. unfold meta_recon_at. rewrite H. destruct (Z.eqb_spec z fs); [contradiction | reflexivity].
Qed.

