(* C03 — exhaustive kernel evaluation: all 65536 int16 values survive
   int16 -> float32 volts -> int16 for imAiRangeMax = 62/100, imMaxInt = 512, gain 80. *)
From Coq Require Import ZArith.
From IBL.C03 Require Import F32.
Open Scope Z_scope.
Lemma chk : check_gain (gain 62 100 512) = true.
Proof. vm_cast_no_check (eq_refl true). Qed.
