(* C03 — flat-integer interface of the model for the correspondence check.

   mode 1 (values)  [1; num; den; maxint; nA; a_1..a_nA; s_1..s_m]
        -> f32_parts (gain num den maxint) ++ [nA; roundtrip gain a_i ...] ++ [m; roundtrip 1.0f s_i ...]
   mode 2 (layout)  [2; ns; W; napch; nsync; nc; nl; label_1..label_nl]
        -> [status]                                         status <> 0 (init_params / WindowGenerator raise)
        -> 0 :: enc_option (runs of global rows every shank file holds: kept ranges of the windows, merged)
             ++ enc_list (shank: label, chns, subset string, parse_subset of it)
   mode 3 (full)    [3; num; den; maxint; ns; W; napch; nsync; nc; nl; labels...; nrows; data row-major]
        -> enc_option (per shank: label, chns, rows) ++ enc_option (reconstructed rows)
           values go through `roundtrip` (memoised per distinct value, see memo_apply)
   mode 4 (meta)    [4; with_rec; sh; fsize_shank; nch; fsize_rec; nchns; chns...; meta...]
        -> enc_option (shank meta) ++ (if with_rec: enc_option (reconstructed meta))
   mode 5 (codec)   [5; n; chns...] -> show_subset chns, parse_subset of it
   mode 6 (rerun)   [6; existed; overwrite] -> [status; files rewritten?]
   mode 7 (meta, .meta already present)
                    [7; kind; v; sh; fsize_shank; nch; fsize_rec; nchns; chns...; meta...]
        existing = the original dictionary (kind 1) or the original with fileSizeBytes := v (kind 2)
        -> enc_option (metadata after NP2Reconstructor.write_metadata)
*)
From Coq Require Import ZArith List Bool FMapPositive.
From IBL.lib Require Import PyInt RunLib.
From IBL.C17 Require Import Model.
From IBL.C03 Require Import Model.
Import ListNotations.
Open Scope Z_scope.

(* ---- memoised value conversion (same function, fewer float evaluations) ---- *)
Definition in_i16 (v : Z) : bool := (-32768 <=? v) && (v <=? 32767).
Definition key (v : Z) : positive := Z.to_pos (v + 32769).
Definition memo_table (f : Z -> Z) (vals : list Z) : PositiveMap.t Z :=
  fold_left (fun m v =>
               if in_i16 v then
                 match PositiveMap.find (key v) m with
                 | Some _ => m
                 | None => PositiveMap.add (key v) (f v) m
                 end
               else m) vals (PositiveMap.empty Z).
Definition memo_apply (f : Z -> Z) (m : PositiveMap.t Z) (v : Z) : Z :=
  if in_i16 v then
    match PositiveMap.find (key v) m with Some y => y | None => f v end
  else f v.

(* ---- decoding ---- *)
Fixpoint chunks (n : nat) (w : nat) (l : list Z) : list (list Z) :=
  match n with
  | O => []
  | S n' => firstn w l :: chunks n' w (skipn w l)
  end.

Definition enc_rows (rows : list row) : list Z :=
  Z.of_nat (length rows) :: flat_map enc_zlist rows.

Definition enc_pair4 (p : (Z * Z) * (Z * Z)) : list Z :=
  let '((a, b), (c, d)) := p in [a; b; c; d].

Definition enc_shank_layout (x : Z * list Z) : list Z :=
  let '(sh, chns) := x in
  sh :: enc_zlist chns ++ enc_zlist (show_subset chns)
     ++ enc_option enc_zlist (parse_subset (show_subset chns)).

Definition enc_shank_file (x : Z * list Z * list row) : list Z :=
  let '(sh, chns, rows) := x in sh :: enc_zlist chns ++ enc_rows rows.

Definition enc_mval (v : mval) : list Z :=
  match v with
  | MInt z => [0; 1; z]
  | MInts l => 1 :: enc_zlist l
  | MStr s => 2 :: enc_zlist s
  | MTok t => [3; 1; t]
  end.
Definition enc_meta (m : meta) : list Z :=
  Z.of_nat (length m) :: flat_map (fun kv => fst kv :: enc_mval (snd kv)) m.

(* meta decoder: entries key, tag, len, payload *)
Fixpoint dec_meta (fuel : nat) (l : list Z) : meta :=
  match fuel with
  | O => []
  | S f =>
      match l with
      | k :: tag :: n :: rest =>
          let pay := firstn (Z.to_nat n) rest in
          let v := if tag =? 0 then MInt (nth 0 pay 0)
                   else if tag =? 1 then MInts pay
                   else if tag =? 2 then MStr pay
                   else MTok (nth 0 pay 0) in
          (k, v) :: dec_meta f (skipn (Z.to_nat n) rest)
      | _ => []
      end
  end.

Definition run_values (num den maxint : Z) (va vs : list Z) : list Z :=
  let s := gain num den maxint in
  f32_parts s ++ enc_zlist (map (roundtrip s) va) ++ enc_zlist (map (roundtrip gain_one) vs).

(* drop empty ranges, merge ranges that touch *)
Fixpoint merge_runs (l : list (Z * Z)) : list (Z * Z) :=
  match l with
  | [] => []
  | (a, b) :: t =>
      if b <=? a then merge_runs t else
      match merge_runs t with
      | (c, d) :: r => if c =? b then (a, d) :: r else (a, b) :: (c, d) :: r
      | [] => [(a, b)]
      end
  end.
Definition enc_pair (p : Z * Z) : list Z := [fst p; snd p].

Definition run_layout (ns W napch nsync nc : Z) (labels : list Z) : list Z :=
  let st := params_status W in
  if negb (st =? 0) then [st] else
  0 :: enc_option (fun wins => enc_list enc_pair (merge_runs (kept_list ns W wins 0)))
                  (firstlast ns W OVERLAP)
    ++ enc_list enc_shank_layout
         (map (fun sh => (sh, shank_chns labels nc nsync sh)) (shanks_of labels)).

Definition run_full (num den maxint ns W napch nsync nc : Z) (labels : list Z) (data : list row) : list Z :=
  let s := gain num den maxint in
  let flat := concat data in
  let tap := memo_table (roundtrip s) flat in
  let tsy := memo_table (roundtrip gain_one) flat in
  let cap := memo_apply (roundtrip s) tap in
  let csy := memo_apply (roundtrip gain_one) tsy in
  let res := process_np24 cap csy napch nsync nc labels ns W data in
  enc_option (enc_list enc_shank_file) res
  ++ match res with
     | None => [0]
     | Some split =>
         match prepare_files labels split with
         | None => [0]
         | Some files => enc_option enc_rows (reconstruct files)
         end
     end.

Definition run_meta (with_rec sh fs_sh nch fs_rec : Z) (chns : list Z) (m : meta) : list Z :=
  let ms := meta_shank_ap m sh chns fs_sh in
  enc_option enc_meta ms
  ++ (if with_rec =? 1 then
        match ms with
        | None => [0]
        | Some m0 => enc_option enc_meta (meta_recon m0 nch fs_rec)
        end
      else []).

Definition run_codec (chns : list Z) : list Z :=
  enc_zlist (show_subset chns) ++ enc_option enc_zlist (parse_subset (show_subset chns)).

Definition run_meta_existing (kind v sh fs_sh nch fs_rec : Z) (chns : list Z) (m : meta) : list Z :=
  let existing := if kind =? 1 then m else mset K_fsize (MInt v) m in
  match meta_shank_ap m sh chns fs_sh with
  | None => [0]
  | Some m0 => enc_option enc_meta (meta_recon_at (Some existing) m0 nch fs_rec)
  end.

Definition run (inp : list Z) : list Z :=
  match inp with
  | 1 :: num :: den :: maxint :: na :: vals =>
      run_values num den maxint (firstn (Z.to_nat na) vals) (skipn (Z.to_nat na) vals)
  | 2 :: ns :: W :: napch :: nsync :: nc :: nl :: labels =>
      run_layout ns W napch nsync nc (firstn (Z.to_nat nl) labels)
  | 3 :: num :: den :: maxint :: ns :: W :: napch :: nsync :: nc :: nl :: rest =>
      let labels := firstn (Z.to_nat nl) rest in
      match skipn (Z.to_nat nl) rest with
      | nrows :: flat =>
          run_full num den maxint ns W napch nsync nc labels
                   (chunks (Z.to_nat nrows) (Z.to_nat nc) flat)
      | [] => [-998]
      end
  | 4 :: with_rec :: sh :: fs_sh :: nch :: fs_rec :: nchns :: rest =>
      let chns := firstn (Z.to_nat nchns) rest in
      match skipn (Z.to_nat nchns) rest with
      | nm :: mrest => run_meta with_rec sh fs_sh nch fs_rec chns (dec_meta (Z.to_nat nm) mrest)
      | [] => [-997]
      end
  | 5 :: n :: chns => run_codec (firstn (Z.to_nat n) chns)
  | [6; existed; overwrite] =>
      let '(st, rew) := process_call (existed =? 1) (overwrite =? 1) in [st; enc_bool rew]
  | 7 :: kind :: v :: sh :: fs_sh :: nch :: fs_rec :: nchns :: rest =>
      let chns := firstn (Z.to_nat nchns) rest in
      match skipn (Z.to_nat nchns) rest with
      | nm :: mrest => run_meta_existing kind v sh fs_sh nch fs_rec chns (dec_meta (Z.to_nat nm) mrest)
      | [] => [-997]
      end
  | _ => [-999]
  end.

Definition mismatches := mismatches_of run.
