(* C03 — the nine NP2 gain settings (imAiRangeMax in {0.5, 0.6, 0.62} x imMaxInt in
   {512, 2048, 8192}, gain 80) and the sync factor are exact on every int16 value;
   consequences for whole recordings. *)
From Coq Require Import ZArith List Bool Lia.
From IBL.lib Require Import PyInt.
From IBL.C03 Require Import Model RtLib Proofs.
From IBL.C03 Require Rt_050_512 Rt_050_2048 Rt_050_8192 Rt_060_512 Rt_060_2048 Rt_060_8192
                     Rt_062_512 Rt_062_2048 Rt_062_8192 Rt_sync.
Import ListNotations.
Open Scope Z_scope.

Definition np2_gains : list (Z * Z * Z) :=
  [(5, 10, 512); (5, 10, 2048); (5, 10, 8192); (6, 10, 512); (6, 10, 2048); (6, 10, 8192);
   (62, 100, 512); (62, 100, 2048); (62, 100, 8192)].

Definition gain_of (g : Z * Z * Z) : f32 := gain (fst (fst g)) (snd (fst g)) (snd g).

Lemma gains_exact g : In g np2_gains ->
  forall r, -32768 <= r <= 32767 -> roundtrip (gain_of g) r = r.
Proof.
  unfold np2_gains. intros H.
  repeat (destruct H as [<-|H];
          [unfold gain_of; cbn [fst snd];
           first [ exact (rt_of_check _ Rt_050_512.chk) | exact (rt_of_check _ Rt_050_2048.chk)
                 | exact (rt_of_check _ Rt_050_8192.chk) | exact (rt_of_check _ Rt_060_512.chk)
                 | exact (rt_of_check _ Rt_060_2048.chk) | exact (rt_of_check _ Rt_060_8192.chk)
                 | exact (rt_of_check _ Rt_062_512.chk) | exact (rt_of_check _ Rt_062_2048.chk)
                 | exact (rt_of_check _ Rt_062_8192.chk) ] |]).
  destruct H.
Qed.

Lemma sync_exact r : -32768 <= r <= 32767 -> roundtrip gain_one r = r.
Proof. exact (rt_of_check _ Rt_sync.chk r). Qed.

Lemma pub_np2 g labels ns W Wr data :
  In g np2_gains ->
  labels <> [] -> 1 <= ns -> 576 < W -> 0 < Wr -> ns = Z.of_nat (length data) ->
  (forall r, In r data -> length r = S (length labels)) ->
  (forall r x, In r data -> In x r -> -32768 <= x <= 32767) ->
  exists split,
    process_np24 (roundtrip (gain_of g)) (roundtrip gain_one)
                 (Z.of_nat (length labels)) 1 (Z.of_nat (length labels) + 1) labels ns W data
      = Some split /\
    split = split_spec labels (Z.of_nat (length labels) + 1) 1 data /\
    reconstruct_w Wr (files_of_split split) = Some data.
Proof.
  intros Hg Hlab Hns HW HWr Hlen Hrect Hval.
  apply pub_roundtrip; try assumption.
  intros r x Hr Hx. pose proof (Hval r x Hr Hx). split; [now apply gains_exact | now apply sync_exact].
Qed.
