(* C03 — lemmas. *)
From Coq Require Import ZArith List Bool Lia.
From IBL.lib Require Import PyInt.
From IBL.C17 Require Import Model Proofs.
From IBL.C03 Require Import Model RtLib.
Import ListNotations.
Open Scope Z_scope.
