(* C03 — lemmas. *)
From Coq Require Import ZArith List Bool Lia.
From IBL.lib Require Import PyInt.
From IBL.C17 Require Import Model Proofs.
From IBL.C03 Require Import Model RtLib.
Import ListNotations.
Open Scope Z_scope.

(* ------------------------------------------------------------------ *)
(* list slicing                                                        *)
(* ------------------------------------------------------------------ *)
Section Slices.
Context {A : Type}.
Implicit Types l : list A.

Lemma firstn_add a : forall b l, firstn (a + b) l = firstn a l ++ firstn b (skipn a l).
Proof.
  induction a as [|a IH]; intros b l; [reflexivity|].
  destruct l as [|x l]; cbn [Nat.add firstn skipn app].
  - now rewrite firstn_nil.
  - now rewrite IH.
Qed.

Lemma skipn_skipn' a : forall b l, skipn a (skipn b l) = skipn (b + a) l.
Proof.
  intros b; revert a. induction b as [|b IH]; intros a l; [reflexivity|].
  destruct l as [|x l]; cbn [skipn Nat.add]; [now rewrite skipn_nil | apply IH].
Qed.

Lemma slice_nat_app l i j k : (i <= j <= k)%nat ->
  slice_nat i j l ++ slice_nat j k l = slice_nat i k l.
Proof.
  intros H. unfold slice_nat.
  replace (k - i)%nat with ((j - i) + (k - j))%nat by lia.
  rewrite firstn_add, skipn_skipn'. repeat f_equal. lia.
Qed.

Lemma slice_of_slice l f e i j : (i <= j)%nat -> (f + j <= e)%nat ->
  slice_nat i j (slice_nat f e l) = slice_nat (f + i) (f + j) l.
Proof.
  intros Hij Hje. unfold slice_nat.
  rewrite skipn_firstn_comm, firstn_firstn, skipn_skipn'.
  replace (Nat.min (j - i) (e - f - i)) with (j - i)%nat by lia.
  replace (f + j - (f + i))%nat with (j - i)%nat by lia.
  reflexivity.
Qed.

Lemma slice_nat_length l i j : (i <= j <= length l)%nat -> length (slice_nat i j l) = (j - i)%nat.
Proof. intros H. unfold slice_nat. rewrite firstn_length, skipn_length. lia. Qed.

Lemma slice_nat_0 l j : slice_nat 0 j l = firstn j l.
Proof. unfold slice_nat. now rewrite Nat.sub_0_r. Qed.

Lemma pyslice_nat l a b : 0 <= a -> 0 <= b ->
  pyslice a b l = slice_nat (Z.to_nat (Z.min a (Z.of_nat (length l))))
                            (Z.to_nat (Z.min b (Z.of_nat (length l)))) l.
Proof.
  intros Ha Hb. unfold pyslice, adj.
  destruct (a <? 0) eqn:Ea; [lia|]. destruct (b <? 0) eqn:Eb; [lia|]. reflexivity.
Qed.
End Slices.

Lemma slice_nat_map {A B} (f : A -> B) l i j : slice_nat i j (map f l) = map f (slice_nat i j l).
Proof. unfold slice_nat. now rewrite skipn_map, firstn_map. Qed.

Lemma pyslice_map {A B} (f : A -> B) l a b : pyslice a b (map f l) = map f (pyslice a b l).
Proof. unfold pyslice. now rewrite map_length, slice_nat_map. Qed.

(* ------------------------------------------------------------------ *)
(* kept ranges of the windows tile [0, ns); the kept rows are the data  *)
(* ------------------------------------------------------------------ *)
Section Rows.
Variables ns W : Z.
Hypothesis Hns : 1 <= ns.
Hypothesis HW : 576 < W.
Set Default Proof Using "Hns HW".

Local Notation K := (lastk ns W 576).
Local Notation s := (stride W 576).
Local Notation vf := (vfirst W 576).
Local Notation vl := (vlast ns W 576).

Lemma Hov : 0 <= 576 < W. Proof. lia. Qed.
Lemma Hev : 576 mod 2 = 0. Proof. reflexivity. Qed.

Lemma vf_eq k : vf k = if k =? 0 then 0 else k * s + 288.
Proof. reflexivity. Qed.
Lemma vl_eq k : vl k = if k =? K then ns else k * s + W - 288.
Proof. reflexivity. Qed.

(* closed form of `kept` on window k *)
Lemma kept_closed k : 0 <= k <= K ->
  kept ns W (win ns W 576 k) k = (vf k, vl k).
Proof.
  intros Hk. unfold kept, win, ind2save, OVERLAP, MARGIN.
  rewrite (nwin_K ns W 576 Hns Hov).
  pose proof (K_reaches ns W 576 Hns Hov) as HKr.
  pose proof (last_len_le ns W 576 Hns Hov) as Hle.
  rewrite vf_eq, vl_eq. fold s.
  replace (k =? K + 1 - 1) with (k =? K) by (f_equal; lia).
  assert (Hs : s = W - 576) by reflexivity.
  destruct (Z.eqb_spec k 0) as [E0|E0]; destruct (Z.eqb_spec k K) as [EK|EK]; unfold adj.
  - subst k. rewrite <- EK in *.
    replace (Z.min (0 * s + W) ns) with ns by lia.
    destruct (0 <? 0) eqn:A; [lia|]. destruct (W <? 0) eqn:B; [lia|]. f_equal; lia.
  - pose proof (before_K_short ns W 576 Hns Hov k ltac:(lia)).
    subst k. replace (Z.min (0 * s + W) ns) with (0 * s + W) by lia.
    destruct (0 <? 0) eqn:A; [lia|]. destruct (W - 288 <? 0) eqn:B; [lia|]. f_equal; lia.
  - subst k. pose proof (last_len_gt_ov ns W 576 Hns Hov ltac:(lia)).
    replace (Z.min (K * s + W) ns) with ns by lia.
    destruct (288 <? 0) eqn:A; [lia|]. destruct (W <? 0) eqn:B; [lia|]. f_equal; lia.
  - pose proof (before_K_short ns W 576 Hns Hov k ltac:(lia)).
    replace (Z.min (k * s + W) ns) with (k * s + W) by lia.
    destruct (288 <? 0) eqn:A; [lia|]. destruct (W - 288 <? 0) eqn:B; [lia|]. f_equal; lia.
Qed.

(* the tiling facts (C17's valid sub-windows with overlap/2 = 288) *)
Lemma kept_first : vf 0 = 0. Proof. reflexivity. Qed.
Lemma kept_last : vl K = ns. Proof. exact (vlast_K ns W 576 Hns Hov Hev). Qed.
Lemma kept_adjacent k : 0 <= k < K -> vl k = vf (k + 1).
Proof. exact (valid_adjacent ns W 576 Hns Hov Hev k). Qed.
Lemma kept_nonempty k : 0 <= k <= K -> vf k < vl k.
Proof. exact (valid_nonempty ns W 576 Hns Hov Hev k). Qed.
Lemma kept_bounds k : 0 <= k <= K -> 0 <= vf k /\ vl k <= ns.
Proof.
  intros Hk. pose proof (valid_inside ns W 576 Hns Hov Hev k Hk) as [H1 H2].
  pose proof (K_reaches ns W 576 Hns Hov).
  unfold win in *; cbn [fst snd] in *. fold s in H1, H2.
  assert (0 < s) by (unfold stride; lia). split; [nia | lia].
Qed.

Section Data.
Variable conv : row -> row.
Variable data : list row.
Hypothesis Hlen : ns <= Z.of_nat (length data).
Set Default Proof Using "Hns HW Hlen".

Definition kslice (k : Z) : list row := slice_nat (Z.to_nat (vf k)) (Z.to_nat (vl k)) data.

Lemma window_kept k : 0 <= k <= K ->
  save_window conv W (nwin ns W OVERLAP) k
     (pyslice (fst (win ns W 576 k)) (snd (win ns W 576 k)) data) = map conv (kslice k).
Proof.
  intros Hk. unfold save_window.
  pose proof (kept_closed k Hk) as HC. unfold kept in HC.
  destruct (ind2save W (nwin ns W OVERLAP) k) as [a b] eqn:Eab.
  assert (Ha : 0 <= a /\ 0 <= b).
  { unfold ind2save, MARGIN in Eab. injection Eab as <- <-.
    destruct (k =? 0); destruct (k =? nwin ns W OVERLAP - 1); lia. }
  set (f := fst (win ns W 576 k)) in *. set (l := snd (win ns W 576 k)) in *.
  assert (Hfl : 0 <= f /\ f < l /\ l <= ns).
  { pose proof (kept_bounds k Hk) as [B1 B2]. pose proof (kept_nonempty k Hk) as B3.
    pose proof (valid_inside ns W 576 Hns Hov Hev k Hk) as [H1 H2]. fold f in H1. fold l in H2.
    subst f l. unfold win in *; cbn [fst snd] in *.
    assert (0 < s) by (unfold stride; lia). split; [nia|]. split; lia. }
  f_equal. unfold kslice.
  rewrite (pyslice_nat data f l) by lia.
  replace (Z.min f (Z.of_nat (length data))) with f by lia.
  replace (Z.min l (Z.of_nat (length data))) with l by lia.
  rewrite pyslice_nat by lia.
  rewrite slice_nat_length by lia.
  replace (win ns W 576 k) with (f, l) in HC by (subst f l; now destruct (win ns W 576 k)).
  cbv zeta in HC. unfold adj in HC.
  destruct (a <? 0) eqn:A; [lia|]. destruct (b <? 0) eqn:B; [lia|].
  injection HC as HC1 HC2.
  replace (Z.of_nat (Z.to_nat l - Z.to_nat f)) with (l - f) by lia.
  pose proof (kept_nonempty k Hk) as Hne.
  rewrite slice_of_slice by lia.
  f_equal; lia.
Qed.

Lemma windows_rows_closed n : forall k, 0 <= k -> k + Z.of_nat n = K ->
  concat (windows_rows conv W (nwin ns W OVERLAP) data (wins_from ns W 576 k (S n)) k)
  = map conv (slice_nat (Z.to_nat (vf k)) (Z.to_nat ns) data).
Proof.
  induction n as [|n IH]; intros k Hk HK.
  - assert (k = K) by lia. subst k.
    rewrite (wins_from_S ns W 576 Hns Hov).
    pose proof (window_kept K ltac:(lia)) as HWk.
    destruct (win ns W 576 K) as [f l] eqn:Ew. cbn [fst snd] in HWk.
    cbn [wins_from seq map windows_rows concat]. rewrite HWk, app_nil_r. unfold kslice. now rewrite kept_last.
  - rewrite (wins_from_S ns W 576 Hns Hov).
    pose proof (window_kept k ltac:(lia)) as HWk.
    destruct (win ns W 576 k) as [f l] eqn:Ew. cbn [fst snd] in HWk.
    cbn [windows_rows concat].
    rewrite HWk, (IH (k + 1)) by lia. rewrite <- map_app. f_equal. unfold kslice.
    rewrite (kept_adjacent k) by lia.
    pose proof (kept_nonempty k ltac:(lia)). pose proof (kept_bounds k ltac:(lia)).
    pose proof (kept_adjacent k ltac:(lia)).
    apply slice_nat_app. lia.
Qed.

Lemma kept_rows_all l : firstlast ns W OVERLAP = Some l ->
  concat (windows_rows conv W (nwin ns W OVERLAP) data l 0) = map conv (firstn (Z.to_nat ns) data).
Proof.
  intros H. change OVERLAP with 576 in H.
  rewrite (firstlast_closed ns W 576 Hns Hov) in H. injection H as <-.
  pose proof (K_nonneg ns W 576 Hns Hov).
  replace (Z.to_nat (K + 1)) with (S (Z.to_nat K)) by lia.
  rewrite (windows_rows_closed (Z.to_nat K) 0) by lia.
  rewrite kept_first. change (Z.to_nat 0) with 0%nat. now rewrite slice_nat_0.
Qed.
End Data.
End Rows.
Unset Default Proof Using.

(* ------------------------------------------------------------------ *)
(* the split files are column subsets of the original                   *)
(* ------------------------------------------------------------------ *)
Lemma shank_file_concat chns wrows : shank_file chns wrows = map (gather chns) (concat wrows).
Proof. unfold shank_file. now rewrite flat_map_concat_map, concat_map. Qed.

Lemma map_id_in {A} (f : A -> A) l : (forall x, In x l -> f x = x) -> map f l = l.
Proof.
  induction l as [|a l IH]; intros H; [reflexivity|]. cbn [map].
  rewrite (H a (or_introl eq_refl)), IH; [reflexivity|]. intros x Hx. apply H. now right.
Qed.

Lemma conv_row_id napch cap csy r :
  (forall x, In x r -> cap x = x /\ csy x = x) -> conv_row napch cap csy r = r.
Proof.
  intros H. unfold conv_row. rewrite <- (firstn_skipn (Z.to_nat napch) r) in H.
  rewrite !map_id_in.
  - apply firstn_skipn.
  - intros x Hx. apply H, in_or_app. now right.
  - intros x Hx. apply H, in_or_app. now left.
Qed.

Definition split_spec (labels : list Z) (nc nsync : Z) (rows : list row) :=
  map (fun sh => (sh, shank_chns labels nc nsync sh,
                  map (gather (shank_chns labels nc nsync sh)) rows)) (shanks_of labels).

Lemma pub_split cap csy napch nsync nc labels ns W data :
  1 <= ns -> 576 < W -> ns <= Z.of_nat (length data) ->
  process_np24 cap csy napch nsync nc labels ns W data =
  Some (split_spec labels nc nsync (map (conv_row napch cap csy) (firstn (Z.to_nat ns) data))).
Proof.
  intros Hns HW Hlen. unfold process_np24.
  destruct (firstlast ns W OVERLAP) as [wins|] eqn:E.
  2:{ change OVERLAP with 576 in E. rewrite (firstlast_closed ns W 576 Hns (Hov ns W Hns HW)) in E. discriminate. }
  f_equal. unfold split_spec. apply map_ext. intros sh.
  rewrite shank_file_concat. now rewrite (kept_rows_all ns W Hns HW _ data Hlen wins E).
Qed.

Lemma pub_split_lossless cap csy napch nsync nc labels ns W data :
  1 <= ns -> 576 < W -> ns = Z.of_nat (length data) ->
  (forall r x, In r data -> In x r -> cap x = x /\ csy x = x) ->
  process_np24 cap csy napch nsync nc labels ns W data = Some (split_spec labels nc nsync data).
Proof.
  intros Hns HW Hlen Hex.
  assert (Hl : ns <= Z.of_nat (@length row data)) by (rewrite Hlen; apply Z.le_refl).
  rewrite (pub_split cap csy napch nsync nc labels ns W data Hns HW Hl). f_equal. f_equal.
  rewrite Hlen, Nat2Z.id. rewrite firstn_all.
  apply map_id_in. intros r Hr. apply conv_row_id. intros x Hx. now apply (Hex r x).
Qed.

(* ------------------------------------------------------------------ *)
(* scatter of the gathered columns                                      *)
(* ------------------------------------------------------------------ *)
Lemma set_nth_length i v : forall r, length (set_nth i v r) = length r.
Proof. induction i as [|i IH]; intros [|x r]; cbn [set_nth length]; auto. Qed.

Lemma set_nth_out i v : forall r, (length r <= i)%nat -> set_nth i v r = r.
Proof.
  induction i as [|i IH]; intros [|x r] H; cbn [set_nth length] in *; try reflexivity; try lia.
  f_equal. apply IH. lia.
Qed.

Lemma nth_set_nth_eq i v : forall r, (i < length r)%nat -> nth i (set_nth i v r) 0 = v.
Proof.
  induction i as [|i IH]; intros [|x r] H; cbn [set_nth length nth] in *; try lia; try reflexivity.
  apply IH. lia.
Qed.

Lemma nth_set_nth_neq i j v : forall r, i <> j -> nth j (set_nth i v r) 0 = nth j r 0.
Proof.
  revert j. induction i as [|i IH]; intros j [|x r] H; cbn [set_nth]; try reflexivity.
  - destruct j; [lia | reflexivity].
  - destruct j; [reflexivity|]. cbn [nth]. apply IH. lia.
Qed.

Lemma scatter_length idx : forall vals acc, length (scatter idx vals acc) = length acc.
Proof.
  induction idx as [|i idx IH]; intros [|v vals] acc; cbn [scatter]; try reflexivity.
  now rewrite IH, set_nth_length.
Qed.

Lemma scatter_gather_either r c idx : forall acc,
  nth c (scatter idx (gather idx r) acc) 0 = nth c r 0 \/
  nth c (scatter idx (gather idx r) acc) 0 = nth c acc 0.
Proof.
  induction idx as [|i idx IH]; intros acc; cbn [gather map scatter]; [now right|].
  fold (gather idx r).
  destruct (IH (set_nth (Z.to_nat i) (nth (Z.to_nat i) r 0) acc)) as [H|H]; [now left|].
  rewrite H. destruct (Nat.eq_dec (Z.to_nat i) c) as [E|E].
  - destruct (lt_dec (Z.to_nat i) (length acc)) as [L|L].
    + left. subst c. now apply nth_set_nth_eq.
    + right. now rewrite set_nth_out by lia.
  - right. now apply nth_set_nth_neq.
Qed.

Lemma scatter_gather_hit r c idx : forall acc,
  In c (map Z.to_nat idx) -> (c < length acc)%nat ->
  nth c (scatter idx (gather idx r) acc) 0 = nth c r 0.
Proof.
  induction idx as [|i idx IH]; intros acc Hin Hc; cbn [map In] in Hin; [contradiction|].
  cbn [gather map scatter]. fold (gather idx r).
  destruct (in_dec Nat.eq_dec c (map Z.to_nat idx)) as [Hi|Hi].
  - apply IH; [exact Hi | now rewrite set_nth_length].
  - destruct Hin as [E|Hin]; [|contradiction].
    destruct (scatter_gather_either r c idx (set_nth (Z.to_nat i) (nth (Z.to_nat i) r 0) acc)) as [H|H];
      [exact H|]. rewrite H. subst c. now apply nth_set_nth_eq.
Qed.

(* what _reconstruct does to one row: shank 0 writes all its columns (sync
   included), the others all but their last *)
Fixpoint row_recon (cl : list (list Z)) (ish : nat) (r acc : row) : row :=
  match cl with
  | [] => acc
  | chns :: rest =>
      let idx := match ish with O => chns | S _ => removelast chns end in
      row_recon rest (S ish) r (scatter idx (gather idx r) acc)
  end.

Definition idx_of (ish : nat) (chns : list Z) := match ish with O => chns | S _ => removelast chns end.

Lemma row_recon_length r cl : forall ish acc, length (row_recon cl ish r acc) = length acc.
Proof.
  induction cl as [|chns cl IH]; intros ish acc; cbn [row_recon]; [reflexivity|].
  now rewrite IH, scatter_length.
Qed.

Lemma row_recon_keep r c cl : forall ish acc,
  nth c acc 0 = nth c r 0 -> nth c (row_recon cl ish r acc) 0 = nth c r 0.
Proof.
  induction cl as [|chns cl IH]; intros ish acc H; cbn [row_recon]; [exact H|].
  apply IH. destruct (scatter_gather_either r c (idx_of ish chns) acc) as [E|E];
    unfold idx_of in E; rewrite E; [reflexivity | exact H].
Qed.

Lemma row_recon_hit r c cl : forall ish acc, (c < length acc)%nat ->
  (exists j chns, nth_error cl j = Some chns /\ In c (map Z.to_nat (idx_of (ish + j) chns))) ->
  nth c (row_recon cl ish r acc) 0 = nth c r 0.
Proof.
  induction cl as [|chns cl IH]; intros ish acc Hc (j & ch & Hj & Hin).
  - destruct j; discriminate.
  - cbn [row_recon]. destruct j as [|j].
    + injection Hj as <-. rewrite Nat.add_0_r in Hin. apply row_recon_keep.
      apply (scatter_gather_hit r c (idx_of ish chns) acc Hin Hc).
    + apply IH; [now rewrite scatter_length|]. exists j, ch. split; [exact Hj|].
      now replace (S ish + j)%nat with (ish + S j)%nat by lia.
Qed.

Lemma removelast_map {A B} (f : A -> B) l : removelast (map f l) = map f (removelast l).
Proof.
  induction l as [|a l IH]; [reflexivity|]. cbn [map removelast].
  destruct l as [|b l]; [reflexivity|]. cbn [map] in *. now rewrite IH.
Qed.

Lemma map2opt_map {A B C D} (F : B -> C -> D) (g : A -> B) (h : A -> C) l :
  map2opt F (map g l) (map h l) = Some (map (fun r => F (g r) (h r)) l).
Proof. induction l as [|a l IH]; cbn [map map2opt]; [reflexivity | now rewrite IH]. Qed.

Lemma assign_cols_map (D : list row) (g : row -> row) idx :
  assign_cols (map g D) idx (map (gather idx) D) =
  Some (map (fun r => scatter idx (gather idx r) (g r)) D).
Proof.
  unfold assign_cols.
  replace (forallb _ (map (gather idx) D)) with true.
  - apply (map2opt_map (fun acc vals => scatter idx vals acc) g (gather idx) D).
  - symmetry. apply forallb_forall. intros x Hx. apply in_map_iff in Hx as [r [<- _]].
    unfold gather. rewrite map_length. apply Nat.eqb_refl.
Qed.

Definition files_of (cl : list (list Z)) (data : list row) : list (list Z * list row) :=
  map (fun chns => (chns, map (gather chns) data)) cl.

Lemma recon_shanks_rows data f l cl : forall ish (g : row -> row),
  recon_shanks (map g (pyslice f l data)) (files_of cl data) f l ish =
  Some (map (fun r => row_recon cl ish r (g r)) (pyslice f l data)).
Proof.
  induction cl as [|chns cl IH]; intros ish g; cbn [files_of map recon_shanks row_recon].
  - f_equal.
  - fold (files_of cl data). rewrite pyslice_map.
    destruct ish as [|ish].
    + rewrite assign_cols_map. apply (IH 1%nat (fun r => scatter chns (gather chns r) (g r))).
    + rewrite map_map.
      rewrite (map_ext (fun r => removelast (gather chns r)) (gather (removelast chns)))
        by (intros r; apply removelast_map).
      rewrite assign_cols_map.
      apply (IH (S (S ish)) (fun r => scatter (removelast chns) (gather (removelast chns) r) (g r))).
Qed.

Lemma repeat_map {A B} (x : B) (l : list A) : repeat x (length l) = map (fun _ => x) l.
Proof. induction l as [|a l IH]; cbn [length repeat map]; [reflexivity | now rewrite IH]. Qed.

Lemma recon_window_rows nch data cl f l :
  0 <= f <= l -> l <= Z.of_nat (length data) ->
  recon_window nch (files_of cl data) (f, l) =
  Some (map (fun r => row_recon cl 0 r (repeat 0 (Z.to_nat nch))) (pyslice f l data)).
Proof.
  intros Hfl Hl. unfold recon_window.
  replace (Z.to_nat (l - f)) with (length (pyslice f l data)).
  - rewrite repeat_map. apply recon_shanks_rows.
  - rewrite pyslice_nat by lia. rewrite slice_nat_length by lia. lia.
Qed.

(* ------------------------------------------------------------------ *)
(* every column is written back: shanks partition the AP columns        *)
(* ------------------------------------------------------------------ *)
Lemma insert_uniq_in x y : forall l, In y (insert_uniq x l) <-> y = x \/ In y l.
Proof.
  induction l as [|a l IH]; cbn [insert_uniq In]; [intuition|].
  destruct (x <? a); [cbn [In]; intuition|].
  destruct (Z.eqb_spec x a) as [->|Hne]; cbn [In]; [intuition|]. rewrite IH. intuition.
Qed.

Lemma shanks_of_in y labels : In y (shanks_of labels) <-> In y labels.
Proof.
  unfold shanks_of. induction labels as [|a l IH]; cbn [fold_right In]; [reflexivity|].
  rewrite insert_uniq_in, IH. intuition.
Qed.

Lemma where_eq_in labels (c : nat) sh : (c < length labels)%nat -> nth c labels 0 = sh ->
  In (Z.of_nat c) (where_eq labels sh).
Proof.
  intros Hc Hs. unfold where_eq. apply in_map_iff. exists (Z.of_nat c, sh). split; [reflexivity|].
  apply filter_In. split; [|cbn [snd]; apply Z.eqb_refl].
  assert (Hn : nth c (combine (zrange (length labels)) labels) (0, 0) = (Z.of_nat c, sh)).
  { rewrite combine_nth by apply zrange_length. f_equal; [|exact Hs].
    unfold zrange. rewrite (nth_indep _ 0 (Z.of_nat 0)) by (now rewrite map_length, seq_length).
    rewrite map_nth, seq_nth by exact Hc. reflexivity. }
  rewrite <- Hn. apply nth_In. rewrite combine_length, zrange_length. lia.
Qed.

Lemma where_eq_bound labels sh k : In k (where_eq labels sh) -> 0 <= k < Z.of_nat (length labels).
Proof.
  unfold where_eq. intros H. apply in_map_iff in H as [[a b] [<- H]]. apply filter_In in H as [H _].
  apply in_combine_l in H. now apply in_zrange in H.
Qed.

Lemma list_max_bound l m : 0 <= m -> (forall k, In k l -> k <= m) -> list_max l <= m.
Proof.
  intros Hm. induction l as [|a l IH]; intros H; cbn [list_max fold_right]; [exact Hm|].
  fold (list_max l). pose proof (H a (or_introl eq_refl)). 
  assert (list_max l <= m) by (apply IH; intros k Hk; apply H; now right). lia.
Qed.

Lemma list_max_app_last l x : 0 <= x -> (forall k, In k l -> k <= x) -> list_max (l ++ [x]) = x.
Proof.
  intros Hx. induction l as [|a l IH]; intros H; cbn [app list_max fold_right]; [lia|].
  fold (list_max (l ++ [x])). rewrite IH by (intros k Hk; apply H; now right).
  pose proof (H a (or_introl eq_refl)). lia.
Qed.

Section Columns.
Variables (labels : list Z).
Hypothesis Hlab : labels <> [].
Local Notation napch := (Z.of_nat (length labels)).
Local Notation nc := (napch + 1).
Definition chns_list := map (shank_chns labels nc 1) (shanks_of labels).

Lemma sync_idx_1 : sync_idx nc 1 = [napch].
Proof. unfold sync_idx. change (zrange (Z.to_nat 1)) with [0]. cbn [map]. f_equal. lia. Qed.

Lemma row_final r : length r = Z.to_nat nc ->
  row_recon chns_list 0 r (repeat 0 (Z.to_nat nc)) = r.
Proof using Hlab.
  intros Hr. apply (nth_ext _ _ 0 0).
  { now rewrite row_recon_length, repeat_length. }
  intros c Hc. rewrite row_recon_length, repeat_length in Hc.
  apply row_recon_hit; [now rewrite repeat_length|].
  destruct (Nat.eq_dec c (length labels)) as [E|E].
  - (* the sync column, from the first shank *)
    destruct (shanks_of labels) as [|sh0 rest] eqn:Es.
    { destruct labels as [|a l]; [contradiction|].
      assert (In a (shanks_of (a :: l))) by (apply shanks_of_in; now left). rewrite Es in H. contradiction. }
    exists 0%nat, (shank_chns labels nc 1 sh0). split.
    + unfold chns_list. now rewrite Es.
    + cbn [Nat.add idx_of]. unfold shank_chns. rewrite sync_idx_1, map_app. apply in_or_app. right.
      cbn [map In]. left. lia.
  - (* an AP column, from the shank of its label *)
    assert (Hcl : (c < length labels)%nat) by lia.
    set (sh := nth c labels 0).
    assert (Hin : In sh (shanks_of labels)) by (apply shanks_of_in, nth_In, Hcl).
    apply In_nth_error in Hin as [j Hj].
    exists j, (shank_chns labels nc 1 sh). split.
    + unfold chns_list. now apply map_nth_error.
    + assert (Hw : In c (map Z.to_nat (where_eq labels sh))).
      { apply in_map_iff. exists (Z.of_nat c). split; [lia|]. now apply where_eq_in. }
      unfold shank_chns. rewrite sync_idx_1. destruct (0 + j)%nat; cbn [idx_of].
      * rewrite map_app. apply in_or_app. now left.
      * now rewrite removelast_last.
Qed.

Lemma nch_first sh0 rest : shanks_of labels = sh0 :: rest ->
  list_max (shank_chns labels nc 1 sh0) + 1 = nc.
Proof.
  intros _. unfold shank_chns. rewrite sync_idx_1. rewrite list_max_app_last; [reflexivity|lia|].
  intros k Hk. apply where_eq_bound in Hk. lia.
Qed.

Section Recon.
Variables (data : list row) (Wr : Z).
Hypothesis HWr : 0 < Wr.
Hypothesis Hdata : 1 <= Z.of_nat (length data).
Hypothesis Hrect : forall r, In r data -> length r = Z.to_nat nc.
Local Notation ns := (Z.of_nat (length data)).
Local Notation K := (lastk ns Wr 0).
Local Notation files := (files_of chns_list data).
Set Default Proof Using "Hlab HWr Hdata Hrect".

Lemma Hov0 : 0 <= 0 < Wr. Proof. lia. Qed.

Lemma recon_window_id f l : 0 <= f <= l -> l <= ns ->
  recon_window nc files (f, l) = Some (slice_nat (Z.to_nat f) (Z.to_nat l) data).
Proof.
  intros Hfl Hl. unfold chns_list. rewrite recon_window_rows by assumption.
  rewrite <- pyslice_map. rewrite map_id_in by (intros r Hr; apply row_final, Hrect, Hr).
  rewrite pyslice_nat by lia. f_equal. f_equal; lia.
Qed.

Lemma recon_all n : forall k, 0 <= k -> k + Z.of_nat n = K ->
  concat_opt_rows (map (recon_window nc files) (wins_from ns Wr 0 k (S n))) =
  Some (slice_nat (Z.to_nat (k * Wr)) (Z.to_nat ns) data).
Proof.
  pose proof (K_reaches ns Wr 0 Hdata Hov0) as HKr.
  assert (Hs : stride Wr 0 = Wr) by (unfold stride; lia).
  induction n as [|n IH]; intros k Hk HK; rewrite (wins_from_S ns Wr 0 Hdata Hov0); cbn [map concat_opt_rows].
  - assert (k = K) by lia. subst k. cbn [wins_from seq map concat_opt_rows].
    unfold win. rewrite ?Z.sub_0_r. rewrite Hs in *. replace (Z.min (K * Wr + Wr) ns) with ns by lia.
    assert (K * Wr < ns).
    { destruct (Z.eq_dec K 0) as [->|]; [lia|].
      pose proof (last_len_gt_ov ns Wr 0 Hdata Hov0 ltac:(lia)). rewrite Hs in *. lia. }
    rewrite recon_window_id by nia. now rewrite app_nil_r.
  - pose proof (before_K_short ns Wr 0 Hdata Hov0 k ltac:(lia)) as Hsh. rewrite Hs in Hsh.
    unfold win at 1. rewrite ?Z.sub_0_r. replace (Z.min (k * Wr + Wr) ns) with (k * Wr + Wr) by lia.
    rewrite recon_window_id by nia. rewrite (IH (k + 1)) by lia. f_equal.
    replace ((k + 1) * Wr) with (k * Wr + Wr) by ring.
    apply slice_nat_app. nia.
Qed.

Lemma reconstruct_files : reconstruct_w Wr files = Some data.
Proof.
  unfold reconstruct_w, chns_list.
  destruct (shanks_of labels) as [|sh0 rest] eqn:Es.
  { destruct labels as [|a l]; [contradiction|].
    assert (In a (shanks_of (a :: l))) by (apply shanks_of_in; now left). rewrite Es in H. contradiction. }
  cbn [map files_of]. rewrite (nch_first sh0 rest Es). rewrite map_length.
  rewrite (firstlast_closed ns Wr 0 Hdata Hov0).
  pose proof (K_nonneg ns Wr 0 Hdata Hov0).
  replace (Z.to_nat (K + 1)) with (S (Z.to_nat K)) by lia.
  pose proof (recon_all (Z.to_nat K) 0 ltac:(lia) ltac:(lia)) as HR.
  unfold chns_list in HR. rewrite Es in HR. cbn [map files_of] in HR. rewrite HR.
  change (Z.to_nat (0 * Wr)) with 0%nat. rewrite slice_nat_0, Nat2Z.id. now rewrite firstn_all.
Qed.
End Recon.
End Columns.
Unset Default Proof Using.

(* ------------------------------------------------------------------ *)
(* explicit tiling statement for the kept ranges                        *)
(* ------------------------------------------------------------------ *)
Section Tiles.
Variables ns W : Z.
Hypothesis Hns : 1 <= ns.
Hypothesis HW : 576 < W.
Local Notation K := (lastk ns W 576).

Lemma kept_list_closed n : forall k, 0 <= k -> k + Z.of_nat n <= K + 1 ->
  kept_list ns W (wins_from ns W 576 k n) k =
  map (fun i => (vfirst W 576 (k + Z.of_nat i), vlast ns W 576 (k + Z.of_nat i))) (seq 0 n).
Proof using Hns HW.
  induction n as [|n IH]; intros k Hk Hn; [reflexivity|].
  rewrite (wins_from_S ns W 576 Hns (Hov ns W Hns HW)). cbn [kept_list seq map].
  rewrite (kept_closed ns W Hns HW k) by lia. rewrite Z.add_0_r. f_equal.
  rewrite (IH (k + 1)) by lia. rewrite <- seq_shift, map_map. apply map_ext. intros i.
  replace (k + 1 + Z.of_nat i) with (k + Z.of_nat (S i)) by lia. reflexivity.
Qed.

Lemma pub_tiles : exists wins, firstlast ns W OVERLAP = Some wins /\
  let ks := kept_list ns W wins 0 in
  length ks = length wins /\
  fst (nth 0 ks (0, 0)) = 0 /\ snd (nth (length ks - 1) ks (0, 0)) = ns /\
  (forall i, (S i < length ks)%nat -> snd (nth i ks (0, 0)) = fst (nth (S i) ks (0, 0))) /\
  (forall i, (i < length ks)%nat ->
     0 <= fst (nth i ks (0, 0)) < snd (nth i ks (0, 0)) /\ snd (nth i ks (0, 0)) <= ns).
Proof using Hns HW.
  pose proof (Hov ns W Hns HW) as Hov'. pose proof (K_nonneg ns W 576 Hns Hov') as HK.
  exists (wins_from ns W 576 0 (Z.to_nat (K + 1))). split.
  { exact (firstlast_closed ns W 576 Hns Hov'). }
  cbv zeta. rewrite kept_list_closed by lia.
  set (F := fun i : nat => (vfirst W 576 (0 + Z.of_nat i), vlast ns W 576 (0 + Z.of_nat i))).
  assert (Hnth : forall i, (i < Z.to_nat (K + 1))%nat ->
            nth i (map F (seq 0 (Z.to_nat (K + 1)))) (0, 0) = F i).
  { intros i Hi. rewrite (nth_indep _ (0, 0) (F 0%nat)) by (now rewrite map_length, seq_length).
    rewrite map_nth, seq_nth by exact Hi. reflexivity. }
  rewrite map_length, seq_length. unfold wins_from. rewrite map_length, seq_length.
  split; [reflexivity|]. split; [|split; [|split]].
  - rewrite Hnth by lia. reflexivity.
  - rewrite Hnth by lia. unfold F; cbn [snd].
    replace (0 + Z.of_nat (Z.to_nat (K + 1) - 1)) with K by lia.
    exact (kept_last ns W Hns HW).
  - intros i Hi. rewrite !Hnth by lia. unfold F; cbn [fst snd].
    rewrite (kept_adjacent ns W Hns HW) by lia. f_equal. lia.
  - intros i Hi. rewrite Hnth by lia. unfold F; cbn [fst snd].
    pose proof (kept_nonempty ns W Hns HW (0 + Z.of_nat i) ltac:(lia)).
    pose proof (kept_bounds ns W Hns HW (0 + Z.of_nat i) ltac:(lia)). lia.
Qed.
End Tiles.

(* ------------------------------------------------------------------ *)
(* split, then reconstruct                                             *)
(* ------------------------------------------------------------------ *)
Definition files_of_split (split : list (Z * list Z * list row)) : list (list Z * list row) :=
  map (fun x => (snd (fst x), snd x)) split.

Lemma files_of_split_spec labels data :
  files_of_split (split_spec labels (Z.of_nat (length labels) + 1) 1 data) =
  files_of (chns_list labels) data.
Proof.
  unfold files_of_split, split_spec, files_of, chns_list. rewrite !map_map. reflexivity.
Qed.

Lemma pub_roundtrip cap csy labels ns W Wr data :
  labels <> [] -> 1 <= ns -> 576 < W -> 0 < Wr -> ns = Z.of_nat (length data) ->
  (forall r, In r data -> length r = S (length labels)) ->
  (forall r x, In r data -> In x r -> cap x = x /\ csy x = x) ->
  exists split,
    process_np24 cap csy (Z.of_nat (length labels)) 1 (Z.of_nat (length labels) + 1) labels ns W data
      = Some split /\
    split = split_spec labels (Z.of_nat (length labels) + 1) 1 data /\
    reconstruct_w Wr (files_of_split split) = Some data.
Proof.
  intros Hlab Hns HW HWr Hlen Hrect Hex.
  exists (split_spec labels (Z.of_nat (length labels) + 1) 1 data). split; [|split; [reflexivity|]].
  - now apply pub_split_lossless.
  - rewrite files_of_split_spec. apply reconstruct_files; try assumption.
    + subst ns. exact Hns.
    + intros r Hr. rewrite (Hrect r Hr). lia.
Qed.

(* the windows init_params accepts are exactly the multiples of 12 above the overlap *)
Lemma params_status_spec W : params_status W = 0 <-> (W mod 12 = 0 /\ 576 < W).
Proof.
  unfold params_status, admissible, OVERLAP.
  destruct (Z.eqb_spec (W mod 12) 0) as [E|E]; destruct (Z.ltb_spec 576 W) as [L|L]; cbn [andb];
    split; intros H; try discriminate; try reflexivity; try (split; assumption); destruct H; try contradiction; lia.
Qed.

