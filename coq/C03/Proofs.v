(* C03 — lemmas. *)
From Coq Require Import ZArith List Bool Lia.
From IBL.lib Require Import PyInt.
From IBL.C17 Require Import Model Proofs.
From IBL.C03 Require Import Model RtLib.
Import ListNotations.
Open Scope Z_scope.

(* ------------------------------------------------------------------ *)
(* list slicing                                                        *)
(* ------------------------------------------------------------------ *)
Section Slices.
Context {A : Type}.
Implicit Types l : list A.

Lemma firstn_add a : forall b l, firstn (a + b) l = firstn a l ++ firstn b (skipn a l).
Proof.
  induction a as [|a IH]; intros b l; [reflexivity|].
  destruct l as [|x l]; cbn [Nat.add firstn skipn app].
  - now rewrite firstn_nil.
  - now rewrite IH.
Qed.

Lemma skipn_skipn' a : forall b l, skipn a (skipn b l) = skipn (b + a) l.
Proof.
  intros b; revert a. induction b as [|b IH]; intros a l; [reflexivity|].
  destruct l as [|x l]; cbn [skipn Nat.add]; [now rewrite skipn_nil | apply IH].
Qed.

Lemma slice_nat_app l i j k : (i <= j <= k)%nat ->
  slice_nat i j l ++ slice_nat j k l = slice_nat i k l.
Proof.
  intros H. unfold slice_nat.
  replace (k - i)%nat with ((j - i) + (k - j))%nat by lia.
  rewrite firstn_add, skipn_skipn'. repeat f_equal. lia.
Qed.

Lemma slice_of_slice l f e i j : (i <= j)%nat -> (f + j <= e)%nat ->
  slice_nat i j (slice_nat f e l) = slice_nat (f + i) (f + j) l.
Proof.
  intros Hij Hje. unfold slice_nat.
  rewrite skipn_firstn_comm, firstn_firstn, skipn_skipn'.
  replace (Nat.min (j - i) (e - f - i)) with (j - i)%nat by lia.
  replace (f + j - (f + i))%nat with (j - i)%nat by lia.
  reflexivity.
Qed.

Lemma slice_nat_length l i j : (i <= j <= length l)%nat -> length (slice_nat i j l) = (j - i)%nat.
Proof. intros H. unfold slice_nat. rewrite firstn_length, skipn_length. lia. Qed.

Lemma slice_nat_0 l j : slice_nat 0 j l = firstn j l.
Proof. unfold slice_nat. now rewrite Nat.sub_0_r. Qed.

Lemma pyslice_nat l a b : 0 <= a -> 0 <= b ->
  pyslice a b l = slice_nat (Z.to_nat (Z.min a (Z.of_nat (length l))))
                            (Z.to_nat (Z.min b (Z.of_nat (length l)))) l.
Proof.
  intros Ha Hb. unfold pyslice, adj.
  destruct (a <? 0) eqn:Ea; [lia|]. destruct (b <? 0) eqn:Eb; [lia|]. reflexivity.
Qed.
End Slices.

Lemma slice_nat_map {A B} (f : A -> B) l i j : slice_nat i j (map f l) = map f (slice_nat i j l).
Proof. unfold slice_nat. now rewrite skipn_map, firstn_map. Qed.

Lemma pyslice_map {A B} (f : A -> B) l a b : pyslice a b (map f l) = map f (pyslice a b l).
Proof. unfold pyslice. now rewrite map_length, slice_nat_map. Qed.

(* ------------------------------------------------------------------ *)
(* kept ranges of the windows tile [0, ns); the kept rows are the data  *)
(* ------------------------------------------------------------------ *)
Section Rows.
Variables ns W : Z.
Hypothesis Hns : 1 <= ns.
Hypothesis HW : 576 < W.
Set Default Proof Using "Hns HW".

Local Notation K := (lastk ns W 576).
Local Notation s := (stride W 576).
Local Notation vf := (vfirst W 576).
Local Notation vl := (vlast ns W 576).

Lemma Hov : 0 <= 576 < W. Proof. lia. Qed.
Lemma Hev : 576 mod 2 = 0. Proof. reflexivity. Qed.

Lemma vf_eq k : vf k = if k =? 0 then 0 else k * s + 288.
Proof. reflexivity. Qed.
Lemma vl_eq k : vl k = if k =? K then ns else k * s + W - 288.
Proof. reflexivity. Qed.

(* closed form of `kept` on window k *)
Lemma kept_closed k : 0 <= k <= K ->
  kept ns W (win ns W 576 k) k = (vf k, vl k).
Proof.
  intros Hk. unfold kept, win, ind2save, OVERLAP, MARGIN.
  rewrite (nwin_K ns W 576 Hns Hov).
  pose proof (K_reaches ns W 576 Hns Hov) as HKr.
  pose proof (last_len_le ns W 576 Hns Hov) as Hle.
  rewrite vf_eq, vl_eq. fold s.
  replace (k =? K + 1 - 1) with (k =? K) by (f_equal; lia).
  assert (Hs : s = W - 576) by reflexivity.
  destruct (Z.eqb_spec k 0) as [E0|E0]; destruct (Z.eqb_spec k K) as [EK|EK]; unfold adj.
  - subst k. rewrite <- EK in *.
    replace (Z.min (0 * s + W) ns) with ns by lia.
    destruct (0 <? 0) eqn:A; [lia|]. destruct (W <? 0) eqn:B; [lia|]. f_equal; lia.
  - pose proof (before_K_short ns W 576 Hns Hov k ltac:(lia)).
    subst k. replace (Z.min (0 * s + W) ns) with (0 * s + W) by lia.
    destruct (0 <? 0) eqn:A; [lia|]. destruct (W - 288 <? 0) eqn:B; [lia|]. f_equal; lia.
  - subst k. pose proof (last_len_gt_ov ns W 576 Hns Hov ltac:(lia)).
    replace (Z.min (K * s + W) ns) with ns by lia.
    destruct (288 <? 0) eqn:A; [lia|]. destruct (W <? 0) eqn:B; [lia|]. f_equal; lia.
  - pose proof (before_K_short ns W 576 Hns Hov k ltac:(lia)).
    replace (Z.min (k * s + W) ns) with (k * s + W) by lia.
    destruct (288 <? 0) eqn:A; [lia|]. destruct (W - 288 <? 0) eqn:B; [lia|]. f_equal; lia.
Qed.

(* the tiling facts (C17's valid sub-windows with overlap/2 = 288) *)
Lemma kept_first : vf 0 = 0. Proof. reflexivity. Qed.
Lemma kept_last : vl K = ns. Proof. exact (vlast_K ns W 576 Hns Hov Hev). Qed.
Lemma kept_adjacent k : 0 <= k < K -> vl k = vf (k + 1).
Proof. exact (valid_adjacent ns W 576 Hns Hov Hev k). Qed.
Lemma kept_nonempty k : 0 <= k <= K -> vf k < vl k.
Proof. exact (valid_nonempty ns W 576 Hns Hov Hev k). Qed.
Lemma kept_bounds k : 0 <= k <= K -> 0 <= vf k /\ vl k <= ns.
Proof.
  intros Hk. pose proof (valid_inside ns W 576 Hns Hov Hev k Hk) as [H1 H2].
  pose proof (K_reaches ns W 576 Hns Hov).
  unfold win in *; cbn [fst snd] in *. fold s in H1, H2.
  assert (0 < s) by (unfold stride; lia). split; [nia | lia].
Qed.

Section Data.
Variable conv : row -> row.
Variable data : list row.
Hypothesis Hlen : ns <= Z.of_nat (length data).
Set Default Proof Using "Hns HW Hlen".

Definition kslice (k : Z) : list row := slice_nat (Z.to_nat (vf k)) (Z.to_nat (vl k)) data.

Lemma window_kept k : 0 <= k <= K ->
  save_window conv W (nwin ns W OVERLAP) k
     (pyslice (fst (win ns W 576 k)) (snd (win ns W 576 k)) data) = map conv (kslice k).
Proof.
  intros Hk. unfold save_window.
  pose proof (kept_closed k Hk) as HC. unfold kept in HC.
  destruct (ind2save W (nwin ns W OVERLAP) k) as [a b] eqn:Eab.
  assert (Ha : 0 <= a /\ 0 <= b).
  { unfold ind2save, MARGIN in Eab. injection Eab as <- <-.
    destruct (k =? 0); destruct (k =? nwin ns W OVERLAP - 1); lia. }
  set (f := fst (win ns W 576 k)) in *. set (l := snd (win ns W 576 k)) in *.
  assert (Hfl : 0 <= f /\ f < l /\ l <= ns).
  { pose proof (kept_bounds k Hk) as [B1 B2]. pose proof (kept_nonempty k Hk) as B3.
    pose proof (valid_inside ns W 576 Hns Hov Hev k Hk) as [H1 H2]. fold f in H1. fold l in H2.
    subst f l. unfold win in *; cbn [fst snd] in *.
    assert (0 < s) by (unfold stride; lia). split; [nia|]. split; lia. }
  f_equal. unfold kslice.
  rewrite (pyslice_nat data f l) by lia.
  replace (Z.min f (Z.of_nat (length data))) with f by lia.
  replace (Z.min l (Z.of_nat (length data))) with l by lia.
  rewrite pyslice_nat by lia.
  rewrite slice_nat_length by lia.
  replace (win ns W 576 k) with (f, l) in HC by (subst f l; now destruct (win ns W 576 k)).
  cbv zeta in HC. unfold adj in HC.
  destruct (a <? 0) eqn:A; [lia|]. destruct (b <? 0) eqn:B; [lia|].
  injection HC as HC1 HC2.
  replace (Z.of_nat (Z.to_nat l - Z.to_nat f)) with (l - f) by lia.
  pose proof (kept_nonempty k Hk) as Hne.
  rewrite slice_of_slice by lia.
  f_equal; lia.
Qed.

Lemma windows_rows_closed n : forall k, 0 <= k -> k + Z.of_nat n = K ->
  concat (windows_rows conv W (nwin ns W OVERLAP) data (wins_from ns W 576 k (S n)) k)
  = map conv (slice_nat (Z.to_nat (vf k)) (Z.to_nat ns) data).
Proof.
  induction n as [|n IH]; intros k Hk HK.
  - assert (k = K) by lia. subst k.
    rewrite (wins_from_S ns W 576 Hns Hov).
    pose proof (window_kept K ltac:(lia)) as HWk.
    destruct (win ns W 576 K) as [f l] eqn:Ew. cbn [fst snd] in HWk.
    cbn [wins_from seq map windows_rows concat]. rewrite HWk, app_nil_r. unfold kslice. now rewrite kept_last.
  - rewrite (wins_from_S ns W 576 Hns Hov).
    pose proof (window_kept k ltac:(lia)) as HWk.
    destruct (win ns W 576 k) as [f l] eqn:Ew. cbn [fst snd] in HWk.
    cbn [windows_rows concat].
    rewrite HWk, (IH (k + 1)) by lia. rewrite <- map_app. f_equal. unfold kslice.
    rewrite (kept_adjacent k) by lia.
    pose proof (kept_nonempty k ltac:(lia)). pose proof (kept_bounds k ltac:(lia)).
    pose proof (kept_adjacent k ltac:(lia)).
    apply slice_nat_app. lia.
Qed.

Lemma kept_rows_all l : firstlast ns W OVERLAP = Some l ->
  concat (windows_rows conv W (nwin ns W OVERLAP) data l 0) = map conv (firstn (Z.to_nat ns) data).
Proof.
  intros H. change OVERLAP with 576 in H.
  rewrite (firstlast_closed ns W 576 Hns Hov) in H. injection H as <-.
  pose proof (K_nonneg ns W 576 Hns Hov).
  replace (Z.to_nat (K + 1)) with (S (Z.to_nat K)) by lia.
  rewrite (windows_rows_closed (Z.to_nat K) 0) by lia.
  rewrite kept_first. change (Z.to_nat 0) with 0%nat. now rewrite slice_nat_0.
Qed.
End Data.
End Rows.
