(* C08 — ADC tables: exhaustive kernel evaluation of the adc_shifts loop (NC = 384). *)
From Coq Require Import ZArith List Bool Lia.
From IBL.lib Require Import PyInt.
From IBL.C08 Require Import Model.
Import ListNotations.
Open Scope Z_scope.

(* ================================================================== *)
(* ADC tables: exhaustive evaluation of the loop for NC = 384          *)
(* ================================================================== *)
Lemma adc_loop_closed : forall g,
  adc_shifts g NC = Some (map (shift_closed g) (zrange NC), map (adc_of g) (zrange NC)).
Proof. intros []; vm_compute; reflexivity. Qed.

Lemma shifts_loop_closed : forall g, shifts_loop g = Some (map (shift_closed g) (zrange NC)).
Proof. intros []; vm_compute; reflexivity. Qed.

Lemma adc_shifts_prefix g n :
  adc_shifts g n = Some (firstn n (map (shift_closed g) (zrange NC)), firstn n (map (adc_of g) (zrange NC))).
Proof. unfold adc_shifts. rewrite shifts_loop_closed. reflexivity. Qed.

(* every ADC serves exactly adc_channels channels, at delays 0..A-1 (numerators), in channel order *)
Definition served (g : gen) (a : Z) : list Z := filter (fun c => adc_of g c =? a) (zrange NC).
Definition adc_ok (g : gen) (a : Z) : bool :=
  if list_eq_dec Z.eq_dec (map (shift_closed g) (served g a)) (zrange (Z.to_nat (adc_channels g)))
  then true else false.

Lemma adc_ok_all : forall g, forallb (adc_ok g) (adc_all g) = true.
Proof. intros []; vm_compute; reflexivity. Qed.

Lemma adc_ok_true g a : adc_ok g a = true ->
  map (shift_closed g) (served g a) = zrange (Z.to_nat (adc_channels g)).
Proof.
  unfold adc_ok. destruct (list_eq_dec Z.eq_dec _ _) as [E|]; [intros _; exact E|discriminate].
Qed.

Lemma adc_each_served : forall g a, In a (adc_all g) ->
  map (shift_closed g) (served g a) = zrange (Z.to_nat (adc_channels g)).
Proof.
  intros g a Ha. apply adc_ok_true.
  pose proof (adc_ok_all g) as H. rewrite forallb_forall in H. exact (H a Ha).
Qed.

