(* C08 — from the TEXT of a .meta file to the geometry: composition of C09's model of
   spikeglx.read_meta_data (coq/C09/Model.v, written out as IBL.C09.Model.x — a module alias would defeat monolithic extraction: read_meta, version, lookup, py_int) with the
   tokeniser (Scan.v) and the geometry model (Model.v).  Definitions only.

   spikeglx.read_geometry(file)            = geometry_of_file text true   (first component)
   geometry_from_meta(read_meta_data(file), return_index=True, sort=s) = geometry_of_file text s *)
From Coq Require Import String ZArith List Bool.
From IBL.C09 Require Model.
From IBL.C08 Require Import Model Scan.
Import ListNotations.
Open Scope Z_scope.

(* _get_neuropixel_major_version_from_meta: MAJOR_VERSION[version] *)
Definition gen_of_vers (v : IBL.C09.Model.vers) : gen :=
  match v with
  | IBL.C09.Model.V3A | IBL.C09.Model.V3B1 | IBL.C09.Model.V3B2 => NP1
  | IBL.C09.Model.VNP21 => NP21
  | IBL.C09.Model.VNP24 => NP24
  | IBL.C09.Model.VNPultra => NPU
  end.

(* _map_channels_from_meta(meta) *)
Inductive cmap :=
| NoKey                                   (* returns None *)
| Empty                                   (* key present, no entry: dictionary of None *)
| Table (e : encoding) (sites : list site)
| MapError.                               (* an exception (ValueError on an empty field, TypeError on a
                                             numeric value under the key) *)
Definition map_value (e : encoding) (v : IBL.C09.Model.value) : cmap :=
  match v with
  | IBL.C09.Model.VStr s => match parse_map s with
                 | None => MapError
                 | Some [] => Empty
                 | Some sites => Table e sites
                 end
  | _ => MapError
  end.
Definition kShankMap := IBL.C09.Model.lit "snsShankMap".
Definition kGeomMap := IBL.C09.Model.lit "snsGeomMap".
Definition kSplit := IBL.C09.Model.lit "NP2.4_shank".
Definition channel_map (d : IBL.C09.Model.dict) : cmap :=
  match IBL.C09.Model.lookup kShankMap d with
  | Some v => map_value ShankMap v
  | None => match IBL.C09.Model.lookup kGeomMap d with
            | Some v => map_value GeomMap v
            | None => NoKey
            end
  end.

(* int(meta_data["NP2.4_shank"]) when the key exists: None = exception *)
Definition split_key (d : IBL.C09.Model.dict) : option (option Z) :=
  match IBL.C09.Model.lookup kSplit d with
  | None => Some None
  | Some v => option_map Some (IBL.C09.Model.py_int v)
  end.

Inductive outcome :=
| Raise                                   (* an exception *)
| NoGeometry                              (* (None, None): no map and no probe version *)
| Outside                                 (* the geometry model has no answer: coordinates off the grid,
                                             more than 384 entries *)
| Geometry (t : geom) (inds : list Z).
Definition of_opt (o : option (geom * list Z)) : outcome :=
  match o with Some (t, inds) => Geometry t inds | None => Outside end.

(* the no-table fallback (repo 569e533): a function of (major version, stream type) —
     if major_version is None or _get_type_from_meta(meta_data) == "nidq": return None[, None]
     th = trace_header(version=major_version) ...
   the type is asked only when there is a version (short circuit); is_nidq = None: _get_type_from_meta raised *)
Definition fallback (v : option IBL.C09.Model.vers) (is_nidq : option bool) : outcome :=
  match v with
  | None => NoGeometry
  | Some v => match is_nidq with
              | None => Raise
              | Some true => NoGeometry
              | Some false => of_opt (geometry_default (gen_of_vers v))
              end
  end.
Definition type_is_nidq (d : IBL.C09.Model.dict) : option bool :=
  match IBL.C09.Model.get_type d with
  | None => None
  | Some (Some IBL.C09.Model.SNidq) => Some true
  | Some _ => Some false
  end.

(* geometry_from_meta(meta, return_index=True, sort=sort) *)
Definition geometry_of_dict (d : IBL.C09.Model.dict) (sort : bool) : outcome :=
  match channel_map d with
  | MapError => Raise
  | NoKey | Empty => fallback (IBL.C09.Model.version d) (type_is_nidq d)
  | Table e sites =>
      match IBL.C09.Model.version d with
      | None => Raise                     (* CHANNEL_GRID[None]: KeyError *)
      | Some v =>
          match split_key d with
          | None => Raise
          | Some split => of_opt (geometry (gen_of_vers v) e sites split sort)
          end
      end
  end.

Definition geometry_of_file (text : IBL.C09.Model.str) (sort : bool) : outcome :=
  match IBL.C09.Model.read_meta text with
  | None => Raise
  | Some d => geometry_of_dict d sort
  end.

(* ---- the text seen line by line ---- *)
(* value text of the last line whose key (tildes removed) is k *)
Fixpoint last_value (k : IBL.C09.Model.str) (ls : list (IBL.C09.Model.str * IBL.C09.Model.str)) : option IBL.C09.Model.str :=
  match ls with
  | [] => None
  | (k', v) :: r =>
      match last_value k r with
      | Some x => Some x
      | None => if IBL.C09.Model.str_eq_dec k (IBL.C09.Model.untilde k') then Some v else None
      end
  end.
(* the lines as an association list, last line first, values parsed one by one *)
Definition text_entry (kv : IBL.C09.Model.str * IBL.C09.Model.str) : IBL.C09.Model.str * IBL.C09.Model.value :=
  (IBL.C09.Model.untilde (fst kv), match IBL.C09.Model.parse_value (snd kv) with Some x => x | None => IBL.C09.Model.VNone end).
Definition text_dict (ls : list (IBL.C09.Model.str * IBL.C09.Model.str)) : IBL.C09.Model.dict := rev (map text_entry ls).
(* the file: every line "key=value" terminated by a line feed *)
Definition file_of (ls : list (IBL.C09.Model.str * IBL.C09.Model.str)) : IBL.C09.Model.str :=
  concat (map (fun kv => fst kv ++ 61 :: snd kv ++ [10]) ls).
