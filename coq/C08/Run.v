(* C08 — flat-integer interface of the model for the correspondence check.
   input[0] = mode
   mode 0  geometry_from_meta / read_geometry / Reader.geometry
           [0; gen; enc; sort; split; n; shank_0; a_0; b_0; flag_0; ...]
           gen 0 NP1 | 1 NP2.1 | 2 NP2.4 | 3 NPultra ; enc 0 shank map | 1 geometry map | 2 no map
           split = -1 (no NP2.4_shank key) or the shank; with enc = 2 (or n = 0) the slot carries the
           nc argument instead (-1 = the default 384)
           gen 3 with enc 1 (NPultra geometry map): the row column holds ROW6 = 6 * row (F-C08-b)
           modes 1-3: a gen code outside 0..3 = a version value the code has no branch for -> [0]
           -> [1; n'; shank; col; row; flag; x; y; shift numerators; adc; ind; inds]   (each n' long)
              or [0] when the model returns None
   mode 1  trace_header(version, nshank) then optional split_trace_header(h, s)
           [1; gen; nshank; s]  (s = -1: no split)   -> same layout as mode 0 without inds
   mode 2  adc_shifts(version, nc)      [2; gen; nc] -> [1; nc'; shifts; adc]
   mode 3  rc2xy(row=a, col=b) and xy2rc(x=a, y=b)   [3; gen; n; a_0..; b_0..]
           -> xs ++ ys ++ [DX; DY] ++ (a_i - X0) ++ (b_i - Y0) ++ exact col (1 v | 0) ++ exact row
   mode 4  _map_channels_from_meta on a map string   [4; ascii codes ...]
           -> [1; n; shank_0; a_0; b_0; flag_0; ...]  or [0] (ValueError)
   mode 5  geometry_from_meta(read_meta_data(file), return_index=True, sort) on the file TEXT
           [5; sort; code points of the file ...]
           -> [0] exception | [2] (None, None) | [3] outside the model | 1 :: geometry ++ inds *)
From Coq Require Import ZArith List Bool.
From IBL.lib Require Import PyInt RunLib.
From IBL.C08 Require Import Model Scan File.
Import ListNotations.
Open Scope Z_scope.

Definition dec_gen (z : Z) : gen :=
  if z =? 0 then NP1 else if z =? 1 then NP21 else if z =? 2 then NP24 else NPU.
(* version arguments of the public neuropixel functions: codes 0..3 as above, anything else = a value the
   code has no branch for (3, 0, 1.5, "3A", ...) *)
Definition dec_gen_opt (z : Z) : option gen :=
  if (0 <=? z) && (z <=? 3) then Some (dec_gen z) else None.

Fixpoint dec_sites (n : nat) (l : list Z) : list site :=
  match n, l with
  | S n', s :: a :: b :: f :: r => (s, a, b, f) :: dec_sites n' r
  | _, _ => []
  end.

Definition enc_geom (t : geom) : list Z :=
  Z.of_nat (gsize t) :: concat (columns t).

Definition run (inp : list Z) : list Z :=
  match inp with
  | 0 :: g :: e :: srt :: split :: n :: rest =>
      let sites := dec_sites (Z.to_nat n) rest in
      let r := if (e =? 2) || (n =? 0)
               then geometry_default_nc (dec_gen g) (if split <? 0 then NC else Z.to_nat split)
               else if (g =? 3) && (e =? 1) then geometry_npu_geom sites (if split <? 0 then None else Some split) (srt =? 1)
               else geometry (dec_gen g) (if e =? 0 then ShankMap else GeomMap) sites
                             (if split <? 0 then None else Some split) (srt =? 1) in
      match r with
      | Some (t, inds) => 1 :: enc_geom t ++ inds
      | None => [0]
      end
  | [1; g; nshank; s] =>
      match trace_header_v (dec_gen_opt g) nshank with
      | Some t => 1 :: enc_geom (if s <? 0 then t else split_trace_header t s)
      | None => [0]
      end
  | [2; g; nc] =>
      match adc_shifts_v (dec_gen_opt g) (Z.to_nat nc) with
      | Some (sh, adc) => 1 :: Z.of_nat (length sh) :: sh ++ adc
      | None => [0]
      end
  | 3 :: g :: n :: rest =>
      if negb ((0 <=? g) && (g <=? 3)) then [0] else
      let gg := dec_gen g in
      let a := firstn (Z.to_nat n) rest in
      let b := firstn (Z.to_nat n) (skipn (Z.to_nat n) rest) in
      map (rc2x gg) b ++ map (rc2y gg) a ++ [DX gg; DY gg]
      ++ map (fun x => x - X0 gg) a ++ map (fun y => y - Y0 gg) b
      ++ flat_map (fun x => enc_option (fun v => [v]) (xy2c gg x)) a
      ++ flat_map (fun y => enc_option (fun v => [v]) (xy2r gg y)) b
  | 5 :: srt :: text =>
      match geometry_of_file text (srt =? 1) with
      | Raise => [0]
      | NoGeometry => [2]
      | Outside => [3]
      | Geometry t inds => 1 :: enc_geom t ++ inds
      end
  | 4 :: text =>
      match parse_map text with
      | Some sites => 1 :: Z.of_nat (length sites)
                        :: flat_map (fun s => [s_shank s; s_a s; s_b s; s_flag s]) sites
      | None => [0]
      end
  | _ => [-999]
  end.

Definition mismatches := mismatches_of run.
