(* C08 — lemmas. *)
From Coq Require Import ZArith List Bool Lia Permutation Sorted Field.
From IBL.lib Require Import PyInt.
From IBL.C08 Require Import Model Adc.
Import ListNotations.
Open Scope Z_scope.
Arguments zrange : simpl never.
Arguments firstn : simpl never.

(* ================================================================== *)
(* generic list facts                                                  *)
(* ================================================================== *)
Lemma znth_map_zrange (f : Z -> Z) n i : 0 <= i < Z.of_nat n -> znth (map f (zrange n)) i = f i.
Proof.
  intros Hi. unfold znth, zrange. rewrite map_map.
  rewrite nth_indep with (d' := f (Z.of_nat 0)) by (rewrite map_length, seq_length; lia).
  rewrite (map_nth (fun k => f (Z.of_nat k)) (seq 0 n) 0%nat).
  rewrite seq_nth by lia. f_equal. lia.
Qed.

Lemma znth_zrange n i : 0 <= i < Z.of_nat n -> znth (zrange n) i = i.
Proof.
  intros Hi. rewrite <- (map_id (zrange n)). now rewrite (znth_map_zrange (fun x => x)).
Qed.

Lemma gather_length inds v : length (gather inds v) = length inds.
Proof. unfold gather. apply map_length. Qed.

Lemma znth_gather inds v i : 0 <= i < Z.of_nat (length inds) ->
  znth (gather inds v) i = znth v (znth inds i).
Proof.
  intros Hi. unfold gather, znth at 1.
  rewrite nth_indep with (d' := znth v 0) by (rewrite map_length; lia).
  now rewrite map_nth.
Qed.

Lemma gather_zrange_id inds n : Forall (fun j => 0 <= j < Z.of_nat n) inds -> gather inds (zrange n) = inds.
Proof.
  induction 1 as [|j l Hj _ IH]; [reflexivity|]. cbn. rewrite znth_zrange by lia. f_equal. exact IH.
Qed.

Lemma zrange_S n : zrange (S n) = zrange n ++ [Z.of_nat n].
Proof. unfold zrange. rewrite seq_S, map_app. reflexivity. Qed.

Lemma zrange_NoDup n : NoDup (zrange n).
Proof.
  unfold zrange. apply FinFun.Injective_map_NoDup; [|apply seq_NoDup].
  intros a b H. lia.
Qed.

Lemma zrange_increasing n : StronglySorted Z.lt (zrange n).
Proof.
  induction n as [|n IH]; [constructor|].
  rewrite zrange_S.
  assert (H : forall l x, StronglySorted Z.lt l -> Forall (fun y => y < x) l -> StronglySorted Z.lt (l ++ [x])).
  { induction l as [|a l IHl]; intros x Hs Hf; cbn.
    - constructor; constructor.
    - inversion Hs; inversion Hf; subst. constructor; [now apply IHl|].
      apply Forall_app. split; [assumption|]. constructor; [assumption|constructor]. }
  apply H; [exact IH|]. apply Forall_forall. intros y Hy. apply in_zrange in Hy. lia.
Qed.

(* ================================================================== *)
(* the sort key order                                                  *)
(* ================================================================== *)
Definition lt3P (a b : key3) : Prop :=
  let '(a1, a2, a3) := a in let '(b1, b2, b3) := b in
  a1 < b1 \/ (a1 = b1 /\ (a2 < b2 \/ (a2 = b2 /\ a3 < b3))).

Lemma lt3_spec a b : lt3 a b = true <-> lt3P a b.
Proof.
  destruct a as [[a1 a2] a3], b as [[b1 b2] b3]. unfold lt3, lt3P.
  destruct (Z.ltb_spec a1 b1), (Z.eqb_spec a1 b1), (Z.ltb_spec a2 b2), (Z.eqb_spec a2 b2),
    (Z.ltb_spec a3 b3); cbn; split; intros H'; try reflexivity; try discriminate; lia.
Qed.

Lemma lt3P_trans a b c : lt3P a b -> lt3P b c -> lt3P a c.
Proof. destruct a as [[a1 a2] a3], b as [[b1 b2] b3], c as [[c1 c2] c3]. unfold lt3P. lia. Qed.

Lemma lt3P_irrefl a : ~ lt3P a a.
Proof. destruct a as [[a1 a2] a3]. unfold lt3P. lia. Qed.

Lemma lt3P_trich a b : lt3P a b \/ a = b \/ lt3P b a.
Proof.
  destruct a as [[a1 a2] a3], b as [[b1 b2] b3]. unfold lt3P.
  destruct (Z.eq_dec a1 b1), (Z.eq_dec a2 b2), (Z.eq_dec a3 b3); subst;
    try (right; left; reflexivity); lia.
Qed.

(* i comes before j: smaller key, or equal key and earlier original position *)
Definition before (key : Z -> key3) (i j : Z) : Prop :=
  lt3P (key i) (key j) \/ (key i = key j /\ i < j).

Lemma before_trans key i j k : before key i j -> before key j k -> before key i k.
Proof.
  unfold before. intros [H1|[E1 L1]] [H2|[E2 L2]].
  - left. eapply lt3P_trans; eassumption.
  - left. now rewrite <- E2.
  - left. now rewrite E1.
  - right. split; [congruence|lia].
Qed.

Lemma before_irrefl key i : ~ before key i i.
Proof. unfold before. intros [H|[_ H]]; [now apply lt3P_irrefl in H|lia]. Qed.

(* ================================================================== *)
(* stable insertion sort                                               *)
(* ================================================================== *)
Lemma insert_perm key x l : Permutation (insert key x l) (x :: l).
Proof.
  induction l as [|y l IH]; cbn; [reflexivity|].
  destruct (lt3 (key y) (key x)); [|reflexivity].
  rewrite IH. apply perm_swap.
Qed.

Lemma isort_perm key l : Permutation (isort key l) l.
Proof.
  induction l as [|x l IH]; cbn; [reflexivity|].
  rewrite insert_perm. now constructor.
Qed.

Lemma insert_sorted key x l :
  StronglySorted (before key) l -> Forall (fun y => x < y) l ->
  StronglySorted (before key) (insert key x l).
Proof.
  induction l as [|y l IH]; intros Hs Hf; cbn.
  - constructor; constructor.
  - inversion Hs as [|? ? Hs' Hy]; subst. inversion Hf as [|? ? Hxy Hf']; subst.
    destruct (lt3 (key y) (key x)) eqn:E.
    + constructor; [now apply IH|].
      eapply Permutation_Forall; [symmetry; apply insert_perm|].
      constructor; [|exact Hy]. left. now apply lt3_spec.
    + assert (Hb : before key x y).
      { destruct (lt3P_trich (key x) (key y)) as [H|[H|H]].
        - now left.
        - right. split; [exact H|exact Hxy].
        - apply lt3_spec in H. congruence. }
      constructor; [exact Hs|]. constructor; [exact Hb|].
      eapply Forall_impl; [|exact Hy]. intros z Hz. eapply before_trans; eassumption.
Qed.

Lemma isort_sorted key l : StronglySorted Z.lt l -> StronglySorted (before key) (isort key l).
Proof.
  induction l as [|x l IH]; intros Hs; cbn; [constructor|].
  inversion Hs as [|? ? Hs' Hx]; subst.
  apply insert_sorted; [now apply IH|].
  eapply Permutation_Forall; [symmetry; apply isort_perm|exact Hx].
Qed.

(* a strict total order has at most one sorted arrangement of a given set *)
Lemma sorted_perm_unique key (l1 l2 : list Z) :
  StronglySorted (before key) l1 -> StronglySorted (before key) l2 -> Permutation l1 l2 -> l1 = l2.
Proof.
  revert l2. induction l1 as [|a l1 IH]; intros l2 H1 H2 Hp.
  - apply Permutation_nil in Hp. now subst.
  - destruct l2 as [|b l2]; [apply Permutation_sym, Permutation_nil in Hp; discriminate|].
    inversion H1 as [|? ? H1' Ha]; subst. inversion H2 as [|? ? H2' Hb]; subst.
    assert (a = b).
    { assert (Ia : In a (b :: l2)) by (eapply Permutation_in; [exact Hp|now left]).
      assert (Ib : In b (a :: l1)) by (eapply Permutation_in; [symmetry; exact Hp|now left]).
      destruct Ia as [->|Ia]; [reflexivity|]. destruct Ib as [->|Ib]; [reflexivity|].
      rewrite Forall_forall in Ha, Hb. exfalso.
      apply (before_irrefl key a). eapply before_trans; [apply Ha, Ib|apply Hb, Ia]. }
    subst b. f_equal. apply IH; try assumption. eapply Permutation_cons_inv; exact Hp.
Qed.

Lemma StronglySorted_nth {A} (R : A -> A -> Prop) (l : list A) d :
  StronglySorted R l -> forall i j, (i < j < length l)%nat -> R (nth i l d) (nth j l d).
Proof.
  induction 1 as [|a l Hs IH Ha]; intros i j Hij; [cbn in Hij; lia|].
  destruct j as [|j]; [lia|]. destruct i as [|i]; cbn.
  - rewrite Forall_forall in Ha. apply Ha, nth_In. cbn in Hij. lia.
  - apply IH. cbn in Hij. lia.
Qed.

(* ================================================================== *)
(* lexsort of a geometry                                               *)
(* ================================================================== *)
Lemma lexsort_perm t : Permutation (lexsort t) (zrange (gsize t)).
Proof. apply isort_perm. Qed.

Lemma lexsort_sorted t : StronglySorted (before (sort_key t)) (lexsort t).
Proof. apply isort_sorted, zrange_increasing. Qed.

Lemma lexsort_length t : length (lexsort t) = gsize t.
Proof. rewrite (Permutation_length (lexsort_perm t)). apply zrange_length. Qed.

Lemma lexsort_range t : Forall (fun j => 0 <= j < Z.of_nat (gsize t)) (lexsort t).
Proof.
  apply Forall_forall. intros j Hj. apply in_zrange.
  eapply Permutation_in; [apply lexsort_perm|exact Hj].
Qed.

Lemma lexsort_once t : NoDup (lexsort t) /\ forall j, In j (lexsort t) <-> 0 <= j < Z.of_nat (gsize t).
Proof.
  split.
  - eapply Permutation_NoDup; [symmetry; apply lexsort_perm|apply zrange_NoDup].
  - intros j. rewrite <- in_zrange. split; apply Permutation_in; [|symmetry]; apply lexsort_perm.
Qed.

(* the sorted order, read on positions of the index vector *)
Lemma lexsort_order t i j : 0 <= i -> i < j -> j < Z.of_nat (gsize t) ->
  before (sort_key t) (znth (lexsort t) i) (znth (lexsort t) j).
Proof.
  intros H0 Hij Hj. unfold znth.
  apply StronglySorted_nth; [apply lexsort_sorted|]. rewrite lexsort_length. lia.
Qed.

(* any stable sort by the same key yields the same index vector *)
Lemma lexsort_unique t l : Permutation l (zrange (gsize t)) -> StronglySorted (before (sort_key t)) l ->
  l = lexsort t.
Proof.
  intros Hp Hs. apply (sorted_perm_unique (sort_key t)); [exact Hs|apply lexsort_sorted|].
  rewrite Hp. symmetry. apply lexsort_perm.
Qed.

(* ================================================================== *)
(* rectangular geometries                                              *)
(* ================================================================== *)
Definition rect (t : geom) (n : nat) : Prop := Forall (fun c => length c = n) (columns t).

Lemma rect_gmap_gather idx t : rect (gmap (gather idx) t) (length idx).
Proof. unfold rect, columns, gmap; cbn. repeat constructor; apply gather_length. Qed.

Lemma columns_gmap f t : columns (gmap f t) = map f (columns t).
Proof. reflexivity. Qed.

(* ================================================================== *)
(* shape of geometry_unsorted                                          *)
(* ================================================================== *)
Lemma map_opt_length {A B} (f : A -> option B) l r : map_opt f l = Some r -> length r = length l.
Proof.
  revert r. induction l as [|a l IH]; intros r H; cbn in H.
  - now inversion H.
  - destruct (f a); [|discriminate]. destruct (map_opt f l) as [r'|]; [|discriminate].
    inversion H; subst. cbn. f_equal. now apply IH.
Qed.

Lemma map_opt_nth {A B} (f : A -> option B) l r da db : map_opt f l = Some r ->
  forall i, (i < length l)%nat -> f (nth i l da) = Some (nth i r db).
Proof.
  revert r. induction l as [|a l IH]; intros r H i Hi; cbn in *; [lia|].
  destruct (f a) eqn:Ea; [|discriminate]. destruct (map_opt f l) as [r'|]; [|discriminate].
  inversion H; subst. destruct i as [|i]; cbn; [exact Ea|]. apply IH; [reflexivity|lia].
Qed.

Lemma map_opt_ext {A B} (f f' : A -> option B) l : (forall a, In a l -> f a = f' a) ->
  map_opt f l = map_opt f' l.
Proof.
  induction l as [|a l IH]; intros H; cbn; [reflexivity|].
  rewrite (H a) by now left. rewrite IH; [reflexivity|]. intros b Hb. apply H. now right.
Qed.

Lemma map_opt_map {A B C} (f : B -> option C) (h : A -> B) l :
  map_opt f (map h l) = map_opt (fun a => f (h a)) l.
Proof. induction l as [|a l IH]; cbn; [reflexivity|]. now rewrite IH. Qed.

Lemma nth_firstn_lt {A} (l : list A) n i d : (i < n)%nat -> nth i (firstn n l) d = nth i l d.
Proof.
  revert n i. induction l as [|a l IH]; intros n i H.
  - now rewrite firstn_nil.
  - destruct n as [|n]; [lia|]. destruct i as [|i]; cbn; [reflexivity|]. apply IH. lia.
Qed.

Lemma znth_map_nth {A} (f : A -> Z) (l : list A) d i : (i < length l)%nat ->
  znth (map f l) (Z.of_nat i) = f (nth i l d).
Proof.
  intros Hi. unfold znth. rewrite Nat2Z.id.
  rewrite nth_indep with (d' := f d) by (rewrite map_length; lia). apply map_nth.
Qed.

(* the unsplit, unsorted geometry, column by column *)
Definition raw_geom (g : gen) (sites : list site) (q : list (Z * Z * Z * Z)) : geom :=
  mkgeom (map s_shank sites)
         (map (fun p => fst (fst (fst p))) q) (map (fun p => snd (fst (fst p))) q)
         (map s_flag sites)
         (map (fun p => snd (fst p)) q) (map snd q)
         (firstn (length sites) (map (shift_closed g) (zrange NC)))
         (firstn (length sites) (map (adc_of g) (zrange NC))) [].

Lemma geometry_unsorted_inv g e sites split t : geometry_unsorted g e sites split = Some t ->
  exists q, map_opt (site_crxy g e) sites = Some q /\ (length sites <= NC)%nat /\
            t = with_ind (gsplit split (raw_geom g sites q)).
Proof.
  unfold geometry_unsorted. rewrite adc_shifts_prefix.
  destruct (map_opt (site_crxy g e) sites) as [q|] eqn:Eq; [|discriminate].
  destruct (length sites <=? NC)%nat eqn:El; [|discriminate].
  intros H. inversion H; subst. exists q. repeat split. now apply Nat.leb_le.
Qed.

Lemma geometry_unsorted_intro g e sites split q : map_opt (site_crxy g e) sites = Some q ->
  (length sites <= NC)%nat ->
  geometry_unsorted g e sites split = Some (with_ind (gsplit split (raw_geom g sites q))).
Proof.
  intros Eq Hl. unfold geometry_unsorted. rewrite adc_shifts_prefix, Eq.
  apply Nat.leb_le in Hl. rewrite Hl. reflexivity.
Qed.

Lemma firstn_tables_length n (f : Z -> Z) : (n <= NC)%nat -> length (firstn n (map f (zrange NC))) = n.
Proof. intros H. rewrite firstn_length, map_length, zrange_length. lia. Qed.

Lemma raw_geom_rect g sites q : length q = length sites -> (length sites <= NC)%nat ->
  rect (with_ind (raw_geom g sites q)) (length sites).
Proof.
  intros Hq Hl. unfold rect, columns, with_ind, raw_geom, gsize; cbn.
  repeat constructor;
    repeat (rewrite ?map_length, ?zrange_length, ?firstn_tables_length by assumption); auto.
Qed.

Lemma geometry_unsorted_rect g e sites split t : geometry_unsorted g e sites split = Some t ->
  rect t (gsize t) /\ g_ind t = zrange (gsize t).
Proof.
  intros H. destruct (geometry_unsorted_inv _ _ _ _ _ H) as [q [Eq [Hl ->]]].
  split; [|reflexivity].
  destruct split as [s|]; cbn [gsplit].
  - unfold rect, columns, with_ind, gsize; cbn.
    repeat constructor; rewrite ?zrange_length, ?gather_length, ?map_length; reflexivity.
  - pose proof (raw_geom_rect g sites q (map_opt_length _ _ _ Eq) Hl) as Hr.
    assert (gsize (with_ind (raw_geom g sites q)) = length sites) as ->; [|exact Hr].
    unfold gsize, with_ind, raw_geom; cbn. rewrite map_length. now apply map_opt_length in Eq.
Qed.

(* ================================================================== *)
(* sorting a geometry: joint re-indexing                               *)
(* ================================================================== *)
Lemma geometry_sorted_inv g e sites split t' inds : geometry g e sites split true = Some (t', inds) ->
  exists t, geometry g e sites split false = Some (t, zrange (gsize t)) /\
            inds = lexsort t /\ t' = gmap (gather inds) t.
Proof.
  unfold geometry. destruct (geometry_unsorted g e sites split) as [t|]; [|discriminate].
  intros H. inversion H; subst. exists t. repeat split.
Qed.

Lemma geometry_unsorted_of_false g e sites split t inds :
  geometry g e sites split false = Some (t, inds) ->
  geometry_unsorted g e sites split = Some t /\ inds = zrange (gsize t).
Proof.
  unfold geometry. destruct (geometry_unsorted g e sites split) as [t0|]; [|discriminate].
  intros H. inversion H; subst. split; reflexivity.
Qed.

Lemma sorted_ind_is_index t : g_ind t = zrange (gsize t) -> g_ind (gmap (gather (lexsort t)) t) = lexsort t.
Proof. intros H. cbn. rewrite H. apply gather_zrange_id, lexsort_range. Qed.

(* order of the sorted columns *)
Definition ordered_at (S R C I : list Z) (i j : Z) : Prop :=
  znth S i < znth S j \/
  (znth S i = znth S j /\
   (znth R i < znth R j \/
    (znth R i = znth R j /\
     (znth C i > znth C j \/ (znth C i = znth C j /\ znth I i < znth I j))))).

Lemma sorted_columns_ordered t : g_ind t = zrange (gsize t) ->
  let t' := gmap (gather (lexsort t)) t in
  forall i j, 0 <= i -> i < j -> j < Z.of_nat (gsize t) ->
  ordered_at (g_shank t') (g_row t') (g_col t') (g_ind t') i j.
Proof.
  intros Hind t' i j H0 Hij Hj. unfold ordered_at, t'.
  rewrite (sorted_ind_is_index t Hind). cbn [gmap g_shank g_row g_col].
  rewrite !znth_gather by (rewrite lexsort_length; lia).
  pose proof (lexsort_order t i j H0 Hij Hj) as Hb.
  unfold before, sort_key, lt3P in Hb.
  destruct Hb as [Hb|[He Hl]].
  - lia.
  - inversion He. lia.
Qed.

Lemma znth_firstn_table (f : Z -> Z) n i : (i < n)%nat -> (n <= NC)%nat ->
  znth (firstn n (map f (zrange NC))) (Z.of_nat i) = f (Z.of_nat i).
Proof.
  intros Hi Hn. unfold znth at 1. rewrite Nat2Z.id, nth_firstn_lt by exact Hi.
  rewrite <- (Nat2Z.id i) at 1. apply (znth_map_zrange f NC (Z.of_nat i)). lia.
Qed.

(* ================================================================== *)
(* the unsorted, unsplit geometry lists site i at position i           *)
(* ================================================================== *)
Definition dsite : site := (0, 0, 0, 0).

Lemma unsorted_describes_sites g e sites t : geometry_unsorted g e sites None = Some t ->
  gsize t = length sites /\ rect t (length sites) /\
  forall i, (i < length sites)%nat ->
    let z := Z.of_nat i in
    znth (g_shank t) z = s_shank (nth i sites dsite) /\
    znth (g_flag t) z = s_flag (nth i sites dsite) /\
    site_crxy g e (nth i sites dsite) =
      Some (znth (g_col t) z, znth (g_row t) z, znth (g_x t) z, znth (g_y t) z) /\
    znth (g_adc t) z = adc_of g z /\
    znth (g_shift t) z = shift_closed g z /\
    znth (g_ind t) z = z.
Proof.
  intros H. destruct (geometry_unsorted_inv _ _ _ _ _ H) as [q [Eq [Hl ->]]]. cbn [gsplit].
  pose proof (map_opt_length _ _ _ Eq) as Hq.
  assert (Hs : gsize (with_ind (raw_geom g sites q)) = length sites).
  { unfold gsize, with_ind, raw_geom; cbn. now rewrite map_length. }
  split; [exact Hs|]. split; [now apply raw_geom_rect|].
  intros i Hi. unfold with_ind, gsize, raw_geom; cbn [g_shank g_flag g_col g_row g_x g_y g_adc g_shift g_ind].
  repeat split.
  - now apply znth_map_nth.
  - now apply znth_map_nth.
  - rewrite (map_opt_nth _ _ _ dsite (0, 0, 0, 0) Eq i Hi).
    rewrite !(znth_map_nth _ q (0, 0, 0, 0)) by lia.
    now destruct (nth i q (0, 0, 0, 0)) as [[[a b] c] d].
  - now apply znth_firstn_table.
  - now apply znth_firstn_table.
  - apply znth_zrange. rewrite map_length. lia.
Qed.

(* ================================================================== *)
(* row/col <-> x/y                                                     *)
(* ================================================================== *)
Lemma DX_pos g : 0 < DX g. Proof. destruct g; reflexivity. Qed.
Lemma DY_pos g : 0 < DY g. Proof. destruct g; reflexivity. Qed.

Lemma exact_div_mul k b : 0 < b -> exact_div (k * b) b = Some k.
Proof.
  intros Hb. unfold exact_div. rewrite Z_mod_mult, Z.eqb_refl, Z_div_mult by lia. reflexivity.
Qed.

Lemma exact_div_inv a b k : 0 < b -> exact_div a b = Some k -> a = k * b.
Proof.
  intros Hb. unfold exact_div. destruct (a mod b =? 0) eqn:E; [|discriminate].
  apply Z.eqb_eq in E. intros H. inversion H; subst.
  pose proof (Z.div_mod a b ltac:(lia)). lia.
Qed.

Lemma xy2c_rc2x g c : xy2c g (rc2x g c) = Some c.
Proof.
  unfold xy2c, rc2x. replace (c * DX g + X0 g - X0 g) with (c * DX g) by ring.
  apply exact_div_mul, DX_pos.
Qed.
Lemma xy2r_rc2y g r : xy2r g (rc2y g r) = Some r.
Proof.
  unfold xy2r, rc2y. replace (r * DY g + Y0 g - Y0 g) with (r * DY g) by ring.
  apply exact_div_mul, DY_pos.
Qed.
Lemma rc2x_xy2c g x c : xy2c g x = Some c -> rc2x g c = x.
Proof. unfold xy2c, rc2x. intros H. apply exact_div_inv in H; [lia|apply DX_pos]. Qed.
Lemma rc2y_xy2r g y r : xy2r g y = Some r -> rc2y g r = y.
Proof. unfold xy2r, rc2y. intros H. apply exact_div_inv in H; [lia|apply DY_pos]. Qed.

(* the source's formulas over any field (real numbers: the intended semantics of
   the float code): exact inverses whenever the pitch is non-zero *)
Section FieldInverse.
  Variables (F : Type) (f0 f1 : F) (fadd fmul fsub : F -> F -> F) (fopp : F -> F)
            (fdiv : F -> F -> F) (finv : F -> F).
  Hypothesis Fth : field_theory f0 f1 fadd fmul fsub fopp fdiv finv (@eq F).
  Add Field Ffield : Fth.
  Definition rc2xy_F (d o v : F) : F := fadd (fmul v d) o.        (* col * DX + X0 *)
  Definition xy2rc_F (d o v : F) : F := fdiv (fsub v o) d.        (* (x - X0) / DX *)
  Lemma field_xy_of_rc d o v : d <> f0 -> xy2rc_F d o (rc2xy_F d o v) = v.
  Proof using Fth. intros Hd. unfold xy2rc_F, rc2xy_F. field. exact Hd. Qed.
  Lemma field_rc_of_xy d o v : d <> f0 -> rc2xy_F d o (xy2rc_F d o v) = v.
  Proof using Fth. intros Hd. unfold xy2rc_F, rc2xy_F. field. exact Hd. Qed.
End FieldInverse.

(* ================================================================== *)
(* the two encodings                                                   *)
(* ================================================================== *)
Lemma encodings_site g s : g <> NPU -> site_crxy g GeomMap (geom_entry g s) = site_crxy g ShankMap s.
Proof.
  intros Hg. destruct s as [[[sh c] r] f].
  destruct g; try congruence; unfold site_crxy, geom_entry, s_a, s_b, xy2c, xy2r, rc2x, rc2y; cbn [fst snd DX DY X0 Y0].
  - replace (70 - (27 + 32 * c - 16 * (r mod 2))) with ((- c * 2 + 2 + r mod 2) * 16 + 11) by ring.
    replace ((- c * 2 + 2 + r mod 2) * 16 + 11 - 11) with ((- c * 2 + 2 + r mod 2) * 16) by ring.
    replace (20 * r + 20) with (r * 20 + 20) by ring.
    replace (r * 20 + 20 - 20) with (r * 20) by ring.
    rewrite !exact_div_mul by lia. reflexivity.
  - replace (27 + 32 * c) with (c * 32 + 27) by ring.
    replace (c * 32 + 27 - 27) with (c * 32) by ring.
    replace (15 * r + 20) with (r * 15 + 20) by ring.
    replace (r * 15 + 20 - 20) with (r * 15) by ring.
    rewrite !exact_div_mul by lia. reflexivity.
  - replace (27 + 32 * c) with (c * 32 + 27) by ring.
    replace (c * 32 + 27 - 27) with (c * 32) by ring.
    replace (15 * r + 20) with (r * 15 + 20) by ring.
    replace (r * 15 + 20 - 20) with (r * 15) by ring.
    rewrite !exact_div_mul by lia. reflexivity.
Qed.

Lemma geom_entry_shank g s : s_shank (geom_entry g s) = s_shank s.
Proof. destruct s as [[[sh c] r] f]; destruct g; reflexivity. Qed.
Lemma geom_entry_flag g s : s_flag (geom_entry g s) = s_flag s.
Proof. destruct s as [[[sh c] r] f]; destruct g; reflexivity. Qed.

Lemma encodings_unsorted g sites split : g <> NPU ->
  geometry_unsorted g GeomMap (map (geom_entry g) sites) split = geometry_unsorted g ShankMap sites split.
Proof.
  intros Hg. unfold geometry_unsorted.
  rewrite map_opt_map, map_length, !map_map.
  rewrite (map_opt_ext _ (site_crxy g ShankMap)) by (intros; now apply encodings_site).
  rewrite (map_ext _ s_shank) by (intros; apply geom_entry_shank).
  rewrite (map_ext (fun x => s_flag (geom_entry g x)) s_flag) by (intros; apply geom_entry_flag).
  reflexivity.
Qed.

Lemma encodings_geometry g sites split srt : g <> NPU ->
  geometry g GeomMap (map (geom_entry g) sites) split srt = geometry g ShankMap sites split srt.
Proof. intros Hg. unfold geometry. now rewrite encodings_unsorted. Qed.

(* ================================================================== *)
(* restriction to one shank                                            *)
(* ================================================================== *)
Lemma where_eq_from_spec s v : forall k j,
  In j (where_eq_from k s v) <-> (k <= j < k + Z.of_nat (length v) /\ nth (Z.to_nat (j - k)) v 0 = s).
Proof.
  induction v as [|a v IH]; intros k j; cbn [where_eq_from length].
  - cbn. split; [tauto|lia].
  - destruct (Z.eqb_spec a s) as [E|E].
    + cbn [In]. rewrite IH. split.
      * intros [<-|[Hr Hn]].
        -- split; [lia|]. now rewrite Z.sub_diag.
        -- split; [lia|]. replace (Z.to_nat (j - k)) with (S (Z.to_nat (j - (k + 1)))) by lia. exact Hn.
      * intros [Hr Hn]. destruct (Z.eq_dec k j) as [->|Hne]; [now left|right].
        split; [lia|]. replace (Z.to_nat (j - k)) with (S (Z.to_nat (j - (k + 1)))) in Hn by lia. exact Hn.
    + rewrite IH. split.
      * intros [Hr Hn]. split; [lia|].
        replace (Z.to_nat (j - k)) with (S (Z.to_nat (j - (k + 1)))) by lia. exact Hn.
      * intros [Hr Hn]. destruct (Z.eq_dec k j) as [->|Hne].
        -- rewrite Z.sub_diag in Hn. cbn in Hn. contradiction.
        -- split; [lia|].
           replace (Z.to_nat (j - k)) with (S (Z.to_nat (j - (k + 1)))) in Hn by lia. exact Hn.
Qed.

Lemma where_eq_spec s v j : In j (where_eq s v) <-> (0 <= j < Z.of_nat (length v) /\ znth v j = s).
Proof. unfold where_eq, znth. rewrite where_eq_from_spec. now rewrite Z.sub_0_r, Z.add_0_l. Qed.

Lemma where_eq_from_increasing s v : forall k,
  StronglySorted Z.lt (where_eq_from k s v) /\ Forall (fun j => k <= j) (where_eq_from k s v).
Proof.
  induction v as [|a v IH]; intros k; cbn [where_eq_from]; [split; constructor|].
  destruct (IH (k + 1)) as [Hs Hf].
  assert (Hf' : Forall (fun j => k < j) (where_eq_from (k + 1) s v))
    by (eapply Forall_impl; [|exact Hf]; cbn; intros; lia).
  destruct (a =? s).
  - split; [constructor; assumption|]. constructor; [lia|].
    eapply Forall_impl; [|exact Hf']; cbn; intros; lia.
  - split; [assumption|]. eapply Forall_impl; [|exact Hf']; cbn; intros; lia.
Qed.

Lemma where_eq_increasing s v : StronglySorted Z.lt (where_eq s v).
Proof. apply where_eq_from_increasing. Qed.

(* the split geometry (unsorted): every column is the parent's column restricted to the
   positions of that shank, in order; only the running index is renumbered *)
Lemma split_is_restriction g e sites s t' : geometry_unsorted g e sites (Some s) = Some t' ->
  exists t, geometry_unsorted g e sites None = Some t /\
    let idx := where_eq s (g_shank t) in
    g_shank t' = gather idx (g_shank t) /\ g_col t' = gather idx (g_col t) /\
    g_row t' = gather idx (g_row t) /\ g_flag t' = gather idx (g_flag t) /\
    g_x t' = gather idx (g_x t) /\ g_y t' = gather idx (g_y t) /\
    g_shift t' = gather idx (g_shift t) /\ g_adc t' = gather idx (g_adc t) /\
    g_ind t' = zrange (length idx) /\ gsize t' = length idx.
Proof.
  intros H. destruct (geometry_unsorted_inv _ _ _ _ _ H) as [q [Eq [Hl ->]]].
  exists (with_ind (raw_geom g sites q)). split; [now apply (geometry_unsorted_intro g e sites None)|].
  intros idx. unfold with_ind, gsplit, gmap, gsize, raw_geom;
    cbn [g_shank g_col g_row g_flag g_x g_y g_shift g_adc g_ind].
  repeat split; try reflexivity; now rewrite gather_length.
Qed.

(* ---- sorting commutes with the restriction ---- *)
Lemma Permutation_filter_ {A} (p : A -> bool) l l' : Permutation l l' -> Permutation (filter p l) (filter p l').
Proof.
  induction 1 as [|x l l' _ IH|x y l|l l' l'' _ IH1 _ IH2]; cbn.
  - constructor.
  - destruct (p x); [now constructor|assumption].
  - destruct (p x), (p y); try reflexivity. apply perm_swap.
  - now rewrite IH1.
Qed.

Lemma StronglySorted_filter {A} (R : A -> A -> Prop) p l : StronglySorted R l -> StronglySorted R (filter p l).
Proof.
  induction 1 as [|a l Hs IH Ha]; cbn; [constructor|].
  destruct (p a); [|assumption]. constructor; [assumption|].
  rewrite Forall_forall in *. intros x Hx. apply filter_In in Hx. now apply Ha.
Qed.

Lemma where_eq_from_filter s v : forall k,
  where_eq_from k s v = filter (fun j => nth (Z.to_nat (j - k)) v 0 =? s)
                               (map (fun i => k + Z.of_nat i) (seq 0 (length v))).
Proof.
  induction v as [|a v IH]; intros k; [reflexivity|].
  cbn [where_eq_from length seq map filter].
  rewrite Z.add_0_r, Z.sub_diag. cbn [Z.to_nat nth].
  rewrite IH, <- seq_shift, map_map.
  assert (E : forall l : list nat,
              filter (fun j => nth (Z.to_nat (j - (k + 1))) v 0 =? s)
                     (map (fun i => k + 1 + Z.of_nat i) l)
            = filter (fun j => nth (Z.to_nat (j - k)) (a :: v) 0 =? s)
                     (map (fun x => k + Z.of_nat (S x)) l)).
  { clear IH. induction l as [|i l IHl]; [reflexivity|]. cbn [map filter].
    replace (Z.to_nat (k + 1 + Z.of_nat i - (k + 1))) with i by lia.
    replace (Z.to_nat (k + Z.of_nat (S i) - k)) with (S i) by lia. cbn [nth].
    replace (k + 1 + Z.of_nat i) with (k + Z.of_nat (S i)) by lia.
    destruct (nth i v 0 =? s); [f_equal|]; exact IHl. }
  rewrite E. reflexivity.
Qed.

Lemma where_eq_filter s v : where_eq s v = filter (fun j => znth v j =? s) (zrange (length v)).
Proof.
  unfold where_eq. rewrite where_eq_from_filter. unfold zrange, znth.
  rewrite (map_ext (fun i => 0 + Z.of_nat i) Z.of_nat) by (intros; lia).
  apply filter_ext. intros j. now rewrite Z.sub_0_r.
Qed.

Lemma StronglySorted_map_in (R R' : Z -> Z -> Prop) (f : Z -> Z) (P : Z -> Prop) l :
  (forall a b, P a -> P b -> R a b -> R' (f a) (f b)) -> Forall P l ->
  StronglySorted R l -> StronglySorted R' (map f l).
Proof.
  intros Hm Hp Hs. induction Hs as [|a l Hs IH Ha]; cbn; [constructor|].
  inversion Hp as [|? ? Pa Pl]; subst. constructor; [now apply IH|].
  rewrite Forall_forall in *. intros y Hy. apply in_map_iff in Hy as [x [<- Hx]].
  apply Hm; auto.
Qed.

Lemma znth_increasing idx i j : StronglySorted Z.lt idx -> 0 <= i -> i < j -> j < Z.of_nat (length idx) ->
  znth idx i < znth idx j.
Proof. intros Hs H0 Hij Hj. unfold znth. apply StronglySorted_nth; [exact Hs|lia]. Qed.

Lemma map_znth_zrange idx : map (znth idx) (zrange (length idx)) = idx.
Proof.
  induction idx as [|a idx IH] using rev_ind; [reflexivity|].
  rewrite app_length, Nat.add_comm. cbn [length plus]. rewrite zrange_S, map_app. cbn [map].
  f_equal.
  - transitivity (map (znth idx) (zrange (length idx))); [|exact IH].
    apply map_ext_in. intros i Hi. apply in_zrange in Hi.
    unfold znth. apply app_nth1. lia.
  - unfold znth. rewrite Nat2Z.id, app_nth2, Nat.sub_diag by lia. reflexivity.
Qed.

(* Sorting the split geometry = restricting the sorted parent: with idx the positions of
   shank s in the parent, the parent positions of the sorted child are the sorted parent
   index with the other shanks deleted. *)
Lemma sort_commutes_with_split t s :
  let idx := where_eq s (g_shank t) in
  let t' := with_ind (gmap (gather idx) t) in
  length (g_shank t) = gsize t ->
  map (znth idx) (lexsort t') = filter (fun j => znth (g_shank t) j =? s) (lexsort t).
Proof.
  intros idx t' Hlen.
  assert (Hsz : gsize t' = length idx) by (unfold t', gsize; cbn; apply gather_length).
  assert (Hinc : StronglySorted Z.lt idx) by apply where_eq_increasing.
  apply (sorted_perm_unique (sort_key t)).
  - (* the child's order, transported to parent positions *)
    apply StronglySorted_map_in with (R := before (sort_key t'))
                                     (P := fun k => 0 <= k < Z.of_nat (gsize t')).
    + intros a b Pa Pb Hab.
      assert (Hk : forall k, 0 <= k < Z.of_nat (gsize t') -> sort_key t' k = sort_key t (znth idx k)).
      { intros k Hk. unfold sort_key, t', with_ind, gmap; cbn [g_shank g_row g_col]. rewrite !znth_gather by (rewrite <- Hsz; exact Hk). reflexivity. }
      unfold before in *. rewrite <- !Hk by assumption.
      destruct Hab as [Hab|[He Hl]]; [now left|right]. split; [exact He|].
      apply znth_increasing; [exact Hinc|lia|exact Hl|rewrite <- Hsz; lia].
    + apply lexsort_range.
    + apply lexsort_sorted.
  - apply StronglySorted_filter, lexsort_sorted.
  - rewrite (Permutation_filter_ _ _ _ (lexsort_perm t)).
    rewrite (Permutation_map (znth idx) (lexsort_perm t')), Hsz, map_znth_zrange.
    unfold idx. rewrite where_eq_filter, Hlen. reflexivity.
Qed.

Lemma rect_column t n c : rect t n -> In c (columns t) -> length c = n.
Proof. unfold rect. rewrite Forall_forall. auto. Qed.

Lemma split_sort_commute g e sites s t t' :
  geometry_unsorted g e sites None = Some t -> geometry_unsorted g e sites (Some s) = Some t' ->
  map (znth (where_eq s (g_shank t))) (lexsort t') = filter (fun j => znth (g_shank t) j =? s) (lexsort t).
Proof.
  intros H H'.
  destruct (geometry_unsorted_rect _ _ _ _ _ H) as [Hr _].
  destruct (geometry_unsorted_inv _ _ _ _ _ H) as [q [Eq [Hl ->]]].
  destruct (geometry_unsorted_inv _ _ _ _ _ H') as [q' [Eq' [_ ->]]].
  rewrite Eq in Eq'. inversion Eq'; subst q'. cbn [gsplit] in *.
  set (t := with_ind (raw_geom g sites q)) in *.
  assert (E : with_ind (gmap (gather (where_eq s (g_shank (raw_geom g sites q)))) (raw_geom g sites q))
            = with_ind (gmap (gather (where_eq s (g_shank t))) t)) by reflexivity.
  rewrite E. apply sort_commutes_with_split.
  apply (rect_column t (gsize t) _ Hr). unfold columns. now left.
Qed.

Lemma sorted_geometry_facts g e sites split t' inds :
  geometry g e sites split true = Some (t', inds) ->
  exists t, geometry g e sites split false = Some (t, zrange (gsize t)) /\
            inds = lexsort t /\
            columns t' = map (gather inds) (columns t) /\ g_ind t' = inds /\
            rect t (gsize t) /\ rect t' (gsize t).
Proof.
  intros H. destruct (geometry_sorted_inv _ _ _ _ _ _ H) as [t [Hf [-> ->]]].
  destruct (geometry_unsorted_of_false _ _ _ _ _ _ Hf) as [Hu _].
  destruct (geometry_unsorted_rect _ _ _ _ _ Hu) as [Hr Hind].
  exists t. repeat split; try assumption.
  - now apply sorted_ind_is_index.
  - rewrite <- (lexsort_length t). apply rect_gmap_gather.
Qed.

(* F-C08-b: in an NPultra geometry map every z on the 6 um pitch leaves the row off the grid:
   the code adds the 20 um tip offset although the NPultra grid has Y0 = 0 *)
Lemma npultra_geom_row_offgrid sh x r f : site_crxy NPU GeomMap (sh, x, 6 * r, f) = None.
Proof.
  unfold site_crxy, s_a, s_b, xy2r, exact_div. cbn [fst snd Y0 DY].
  replace (6 * r + 20 - 0) with (2 + (r + 3) * 6) by ring.
  rewrite Z_mod_plus_full. change (2 mod 6 =? 0) with false.
  destruct (xy2c NPU x); reflexivity.
Qed.

Lemma npultra_geom_none sh x r f sites split srt :
  geometry NPU GeomMap ((sh, x, 6 * r, f) :: sites) split srt = None.
Proof.
  unfold geometry, geometry_unsorted. cbn [map_opt]. now rewrite npultra_geom_row_offgrid.
Qed.

(* ================================================================== *)
(* totality: where the model has an answer                             *)
(* ================================================================== *)
Lemma map_opt_total {A B} (f : A -> option B) l : (forall a, In a l -> f a <> None) ->
  exists r, map_opt f l = Some r.
Proof.
  induction l as [|a l IH]; intros H; [now exists []|].
  destruct IH as [r Hr]; [intros b Hb; apply H; now right|].
  destruct (f a) as [b|] eqn:E; [|exfalso; apply (H a); [now left|exact E]].
  exists (b :: r). cbn. now rewrite E, Hr.
Qed.

Lemma map_opt_some_all {A B} (f : A -> option B) l r : map_opt f l = Some r ->
  forall a, In a l -> f a <> None.
Proof.
  revert r. induction l as [|a l IH]; intros r H b Hb; [destruct Hb|]. cbn in H.
  destruct (f a) eqn:E; [|discriminate]. destruct (map_opt f l) eqn:E2; [|discriminate].
  destruct Hb as [<-|Hb]; [congruence|]. now apply (IH l0).
Qed.

(* the geometry exists exactly when there are at most 384 entries and every entry is on the grid
   (always the case in the shank-map encoding) *)
Lemma geometry_defined g e sites split srt :
  (exists t inds, geometry g e sites split srt = Some (t, inds)) <->
  ((length sites <= NC)%nat /\ forall s, In s sites -> site_crxy g e s <> None).
Proof.
  split.
  - intros [t [inds H]]. unfold geometry in H.
    destruct (geometry_unsorted g e sites split) as [t0|] eqn:E; [|discriminate].
    destruct (geometry_unsorted_inv _ _ _ _ _ E) as [q [Eq [Hl _]]].
    split; [exact Hl|]. now apply (map_opt_some_all _ _ q).
  - intros [Hl Hs]. destruct (map_opt_total _ sites Hs) as [q Eq].
    unfold geometry. rewrite (geometry_unsorted_intro g e sites split q Eq Hl).
    destruct srt; eexists; eexists; reflexivity.
Qed.

Lemma shankmap_on_grid g s : site_crxy g ShankMap s <> None.
Proof. unfold site_crxy. discriminate. Qed.

Lemma geometry_total_shankmap g sites split srt : (length sites <= NC)%nat ->
  exists t inds, geometry g ShankMap sites split srt = Some (t, inds).
Proof. intros Hl. apply geometry_defined. split; [exact Hl|]. intros s _. apply shankmap_on_grid. Qed.

(* ================================================================== *)
(* round 4: geometry_by                                                *)
(* ================================================================== *)
Lemma geometry_unsorted_by_spec g e sites split :
  geometry_unsorted_by (site_crxy g e) g sites split = geometry_unsorted g e sites split.
Proof. reflexivity. Qed.
Lemma geometry_by_spec g e sites split srt :
  geometry_by (site_crxy g e) g sites split srt = geometry g e sites split srt.
Proof. reflexivity. Qed.

Lemma geometry_unsorted_by_ind f g sites split t :
  geometry_unsorted_by f g sites split = Some t -> g_ind t = zrange (gsize t).
Proof.
  unfold geometry_unsorted_by.
  destruct (map_opt f sites); [|discriminate]. destruct (adc_shifts g (length sites)) as [[sh adc]|]; [|discriminate].
  destruct (length sites <=? NC)%nat; [|discriminate]. intros H. inversion H. reflexivity.
Qed.

(* sorting facts for any entry function: permutation, joint re-indexing, order *)
Lemma geometry_by_sorted f g sites split t' inds :
  geometry_by f g sites split true = Some (t', inds) ->
  exists t, geometry_by f g sites split false = Some (t, zrange (gsize t)) /\
    inds = lexsort t /\ Permutation inds (zrange (gsize t)) /\
    columns t' = map (gather inds) (columns t) /\ g_ind t' = inds /\
    forall i j, 0 <= i -> i < j -> j < Z.of_nat (gsize t) ->
      ordered_at (g_shank t') (g_row t') (g_col t') (g_ind t') i j.
Proof.
  unfold geometry_by. destruct (geometry_unsorted_by f g sites split) as [t|] eqn:E; [|discriminate].
  intros H. inversion H; subst. exists t.
  pose proof (geometry_unsorted_by_ind _ _ _ _ _ E) as Hind.
  split; [reflexivity|]. split; [reflexivity|]. split; [apply lexsort_perm|].
  split; [reflexivity|]. split; [now apply sorted_ind_is_index|].
  now apply sorted_columns_ordered.
Qed.

(* F-C08-b in numbers: for an NPultra geometry-map entry on the pitch, 6 * row = z + 20 is never a
   multiple of 6, and y is 20 um above the y of the shank-map encoding of the same site *)
Lemma npu_geom_entry c r sh f :
  npu_geom_crxy (geom_entry NPU (sh, c, r, f)) = Some (c, 6 * r + 20, 6 * c, 6 * r + 20) /\
  (6 * r + 20) mod 6 = 2 /\
  site_crxy NPU ShankMap (sh, c, r, f) = Some (c, r, 6 * c, 6 * r).
Proof.
  unfold npu_geom_crxy, geom_entry, site_crxy, s_a, s_b, xy2c, rc2x, rc2y. cbn [fst snd X0 DX Y0 DY].
  replace (6 * c - 0) with (c * 6) by ring. rewrite exact_div_mul by lia.
  repeat split.
  - replace (6 * r + 20) with (2 + (r + 3) * 6) by ring. now rewrite Z_mod_plus_full.
  - f_equal. f_equal; [f_equal|]; ring.
Qed.

(* ================================================================== *)
(* round 9: packing the sort key into one integer                      *)
(* ================================================================== *)
(* rank = (shank * stride + row) * w - col, written on the key (shank, row, -col) *)
Definition packed (stride w : Z) (k : key3) : Z := let '(s, r, nc) := k in (s * stride + r) * w + nc.
Definition key_in_range (stride w : Z) (k : key3) : Prop :=
  let '(s, r, nc) := k in 0 <= r < stride /\ - w < nc <= 0.

Lemma pack2 m x y x' y' : 0 <= y < m -> 0 <= y' < m ->
  (x * m + y < x' * m + y' <-> x < x' \/ (x = x' /\ y < y')).
Proof.
  intros H H'. split.
  - intros L. destruct (Z.lt_trichotomy x x') as [A|[A|A]]; [now left|right; subst; lia|exfalso].
    assert ((x' + 1) * m <= x * m) by (apply Z.mul_le_mono_nonneg_r; lia). lia.
  - intros [A|[A L]]; [|subst; lia].
    assert ((x + 1) * m <= x' * m) by (apply Z.mul_le_mono_nonneg_r; lia). lia.
Qed.

Lemma pack2_eq m x y x' y' : 0 <= y < m -> 0 <= y' < m ->
  (x * m + y = x' * m + y' <-> x = x' /\ y = y').
Proof.
  intros H H'. split; [|intros [-> ->]; reflexivity]. intros E.
  destruct (Z.lt_trichotomy x x') as [A|[A|A]].
  - assert ((x + 1) * m <= x' * m) by (apply Z.mul_le_mono_nonneg_r; lia). lia.
  - subst. lia.
  - assert ((x' + 1) * m <= x * m) by (apply Z.mul_le_mono_nonneg_r; lia). lia.
Qed.

(* the packed rank orders exactly like the lexicographic key when the stride exceeds every row and the
   width exceeds every column *)
Lemma packed_order stride w a b : key_in_range stride w a -> key_in_range stride w b ->
  (packed stride w a < packed stride w b <-> lt3P a b) /\
  (packed stride w a = packed stride w b <-> a = b).
Proof.
  destruct a as [[s r] c], b as [[s' r'] c']. unfold key_in_range, packed, lt3P.
  intros [Hr Hc] [Hr' Hc'].
  replace ((s * stride + r) * w + c) with ((s * stride + r) * w + (c + w - 1) - (w - 1)) by ring.
  replace ((s' * stride + r') * w + c') with ((s' * stride + r') * w + (c' + w - 1) - (w - 1)) by ring.
  pose proof (pack2 w (s * stride + r) (c + w - 1) (s' * stride + r') (c' + w - 1) ltac:(lia) ltac:(lia)) as P1.
  pose proof (pack2_eq w (s * stride + r) (c + w - 1) (s' * stride + r') (c' + w - 1) ltac:(lia) ltac:(lia)) as E1.
  pose proof (pack2 stride s r s' r' Hr Hr') as P2.
  pose proof (pack2_eq stride s r s' r' Hr Hr') as E2.
  split.
  - split; intros H.
    + assert (H' : (s * stride + r) * w + (c + w - 1) < (s' * stride + r') * w + (c' + w - 1)) by lia.
      apply P1 in H'. destruct H' as [H'|[H1 H2]].
      * apply P2 in H'. lia.
      * apply E2 in H1. lia.
    + assert (G : (s * stride + r) * w + (c + w - 1) < (s' * stride + r') * w + (c' + w - 1)); [|lia].
      apply P1. destruct H as [H|[H1 [H|[H2 H3]]]].
      * left. apply P2. now left.
      * left. apply P2. right. now split.
      * right. split; [apply E2; now split|lia].
  - split; intros H.
    + assert (H' : (s * stride + r) * w + (c + w - 1) = (s' * stride + r') * w + (c' + w - 1)) by lia.
      apply E1 in H' as [H1 H2]. apply E2 in H1 as [-> ->]. f_equal. lia.
    + inversion H; subst. reflexivity.
Qed.

(* a stable sort by the packed rank therefore yields the same index as lexsort *)
Lemma packed_before stride w key i j :
  key_in_range stride w (key i) -> key_in_range stride w (key j) ->
  (before key i j <-> packed stride w (key i) < packed stride w (key j) \/
                      (packed stride w (key i) = packed stride w (key j) /\ i < j)).
Proof.
  intros Hi Hj. destruct (packed_order stride w (key i) (key j) Hi Hj) as [P E]. unfold before.
  rewrite P, E. tauto.
Qed.
