(* C08 — the map tokeniser inverts the SpikeGLX map printer. *)
From Coq Require Import ZArith List Bool Lia.
From IBL.C08 Require Import Model Scan.
Import ListNotations.
Open Scope Z_scope.

Lemma span_digits_app d c r : forallb is_digit d = true -> is_digit c = false ->
  span_digits (d ++ c :: r) = (d, c :: r).
Proof.
  induction d as [|x d IH]; intros Hd Hc; cbn [app span_digits].
  - now rewrite Hc.
  - cbn in Hd. apply andb_true_iff in Hd as [Hx Hd]. rewrite Hx, IH by assumption. reflexivity.
Qed.

(* ---- decimal printing ---- *)
Lemma digits_val_snoc l c : digits_val (l ++ [c]) = digits_val l * 10 + (c - 48).
Proof. unfold digits_val. now rewrite fold_left_app. Qed.

Lemma dec_fuel_val f : forall n, 0 <= n < 10 ^ Z.of_nat f -> digits_val (dec_fuel f n) = n.
Proof.
  induction f as [|f IH]; intros n Hn.
  - unfold digits_val. cbn [dec_fuel fold_left]. lia.
  - cbn [dec_fuel]. destruct (Z.ltb_spec n 10) as [H|H].
    + unfold digits_val. cbn [fold_left]. lia.
    + rewrite digits_val_snoc, IH.
      * pose proof (Z.div_mod n 10 ltac:(lia)). lia.
      * rewrite Nat2Z.inj_succ, Z.pow_succ_r in Hn by lia.
        split; [apply Z.div_pos; lia|apply Z.div_lt_upper_bound; lia].
Qed.

Lemma dec_fuel_digits f : forall n, 0 <= n < 10 ^ Z.of_nat f -> forallb is_digit (dec_fuel f n) = true.
Proof.
  induction f as [|f IH]; intros n Hn.
  - change (10 ^ Z.of_nat 0) with 1 in Hn. assert (n = 0) by lia. subst. reflexivity.
  - cbn [dec_fuel]. destruct (Z.ltb_spec n 10) as [H|H].
    + cbn [forallb]. unfold is_digit. rewrite andb_true_r. apply andb_true_iff. split; apply Z.leb_le; lia.
    + rewrite forallb_app, IH.
      * cbn [forallb andb]. unfold is_digit. rewrite andb_true_r.
        pose proof (Z.mod_pos_bound n 10 ltac:(lia)).
        apply andb_true_iff. split; apply Z.leb_le; lia.
      * rewrite Nat2Z.inj_succ, Z.pow_succ_r in Hn by lia.
        split; [apply Z.div_pos; lia|apply Z.div_lt_upper_bound; lia].
Qed.

Lemma dec_fuel_nonempty f n : dec_fuel f n <> [].
Proof.
  destruct f; cbn [dec_fuel]; [discriminate|].
  destruct (n <? 10); [discriminate|]. intros H. apply app_eq_nil in H as [_ H]. discriminate.
Qed.

Definition valid_num (n : Z) : Prop := 0 <= n < 10 ^ 20.
Definition valid_site (s : site) : Prop :=
  let '(sh, a, b, f) := s in valid_num sh /\ valid_num a /\ valid_num b /\ valid_num f.

Lemma field_val_dec n : valid_num n -> field_val (dec n) = Some n.
Proof.
  intros Hn. unfold field_val, dec. pose proof (dec_fuel_nonempty 20 n) as Hne.
  destruct (dec_fuel 20 n) eqn:E; [contradiction|]. rewrite <- E. f_equal.
  apply dec_fuel_val. exact Hn.
Qed.

Lemma dec_digits n : valid_num n -> forallb is_digit (dec n) = true.
Proof. intros Hn. apply dec_fuel_digits. exact Hn. Qed.

(* ---- one entry ---- *)
Definition fields_of (s : site) : fields := let '(sh, a, b, f) := s in (dec sh, dec a, dec b, dec f).

Lemma to_site_fields_of s : valid_site s -> to_site (fields_of s) = Some s.
Proof.
  destruct s as [[[sh a] b] f]. intros [H1 [H2 [H3 H4]]]. unfold to_site, fields_of.
  now rewrite !field_val_dec.
Qed.

Lemma match_here_paren c r : c = 40 \/ c = 41 -> match_here (c :: r) = None.
Proof. intros [->| ->]; reflexivity. Qed.

Lemma match_here_body s rest : valid_site s ->
  let '(sh, a, b, f) := s in
  match_here (dec sh ++ [COLON] ++ dec a ++ [COLON] ++ dec b ++ [COLON] ++ dec f ++ 41 :: rest)
  = Some (fields_of s, 41 :: rest).
Proof.
  destruct s as [[[sh a] b] f]. intros [H1 [H2 [H3 H4]]]. unfold match_here. cbn [app].
  rewrite (span_digits_app (dec sh)) by (try apply dec_digits; auto). cbn [Z.eqb COLON Pos.eqb].
  rewrite (span_digits_app (dec a)) by (try apply dec_digits; auto). cbn [Z.eqb COLON Pos.eqb].
  rewrite (span_digits_app (dec b)) by (try apply dec_digits; auto). cbn [Z.eqb COLON Pos.eqb].
  rewrite (span_digits_app (dec f)) by (try apply dec_digits; auto). reflexivity.
Qed.


(* ---- all entries ---- *)
Lemma findall_entries : forall sites fuel, Forall valid_site sites ->
  (length (flat_map print_entry sites) < fuel)%nat ->
  findall fuel (flat_map print_entry sites) = map fields_of sites.
Proof.
  induction sites as [|s sites IH]; intros fuel Hv Hf.
  - destruct fuel; reflexivity.
  - inversion Hv as [|? ? Hs Hv']; subst. cbn [flat_map map]. cbn [flat_map] in Hf.
    destruct s as [[[sh a] b] f] eqn:Es.
    set (rest := flat_map print_entry sites) in *.
    assert (Hlen : (length (print_entry (sh, a, b, f) ++ rest) >= 3 + length rest)%nat).
    { unfold print_entry. rewrite !app_length. cbn. pose proof (dec_fuel_nonempty 20 sh).
      lia. }
    destruct fuel as [|[|[|f3]]]; try lia.
    pose proof (match_here_body (sh, a, b, f) rest Hs) as Hb. cbv beta iota in Hb.
    assert (E : print_entry (sh, a, b, f) ++ rest
                = 40 :: (dec sh ++ [COLON] ++ dec a ++ [COLON] ++ dec b ++ [COLON] ++ dec f ++ 41 :: rest)).
    { unfold print_entry. rewrite <- !app_assoc. reflexivity. }
    rewrite E. clear E.
    (* '(' *)
    change (findall (S (S (S f3))) (40 :: ?x)) with
      (match match_here (40 :: x) with
       | Some (m, r) => m :: findall (S (S f3)) r
       | None => findall (S (S f3)) x end).
    rewrite match_here_paren by now left.
    (* body *)
    change (findall (S (S f3)) ?x) with
      (match match_here x with
       | Some (m, r) => m :: findall (S f3) r
       | None => match x with [] => [] | _ :: r => findall (S f3) r end end).
    rewrite Hb.
    (* ')' *)
    change (findall (S f3) (41 :: rest)) with
      (match match_here (41 :: rest) with
       | Some (m, r) => m :: findall f3 r
       | None => findall f3 rest end).
    rewrite match_here_paren by now right.
    f_equal. apply IH; [assumption|]. lia.
Qed.

(* ---- the header: any text without ':' ---- *)
Definition colon_free (h : list Z) : Prop := Forall (fun c => c <> COLON) h.
Definition tail_ok (t : list Z) : Prop := t = [] \/ exists r, t = 40 :: r.

Lemma after_digits_not_colon h t : colon_free h -> tail_ok t ->
  match snd (span_digits (h ++ t)) with [] => True | c :: _ => c <> COLON end.
Proof.
  induction h as [|c h IH]; intros Hh Ht.
  - destruct Ht as [->|[r ->]]; cbn; [exact I|discriminate].
  - inversion Hh as [|? ? Hc Hh']; subst. cbn [app span_digits].
    destruct (is_digit c).
    + specialize (IH Hh' Ht). destruct (span_digits (h ++ t)) as [d r]. exact IH.
    + exact Hc.
Qed.

Lemma match_here_header h t : colon_free h -> tail_ok t -> match_here (h ++ t) = None.
Proof.
  intros Hh Ht. pose proof (after_digits_not_colon h t Hh Ht) as H. unfold match_here.
  destruct (span_digits (h ++ t)) as [d1 r1]. cbn [snd] in H.
  destruct r1 as [|c1 r1]; [reflexivity|].
  destruct (Z.eqb_spec c1 COLON); [contradiction|reflexivity].
Qed.

Lemma findall_header : forall h t fuel, colon_free h -> tail_ok t ->
  (length (h ++ t) < fuel)%nat -> findall fuel (h ++ t) = findall (fuel - length h) t.
Proof.
  induction h as [|c h IH]; intros t fuel Hh Ht Hf.
  - cbn. now rewrite Nat.sub_0_r.
  - inversion Hh as [|? ? Hc Hh']; subst. destruct fuel as [|fuel]; [cbn in Hf; lia|].
    cbn [findall]. change ((c :: h) ++ t) with ((c :: h) ++ t) at 1.
    rewrite (match_here_header (c :: h) t Hh Ht). cbn [app length Nat.sub].
    apply IH; try assumption. cbn in Hf. lia.
Qed.

Lemma tail_ok_entries sites : tail_ok (flat_map print_entry sites).
Proof.
  destruct sites as [|s sites]; [now left|right].
  destruct s as [[[sh a] b] f]. cbn [flat_map print_entry app]. eexists. reflexivity.
Qed.

Lemma parse_print_map header sites : colon_free header -> Forall valid_site sites ->
  parse_map (print_map header sites) = Some sites.
Proof.
  intros Hh Hv. unfold parse_map, print_map.
  rewrite findall_header by (auto using tail_ok_entries).
  rewrite findall_entries; [|assumption|rewrite app_length; lia].
  clear Hh. induction Hv as [|s sites Hs Hv IH]; [reflexivity|].
  cbn [map map_opt]. now rewrite to_site_fields_of, IH.
Qed.
