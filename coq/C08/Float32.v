(* C08 — the float32 arithmetic of geometry_from_meta / rc2xy / xy2rc on the site grids is exact:
   exhaustive evaluation (Flocq binary32, round to nearest even) over every column, row parity and row
   of every generation's grid.  The table parsed by _map_channels_from_meta is a float32 array
   (np.float32(cm.split(COLON))); Python int constants combine with it in float32.
     shank map:  col' = -col * 2 + 2 + mod(row, 2) (NP1) ; x = col' * DX + X0 ; y = row * DY + Y0
     geometry map:  x' = 70 - x (NP1) ; y' = y + 20 ; col = (x' - X0) / DX ; row = (y' - Y0) / DY
   np.mod of two float32 integers is taken as exact (IEEE fmod is exact by definition).
   Also: the float64 sampling delays k / n_cycles are pairwise distinct, so the numerator k the
   harness recovers from a delay is unique. *)
From Coq Require Import ZArith List Bool Lia.
From Flocq Require Import Core BinarySingleNaN.
From IBL.lib Require Import PyInt.
From IBL.C03 Require Import F32.
From IBL.C08 Require Import Model.
Import ListNotations.
Open Scope Z_scope.

Definition plus32 : f32 -> f32 -> f32 :=
  Bplus (prec:=24) (emax:=128) (prec_gt_0_:=p32) (prec_lt_emax_:=e32) mode_NE.
Definition minus32 : f32 -> f32 -> f32 :=
  Bminus (prec:=24) (emax:=128) (prec_gt_0_:=p32) (prec_lt_emax_:=e32) mode_NE.
Definition opp32 : f32 -> f32 := Bopp (prec:=24) (emax:=128).

(* equality of two floats as data (sign, mantissa, exponent); -0.0 and 0.0 are told apart on purpose *)
Definition feq (a b : f32) : bool :=
  if list_eq_dec Z.eq_dec (f32_parts a) (f32_parts b) then true else false.
(* NumPy prints and compares -0.0 as 0.0; the only zero that can carry a sign here is col' of NP1 *)
Definition feq0 (a b : f32) : bool :=
  match a, b with B754_zero _, B754_zero _ => true | _, _ => feq a b end.

Definition ncols (g : gen) : Z := match g with NPU => 8 | _ => 2 end.
Definition nrows (g : gen) : Z := match g with NP1 => 480 | NP21 | NP24 => 640 | NPU => 48 end.

(* shank-map branch for grid column c and row r *)
Definition f_colp (g : gen) (c r : Z) : f32 :=
  match g with
  | NP1 => plus32 (plus32 (mul32 (opp32 (z32 c)) (z32 2)) (z32 2)) (z32 (r mod 2))
  | _ => z32 c
  end.
Definition shank_ok (g : gen) (c r : Z) : bool :=
  match site_crxy g ShankMap (0, c, r, 1) with
  | Some (mc, mr, mx, my) =>
      feq0 (f_colp g c r) (z32 mc) &&
      feq (plus32 (mul32 (f_colp g c r) (z32 (DX g))) (z32 (X0 g))) (z32 mx) &&
      feq (plus32 (mul32 (z32 r) (z32 (DY g))) (z32 (Y0 g))) (z32 my)
  | None => false
  end.
(* geometry-map branch for the entry SpikeGLX writes for that site *)
Definition geom_ok (g : gen) (c r : Z) : bool :=
  let e := geom_entry g (0, c, r, 1) in
  match site_crxy g GeomMap e with
  | Some (mc, mr, mx, my) =>
      let fx := match g with NP1 => minus32 (z32 70) (z32 (s_a e)) | _ => z32 (s_a e) end in
      let fy := plus32 (z32 (s_b e)) (z32 20) in
      feq fx (z32 mx) && feq fy (z32 my) &&
      feq0 (div32 (minus32 fx (z32 (X0 g))) (z32 (DX g))) (z32 mc) &&
      feq0 (div32 (minus32 fy (z32 (Y0 g))) (z32 (DY g))) (z32 mr)
  | None => false
  end.

Definition grid_cells (g : gen) : list (Z * Z) :=
  flat_map (fun c => map (fun r => (c, r)) (zrange (Z.to_nat (nrows g)))) (zrange (Z.to_nat (ncols g))).

Definition sweep (g : gen) : bool :=
  forallb (fun p => shank_ok g (fst p) (snd p) &&
                    match g with NPU => true | _ => geom_ok g (fst p) (snd p) end) (grid_cells g).

Lemma sweep_all : forallb sweep [NP1; NP21; NP24; NPU] = true.
Proof. vm_compute. reflexivity. Qed.

(* float64 delays k / cycles, k < adc_channels: pairwise distinct *)
Definition f64_parts (x : f64) : list Z :=
  match x with
  | B754_finite s m e _ => [1; if s then 1 else 0; Zpos m; e]
  | B754_zero s => [0; 0; 0; 0]
  | B754_infinity s => [2; if s then 1 else 0; 0; 0]
  | B754_nan => [3; 0; 0; 0]
  end.
Definition delay (g : gen) (k : Z) : list Z := f64_parts (div64 (z64 k) (z64 (n_cycles g))).
Fixpoint distinct (l : list (list Z)) : bool :=
  match l with
  | [] => true
  | a :: r => negb (existsb (fun b => if list_eq_dec Z.eq_dec a b then true else false) r) && distinct r
  end.
Lemma delays_distinct :
  forallb (fun g => distinct (map (delay g) (zrange (Z.to_nat (adc_channels g))))) [NP1; NP21; NP24; NPU] = true.
Proof. vm_compute. reflexivity. Qed.
