(* C08 — proofs about File.v: the C09 reader applied to the file text, then the geometry. *)
From Coq Require Import String ZArith List Bool Lia.
From IBL.C09 Require Model Proofs Grammar.
From IBL.C08 Require Import Model Scan ScanProofs File.
Import ListNotations.
Open Scope Z_scope.
Module P9 := IBL.C09.Proofs.
Module M9 := IBL.C09.Model.
Module G9 := IBL.C09.Grammar.

Lemma lookup_app k a b :
  M9.lookup k (a ++ b) = match M9.lookup k a with Some x => Some x | None => M9.lookup k b end.
Proof.
  induction a as [|[k0 v0] a IH]; cbn [app M9.lookup]; [reflexivity|].
  destruct (M9.str_eq_dec k k0); [reflexivity|exact IH].
Qed.

Definition text_value (v : M9.str) : M9.value :=
  match M9.parse_value v with Some x => x | None => M9.VNone end.

(* reading the lines one by one: the last line carrying a key decides *)
Lemma lookup_text_dict k ls :
  M9.lookup k (text_dict ls) = option_map text_value (last_value k ls).
Proof.
  induction ls as [|[k' v] ls IH]; [reflexivity|].
  unfold text_dict in *. cbn [map rev last_value]. rewrite lookup_app, IH.
  destruct (last_value k ls); [reflexivity|]. cbn [option_map M9.lookup text_entry fst snd].
  destruct (M9.str_eq_dec k (M9.untilde k')); reflexivity.
Qed.

Lemma parse_lines ls : Forall G9.gram_line ls ->
  M9.mapM M9.parse_line (map G9.line_text ls) = Some (map text_entry ls).
Proof.
  induction 1 as [|[k v] ls [Hk [_ Hv]] _ IH]; [reflexivity|]. cbn [map M9.mapM fst snd] in *.
  destruct (G9.parse_gram_value v Hv) as [x [Hx _]]. rewrite IH.
  assert (E : M9.parse_line (G9.line_text (k, v)) = Some (text_entry (k, v))).
  { unfold M9.parse_line, G9.line_text, text_entry. cbn [fst snd].
    rewrite P9.break_eq_app by exact Hk. now rewrite Hx. }
  now rewrite E.
Qed.

Lemma file_of_lines ls : file_of ls = concat (map (fun kv => G9.line_text kv ++ [10]) ls).
Proof.
  unfold file_of. f_equal. apply map_ext. intros [k v]. unfold G9.line_text. cbn [fst snd].
  now rewrite <- app_assoc.
Qed.

Lemma key_neq (a b : M9.str) : (if M9.str_eq_dec a b then true else false) = false -> a <> b.
Proof. destruct (M9.str_eq_dec a b); [discriminate|auto]. Qed.

(* the dictionary read_meta_data builds from the text agrees, key by key, with the lines read one
   by one (the two keys read_meta_data adds itself excepted) *)
Lemma file_dict ls : Forall G9.gram_line ls -> G9.serial_lines_ok ls ->
  exists d, M9.read_meta (file_of ls) = Some d /\
            forall k, k <> P9.kN -> k <> P9.kS -> M9.lookup k d = M9.lookup k (text_dict ls).
Proof.
  intros Hg Hs.
  assert (Hl : M9.splitlines (M9.univ_nl (file_of ls)) = map G9.line_text ls)
    by (rewrite file_of_lines; now apply G9.lf_file_lines).
  destruct (G9.read_meta_total (file_of ls) ls Hl Hg Hs) as [d [Hd _]].
  exists d. split; [exact Hd|]. intros k HN HS.
  rewrite P9.read_meta_finish in Hd. unfold M9.read_base in Hd.
  rewrite Hl, (parse_lines ls Hg) in Hd. cbn [option_map] in Hd.
  unfold P9.finish in Hd.
  destruct (M9.serial _) as [s|]; [|discriminate]. inversion Hd; subst d.
  rewrite !P9.lookup_dset.
  destruct (M9.str_eq_dec k P9.kS); [contradiction|].
  destruct (M9.str_eq_dec k P9.kN); [contradiction|].
  apply P9.last_key_wins.
Qed.

(* geometry_of_dict consults only these keys *)
Definition kTypeThis := M9.lit "typeThis".
Definition kApLfSy := M9.lit "snsApLfSy".
Definition geometry_keys : list M9.str := [kShankMap; kGeomMap; kSplit; kTypeThis; kApLfSy] ++ P9.version_keys.

Lemma get_type_agree a b : M9.lookup kTypeThis a = M9.lookup kTypeThis b ->
  M9.lookup kApLfSy a = M9.lookup kApLfSy b -> M9.get_type a = M9.get_type b.
Proof. intros H1 H2. unfold M9.get_type. fold kTypeThis kApLfSy. now rewrite H1, H2. Qed.

Lemma geometry_of_dict_agree a b sort : P9.agree_on geometry_keys a b ->
  geometry_of_dict a sort = geometry_of_dict b sort.
Proof.
  intros H. unfold geometry_of_dict, channel_map, split_key, type_is_nidq.
  rewrite (get_type_agree a b) by (apply H; unfold geometry_keys; cbn [In app]; auto 6).
  rewrite (H kShankMap), (H kGeomMap), (H kSplit) by (unfold geometry_keys; cbn [In app]; auto).
  rewrite (P9.version_agree a b); [reflexivity|].
  intros k Hk. apply H. unfold geometry_keys. apply in_or_app. now right.
Qed.

Lemma geometry_keys_not_added k : In k geometry_keys -> k <> P9.kN /\ k <> P9.kS.
Proof.
  unfold geometry_keys, P9.version_keys. cbn [In app].
  intros H. repeat (destruct H as [<-|H]; [split; apply key_neq; vm_compute; reflexivity|]).
  destruct H.
Qed.

(* FILE TEXT -> geometry: for every file of key=value lines over C09's grammar, the geometry the
   code derives from the text is the one computed from the lines read one by one *)
Lemma file_geometry ls sort : Forall G9.gram_line ls -> G9.serial_lines_ok ls ->
  geometry_of_file (file_of ls) sort = geometry_of_dict (text_dict ls) sort.
Proof.
  intros Hg Hs. destruct (file_dict ls Hg Hs) as [d [Hd Hk]].
  unfold geometry_of_file. rewrite Hd. apply geometry_of_dict_agree.
  intros k Hin. destruct (geometry_keys_not_added k Hin). now apply Hk.
Qed.

(* ---- the explicit form ---- *)
Lemma numeric_paren v : In 40 v -> M9.numeric v = false.
Proof.
  intros H. unfold M9.numeric.
  assert (E : forallb M9.numch v = false).
  { destruct (forallb M9.numch v) eqn:F; [|reflexivity].
    rewrite forallb_forall in F. specialize (F 40 H). vm_compute in F. discriminate. }
  rewrite E. now rewrite andb_false_r.
Qed.

Lemma print_map_paren h s sites : In 40 (print_map h (s :: sites)).
Proof.
  unfold print_map. apply in_or_app. right. cbn [flat_map]. apply in_or_app. left.
  destruct s as [[[sh a] b] f]. unfold print_entry. cbn [app]. now left.
Qed.

Lemma text_value_map h s sites : text_value (print_map h (s :: sites)) = M9.VStr (print_map h (s :: sites)).
Proof.
  unfold text_value, M9.parse_value. now rewrite (numeric_paren _ (print_map_paren h s sites)).
Qed.

Lemma map_value_printed e h s sites : colon_free h -> Forall valid_site (s :: sites) ->
  map_value e (M9.VStr (print_map h (s :: sites))) = Table e (s :: sites).
Proof. intros Hh Hv. unfold map_value. now rewrite parse_print_map. Qed.

Lemma text_value_nat n : 0 <= n -> M9.py_int (text_value (M9.print_nat n)) = Some n.
Proof.
  intros Hn. unfold text_value.
  pose proof (P9.parse_value_num (n, O)) as H. cbn [M9.print_dec] in H.
  rewrite H.
  - cbn [M9.py_int]. unfold M9.dec_trunc, M9.pow10. cbn [fst snd]. f_equal.
    change (10 ^ Z.of_nat 0) with 1. apply Z.div_1_r.
  - unfold P9.normd. cbn [fst snd]. split; [exact Hn|now left].
Qed.

Definition split_text (split : option Z) : option M9.str := option_map M9.print_nat split.

Lemma file_to_geometry ls v e h s sites split sort :
  Forall G9.gram_line ls -> G9.serial_lines_ok ls ->
  M9.version (text_dict ls) = Some v ->
  match e with
  | ShankMap => last_value kShankMap ls = Some (print_map h (s :: sites))
  | GeomMap => last_value kShankMap ls = None /\ last_value kGeomMap ls = Some (print_map h (s :: sites))
  end ->
  colon_free h -> Forall valid_site (s :: sites) ->
  last_value kSplit ls = split_text split -> (forall z, split = Some z -> 0 <= z) ->
  geometry_of_file (file_of ls) sort = of_opt (geometry (gen_of_vers v) e (s :: sites) split sort).
Proof.
  intros Hg Hs Hv Hm Hh Hsites Hsp Hz.
  rewrite file_geometry by assumption.
  unfold geometry_of_dict, channel_map, split_key. rewrite !lookup_text_dict, Hv, Hsp.
  assert (Esp : match option_map text_value (split_text split) with
                | None => Some None
                | Some v0 => option_map Some (M9.py_int v0) end = Some split).
  { destruct split as [z|]; [|reflexivity]. cbn [split_text option_map].
    rewrite text_value_nat by (now apply Hz). reflexivity. }
  destruct e.
  - rewrite Hm. cbn [option_map]. rewrite text_value_map, map_value_printed by assumption.
    now rewrite Esp.
  - destruct Hm as [Hm1 Hm2]. rewrite Hm1, Hm2. cbn [option_map].
    rewrite text_value_map, map_value_printed by assumption. now rewrite Esp.
Qed.

(* the no-table fallback as a function of (version, stream type) *)
Lemma fallback_table d sort : (channel_map d = NoKey \/ channel_map d = Empty) ->
  geometry_of_dict d sort = fallback (M9.version d) (type_is_nidq d) /\
  (M9.version d = None -> geometry_of_dict d sort = NoGeometry) /\
  (forall v, M9.version d = Some v ->
     (M9.get_type d = Some (Some M9.SNidq) -> geometry_of_dict d sort = NoGeometry) /\
     (forall t, M9.get_type d = Some t -> t <> Some M9.SNidq ->
        geometry_of_dict d sort = of_opt (geometry_default (gen_of_vers v)))).
Proof.
  intros Hc. assert (E : geometry_of_dict d sort = fallback (M9.version d) (type_is_nidq d))
    by (unfold geometry_of_dict; destruct Hc as [-> | ->]; reflexivity).
  split; [exact E|]. rewrite E. split.
  - intros ->. reflexivity.
  - intros v ->. unfold fallback, type_is_nidq. split.
    + intros ->. reflexivity.
    + intros t -> Ht. destruct t as [[| |]|]; try reflexivity. congruence.
Qed.
