(* C08 — canonical dense layouts: finite facts established by kernel evaluation. *)
From Coq Require Import ZArith List Bool Lia.
From IBL.lib Require Import PyInt.
From IBL.C08 Require Import Model.
Import ListNotations.
Open Scope Z_scope.

(* structural equality of geometries, decided *)
Fixpoint zl_eqb (a b : list Z) : bool :=
  match a, b with
  | [], [] => true
  | x :: a', y :: b' => (x =? y) && zl_eqb a' b'
  | _, _ => false
  end.
Lemma zl_eqb_eq a : forall b, zl_eqb a b = true -> a = b.
Proof.
  induction a as [|x a IH]; intros [|y b] H; cbn in H; try discriminate; [reflexivity|].
  apply andb_true_iff in H as [H1 H2]. apply Z.eqb_eq in H1. subst. f_equal. now apply IH.
Qed.
Definition geom_eqb (s t : geom) : bool :=
  zl_eqb (concat (map (fun c => Z.of_nat (length c) :: c) (columns s)))
         (concat (map (fun c => Z.of_nat (length c) :: c) (columns t))).

(* trace_header(version, nshank) is the unsorted geometry of the canonical dense site table,
   in the shank-map encoding and (NP1/NP2) in the geometry-map encoding *)
Definition canon_ok (g : gen) (nshank : Z) (geommap : bool) : bool :=
  match canonical_sites g nshank, trace_header g nshank with
  | Some sites, Some th =>
      match (if geommap then geometry_unsorted g GeomMap (map (geom_entry g) sites) None
             else geometry_unsorted g ShankMap sites None) with
      | Some t => geom_eqb t th
      | None => false
      end
  | _, _ => false
  end.

Lemma canon_all :
  forallb (fun p => canon_ok (fst (fst p)) (snd (fst p)) (snd p))
    [(NP1, 1, false); (NP1, 1, true); (NP21, 1, false); (NP21, 1, true); (NP24, 1, false);
     (NP24, 4, false); (NP24, 4, true); (NP21, 4, false); (NPU, 1, false)] = true.
Proof. vm_compute. reflexivity. Qed.

(* sorting the canonical NP1 geometry leaves the channel order unchanged *)
Lemma np1_sorted_identity :
  match trace_header NP1 1 with Some th => zl_eqb (lexsort th) (zrange NC) | None => false end = true.
Proof. vm_compute. reflexivity. Qed.

(* the four-shank default: sorted, the shanks come out as four contiguous blocks of 96 sites *)
Lemma np24_sorted_blocks :
  match trace_header NP24 4 with
  | Some th => zl_eqb (gather (lexsort th) (g_shank th))
                      (map (fun c => c / 96) (zrange NC))
  | None => false end = true.
Proof. vm_compute. reflexivity. Qed.

(* F-C08-a witness: NP1 channels 24..27 saved alone *)
Definition subset_sites : list site := [(0, 0, 12, 1); (0, 1, 12, 1); (0, 0, 13, 1); (0, 1, 13, 1)].
Definition subset_orig : list Z := [24; 25; 26; 27].
Lemma subset_witness :
  match geometry_unsorted NP1 ShankMap subset_sites None with
  | Some t => zl_eqb (g_adc t) [0; 1; 0; 1] && zl_eqb (g_shift t) [0; 0; 1; 1]
              && zl_eqb (map (adc_of NP1) subset_orig) [2; 3; 2; 3]
              && zl_eqb (map (shift_closed NP1) subset_orig) [0; 0; 1; 1]
  | None => false end = true.
Proof. vm_compute. reflexivity. Qed.

(* F-C08-b: the canonical NPultra table in the geometry-map encoding has no on-grid geometry *)
Lemma npultra_geom_canonical :
  match canonical_sites NPU 1 with
  | Some sites =>
      match geometry NPU ShankMap sites None false, geometry NPU GeomMap (map (geom_entry NPU) sites) None false with
      | Some _, None => true
      | _, _ => false
      end
  | None => false
  end = true.
Proof. vm_compute. reflexivity. Qed.

(* the fallback without a site table: for NP2.4 a single-shank layout, and for NP2 not in sorted order *)
Lemma default_facts :
  match geometry_default NP24, geometry_default NP21 with
  | Some (t, inds), Some (t1, _) =>
      zl_eqb (g_shank t) (zeros NC) && zl_eqb inds (zrange NC) &&
      negb (zl_eqb (lexsort t1) (zrange NC))
  | _, _ => false
  end = true.
Proof. vm_compute. reflexivity. Qed.
