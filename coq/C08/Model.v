(* C08 — executable model of the probe-geometry code.
   Definitions only; proofs are in Proofs.v, property theorems in Props.v.

   Python (src/neuropixel.py, src/spikeglx.py)         model
   -------------------------------------------         -----
   CHANNEL_GRID                                         DX X0 DY Y0
   rc2xy / xy2rc                                        rc2xy / xy2rc (exact on the grid, None off it)
   adc_shifts (group formula + masked-assignment loop)  adc_of / shifts_loop / adc_shifts
   dense_layout / trace_header                          dense_layout / trace_header
   split_trace_header                                   split_trace_header
   _map_channels_from_meta (after the regex)            the `sites` argument: list of (shank, a, b, flag)
   geometry_from_meta                                   geometry
   _split_geometry_into_shanks                          gsplit
   np.lexsort(np.c_[-col, row, shank].T)                lexsort (stable insertion sort on (shank,row,-col))
   {k: v[inds] for k, v in th.items()}                  gmap (gather inds)

   All values are integers (Z): on the site grids every float32/float64 the
   code produces is an exactly represented integer, except the sampling delay
   k / n_cycles, of which the model carries the numerator k (the harness maps
   the float back to k by the same float division). *)
From Coq Require Import ZArith List Bool Lia.
From IBL.lib Require Import PyInt.
Import ListNotations.
Open Scope Z_scope.

(* probe generation = major version: 1, 2(.1), 2.4, "NPultra" *)
Inductive gen := NP1 | NP21 | NP24 | NPU.

(* CHANNEL_GRID[np.floor(version)] *)
Definition DX (g : gen) : Z := match g with NP1 => 16 | NP21 | NP24 => 32 | NPU => 6 end.
Definition X0 (g : gen) : Z := match g with NP1 => 11 | NP21 | NP24 => 27 | NPU => 0 end.
Definition DY (g : gen) : Z := match g with NP1 => 20 | NP21 | NP24 => 15 | NPU => 6 end.
Definition Y0 (g : gen) : Z := match g with NP1 => 20 | NP21 | NP24 => 20 | NPU => 0 end.

(* rc2xy: x = col*DX + X0 ; y = row*DY + Y0 *)
Definition rc2x (g : gen) (col : Z) : Z := col * DX g + X0 g.
Definition rc2y (g : gen) (row : Z) : Z := row * DY g + Y0 g.
(* xy2rc: col = (x - X0)/DX ; row = (y - Y0)/DY — true division; the model is
   exact: Some only when the quotient is an integer. *)
Definition exact_div (a b : Z) : option Z := if a mod b =? 0 then Some (a / b) else None.
Definition xy2c (g : gen) (x : Z) : option Z := exact_div (x - X0 g) (DX g).
Definition xy2r (g : gen) (y : Z) : option Z := exact_div (y - Y0 g) (DY g).

(* ---------- generic list helpers (NumPy idioms) ---------- *)
Definition znth (l : list Z) (i : Z) : Z := nth (Z.to_nat i) l 0.
(* v[inds] *)
Definition gather (inds : list Z) (v : list Z) : list Z := map (znth v) inds.
(* np.where(v == s)[0] *)
Fixpoint where_eq_from (k : Z) (s : Z) (v : list Z) : list Z :=
  match v with
  | [] => []
  | a :: v' => if a =? s then k :: where_eq_from (k + 1) s v' else where_eq_from (k + 1) s v'
  end.
Definition where_eq (s : Z) (v : list Z) : list Z := where_eq_from 0 s v.
(* map over an option-valued function, None if any element fails *)
Fixpoint map_opt {A B} (f : A -> option B) (l : list A) : option (list B) :=
  match l with
  | [] => Some []
  | a :: l' => match f a, map_opt f l' with
               | Some b, Some r => Some (b :: r)
               | _, _ => None
               end
  end.

(* ---------- adc_shifts ---------- *)
Definition NC : nat := 384.
Definition adc_channels (g : gen) : Z := match g with NP1 | NPU => 12 | NP21 | NP24 => 16 end.
Definition n_cycles (g : gen) : Z := match g with NP1 | NPU => 13 | NP21 | NP24 => 16 end.
(* adc = floor(arange(NC) / (adc_channels*2)) * 2 + mod(arange(NC), 2) *)
Definition adc_of (g : gen) (c : Z) : Z := (c / (adc_channels g * 2)) * 2 + c mod 2.
Definition adc_all (g : gen) : list Z := map (adc_of g) (zrange NC).
(* sample_shift[mask] = vals : NumPy requires len(vals) = count(mask); None = ValueError *)
Fixpoint assign_mask (mask : list bool) (vals cur : list Z) : option (list Z) :=
  match mask, cur with
  | [], [] => match vals with [] => Some [] | _ => None end
  | m :: mask', c :: cur' =>
      if m then
        match vals with
        | v :: vals' => option_map (cons v) (assign_mask mask' vals' cur')
        | [] => None
        end
      else option_map (cons c) (assign_mask mask' vals cur')
  | _, _ => None
  end.
(* for a in adc: sample_shift[adc == a] = np.arange(adc_channels) / n_cycles
   (numerators only; every one of the NC iterations is performed, as in the source) *)
Definition shifts_loop (g : gen) : option (list Z) :=
  let adc := adc_all g in
  fold_left (fun acc a =>
               match acc with
               | None => None
               | Some cur => assign_mask (map (Z.eqb a) adc)
                                         (zrange (Z.to_nat (adc_channels g))) cur
               end)
            adc (Some (map (fun _ => 0) adc)).
(* return sample_shift[:nc], adc[:nc] *)
Definition adc_shifts (g : gen) (nc : nat) : option (list Z * list Z) :=
  match shifts_loop g with
  | Some s => Some (firstn nc s, firstn nc (adc_all g))
  | None => None
  end.
(* closed forms (proved equal to the loop in Proofs.v) *)
Definition shift_closed (g : gen) (c : Z) : Z := (c mod (2 * adc_channels g)) / 2.

(* ---------- geometry: a dictionary of equally long columns ---------- *)
Record geom := mkgeom {
  g_shank : list Z; g_col : list Z; g_row : list Z; g_flag : list Z;
  g_x : list Z; g_y : list Z; g_shift : list Z; g_adc : list Z; g_ind : list Z }.

(* {k: f(v) for k, v in th.items()} *)
Definition gmap (f : list Z -> list Z) (t : geom) : geom :=
  mkgeom (f (g_shank t)) (f (g_col t)) (f (g_row t)) (f (g_flag t))
         (f (g_x t)) (f (g_y t)) (f (g_shift t)) (f (g_adc t)) (f (g_ind t)).
Definition columns (t : geom) : list (list Z) :=
  [g_shank t; g_col t; g_row t; g_flag t; g_x t; g_y t; g_shift t; g_adc t; g_ind t].
Definition gsize (t : geom) : nat := length (g_col t).

(* ---------- dense_layout / trace_header ---------- *)
Definition ones (n : nat) : list Z := map (fun _ => 1) (zrange n).
Definition zeros (n : nat) : list Z := map (fun _ => 0) (zrange n).
(* (row, col, shank) of channel c in the dense layouts; None = the source has no
   `col` for this (version, nshank) and raises KeyError *)
Definition dense_rcs (g : gen) (nshank : Z) : option (Z -> Z * Z * Z) :=
  match g with
  | NP1 => Some (fun c => (c / 2, nth (Z.to_nat (c mod 4)) [2; 0; 3; 1] 0, 0))
  | NPU => Some (fun c => (c / 8, c mod 8, 0))
  | NP21 | NP24 =>
      if nshank =? 1 then Some (fun c => (c / 2, c mod 2, 0))
      else if nshank =? 4 then
        Some (fun c => let b := Z.to_nat (c / 48) in
                       ((c mod 48) / 2 + 24 * nth b [0; 0; 1; 1; 0; 0; 1; 1] 0,
                        c mod 2,
                        nth b [0; 1; 0; 1; 2; 3; 2; 3] 0))
      else None
  end.
(* trace_header(version, nshank): dense_layout + adc_shifts; no `flag` key
   (modelled as a column of ones, not observed for trace_header) *)
Definition trace_header (g : gen) (nshank : Z) : option geom :=
  match dense_rcs g nshank, adc_shifts g NC with
  | Some f, Some (sh, adc) =>
      let ch := zrange NC in
      let row := map (fun c => fst (fst (f c))) ch in
      let col := map (fun c => snd (fst (f c))) ch in
      Some (mkgeom (map (fun c => snd (f c)) ch) col row (ones NC)
                   (map (rc2x g) col) (map (rc2y g) row) sh adc ch)
  | _, _ => None
  end.
(* split_trace_header(h, shank): every key indexed by np.where(h["shank"] == shank)[0] *)
Definition split_trace_header (h : geom) (s : Z) : geom := gmap (gather (where_eq s (g_shank h))) h.

(* ---------- np.lexsort on (-col, row, shank): last key is the primary one ---------- *)
Definition key3 : Type := (Z * Z * Z)%type.          (* (shank, row, -col) *)
Definition lt3 (a b : key3) : bool :=
  let '(a1, a2, a3) := a in let '(b1, b2, b3) := b in
  (a1 <? b1) || ((a1 =? b1) && ((a2 <? b2) || ((a2 =? b2) && (a3 <? b3)))).
(* stable insertion: x comes from an earlier position than everything in l, so
   it passes only strictly smaller keys *)
Fixpoint insert (key : Z -> key3) (x : Z) (l : list Z) : list Z :=
  match l with
  | [] => [x]
  | y :: l' => if lt3 (key y) (key x) then y :: insert key x l' else x :: l
  end.
Definition isort (key : Z -> key3) (l : list Z) : list Z := fold_right (insert key) [] l.
Definition sort_key (t : geom) (i : Z) : key3 := (znth (g_shank t) i, znth (g_row t) i, - znth (g_col t) i).
Definition lexsort (t : geom) : list Z := isort (sort_key t) (zrange (gsize t)).

(* ---------- geometry_from_meta ---------- *)
Inductive encoding := ShankMap | GeomMap.
Definition site : Type := (Z * Z * Z * Z)%type.       (* shank : a : b : flag *)
Definition s_shank (s : site) := fst (fst (fst s)).
Definition s_a (s : site) := snd (fst (fst s)).
Definition s_b (s : site) := snd (fst s).
Definition s_flag (s : site) := snd s.

(* the two branches up to (col, row, x, y) *)
Definition site_crxy (g : gen) (e : encoding) (s : site) : option (Z * Z * Z * Z) :=
  match e with
  | GeomMap =>
      (* if major_version == 1: x = 70 - x ;  y += 20 ; col,row = xy2rc(x, y) *)
      let x := match g with NP1 => 70 - s_a s | _ => s_a s end in
      let y := s_b s + 20 in
      match xy2c g x, xy2r g y with
      | Some c, Some r => Some (c, r, x, y)
      | _, _ => None
      end
  | ShankMap =>
      (* if major_version == 1: col = -col*2 + 2 + mod(row, 2) ; x,y = rc2xy(row, col) *)
      let r := s_b s in
      let c := match g with NP1 => - s_a s * 2 + 2 + r mod 2 | _ => s_a s end in
      Some (c, r, rc2x g c, rc2y g r)
  end.

(* _split_geometry_into_shanks *)
Definition gsplit (split : option Z) (t : geom) : geom :=
  match split with
  | Some s => gmap (gather (where_eq s (g_shank t))) t
  | None => t
  end.
Definition with_ind (t : geom) : geom :=
  mkgeom (g_shank t) (g_col t) (g_row t) (g_flag t) (g_x t) (g_y t) (g_shift t) (g_adc t)
         (zrange (gsize t)).

(* th before `if sort:` *)
Definition geometry_unsorted (g : gen) (e : encoding) (sites : list site) (split : option Z)
  : option geom :=
  match map_opt (site_crxy g e) sites, adc_shifts g (length sites) with
  | Some q, Some (sh, adc) =>
      if (length sites <=? NC)%nat then
        let t := mkgeom (map s_shank sites)
                        (map (fun p => fst (fst (fst p))) q) (map (fun p => snd (fst (fst p))) q)
                        (map s_flag sites)
                        (map (fun p => snd (fst p)) q) (map snd q) sh adc [] in
        Some (with_ind (gsplit split t))
      else None      (* more than 384 sites: the ADC table is too short; outside the domain *)
  | _, _ => None
  end.

(* geometry_from_meta(meta, return_index=True, sort=sort) when the map has >= 1 entry *)
Definition geometry (g : gen) (e : encoding) (sites : list site) (split : option Z) (sort : bool)
  : option (geom * list Z) :=
  match geometry_unsorted g e sites split with
  | Some t =>
      if sort then let inds := lexsort t in Some (gmap (gather inds) t, inds)
      else Some (t, zrange (gsize t))
  | None => None
  end.

(* no map / empty map: trace_header(version=major_version) (nshank defaults to 1),
   flag = 1, index arange(nc=384), never sorted, never split *)
Definition geometry_default (g : gen) : option (geom * list Z) :=
  match trace_header g 1 with
  | Some t => Some (t, zrange NC)
  | None => None
  end.

(* ---------- SpikeGLX's layout convention (a definition; see DESIGN C08) ----------
   the geometry-map entry SpikeGLX writes for the site whose shank-map entry is
   (shank : col : row : flag) *)
Definition geom_entry (g : gen) (s : site) : site :=
  let '(sh, c, r, f) := s in
  match g with
  | NP1 => (sh, 27 + 32 * c - 16 * (r mod 2), 20 * r, f)
  | NP21 | NP24 => (sh, 27 + 32 * c, 15 * r, f)
  | NPU => (sh, 6 * c, 6 * r, f)          (* 8 columns and 48 rows on a 6 um pitch; z = 6 * row *)
  end.

(* canonical dense shank maps (what SpikeGLX writes for the default IMRO table) *)
Definition canonical_sites (g : gen) (nshank : Z) : option (list site) :=
  match dense_rcs g nshank with
  | Some f =>
      Some (map (fun c => let '(r, cl, sh) := f c in
                          (sh, match g with NP1 => c mod 2 | _ => cl end, r, 1)) (zrange NC))
  | None => None
  end.

(* ================= round 4 additions (new names only; nothing above is changed) ================= *)

(* geometry_from_meta(..., nc=nc) without a site table: the index is np.arange(nc) whatever the
   length of the default geometry (nc is used nowhere else) *)
Definition geometry_default_nc (g : gen) (nc : nat) : option (geom * list Z) :=
  match trace_header g 1 with
  | Some t => Some (t, zrange nc)
  | None => None
  end.

(* the `version` argument of the public functions of neuropixel.py: 1, "NPultra" and 2 <= v < 3 select a
   generation; any other value reaches no branch — adc_shifts raises UnboundLocalError, dense_layout /
   trace_header KeyError('col'), rc2xy / xy2rc KeyError on CHANNEL_GRID.  None = unsupported. *)
Definition trace_header_v (v : option gen) (nshank : Z) : option geom :=
  match v with Some g => trace_header g nshank | None => None end.
Definition adc_shifts_v (v : option gen) (nc : nat) : option (list Z * list Z) :=
  match v with Some g => adc_shifts g nc | None => None end.

(* geometry_from_meta with the (col, row, x, y) of an entry computed by an arbitrary function:
   geometry_unsorted / geometry are the instances f = site_crxy g e (GeometryBy lemmas in Proofs.v) *)
Definition geometry_unsorted_by (f : site -> option (Z * Z * Z * Z)) (g : gen) (sites : list site)
  (split : option Z) : option geom :=
  match map_opt f sites, adc_shifts g (length sites) with
  | Some q, Some (sh, adc) =>
      if (length sites <=? NC)%nat then
        let t := mkgeom (map s_shank sites)
                        (map (fun p => fst (fst (fst p))) q) (map (fun p => snd (fst (fst p))) q)
                        (map s_flag sites)
                        (map (fun p => snd (fst p)) q) (map snd q) sh adc [] in
        Some (with_ind (gsplit split t))
      else None
  | _, _ => None
  end.
Definition geometry_by (f : site -> option (Z * Z * Z * Z)) (g : gen) (sites : list site)
  (split : option Z) (sort : bool) : option (geom * list Z) :=
  match geometry_unsorted_by f g sites split with
  | Some t =>
      if sort then let inds := lexsort t in Some (gmap (gather inds) t, inds)
      else Some (t, zrange (gsize t))
  | None => None
  end.

(* F-C08-b, faithfully: what the geometry-map branch computes for an NPultra entry (shank : x : z : flag).
   y = z + 20 ; row = (y - 0) / 6 — carried as ROW6 = 6 * row = z + 20, an integer (the row itself is
   fractional whenever z is on the 6 um pitch) ; col = (x - 0) / 6 when x is on the pitch. *)
Definition npu_geom_crxy (s : site) : option (Z * Z * Z * Z) :=
  match xy2c NPU (s_a s) with
  | Some c => Some (c, s_b s + 20, s_a s, s_b s + 20)       (* (col, ROW6, x, y) *)
  | None => None
  end.
Definition geometry_npu_geom (sites : list site) (split : option Z) (sort : bool) :=
  geometry_by npu_geom_crxy NPU sites split sort.
