(* C08 — property theorems.  Only statements closed by `exact <lemma>` (or a short wrapper)
   and the Print Assumptions the check collects.

   Vocabulary (Model.v): `geometry g e sites split sort` is geometry_from_meta(..., return_index=True)
   for probe generation g, metadata encoding e, the parsed site table `sites`
   (shank : a : b : flag per entry), an optional NP2.4_shank key and the sort flag; it returns the
   dictionary of columns (record `geom`) and the index vector.  Domain: at most 384 entries; in the
   geometry-map encoding, coordinates on the site grid (otherwise the model returns None). *)
From Coq Require Import String ZArith List Bool Lia Permutation Sorted Field.
From IBL.lib Require Import PyInt.
From IBL.C09 Require Model Grammar.
From IBL.C08 Require Import Model Adc Proofs Canon Scan ScanProofs File FileProofs Float32.
Import ListNotations.
Open Scope Z_scope.
Module M9 := IBL.C09.Model.
Module G9 := IBL.C09.Grammar.

(* ---- sorting is a true permutation: each site exactly once ---- *)
Theorem C08_sort_is_permutation : forall g e sites split t' inds,
  geometry g e sites split true = Some (t', inds) ->
  exists t, geometry g e sites split false = Some (t, zrange (gsize t)) /\
    inds = lexsort t /\
    Permutation inds (zrange (gsize t)) /\ NoDup inds /\ length inds = gsize t /\
    (forall j, In j inds <-> 0 <= j < Z.of_nat (gsize t)).
Proof.
  intros g e sites split t' inds H.
  destruct (sorted_geometry_facts _ _ _ _ _ _ H) as [t [Hf [-> _]]].
  exists t. split; [exact Hf|]. split; [reflexivity|].
  split; [apply lexsort_perm|]. split; [apply lexsort_once|].
  split; [apply lexsort_length|apply lexsort_once].
Qed.
Print Assumptions C08_sort_is_permutation.

(* ---- every per-site attribute moves with the same index vector ----
   all nine columns (shank, col, row, flag, x, y, sampling delay, ADC, original index) of the sorted
   geometry are the unsorted columns re-indexed by `inds`; both are rectangular; the `ind` column of
   the sorted geometry is the index vector itself. *)
Theorem C08_attributes_move_together : forall g e sites split t' inds,
  geometry g e sites split true = Some (t', inds) ->
  exists t, geometry g e sites split false = Some (t, zrange (gsize t)) /\
    columns t' = map (gather inds) (columns t) /\ g_ind t' = inds /\
    rect t (gsize t) /\ rect t' (gsize t) /\
    (forall c i, In c (columns t) -> 0 <= i < Z.of_nat (gsize t) ->
       znth (gather inds c) i = znth c (znth inds i)).
Proof.
  intros g e sites split t' inds H.
  destruct (sorted_geometry_facts _ _ _ _ _ _ H) as [t [Hf [Hi [Hc [Hind [Hr Hr']]]]]].
  exists t. repeat split; try assumption.
  intros c i _ Hrange. apply znth_gather. subst inds. now rewrite lexsort_length.
Qed.
Print Assumptions C08_attributes_move_together.

(* ---- ordered by shank, then row, then descending column; ties keep the recording order ---- *)
Theorem C08_sort_is_sorted_stable : forall g e sites split t' inds,
  geometry g e sites split true = Some (t', inds) ->
  forall i j, 0 <= i -> i < j -> j < Z.of_nat (gsize t') ->
  ordered_at (g_shank t') (g_row t') (g_col t') (g_ind t') i j.
Proof.
  intros g e sites split t' inds H i j H0 Hij Hj.
  destruct (geometry_sorted_inv _ _ _ _ _ _ H) as [t [Hf [-> ->]]].
  destruct (geometry_unsorted_of_false _ _ _ _ _ _ Hf) as [Hu _].
  destruct (geometry_unsorted_rect _ _ _ _ _ Hu) as [_ Hind].
  apply sorted_columns_ordered; try assumption.
  unfold gsize in Hj. cbn [gmap g_col] in Hj. rewrite gather_length, lexsort_length in Hj. exact Hj.
Qed.
Print Assumptions C08_sort_is_sorted_stable.

(* ---- the index vector is determined by the stable-sort specification alone: any permutation
   of the positions that is ordered by (shank, row, -col, position) is the model's index ---- *)
Theorem C08_sort_index_unique : forall t l,
  Permutation l (zrange (gsize t)) -> StronglySorted (before (sort_key t)) l -> l = lexsort t.
Proof. exact lexsort_unique. Qed.
Print Assumptions C08_sort_index_unique.

(* ---- the unsorted geometry lists recorded site i at position i, once; its ADC group and delay
   are functions of the channel number i and the generation only ---- *)
Theorem C08_each_site_once : forall g e sites t,
  geometry_unsorted g e sites None = Some t ->
  gsize t = length sites /\ rect t (length sites) /\
  forall i, (i < length sites)%nat ->
    let z := Z.of_nat i in
    znth (g_shank t) z = s_shank (nth i sites dsite) /\
    znth (g_flag t) z = s_flag (nth i sites dsite) /\
    site_crxy g e (nth i sites dsite) =
      Some (znth (g_col t) z, znth (g_row t) z, znth (g_x t) z, znth (g_y t) z) /\
    znth (g_adc t) z = adc_of g z /\
    znth (g_shift t) z = shift_closed g z /\
    znth (g_ind t) z = z.
Proof. exact unsorted_describes_sites. Qed.
Print Assumptions C08_each_site_once.

(* ---- row/col and x/y are exact inverses on the grid (integers) ... ---- *)
Theorem C08_rc_xy_inverse_grid : forall g,
  (forall c, xy2c g (rc2x g c) = Some c) /\ (forall r, xy2r g (rc2y g r) = Some r) /\
  (forall x c, xy2c g x = Some c -> rc2x g c = x) /\ (forall y r, xy2r g y = Some r -> rc2y g r = y).
Proof.
  intros g. repeat split.
  - apply xy2c_rc2x.  - apply xy2r_rc2y.  - apply rc2x_xy2c.  - apply rc2y_xy2r.
Qed.
Print Assumptions C08_rc_xy_inverse_grid.

(* ---- ... and, as formulas, over every field (the reals: the intended semantics of the float
   code), for any non-zero pitch ---- *)
Theorem C08_rc_xy_inverse_field :
  forall (F : Type) (f0 f1 : F) (fadd fmul fsub : F -> F -> F) (fopp : F -> F)
         (fdiv : F -> F -> F) (finv : F -> F),
  field_theory f0 f1 fadd fmul fsub fopp fdiv finv (@eq F) ->
  forall d o v, d <> f0 ->
    xy2rc_F F fsub fdiv d o (rc2xy_F F fadd fmul d o v) = v /\
    rc2xy_F F fadd fmul d o (xy2rc_F F fsub fdiv d o v) = v.
Proof.
  intros F f0 f1 fadd fmul fsub fopp fdiv finv Fth d o v Hd. split.
  - exact (field_xy_of_rc F f0 f1 fadd fmul fsub fopp fdiv finv Fth d o v Hd).
  - exact (field_rc_of_xy F f0 f1 fadd fmul fsub fopp fdiv finv Fth d o v Hd).
Qed.
Print Assumptions C08_rc_xy_inverse_field.

(* ---- the two metadata encodings of a site table give the same geometry (NP1, NP2, NP2 4-shank),
   for every table, split and sort flag — given SpikeGLX's layout convention geom_entry ---- *)
Theorem C08_encodings_agree : forall g sites split srt, g <> NPU ->
  geometry g GeomMap (map (geom_entry g) sites) split srt = geometry g ShankMap sites split srt.
Proof. exact encodings_geometry. Qed.
Print Assumptions C08_encodings_agree.

(* ---- a split shank's geometry is the restriction of its parent's (unsorted): every column is the
   parent's column at the positions idx of that shank, idx increasing and exactly those positions;
   only the running index is renumbered ---- *)
Theorem C08_split_is_restriction : forall g e sites s t',
  geometry_unsorted g e sites (Some s) = Some t' ->
  exists t, geometry_unsorted g e sites None = Some t /\
    let idx := where_eq s (g_shank t) in
    g_shank t' = gather idx (g_shank t) /\ g_col t' = gather idx (g_col t) /\
    g_row t' = gather idx (g_row t) /\ g_flag t' = gather idx (g_flag t) /\
    g_x t' = gather idx (g_x t) /\ g_y t' = gather idx (g_y t) /\
    g_shift t' = gather idx (g_shift t) /\ g_adc t' = gather idx (g_adc t) /\
    g_ind t' = zrange (length idx) /\ gsize t' = length idx /\
    StronglySorted Z.lt idx /\
    (forall j, In j idx <-> 0 <= j < Z.of_nat (length (g_shank t)) /\ znth (g_shank t) j = s).
Proof.
  intros g e sites s t' H.
  destruct (split_is_restriction _ _ _ _ _ H) as [t [Hu Hc]]. exists t. split; [exact Hu|].
  cbv zeta in *. decompose [and] Hc.
  do 10 (split; [assumption|]). split; [apply where_eq_increasing|].
  intros j. apply where_eq_spec.
Qed.
Print Assumptions C08_split_is_restriction.

(* ---- ... and sorted: sorting the split geometry = deleting the other shanks from the sorted
   parent index (positions of the child mapped back to the parent through idx) ---- *)
Theorem C08_split_commutes_with_sort : forall g e sites s t t',
  geometry_unsorted g e sites None = Some t -> geometry_unsorted g e sites (Some s) = Some t' ->
  map (znth (where_eq s (g_shank t))) (lexsort t') =
  filter (fun j => znth (g_shank t) j =? s) (lexsort t).
Proof. exact split_sort_commute. Qed.
Print Assumptions C08_split_commutes_with_sort.

(* ---- split_trace_header: every key indexed by the positions of the shank ---- *)
Theorem C08_split_trace_header_restriction : forall h s,
  let idx := where_eq s (g_shank h) in
  columns (split_trace_header h s) = map (gather idx) (columns h) /\
  StronglySorted Z.lt idx /\
  (forall j, In j idx <-> 0 <= j < Z.of_nat (length (g_shank h)) /\ znth (g_shank h) j = s).
Proof.
  intros h s idx. split; [reflexivity|]. split; [apply where_eq_increasing|].
  intros j. apply where_eq_spec.
Qed.
Print Assumptions C08_split_trace_header_restriction.

(* ---- ADC tables for NC = 384, per generation, by exhaustive kernel evaluation of the loop:
   closed forms; each ADC serves exactly adc_channels channels at the distinct, evenly spaced
   delays 0/cycles .. (A-1)/cycles, in channel order; fewer channels = a prefix ---- *)
Theorem C08_adc_table : forall g,
  adc_shifts g NC = Some (map (shift_closed g) (zrange NC), map (adc_of g) (zrange NC)) /\
  (forall a, In a (adc_all g) ->
     (* served g a = filter (fun c => adc_of g c =? a) (zrange NC): the channels of ADC a *)
     map (shift_closed g) (served g a) = zrange (Z.to_nat (adc_channels g))) /\
  (forall n, adc_shifts g n = Some (firstn n (map (shift_closed g) (zrange NC)),
                                    firstn n (map (adc_of g) (zrange NC)))).
Proof.
  intros g. split; [apply adc_loop_closed|]. split; [apply adc_each_served|apply adc_shifts_prefix].
Qed.
Print Assumptions C08_adc_table.

(* ---- canonical layouts: trace_header(version, nshank) = unsorted geometry of the canonical
   dense site table, in both encodings (finite, by evaluation) ---- *)
Theorem C08_canonical_layouts :
  forall p, In p [(NP1, 1, false); (NP1, 1, true); (NP21, 1, false); (NP21, 1, true);
                  (NP24, 1, false); (NP24, 4, false); (NP24, 4, true); (NP21, 4, false);
                  (NPU, 1, false)] ->
  canon_ok (fst (fst p)) (snd (fst p)) (snd p) = true.
Proof. apply forallb_forall. exact canon_all. Qed.
Print Assumptions C08_canonical_layouts.

(* ---- sorting preserves the original NP1 order; the 4-shank default sorts into 4 blocks of 96 ---- *)
Theorem C08_canonical_sorted :
  (exists th, trace_header NP1 1 = Some th /\ lexsort th = zrange NC) /\
  (exists th, trace_header NP24 4 = Some th /\
              gather (lexsort th) (g_shank th) = map (fun c => c / 96) (zrange NC)).
Proof.
  split.
  - pose proof np1_sorted_identity as H. destruct (trace_header NP1 1) as [th|]; [|discriminate].
    exists th. split; [reflexivity|]. now apply zl_eqb_eq.
  - pose proof np24_sorted_blocks as H. destruct (trace_header NP24 4) as [th|]; [|discriminate].
    exists th. split; [reflexivity|]. now apply zl_eqb_eq.
Qed.
Print Assumptions C08_canonical_sorted.

(* ---- F-C08-a: the ADC clause fails for saved-channel subsets.  The geometry of a table whose
   entries are the original channels 24..27 of an NP1 probe carries the ADC groups of channels
   0..3, not those of the original channel numbers ---- *)
Theorem C08_adc_subset_refuted :
  exists g sites orig t,
    StronglySorted Z.lt orig /\ length orig = length sites /\
    Forall (fun c => 0 <= c < Z.of_nat NC) orig /\
    geometry_unsorted g ShankMap sites None = Some t /\
    exists i, 0 <= i < Z.of_nat (length sites) /\ znth (g_adc t) i <> adc_of g (znth orig i).
Proof.
  exists NP1, subset_sites, subset_orig.
  pose proof subset_witness as H.
  destruct (geometry_unsorted NP1 ShankMap subset_sites None) as [t|] eqn:E; [|discriminate].
  exists t. split; [repeat constructor|]. split; [reflexivity|].
  split; [repeat constructor; unfold NC; lia|]. split; [reflexivity|].
  exists 0. split; [cbn; lia|].
  apply andb_true_iff in H as [H _]. apply andb_true_iff in H as [H _]. apply andb_true_iff in H as [H _].
  apply zl_eqb_eq in H. rewrite H. vm_compute. discriminate.
Qed.
Print Assumptions C08_adc_subset_refuted.

(* ---- codec: the tokeniser of _map_channels_from_meta (regex findall + split + float) inverts the
   SpikeGLX map printer: any header text without ':' followed by "(s:a:b:f)" entries with
   components in [0, 10^20) parses back to exactly the entries, in order ---- *)
Theorem C08_parse_print_map : forall header sites,
  colon_free header -> Forall valid_site sites ->
  parse_map (print_map header sites) = Some sites.
Proof. exact parse_print_map. Qed.
Print Assumptions C08_parse_print_map.

(* ---- FILE TEXT -> geometry.  C09's model of read_meta_data (M9.read_meta: universal newlines,
   splitlines, key=value, tilde removal, numeric conversion, last key wins, the two added keys) composed
   with the tokeniser and the geometry model.  For every file made of key=value lines over C09's
   grammar (G9.gram_line: keys without '=' or line breaks; string, decimal-scalar or integer-list
   values), the geometry derived from the text is the geometry derived from the lines read one by one,
   the last line carrying a key deciding (text_dict) ---- *)
Theorem C08_file_text_geometry : forall ls sort,
  Forall G9.gram_line ls -> G9.serial_lines_ok ls ->
  geometry_of_file (file_of ls) sort = geometry_of_dict (text_dict ls) sort.
Proof. intros ls sort. exact (file_geometry ls sort). Qed.
Print Assumptions C08_file_text_geometry.

(* ---- ... and explicitly: if the last snsShankMap line (or, without any, the last snsGeomMap line)
   holds a printed non-empty site table, the lines fix probe version v, and the NP2.4_shank line (if
   any) holds the decimal shank number, the text yields exactly `geometry (gen_of_vers v) e sites split
   sort` (Outside where that model has no answer: off-grid coordinates, more than 384 entries) ---- *)
Theorem C08_file_to_geometry : forall ls v e h s sites split sort,
  Forall G9.gram_line ls -> G9.serial_lines_ok ls ->
  M9.version (text_dict ls) = Some v ->
  match e with
  | ShankMap => last_value kShankMap ls = Some (print_map h (s :: sites))
  | GeomMap => last_value kShankMap ls = None /\ last_value kGeomMap ls = Some (print_map h (s :: sites))
  end ->
  colon_free h -> Forall valid_site (s :: sites) ->
  last_value kSplit ls = split_text split -> (forall z, split = Some z -> 0 <= z) ->
  geometry_of_file (file_of ls) sort = of_opt (geometry (gen_of_vers v) e (s :: sites) split sort).
Proof. exact file_to_geometry. Qed.
Print Assumptions C08_file_to_geometry.

(* ---- F-C08-b: NPultra geometry maps.  The code adds the 20 um tip offset to y although the NPultra
   grid has Y0 = 0: for EVERY entry whose z lies on the 6 um pitch the row (z + 20) / 6 is not an
   integer (the model has no on-grid geometry), so the geometry-map encoding of the canonical NPultra
   layout does not give the geometry of its shank-map encoding ---- *)
Theorem C08_npultra_geom_map_refuted :
  (forall sh x r f sites split srt,
     geometry NPU GeomMap ((sh, x, 6 * r, f) :: sites) split srt = None) /\
  (exists sites t, canonical_sites NPU 1 = Some sites /\
     geometry NPU ShankMap sites None false = Some t /\
     geometry NPU GeomMap (map (geom_entry NPU) sites) None false = None).
Proof.
  split; [exact npultra_geom_none|].
  pose proof npultra_geom_canonical as H.
  destruct (canonical_sites NPU 1) as [sites|]; [|discriminate].
  destruct (geometry NPU ShankMap sites None false) as [t|] eqn:E1; [|discriminate].
  destruct (geometry NPU GeomMap (map (geom_entry NPU) sites) None false) eqn:E2; [discriminate|].
  exists sites, t. repeat split; assumption.
Qed.
Print Assumptions C08_npultra_geom_map_refuted.

(* ---- the fallback when the metadata hold no site table (outside the property's quantifier; stated
   so that the behaviour is on record): trace_header(version) with nshank defaulting to 1, identity
   index, never sorted, never split — hence for NP2.4 a single-shank layout, and for NP2 a geometry
   that is not in sorted order even though sort=True was requested ---- *)
Theorem C08_default_geometry :
  (forall g, geometry_default g = match trace_header g 1 with Some t => Some (t, zrange NC) | None => None end) /\
  (exists t inds t1 i1, geometry_default NP24 = Some (t, inds) /\ g_shank t = zeros NC /\ inds = zrange NC /\
     geometry_default NP21 = Some (t1, i1) /\ lexsort t1 <> zrange NC).
Proof.
  split; [reflexivity|].
  pose proof default_facts as H.
  destruct (geometry_default NP24) as [[t inds]|] eqn:E1; [|discriminate].
  destruct (geometry_default NP21) as [[t1 i1]|] eqn:E2; [|discriminate].
  apply andb_true_iff in H as [H H3]. apply andb_true_iff in H as [H1 H2].
  exists t, inds, t1, i1. repeat split; try (now apply zl_eqb_eq).
  intros E. rewrite E in H3.
  assert (R : forall l, zl_eqb l l = true).
  { induction l as [|a l IH]; [reflexivity|]. cbn. now rewrite Z.eqb_refl, IH. }
  rewrite R in H3. discriminate.
Qed.
Print Assumptions C08_default_geometry.

(* ---- totality (round 3): the geometry exists exactly for tables of at most 384 entries whose
   entries are on the grid; in the shank-map encoding every table of at most 384 entries has one, so
   the hypotheses `geometry ... = Some ...` of the theorems above hold on the whole domain ---- *)
Theorem C08_geometry_defined : forall g e sites split srt,
  (exists t inds, geometry g e sites split srt = Some (t, inds)) <->
  ((length sites <= NC)%nat /\ forall s, In s sites -> site_crxy g e s <> None).
Proof. exact geometry_defined. Qed.
Print Assumptions C08_geometry_defined.

Theorem C08_geometry_total : forall g sites split srt, (length sites <= NC)%nat ->
  (exists t inds, geometry g ShankMap sites split srt = Some (t, inds)) /\
  (g <> NPU -> exists t inds, geometry g GeomMap (map (geom_entry g) sites) split srt = Some (t, inds)).
Proof.
  intros g sites split srt Hl. split; [now apply geometry_total_shankmap|].
  intros Hg. rewrite encodings_geometry by exact Hg. now apply geometry_total_shankmap.
Qed.
Print Assumptions C08_geometry_total.

(* ---- float32 (round 3): on every cell (column, row) of every generation's site grid, the binary32
   evaluation (Flocq, round to nearest even) of the source's formulas — shank-map branch, and
   geometry-map branch on the entry SpikeGLX writes for the cell — yields exactly the float32 of the
   integer the model computes; and the float64 delays k / n_cycles of one ADC are pairwise distinct
   (the numerator carried by the model determines the float and vice versa).  Exhaustive. ---- *)
Theorem C08_float32_exact_on_grid : forall g c r, In (c, r) (grid_cells g) ->
  shank_ok g c r = true /\ (g <> NPU -> geom_ok g c r = true) /\
  distinct (map (delay g) (zrange (Z.to_nat (adc_channels g)))) = true.
Proof.
  intros g c r Hin.
  pose proof sweep_all as Hs. pose proof delays_distinct as Hd.
  rewrite forallb_forall in Hs, Hd.
  assert (Hg : In g [NP1; NP21; NP24; NPU]) by (destruct g; cbn; auto).
  specialize (Hs g Hg). specialize (Hd g Hg). unfold sweep in Hs. rewrite forallb_forall in Hs.
  specialize (Hs (c, r) Hin). cbn [fst snd] in Hs. apply andb_true_iff in Hs as [H1 H2].
  split; [exact H1|]. split; [|exact Hd].
  intros Hn. destruct g; try exact H2. congruence.
Qed.
Print Assumptions C08_float32_exact_on_grid.

(* ---- round 4: geometry_from_meta with an arbitrary per-entry function (geometry_by); `geometry` is
   the instance site_crxy g e, so the sorting theorems hold for every such function: permutation,
   joint re-indexing, order ---- *)
Theorem C08_geometry_by_sorted : forall f g sites split t' inds,
  geometry_by f g sites split true = Some (t', inds) ->
  exists t, geometry_by f g sites split false = Some (t, zrange (gsize t)) /\
    inds = lexsort t /\ Permutation inds (zrange (gsize t)) /\
    columns t' = map (gather inds) (columns t) /\ g_ind t' = inds /\
    forall i j, 0 <= i -> i < j -> j < Z.of_nat (gsize t) ->
      ordered_at (g_shank t') (g_row t') (g_col t') (g_ind t') i j.
Proof. exact geometry_by_sorted. Qed.
Print Assumptions C08_geometry_by_sorted.

Theorem C08_geometry_by_instance : forall g e sites split srt,
  geometry_by (site_crxy g e) g sites split srt = geometry g e sites split srt.
Proof. exact geometry_by_spec. Qed.
Print Assumptions C08_geometry_by_instance.

(* ---- F-C08-b, faithfully (round 4): what the code computes for the NPultra geometry-map entry of grid
   site (col c, row r): col = c, 6 * row = 6 r + 20 (never a multiple of 6: the row is fractional),
   x = 6 c, y = 6 r + 20 — against (c, r, 6 c, 6 r) from the shank-map entry: y is 20 um off.  The
   sorted geometry of such a table (geometry_npu_geom, rows carried as 6 * row) is still a jointly
   permuted, ordered description (C08_geometry_by_sorted) ---- *)
Theorem C08_npultra_geom_map_values : forall c r sh f,
  npu_geom_crxy (geom_entry NPU (sh, c, r, f)) = Some (c, 6 * r + 20, 6 * c, 6 * r + 20) /\
  (6 * r + 20) mod 6 = 2 /\
  site_crxy NPU ShankMap (sh, c, r, f) = Some (c, r, 6 * c, 6 * r).
Proof. exact npu_geom_entry. Qed.
Print Assumptions C08_npultra_geom_map_values.

(* ---- the no-table fallback is a function of (probe version, stream type) (repo 569e533): with no
   snsShankMap / snsGeomMap entry, geometry_from_meta gives no geometry when there is no probe version or
   the stream is nidq (3A-era nidq metas carry typeEnabled, hence a version), and the default layout of
   the version for every other stream type ---- *)
Theorem C08_fallback_by_version_and_type : forall d sort,
  (channel_map d = NoKey \/ channel_map d = Empty) ->
  geometry_of_dict d sort = fallback (M9.version d) (type_is_nidq d) /\
  (M9.version d = None -> geometry_of_dict d sort = NoGeometry) /\
  (forall v, M9.version d = Some v ->
     (M9.get_type d = Some (Some M9.SNidq) -> geometry_of_dict d sort = NoGeometry) /\
     (forall t, M9.get_type d = Some t -> t <> Some M9.SNidq ->
        geometry_of_dict d sort = of_opt (geometry_default (gen_of_vers v)))).
Proof. exact fallback_table. Qed.
Print Assumptions C08_fallback_by_version_and_type.

(* ---- packing the sort key into one integer rank (round 9).  rank = (shank * stride + row) * w - col
   orders exactly like (shank, row, descending col) — strictly and on ties — whenever every row is below
   the stride and every column below the width w; a stable sort by that rank is then the sort of the
   theorems above.  For the NP2 grids (rows 0..639, columns 0..1; NPultra columns 0..7) stride 640, w 8 work ---- *)
Theorem C08_packed_key_order : forall stride w a b,
  key_in_range stride w a -> key_in_range stride w b ->
  (packed stride w a < packed stride w b <-> lt3P a b) /\
  (packed stride w a = packed stride w b <-> a = b).
Proof. exact packed_order. Qed.
Print Assumptions C08_packed_key_order.

Theorem C08_packed_key_stable_sort : forall stride w key i j,
  key_in_range stride w (key i) -> key_in_range stride w (key j) ->
  (before key i j <-> packed stride w (key i) < packed stride w (key j) \/
                      (packed stride w (key i) = packed stride w (key j) /\ i < j)).
Proof. exact packed_before. Qed.
Print Assumptions C08_packed_key_stable_sort.

(* ---- ... and the stride must exceed the largest row INDEX: with stride 639 (the largest row of the
   640-row grids instead of their row count) the top row of one shank and row 0 of the next collide —
   distinct keys, one before the other, same rank ---- *)
Theorem C08_packed_key_stride_639_refuted :
  exists a b : key3, key_in_range 640 8 a /\ key_in_range 640 8 b /\
    lt3P a b /\ a <> b /\ packed 639 8 a = packed 639 8 b.
Proof.
  exists (0, 639, 0), (1, 0, 0).
  split; [cbn; lia|]. split; [cbn; lia|]. split; [cbn; lia|]. split; [discriminate|reflexivity].
Qed.
Print Assumptions C08_packed_key_stride_639_refuted.

(* ---- non-vacuity: concrete inputs meeting the hypotheses, with the model's values ---- *)
Example C08_example_sorted_split :
  geometry NP24 ShankMap [(1, 0, 5, 1); (0, 1, 5, 1); (1, 1, 5, 0); (0, 0, 5, 1)] (Some 1) true
  = Some (mkgeom [1; 1] [1; 0] [5; 5] [0; 1] [59; 27] [95; 95] [1; 0] [0; 0] [1; 0], [1; 0]).
Proof. vm_compute. reflexivity. Qed.

Example C08_example_encodings :
  geometry NP1 GeomMap (map (geom_entry NP1) [(0, 1, 7, 1); (0, 0, 7, 1); (0, 1, 6, 1)]) None true
  = Some (mkgeom [0; 0; 0] [0; 3; 1] [6; 7; 7] [1; 1; 1] [11; 59; 27] [140; 160; 160]
                 [1; 0; 0] [0; 1; 0] [2; 1; 0], [2; 1; 0]).
Proof. vm_compute. reflexivity. Qed.

Example C08_example_offgrid : geometry NP21 GeomMap [(0, 28, 15, 1)] None true = None.
Proof. vm_compute. reflexivity. Qed.

(* "(4,2,640)(0:1:5:1)(12:0:007:0)" and a malformed text *)
Example C08_example_parse :
  parse_map [40;52;44;50;44;54;52;48;41;40;48;58;49;58;53;58;49;41;40;49;50;58;48;58;48;48;55;58;48;41]
  = Some [(0, 1, 5, 1); (12, 0, 7, 0)] /\
  parse_map [40;48;58;49;58;58;49;41] = None.
Proof. vm_compute. split; reflexivity. Qed.

(* a whole file: CR LF line ends are outside file_of (covered by M9.univ_nl in the run), tilde keys,
   a repeated key (the last one wins), a split key *)
Example C08_example_file :
  geometry_of_file (M9.lit "imDatPrb_type=24
~snsShankMap=(4,2,640)(0:0:9:1)
snsShankMap=(4,2,640)(1:0:5:1)(0:1:5:1)(1:1:5:0)(0:0:5:1)
NP2.4_shank=1
"%string) true
  = Geometry (mkgeom [1; 1] [1; 0] [5; 5] [0; 1] [59; 27] [95; 95] [1; 0] [0; 0] [1; 0]) [1; 0].
Proof. vm_compute. reflexivity. Qed.

(* hypotheses of C08_file_to_geometry are satisfiable: a three-line file over C09's grammar *)
Definition ex_lines : list (M9.str * M9.str) :=
  [(M9.lit "imDatPrb_type", M9.lit "24");
   (M9.lit "~snsShankMap", print_map (M9.lit "(4,2,640)") [(1, 0, 5, 1); (0, 1, 5, 1); (1, 1, 5, 0)]);
   (M9.lit "NP2.4_shank", M9.print_nat 1)].
Example C08_example_file_hypotheses :
  Forall G9.gram_line ex_lines /\ G9.serial_lines_ok ex_lines /\
  M9.version (text_dict ex_lines) = Some M9.VNP24 /\
  last_value kShankMap ex_lines = Some (print_map (M9.lit "(4,2,640)") [(1, 0, 5, 1); (0, 1, 5, 1); (1, 1, 5, 0)]) /\
  colon_free (M9.lit "(4,2,640)") /\ Forall valid_site [(1, 0, 5, 1); (0, 1, 5, 1); (1, 1, 5, 0)] /\
  last_value kSplit ex_lines = split_text (Some 1) /\
  geometry_of_file (file_of ex_lines) true
  = Geometry (mkgeom [1; 1] [1; 0] [5; 5] [0; 1] [59; 27] [95; 95] [1; 0] [0; 0] [1; 0]) [1; 0].
Proof.
  assert (Gnum : forall k v, forallb (fun c => negb (c =? 61)) k = true -> IBL.C09.Proofs.plain k = true ->
                 G9.nonempty_digits v -> G9.gram_line (k, v)).
  { intros k v H1 H2 H3. split; [exact H1|]. split; [exact H2|]. right. left. left. exact H3. }
  split.
  { constructor; [|constructor; [|constructor; [|constructor]]].
    - apply Gnum; [vm_compute; reflexivity|vm_compute; reflexivity|].
      split; [vm_compute; reflexivity|vm_compute; discriminate].
    - split; [vm_compute; reflexivity|]. split; [vm_compute; reflexivity|].
      left. split; vm_compute; reflexivity.
    - apply Gnum; [vm_compute; reflexivity|vm_compute; reflexivity|].
      split; [vm_compute; reflexivity|vm_compute; discriminate]. }
  split.
  { intros k v Hin Hk. exfalso. unfold ex_lines in Hin. cbn [In] in Hin.
    destruct Hin as [H|[H|[H|[]]]]; inversion H; subst; vm_compute in Hk; intuition discriminate. }
  split; [vm_compute; reflexivity|]. split; [vm_compute; reflexivity|].
  split; [repeat constructor; vm_compute; discriminate|].
  split.
  { assert (V : forall n, 0 <= n < 10 -> valid_num n) by (unfold valid_num; intros; lia).
    repeat constructor; apply V; lia. }
  split; vm_compute; reflexivity.
Qed.

(* hypotheses of the sorting theorems on a table with ties in shank and row, and the split/sort theorem *)
Example C08_example_split_commutes :
  let sites := [(1, 0, 7, 1); (0, 1, 5, 1); (1, 1, 7, 0); (0, 0, 5, 1); (1, 0, 2, 1)] in
  exists t t', geometry_unsorted NP24 ShankMap sites None = Some t /\
    geometry_unsorted NP24 ShankMap sites (Some 1) = Some t' /\
    lexsort t = [1; 3; 4; 2; 0] /\ lexsort t' = [2; 1; 0] /\ where_eq 1 (g_shank t) = [0; 2; 4] /\
    map (znth (where_eq 1 (g_shank t))) (lexsort t') = [4; 2; 0].
Proof. vm_compute. eexists. eexists. repeat split. Qed.

Example C08_example_npultra_geom :
  geometry_npu_geom (map (geom_entry NPU) [(0, 1, 2, 1); (0, 7, 2, 1); (0, 3, 0, 1)]) None true
  = Some (mkgeom [0; 0; 0] [3; 7; 1] [20; 32; 32] [1; 1; 1] [18; 42; 6] [20; 32; 32] [1; 0; 0] [0; 1; 0] [2; 1; 0],
          [2; 1; 0]).
Proof. vm_compute. reflexivity. Qed.

(* a 3A-era nidq meta (typeEnabled gives a probe version) and an imec meta without table *)
Example C08_example_fallback :
  geometry_of_file (M9.lit "typeEnabled=imec,nidq
typeThis=nidq
snsMnMaXaDw=0,0,1,1
"%string) true = NoGeometry /\
  (exists t inds, geometry_of_file (M9.lit "typeEnabled=imec
typeThis=imec
snsApLfSy=384,0,1
"%string) true = Geometry t inds /\ gsize t = NC).
Proof. split; [vm_compute; reflexivity|]. eexists. eexists. vm_compute. split; reflexivity. Qed.

(* the collision on a real table: rows 639 of shank 0 and 0 of shank 1, later shank first in the file *)
Example C08_example_grid_extremes :
  geometry NP24 ShankMap [(1, 0, 0, 1); (0, 0, 639, 1); (1, 1, 0, 1); (0, 1, 639, 1)] None true
  = Some (mkgeom [0; 0; 1; 1] [1; 0; 1; 0] [639; 639; 0; 0] [1; 1; 1; 1] [59; 27; 59; 27] [9605; 9605; 20; 20]
                 [1; 0; 1; 0] [1; 1; 0; 0] [3; 1; 2; 0], [3; 1; 2; 0]) /\
  map (packed 639 8) [(1, 0, 0); (0, 639, 0); (1, 0, -1); (0, 639, -1)] = [5112; 5112; 5111; 5111] /\
  map (packed 640 8) [(1, 0, 0); (0, 639, 0); (1, 0, -1); (0, 639, -1)] = [5120; 5112; 5119; 5111].
Proof. vm_compute. repeat split. Qed.
