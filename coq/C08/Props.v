(* C08 — property theorems. *)
From Coq Require Import ZArith List Bool Lia Permutation Sorted.
From IBL.lib Require Import PyInt.
From IBL.C08 Require Import Model Proofs.
Import ListNotations.
Open Scope Z_scope.

Theorem C08_adc_loop_is_table : forall g,
  adc_shifts g NC = Some (map (shift_closed g) (zrange NC), map (adc_of g) (zrange NC)).
Proof. exact adc_loop_closed. Qed.
Print Assumptions C08_adc_loop_is_table.
