(* C08 — executable model of the map tokeniser of spikeglx._map_channels_from_meta:
     chmap = re.findall(PATTERN, text)       PATTERN = four maximal runs of [0-9], possibly empty, separated by three COLONs
     chmap = np.array([np.float32(cm.split(COLON)) for cm in chmap])
   Characters are their ASCII codes.  Definitions only (proofs: ScanProofs.v).
   The regex is deterministic: each [0-9]* takes the maximal digit run (a shorter run is
   followed by a digit, never by ':'), a failed attempt restarts one character later, a
   successful one (never empty: it contains three ':') continues after the match. *)
From Coq Require Import ZArith List Bool.
From IBL.C08 Require Import Model.
Import ListNotations.
Open Scope Z_scope.

Definition is_digit (c : Z) : bool := (48 <=? c) && (c <=? 57).
Definition COLON : Z := 58.

Fixpoint span_digits (l : list Z) : list Z * list Z :=
  match l with
  | c :: r => if is_digit c then let '(d, r') := span_digits r in (c :: d, r') else ([], l)
  | [] => ([], [])
  end.

Definition fields : Type := (list Z * list Z * list Z * list Z)%type.

(* the pattern anchored at the head of l: Some (four digit strings, remaining text) *)
Definition match_here (l : list Z) : option (fields * list Z) :=
  let '(d1, r1) := span_digits l in
  match r1 with
  | c1 :: r1' =>
      if c1 =? COLON then
        let '(d2, r2) := span_digits r1' in
        match r2 with
        | c2 :: r2' =>
            if c2 =? COLON then
              let '(d3, r3) := span_digits r2' in
              match r3 with
              | c3 :: r3' =>
                  if c3 =? COLON then
                    let '(d4, r4) := span_digits r3' in Some ((d1, d2, d3, d4), r4)
                  else None
              | [] => None
              end
            else None
        | [] => None
        end
      else None
  | [] => None
  end.

(* re.findall; fuel = number of characters + 1 (every step consumes at least one) *)
Fixpoint findall (fuel : nat) (l : list Z) : list fields :=
  match fuel with
  | O => []
  | S f =>
      match match_here l with
      | Some (m, rest) => m :: findall f rest
      | None => match l with [] => [] | _ :: r => findall f r end
      end
  end.

(* np.float32 of a digit string: the decimal value; the empty string -> ValueError (None) *)
Definition digits_val (l : list Z) : Z := fold_left (fun acc c => acc * 10 + (c - 48)) l 0.
Definition field_val (l : list Z) : option Z := match l with [] => None | _ => Some (digits_val l) end.
Definition to_site (m : fields) : option site :=
  let '(a, b, c, d) := m in
  match field_val a, field_val b, field_val c, field_val d with
  | Some s, Some x, Some y, Some f => Some (s, x, y, f)
  | _, _, _, _ => None
  end.

(* _map_channels_from_meta on the value of snsShankMap / snsGeomMap:
   None = ValueError; Some [] = "key exists but holds no entry" (all-None dictionary) *)
Definition parse_map (text : list Z) : option (list site) :=
  map_opt to_site (findall (S (length text)) text).

(* ---- printer of SpikeGLX map syntax ---- *)
Fixpoint dec_fuel (fuel : nat) (n : Z) : list Z :=
  match fuel with
  | O => [48 + n]
  | S f => if n <? 10 then [48 + n] else dec_fuel f (n / 10) ++ [48 + n mod 10]
  end.
Definition dec (n : Z) : list Z := dec_fuel 20 n.             (* 0 <= n < 10^20 *)
Definition print_entry (s : site) : list Z :=
  let '(sh, a, b, f) := s in
  [40] ++ dec sh ++ [COLON] ++ dec a ++ [COLON] ++ dec b ++ [COLON] ++ dec f ++ [41].
Definition print_map (header : list Z) (sites : list site) : list Z :=
  header ++ flat_map print_entry sites.
