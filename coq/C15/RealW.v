(* C15 — the real-number weight exp(-(d/20)^1.3) crosses the float64 constant 0.005 between the squared
   distances 5201 and 5202 (Coq reals + coq-interval), and R is an ordered field in the sense of Props.v. *)
From Coq Require Import Reals ZArith Lia Lra Bool.
From Interval Require Import Tactic.
From IBL.C15 Require Import Model.
Open Scope R_scope.

(* (sqrt n / 20) ** 1.3 for n > 0, as NumPy's power on positive floats: exp(1.3 ln x) *)
Definition gpow (n : Z) : R := exp (13 / 10 * ln (sqrt (IZR n) / 20)).
(* the raw weight at squared distance n; 0 ** 1.3 = 0, exp(-0) = 1 *)
Definition wreal (n : Z) : R := if (n =? 0)%Z then 1 else exp (- gpow n).
(* the float64 constant 0.005 = 5764607523034235 / 2^60 *)
Definition thr_real : R := 5764607523034235 / 1152921504606846976.

Lemma exp_le a b : a <= b -> exp a <= exp b.
Proof. intros [H| ->]; [left; now apply exp_increasing | right; reflexivity]. Qed.

Lemma gpow_mono a b : (0 < a <= b)%Z -> gpow a <= gpow b.
Proof.
  intros [Ha Hab]. unfold gpow. apply exp_le. apply Rmult_le_compat_l; [lra|].
  assert (H0 : 0 < IZR a) by (apply IZR_lt; exact Ha).
  assert (H1 : IZR a <= IZR b) by (apply IZR_le; exact Hab).
  assert (Hs : 0 < sqrt (IZR a)) by (apply sqrt_lt_R0; exact H0).
  assert (Hle : sqrt (IZR a) <= sqrt (IZR b)) by (apply sqrt_le_1; lra).
  destruct (Rle_lt_or_eq_dec _ _ Hle) as [Hlt|Heq].
  - left. apply ln_increasing; [lra|lra].
  - right. now rewrite Heq.
Qed.

Lemma w_5201 : thr_real < exp (- exp (13 / 10 * ln (sqrt 5201 / 20))).
Proof. unfold thr_real. interval with (i_prec 60). Qed.
Lemma w_5202 : exp (- exp (13 / 10 * ln (sqrt 5202 / 20))) < thr_real.
Proof. unfold thr_real. interval with (i_prec 60). Qed.

Lemma wreal_pos n : 0 < wreal n.
Proof. unfold wreal. destruct (n =? 0)%Z; [lra | apply exp_pos]. Qed.

Lemma thr_real_pos : 0 < thr_real.
Proof. unfold thr_real. lra. Qed.

Lemma wreal_cut n : (0 <= n)%Z -> (wreal n < thr_real <-> (R2 < n)%Z).
Proof.
  intros Hn. unfold R2. split.
  - intros Hlt. destruct (Z_le_gt_dec n 5201) as [Hle|]; [|lia]. exfalso.
    unfold wreal in Hlt. destruct (n =? 0)%Z eqn:E.
    + unfold thr_real in Hlt. lra.
    + apply Z.eqb_neq in E. pose proof (gpow_mono n 5201 ltac:(lia)) as Hm.
      assert (exp (- gpow 5201) <= exp (- gpow n)) by (apply exp_le; lra).
      pose proof w_5201 as Hw. unfold gpow in *. lra.
  - intros Hgt. unfold wreal. destruct (n =? 0)%Z eqn:E; [apply Z.eqb_eq in E; lia|].
    pose proof (gpow_mono 5202 n ltac:(lia)) as Hm.
    assert (exp (- gpow n) <= exp (- gpow 5202)) by (apply exp_le; lra).
    pose proof w_5202 as Hw. unfold gpow in *. lra.
Qed.

(* R as an instance of `ops` (the comparison is decided classically; this instance is for theorems only) *)
Definition Rltb (a b : R) : bool := if Rlt_dec a b then true else false.
Definition ROps : ops R := Ops R 0 1 Rplus Rmult Rminus Ropp Rdiv Rinv Rltb.

Lemma Rltb_true a b : Rltb a b = true <-> a < b.
Proof. unfold Rltb. destruct (Rlt_dec a b); split; auto; discriminate. Qed.
Lemma Rltb_false a b : Rltb a b = false <-> b <= a.
Proof. unfold Rltb. destruct (Rlt_dec a b); split; intros; try discriminate; try lra; auto. Qed.
