(* C15 — lemmas.  Public theorems are restated in Props.v. *)
From Coq Require Import ZArith List Bool Lia Field.
From IBL.C15 Require Import Model.
Import ListNotations.
Open Scope Z_scope.

(* ---------------------------------------------------------------------- *)
(* list helpers                                                            *)
Lemma set_nth_length {A} (l : list A) n v : length (set_nth n v l) = length l.
Proof.
  revert n; induction l as [|a l IH]; intros [|n]; cbn; auto.
Qed.

Lemma nth_set_nth_neq {A} (l : list A) i j v d : i <> j -> nth i (set_nth j v l) d = nth i l d.
Proof.
  revert i j; induction l as [|a l IH]; intros [|i] [|j] H; cbn; auto; try congruence.
Qed.

Lemma nth_set_nth_eq {A} (l : list A) j v d : (j < length l)%nat -> nth j (set_nth j v l) d = v.
Proof.
  revert j; induction l as [|a l IH]; intros [|j] H; cbn in *; auto; try lia. apply IH; lia.
Qed.

Lemma in_bad_positions_from k labels p :
  In p (bad_positions_from k labels) <->
  (k <= p < k + length labels)%nat /\ is_bad (nth (p - k) labels 0) = true.
Proof.
  revert k; induction labels as [|l r IH]; intros k; cbn [bad_positions_from length].
  - split; [intros []|intros [H _]; lia].
  - rewrite in_app_iff, IH. split.
    + intros [H|[H1 H2]].
      * destruct (is_bad l) eqn:E; [|destruct H]. destruct H as [<-|[]].
        split; [lia|]. now replace (k - k)%nat with O by lia.
      * split; [lia|]. replace (p - k)%nat with (S (p - S k)) by lia. exact H2.
    + intros [H1 H2]. destruct (Nat.eq_dec p k) as [->|Hne].
      * left. replace (k - k)%nat with O in H2 by lia. cbn in H2. rewrite H2. now left.
      * right. split; [lia|]. replace (p - k)%nat with (S (p - S k)) in H2 by lia. exact H2.
Qed.

Lemma in_bad_positions labels p :
  In p (bad_positions labels) <-> (p < length labels)%nat /\ is_bad (nth p labels 0) = true.
Proof.
  unfold bad_positions. rewrite in_bad_positions_from. replace (p - 0)%nat with p by lia.
  split; intros [H1 H2]; split; auto; lia.
Qed.

Lemma bad_positions_from_NoDup k labels : NoDup (bad_positions_from k labels).
Proof.
  revert k; induction labels as [|l r IH]; intros k; cbn; [constructor|].
  destruct (is_bad l); cbn; [|apply IH].
  constructor; [|apply IH]. rewrite in_bad_positions_from. lia.
Qed.

(* ---------------------------------------------------------------------- *)
(* Channels that are not dead/noisy are returned identical — no assumption
   on the numbers, the weights, or the shapes.                              *)
Section Untouched.
Context {F : Type} (O : ops F).

Lemma fold_untouched thr (W : nat -> list F) labels ps : forall (d : list (list F)) i,
  ~ In i ps ->
  nth i (fold_left (fun d p => set_nth p (repair_row O thr labels (W p) d p) d) ps d) [] = nth i d [].
Proof.
  induction ps as [|p ps IH]; intros d i Hi; cbn; [reflexivity|].
  rewrite IH by (intros H; apply Hi; now right).
  apply nth_set_nth_neq. intros ->. apply Hi. now left.
Qed.

Lemma good_untouched thr W labels (data : list (list F)) i :
  is_bad (nth i labels 0) = false ->
  nth i (interpolate O thr W labels data) [] = nth i data [].
Proof.
  intros Hg. unfold interpolate. apply fold_untouched.
  rewrite in_bad_positions. intros [_ H]. congruence.
Qed.

Lemma interpolate_length thr W labels (data : list (list F)) :
  length (interpolate O thr W labels data) = length data.
Proof.
  unfold interpolate. generalize (bad_positions labels) as ps. intros ps; revert data.
  induction ps as [|p ps IH]; intros d; cbn; [reflexivity|]. rewrite IH. apply set_nth_length.
Qed.
End Untouched.
