(* C15 — lemmas.  Public theorems are restated in Props.v. *)
From Coq Require Import ZArith List Bool Lia Field.
From IBL.C15 Require Import Model.
Import ListNotations.
Open Scope Z_scope.

(* ---------------------------------------------------------------------- *)
(* list helpers                                                            *)
Lemma set_nth_length {A} (l : list A) n v : length (set_nth n v l) = length l.
Proof.
  revert n; induction l as [|a l IH]; intros [|n]; cbn; auto.
Qed.

Lemma nth_set_nth_neq {A} (l : list A) i j v d : i <> j -> nth i (set_nth j v l) d = nth i l d.
Proof.
  revert i j; induction l as [|a l IH]; intros [|i] [|j] H; cbn; auto; try congruence.
Qed.

Lemma nth_set_nth_eq {A} (l : list A) j v d : (j < length l)%nat -> nth j (set_nth j v l) d = v.
Proof.
  revert j; induction l as [|a l IH]; intros [|j] H; cbn in *; auto; try lia. apply IH; lia.
Qed.

Lemma in_bad_positions_from k labels p :
  In p (bad_positions_from k labels) <->
  (k <= p < k + length labels)%nat /\ is_bad (nth (p - k) labels 0) = true.
Proof.
  revert k; induction labels as [|l r IH]; intros k; cbn [bad_positions_from length].
  - split; [intros []|intros [H _]; lia].
  - rewrite in_app_iff, IH. split.
    + intros [H|[H1 H2]].
      * destruct (is_bad l) eqn:E; [|destruct H]. destruct H as [<-|[]].
        split; [lia|]. now replace (k - k)%nat with O by lia.
      * split; [lia|]. replace (p - k)%nat with (S (p - S k)) by lia. exact H2.
    + intros [H1 H2]. destruct (Nat.eq_dec p k) as [->|Hne].
      * left. replace (k - k)%nat with O in H2 by lia. cbn in H2. rewrite H2. now left.
      * right. split; [lia|]. replace (p - k)%nat with (S (p - S k)) in H2 by lia. exact H2.
Qed.

Lemma in_bad_positions labels p :
  In p (bad_positions labels) <-> (p < length labels)%nat /\ is_bad (nth p labels 0) = true.
Proof.
  unfold bad_positions. rewrite in_bad_positions_from. replace (p - 0)%nat with p by lia.
  split; intros [H1 H2]; split; auto; lia.
Qed.

Lemma bad_positions_from_NoDup k labels : NoDup (bad_positions_from k labels).
Proof.
  revert k; induction labels as [|l r IH]; intros k; cbn; [constructor|].
  destruct (is_bad l); cbn; [|apply IH].
  constructor; [|apply IH]. rewrite in_bad_positions_from. lia.
Qed.

(* ---------------------------------------------------------------------- *)
(* Channels that are not dead/noisy are returned identical — no assumption
   on the numbers, the weights, or the shapes.                              *)
Section Untouched.
Context {F : Type} (O : ops F).

Lemma fold_untouched thr (W : nat -> list F) labels ps : forall (d : list (list F)) i,
  ~ In i ps ->
  nth i (fold_left (fun d p => set_nth p (repair_row O thr labels (W p) d p) d) ps d) [] = nth i d [].
Proof.
  induction ps as [|p ps IH]; intros d i Hi; cbn; [reflexivity|].
  rewrite IH by (intros H; apply Hi; now right).
  apply nth_set_nth_neq. intros ->. apply Hi. now left.
Qed.

Lemma good_untouched thr W labels (data : list (list F)) i :
  is_bad (nth i labels 0) = false ->
  nth i (interpolate O thr W labels data) [] = nth i data [].
Proof.
  intros Hg. unfold interpolate. apply fold_untouched.
  rewrite in_bad_positions. intros [_ H]. congruence.
Qed.

Lemma interpolate_length thr W labels (data : list (list F)) :
  length (interpolate O thr W labels data) = length data.
Proof.
  unfold interpolate. generalize (bad_positions labels) as ps. intros ps; revert data.
  induction ps as [|p ps IH]; intros d; cbn; [reflexivity|]. rewrite IH. apply set_nth_length.
Qed.
End Untouched.

(* ---------------------------------------------------------------------- *)
(* Ordered field: the repaired rows                                         *)
Section OrderedField.
Variable F : Type.
Variable O : ops F.
Local Notation zero := (f0 O).
Local Notation one := (f1 O).
Local Infix "+f" := (fadd O) (at level 50, left associativity).
Local Infix "*f" := (fmul O) (at level 40, left associativity).
Local Infix "/f" := (fdiv O) (at level 40, left associativity).
Local Notation "a <f b" := (fltb O a b = true) (at level 70).
Local Notation "a <=f b" := (fltb O b a = false) (at level 70).

Hypothesis Fth : field_theory zero one (fadd O) (fmul O) (fsub O) (fopp O) (fdiv O) (finv O) eq.
Add Field Ffield : Fth.
Hypothesis lt_irrefl : forall a, fltb O a a = false.
Hypothesis lt_trans : forall a b c, a <f b -> b <f c -> a <f c.
Hypothesis lt_total : forall a b, a <f b \/ a = b \/ b <f a.
Hypothesis lt_add : forall a b c, a <f b -> (a +f c) <f (b +f c).
Hypothesis lt_mul : forall a b, zero <f a -> zero <f b -> zero <f (a *f b).
Set Default Proof Using "Fth lt_irrefl lt_trans lt_total lt_add lt_mul".

Lemma le_refl a : a <=f a.
Proof. apply lt_irrefl. Qed.

Lemma lt_asym a b : a <f b -> b <f a -> False.
Proof. intros H1 H2. pose proof (lt_trans _ _ _ H1 H2) as H. rewrite lt_irrefl in H. discriminate. Qed.

Lemma lt_neq a b : a <f b -> a <> b.
Proof. intros H ->. rewrite lt_irrefl in H. discriminate. Qed.

Lemma le_cases a b : a <=f b <-> (a <f b \/ a = b).
Proof.
  split.
  - intros H. destruct (lt_total a b) as [H1|[H1|H1]]; auto. congruence.
  - intros [H| ->]; [|apply le_refl].
    destruct (fltb O b a) eqn:E; auto. exfalso. eapply lt_asym; eauto.
Qed.

Lemma lt_le a b : a <f b -> a <=f b.
Proof. intros H. apply le_cases. now left. Qed.

Lemma le_trans a b c : a <=f b -> b <=f c -> a <=f c.
Proof.
  rewrite !le_cases. intros [H1| ->] [H2| ->]; auto. left. eapply lt_trans; eauto.
Qed.

Lemma lt_le_trans' a b c : a <f b -> b <=f c -> a <f c.
Proof. intros H1. rewrite le_cases. intros [H2| <-]; auto. eapply lt_trans; eauto. Qed.

Lemma le_lt_trans a b c : a <=f b -> b <f c -> a <f c.
Proof. rewrite le_cases. intros [H1| ->] H2; auto. eapply lt_trans; eauto. Qed.

Lemma le_add a b c : a <=f b -> (a +f c) <=f (b +f c).
Proof.
  intros H. destruct (fltb O (b +f c) (a +f c)) eqn:E; auto. exfalso.
  pose proof (lt_add _ _ (fopp O c) E) as H1.
  replace (b +f c +f fopp O c) with b in H1 by ring.
  replace (a +f c +f fopp O c) with a in H1 by ring. congruence.
Qed.

Lemma nonneg_add a b : zero <=f a -> zero <=f b -> zero <=f (a +f b).
Proof.
  intros Ha Hb. apply le_trans with b; auto.
  pose proof (le_add _ _ b Ha) as H. now replace (zero +f b) with b in H by ring.
Qed.

Lemma nonneg_mul a b : zero <=f a -> zero <=f b -> zero <=f (a *f b).
Proof.
  rewrite (le_cases zero a), (le_cases zero b). intros [Ha|Ha] [Hb|Hb].
  - apply lt_le. now apply lt_mul.
  - subst b. replace (a *f zero) with zero by ring. apply le_refl.
  - subst a. replace (zero *f b) with zero by ring. apply le_refl.
  - subst a. replace (zero *f b) with zero by ring. apply le_refl.
Qed.

Lemma zero_lt_one : zero <f one.
Proof.
  destruct (lt_total zero one) as [H|[H|H]]; auto.
  - exfalso. apply (F_1_neq_0 Fth). auto.
  - exfalso. pose proof (lt_add _ _ (fopp O one) H) as H1.
    replace (one +f fopp O one) with zero in H1 by ring.
    replace (zero +f fopp O one) with (fopp O one) in H1 by ring.
    pose proof (lt_mul _ _ H1 H1) as H2.
    replace (fopp O one *f fopp O one) with one in H2 by ring.
    eapply lt_asym; eauto.
Qed.

Lemma inv_pos s : zero <f s -> zero <f finv O s.
Proof.
  intros Hs. assert (Hne : s <> zero) by (intros ->; rewrite lt_irrefl in Hs; discriminate).
  destruct (lt_total zero (finv O s)) as [H|[H|H]]; auto; exfalso.
  - assert (E : one = s *f finv O s) by (field; auto).
    rewrite <- H in E. replace (s *f zero) with zero in E by ring.
    apply (F_1_neq_0 Fth). auto.
  - pose proof (lt_add _ _ (fopp O (finv O s)) H) as H1.
    replace (finv O s +f fopp O (finv O s)) with zero in H1 by ring.
    replace (zero +f fopp O (finv O s)) with (fopp O (finv O s)) in H1 by ring.
    pose proof (lt_mul _ _ Hs H1) as H2.
    replace (s *f fopp O (finv O s)) with (fopp O one) in H2 by (field; auto).
    pose proof (lt_add _ _ one H2) as H3.
    replace (zero +f one) with one in H3 by ring.
    replace (fopp O one +f one) with zero in H3 by ring.
    eapply lt_asym; [exact zero_lt_one | exact H3].
Qed.

Lemma div_nonneg v s : zero <=f v -> zero <f s -> zero <=f (v /f s).
Proof.
  intros Hv Hs. assert (Hne : s <> zero) by (intros ->; rewrite lt_irrefl in Hs; discriminate).
  replace (v /f s) with (v *f finv O s) by (field; auto).
  apply nonneg_mul; auto. apply lt_le, inv_pos, Hs.
Qed.

Lemma mul_le_mono w a b : zero <=f w -> a <=f b -> (w *f a) <=f (w *f b).
Proof.
  intros Hw Hab.
  assert (H : zero <=f (b +f fopp O a)).
  { pose proof (le_add _ _ (fopp O a) Hab) as H. now replace (a +f fopp O a) with zero in H by ring. }
  pose proof (nonneg_mul _ _ Hw H) as H1.
  pose proof (le_add _ _ (w *f a) H1) as H2.
  replace (zero +f w *f a) with (w *f a) in H2 by ring.
  now replace (w *f (b +f fopp O a) +f w *f a) with (w *f b) in H2 by ring.
Qed.

Lemma add_le_mono a b c d : a <=f b -> c <=f d -> (a +f c) <=f (b +f d).
Proof.
  intros H1 H2. apply le_trans with (b +f c); [now apply le_add|].
  pose proof (le_add _ _ b H2) as H. 
  replace (c +f b) with (b +f c) in H by ring. now replace (d +f b) with (b +f d) in H by ring.
Qed.

(* sums *)
Lemma fsum_nonneg l : (forall v, In v l -> zero <=f v) -> zero <=f fsum O l.
Proof.
  unfold fsum. induction l as [|a l IH]; intros H; cbn [fold_right]; [apply le_refl|].
  apply nonneg_add; [apply H; now left | apply IH; intros; apply H; now right].
Qed.

Lemma fsum_map_div s l : s <> zero ->
  fsum O (map (fun v => v /f s) l) = fsum O l /f s.
Proof.
  intros Hs. unfold fsum. induction l as [|a l IH]; cbn [map fold_right]; [field; auto|].
  rewrite IH. field; auto.
Qed.

Lemma fsum_app a b : fsum O (a ++ b) = fsum O a +f fsum O b.
Proof. unfold fsum. induction a as [|x a IH]; cbn [app fold_right]; [ring|]. rewrite IH. ring. Qed.

(* weighted sums: sum_p snd p * f (fst p) *)
Definition dot (f : nat -> F) (srcs : list (nat * F)) : F :=
  fsum O (map (fun p => snd p *f f (fst p)) srcs).

Lemma dot_lower f srcs lo :
  (forall p, In p srcs -> zero <=f snd p /\ lo <=f f (fst p)) ->
  (lo *f fsum O (map snd srcs)) <=f dot f srcs.
Proof.
  unfold dot, fsum. induction srcs as [|p l IH]; intros H; cbn [map fold_right].
  - replace (lo *f zero) with zero by ring. apply le_refl.
  - destruct (H p (or_introl eq_refl)) as [Hw Hx].
    match goal with |- fltb O _ (lo *f (snd p +f ?S)) = false => replace (lo *f (snd p +f S)) with (snd p *f lo +f lo *f S) by ring end.
    apply add_le_mono; [now apply mul_le_mono | apply IH; intros; apply H; now right].
Qed.

Lemma dot_upper f srcs hi :
  (forall p, In p srcs -> zero <=f snd p /\ f (fst p) <=f hi) ->
  dot f srcs <=f (hi *f fsum O (map snd srcs)).
Proof.
  unfold dot, fsum. induction srcs as [|p l IH]; intros H; cbn [map fold_right].
  - replace (hi *f zero) with zero by ring. apply le_refl.
  - destruct (H p (or_introl eq_refl)) as [Hw Hx].
    match goal with |- fltb O (hi *f (snd p +f ?S)) _ = false => replace (hi *f (snd p +f S)) with (snd p *f hi +f hi *f S) by ring end.
    apply add_le_mono; [now apply mul_le_mono | apply IH; intros; apply H; now right].
Qed.


(* --- the retained weights of one bad channel --------------------------- *)
Lemma zero_bad_length labels (w : list F) : length (zero_bad O labels w) = length w.
Proof.
  revert w; induction labels as [|l ls IH]; intros [|v w]; cbn; auto.
Qed.

Lemma zero_bad_nth labels (w : list F) j :
  nth j (zero_bad O labels w) zero = if is_bad (nth j labels 0) then zero else nth j w zero.
Proof.
  revert w j; induction labels as [|l ls IH]; intros w j.
  - cbn [zero_bad]. destruct w; destruct j; reflexivity.
  - destruct w as [|v w].
    + cbn [zero_bad]. destruct j; cbn; now destruct (is_bad _).
    + destruct j as [|j]; cbn [zero_bad nth]; [reflexivity | apply IH].
Qed.

Lemma kept_length thr labels (w : list F) : length (kept_weights O thr labels w) = length w.
Proof. unfold kept_weights, zero_small. now rewrite map_length, zero_bad_length. Qed.

Lemma kept_nth thr labels (w : list F) j :
  nth j (kept_weights O thr labels w) zero =
  if is_bad (nth j labels 0) then zero
  else if fltb O (nth j w zero) thr then zero else nth j w zero.
Proof.
  unfold kept_weights, zero_small.
  set (g := fun v : F => if fltb O v thr then zero else v).
  assert (Hg : g zero = zero) by (unfold g; now destruct (fltb O zero thr)).
  rewrite <- Hg at 1. rewrite map_nth, zero_bad_nth.
  destruct (is_bad (nth j labels 0)); [exact Hg | reflexivity].
Qed.

Lemma kept_nonneg thr labels (w : list F) :
  (forall v, In v w -> zero <=f v) ->
  forall v, In v (kept_weights O thr labels w) -> zero <=f v.
Proof.
  intros Hw v Hv. destruct (In_nth _ _ zero Hv) as [j [Hj <-]].
  rewrite kept_length in Hj. rewrite kept_nth.
  destruct (is_bad _); [apply le_refl|]. destruct (fltb O (nth j w zero) thr); [apply le_refl|].
  apply Hw, nth_In, Hj.
Qed.

Lemma in_combine_seq {A} (l : list A) d : forall a j v,
  In (j, v) (combine (seq a (length l)) l) <-> (a <= j < a + length l)%nat /\ nth (j - a) l d = v.
Proof.
  induction l as [|x l IH]; intros a j v; cbn [length seq combine In].
  - split; [intros [] | intros [H _]; lia].
  - rewrite IH. split.
    + intros [H|[H1 H2]].
      * inversion H; subst. split; [lia|]. now replace (j - j)%nat with 0%nat by lia.
      * split; [lia|]. replace (j - a)%nat with (S (j - S a)) by lia. exact H2.
    + intros [H1 H2]. destruct (Nat.eq_dec j a) as [->|Hne].
      * left. replace (a - a)%nat with 0%nat in H2 by lia. cbn in H2. now subst.
      * right. split; [lia|]. replace (j - a)%nat with (S (j - S a)) in H2 by lia. exact H2.
Qed.

Lemma map_snd_combine_seq {A} (l : list A) a : map snd (combine (seq a (length l)) l) = l.
Proof. revert a; induction l as [|x l IH]; intros a; cbn; [reflexivity|]. now rewrite IH. Qed.

(* dropping the entries that are not > 0 does not change a sum of non-negative numbers *)
Lemma fsum_filter_pos (L : list (nat * F)) :
  (forall p, In p L -> zero <=f snd p) ->
  fsum O (map snd (filter (fun p => fltb O zero (snd p)) L)) = fsum O (map snd L).
Proof.
  unfold fsum. induction L as [|p L IH]; intros H; cbn [filter map fold_right]; [reflexivity|].
  pose proof (H p (or_introl eq_refl)) as Hp.
  assert (IH' := IH (fun q Hq => H q (or_intror Hq))).
  destruct (fltb O zero (snd p)) eqn:E; cbn [map fold_right]; rewrite IH'; [reflexivity|].
  apply le_cases in Hp. destruct Hp as [Hp|Hp]; [congruence|]. rewrite <- Hp. ring.
Qed.

Lemma fnonzero_spec s : fnonzero O s = true <-> s <> zero.
Proof.
  unfold fnonzero. rewrite orb_true_iff. split.
  - intros [H|H] ->; rewrite lt_irrefl in H; discriminate.
  - intros H. destruct (lt_total zero s) as [H1|[H1|H1]]; auto; congruence.
Qed.

(* everything the code uses as a source *)
Lemma sources_spec thr labels (w : list F) :
  (forall v, In v w -> zero <=f v) ->
  let S := sources O thr labels w in
  (forall j wj, In (j, wj) S ->
      (j < length w)%nat /\ is_bad (nth j labels 0) = false /\ zero <f wj /\
      fltb O (nth j w zero) thr = false /\
      wj = nth j w zero /f fsum O (kept_weights O thr labels w)) /\
  (S <> [] -> fsum O (map snd S) = one) /\
  (S = [] <-> fsum O (kept_weights O thr labels w) = zero).
Proof.
  intros Hw S. subst S. unfold sources.
  set (k := kept_weights O thr labels w). set (s := fsum O k).
  assert (Hk : forall v, In v k -> zero <=f v) by (apply kept_nonneg; auto).
  assert (Hs0 : zero <=f s) by (apply fsum_nonneg; auto).
  destruct (fnonzero O s) eqn:Hnz.
  - apply fnonzero_spec in Hnz.
    assert (Hsp : zero <f s) by (apply le_cases in Hs0; destruct Hs0; [auto|congruence]).
    set (L := combine (seq 0 (length k)) (map (fun v => v /f s) k)).
    assert (HL : forall p, In p L -> zero <=f snd p).
    { intros [j v] Hp. unfold L in Hp. apply in_combine_r in Hp. apply in_map_iff in Hp.
      destruct Hp as [u [<- Hu]]. cbn. apply div_nonneg; auto. }
    assert (Hsum : fsum O (map snd (filter (fun p => fltb O zero (snd p)) L)) = one).
    { rewrite fsum_filter_pos by exact HL. unfold L.
      rewrite <- (map_length (fun v => v /f s) k), map_snd_combine_seq, fsum_map_div by exact Hnz.
      fold s. field. exact Hnz. }
    split; [|split].
    + intros j wj Hin. apply filter_In in Hin. destruct Hin as [Hin Hpos]. cbn in Hpos.
      unfold L in Hin. rewrite <- (map_length (fun v => v /f s) k) in Hin.
      apply (in_combine_seq _ zero) in Hin. rewrite map_length in Hin.
      destruct Hin as [Hj Hv]. replace (j - 0)%nat with j in Hv by lia.
      unfold k in Hj. rewrite kept_length in Hj.
      assert (Hv' : wj = nth j k zero /f s).
      { rewrite <- Hv. replace zero with (zero /f s) at 1 by (field; exact Hnz).
        now rewrite (map_nth (fun v => v /f s)). }
      unfold k in Hv'. rewrite kept_nth in Hv'.
      assert (Hz : zero /f s = zero) by (field; exact Hnz).
      split; [lia|]. destruct (is_bad (nth j labels 0)).
      { exfalso. rewrite Hv', Hz, lt_irrefl in Hpos. discriminate. }
      destruct (fltb O (nth j w zero) thr).
      { exfalso. rewrite Hv', Hz, lt_irrefl in Hpos. discriminate. }
      repeat split; auto.
    + intros _. exact Hsum.
    + split.
      * intros E. exfalso. fold L in E. rewrite E in Hsum. cbn in Hsum.
        apply (F_1_neq_0 Fth). auto.
      * intros E. fold s in E. congruence.
  - split; [|split].
    + intros j wj [].
    + intros H. congruence.
    + split; [|reflexivity]. intros _.
      destruct (lt_total zero s) as [H1|[H1|H1]]; auto; unfold fnonzero in Hnz;
        rewrite H1 in Hnz; cbn in Hnz; try discriminate.
      rewrite orb_true_r in Hnz. discriminate.
Qed.

(* --- the linear combination ------------------------------------------- *)
Lemma map2_length {A B C} (g : A -> B -> C) a b : length (map2 g a b) = Nat.min (length a) (length b).
Proof. revert b; induction a as [|x a IH]; intros [|y b]; cbn; auto. Qed.

Lemma map2_nth {A B C} (g : A -> B -> C) a b t da db dc :
  (t < length a)%nat -> (t < length b)%nat ->
  nth t (map2 g a b) dc = g (nth t a da) (nth t b db).
Proof.
  revert b t; induction a as [|x a IH]; intros [|y b] [|t] Ha Hb; cbn in *; try lia; auto.
  apply IH; lia.
Qed.

Lemma lincomb_fold_spec (data : list (list F)) ns : forall srcs acc,
  length acc = ns ->
  (forall p, In p srcs -> length (nth (fst p) data []) = ns) ->
  let r := fold_left (fun acc p => vaxpy O (snd p) (nth (fst p) data []) acc) srcs acc in
  length r = ns /\
  forall t, (t < ns)%nat ->
    nth t r zero = nth t acc zero +f dot (fun j => nth t (nth j data []) zero) srcs.
Proof.
  induction srcs as [|p srcs IH]; intros acc Hacc Hrows; cbn [fold_left].
  - split; [exact Hacc|]. intros t Ht. unfold dot, fsum. cbn. ring.
  - assert (Hp : length (nth (fst p) data []) = ns) by (apply Hrows; now left).
    assert (Hlen : length (vaxpy O (snd p) (nth (fst p) data []) acc) = ns).
    { unfold vaxpy. rewrite map2_length, Hacc, Hp. apply Nat.min_id. }
    destruct (IH _ Hlen (fun q Hq => Hrows q (or_intror Hq))) as [IH1 IH2].
    split; [exact IH1|]. intros t Ht. rewrite (IH2 t Ht).
    unfold vaxpy. rewrite (map2_nth _ _ _ t zero zero zero) by lia.
    unfold dot, fsum. cbn [map fold_right]. ring.
Qed.

Lemma repeat_nth {A} (a : A) n t d : (t < n)%nat -> nth t (repeat a n) d = a.
Proof. revert t; induction n as [|n IH]; intros [|t] H; cbn; try lia; auto. apply IH; lia. Qed.

Lemma lincomb_spec srcs (data : list (list F)) ns :
  (forall p, In p srcs -> length (nth (fst p) data []) = ns) ->
  length (lincomb O srcs data ns) = ns /\
  forall t, (t < ns)%nat ->
    nth t (lincomb O srcs data ns) zero = dot (fun j => nth t (nth j data []) zero) srcs.
Proof.
  intros Hrows. unfold lincomb.
  destruct (lincomb_fold_spec data ns srcs (repeat zero ns) (repeat_length _ _) Hrows) as [H1 H2].
  split; [exact H1|]. intros t Ht. rewrite (H2 t Ht), repeat_nth by exact Ht. ring.
Qed.

Lemma lincomb_ext srcs (d d' : list (list F)) ns :
  (forall p, In p srcs -> nth (fst p) d [] = nth (fst p) d' []) ->
  lincomb O srcs d ns = lincomb O srcs d' ns.
Proof.
  unfold lincomb. generalize (repeat zero ns) as acc.
  induction srcs as [|p srcs IH]; intros acc H; cbn [fold_left]; [reflexivity|].
  rewrite (H p (or_introl eq_refl)). apply IH. intros q Hq. apply H. now right.
Qed.

(* --- the loop: each bad row is computed from the ORIGINAL good rows ------ *)
Section Loop.
Variable thr : F.
Variable W : nat -> list F.
Variable labels : list Z.
Variable data : list (list F).
Hypothesis HW : forall p v, In v (W p) -> zero <=f v.
Set Default Proof Using "Fth lt_irrefl lt_trans lt_total lt_add lt_mul HW".

Lemma repair_row_ext (d : list (list F)) p :
  (forall q, is_bad (nth q labels 0) = false -> nth q d [] = nth q data []) ->
  nth p d [] = nth p data [] ->
  repair_row O thr labels (W p) d p = repair_row O thr labels (W p) data p.
Proof.
  intros Hgood Hp. unfold repair_row. rewrite Hp.
  destruct (sources_spec thr labels (W p) (HW p)) as [Hs _].
  destruct (sources O thr labels (W p)) as [|s0 srcs] eqn:E; [reflexivity|].
  apply lincomb_ext. intros [j wj] Hin. cbn [fst]. apply Hgood.
  destruct (Hs j wj Hin) as [_ [Hb _]]. exact Hb.
Qed.

Lemma fold_spec : forall ps (d : list (list F)),
  NoDup ps ->
  (forall p, In p ps -> (p < length d)%nat) ->
  (forall q, is_bad (nth q labels 0) = false -> nth q d [] = nth q data []) ->
  (forall p, In p ps -> is_bad (nth p labels 0) = true /\ nth p d [] = nth p data []) ->
  forall p, In p ps ->
    nth p (fold_left (fun d p => set_nth p (repair_row O thr labels (W p) d p) d) ps d) [] =
    repair_row O thr labels (W p) data p.
Proof.
  induction ps as [|p0 ps IH]; intros d Hnd Hlen Hgood Hps p Hin; [destruct Hin|].
  cbn [fold_left]. inversion Hnd as [|? ? Hnotin Hnd']; subst.
  destruct (Hps p0 (or_introl eq_refl)) as [Hb0 Hrow0].
  rewrite (repair_row_ext d p0 Hgood Hrow0).
  destruct Hin as [->|Hin].
  - rewrite fold_untouched by exact Hnotin. apply nth_set_nth_eq. apply Hlen. now left.
  - apply IH; auto.
    + intros q Hq. rewrite set_nth_length. apply Hlen. now right.
    + intros q Hq. rewrite nth_set_nth_neq; [now apply Hgood|]. intros ->. congruence.
    + intros q Hq. destruct (Hps q (or_intror Hq)) as [Hbq Hrq]. split; [exact Hbq|].
      rewrite nth_set_nth_neq; [exact Hrq|]. intros ->. contradiction.
Qed.

Lemma interpolate_bad_row p :
  length labels = length data ->
  (p < length data)%nat -> is_bad (nth p labels 0) = true ->
  nth p (interpolate O thr W labels data) [] = repair_row O thr labels (W p) data p.
Proof.
  intros Hl Hp Hb. unfold interpolate. apply fold_spec.
  - apply bad_positions_from_NoDup.
  - intros q Hq. apply in_bad_positions in Hq. lia.
  - auto.
  - intros q Hq. apply in_bad_positions in Hq. now split.
  - apply in_bad_positions. split; [lia | exact Hb].
Qed.
End Loop.
Set Default Proof Using "Fth lt_irrefl lt_trans lt_total lt_add lt_mul".


(* --- the public statement about a repaired row --------------------------- *)
Lemma bad_row_convex thr (W : nat -> list F) labels (data : list (list F)) ns i :
  length labels = length data ->
  (forall p, length (W p) = length data) ->
  (forall p v, In v (W p) -> zero <=f v) ->
  (forall j, (j < length data)%nat -> length (nth j data []) = ns) ->
  (i < length data)%nat -> is_bad (nth i labels 0) = true ->
  let S := sources O thr labels (W i) in
  let out := nth i (interpolate O thr W labels data) [] in
  (forall j w, In (j, w) S ->
     (j < length data)%nat /\ is_bad (nth j labels 0) = false /\ zero <f w /\
     fltb O (nth j (W i) zero) thr = false) /\
  (S <> [] -> fsum O (map snd S) = one) /\
  length out = ns /\
  (forall t, (t < ns)%nat -> nth t out zero = dot (fun j => nth t (nth j data []) zero) S) /\
  (S = [] -> out = repeat zero ns) /\
  (forall t lo hi, (t < ns)%nat -> S <> [] ->
     (forall j w, In (j, w) S -> lo <=f nth t (nth j data []) zero /\ nth t (nth j data []) zero <=f hi) ->
     lo <=f nth t out zero /\ nth t out zero <=f hi).
Proof.
  intros Hl HWl HW Hrect Hi Hb S out.
  destruct (sources_spec thr labels (W i) (HW i)) as [Hs1 [Hs2 Hs3]]. fold S in Hs1, Hs2, Hs3.
  assert (Hout : out = repair_row O thr labels (W i) data i).
  { unfold out. apply interpolate_bad_row; auto. }
  assert (Hsrc : forall j w, In (j, w) S -> (j < length data)%nat /\ is_bad (nth j labels 0) = false /\
                 zero <f w /\ fltb O (nth j (W i) zero) thr = false).
  { intros j w Hin. destruct (Hs1 j w Hin) as [H1 [H2 [H3 [H4 _]]]]. rewrite HWl in H1. auto. }
  assert (Hrows : forall p, In p S -> length (nth (fst p) data []) = ns).
  { intros [j w] Hin. apply Hrect. now destruct (Hsrc j w Hin). }
  destruct (lincomb_spec S data ns Hrows) as [Hlen Hnth].
  assert (Hrep : out = match S with [] => repeat zero ns | p :: l => lincomb O (p :: l) data ns end).
  { rewrite Hout. unfold repair_row. fold S. rewrite (Hrect i Hi). reflexivity. }
  assert (Hdot : forall t, (t < ns)%nat -> nth t out zero = dot (fun j => nth t (nth j data []) zero) S).
  { intros t Ht. rewrite Hrep. destruct S as [|s0 S'] eqn:E.
    - rewrite repeat_nth by exact Ht. reflexivity.
    - apply Hnth, Ht. }
  split; [exact Hsrc|]. split; [exact Hs2|]. split.
  { rewrite Hrep. destruct S; [apply repeat_length | exact Hlen]. }
  split; [exact Hdot|]. split.
  { intros E. rewrite Hrep, E. reflexivity. }
  intros t lo hi Ht Hne Hrange. rewrite (Hdot t Ht). specialize (Hs2 Hne). split.
  - replace lo with (lo *f fsum O (map snd S)) by (rewrite Hs2; ring).
    apply dot_lower. intros [j w] Hin. cbn [fst snd]. split.
    + apply lt_le. now destruct (Hsrc j w Hin) as [_ [_ [H _]]].
    + now destruct (Hrange j w Hin).
  - replace hi with (hi *f fsum O (map snd S)) by (rewrite Hs2; ring).
    apply dot_upper. intros [j w] Hin. cbn [fst snd]. split.
    + apply lt_le. now destruct (Hsrc j w Hin) as [_ [_ [H _]]].
    + now destruct (Hrange j w Hin).
Qed.

(* a bad channel has no source exactly when every channel is dead/noisy or has a raw weight < thr
   (for thr > 0); then its row is zero *)
Lemma no_source_iff thr labels (w : list F) :
  (forall v, In v w -> zero <=f v) -> zero <f thr ->
  (sources O thr labels w = [] <->
   forall j, (j < length w)%nat -> is_bad (nth j labels 0) = true \/ nth j w zero <f thr).
Proof.
  intros Hw Hthr. destruct (sources_spec thr labels w Hw) as [_ [_ Hs3]]. rewrite Hs3. clear Hs3.
  set (k := kept_weights O thr labels w).
  assert (Hk : forall v, In v k -> zero <=f v) by (apply kept_nonneg; auto).
  split.
  - intros Hsum j Hj.
    destruct (is_bad (nth j labels 0)) eqn:Eb; [now left|]. right.
    destruct (fltb O (nth j w zero) thr) eqn:Et; [reflexivity|]. exfalso.
    (* the kept weight at j is >= thr > 0, so the sum is > 0 *)
    assert (Hkj : nth j k zero = nth j w zero) by (unfold k; rewrite kept_nth, Eb, Et; reflexivity).
    assert (Hpos : zero <f nth j k zero) by (rewrite Hkj; eapply lt_le_trans'; eauto).
    assert (Hjk : (j < length k)%nat) by (unfold k; rewrite kept_length; exact Hj).
    destruct (nth_split k zero Hjk) as [l1 [l2 [Esplit _]]].
    rewrite Esplit, fsum_app in Hsum. unfold fsum in Hsum at 2. cbn [fold_right] in Hsum. fold (fsum O l2) in Hsum.
    assert (H1 : zero <=f fsum O l1).
    { apply fsum_nonneg. intros v Hv. apply Hk. rewrite Esplit. apply in_or_app. now left. }
    assert (H2 : zero <=f fsum O l2).
    { apply fsum_nonneg. intros v Hv. apply Hk. rewrite Esplit. apply in_or_app. right. now right. }
    assert (H3 : zero <=f (fsum O l1 +f fsum O l2)) by (apply nonneg_add; auto).
    pose proof (le_add _ _ (nth j k zero) H3) as H4.
    replace (zero +f nth j k zero) with (nth j k zero) in H4 by ring.
    assert (E0 : fsum O l1 +f fsum O l2 +f nth j k zero = zero) by (etransitivity; [|exact Hsum]; ring).
    rewrite E0 in H4.
    congruence.
  - intros Hall. unfold fsum.
    assert (Hz : forall v, In v k -> v = zero).
    { intros v Hv. destruct (In_nth _ _ zero Hv) as [j [Hj <-]]. unfold k in Hj. rewrite kept_length in Hj.
      unfold k. rewrite kept_nth. destruct (Hall j Hj) as [H|H]; rewrite H; [reflexivity|].
      now destruct (is_bad _). }
    clear Hk. clearbody k. induction k as [|a k IH]; cbn [fold_right]; [reflexivity|].
    rewrite IH by (intros; apply Hz; now right). rewrite (Hz a) by now left. ring.
Qed.

End OrderedField.
Unset Default Proof Using.

(* ---------------------------------------------------------------------- *)
(* The recommendation block of detect_bad_channels                          *)

Fixpoint sorted_gt (lo : Z) (l : list Z) : Prop :=
  match l with [] => True | a :: r => lo < a /\ sorted_gt a r end.

Lemma sorted_gt_all lo l : sorted_gt lo l -> forall e, In e l -> lo < e.
Proof.
  revert lo; induction l as [|a r IH]; intros lo H e He; [destruct He|].
  destruct H as [H1 H2]. destruct He as [<-|He]; [exact H1|]. specialize (IH a H2 e He). lia.
Qed.

Lemma sorted_gt_weaken lo lo' l : lo' <= lo -> sorted_gt lo l -> sorted_gt lo' l.
Proof. destruct l; cbn; [auto|]. intros H [H1 H2]. split; [lia|auto]. Qed.

Lemma last_cons_cons {A} (a b : A) r d : last (a :: b :: r) d = last (b :: r) d.
Proof. reflexivity. Qed.

Lemma sorted_last x r : sorted_gt x r -> x <= last (x :: r) 0 /\ In (last (x :: r) 0) (x :: r) /\
  forall e, In e (x :: r) -> e <= last (x :: r) 0.
Proof.
  revert x; induction r as [|y r IH]; intros x H.
  - cbn. split; [lia|]. split; [now left|]. intros e [<-|[]]. lia.
  - destruct H as [H1 H2]. rewrite last_cons_cons. destruct (IH y H2) as [I1 [I2 I3]].
    split; [lia|]. split; [now right|]. intros e [<-|He]; [lia | now apply I3].
Qed.

Lemma where_from_in k0 m k :
  In k (where_from k0 m) <-> k0 <= k /\ nth (Z.to_nat (k - k0)) m false = true.
Proof.
  revert k0; induction m as [|b m IH]; intros k0; cbn [where_from].
  - split; [intros []|]. intros [_ H]. destruct (Z.to_nat (k - k0)); discriminate.
  - rewrite in_app_iff, IH. split.
    + intros [H|[H1 H2]].
      * destruct b; [|destruct H]. destruct H as [<-|[]]. split; [lia|].
        now replace (k0 - k0) with 0 by lia.
      * split; [lia|]. replace (Z.to_nat (k - k0)) with (S (Z.to_nat (k - (k0 + 1)))) by lia. exact H2.
    + intros [H1 H2]. destruct (Z.eq_dec k k0) as [->|Hne].
      * left. replace (k0 - k0) with 0 in H2 by lia. cbn in H2. subst b. now left.
      * right. split; [lia|].
        replace (Z.to_nat (k - k0)) with (S (Z.to_nat (k - (k0 + 1)))) in H2 by lia. exact H2.
Qed.

Lemma where_from_sorted k0 m : sorted_gt (k0 - 1) (where_from k0 m).
Proof.
  revert k0; induction m as [|b m IH]; intros k0; cbn [where_from]; [exact I|].
  specialize (IH (k0 + 1)). replace (k0 + 1 - 1) with k0 in IH by lia.
  destruct b; cbn [app].
  - split; [lia | exact IH].
  - eapply sorted_gt_weaken; [|exact IH]. lia.
Qed.

Lemma where_from_lt k0 m k : In k (where_from k0 m) -> k < k0 + Z.of_nat (length m).
Proof.
  rewrite where_from_in. intros [H1 H2].
  destruct (Z_lt_ge_dec k (k0 + Z.of_nat (length m))) as [|Hge]; [assumption|].
  rewrite nth_overflow in H2 by lia. discriminate.
Qed.

(* the a-values of the cumsum/diff rule *)
Definition avals (c : Z) (l : list Z) : list Z := cumsum_from c (map (fun d => d - 1) (diff l)).

Lemma avals_cons2 c x y r : avals c (x :: y :: r) = (c + (y - x - 1)) :: avals (c + (y - x - 1)) (y :: r).
Proof. reflexivity. Qed.

Lemma fold_max_spec b l : let m := fold_right Z.max b l in
  b <= m /\ (forall a, In a l -> a <= m) /\ (m = b \/ In m l).
Proof.
  induction l as [|a l IH]; cbn.
  - split; [lia|]. split; [intros a []|now left].
  - destruct IH as [I1 [I2 I3]]. split; [lia|]. split.
    + intros e [<-|He]; [lia|]. specialize (I2 e He). lia.
    + destruct (Z.max_spec a (fold_right Z.max b l)) as [[_ ->]|[_ ->]]; [|right; now left].
      destruct I3 as [->|I3]; [now left | right; now right].
Qed.

Lemma zmax_spec l : l <> [] -> In (zmax_list l) l /\ forall a, In a l -> a <= zmax_list l.
Proof.
  destruct l as [|x l]; [congruence|]. intros _. unfold zmax_list. cbn [hd].
  destruct (fold_max_spec x (x :: l)) as [H1 [H2 H3]]. split; [|exact H2].
  destruct H3 as [->|H3]; [now left | exact H3].
Qed.

Lemma zmax_unique l m : In m l -> (forall a, In a l -> a <= m) -> zmax_list l = m.
Proof.
  intros Hin Hle. assert (Hne : l <> []) by (intros ->; destruct Hin).
  destruct (zmax_spec l Hne) as [H1 H2]. specialize (H2 m Hin). specialize (Hle _ H1). lia.
Qed.

Lemma runs_lemma : forall r x c, sorted_gt x r ->
  let l := x :: r in let A := c :: avals c l in let M := zmax_list A in
  length A = length l /\ c <= M /\
  forall o a, In (o, a) (combine l A) ->
    c <= a /\ x <= o /\ (a = M <-> forall j, o <= j <= last l 0 -> In j l).
Proof.
  induction r as [|y r IH]; intros x c Hs l A M.
  - subst l A M. cbn. split; [reflexivity|]. split; [lia|].
    intros o a [E|[]]. inversion E; subst. split; [lia|]. split; [lia|].
    split; [|intros; lia]. intros _ j Hj. left. lia.
  - destruct Hs as [Hxy Hs]. set (c' := c + (y - x - 1)).
    specialize (IH y c' Hs). cbn zeta in IH. destruct IH as [IHlen [IHc IH]].
    set (A' := c' :: avals c' (y :: r)) in *. set (M' := zmax_list A') in *.
    assert (EA : A = c :: A') by (subst A A' l c'; now rewrite avals_cons2).
    destruct (zmax_spec A' ltac:(subst A'; discriminate)) as [HM1 HM2].
    assert (EM : M = M').
    { subst M. rewrite EA. apply zmax_unique; [now right|]. intros a [<-|Ha]; [lia | now apply HM2]. }
    destruct (sorted_last y r Hs) as [HL1 [HL2 HL3]].
    split; [rewrite EA; cbn [length]; subst l; cbn [length]; now rewrite IHlen|].
    split; [lia|]. rewrite EM. subst l. rewrite last_cons_cons. rewrite EA. cbn [combine].
    intros o a [E|Hin].
    + inversion E; subst o a. split; [lia|]. split; [lia|]. split.
      * intros HcM. assert (c' = c) by lia. assert (y = x + 1) by lia.
        assert (Hhead : In (y, c') (combine (y :: r) A')) by (subst A'; now left).
        destruct (IH _ _ Hhead) as [_ [_ [Hd _]]]. specialize (Hd ltac:(lia)).
        intros j Hj. destruct (Z.eq_dec j x) as [->|Hne]; [now left|]. right. apply Hd. lia.
      * intros Hall.
        assert (Hx1 : In (x + 1) (x :: y :: r)) by (apply Hall; lia).
        destruct Hx1 as [Hx1|Hx1]; [lia|].
        assert (y <= x + 1).
        { destruct Hx1 as [->|Hx1]; [lia|]. pose proof (sorted_gt_all _ _ Hs _ Hx1). lia. }
        assert (Hy : y = x + 1) by lia.
        assert (Hhead : In (y, c') (combine (y :: r) A')) by (subst A'; now left).
        destruct (IH _ _ Hhead) as [_ [_ [_ Hu]]].
        assert (c' = M'); [|lia]. apply Hu. intros j Hj.
        destruct (Hall j ltac:(lia)) as [Hjx|Hjin]; [lia | exact Hjin].
    + destruct (IH _ _ Hin) as [I1 [I2 I3]]. split; [lia|]. split; [lia|].
      rewrite I3. split; intros Hd j Hj.
      * right. apply Hd, Hj.
      * destruct (Hd j Hj) as [Hjx|Hjin]; [lia | exact Hjin].
Qed.

Lemma in_combine_ex {A B} (l : list A) (m : list B) x :
  length m = length l -> In x l -> exists y, In (x, y) (combine l m).
Proof.
  revert m; induction l as [|a l IH]; intros m Hlen Hin; [destruct Hin|].
  destruct m as [|b m]; [cbn in Hlen; lia|]. cbn in Hlen, Hin |- *.
  destruct Hin as [->|Hin]; [exists b; now left|].
  destruct (IH m ltac:(lia) Hin) as [y Hy]. exists y. now right.
Qed.

Lemma top_block_spec nc lo iout i :
  sorted_gt lo iout -> (forall e, In e iout -> e < nc) ->
  (In i (top_block nc iout) <-> In i iout /\ forall j, i <= j <= nc - 1 -> In j iout).
Proof.
  intros Hs Hlt. destruct iout as [|x r].
  - cbn. split; [intros [] | intros [[] _]].
  - destruct Hs as [_ Hs]. destruct (sorted_last x r Hs) as [HL1 [HL2 HL3]].
    unfold top_block. destruct (last (x :: r) 0 =? nc - 1) eqn:El.
    + apply Z.eqb_eq in El.
      change (cumsum_from 0 (0 :: map (fun d => d - 1) (diff (x :: r)))) with (0 :: avals 0 (x :: r)).
      destruct (runs_lemma r x 0 Hs) as [Hlen [_ Hp]]. cbn zeta in Hp.
      rewrite in_map_iff. split.
      * intros [[o a] [Ho Hin]]. cbn in Ho. subst o. apply filter_In in Hin. destruct Hin as [Hin Ha].
        cbn [snd] in Ha. apply Z.eqb_eq in Ha. destruct (Hp _ _ Hin) as [_ [_ Hiff]].
        split; [eapply in_combine_l; eauto|]. rewrite <- El. now apply Hiff.
      * intros [Hin Hall]. destruct (in_combine_ex (x :: r) (0 :: avals 0 (x :: r)) i Hlen Hin) as [a Ha].
        exists (i, a). split; [reflexivity|]. apply filter_In. split; [exact Ha|]. cbn [snd].
        apply Z.eqb_eq. destruct (Hp _ _ Ha) as [_ [_ Hiff]]. apply Hiff. now rewrite El.
    + apply Z.eqb_neq in El. split; [intros []|]. intros [Hin Hall]. exfalso.
      pose proof (Hlt _ Hin). pose proof (Hlt _ HL2).
      specialize (Hall (nc - 1) ltac:(lia)). specialize (HL3 _ Hall). lia.
Qed.

(* ichannels[idx] = v *)
Lemma existsb_eqb_in k idx : existsb (Z.eqb k) idx = true <-> In k idx.
Proof.
  rewrite existsb_exists. split; [intros [x [H1 H2]]; apply Z.eqb_eq in H2; now subst | intros H; exists k; split; [auto | apply Z.eqb_refl]].
Qed.

Lemma assign_from_spec idx v : forall l k0,
  length (assign_from k0 idx v l) = length l /\
  forall i d, (i < length l)%nat ->
    nth i (assign_from k0 idx v l) d = if existsb (Z.eqb (k0 + Z.of_nat i)) idx then v else nth i l d.
Proof.
  induction l as [|a l IH]; intros k0; unfold assign_from; cbn [map where_from app combine length].
  - split; [reflexivity|]. intros; lia.
  - destruct (IH (k0 + 1)) as [I1 I2]. unfold assign_from in I1, I2. split; [now rewrite I1|].
    intros [|i] d Hi; cbn [nth fst snd].
    + now replace (k0 + Z.of_nat 0) with k0 by lia.
    + rewrite I2 by lia. now replace (k0 + 1 + Z.of_nat i) with (k0 + Z.of_nat (S i)) by lia.
Qed.

Lemma assign_nth idx v l i d : (i < length l)%nat ->
  nth i (assign idx v l) d = if existsb (Z.eqb (Z.of_nat i)) idx then v else nth i l d.
Proof. intros H. unfold assign. destruct (assign_from_spec idx v l 0) as [_ H2]. now rewrite H2. Qed.

Lemma assign_length idx v l : length (assign idx v l) = length l.
Proof. unfold assign. now destruct (assign_from_spec idx v l 0). Qed.

Lemma in_where_nat m i : In (Z.of_nat i) (where_ m) <-> nth i m false = true.
Proof.
  unfold where_. rewrite where_from_in. replace (Z.to_nat (Z.of_nat i - 0)) with i by lia.
  split; [now intros [_ H] | intros H; split; [lia | exact H]].
Qed.

Lemma existsb_where m i : existsb (Z.eqb (Z.of_nat i)) (where_ m) = nth i m false.
Proof.
  destruct (nth i m false) eqn:E.
  - apply existsb_eqb_in, in_where_nat, E.
  - destruct (existsb _ _) eqn:E2; [|reflexivity]. apply existsb_eqb_in, in_where_nat in E2. congruence.
Qed.

Lemma map2_nth_g {A B C} (g : A -> B -> C) a b t da db dc :
  (t < length a)%nat -> (t < length b)%nat ->
  nth t (map2 g a b) dc = g (nth t a da) (nth t b db).
Proof.
  revert b t; induction a as [|x a IH]; intros [|y b] [|t] Ha Hb; cbn in *; try lia; auto.
  apply IH; lia.
Qed.

Lemma map_nth_d {A B} (f : A -> B) l d db i : f d = db -> nth i (map f l) db = f (nth i l d).
Proof. intros <-. apply map_nth. Qed.

Section RuleProofs.
Context {F : Type} (O : ops F).

Lemma label_rule_spec sim_lo sim_hi psd_thr out_thr (hf lf psd : list (option F)) i :
  length psd = length hf -> (i < length hf)%nat ->
  let noisy := flt O (Some psd_thr) (nth i psd None) || flt O (Some sim_hi) (nth i hf None) in
  let dead := flt O (nth i hf None) (Some sim_lo) in
  let top := existsb (Z.eqb (Z.of_nat i))
               (top_block (Z.of_nat (length hf)) (ioutside_raw O out_thr lf)) in
  length (label_rule O sim_lo sim_hi psd_thr out_thr hf lf psd) = length hf /\
  nth i (label_rule O sim_lo sim_hi psd_thr out_thr hf lf psd) 0 =
    if noisy then 2 else if dead then 1 else if top then 3 else 0.
Proof.
  intros Hp Hi noisy dead top. unfold label_rule.
  split; [now rewrite !assign_length, repeat_length|].
  rewrite assign_nth by now rewrite !assign_length, repeat_length.
  rewrite assign_nth by now rewrite !assign_length, repeat_length.
  rewrite assign_nth by now rewrite repeat_length.
  unfold inoisy, idead. rewrite !existsb_where.
  assert (E1 : nth i (map2 orb (map (fun p => flt O (Some psd_thr) p) psd)
                               (map (fun x => flt O (Some sim_hi) x) hf)) false = noisy).
  { rewrite (map2_nth_g orb _ _ i false false false) by (rewrite map_length; lia).
    unfold noisy. f_equal.
    - apply (map_nth_d (fun p => flt O (Some psd_thr) p) psd None false i eq_refl).
    - apply (map_nth_d (fun x => flt O (Some sim_hi) x) hf None false i eq_refl). }
  assert (E2 : nth i (map (fun x => flt O x (Some sim_lo)) hf) false = dead).
  { unfold dead. apply (map_nth_d (fun x => flt O x (Some sim_lo)) hf None false i eq_refl). }
  rewrite E1, E2. fold top.
  destruct noisy; [reflexivity|]. destruct dead; [reflexivity|]. destruct top; [reflexivity|].
  clear. revert i. induction (length hf) as [|n IH]; intros [|i]; cbn; auto.
Qed.

(* label 3 candidates = the maximal run of channels below the threshold that ends at the last channel *)
Lemma outside_top_block out_thr (lf : list (option F)) i :
  let nc := Z.of_nat (length lf) in
  In i (top_block nc (ioutside_raw O out_thr lf)) <->
  0 <= i < nc /\ forall j, i <= j < nc -> flt O (nth (Z.to_nat j) lf None) (Some out_thr) = true.
Proof.
  intros nc. unfold ioutside_raw, where_.
  set (m := map (fun x => flt O x (Some out_thr)) lf).
  assert (Hm : forall k, nth k m false = flt O (nth k lf None) (Some out_thr)).
  { intros k. unfold m. apply (map_nth_d (fun x => flt O x (Some out_thr)) lf None false k eq_refl). }
  assert (Hlen : Z.of_nat (length m) = nc) by (unfold m; now rewrite map_length).
  rewrite (top_block_spec nc (0 - 1) (where_from 0 m) i (where_from_sorted 0 m)).
  2:{ intros e He. apply where_from_lt in He. lia. }
  split.
  - intros [Hin Hall]. pose proof (where_from_lt _ _ _ Hin) as Hlt.
    apply where_from_in in Hin. destruct Hin as [H0 _]. split; [lia|].
    intros j Hj. specialize (Hall j ltac:(lia)). apply where_from_in in Hall.
    destruct Hall as [_ Hall]. rewrite Hm in Hall. now replace (j - 0) with j in Hall by lia.
  - intros [Hi Hall]. split.
    + apply where_from_in. split; [lia|]. rewrite Hm. replace (i - 0) with i by lia. apply Hall. lia.
    + intros j Hj. apply where_from_in. split; [lia|]. rewrite Hm. replace (j - 0) with j by lia.
      apply Hall. lia.
Qed.
End RuleProofs.

(* ---------------------------------------------------------------------- *)
(* mode                                                                      *)
Lemma count_nonneg v l : 0 <= count v l.
Proof. unfold count. induction l as [|a l IH]; cbn; [lia|]. destruct (a =? v); lia. Qed.

Lemma count_pos_in v l : In v l <-> 0 < count v l.
Proof.
  unfold count. induction l as [|a l IH]; cbn; [split; [intros []|lia]|].
  pose proof (count_nonneg v l) as Hn. unfold count in Hn.
  destruct (a =? v) eqn:E.
  - apply Z.eqb_eq in E. split; [lia | intros _; now left].
  - apply Z.eqb_neq in E. rewrite <- IH. split; [intros [H|H]; [congruence|auto] | now right].
Qed.

(* b is at least as good as v: more frequent, or as frequent and not larger *)
Definition geq_key (l : list Z) (b v : Z) : Prop :=
  count v l < count b l \/ (count v l = count b l /\ b <= v).

Lemma geq_key_trans l a b c : geq_key l a b -> geq_key l b c -> geq_key l a c.
Proof. unfold geq_key. lia. Qed.

Lemma mode_fold_spec l : forall q best,
  In best l -> (forall v, In v q -> In v l) ->
  let m := fold_left (fun best v => if better l v best then v else best) q best in
  In m l /\ geq_key l m best /\ (forall v, In v q -> geq_key l m v).
Proof.
  induction q as [|a q IH]; intros best Hb Hq; cbn [fold_left].
  - split; [exact Hb|]. split; [right; lia|]. intros v [].
  - cbn zeta. destruct (better l a best) eqn:E; unfold better in E.
    + assert (Hab : geq_key l a best).
      { apply orb_true_iff in E. destruct E as [E|E].
        - apply Z.ltb_lt in E. left; lia.
        - apply andb_true_iff in E. destruct E as [E1 E2]. apply Z.eqb_eq in E1. apply Z.ltb_lt in E2.
          right; lia. }
      destruct (IH a (Hq a (or_introl eq_refl)) (fun v Hv => Hq v (or_intror Hv))) as [I1 [I2 I3]].
      split; [exact I1|]. split; [eapply geq_key_trans; eauto|].
      intros v [<-|Hv]; [exact I2 | now apply I3].
    + assert (Hba : geq_key l best a).
      { apply orb_false_iff in E. destruct E as [E1 E2]. apply Z.ltb_ge in E1.
        apply andb_false_iff in E2. unfold geq_key.
        destruct E2 as [E2|E2]; [apply Z.eqb_neq in E2 | apply Z.ltb_ge in E2]; lia. }
      destruct (IH best Hb (fun v Hv => Hq v (or_intror Hv))) as [I1 [I2 I3]].
      split; [exact I1|]. split; [exact I2|].
      intros v [<-|Hv]; [eapply geq_key_trans; eauto | now apply I3].
Qed.

Lemma mode_spec l : l <> [] ->
  In (mode l) l /\
  forall v, count v l <= count (mode l) l /\ (count v l = count (mode l) l -> mode l <= v).
Proof.
  intros Hne. unfold mode.
  assert (Hhd : In (hd 0 l) l) by (destruct l; [congruence | now left]).
  destruct (mode_fold_spec l l (hd 0 l) Hhd (fun v H => H)) as [H1 [_ H3]].
  split; [exact H1|]. intros v.
  set (m := fold_left (fun best v0 => if better l v0 best then v0 else best) l (hd 0 l)) in *.
  destruct (in_dec Z.eq_dec v l) as [Hin|Hnin].
  - specialize (H3 v Hin). unfold geq_key in H3. lia.
  - assert (count v l = 0).
    { pose proof (count_nonneg v l). destruct (Z.eq_dec (count v l) 0); [auto|].
      exfalso. apply Hnin. apply count_pos_in. lia. }
    apply count_pos_in in H1. lia.
Qed.

Lemma cbin_labels_spec nc batches :
  length (cbin_labels nc batches) = nc /\
  forall c, (c < nc)%nat ->
    nth c (cbin_labels nc batches) 0 = mode (map (fun b => nth c b 0) batches).
Proof.
  unfold cbin_labels. split; [now rewrite map_length, seq_length|].
  intros c Hc.
  rewrite (nth_indep _ 0 (mode (map (fun b => nth 0%nat b 0) batches))) by now rewrite map_length, seq_length.
  rewrite (map_nth_d (fun c0 => mode (map (fun b => nth c0 b 0) batches)) (seq 0 nc) 0%nat _ c eq_refl).
  rewrite seq_nth by exact Hc. reflexivity.
Qed.

(* ---------------------------------------------------------------------- *)
(* detrend: the coherence of the first and last channel is compared with itself   *)
Section DetrendProofs.
Variable F : Type.
Variable O : ops F.
Local Notation zero := (f0 O).
Local Notation "a <f b" := (fltb O a b = true) (at level 70).
Hypothesis Fth : field_theory zero (f1 O) (fadd O) (fmul O) (fsub O) (fopp O) (fdiv O) (finv O) eq.
Add Field Ffield2 : Fth.
Hypothesis lt_irrefl : forall a, fltb O a a = false.
Hypothesis lt_trans : forall a b c, a <f b -> b <f c -> a <f c.
Hypothesis lt_total : forall a b, a <f b \/ a = b \/ b <f a.
Set Default Proof Using "Fth lt_irrefl lt_trans lt_total".

Lemma filter_cover {A} (p q : A -> bool) l :
  (forall v, In v l -> p v = true \/ q v = true) ->
  (length l <= length (filter p l) + length (filter q l))%nat.
Proof.
  induction l as [|a l IH]; intros H; cbn; [lia|].
  specialize (IH (fun v Hv => H v (or_intror Hv))).
  destruct (H a (or_introl eq_refl)) as [E|E]; rewrite E; destruct (p a), (q a); cbn; lia.
Qed.

(* in a window of 2h+1 entries, two entries that both have at most h entries strictly below and
   at most h strictly above are equal: `median` returns THE middle order statistic *)
Lemma is_median_unique h l m1 m2 :
  length l = (2 * h + 1)%nat ->
  is_median O h m1 l = true -> is_median O h m2 l = true -> m1 = m2.
Proof.
  intros Hlen H1 H2. unfold is_median in *. apply andb_true_iff in H1, H2.
  destruct H1 as [L1 G1], H2 as [L2 G2]. apply Nat.leb_le in L1, G1, L2, G2.
  unfold count_lt, count_gt in *.
  destruct (lt_total m1 m2) as [H|[H|H]]; [exfalso | exact H | exfalso].
  - pose proof (filter_cover (fun v => fltb O v m2) (fun v => fltb O m1 v) l) as Hc.
    assert (Hcov : forall v, In v l -> fltb O v m2 = true \/ fltb O m1 v = true).
    { intros v _. destruct (lt_total v m2) as [Hv|[Hv|Hv]]; [now left | right; now subst | right].
      eapply lt_trans; eauto. }
    specialize (Hc Hcov). lia.
  - pose proof (filter_cover (fun v => fltb O v m1) (fun v => fltb O m2 v) l) as Hc.
    assert (Hcov : forall v, In v l -> fltb O v m1 = true \/ fltb O m2 v = true).
    { intros v _. destruct (lt_total v m1) as [Hv|[Hv|Hv]]; [now left | right; now subst | right].
      eapply lt_trans; eauto. }
    specialize (Hc Hcov). lia.
Qed.

Lemma filter_repeat_irrefl_l v n : filter (fun u => fltb O u v) (repeat v n) = [].
Proof. induction n; cbn; [reflexivity|]. now rewrite lt_irrefl. Qed.
Lemma filter_repeat_irrefl_r v n : filter (fun u => fltb O v u) (repeat v n) = [].
Proof. induction n; cbn; [reflexivity|]. now rewrite lt_irrefl. Qed.

Lemma filter_length_le {A} (p : A -> bool) l : (length (filter p l) <= length l)%nat.
Proof. induction l as [|a l IH]; cbn; [lia|]. destruct (p a); cbn; lia. Qed.

(* six equal entries among eleven are the median *)
Lemma majority_median a b v :
  (length a + length b = 5)%nat -> median O 5 (a ++ repeat v 6 ++ b) = v.
Proof.
  intros Hab. set (l := a ++ repeat v 6 ++ b).
  assert (Hlen : length l = (2 * 5 + 1)%nat).
  { unfold l. rewrite !app_length, repeat_length. lia. }
  assert (Hv : is_median O 5 v l = true).
  { unfold is_median, count_lt, count_gt, l. rewrite !filter_app, !app_length.
    rewrite filter_repeat_irrefl_l, filter_repeat_irrefl_r. cbn [length].
    pose proof (filter_length_le (fun u => fltb O u v) a). pose proof (filter_length_le (fun u => fltb O u v) b).
    pose proof (filter_length_le (fun u => fltb O v u) a). pose proof (filter_length_le (fun u => fltb O v u) b).
    apply andb_true_iff. split; apply Nat.leb_le; lia. }
  assert (Hin : In v l).
  { unfold l. apply in_or_app. right. apply in_or_app. left. now left. }
  unfold median. destruct (find (fun m => is_median O 5 m l) l) as [m|] eqn:E.
  - apply find_some in E. destruct E as [_ E]. eapply is_median_unique; eauto.
  - exfalso. pose proof (find_none _ _ E v Hin) as Hn. cbn in Hn. congruence.
Qed.

Lemma firstn_repeat {A} (a : A) n k : (k <= n)%nat -> firstn k (repeat a n) = repeat a k.
Proof.
  revert n; induction k as [|k IH]; intros [|n] H; cbn; try lia; auto. rewrite IH by lia. reflexivity.
Qed.

Lemma detrend11_length (x : list F) : length (detrend11 O x) = length x.
Proof. unfold detrend11. now rewrite map_length, seq_length. Qed.

Lemma detrend11_nth (x : list F) t : (t < length x)%nat ->
  nth t (detrend11 O x) zero =
  fsub O (nth t x zero)
       (median O 5 (firstn 11 (skipn (S t) (repeat (hd zero x) 6 ++ x ++ repeat (last x zero) 6)))).
Proof.
  intros Ht. unfold detrend11.
  set (g := fun t0 => fsub O (nth t0 x zero) (median O 5 (firstn 11 (skipn (S t0)
               (repeat (hd zero x) 6 ++ x ++ repeat (last x zero) 6))))).
  rewrite (nth_indep _ zero (g 0%nat)) by now rewrite map_length, seq_length.
  rewrite (map_nth_d g (seq 0 (length x)) 0%nat _ t eq_refl), seq_nth by exact Ht. reflexivity.
Qed.

(* first channel: the window is 5 pads + x[0] + 5 more entries *)
Lemma detrend11_first x0 (r : list F) : nth 0 (detrend11 O (x0 :: r)) zero = zero.
Proof.
  rewrite detrend11_nth by (cbn; lia). cbn [hd nth].
  set (pads := repeat (last (x0 :: r) zero) 6).
  assert (E : firstn 11 (skipn 1 (repeat x0 6 ++ (x0 :: r) ++ pads)) =
              [] ++ repeat x0 6 ++ firstn 5 (r ++ pads)).
  { cbn [repeat app skipn firstn]. reflexivity. }
  rewrite E, majority_median; [ring|].
  cbn [length]. rewrite firstn_length, app_length. unfold pads. rewrite repeat_length. lia.
Qed.

(* last channel: the window is 5 entries + x[-1] + 5 pads *)
Lemma detrend11_last (pre : list F) xl :
  nth (length pre) (detrend11 O (pre ++ [xl])) zero = zero.
Proof.
  rewrite detrend11_nth by (rewrite app_length; cbn; lia).
  rewrite app_nth2 by lia. replace (length pre - length pre)%nat with 0%nat by lia. cbn [nth].
  rewrite last_last.
  set (x0 := hd zero (pre ++ [xl])).
  set (front := repeat x0 6 ++ pre).
  assert (E : repeat x0 6 ++ (pre ++ [xl]) ++ repeat xl 6 = front ++ repeat xl 7).
  { unfold front. rewrite <- !app_assoc. reflexivity. }
  rewrite E.
  assert (Hf : length front = (length pre + 6)%nat) by (unfold front; rewrite app_length, repeat_length; lia).
  rewrite skipn_app. replace (S (length pre) - length front)%nat with 0%nat by lia. rewrite skipn_O.
  set (a := skipn (S (length pre)) front).
  assert (Ha : length a = 5%nat) by (unfold a; rewrite skipn_length; lia).
  rewrite firstn_app, Ha. rewrite firstn_all2 by lia. replace (11 - 5)%nat with 6%nat by lia.
  rewrite firstn_repeat by lia.
  replace (a ++ repeat xl 6) with (a ++ repeat xl 6 ++ []) by now rewrite app_nil_r.
  rewrite majority_median; [ring | cbn [length]; lia].
Qed.


(* with a non-positive dead threshold (the default is -0.5) the first and the last channel are never
   labelled dead, whatever the recording *)
Lemma dead_never_at_ends (xcor : list F) sim_lo sim_hi psd_thr out_thr (lf psd : list (option F)) :
  xcor <> [] -> fltb O zero sim_lo = false ->
  let hf := map Some (detrend11 O xcor) in
  length psd = length hf ->
  nth 0 (label_rule O sim_lo sim_hi psd_thr out_thr hf lf psd) 0 <> 1 /\
  nth (length xcor - 1) (label_rule O sim_lo sim_hi psd_thr out_thr hf lf psd) 0 <> 1.
Proof.
  intros Hne Hlo hf Hp.
  assert (Hlen : length hf = length xcor) by (unfold hf; now rewrite map_length, detrend11_length).
  assert (Hn : (0 < length xcor)%nat) by (destruct xcor; [congruence | cbn; lia]).
  assert (Hnth : forall i, (i < length xcor)%nat -> nth i hf None = Some (nth i (detrend11 O xcor) zero)).
  { intros i Hi. unfold hf. rewrite (nth_indep _ None (Some zero)) by (rewrite map_length, detrend11_length; exact Hi).
    apply map_nth. }
  assert (Hkey : forall i, (i < length xcor)%nat -> nth i (detrend11 O xcor) zero = zero ->
                 nth i (label_rule O sim_lo sim_hi psd_thr out_thr hf lf psd) 0 <> 1).
  { intros i Hi Hz.
    destruct (label_rule_spec O sim_lo sim_hi psd_thr out_thr hf lf psd i Hp ltac:(lia)) as [_ Hv].
    cbn zeta in Hv. rewrite Hv, (Hnth i Hi), Hz. cbn [flt]. rewrite Hlo.
    repeat (match goal with |- context [if ?b then _ else _] => destruct b end); discriminate. }
  split.
  - apply Hkey; [exact Hn|]. destruct xcor as [|x0 r]; [congruence|]. apply detrend11_first.
  - destruct (exists_last Hne) as [pre [xl E]]. subst xcor.
    rewrite app_length. cbn [length]. replace (length pre + 1 - 1)%nat with (length pre) by lia.
    apply Hkey; [rewrite app_length; cbn; lia | apply detrend11_last].
Qed.

End DetrendProofs.
Unset Default Proof Using.

(* ---------------------------------------------------------------------- *)
(* Where all sources of a dead/noisy channel hold the same value, the repaired sample is that value. *)
Lemma equal_sources_value (F : Type) (O : ops F)
  (Fth : field_theory (f0 O) (f1 O) (fadd O) (fmul O) (fsub O) (fopp O) (fdiv O) (finv O) eq)
  (lt_irrefl : forall a, fltb O a a = false)
  (lt_trans : forall a b c, fltb O a b = true -> fltb O b c = true -> fltb O a c = true)
  (lt_total : forall a b, fltb O a b = true \/ a = b \/ fltb O b a = true)
  (lt_add : forall a b c, fltb O a b = true -> fltb O (fadd O a c) (fadd O b c) = true)
  (lt_mul : forall a b, fltb O (f0 O) a = true -> fltb O (f0 O) b = true -> fltb O (f0 O) (fmul O a b) = true)
  thr (W : nat -> list F) labels (data : list (list F)) ns i t v :
  length labels = length data ->
  (forall p, length (W p) = length data) ->
  (forall p u, In u (W p) -> fltb O u (f0 O) = false) ->
  (forall j, (j < length data)%nat -> length (nth j data []) = ns) ->
  (i < length data)%nat -> is_bad (nth i labels 0) = true -> (t < ns)%nat ->
  sources O thr labels (W i) <> [] ->
  (forall j w, In (j, w) (sources O thr labels (W i)) -> nth t (nth j data []) (f0 O) = v) ->
  nth t (nth i (interpolate O thr W labels data) []) (f0 O) = v.
Proof.
  intros Hl HWl HW Hrect Hi Hb Ht Hne Heq.
  destruct (bad_row_convex F O Fth lt_irrefl lt_trans lt_total lt_add lt_mul thr W labels data ns i
              Hl HWl HW Hrect Hi Hb) as [_ [_ [_ [_ [_ Hrange]]]]].
  destruct (Hrange t v v Ht Hne) as [H1 H2].
  { intros j w Hin. rewrite (Heq j w Hin). split; apply lt_irrefl. }
  destruct (lt_total (nth t (nth i (interpolate O thr W labels data) []) (f0 O)) v) as [H|[H|H]];
    [congruence | exact H | congruence].
Qed.
