(* C15 — lemmas.  Public theorems are restated in Props.v. *)
From Coq Require Import ZArith List Bool Lia Field.
From IBL.C15 Require Import Model.
Import ListNotations.
Open Scope Z_scope.

(* ---------------------------------------------------------------------- *)
(* list helpers                                                            *)
Lemma set_nth_length {A} (l : list A) n v : length (set_nth n v l) = length l.
Proof.
  revert n; induction l as [|a l IH]; intros [|n]; cbn; auto.
Qed.

Lemma nth_set_nth_neq {A} (l : list A) i j v d : i <> j -> nth i (set_nth j v l) d = nth i l d.
Proof.
  revert i j; induction l as [|a l IH]; intros [|i] [|j] H; cbn; auto; try congruence.
Qed.

Lemma nth_set_nth_eq {A} (l : list A) j v d : (j < length l)%nat -> nth j (set_nth j v l) d = v.
Proof.
  revert j; induction l as [|a l IH]; intros [|j] H; cbn in *; auto; try lia. apply IH; lia.
Qed.

Lemma in_bad_positions_from k labels p :
  In p (bad_positions_from k labels) <->
  (k <= p < k + length labels)%nat /\ is_bad (nth (p - k) labels 0) = true.
Proof.
  revert k; induction labels as [|l r IH]; intros k; cbn [bad_positions_from length].
  - split; [intros []|intros [H _]; lia].
  - rewrite in_app_iff, IH. split.
    + intros [H|[H1 H2]].
      * destruct (is_bad l) eqn:E; [|destruct H]. destruct H as [<-|[]].
        split; [lia|]. now replace (k - k)%nat with O by lia.
      * split; [lia|]. replace (p - k)%nat with (S (p - S k)) by lia. exact H2.
    + intros [H1 H2]. destruct (Nat.eq_dec p k) as [->|Hne].
      * left. replace (k - k)%nat with O in H2 by lia. cbn in H2. rewrite H2. now left.
      * right. split; [lia|]. replace (p - k)%nat with (S (p - S k)) in H2 by lia. exact H2.
Qed.

Lemma in_bad_positions labels p :
  In p (bad_positions labels) <-> (p < length labels)%nat /\ is_bad (nth p labels 0) = true.
Proof.
  unfold bad_positions. rewrite in_bad_positions_from. replace (p - 0)%nat with p by lia.
  split; intros [H1 H2]; split; auto; lia.
Qed.

Lemma bad_positions_from_NoDup k labels : NoDup (bad_positions_from k labels).
Proof.
  revert k; induction labels as [|l r IH]; intros k; cbn; [constructor|].
  destruct (is_bad l); cbn; [|apply IH].
  constructor; [|apply IH]. rewrite in_bad_positions_from. lia.
Qed.

(* ---------------------------------------------------------------------- *)
(* Channels that are not dead/noisy are returned identical — no assumption
   on the numbers, the weights, or the shapes.                              *)
Section Untouched.
Context {F : Type} (O : ops F).

Lemma fold_untouched thr (W : nat -> list F) labels ps : forall (d : list (list F)) i,
  ~ In i ps ->
  nth i (fold_left (fun d p => set_nth p (repair_row O thr labels (W p) d p) d) ps d) [] = nth i d [].
Proof.
  induction ps as [|p ps IH]; intros d i Hi; cbn; [reflexivity|].
  rewrite IH by (intros H; apply Hi; now right).
  apply nth_set_nth_neq. intros ->. apply Hi. now left.
Qed.

Lemma good_untouched thr W labels (data : list (list F)) i :
  is_bad (nth i labels 0) = false ->
  nth i (interpolate O thr W labels data) [] = nth i data [].
Proof.
  intros Hg. unfold interpolate. apply fold_untouched.
  rewrite in_bad_positions. intros [_ H]. congruence.
Qed.

Lemma interpolate_length thr W labels (data : list (list F)) :
  length (interpolate O thr W labels data) = length data.
Proof.
  unfold interpolate. generalize (bad_positions labels) as ps. intros ps; revert data.
  induction ps as [|p ps IH]; intros d; cbn; [reflexivity|]. rewrite IH. apply set_nth_length.
Qed.
End Untouched.

(* ---------------------------------------------------------------------- *)
(* Ordered field: the repaired rows                                         *)
Section OrderedField.
Variable F : Type.
Variable O : ops F.
Local Notation zero := (f0 O).
Local Notation one := (f1 O).
Local Infix "+f" := (fadd O) (at level 50, left associativity).
Local Infix "*f" := (fmul O) (at level 40, left associativity).
Local Infix "/f" := (fdiv O) (at level 40, left associativity).
Local Notation "a <f b" := (fltb O a b = true) (at level 70).
Local Notation "a <=f b" := (fltb O b a = false) (at level 70).

Hypothesis Fth : field_theory zero one (fadd O) (fmul O) (fsub O) (fopp O) (fdiv O) (finv O) eq.
Add Field Ffield : Fth.
Hypothesis lt_irrefl : forall a, fltb O a a = false.
Hypothesis lt_trans : forall a b c, a <f b -> b <f c -> a <f c.
Hypothesis lt_total : forall a b, a <f b \/ a = b \/ b <f a.
Hypothesis lt_add : forall a b c, a <f b -> (a +f c) <f (b +f c).
Hypothesis lt_mul : forall a b, zero <f a -> zero <f b -> zero <f (a *f b).
Set Default Proof Using "Fth lt_irrefl lt_trans lt_total lt_add lt_mul".

Lemma le_refl a : a <=f a.
Proof. apply lt_irrefl. Qed.

Lemma lt_asym a b : a <f b -> b <f a -> False.
Proof. intros H1 H2. pose proof (lt_trans _ _ _ H1 H2) as H. rewrite lt_irrefl in H. discriminate. Qed.

Lemma lt_neq a b : a <f b -> a <> b.
Proof. intros H ->. rewrite lt_irrefl in H. discriminate. Qed.

Lemma le_cases a b : a <=f b <-> (a <f b \/ a = b).
Proof.
  split.
  - intros H. destruct (lt_total a b) as [H1|[H1|H1]]; auto. congruence.
  - intros [H| ->]; [|apply le_refl].
    destruct (fltb O b a) eqn:E; auto. exfalso. eapply lt_asym; eauto.
Qed.

Lemma lt_le a b : a <f b -> a <=f b.
Proof. intros H. apply le_cases. now left. Qed.

Lemma le_trans a b c : a <=f b -> b <=f c -> a <=f c.
Proof.
  rewrite !le_cases. intros [H1| ->] [H2| ->]; auto. left. eapply lt_trans; eauto.
Qed.

Lemma le_lt_trans a b c : a <=f b -> b <f c -> a <f c.
Proof. rewrite le_cases. intros [H1| ->] H2; auto. eapply lt_trans; eauto. Qed.

Lemma le_add a b c : a <=f b -> (a +f c) <=f (b +f c).
Proof.
  intros H. destruct (fltb O (b +f c) (a +f c)) eqn:E; auto. exfalso.
  pose proof (lt_add _ _ (fopp O c) E) as H1.
  replace (b +f c +f fopp O c) with b in H1 by ring.
  replace (a +f c +f fopp O c) with a in H1 by ring. congruence.
Qed.

Lemma nonneg_add a b : zero <=f a -> zero <=f b -> zero <=f (a +f b).
Proof.
  intros Ha Hb. apply le_trans with b; auto.
  pose proof (le_add _ _ b Ha) as H. now replace (zero +f b) with b in H by ring.
Qed.

Lemma nonneg_mul a b : zero <=f a -> zero <=f b -> zero <=f (a *f b).
Proof.
  rewrite (le_cases zero a), (le_cases zero b). intros [Ha|Ha] [Hb|Hb].
  - apply lt_le. now apply lt_mul.
  - subst b. replace (a *f zero) with zero by ring. apply le_refl.
  - subst a. replace (zero *f b) with zero by ring. apply le_refl.
  - subst a. replace (zero *f b) with zero by ring. apply le_refl.
Qed.

Lemma zero_lt_one : zero <f one.
Proof.
  destruct (lt_total zero one) as [H|[H|H]]; auto.
  - exfalso. apply (F_1_neq_0 Fth). auto.
  - exfalso. pose proof (lt_add _ _ (fopp O one) H) as H1.
    replace (one +f fopp O one) with zero in H1 by ring.
    replace (zero +f fopp O one) with (fopp O one) in H1 by ring.
    pose proof (lt_mul _ _ H1 H1) as H2.
    replace (fopp O one *f fopp O one) with one in H2 by ring.
    eapply lt_asym; eauto.
Qed.

Lemma inv_pos s : zero <f s -> zero <f finv O s.
Proof.
  intros Hs. assert (Hne : s <> zero) by (intros ->; rewrite lt_irrefl in Hs; discriminate).
  destruct (lt_total zero (finv O s)) as [H|[H|H]]; auto; exfalso.
  - assert (E : one = s *f finv O s) by (field; auto).
    rewrite <- H in E. replace (s *f zero) with zero in E by ring.
    apply (F_1_neq_0 Fth). auto.
  - pose proof (lt_add _ _ (fopp O (finv O s)) H) as H1.
    replace (finv O s +f fopp O (finv O s)) with zero in H1 by ring.
    replace (zero +f fopp O (finv O s)) with (fopp O (finv O s)) in H1 by ring.
    pose proof (lt_mul _ _ Hs H1) as H2.
    replace (s *f fopp O (finv O s)) with (fopp O one) in H2 by (field; auto).
    pose proof (lt_add _ _ one H2) as H3.
    replace (zero +f one) with one in H3 by ring.
    replace (fopp O one +f one) with zero in H3 by ring.
    eapply lt_asym; [exact zero_lt_one | exact H3].
Qed.

Lemma div_nonneg v s : zero <=f v -> zero <f s -> zero <=f (v /f s).
Proof.
  intros Hv Hs. assert (Hne : s <> zero) by (intros ->; rewrite lt_irrefl in Hs; discriminate).
  replace (v /f s) with (v *f finv O s) by (field; auto).
  apply nonneg_mul; auto. apply lt_le, inv_pos, Hs.
Qed.

Lemma mul_le_mono w a b : zero <=f w -> a <=f b -> (w *f a) <=f (w *f b).
Proof.
  intros Hw Hab.
  assert (H : zero <=f (b +f fopp O a)).
  { pose proof (le_add _ _ (fopp O a) Hab) as H. now replace (a +f fopp O a) with zero in H by ring. }
  pose proof (nonneg_mul _ _ Hw H) as H1.
  pose proof (le_add _ _ (w *f a) H1) as H2.
  replace (zero +f w *f a) with (w *f a) in H2 by ring.
  now replace (w *f (b +f fopp O a) +f w *f a) with (w *f b) in H2 by ring.
Qed.

Lemma add_le_mono a b c d : a <=f b -> c <=f d -> (a +f c) <=f (b +f d).
Proof.
  intros H1 H2. apply le_trans with (b +f c); [now apply le_add|].
  pose proof (le_add _ _ b H2) as H. 
  replace (c +f b) with (b +f c) in H by ring. now replace (d +f b) with (b +f d) in H by ring.
Qed.

(* sums *)
Lemma fsum_nonneg l : (forall v, In v l -> zero <=f v) -> zero <=f fsum O l.
Proof.
  unfold fsum. induction l as [|a l IH]; intros H; cbn [fold_right]; [apply le_refl|].
  apply nonneg_add; [apply H; now left | apply IH; intros; apply H; now right].
Qed.

Lemma fsum_map_div s l : s <> zero ->
  fsum O (map (fun v => v /f s) l) = fsum O l /f s.
Proof.
  intros Hs. unfold fsum. induction l as [|a l IH]; cbn [map fold_right]; [field; auto|].
  rewrite IH. field; auto.
Qed.

Lemma fsum_app a b : fsum O (a ++ b) = fsum O a +f fsum O b.
Proof. unfold fsum. induction a as [|x a IH]; cbn [app fold_right]; [ring|]. rewrite IH. ring. Qed.

(* weighted sums: sum_p snd p * f (fst p) *)
Definition dot (f : nat -> F) (srcs : list (nat * F)) : F :=
  fsum O (map (fun p => snd p *f f (fst p)) srcs).

Lemma dot_lower f srcs lo :
  (forall p, In p srcs -> zero <=f snd p /\ lo <=f f (fst p)) ->
  (lo *f fsum O (map snd srcs)) <=f dot f srcs.
Proof.
  unfold dot, fsum. induction srcs as [|p l IH]; intros H; cbn [map fold_right].
  - replace (lo *f zero) with zero by ring. apply le_refl.
  - destruct (H p (or_introl eq_refl)) as [Hw Hx].
    match goal with |- fltb O _ (lo *f (snd p +f ?S)) = false => replace (lo *f (snd p +f S)) with (snd p *f lo +f lo *f S) by ring end.
    apply add_le_mono; [now apply mul_le_mono | apply IH; intros; apply H; now right].
Qed.

Lemma dot_upper f srcs hi :
  (forall p, In p srcs -> zero <=f snd p /\ f (fst p) <=f hi) ->
  dot f srcs <=f (hi *f fsum O (map snd srcs)).
Proof.
  unfold dot, fsum. induction srcs as [|p l IH]; intros H; cbn [map fold_right].
  - replace (hi *f zero) with zero by ring. apply le_refl.
  - destruct (H p (or_introl eq_refl)) as [Hw Hx].
    match goal with |- fltb O (hi *f (snd p +f ?S)) _ = false => replace (hi *f (snd p +f S)) with (snd p *f hi +f hi *f S) by ring end.
    apply add_le_mono; [now apply mul_le_mono | apply IH; intros; apply H; now right].
Qed.


(* --- the retained weights of one bad channel --------------------------- *)
Lemma zero_bad_length labels (w : list F) : length (zero_bad O labels w) = length w.
Proof.
  revert w; induction labels as [|l ls IH]; intros [|v w]; cbn; auto.
Qed.

Lemma zero_bad_nth labels (w : list F) j :
  nth j (zero_bad O labels w) zero = if is_bad (nth j labels 0) then zero else nth j w zero.
Proof.
  revert w j; induction labels as [|l ls IH]; intros w j.
  - cbn [zero_bad]. destruct w; destruct j; reflexivity.
  - destruct w as [|v w].
    + cbn [zero_bad]. destruct j; cbn; now destruct (is_bad _).
    + destruct j as [|j]; cbn [zero_bad nth]; [reflexivity | apply IH].
Qed.

Lemma kept_length thr labels (w : list F) : length (kept_weights O thr labels w) = length w.
Proof. unfold kept_weights, zero_small. now rewrite map_length, zero_bad_length. Qed.

Lemma kept_nth thr labels (w : list F) j :
  nth j (kept_weights O thr labels w) zero =
  if is_bad (nth j labels 0) then zero
  else if fltb O (nth j w zero) thr then zero else nth j w zero.
Proof.
  unfold kept_weights, zero_small.
  set (g := fun v : F => if fltb O v thr then zero else v).
  assert (Hg : g zero = zero) by (unfold g; now destruct (fltb O zero thr)).
  rewrite <- Hg at 1. rewrite map_nth, zero_bad_nth.
  destruct (is_bad (nth j labels 0)); [exact Hg | reflexivity].
Qed.

Lemma kept_nonneg thr labels (w : list F) :
  (forall v, In v w -> zero <=f v) ->
  forall v, In v (kept_weights O thr labels w) -> zero <=f v.
Proof.
  intros Hw v Hv. destruct (In_nth _ _ zero Hv) as [j [Hj <-]].
  rewrite kept_length in Hj. rewrite kept_nth.
  destruct (is_bad _); [apply le_refl|]. destruct (fltb O (nth j w zero) thr); [apply le_refl|].
  apply Hw, nth_In, Hj.
Qed.

Lemma in_combine_seq {A} (l : list A) d : forall a j v,
  In (j, v) (combine (seq a (length l)) l) <-> (a <= j < a + length l)%nat /\ nth (j - a) l d = v.
Proof.
  induction l as [|x l IH]; intros a j v; cbn [length seq combine In].
  - split; [intros [] | intros [H _]; lia].
  - rewrite IH. split.
    + intros [H|[H1 H2]].
      * inversion H; subst. split; [lia|]. now replace (j - j)%nat with 0%nat by lia.
      * split; [lia|]. replace (j - a)%nat with (S (j - S a)) by lia. exact H2.
    + intros [H1 H2]. destruct (Nat.eq_dec j a) as [->|Hne].
      * left. replace (a - a)%nat with 0%nat in H2 by lia. cbn in H2. now subst.
      * right. split; [lia|]. replace (j - a)%nat with (S (j - S a)) in H2 by lia. exact H2.
Qed.

Lemma map_snd_combine_seq {A} (l : list A) a : map snd (combine (seq a (length l)) l) = l.
Proof. revert a; induction l as [|x l IH]; intros a; cbn; [reflexivity|]. now rewrite IH. Qed.

(* dropping the entries that are not > 0 does not change a sum of non-negative numbers *)
Lemma fsum_filter_pos (L : list (nat * F)) :
  (forall p, In p L -> zero <=f snd p) ->
  fsum O (map snd (filter (fun p => fltb O zero (snd p)) L)) = fsum O (map snd L).
Proof.
  unfold fsum. induction L as [|p L IH]; intros H; cbn [filter map fold_right]; [reflexivity|].
  pose proof (H p (or_introl eq_refl)) as Hp.
  assert (IH' := IH (fun q Hq => H q (or_intror Hq))).
  destruct (fltb O zero (snd p)) eqn:E; cbn [map fold_right]; rewrite IH'; [reflexivity|].
  apply le_cases in Hp. destruct Hp as [Hp|Hp]; [congruence|]. rewrite <- Hp. ring.
Qed.

Lemma fnonzero_spec s : fnonzero O s = true <-> s <> zero.
Proof.
  unfold fnonzero. rewrite orb_true_iff. split.
  - intros [H|H] ->; rewrite lt_irrefl in H; discriminate.
  - intros H. destruct (lt_total zero s) as [H1|[H1|H1]]; auto. congruence.
Qed.

(* everything the code uses as a source *)
Lemma sources_spec thr labels (w : list F) :
  (forall v, In v w -> zero <=f v) ->
  let S := sources O thr labels w in
  (forall j wj, In (j, wj) S ->
      (j < length w)%nat /\ is_bad (nth j labels 0) = false /\ zero <f wj /\
      fltb O (nth j w zero) thr = false /\
      wj = nth j w zero /f fsum O (kept_weights O thr labels w)) /\
  (S <> [] -> fsum O (map snd S) = one) /\
  (S = [] <-> fsum O (kept_weights O thr labels w) = zero).
Proof.
  intros Hw S. subst S. unfold sources.
  set (k := kept_weights O thr labels w). set (s := fsum O k).
  assert (Hk : forall v, In v k -> zero <=f v) by (apply kept_nonneg; auto).
  assert (Hs0 : zero <=f s) by (apply fsum_nonneg; auto).
  destruct (fnonzero O s) eqn:Hnz.
  - apply fnonzero_spec in Hnz.
    assert (Hsp : zero <f s) by (apply le_cases in Hs0; destruct Hs0; [auto|congruence]).
    set (L := combine (seq 0 (length k)) (map (fun v => v /f s) k)).
    assert (HL : forall p, In p L -> zero <=f snd p).
    { intros [j v] Hp. unfold L in Hp. apply in_combine_r in Hp. apply in_map_iff in Hp.
      destruct Hp as [u [<- Hu]]. cbn. apply div_nonneg; auto. }
    assert (Hsum : fsum O (map snd (filter (fun p => fltb O zero (snd p)) L)) = one).
    { rewrite fsum_filter_pos by exact HL. unfold L.
      rewrite <- (map_length (fun v => v /f s) k), map_snd_combine_seq, fsum_map_div by exact Hnz.
      fold s. field. exact Hnz. }
    split; [|split].
    + intros j wj Hin. apply filter_In in Hin. destruct Hin as [Hin Hpos]. cbn in Hpos.
      unfold L in Hin. rewrite <- (map_length (fun v => v /f s) k) in Hin.
      apply (in_combine_seq _ zero) in Hin. rewrite map_length in Hin.
      destruct Hin as [Hj Hv]. replace (j - 0)%nat with j in Hv by lia.
      unfold k in Hj. rewrite kept_length in Hj.
      assert (Hv' : wj = nth j k zero /f s).
      { rewrite <- Hv. replace zero with (zero /f s) at 1 by (field; exact Hnz).
        now rewrite (map_nth (fun v => v /f s)). }
      unfold k in Hv'. rewrite kept_nth in Hv'.
      assert (Hz : zero /f s = zero) by (field; exact Hnz).
      split; [lia|]. destruct (is_bad (nth j labels 0)).
      { exfalso. rewrite Hz in Hv'. subst wj. rewrite lt_irrefl in Hpos. discriminate. }
      destruct (fltb O (nth j w zero) thr).
      { exfalso. rewrite Hz in Hv'. subst wj. rewrite lt_irrefl in Hpos. discriminate. }
      repeat split; auto.
    + intros _. exact Hsum.
    + split.
      * intros E. exfalso. fold L in E. rewrite E in Hsum. cbn in Hsum.
        apply (F_1_neq_0 Fth). auto.
      * intros E. fold s in E. congruence.
  - split; [|split].
    + intros j wj [].
    + intros H. congruence.
    + split; [|reflexivity]. intros _.
      destruct (lt_total zero s) as [H1|[H1|H1]]; auto; unfold fnonzero in Hnz;
        rewrite H1 in Hnz; cbn in Hnz; try discriminate.
      rewrite orb_true_r in Hnz. discriminate.
Qed.

(* --- the linear combination ------------------------------------------- *)
Lemma map2_length {A B C} (g : A -> B -> C) a b : length (map2 g a b) = Nat.min (length a) (length b).
Proof. revert b; induction a as [|x a IH]; intros [|y b]; cbn; auto. Qed.

Lemma map2_nth {A B C} (g : A -> B -> C) a b t da db dc :
  (t < length a)%nat -> (t < length b)%nat ->
  nth t (map2 g a b) dc = g (nth t a da) (nth t b db).
Proof.
  revert b t; induction a as [|x a IH]; intros [|y b] [|t] Ha Hb; cbn in *; try lia; auto.
  apply IH; lia.
Qed.

Lemma lincomb_fold_spec (data : list (list F)) ns : forall srcs acc,
  length acc = ns ->
  (forall p, In p srcs -> length (nth (fst p) data []) = ns) ->
  let r := fold_left (fun acc p => vaxpy O (snd p) (nth (fst p) data []) acc) srcs acc in
  length r = ns /\
  forall t, (t < ns)%nat ->
    nth t r zero = nth t acc zero +f dot (fun j => nth t (nth j data []) zero) srcs.
Proof.
  induction srcs as [|p srcs IH]; intros acc Hacc Hrows; cbn [fold_left].
  - split; [exact Hacc|]. intros t Ht. unfold dot, fsum. cbn. ring.
  - assert (Hp : length (nth (fst p) data []) = ns) by (apply Hrows; now left).
    assert (Hlen : length (vaxpy O (snd p) (nth (fst p) data []) acc) = ns).
    { unfold vaxpy. rewrite map2_length, Hacc, Hp. apply Nat.min_id. }
    destruct (IH _ Hlen (fun q Hq => Hrows q (or_intror Hq))) as [IH1 IH2].
    split; [exact IH1|]. intros t Ht. rewrite (IH2 t Ht).
    unfold vaxpy. rewrite (map2_nth _ _ _ t zero zero zero) by lia.
    unfold dot, fsum. cbn [map fold_right]. ring.
Qed.

Lemma repeat_nth {A} (a : A) n t d : (t < n)%nat -> nth t (repeat a n) d = a.
Proof. revert t; induction n as [|n IH]; intros [|t] H; cbn; try lia; auto. apply IH; lia. Qed.

Lemma lincomb_spec srcs (data : list (list F)) ns :
  (forall p, In p srcs -> length (nth (fst p) data []) = ns) ->
  length (lincomb O srcs data ns) = ns /\
  forall t, (t < ns)%nat ->
    nth t (lincomb O srcs data ns) zero = dot (fun j => nth t (nth j data []) zero) srcs.
Proof.
  intros Hrows. unfold lincomb.
  destruct (lincomb_fold_spec data ns srcs (repeat zero ns) (repeat_length _ _) Hrows) as [H1 H2].
  split; [exact H1|]. intros t Ht. rewrite (H2 t Ht), repeat_nth by exact Ht. ring.
Qed.

Lemma lincomb_ext srcs (d d' : list (list F)) ns :
  (forall p, In p srcs -> nth (fst p) d [] = nth (fst p) d' []) ->
  lincomb O srcs d ns = lincomb O srcs d' ns.
Proof.
  unfold lincomb. generalize (repeat zero ns) as acc.
  induction srcs as [|p srcs IH]; intros acc H; cbn [fold_left]; [reflexivity|].
  rewrite (H p (or_introl eq_refl)). apply IH. intros q Hq. apply H. now right.
Qed.

(* --- the loop: each bad row is computed from the ORIGINAL good rows ------ *)
Section Loop.
Variable thr : F.
Variable W : nat -> list F.
Variable labels : list Z.
Variable data : list (list F).
Hypothesis HW : forall p v, In v (W p) -> zero <=f v.
Set Default Proof Using "Fth lt_irrefl lt_trans lt_total lt_add lt_mul HW".

Lemma repair_row_ext (d : list (list F)) p :
  (forall q, is_bad (nth q labels 0) = false -> nth q d [] = nth q data []) ->
  nth p d [] = nth p data [] ->
  repair_row O thr labels (W p) d p = repair_row O thr labels (W p) data p.
Proof.
  intros Hgood Hp. unfold repair_row. rewrite Hp.
  destruct (sources_spec thr labels (W p) (HW p)) as [Hs _].
  destruct (sources O thr labels (W p)) as [|s0 srcs] eqn:E; [reflexivity|].
  apply lincomb_ext. intros [j wj] Hin. cbn [fst]. apply Hgood.
  destruct (Hs j wj Hin) as [_ [Hb _]]. exact Hb.
Qed.

Lemma fold_spec : forall ps (d : list (list F)),
  NoDup ps ->
  (forall p, In p ps -> (p < length d)%nat) ->
  (forall q, is_bad (nth q labels 0) = false -> nth q d [] = nth q data []) ->
  (forall p, In p ps -> is_bad (nth p labels 0) = true /\ nth p d [] = nth p data []) ->
  forall p, In p ps ->
    nth p (fold_left (fun d p => set_nth p (repair_row O thr labels (W p) d p) d) ps d) [] =
    repair_row O thr labels (W p) data p.
Proof.
  induction ps as [|p0 ps IH]; intros d Hnd Hlen Hgood Hps p Hin; [destruct Hin|].
  cbn [fold_left]. inversion Hnd as [|? ? Hnotin Hnd']; subst.
  destruct (Hps p0 (or_introl eq_refl)) as [Hb0 Hrow0].
  rewrite (repair_row_ext d p0 Hgood Hrow0).
  destruct Hin as [->|Hin].
  - rewrite fold_untouched by exact Hnotin. apply nth_set_nth_eq. apply Hlen. now left.
  - apply IH; auto.
    + intros q Hq. rewrite set_nth_length. apply Hlen. now right.
    + intros q Hq. rewrite nth_set_nth_neq; [now apply Hgood|]. intros ->. congruence.
    + intros q Hq. destruct (Hps q (or_intror Hq)) as [Hbq Hrq]. split; [exact Hbq|].
      rewrite nth_set_nth_neq; [exact Hrq|]. intros ->. contradiction.
Qed.

Lemma interpolate_bad_row p :
  length labels = length data ->
  (p < length data)%nat -> is_bad (nth p labels 0) = true ->
  nth p (interpolate O thr W labels data) [] = repair_row O thr labels (W p) data p.
Proof.
  intros Hl Hp Hb. unfold interpolate. apply fold_spec.
  - apply bad_positions_from_NoDup.
  - intros q Hq. apply in_bad_positions in Hq. lia.
  - auto.
  - intros q Hq. apply in_bad_positions in Hq. now split.
  - apply in_bad_positions. split; [lia | exact Hb].
Qed.
End Loop.

End OrderedField.
