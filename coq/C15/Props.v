(* C15 — property theorems.  Only statements closed by `exact <lemma>` (or a
   1-3 line wrapper) and the Print Assumptions that the check collects.

   "Ordered field" below means: a carrier F with operations O : ops F such that
     field_theory 0 1 + * - opp / inv (=)          (Coq's field axioms)
     < irreflexive, transitive, total, compatible with + and with * on positives
   (five hypotheses, spelled out in each theorem).  The reals are one; the
   canonical rationals Qc, which contain every float64 and on which the
   correspondence run evaluates the very same functions, are another
   (C15_Qc_ordered_field). *)
From Coq Require Import ZArith List Bool Lia Field QArith Qcanon.
From IBL.C08 Require Model.
From IBL.C15 Require Import Model Proofs Geo Med Run.
Import ListNotations.
Open Scope Z_scope.

Definition ordered_field {F : Type} (O : ops F) : Prop :=
  field_theory (f0 O) (f1 O) (fadd O) (fmul O) (fsub O) (fopp O) (fdiv O) (finv O) eq /\
  (forall a, fltb O a a = false) /\
  (forall a b c, fltb O a b = true -> fltb O b c = true -> fltb O a c = true) /\
  (forall a b, fltb O a b = true \/ a = b \/ fltb O b a = true) /\
  (forall a b c, fltb O a b = true -> fltb O (fadd O a c) (fadd O b c) = true) /\
  (forall a b, fltb O (f0 O) a = true -> fltb O (f0 O) b = true -> fltb O (f0 O) (fmul O a b) = true).

(* a <= b *)
Definition fle {F : Type} (O : ops F) (a b : F) : Prop := fltb O b a = false.

(* 1. Channels whose label is not 1 (dead) or 2 (noisy) are returned identical:
   every carrier, every weight table, every label vector (clusters, probe ends,
   any length), every data array; the number of channels is unchanged. *)
Theorem C15_good_untouched :
  forall (F : Type) (O : ops F) (thr : F) (W : nat -> list F) (labels : list Z)
         (data : list (list F)) (i : nat),
  is_bad (nth i labels 0) = false ->
  nth i (interpolate O thr W labels data) [] = nth i data [] /\
  length (interpolate O thr W labels data) = length data.
Proof. intros. split; [now apply good_untouched | apply interpolate_length]. Qed.
Print Assumptions C15_good_untouched.

(* 2. Every dead/noisy channel i is replaced by a convex combination of ORIGINAL
   rows of channels that are not dead/noisy (label 0 or 3) and whose raw weight
   is not below the threshold: with S = sources ... (W i) the (channel, weight)
   pairs the code uses,
     - every source is a channel of the probe, not dead/noisy, weight > 0, raw weight >= thr;
     - the weights sum to one (when there is a source);
     - sample t of the new row is  sum_{(j,w) in S} w * data[j][t]   (the loop is
       sequential and in place, yet only original rows enter);
     - hence the new row lies between any bounds lo <= . <= hi that hold for the
       sources at that sample;
     - when there is no source the row is zero.
   For every ordered field, every non-negative weight table W, every threshold,
   every label vector and every rectangular data array. *)
Theorem C15_bad_is_convex :
  forall (F : Type) (O : ops F), ordered_field O ->
  forall (thr : F) (W : nat -> list F) (labels : list Z) (data : list (list F)) (ns i : nat),
  length labels = length data ->
  (forall p, length (W p) = length data) ->
  (forall p v, In v (W p) -> fle O (f0 O) v) ->
  (forall j, (j < length data)%nat -> length (nth j data []) = ns) ->
  (i < length data)%nat -> is_bad (nth i labels 0) = true ->
  let S := sources O thr labels (W i) in
  let out := nth i (interpolate O thr W labels data) [] in
  (forall j w, In (j, w) S ->
     (j < length data)%nat /\ is_bad (nth j labels 0) = false /\ fltb O (f0 O) w = true /\
     fltb O (nth j (W i) (f0 O)) thr = false) /\
  (S <> [] -> fsum O (map snd S) = f1 O) /\
  length out = ns /\
  (forall t, (t < ns)%nat ->
     nth t out (f0 O) = dot F O (fun j => nth t (nth j data []) (f0 O)) S) /\
  (S = [] -> out = repeat (f0 O) ns) /\
  (forall t lo hi, (t < ns)%nat -> S <> [] ->
     (forall j w, In (j, w) S -> fle O lo (nth t (nth j data []) (f0 O)) /\
                                 fle O (nth t (nth j data []) (f0 O)) hi) ->
     fle O lo (nth t out (f0 O)) /\ fle O (nth t out (f0 O)) hi).
Proof.
  intros F O [H1 [H2 [H3 [H4 [H5 H6]]]]] thr W labels data ns i.
  exact (bad_row_convex F O H1 H2 H3 H4 H5 H6 thr W labels data ns i).
Qed.
Print Assumptions C15_bad_is_convex.

(* 3. A dead/noisy channel has NO source exactly when every channel of the probe
   is dead/noisy or has a raw weight below the (positive) threshold; then, by
   theorem 2, its row is zero; otherwise it is the convex combination. *)
Theorem C15_bad_zero_when_isolated :
  forall (F : Type) (O : ops F), ordered_field O ->
  forall (thr : F) (labels : list Z) (w : list F),
  (forall v, In v w -> fle O (f0 O) v) -> fltb O (f0 O) thr = true ->
  (sources O thr labels w = [] <->
   forall j, (j < length w)%nat -> is_bad (nth j labels 0) = true \/ fltb O (nth j w (f0 O)) thr = true).
Proof.
  intros F O [H1 [H2 [H3 [H4 [H5 H6]]]]] thr labels w.
  exact (no_source_iff F O H1 H2 H3 H4 H5 H6 thr labels w).
Qed.
Print Assumptions C15_bad_zero_when_isolated.

(* 4. The recommendation block: with features that may be NaN (None; every
   comparison False), channel i gets 2 if psd_hf > psd threshold or
   xcor_hf > similarity_threshold[1]; else 1 if xcor_hf < similarity_threshold[0];
   else 3 if it belongs to the top block; else 0 (precedence 2 over 1 over 3). *)
Theorem C15_label_rule_spec :
  forall (F : Type) (O : ops F) (sim_lo sim_hi psd_thr out_thr : F)
         (hf lf psd : list (option F)) (i : nat),
  length psd = length hf -> (i < length hf)%nat ->
  let noisy := flt O (Some psd_thr) (nth i psd None) || flt O (Some sim_hi) (nth i hf None) in
  let dead := flt O (nth i hf None) (Some sim_lo) in
  let top := existsb (Z.eqb (Z.of_nat i))
               (top_block (Z.of_nat (length hf)) (ioutside_raw O out_thr lf)) in
  length (label_rule O sim_lo sim_hi psd_thr out_thr hf lf psd) = length hf /\
  nth i (label_rule O sim_lo sim_hi psd_thr out_thr hf lf psd) 0 =
    if noisy then 2 else if dead then 1 else if top then 3 else 0.
Proof. intros F O. exact (label_rule_spec O). Qed.
Print Assumptions C15_label_rule_spec.

(* 5. The cumsum/diff rule selects exactly the maximal run of channels with
   xcor_lf < threshold that ends at the LAST channel: channel i is a label-3
   candidate iff every channel from i to nc-1 is below the threshold.  (In
   particular nothing is labelled outside when the last channel is not.) *)
Theorem C15_outside_is_top_block :
  forall (F : Type) (O : ops F) (out_thr : F) (lf : list (option F)) (i : Z),
  let nc := Z.of_nat (length lf) in
  In i (top_block nc (ioutside_raw O out_thr lf)) <->
  0 <= i < nc /\ forall j, i <= j < nc -> flt O (nth (Z.to_nat j) lf None) (Some out_thr) = true.
Proof. intros F O. exact (outside_top_block O). Qed.
Print Assumptions C15_outside_is_top_block.

(* 6. The label of a file is, per channel, the most frequent label over the
   batches, the smallest one among equally frequent labels. *)
Theorem C15_mode_spec :
  forall (nc : nat) (batches : list (list Z)) (c : nat),
  batches <> [] -> (c < nc)%nat ->
  let col := map (fun b => nth c b 0) batches in
  let m := nth c (cbin_labels nc batches) 0 in
  length (cbin_labels nc batches) = nc /\
  In m col /\
  forall v, count v col <= count m col /\ (count v col = count m col -> m <= v).
Proof.
  intros nc batches c Hne Hc col m.
  destruct (cbin_labels_spec nc batches) as [Hlen Hnth].
  split; [exact Hlen|]. unfold m. rewrite (Hnth c Hc). fold col.
  apply mode_spec. unfold col. destruct batches; [congruence | discriminate].
Qed.
Print Assumptions C15_mode_spec.

(* 7. The carrier on which the model is RUN against the implementation is an
   ordered field, so theorems 2 and 3 are statements about that very run. *)
Theorem C15_Qc_ordered_field : ordered_field QcOps.
Proof.
  assert (Hlt : forall a b : Qc, Qcltb a b = true <-> (a < b)%Qc).
  { intros a b. unfold Qcltb. rewrite Qclt_alt. destruct (a ?= b)%Qc; split; congruence. }
  unfold ordered_field. cbn [f0 f1 fadd fmul fsub fopp fdiv finv fltb QcOps].
  split; [exact Qcft|]. split.
  { intros a. unfold Qcltb. now rewrite (proj1 (Qceq_alt a a) eq_refl). }
  split.
  { intros a b c. rewrite !Hlt. apply Qclt_trans. }
  split.
  { intros a b. rewrite !Hlt. destruct (a ?= b)%Qc eqn:E.
    - right; left. now apply Qceq_alt.
    - left. now apply Qclt_alt.
    - right; right. now apply Qcgt_alt in E. }
  split.
  { intros a b c. rewrite !Hlt. unfold Qclt, Qcplus. cbn [this Q2Qc]. intros H.
    rewrite !Qred_correct. now apply Qplus_lt_l. }
  intros a b. rewrite !Hlt. intros Ha Hb.
  pose proof (Qcmult_lt_compat_r 0 a b Hb Ha) as H. now rewrite Qcmult_0_l in H.
Qed.
Print Assumptions C15_Qc_ordered_field.

(* 8. The median used by detrend is well defined: in a window of 2h+1 entries any two entries with at
   most h entries strictly below and at most h strictly above are equal (so the model's `median`, the
   first such entry, is the middle order statistic). *)
Theorem C15_median_unique :
  forall (F : Type) (O : ops F), ordered_field O ->
  forall (h : nat) (l : list F) (m1 m2 : F), length l = (2 * h + 1)%nat ->
  is_median O h m1 l = true -> is_median O h m2 l = true -> m1 = m2.
Proof.
  intros F O [H1 [H2 [H3 [H4 _]]]] h l m1 m2. exact (is_median_unique F O H1 H2 H3 H4 h l m1 m2).
Qed.
Print Assumptions C15_median_unique.

(* 9. (records finding F-C15-b) Whatever the recording: the detrended coherence of the FIRST and of the
   LAST channel is exactly 0 (6 of the 11 window entries are the channel's own value), so with a
   non-positive dead threshold (default -0.5) neither end of the probe is ever labelled dead (1) - a
   silent channel there is missed.  The property's clause "a silent channel is labelled dead wherever it
   is placed" therefore fails at the two probe ends for every input. *)
Theorem C15_dead_never_at_probe_ends :
  forall (F : Type) (O : ops F), ordered_field O ->
  forall (xcor : list F) (sim_lo sim_hi psd_thr out_thr : F) (lf psd : list (option F)),
  xcor <> [] -> fltb O (f0 O) sim_lo = false ->
  let hf := map Some (detrend11 O xcor) in
  length psd = length hf ->
  nth 0 (detrend11 O xcor) (f0 O) = f0 O /\
  nth (length xcor - 1) (detrend11 O xcor) (f0 O) = f0 O /\
  nth 0 (label_rule O sim_lo sim_hi psd_thr out_thr hf lf psd) 0 <> 1 /\
  nth (length xcor - 1) (label_rule O sim_lo sim_hi psd_thr out_thr hf lf psd) 0 <> 1.
Proof.
  intros F O [H1 [H2 [H3 [H4 _]]]] xcor sim_lo sim_hi psd_thr out_thr lf psd Hne Hlo hf Hp.
  destruct (dead_never_at_ends F O H1 H2 H3 H4 xcor sim_lo sim_hi psd_thr out_thr lf psd Hne Hlo Hp) as [A B].
  split; [|split; [|split; [exact A | exact B]]].
  - destruct xcor as [|x0 r]; [congruence|]. exact (detrend11_first F O H1 H2 H3 H4 x0 r).
  - destruct (exists_last Hne) as [pre [xl E]]. subst xcor. rewrite app_length. cbn [length].
    replace (length pre + 1 - 1)%nat with (length pre) by lia. exact (detrend11_last F O H1 H2 H3 H4 pre xl).
Qed.
Print Assumptions C15_dead_never_at_probe_ends.

(* The raw weight as a function of the coordinate differences: non-negative and below the threshold
   exactly beyond the squared radius R2 = 5201 um^2 (the numerical fact about exp(-(d/20)^1.3) and 0.005 is
   checked by the harness for every coordinate difference occurring on the probes; here a hypothesis). *)
Definition weight_by_distance {F : Type} (O : ops F) (wf : Z -> Z -> F) (thr : F) : Prop :=
  (forall a b, fle O (f0 O) (wf a b)) /\ fltb O (f0 O) thr = true /\
  (forall a b, 0 <= a -> 0 <= b -> (fltb O (wf a b) thr = true <-> R2 < a * a + b * b)).

(* 10. Geometry: with integer site coordinates (xs, ys) and weights that depend on the distance as above, the
   channels a dead/noisy channel i is repaired from are EXACTLY, in ascending order, the channels that are
   not dead/noisy (label 0 or 3 - outside-brain channels are sources, as the property says) and lie within
   squared distance 5201 um^2 (72.12 um) of i; i has no source (and is zeroed, theorem 2) iff every channel
   within that radius is dead/noisy. *)
Theorem C15_sources_by_distance :
  forall (F : Type) (O : ops F), ordered_field O ->
  forall (wf : Z -> Z -> F) (thr : F), weight_by_distance O wf thr ->
  forall (xs ys labels : list Z) (i : nat),
  map fst (sources O thr labels (geo_row wf xs ys i)) = geo_sources xs ys labels i /\
  (sources O thr labels (geo_row wf xs ys i) = [] <->
   forall j, (j < length xs)%nat -> is_bad (nth j labels 0) = true \/ R2 < d2 xs ys i j).
Proof.
  intros F O [H1 [H2 [H3 [H4 [H5 H6]]]]] wf thr [W1 [W2 W3]] xs ys labels i. split.
  - exact (geo_sources_spec F O H1 H2 H3 H4 H5 H6 wf thr W1 W2 W3 xs ys labels i).
  - exact (geo_isolated_iff F O H1 H2 H3 H4 H5 H6 wf thr W1 W2 W3 xs ys labels i).
Qed.
Print Assumptions C15_sources_by_distance.

(* 11. On the dense layouts of neuropixel.trace_header (C08's model of it, proved there to be the canonical
   site tables): NP1 - every channel within the radius is at most 7 channel numbers away and every channel at
   most 4 away is within it; NP2 single shank - 9 and 8; NPultra - 96 and 72.  Hence on these probes a
   dead/noisy channel is zeroed when all channels up to 7 (9, 96) numbers away are dead/noisy - at least 8
   (10, 97) adjacent bad channels at a probe end, 15 (19, 193) inside - and is a convex combination as soon
   as one channel at most 4 (8, 72) numbers away is usable. *)
Theorem C15_isolated_on_headers :
  forall (F : Type) (O : ops F), ordered_field O ->
  forall (wf : Z -> Z -> F) (thr : F), weight_by_distance O wf thr ->
  forall g nshank reach inner,
  In (g, nshank, reach, inner)
     [(C08.Model.NP1, 1, 7, 4); (C08.Model.NP21, 1, 9, 8); (C08.Model.NPU, 1, 96, 72)] ->
  exists th, C08.Model.trace_header g nshank = Some th /\
    length (C08.Model.g_x th) = 384%nat /\
    forall labels i, (i < 384)%nat ->
      let S := sources O thr labels (geo_row wf (C08.Model.g_x th) (C08.Model.g_y th) i) in
      ((forall j, (j < 384)%nat -> zdist i j <= reach -> is_bad (nth j labels 0) = true) -> S = []) /\
      ((exists j, (j < 384)%nat /\ zdist i j <= inner /\ is_bad (nth j labels 0) = false) -> S <> []).
Proof.
  intros F O [H1 [H2 [H3 [H4 [H5 H6]]]]] wf thr [W1 [W2 W3]] g nshank reach inner Hin.
  apply (header_isolated F O H1 H2 H3 H4 H5 H6 wf thr W1 W2 W3).
  cbn [In] in Hin. destruct Hin as [E|[E|[E|[]]]]; inversion E; subst.
  - exact np1_header.
  - exact np2_header.
  - exact npu_header.
Qed.
Print Assumptions C15_isolated_on_headers.

(* 12. (observation) On the 4-shank header the sites of different shanks share their (x, y): channels 0
   (shank 0) and 48 (shank 1) are at distance 0, so interpolate_bad_channels called with h["x"], h["y"] of that
   header repairs a channel from the other shanks with full weight. *)
Theorem C15_np24_shanks_coincide :
  exists th, C08.Model.trace_header C08.Model.NP24 4 = Some th /\
    d2 (C08.Model.g_x th) (C08.Model.g_y th) 0 48 = 0 /\
    nth 0 (C08.Model.g_shank th) 0 <> nth 48 (C08.Model.g_shank th) 0.
Proof.
  pose proof np24_coincident_sites as H.
  destruct (C08.Model.trace_header C08.Model.NP24 4) as [th|]; [|discriminate].
  exists th. split; [reflexivity|]. apply andb_true_iff in H. destruct H as [Ha Hb].
  split; [now apply Z.eqb_eq|]. apply negb_true_iff, Z.eqb_neq in Hb. exact Hb.
Qed.
Print Assumptions C15_np24_shanks_coincide.

(* 14. (records finding F-C15-c) "Nearby" is REFUTED on the 4-shank header: with channel 0 dead and all
   others good, channel 48 - on another shank, 250 um away (squared physical distance 62500 > 5201) - is one
   of the channels channel 0 is repaired from, because the header's x is local to each shank. *)
Theorem C15_nearby_refuted_np24 :
  exists th labels (i j : nat),
    C08.Model.trace_header C08.Model.NP24 4 = Some th /\
    length labels = 384%nat /\ is_bad (nth i labels 0) = true /\
    In j (geo_sources (C08.Model.g_x th) (C08.Model.g_y th) labels i) /\
    nth i (C08.Model.g_shank th) 0 <> nth j (C08.Model.g_shank th) 0 /\
    R2 < phys_d2 (C08.Model.g_x th) (C08.Model.g_y th) (C08.Model.g_shank th) i j.
Proof.
  pose proof np24_far_source_true as H. unfold np24_far_source in H.
  destruct (C08.Model.trace_header C08.Model.NP24 4) as [th|]; [|discriminate].
  exists th, (1 :: repeat 0 383), 0%nat, 48%nat.
  apply andb_true_iff in H. destruct H as [H H3]. apply andb_true_iff in H. destruct H as [H1 H2].
  split; [reflexivity|]. split; [reflexivity|]. split; [reflexivity|]. split.
  - apply existsb_exists in H1. destruct H1 as [k [Hk E]]. apply Nat.eqb_eq in E. now subst k.
  - split; [apply negb_true_iff, Z.eqb_neq in H2; exact H2 | now apply Z.ltb_lt].
Qed.
Print Assumptions C15_nearby_refuted_np24.

(* 17. Where all the sources of a dead/noisy channel hold the same value v at a sample (a common-mode
   transient, all channels at the rail), the repaired sample IS v: the weights sum to one.  (Exact arithmetic;
   for the float implementation the harness demands exactly v for float32 data - the float64 weighted sum
   v(1 + d), |d| < 2^-40, rounds back to the float32 v - and 2^-40 relative for float64 data.) *)
Theorem C15_equal_sources_give_that_value :
  forall (F : Type) (O : ops F), ordered_field O ->
  forall (thr : F) (W : nat -> list F) (labels : list Z) (data : list (list F)) (ns i t : nat) (v : F),
  length labels = length data ->
  (forall p, length (W p) = length data) ->
  (forall p u, In u (W p) -> fle O (f0 O) u) ->
  (forall j, (j < length data)%nat -> length (nth j data []) = ns) ->
  (i < length data)%nat -> is_bad (nth i labels 0) = true -> (t < ns)%nat ->
  sources O thr labels (W i) <> [] ->
  (forall j w, In (j, w) (sources O thr labels (W i)) -> nth t (nth j data []) (f0 O) = v) ->
  nth t (nth i (interpolate O thr W labels data) []) (f0 O) = v.
Proof.
  intros F O [H1 [H2 [H3 [H4 [H5 H6]]]]] thr W labels data ns i t v.
  exact (equal_sources_value F O H1 H2 H3 H4 H5 H6 thr W labels data ns i t v).
Qed.
Print Assumptions C15_equal_sources_give_that_value.

(* 13. The median entry exists: for a window of 2h+1 entries `median` returns an entry of the window with at
   most h entries strictly below and at most h strictly above it (the k-th order statistic exists in every
   finite list of a total order); with theorem 8 this determines its value. *)
Theorem C15_median_exists :
  forall (F : Type) (O : ops F), ordered_field O ->
  forall (h : nat) (l : list F), length l = (2 * h + 1)%nat ->
  In (median O h l) l /\ is_median O h (median O h l) l = true.
Proof.
  intros F O [_ [H2 [H3 [H4 _]]]] h l. exact (median_exists F O H2 H3 H4 h l).
Qed.
Print Assumptions C15_median_exists.

(* ---------------------------------------------------------------------- *)
(* The hypotheses are satisfiable on concrete, non-trivial inputs.           *)
Local Definition h : Qc := dyadic 1 1.     (* 1/2 *)
Local Definition q : Qc := dyadic 1 10.    (* 1/1024 < 0.005 *)
Local Definition one : Qc := dyadic 1 0.
Local Definition Wex (i : nat) : list Qc :=
  match i with
  | 1%nat => [h; one; one; q]
  | _ => [q; q; q; one]
  end.
Local Definition dat : list (list Qc) :=
  map (map (fun z => dyadic z 0)) [[6; -3]; [100; 100]; [0; 9]; [7; 7]].

(* channel 1 (dead) has sources 0 (weight 1/2 -> 1/3) and 2 (weight 1 -> 2/3);
   channel 3 (noisy) only sees itself and weights below 0.005: zero. *)
Example C15_ex_interpolate :
  map (map enc_val) (interpolate QcOps c_0005 Wex [0; 1; 3; 2] dat) =
  [[6 * 2 ^ 32; -3 * 2 ^ 32]; [2 * 2 ^ 32; 5 * 2 ^ 32]; [0; 9 * 2 ^ 32]; [0; 0]].
Proof. vm_compute. reflexivity. Qed.

Example C15_ex_sources :
  map fst (sources QcOps c_0005 [0; 1; 3; 2] (Wex 1)) = [0%nat; 2%nat] /\
  sources QcOps c_0005 [0; 1; 3; 2] (Wex 3) = [].
Proof. vm_compute. split; reflexivity. Qed.

Example C15_ex_hyps :
  (forall p v, In v (Wex p) -> fle QcOps (f0 QcOps) v) /\ fltb QcOps (f0 QcOps) c_0005 = true.
Proof.
  split; [|vm_compute; reflexivity].
  intros [|[|p]] v Hv; cbn in Hv; repeat (destruct Hv as [<-|Hv]; [vm_compute; reflexivity|]); destruct Hv.
Qed.

(* label rule: 8 channels; channel 2 incoherent (dead), channel 4 noisy, channels 1 and 5..7 below the
   outside threshold: only the run 5..7 that ends at the last channel becomes 3, and channel 6, also
   dead, keeps 1 (precedence). *)
Local Definition S (m k : Z) : option Qc := Some (dyadic m k).
Example C15_ex_rule :
  label_rule QcOps (dyadic (-1) 1) (dyadic 1 0) c_002 c_m075
    [S 0 0; S 0 0; S (-1) 0; S 0 0; S 0 0; S 0 0; S (-3) 2; None]
    [S 0 0; S (-1) 0; S 0 0; S 0 0; S 0 0; S (-1) 0; S (-1) 0; S (-7) 3]
    [S 1 10; S 1 10; S 1 10; S 1 10; S 1 0; S 1 10; S 1 10; S 1 10]
  = [0; 0; 1; 0; 2; 3; 1; 3].
Proof. vm_compute. reflexivity. Qed.

(* mode: ties go to the smallest label *)
Example C15_ex_mode :
  cbin_labels 3 [[0; 3; 2]; [1; 3; 1]; [1; 0; 2]; [0; 0; 1]] = [0; 0; 1].
Proof. vm_compute. reflexivity. Qed.

(* detrend: a silent first channel (coherence 0 among coherent neighbours) gets 0, while the same
   channel at position 3 gets -1 (and would be labelled dead) *)
Example C15_ex_detrend :
  map enc_val (detrend11 QcOps (map (fun z => dyadic z 0) [0; 1; 1; 0; 1; 1; 1; 1; 1; 1; 1; 1; 0])) =
  map (fun z => z * 2 ^ 32) [0; 1; 0; -1; 0; 0; 0; 0; 0; 0; 0; 0; 0].
Proof. vm_compute. reflexivity. Qed.

(* geometry: first 8 NP1 sites; channel 3 dead, channels 2 and 4 noisy: sources of 3 are 0, 1, 5, 6, 7 *)
Example C15_ex_geo :
  geo_sources [43; 11; 59; 27; 43; 11; 59; 27] [20; 20; 40; 40; 60; 60; 80; 80] [0; 0; 2; 1; 2; 0; 3; 0] 3
  = [0%nat; 1%nat; 5%nat; 6%nat; 7%nat].
Proof. vm_compute. reflexivity. Qed.

(* the hypothesis of theorems 10 and 11 is satisfiable: a step weight over Qc *)
Local Definition wf_step (a b : Z) : Qc := if a * a + b * b <=? R2 then dyadic 1 0 else dyadic 0 0.
Example C15_ex_weight_by_distance : weight_by_distance QcOps wf_step (dyadic 1 1).
Proof.
  unfold weight_by_distance, wf_step, fle. cbn [f0 fltb QcOps]. split; [|split].
  - intros a b. destruct (a * a + b * b <=? R2); vm_compute; reflexivity.
  - vm_compute. reflexivity.
  - intros a b _ _. destruct (a * a + b * b <=? R2) eqn:E.
    + apply Z.leb_le in E. split; [vm_compute; discriminate | lia].
    + apply Z.leb_gt in E. split; [intros _; exact E | intros _; vm_compute; reflexivity].
Qed.
