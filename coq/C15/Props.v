(* C15 — property theorems.  Only statements closed by `exact <lemma>` and the
   Print Assumptions that the check collects. *)
From Coq Require Import ZArith List Bool Lia.
From IBL.C15 Require Import Model Proofs.
Import ListNotations.
Open Scope Z_scope.

(* Channels whose label is not 1 (dead) or 2 (noisy) are returned identical:
   for every carrier, every weight table, every label vector (clusters, probe
   ends, any length) and every data array. *)
Theorem C15_good_untouched :
  forall (F : Type) (O : ops F) (thr : F) (W : nat -> list F) (labels : list Z)
         (data : list (list F)) (i : nat),
  is_bad (nth i labels 0) = false ->
  nth i (interpolate O thr W labels data) [] = nth i data [] /\
  length (interpolate O thr W labels data) = length data.
Proof. intros. split; [now apply good_untouched | apply interpolate_length]. Qed.
Print Assumptions C15_good_untouched.
