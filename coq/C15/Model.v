(* C15 — executable model of
     ibldsp.voltage.interpolate_bad_channels
     ibldsp.voltage.detect_bad_channels      (the labelling rule downstream of the features)
     ibldsp.voltage.detect_bad_channels_cbin (per-channel mode over the batches)
   (src/ibldsp/voltage.py).  Definitions only; proofs in Proofs.v, theorems in Props.v.

   Numbers: the functions are polymorphic in a carrier F with the operations of
   an ordered field (record `ops`).  The theorems hold for every ordered field
   (Proofs.v, Section OrderedField: hence for the reals, the intended meaning
   of the NumPy code, and for the rationals, which contain every float); the
   correspondence run instantiates F := Qc (Run.v).

   Python                                              model
   ------                                              -----
   bad_channels = where(labels==1 | labels==2)[0]      bad_positions
   weights = exp(-(offset/kriging)**p)                 W i   (data: the row of raw weights of channel i)
   weights[bad_channels] = 0                           zero_bad
   weights[weights < 0.005] = 0                        zero_small
   weights = weights / sum(weights)                    (inside sources)
   imult = where(weights > 0)[0]                       sources (position, normalised weight); sum = 0 -> NaN -> none
   if imult.size == 0: data[i,:] = 0                   repair_row, [] branch
   data[i,:] = matmul(weights[imult], data[imult,:])   lincomb
   for i in bad_channels: ... (in place)               interpolate (fold_left over bad_positions, current data)

   idead / inoisy / ioutside / cumsum-diff rule        where_, top_block, label_rule
   scipy.stats.mode(channel_labels, axis=1)            mode, cbin_labels
*)
From Coq Require Import ZArith List Bool.
Import ListNotations.
Open Scope Z_scope.

Record ops (F : Type) : Type := Ops {
  f0 : F; f1 : F;
  fadd : F -> F -> F; fmul : F -> F -> F; fsub : F -> F -> F; fopp : F -> F;
  fdiv : F -> F -> F; finv : F -> F;
  fltb : F -> F -> bool            (* a < b *)
}.
Arguments f0 {F}. Arguments f1 {F}. Arguments fadd {F}. Arguments fmul {F}.
Arguments fsub {F}. Arguments fopp {F}. Arguments fdiv {F}. Arguments finv {F}.
Arguments fltb {F}.

(* ---------------------------------------------------------------------- *)
(* generic list helpers                                                    *)
Fixpoint set_nth {A} (n : nat) (v : A) (l : list A) : list A :=
  match l, n with
  | [], _ => []
  | _ :: r, O => v :: r
  | a :: r, S n' => a :: set_nth n' v r
  end.

(* np.where(mask)[0] as ascending positions *)
Fixpoint where_from (k : Z) (m : list bool) : list Z :=
  match m with
  | [] => []
  | b :: r => (if b then [k] else []) ++ where_from (k + 1) r
  end.
Definition where_ (m : list bool) : list Z := where_from 0 m.

Fixpoint map2 {A B C} (f : A -> B -> C) (a : list A) (b : list B) : list C :=
  match a, b with
  | x :: a', y :: b' => f x y :: map2 f a' b'
  | _, _ => []
  end.

(* ---------------------------------------------------------------------- *)
(* interpolate_bad_channels                                                *)

(* channel_labels == 1 or channel_labels == 2 *)
Definition is_bad (l : Z) : bool := (l =? 1) || (l =? 2).

Fixpoint bad_positions_from (k : nat) (labels : list Z) : list nat :=
  match labels with
  | [] => []
  | l :: r => (if is_bad l then [k] else []) ++ bad_positions_from (S k) r
  end.
Definition bad_positions (labels : list Z) : list nat := bad_positions_from 0 labels.

Section Model.
Context {F : Type} (O : ops F).

(* weights[bad_channels] = 0 *)
Fixpoint zero_bad (labels : list Z) (w : list F) : list F :=
  match labels, w with
  | l :: ls, v :: ws => (if is_bad l then f0 O else v) :: zero_bad ls ws
  | _, _ => w
  end.

(* weights[weights < thr] = 0          (thr = 0.005) *)
Definition zero_small (thr : F) (w : list F) : list F :=
  map (fun v => if fltb O v thr then f0 O else v) w.

Definition fsum (l : list F) : F := fold_right (fadd O) (f0 O) l.

Definition fnonzero (s : F) : bool := fltb O (f0 O) s || fltb O s (f0 O).

(* the weights kept for one bad channel, before normalisation *)
Definition kept_weights (thr : F) (labels : list Z) (wraw : list F) : list F :=
  zero_small thr (zero_bad labels wraw).

(* weights / sum(weights) ; imult = where(weights > 0)[0] ; returned as
   (position, normalised weight).  A zero sum makes every weight NaN in
   NumPy and `NaN > 0` is False: no source at all. *)
Definition sources (thr : F) (labels : list Z) (wraw : list F) : list (nat * F) :=
  let w := kept_weights thr labels wraw in
  let s := fsum w in
  if fnonzero s
  then filter (fun p => fltb O (f0 O) (snd p))
              (combine (seq 0 (length w)) (map (fun v => fdiv O v s) w))
  else [].

(* acc + w * x, element-wise *)
Definition vaxpy (w : F) (x acc : list F) : list F :=
  map2 (fun c a => fadd O c (fmul O w a)) acc x.

(* matmul(weights[imult], data[imult, :]) *)
Definition lincomb (srcs : list (nat * F)) (data : list (list F)) (ns : nat) : list F :=
  fold_left (fun acc p => vaxpy (snd p) (nth (fst p) data []) acc) srcs (repeat (f0 O) ns).

(* the new row i given the current data *)
Definition repair_row (thr : F) (labels : list Z) (wraw : list F)
           (data : list (list F)) (i : nat) : list F :=
  let ns := length (nth i data []) in
  match sources thr labels wraw with
  | [] => repeat (f0 O) ns
  | srcs => lincomb srcs data ns
  end.

(* the loop `for i in bad_channels`, updating data in place; W i is the row
   of raw weights exp(-(|pos - pos_i| / kriging)**p) of channel i *)
Definition interpolate (thr : F) (W : nat -> list F) (labels : list Z)
           (data : list (list F)) : list (list F) :=
  fold_left (fun d i => set_nth i (repair_row thr labels (W i) d i) d)
            (bad_positions labels) data.

(* ---------------------------------------------------------------------- *)
(* detect_bad_channels: the recommendation block                           *)

(* a feature value; None = NaN (every comparison is False) *)
Definition flt (a b : option F) : bool :=
  match a, b with Some x, Some y => fltb O x y | _, _ => false end.

End Model.

Fixpoint diff (l : list Z) : list Z :=
  match l with
  | a :: ((b :: _) as r) => (b - a) :: diff r
  | _ => []
  end.

Fixpoint cumsum_from (acc : Z) (l : list Z) : list Z :=
  match l with
  | [] => []
  | a :: r => (acc + a) :: cumsum_from (acc + a) r
  end.

Definition zmax_list (l : list Z) : Z := fold_right Z.max (hd 0 l) l.

(* if ioutside.size > 0 and ioutside[-1] == nc - 1:
       a = cumsum(r_[0, diff(ioutside) - 1]); ioutside = ioutside[a == max(a)]
   else nothing is labelled 3 *)
Definition top_block (nc : Z) (iout : list Z) : list Z :=
  match iout with
  | [] => []
  | _ :: _ =>
      if last iout 0 =? nc - 1 then
        let a := cumsum_from 0 (0 :: map (fun d => d - 1) (diff iout)) in
        let m := zmax_list a in
        map fst (filter (fun p => snd p =? m) (combine iout a))
      else []
  end.

(* ichannels[idx] = v *)
Definition assign_from (k0 : Z) (idx : list Z) (v : Z) (l : list Z) : list Z :=
  map (fun p => if existsb (Z.eqb (fst p)) idx then v else snd p)
      (combine (where_from k0 (map (fun _ => true) l)) l).
Definition assign (idx : list Z) (v : Z) (l : list Z) : list Z := assign_from 0 idx v l.

Section Rule.
Context {F : Type} (O : ops F).

(* idead    = where(similarity_threshold[0] > xcor_hf)
   inoisy   = where(psd_hf > psd_hf_threshold | xcor_hf > similarity_threshold[1])
   ioutside = where(xcor_lf < -0.75) *)
Definition idead (sim_lo : F) (hf : list (option F)) : list Z :=
  where_ (map (fun x => flt O x (Some sim_lo)) hf).
Definition inoisy (sim_hi psd_thr : F) (hf psd : list (option F)) : list Z :=
  where_ (map2 orb (map (fun p => flt O (Some psd_thr) p) psd)
                   (map (fun x => flt O (Some sim_hi) x) hf)).
Definition ioutside_raw (out_thr : F) (lf : list (option F)) : list Z :=
  where_ (map (fun x => flt O x (Some out_thr)) lf).

(* ichannels = zeros(nc); [top block] = 3; [idead] = 1; [inoisy] = 2 *)
Definition label_rule (sim_lo sim_hi psd_thr out_thr : F)
           (hf lf psd : list (option F)) : list Z :=
  let nc := Z.of_nat (length hf) in
  assign (inoisy sim_hi psd_thr hf psd) 2
    (assign (idead sim_lo hf) 1
       (assign (top_block nc (ioutside_raw out_thr lf)) 3
          (repeat 0 (length hf)))).

(* band = 'ap' if fs > 2600 else 'lf'; psd_hf_threshold default 0.02 / 1.4 *)
Definition psd_threshold (c2600 thr_ap thr_lf fs : F) (user : option F) : F :=
  match user with
  | Some t => t
  | None => if fltb O c2600 fs then thr_ap else thr_lf
  end.
End Rule.

(* ---------------------------------------------------------------------- *)
(* detect_bad_channels_cbin: scipy.stats.mode over the batches             *)

Definition count (v : Z) (l : list Z) : Z :=
  fold_right (fun x c => if x =? v then c + 1 else c) 0 l.

(* v beats best: more frequent, or as frequent and smaller *)
Definition better (l : list Z) (v best : Z) : bool :=
  (count best l <? count v l) || ((count v l =? count best l) && (v <? best)).

Definition mode (l : list Z) : Z :=
  fold_left (fun best v => if better l v best then v else best) l (hd 0 l).

(* channel_labels[:, i] = labels of batch i; mode along axis 1 *)
Definition cbin_labels (nc : nat) (batches : list (list Z)) : list Z :=
  map (fun c => mode (map (fun b => nth c b 0) batches)) (seq 0 nc).

(* ---------------------------------------------------------------------- *)
(* detect_bad_channels.detrend(x, nmed=11): x minus its median-filtered version, the vector being
   extended by ntap = ceil(11/2) = 6 copies of its first and of its last value
     xf = r_[zeros(ntap) + x[0], x, zeros(ntap) + x[-1]];  xf = medfilt(xf, 11)[ntap:-ntap];  x - xf
   (output t sees xf[t+1 .. t+11]; medfilt's own zero padding only reaches the 6 discarded entries at
   either end).  The median of an odd window is modelled as the first entry that has at most h entries
   strictly below and at most h strictly above it; every such entry has the same value
   (Proofs.is_median_unique), the middle order statistic scipy.signal.medfilt returns. *)
Section DetrendModel.
Context {F : Type} (O : ops F).

Definition count_lt (m : F) (l : list F) : nat := length (filter (fun v => fltb O v m) l).
Definition count_gt (m : F) (l : list F) : nat := length (filter (fun v => fltb O m v) l).
Definition is_median (h : nat) (m : F) (l : list F) : bool :=
  (count_lt m l <=? h)%nat && (count_gt m l <=? h)%nat.
Definition median (h : nat) (l : list F) : F :=
  match find (fun m => is_median h m l) l with Some m => m | None => f0 O end.
Definition detrend11 (x : list F) : list F :=
  let xf := repeat (hd (f0 O) x) 6 ++ x ++ repeat (last x (f0 O)) 6 in
  map (fun t => fsub O (nth t x (f0 O)) (median 5 (firstn 11 (skipn (S t) xf)))) (seq 0 (length x)).
End DetrendModel.

(* ---------------------------------------------------------------------- *)
(* Geometry: which channels can be sources.  The raw weight of channel j for channel i is
     exp(-(|(x_j - x_i) + 1j (y_j - y_i)| / 20) ** 1.3)
   a decreasing function of the distance; it is >= 0.005 exactly when the SQUARED distance is at most
   R2 = 5201 um^2 for integer squared distances (the distance at which the weight crosses 0.005 is
   72.1206 um, 72.1206^2 = 5201.38; checked on every run for every coordinate difference that occurs).
   Site coordinates of the probes are integers (um). *)
Definition R2 : Z := 5201.
Definition d2 (xs ys : list Z) (i j : nat) : Z :=
  (nth j xs 0 - nth i xs 0) * (nth j xs 0 - nth i xs 0) +
  (nth j ys 0 - nth i ys 0) * (nth j ys 0 - nth i ys 0).
Definition in_range (xs ys : list Z) (i j : nat) : bool := d2 xs ys i j <=? R2.
(* the channels a dead/noisy channel i is repaired from: not dead/noisy, within the radius *)
Definition geo_sources (xs ys : list Z) (labels : list Z) (i : nat) : list nat :=
  filter (fun j => negb (is_bad (nth j labels 0)) && in_range xs ys i j) (seq 0 (length xs)).
(* the row of raw weights of channel i, from a weight function of (|dx|, |dy|) *)
Definition geo_row {F : Type} (wf : Z -> Z -> F) (xs ys : list Z) (i : nat) : list F :=
  map (fun j => wf (Z.abs (nth j xs 0 - nth i xs 0)) (Z.abs (nth j ys 0 - nth i ys 0)))
      (seq 0 (length xs)).
