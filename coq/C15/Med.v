(* C15 — existence of the median entry (order statistics exist in every finite list) *)
From Coq Require Import ZArith List Bool Lia.
From IBL.C15 Require Import Model Proofs.
Import ListNotations.

Section OrderStat.
Variable F : Type.
Variable O : ops F.
Local Notation "a <f b" := (fltb O a b = true) (at level 70).
Hypothesis lt_irrefl : forall a, fltb O a a = false.
Hypothesis lt_trans : forall a b c, a <f b -> b <f c -> a <f c.
Hypothesis lt_total : forall a b, a <f b \/ a = b \/ b <f a.
Set Default Proof Using "lt_irrefl lt_trans lt_total".

Lemma list_min (l : list F) : l <> [] -> exists m, In m l /\ forall v, In v l -> fltb O v m = false.
Proof.
  induction l as [|a l IH]; [congruence|]. intros _. destruct l as [|b l].
  - exists a. split; [now left|]. intros v [<-|[]]. apply lt_irrefl.
  - destruct (IH ltac:(discriminate)) as [m [Hm Hmin]].
    destruct (fltb O a m) eqn:E.
    + exists a. split; [now left|]. intros v [<-|Hv]; [apply lt_irrefl|].
      destruct (fltb O v a) eqn:E2; [|reflexivity]. rewrite <- (Hmin v Hv). symmetry. eapply lt_trans; eauto.
    + exists m. split; [now right|]. intros v [<-|Hv]; [exact E | now apply Hmin].
Qed.

Lemma filter_compl {A} (p q : A -> bool) l :
  (forall v, In v l -> p v = negb (q v)) -> (length (filter p l) + length (filter q l) = length l)%nat.
Proof.
  induction l as [|a l IH]; intros H; cbn; [reflexivity|].
  specialize (IH (fun v Hv => H v (or_intror Hv))). rewrite (H a (or_introl eq_refl)).
  destruct (q a); cbn; lia.
Qed.

Lemma filter_length_mono {A} (p q : A -> bool) l :
  (forall v, In v l -> p v = true -> q v = true) -> (length (filter p l) <= length (filter q l))%nat.
Proof.
  induction l as [|a l IH]; intros H; cbn; [lia|].
  specialize (IH (fun v Hv => H v (or_intror Hv))). pose proof (H a (or_introl eq_refl)) as Ha.
  destruct (p a); [rewrite Ha by reflexivity; cbn; lia | destruct (q a); cbn; lia].
Qed.

Lemma filter_length_strict {A} (p q : A -> bool) l x :
  (forall v, In v l -> p v = true -> q v = true) -> In x l -> q x = true -> p x = false ->
  (length (filter p l) < length (filter q l))%nat.
Proof.
  induction l as [|a l IH]; intros H Hx Hq Hp; [destruct Hx|]. cbn.
  pose proof (filter_length_mono p q l (fun v Hv => H v (or_intror Hv))) as Hm.
  destruct Hx as [->|Hx].
  - rewrite Hq, Hp. cbn. lia.
  - specialize (IH (fun v Hv => H v (or_intror Hv)) Hx Hq Hp). pose proof (H a (or_introl eq_refl)) as Ha.
    destruct (p a); [rewrite Ha by reflexivity; cbn; lia | destruct (q a); cbn; lia].
Qed.

Lemma filter_none {A} (p : A -> bool) l : (forall a, In a l -> p a = false) -> filter p l = [].
Proof.
  induction l as [|a l IH]; intros H; cbn; [reflexivity|].
  rewrite (H a (or_introl eq_refl)). apply IH. intros b Hb. apply H. now right.
Qed.

(* the k-th order statistic exists *)
Lemma order_stat (l : list F) : forall k, (k < length l)%nat ->
  exists m, In m l /\ (count_lt O m l <= k)%nat /\ (count_gt O m l + k + 1 <= length l)%nat.
Proof.
  induction k as [|k IH]; intros Hk.
  - destruct (list_min l ltac:(intros ->; cbn in Hk; lia)) as [m [Hm Hmin]]. exists m. split; [exact Hm|].
    unfold count_lt, count_gt. split.
    + rewrite (filter_none (fun v => fltb O v m) l Hmin). cbn. lia.
    + pose proof (filter_length_strict (fun v => fltb O m v) (fun _ => true) l m
                    (fun _ _ _ => eq_refl) Hm eq_refl (lt_irrefl m)) as Hs.
      assert (Hall : length (filter (fun _ : F => true) l) = length l).
      { clear. induction l; cbn; [reflexivity|]. now rewrite IHl. }
      lia.
  - destruct (IH ltac:(lia)) as [m [Hm [HL HG]]].
    destruct (Nat.le_gt_cases (count_gt O m l + (S k) + 1) (length l)) as [Hok|Hbig].
    + exists m. repeat split; auto.
    + (* exactly length l - k - 1 entries are greater than m; take the smallest of them *)
      set (gt := filter (fun v => fltb O m v) l).
      assert (Hgt : gt <> []).
      { unfold count_gt in Hbig. fold gt in Hbig. intros E. rewrite E in Hbig. cbn in Hbig. lia. }
      destruct (list_min gt Hgt) as [m' [Hm' Hmin]].
      apply filter_In in Hm'. destruct Hm' as [Hin' Hmm'].
      exists m'. split; [exact Hin'|]. unfold count_lt, count_gt in *. split.
      * (* v < m' iff not (m < v) *)
        pose proof (filter_compl (fun v => fltb O v m') (fun v => fltb O m v) l) as Hc.
        assert (Hiff : forall v, In v l -> fltb O v m' = negb (fltb O m v)).
        { intros v Hv. destruct (fltb O m v) eqn:E; cbn.
          - apply Hmin. apply filter_In. now split.
          - destruct (lt_total v m) as [H|[H|H]]; [eapply lt_trans; eauto | now subst | congruence]. }
        specialize (Hc Hiff). lia.
      * pose proof (filter_length_strict (fun v => fltb O m' v) (fun v => fltb O m v) l m') as Hs.
        assert (Himp : forall v, In v l -> fltb O m' v = true -> fltb O m v = true).
        { intros v _ H. eapply lt_trans; eauto. }
        specialize (Hs Himp Hin' Hmm' (lt_irrefl m')). lia.
Qed.

(* `median h l` of a window of 2h+1 entries is an entry of the window with at most h entries strictly
   below and at most h strictly above it *)
Lemma median_exists h (l : list F) : length l = (2 * h + 1)%nat ->
  In (median O h l) l /\ is_median O h (median O h l) l = true.
Proof.
  intros Hlen. destruct (order_stat l h ltac:(lia)) as [m [Hm [HL HG]]].
  assert (Hmed : is_median O h m l = true).
  { unfold is_median. apply andb_true_iff. split; apply Nat.leb_le; lia. }
  unfold median. destruct (find (fun m0 => is_median O h m0 l) l) as [m0|] eqn:E.
  - apply find_some in E. exact E.
  - exfalso. pose proof (find_none _ _ E m Hm) as Hn. cbn in Hn. congruence.
Qed.
End OrderStat.
