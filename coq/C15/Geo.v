(* C15 — geometry: which channels are sources, in terms of site coordinates; the NP1 / NP2 /
   NPultra / 4-shank trace headers of C08's model. *)
From Coq Require Import ZArith List Bool Lia Field.
From IBL.lib Require Import PyInt.
From IBL.C08 Require Model.
From IBL.C15 Require Import Model Proofs.
Import ListNotations.
Open Scope Z_scope.

Lemma filter_all_false {A} (p : A -> bool) l : (forall a, In a l -> p a = false) -> filter p l = [].
Proof.
  induction l as [|a l IH]; intros H; cbn; [reflexivity|].
  rewrite (H a (or_introl eq_refl)). apply IH. intros b Hb. apply H. now right.
Qed.

Lemma map_fst_filter_combine_seq {B} (d : B) (p : nat * B -> bool) (q : nat -> bool) :
  forall (l : list B) (a : nat),
  (forall t, (t < length l)%nat -> p ((a + t)%nat, nth t l d) = q (a + t)%nat) ->
  map fst (filter p (combine (seq a (length l)) l)) = filter q (seq a (length l)).
Proof.
  induction l as [|x l IH]; intros a H; cbn [length seq combine filter map]; [reflexivity|].
  pose proof (H 0%nat ltac:(cbn; lia)) as H0. cbn [nth] in H0. replace (a + 0)%nat with a in H0 by lia.
  rewrite H0.
  assert (IH' : map fst (filter p (combine (seq (S a) (length l)) l)) = filter q (seq (S a) (length l))).
  { apply IH. intros t Ht. specialize (H (S t) ltac:(cbn; lia)). cbn [nth] in H.
    now replace (a + S t)%nat with (S a + t)%nat in H by lia. }
  destruct (q a); cbn [map fst]; now rewrite IH'.
Qed.

Section Geometric.
Variable F : Type.
Variable O : ops F.
Local Notation zero := (f0 O).
Local Notation "a <f b" := (fltb O a b = true) (at level 70).
Local Notation "a <=f b" := (fltb O b a = false) (at level 70).
Hypothesis Fth : field_theory zero (f1 O) (fadd O) (fmul O) (fsub O) (fopp O) (fdiv O) (finv O) eq.
Add Field Ffield3 : Fth.
Hypothesis lt_irrefl : forall a, fltb O a a = false.
Hypothesis lt_trans : forall a b c, a <f b -> b <f c -> a <f c.
Hypothesis lt_total : forall a b, a <f b \/ a = b \/ b <f a.
Hypothesis lt_add : forall a b c, a <f b -> (fadd O a c) <f (fadd O b c).
Hypothesis lt_mul : forall a b, zero <f a -> zero <f b -> zero <f (fmul O a b).
Set Default Proof Using "Fth lt_irrefl lt_trans lt_total lt_add lt_mul".

Lemma div_pos v s : zero <f v -> zero <f s -> zero <f fdiv O v s.
Proof.
  intros Hv Hs. assert (Hne : s <> zero) by (intros ->; rewrite lt_irrefl in Hs; discriminate).
  replace (fdiv O v s) with (fmul O v (finv O s)) by (field; auto).
  apply lt_mul; [exact Hv|]. now apply (inv_pos F O Fth lt_irrefl lt_trans lt_total lt_add lt_mul).
Qed.

(* the channels used as sources are exactly those that are not dead/noisy and whose raw weight is
   not below the threshold, in ascending order *)
Lemma sources_fst thr labels (w : list F) :
  (forall v, In v w -> zero <=f v) -> zero <f thr ->
  map fst (sources O thr labels w) =
  filter (fun j => negb (is_bad (nth j labels 0)) && negb (fltb O (nth j w zero) thr)) (seq 0 (length w)).
Proof.
  intros Hw Hthr.
  destruct (sources_spec F O Fth lt_irrefl lt_trans lt_total lt_add lt_mul thr labels w Hw) as [_ [_ Hs3]].
  pose proof (no_source_iff F O Fth lt_irrefl lt_trans lt_total lt_add lt_mul thr labels w Hw Hthr) as Hiso.
  unfold sources in *. set (k := kept_weights O thr labels w) in *. set (s := fsum O k) in *.
  assert (Hklen : length k = length w) by apply (kept_length F O Fth lt_irrefl lt_trans lt_total lt_add lt_mul).
  destruct (fnonzero O s) eqn:Hnz.
  - apply (fnonzero_spec F O Fth lt_irrefl lt_trans lt_total lt_add lt_mul) in Hnz.
    assert (Hs0 : zero <=f s).
    { apply (fsum_nonneg F O Fth lt_irrefl lt_trans lt_total lt_add lt_mul).
      apply (kept_nonneg F O Fth lt_irrefl lt_trans lt_total lt_add lt_mul); exact Hw. }
    assert (Hsp : zero <f s).
    { apply (le_cases F O Fth lt_irrefl lt_trans lt_total lt_add lt_mul) in Hs0. destruct Hs0; [auto|congruence]. }
    rewrite <- (map_length (fun v => fdiv O v s) k) at 1.
    rewrite <- Hklen. rewrite <- (map_length (fun v => fdiv O v s) k).
    apply (map_fst_filter_combine_seq zero). intros t Ht. rewrite map_length in Ht. cbn [snd Nat.add].
    assert (Hz : fdiv O zero s = zero) by (field; exact Hnz).
    rewrite <- Hz at 2. rewrite (map_nth (fun v => fdiv O v s)).
    unfold k. rewrite (kept_nth F O Fth lt_irrefl lt_trans lt_total lt_add lt_mul).
    destruct (is_bad (nth t labels 0)); cbn [negb andb]; [now rewrite Hz, lt_irrefl|].
    destruct (fltb O (nth t w zero) thr) eqn:Et; cbn [negb]; [now rewrite Hz, lt_irrefl|].
    apply div_pos; [|exact Hsp].
    exact (lt_le_trans' F O Fth lt_irrefl lt_trans lt_total lt_add lt_mul zero thr _ Hthr Et).
  - cbn [map]. symmetry. apply filter_all_false. intros j Hj. apply in_seq in Hj.
    destruct (proj1 Hiso eq_refl j ltac:(lia)) as [H|H]; rewrite H; [reflexivity | apply andb_false_r].
Qed.

(* geometric form: weights given by a function of (|dx|, |dy|) that crosses the threshold at R2 *)
Variable wf : Z -> Z -> F.
Variable thr : F.
Hypothesis wf_nonneg : forall a b, zero <=f wf a b.
Hypothesis thr_pos : zero <f thr.
Hypothesis wf_cut : forall a b, 0 <= a -> 0 <= b -> (wf a b <f thr <-> R2 < a * a + b * b).
Set Default Proof Using "Fth lt_irrefl lt_trans lt_total lt_add lt_mul wf_nonneg thr_pos wf_cut".

Lemma geo_row_length xs ys i : length (geo_row wf xs ys i) = length xs.
Proof. unfold geo_row. now rewrite map_length, seq_length. Qed.

Lemma geo_sources_spec xs ys labels i :
  map fst (sources O thr labels (geo_row wf xs ys i)) = geo_sources xs ys labels i.
Proof.
  rewrite sources_fst; [|intros v Hv|exact thr_pos].
  2:{ unfold geo_row in Hv. apply in_map_iff in Hv. destruct Hv as [j [<- _]]. apply wf_nonneg. }
  rewrite geo_row_length. unfold geo_sources. apply filter_ext_in. intros j Hj. apply in_seq in Hj.
  f_equal. unfold geo_row.
  set (g := fun j0 => wf (Z.abs (nth j0 xs 0 - nth i xs 0)) (Z.abs (nth j0 ys 0 - nth i ys 0))).
  rewrite (nth_indep _ zero (g 0%nat)) by (rewrite map_length, seq_length; lia).
  rewrite (map_nth_d g (seq 0 (length xs)) 0%nat _ j eq_refl), seq_nth by lia. cbn [Nat.add]. unfold g.
  unfold in_range, d2.
  set (dx := nth j xs 0 - nth i xs 0). set (dy := nth j ys 0 - nth i ys 0).
  pose proof (wf_cut (Z.abs dx) (Z.abs dy) (Z.abs_nonneg _) (Z.abs_nonneg _)) as Hc.
  rewrite !Z.abs_square in Hc.
  destruct (fltb O (wf (Z.abs dx) (Z.abs dy)) thr) eqn:E; cbn [negb].
  - symmetry. apply Z.leb_gt. apply Hc. reflexivity.
  - symmetry. apply Z.leb_le. destruct (Z_le_gt_dec (dx * dx + dy * dy) R2) as [|Hgt]; [assumption|].
    exfalso. assert (Hft : false = true) by (apply Hc; lia). discriminate.
Qed.

Lemma geo_isolated_iff xs ys labels i :
  sources O thr labels (geo_row wf xs ys i) = [] <->
  forall j, (j < length xs)%nat -> is_bad (nth j labels 0) = true \/ R2 < d2 xs ys i j.
Proof.
  pose proof (geo_sources_spec xs ys labels i) as Hs. split.
  - intros E j Hj. rewrite E in Hs. cbn in Hs. unfold geo_sources in Hs.
    destruct (is_bad (nth j labels 0)) eqn:Eb; [now left|]. right.
    destruct (Z_le_gt_dec (d2 xs ys i j) R2) as [Hle|]; [|lia]. exfalso.
    assert (Hin : In j (filter (fun j0 => negb (is_bad (nth j0 labels 0)) && in_range xs ys i j0) (seq 0 (length xs)))).
    { apply filter_In. split; [apply in_seq; lia|]. rewrite Eb. unfold in_range. cbn. now apply Z.leb_le. }
    rewrite <- Hs in Hin. destruct Hin.
  - intros H. destruct (sources O thr labels (geo_row wf xs ys i)) as [|p S] eqn:E; [reflexivity|]. exfalso.
    assert (Hin : In (fst p) (geo_sources xs ys labels i)) by (rewrite <- Hs; now left).
    unfold geo_sources in Hin. apply filter_In in Hin. destruct Hin as [Hj Hp]. apply in_seq in Hj.
    apply andb_true_iff in Hp. destruct Hp as [Hp1 Hp2]. unfold in_range in Hp2. apply Z.leb_le in Hp2.
    destruct (H (fst p) ltac:(lia)) as [Hb|Hd]; [rewrite Hb in Hp1; discriminate | lia].
Qed.
End Geometric.
Unset Default Proof Using.

(* ---------------------------------------------------------------------- *)
(* the dense layouts of neuropixel.trace_header, as modelled and proved in C08 *)
Definition zdist (i j : nat) : Z := Z.abs (Z.of_nat i - Z.of_nat j).

(* sweep over all ordered pairs of sites, without list indexing: every site within the radius is at most
   `reach` channel numbers away, and every site at most `inner` channel numbers away is within the radius *)
Definition sweep (xs ys : list Z) (reach inner : Z) : bool :=
  let pts := combine (zrange (length xs)) (combine xs ys) in
  forallb (fun p => forallb (fun q =>
     let dx := fst (snd q) - fst (snd p) in let dy := snd (snd q) - snd (snd p) in
     let r := dx * dx + dy * dy <=? R2 in
     implb r (Z.abs (fst p - fst q) <=? reach) && implb (Z.abs (fst p - fst q) <=? inner) r) pts) pts.

Lemma sweep_spec xs ys reach inner :
  length ys = length xs -> sweep xs ys reach inner = true ->
  forall i j, (i < length xs)%nat -> (j < length xs)%nat ->
    (in_range xs ys i j = true -> zdist i j <= reach) /\
    (zdist i j <= inner -> in_range xs ys i j = true).
Proof.
  intros Hlen Hs i j Hi Hj. unfold sweep in Hs.
  set (pts := combine (zrange (length xs)) (combine xs ys)) in Hs.
  assert (Hn : length pts = length xs).
  { unfold pts. rewrite !combine_length, zrange_length, Hlen. lia. }
  assert (Hnth : forall k, (k < length xs)%nat ->
             nth k pts (0, (0, 0)) = (Z.of_nat k, (nth k xs 0, nth k ys 0))).
  { intros k Hk. unfold pts. rewrite combine_nth by (rewrite combine_length, zrange_length, Hlen; lia).
    rewrite combine_nth by lia. f_equal. unfold zrange.
    rewrite (nth_indep _ 0 (Z.of_nat 0)) by (rewrite map_length, seq_length; lia).
    rewrite map_nth, seq_nth by lia. reflexivity. }
  rewrite forallb_forall in Hs.
  assert (Ini : In (nth i pts (0, (0, 0))) pts) by (apply nth_In; lia).
  assert (Inj : In (nth j pts (0, (0, 0))) pts) by (apply nth_In; lia).
  specialize (Hs _ Ini). rewrite forallb_forall in Hs. specialize (Hs _ Inj).
  rewrite (Hnth i Hi), (Hnth j Hj) in Hs. cbn [fst snd] in Hs.
  apply andb_true_iff in Hs. destruct Hs as [H1 H2].
  unfold in_range, d2, zdist.
  destruct ((nth j xs 0 - nth i xs 0) * (nth j xs 0 - nth i xs 0) +
            (nth j ys 0 - nth i ys 0) * (nth j ys 0 - nth i ys 0) <=? R2) eqn:E; cbn [implb] in H1, H2.
  - split; [intros _; now apply Z.leb_le | reflexivity].
  - split; [discriminate|]. intros Hd. apply Z.leb_le in Hd. rewrite Hd in H2. discriminate.
Qed.

Definition header_ok (g : C08.Model.gen) (nshank reach inner : Z) : bool :=
  match C08.Model.trace_header g nshank with
  | Some th =>
      let xs := C08.Model.g_x th in let ys := C08.Model.g_y th in
      (length xs =? 384)%nat && (length ys =? 384)%nat && sweep xs ys reach inner
  | None => false
  end.

Lemma np1_header : header_ok C08.Model.NP1 1 7 4 = true.
Proof. vm_compute. reflexivity. Qed.
Lemma np2_header : header_ok C08.Model.NP21 1 9 8 = true.
Proof. vm_compute. reflexivity. Qed.
Lemma npu_header : header_ok C08.Model.NPU 1 96 72 = true.
Proof. vm_compute. reflexivity. Qed.

Lemma header_ok_spec g nshank reach inner :
  header_ok g nshank reach inner = true ->
  exists th, C08.Model.trace_header g nshank = Some th /\
    length (C08.Model.g_x th) = 384%nat /\ length (C08.Model.g_y th) = 384%nat /\
    forall i j, (i < 384)%nat -> (j < 384)%nat ->
      (in_range (C08.Model.g_x th) (C08.Model.g_y th) i j = true -> zdist i j <= reach) /\
      (zdist i j <= inner -> in_range (C08.Model.g_x th) (C08.Model.g_y th) i j = true).
Proof.
  unfold header_ok. destruct (C08.Model.trace_header g nshank) as [th|]; [|discriminate].
  intros H. apply andb_true_iff in H. destruct H as [H H3]. apply andb_true_iff in H. destruct H as [H1 H2].
  apply Nat.eqb_eq in H1, H2. exists th. split; [reflexivity|]. split; [exact H1|]. split; [exact H2|].
  intros i j Hi Hj. apply sweep_spec; try lia; auto.
Qed.

(* two channels of different shanks of the 4-shank header have the same (x, y): the coordinates handed to
   interpolate_bad_channels do not separate the shanks *)
Lemma np24_coincident_sites :
  match C08.Model.trace_header C08.Model.NP24 4 with
  | Some th => (d2 (C08.Model.g_x th) (C08.Model.g_y th) 0 48 =? 0) &&
               negb (nth 0 (C08.Model.g_shank th) 0 =? nth 48 (C08.Model.g_shank th) 0)
  | None => false
  end = true.
Proof. vm_compute. reflexivity. Qed.

(* on a header with the two bounds: a dead/noisy channel whose whole index neighbourhood of radius
   `reach` is dead/noisy has no source; one with a usable channel within `inner` has one *)
Lemma header_isolated (F : Type) (O : ops F)
  (Fth : field_theory (f0 O) (f1 O) (fadd O) (fmul O) (fsub O) (fopp O) (fdiv O) (finv O) eq)
  (lt_irrefl : forall a, fltb O a a = false)
  (lt_trans : forall a b c, fltb O a b = true -> fltb O b c = true -> fltb O a c = true)
  (lt_total : forall a b, fltb O a b = true \/ a = b \/ fltb O b a = true)
  (lt_add : forall a b c, fltb O a b = true -> fltb O (fadd O a c) (fadd O b c) = true)
  (lt_mul : forall a b, fltb O (f0 O) a = true -> fltb O (f0 O) b = true -> fltb O (f0 O) (fmul O a b) = true)
  (wf : Z -> Z -> F) (thr : F)
  (wf_nonneg : forall a b, fltb O (wf a b) (f0 O) = false)
  (thr_pos : fltb O (f0 O) thr = true)
  (wf_cut : forall a b, 0 <= a -> 0 <= b -> (fltb O (wf a b) thr = true <-> R2 < a * a + b * b))
  g nshank reach inner :
  header_ok g nshank reach inner = true ->
  exists th, C08.Model.trace_header g nshank = Some th /\
    length (C08.Model.g_x th) = 384%nat /\
    forall labels i, (i < 384)%nat ->
      let S := sources O thr labels (geo_row wf (C08.Model.g_x th) (C08.Model.g_y th) i) in
      ((forall j, (j < 384)%nat -> zdist i j <= reach -> is_bad (nth j labels 0) = true) -> S = []) /\
      ((exists j, (j < 384)%nat /\ zdist i j <= inner /\ is_bad (nth j labels 0) = false) -> S <> []).
Proof.
  intros Hok. destruct (header_ok_spec g nshank reach inner Hok) as [th [Eth [Hx [Hy Hsw]]]].
  exists th. split; [exact Eth|]. split; [exact Hx|]. intros labels i Hi S.
  pose proof (geo_isolated_iff F O Fth lt_irrefl lt_trans lt_total lt_add lt_mul wf thr wf_nonneg thr_pos wf_cut
                (C08.Model.g_x th) (C08.Model.g_y th) labels i) as Hiff. fold S in Hiff. rewrite Hx in Hiff.
  split.
  - intros Hall. apply Hiff. intros j Hj.
    destruct (in_range (C08.Model.g_x th) (C08.Model.g_y th) i j) eqn:E.
    + left. apply Hall; [exact Hj|]. now apply (Hsw i j Hi Hj).
    + right. unfold in_range in E. apply Z.leb_gt in E. lia.
  - intros [j [Hj [Hd Hb]]] E. destruct (proj1 Hiff E j Hj) as [H|H]; [congruence|].
    pose proof (proj2 (Hsw i j Hi Hj) Hd) as Hr. unfold in_range in Hr. apply Z.leb_le in Hr. lia.
Qed.

(* ---------------------------------------------------------------------- *)
(* F-C15-c: on the 4-shank header the (x, y) handed to interpolate_bad_channels are local to each shank;
   physically the shanks are 250 um apart (SpikeGLX / IMEC NP2.4 geometry).  A source can therefore be a
   channel of another shank, far outside the kriging range. *)
Definition SHANK_PITCH : Z := 250.
Definition phys_d2 (xs ys shanks : list Z) (i j : nat) : Z :=
  let dx := (nth j xs 0 + SHANK_PITCH * nth j shanks 0) - (nth i xs 0 + SHANK_PITCH * nth i shanks 0) in
  let dy := nth j ys 0 - nth i ys 0 in dx * dx + dy * dy.

Definition np24_far_source : bool :=
  match C08.Model.trace_header C08.Model.NP24 4 with
  | Some th =>
      let xs := C08.Model.g_x th in let ys := C08.Model.g_y th in let sh := C08.Model.g_shank th in
      let labels := 1 :: repeat 0 383 in
      existsb (Nat.eqb 48) (geo_sources xs ys labels 0) &&
      negb (nth 0 sh 0 =? nth 48 sh 0) && (R2 <? phys_d2 xs ys sh 0 48)
  | None => false
  end.
Lemma np24_far_source_true : np24_far_source = true.
Proof. vm_compute. reflexivity. Qed.
