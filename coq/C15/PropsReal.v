(* C15 — property theorems about the REAL-NUMBER semantics of the weight expression (Coq reals, coq-interval).
   Kept apart from Props.v because these two theorems depend on the standard library's axioms for the classical
   reals and for the kernel's primitive 63-bit integers (used by coq-interval's interval arithmetic); all
   theorems of Props.v are closed under the global context. *)
From Coq Require Import ZArith List Bool Lia Reals RealField Lra.
From IBL.C08 Require Model.
From IBL.C15 Require Import Model Proofs Geo RealW Props.
Import ListNotations.
Open Scope Z_scope.

(* 15. For the real-number meaning of the source's expression - weight exp(-(sqrt(dx^2+dy^2)/20)^1.3), threshold
   the float64 constant 0.005 - the hypothesis of theorems 10 and 11 HOLDS: R is an ordered field and the weight
   is below the threshold exactly beyond squared distance 5201 (monotonicity + interval arithmetic at 5201 and
   5202).  What remains checked numerically on every run is only that NumPy's float64 evaluation agrees with
   this on the coordinate differences that occur. *)
Theorem C15_reals_weight_by_distance :
  ordered_field ROps /\ weight_by_distance ROps (fun a b => wreal (a * a + b * b)) thr_real.
Proof.
  split.
  - unfold ordered_field. cbn [f0 f1 fadd fmul fsub fopp fdiv finv fltb ROps].
    split; [exact Rfield|]. split; [intros a; apply Rltb_false; apply Rle_refl|].
    split; [intros a b c; rewrite !Rltb_true; apply Rlt_trans|].
    split; [intros a b; rewrite !Rltb_true; destruct (Rtotal_order a b) as [H|[H|H]]; auto|].
    split; [intros a b c; rewrite !Rltb_true; intros H; now apply Rplus_lt_compat_r|].
    intros a b; rewrite !Rltb_true; apply Rmult_lt_0_compat.
  - unfold weight_by_distance, fle. cbn [f0 fltb ROps].
    split; [intros a b; apply Rltb_false; left; apply wreal_pos|].
    split; [apply Rltb_true, thr_real_pos|].
    intros a b Ha Hb. rewrite Rltb_true. apply wreal_cut. nia.
Qed.
Print Assumptions C15_reals_weight_by_distance.

(* 16. Hence, unconditionally for the real-number semantics on the NP1 / NP2 / NPultra headers: a dead/noisy
   channel whose index neighbourhood of radius 7 / 9 / 96 is entirely dead/noisy has no source (zero row), and
   one with a usable channel at most 4 / 8 / 72 numbers away has one. *)
Theorem C15_isolated_on_headers_reals :
  forall g nshank reach inner,
  In (g, nshank, reach, inner)
     [(C08.Model.NP1, 1, 7, 4); (C08.Model.NP21, 1, 9, 8); (C08.Model.NPU, 1, 96, 72)] ->
  exists th, C08.Model.trace_header g nshank = Some th /\
    length (C08.Model.g_x th) = 384%nat /\
    forall labels i, (i < 384)%nat ->
      let S := sources ROps thr_real labels
                 (geo_row (fun a b => wreal (a * a + b * b)) (C08.Model.g_x th) (C08.Model.g_y th) i) in
      ((forall j, (j < 384)%nat -> zdist i j <= reach -> is_bad (nth j labels 0) = true) -> S = []) /\
      ((exists j, (j < 384)%nat /\ zdist i j <= inner /\ is_bad (nth j labels 0) = false) -> S <> []).
Proof.
  destruct C15_reals_weight_by_distance as [Hof Hw].
  exact (C15_isolated_on_headers R ROps Hof _ _ Hw).
Qed.
Print Assumptions C15_isolated_on_headers_reals.

