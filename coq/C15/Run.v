(* C15 — flat-integer interface of the model for the correspondence check,
   with the number carrier instantiated at Qc (canonical rationals; every
   float64 is one).  A number is passed as a pair (m, k) meaning m / 2^k
   (k < 0: m * 2^-k), i.e. exactly the float the implementation saw.

   op 1  interpolate_bad_channels
     input : 1 :: nc :: ns :: kd :: labels[nc] ++ nb :: (nb rows of nc pairs (m,k): raw weights of the
             bad channels, in ascending channel order) ++ data[nc*ns] (row-major integers, value d / 2^kd)
     output: nc*ns integers  floor(value * 2^32)
   op 2  detect_bad_channels, recommendation block
     input : 2 :: nc :: fs_m :: fs_k :: has_user_psd :: up_m :: up_k :: lo_m :: lo_k :: hi_m :: hi_k ::
             xcor_hf[nc triples] ++ xcor_lf[nc triples] ++ psd_hf[nc triples]   (triple = tag, m, k; tag 0 = NaN)
     output: nc labels
   op 4  detect_bad_channels.detrend(x, 11)
     input : 4 :: n :: x[n] (integers)
     output: n integers  floor(value * 2^32)
   op 5  geometry: the source channels of every dead/noisy channel, from integer site coordinates
     input : 5 :: nc :: labels[nc] ++ xs[nc] ++ ys[nc]
     output: for each dead/noisy channel in ascending order: number of sources :: source channels
   op 3  detect_bad_channels_cbin, mode
     input : 3 :: nc :: nb :: labels (nb batches of nc)
     output: nc labels *)
From Coq Require Import ZArith List Bool QArith Qcanon Qround.
From IBL.lib Require Import PyInt RunLib.
From IBL.C15 Require Import Model.
Import ListNotations.
Open Scope Z_scope.

Definition Qcltb (a b : Qc) : bool :=
  match (a ?= b)%Qc with Lt => true | _ => false end.

Definition QcOps : ops Qc :=
  Ops Qc (Q2Qc 0) (Q2Qc 1) Qcplus Qcmult Qcminus Qcopp Qcdiv Qcinv Qcltb.

(* m / 2^k *)
Definition dyadic (m k : Z) : Qc :=
  if k <? 0 then Q2Qc (Qmake (m * 2 ^ (- k)) 1)
  else Q2Qc (Qmake m (Z.to_pos (2 ^ k))).

(* the float64 constants of the source *)
Definition c_0005 : Qc := dyadic 5764607523034235 60.     (* 0.005 = 0x1.47ae147ae147bp-8 *)
Definition c_002  : Qc := dyadic 5764607523034235 58.     (* 0.02  = 0x1.47ae147ae147bp-6 *)
Definition c_14   : Qc := dyadic 3152519739159347 51.     (* 1.4   = 0x1.6666666666666p+0 *)
Definition c_m075 : Qc := dyadic (-3) 2.                  (* -0.75 *)
Definition c_2600 : Qc := dyadic 2600 0.

Fixpoint dec_pairs (n : nat) (l : list Z) : list Qc * list Z :=
  match n with
  | O => ([], l)
  | S n' => match l with
            | m :: k :: r => let '(v, r') := dec_pairs n' r in (dyadic m k :: v, r')
            | _ => ([], [])
            end
  end.

Fixpoint dec_rows (nb nc : nat) (l : list Z) : list (list Qc) * list Z :=
  match nb with
  | O => ([], l)
  | S nb' => let '(row, r) := dec_pairs nc l in
             let '(rows, r') := dec_rows nb' nc r in (row :: rows, r')
  end.

Fixpoint dec_feats (n : nat) (l : list Z) : list (option Qc) * list Z :=
  match n with
  | O => ([], l)
  | S n' => match l with
            | t :: m :: k :: r =>
                let '(v, r') := dec_feats n' r in
                ((if t =? 0 then None else Some (dyadic m k)) :: v, r')
            | _ => ([], [])
            end
  end.

Fixpoint chunks (n : nat) (len : nat) (l : list Z) : list (list Z) :=
  match n with
  | O => []
  | S n' => firstn len l :: chunks n' len (skipn len l)
  end.

Fixpoint index_of (i : nat) (l : list nat) : nat :=
  match l with
  | [] => O
  | a :: r => if Nat.eqb a i then O else S (index_of i r)
  end.

Definition out_scale : Q := Qmake (2 ^ 32) 1.
Definition enc_val (v : Qc) : Z := Qfloor (Qmult (this v) out_scale).

Definition run_interp (nc ns kd : Z) (rest : list Z) : list Z :=
  let ncn := Z.to_nat nc in
  let '(labels, r1) := take_z nc rest in
  match r1 with
  | nb :: r2 =>
      let '(rows, r3) := dec_rows (Z.to_nat nb) ncn r2 in
      let data := map (map (fun d => dyadic d kd)) (chunks ncn (Z.to_nat ns) r3) in
      let bp := bad_positions labels in
      let W := fun i => nth (index_of i bp) rows [] in
      flat_map (map enc_val) (interpolate QcOps c_0005 W labels data)
  | [] => [-999]
  end.

Definition run_rule (nc : Z) (rest : list Z) : list Z :=
  match rest with
  | fsm :: fsk :: has :: upm :: upk :: lom :: lok :: him :: hik :: r0 =>
      let ncn := Z.to_nat nc in
      let '(hf, r1) := dec_feats ncn r0 in
      let '(lf, r2) := dec_feats ncn r1 in
      let '(psd, _) := dec_feats ncn r2 in
      let thr := psd_threshold QcOps c_2600 c_002 c_14 (dyadic fsm fsk)
                   (if has =? 0 then None else Some (dyadic upm upk)) in
      label_rule QcOps (dyadic lom lok) (dyadic him hik) thr c_m075 hf lf psd
  | _ => [-999]
  end.

Definition run (inp : list Z) : list Z :=
  match inp with
  | 1 :: nc :: ns :: kd :: rest => run_interp nc ns kd rest
  | 2 :: nc :: rest => run_rule nc rest
  | 4 :: n :: rest => map enc_val (detrend11 QcOps (map (fun z => dyadic z 0) (firstn (Z.to_nat n) rest)))
  | 5 :: nc :: rest =>
      let '(labels, r1) := take_z nc rest in
      let '(xs, r2) := take_z nc r1 in
      let '(ys, _) := take_z nc r2 in
      flat_map (fun i => let s := geo_sources xs ys labels i in
                         Z.of_nat (length s) :: map Z.of_nat s) (bad_positions labels)
  | 3 :: nc :: nb :: rest => cbin_labels (Z.to_nat nc) (chunks (Z.to_nat nb) (Z.to_nat nc) rest)
  | _ => [-999]
  end.

Definition mismatches := mismatches_of run.
