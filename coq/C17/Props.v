(* C17 — property theorems.  This file contains only statements closed by
   `exact <lemma>` and the Print Assumptions that the check collects.
   Domain of every theorem: ns >= 1, 0 <= overlap < nswin, unbounded. *)
From Coq Require Import ZArith List Bool Lia Ring.
From IBL.lib Require Import PyInt.
From IBL.C17 Require Import Model Proofs Object ObjectProofs ViewsProofs.
From IBL.C17 Require FloatCeil HannRamp.
Import ListNotations.
Open Scope Z_scope.

Local Notation d := (0, 0).

(* The generator loop terminates within the announced number of iterations and
   the announced window count equals the number of windows produced. *)
Theorem C17_nwin_correct : forall ns nswin ov, 1 <= ns -> 0 <= ov < nswin ->
  exists l, firstlast ns nswin ov = Some l /\
            Z.of_nat (length l) = nwin ns nswin ov /\ (1 <= length l)%nat.
Proof. exact pub_total. Qed.
Print Assumptions C17_nwin_correct.

(* First window starts at 0, last ends at ns; consecutive windows are a stride
   nswin-overlap apart and overlap by exactly `overlap`; every window but the
   last has length nswin; with more than one window the last has a length in
   (overlap, nswin]; all windows are non-empty and inside [0, ns]. *)
Theorem C17_windows_structure : forall ns nswin ov l, 1 <= ns -> 0 <= ov < nswin ->
  firstlast ns nswin ov = Some l ->
  fst (nth 0 l d) = 0 /\
  snd (nth (length l - 1) l d) = ns /\
  (forall i, (S i < length l)%nat ->
     snd (nth i l d) - fst (nth i l d) = nswin /\
     fst (nth (S i) l d) = fst (nth i l d) + (nswin - ov) /\
     snd (nth i l d) - fst (nth (S i) l d) = ov) /\
  ((1 < length l)%nat ->
     ov < snd (nth (length l - 1) l d) - fst (nth (length l - 1) l d) <= nswin) /\
  (forall i, (i < length l)%nat -> 0 <= fst (nth i l d) < snd (nth i l d) /\ snd (nth i l d) <= ns).
Proof. intros ns nswin ov l Hns Hov. exact (pub_structure ns nswin ov Hns Hov l). Qed.
Print Assumptions C17_windows_structure.

(* No gaps: every sample lies in some window. *)
Theorem C17_windows_cover : forall ns nswin ov l x, 1 <= ns -> 0 <= ov < nswin ->
  firstlast ns nswin ov = Some l -> 0 <= x < ns ->
  exists i, (i < length l)%nat /\ fst (nth i l d) <= x < snd (nth i l d).
Proof. intros ns nswin ov l x Hns Hov. exact (pub_cover ns nswin ov Hns Hov l x). Qed.
Print Assumptions C17_windows_cover.

(* 'valid' sub-windows (even overlap): one per window, inside it, non-empty,
   and every sample of the signal lies in exactly one of them. *)
Theorem C17_valid_partition : forall ns nswin ov lv, 1 <= ns -> 0 <= ov < nswin ->
  ov mod 2 = 0 -> firstlast_valid ns nswin ov = Some lv ->
  exists l, firstlast ns nswin ov = Some l /\ length lv = length l /\
  (forall i, (i < length lv)%nat ->
     let '(f, la, fv, lv_) := nth i lv (0, 0, 0, 0) in
     (f, la) = nth i l d /\ f <= fv /\ fv < lv_ /\ lv_ <= la) /\
  (forall x, 0 <= x < ns ->
     exists i, (i < length lv)%nat /\
       (let '(_, _, fv, lv_) := nth i lv (0, 0, 0, 0) in fv <= x < lv_) /\
       forall i', (i' < length lv)%nat ->
         (let '(_, _, fv, lv_) := nth i' lv (0, 0, 0, 0) in fv <= x < lv_) -> i' = i).
Proof. intros ns nswin ov lv Hns Hov. exact (pub_valid ns nswin ov Hns Hov lv). Qed.
Print Assumptions C17_valid_partition.

(* Odd overlap: the 'valid' generator refuses (the source asserts). *)
Theorem C17_valid_odd_rejected : forall ns nswin ov,
  ov mod 2 <> 0 -> firstlast_valid ns nswin ov = None.
Proof.
  intros ns nswin ov H. unfold firstlast_valid.
  destruct (ov mod 2 =? 0) eqn:E; [|reflexivity]. apply Z.eqb_eq in E. contradiction.
Qed.
Print Assumptions C17_valid_odd_rejected.

(* Splicing: over any commutative ring, for any ramp with
   w[j] + w[overlap-1-j] = 1 (the source asserts this of its Hann ramp), and
   overlap <= nswin/2 (zero included): at every sample the amplitudes of all
   windows containing it sum to one. *)
Theorem C17_splicing_sums_to_one :
  forall (R : Type) (rO rI : R) (radd rmul rsub : R -> R -> R) (ropp : R -> R),
  ring_theory rO rI radd rmul rsub ropp (@eq R) ->
  forall ns nswin ov (w : Z -> R) l i,
  1 <= ns -> 0 <= ov < nswin -> 2 * ov <= nswin ->
  (forall j, 0 <= j < ov -> radd (w j) (w (ov - 1 - j)) = rI) ->
  firstlast ns nswin ov = Some l -> 0 <= i < ns ->
  spliced_sum ns ov R rO rI radd w l i = rI.
Proof. exact pub_splicing. Qed.
Print Assumptions C17_splicing_sums_to_one.

(* Time scale: twice the numerator of the centre = first index + last index. *)
Theorem C17_tscale_centre : forall w, tscale_num2 w = fst w + (snd w - 1).
Proof. exact pub_tscale. Qed.
Print Assumptions C17_tscale_centre.

(* ---------------------------------------------------------------------- *)
(* Round 2: the WindowGenerator OBJECT (Object.v): shared counter `iw`, several
   generator views of one object consumed in any interleaving, tscale() calls in
   between, amplitude buffers.      *)

(* Interleaving independence.  For any set of views (firstlast, firstlast_valid,
   firstlast_splicing, slice, slice_array) of one object and ANY schedule of
   next() calls on them and tscale() calls, the outputs of the next() calls made on
   view i are view_out k 0, view_out k 1, ... : a function of the view's kind and of
   how often IT was advanced only. *)
Theorem C17_views_interleaving_independent :
  forall ns nswin ov kinds evs st' outs, 1 <= ns -> 0 <= ov < nswin ->
  run_schedule ns nswin ov kinds evs = (st', outs) ->
  forall i k, nth_error kinds i = Some k ->
    outs_of i evs outs =
    map (fun j => view_out ns nswin ov k (Z.of_nat j)) (seq 0 (count_next i evs)).
Proof. intros ns nswin ov kinds evs st' outs Hns Hov. exact (views_independent ns nswin ov Hns Hov kinds evs st' outs). Qed.
Print Assumptions C17_views_interleaving_independent.

(* ... and view_out is the list of the standalone generator of Model.v followed by
   StopIteration (odd overlap, firstlast_valid: AssertionError then StopIteration);
   the emitted valid / splicing tuples are exactly firstlast_valid / splicing. *)
Theorem C17_view_alone_is_generator_list :
  forall ns nswin ov l, 1 <= ns -> 0 <= ov < nswin -> firstlast ns nswin ov = Some l ->
  (forall k (j : nat), asserts ov k = false ->
     view_out ns nswin ov k (Z.of_nat j) = nth j (map (emit ns ov k) l) OStop) /\
  (forall k j, asserts ov k = true ->
     view_out ns nswin ov k j = if j =? 0 then OAssert else OStop) /\
  (forall lv, firstlast_valid ns nswin ov = Some lv -> map (emit ns ov KValid) l = map ovalid lv) /\
  (forall ls, splicing ns nswin ov = Some ls -> map (emit ns ov KSplicing) l = map osplice ls).
Proof.
  intros ns nswin ov l Hns Hov Hl. split; [|split; [|split]].
  - intros k j Ha. exact (view_alone_nth ns nswin ov Hns Hov k l j Hl Ha).
  - intros k j Ha. exact (view_asserting ns nswin ov Hns Hov k j Ha).
  - intros lv. exact (emit_valid_list ns nswin ov l lv Hl).
  - intros ls. exact (emit_splicing_list ns nswin ov l ls Hl).
Qed.
Print Assumptions C17_view_alone_is_generator_list.

(* Joint form: a view that was advanced at least nwin times -- in whatever company --
   has produced exactly the standalone list (to which C17_windows_structure,
   C17_windows_cover, C17_valid_partition, C17_splicing_sums_to_one apply), then
   nothing but StopIteration. *)
Theorem C17_exhausted_view_yields_generator_list :
  forall ns nswin ov kinds evs st' outs l i k, 1 <= ns -> 0 <= ov < nswin ->
  run_schedule ns nswin ov kinds evs = (st', outs) ->
  firstlast ns nswin ov = Some l ->
  nth_error kinds i = Some k -> asserts ov k = false ->
  (length l <= count_next i evs)%nat ->
  firstn (length l) (outs_of i evs outs) = map (emit ns ov k) l /\
  forall x, In x (skipn (length l) (outs_of i evs outs)) -> x = OStop.
Proof. intros ns nswin ov kinds evs st' outs l i k Hns Hov. exact (exhausted_view ns nswin ov kinds evs st' outs l i k Hns Hov). Qed.
Print Assumptions C17_exhausted_view_yields_generator_list.

(* What DOES depend on the interleaving is the shared counter wg.iw (read by
   NP2Converter._ind2save and by the unit tests).  (1) A view consumed with nothing
   else in between -- whatever was done with the object before its first next() --
   leaves iw = index of the window it is at (n-th next(): min(n, nwin) - 1). *)
Theorem C17_iw_tracks_lone_view :
  forall ns nswin ov kinds evs0 i k (n : nat) st' outs, 1 <= ns -> 0 <= ov < nswin ->
  nth_error kinds i = Some k -> asserts ov k = false ->
  count_next i evs0 = O -> (1 <= n)%nat ->
  run_schedule ns nswin ov kinds (evs0 ++ repeat (ENext i) n) = (st', outs) ->
  o_iw (fst st') = Some (Z.min (Z.of_nat n) (nwin ns nswin ov) - 1).
Proof. intros ns nswin ov kinds evs0 i k n st' outs Hns Hov. exact (iw_lone ns nswin ov Hns Hov kinds evs0 i k n st' outs). Qed.
Print Assumptions C17_iw_tracks_lone_view.

(* (2) tscale() returns the centres (twice: first + last - 1) of the standalone list and
   leaves iw = nwin - 1, whatever happened before. *)
Theorem C17_iw_after_tscale :
  forall ns nswin ov kinds evs0 st' outs, 1 <= ns -> 0 <= ov < nswin ->
  run_schedule ns nswin ov kinds (evs0 ++ [ETscale]) = (st', outs) ->
  o_iw (fst st') = Some (nwin ns nswin ov - 1) /\
  exists l, firstlast ns nswin ov = Some l /\
            fst (last outs (OBad, obj0)) = OTscale (map tscale_num2 l).
Proof. intros ns nswin ov kinds evs0 st' outs Hns Hov. exact (iw_tscale ns nswin ov Hns Hov kinds evs0 st' outs). Qed.
Print Assumptions C17_iw_after_tscale.

(* (3) With two views consumed side by side the counter runs ahead of both readers and
   past nwin - 1: zip(wg.firstlast_valid, wg.slice) on (30, 10, 2).  (A statement about
   the current code, confirmed on it by the harness; a reader of wg.iw inside such a loop
   is wrong, the generators' own outputs are not.) *)
Theorem C17_iw_depends_on_interleaving :
  exists ns nswin ov kinds evs, 1 <= ns /\ 0 <= ov < nswin /\
  map (fun p => o_iw (snd p)) (snd (run_schedule ns nswin ov kinds evs))
    = [Some 0; Some 0; Some 1; Some 2; Some 3; Some 4] /\
  count_next 0 evs = 3%nat /\ nwin ns nswin ov = 4.
Proof.
  exists 30, 10, 2, [KValid; KSlice], [ENext 0; ENext 1; ENext 0; ENext 1; ENext 0; ENext 1]%nat.
  destruct iw_interleaving_witness as [H1 H2]. repeat split; try lia; assumption.
Qed.
Print Assumptions C17_iw_depends_on_interleaving.

(* Every yielded amplitude vector is a newly allocated buffer: along any trace the
   allocation counter recorded after event n = number of splicing tuples yielded so far
   (no condition on the triple). *)
Theorem C17_splicing_buffers_fresh :
  forall ns nswin ov kinds evs st' outs,
  run_schedule ns nswin ov kinds evs = (st', outs) ->
  forall n, (n < length outs)%nat ->
    o_nalloc (snd (nth n outs (OBad, obj0))) =
    Z.of_nat (length (filter (fun p => is_splice (fst p)) (firstn (S n) outs))).
Proof.
  intros ns nswin ov kinds evs st' outs Hr n Hn.
  exact (run_nalloc_trace ns nswin ov kinds evs _ st' outs Hr n Hn).
Qed.
Print Assumptions C17_splicing_buffers_fresh.

(* Signal not longer than the window (any overlap): one window, the whole signal, and nwin = 1.
   Positive statement for the class on which nwin wrapped for unsigned NumPy arguments until
   repo 01d7a00 (former finding F-C17-d): __init__ now evaluates the count on the int()-converted
   attributes, so Model.nwin is the count for EVERY representation of the arguments (the harness
   runs 11 representations through the same model). *)
Theorem C17_short_signal_single_window : forall ns nswin ov,
  1 <= ns <= nswin -> 0 <= ov < nswin ->
  nwin ns nswin ov = 1 /\ firstlast ns nswin ov = Some [(0, ns)].
Proof. exact short_signal_single_window. Qed.
Print Assumptions C17_short_signal_single_window.

(* The float64 arithmetic in the window count (was a trusted assumption in round 1).
   FloatCeil.nwin_float64 is the source line at the IEEE-754 binary64 datatype level (Flocq:
   float(n) = binary_normalize, `/` = Bdiv in round-to-nearest-even, np.ceil + int() = ceiling
   of the value): for |ns - nswin| < 2^53 and 0 < nswin - overlap < 2^53 it IS Model.nwin, whose
   division is the exact integer ceiling.  (Depends on the standard library's classical reals.) *)
Theorem C17_nwin_float64_exact : forall ns nswin ov,
  Z.abs (ns - nswin) < 2 ^ 53 -> 0 < nswin - ov < 2 ^ 53 ->
  FloatCeil.nwin_float64 ns nswin ov = nwin ns nswin ov.
Proof. exact FloatCeil.nwin_float64_exact. Qed.
Print Assumptions C17_nwin_float64_exact.

(* its core: for integers 0 < a, b < 2^53, ceil of the binary64 quotient = ceil of a/b *)
Theorem C17_float64_ceil_div_exact : forall a b, 0 < a < 2 ^ 53 -> 0 < b < 2 ^ 53 ->
  FloatCeil.ceil_div64 a b = cdiv a b.
Proof. exact FloatCeil.float64_ceil_div_exact. Qed.
Print Assumptions C17_float64_ceil_div_exact.

(* The Hann ramp of the source, w[j] = 1/2 - 1/2 cos(2 pi (j+1) / (2 overlap + 2)), satisfies the hypothesis of
   C17_splicing_sums_to_one as an identity of real numbers, so over R the splicing amplitudes of
   firstlast_splicing sum to one with no hypothesis on the ramp.  (Classical reals.) *)
Theorem C17_splicing_hann_sums_to_one : forall ns nswin ov l i,
  1 <= ns -> 0 <= ov < nswin -> 2 * ov <= nswin ->
  firstlast ns nswin ov = Some l -> 0 <= i < ns ->
  spliced_sum ns ov Rdefinitions.R (Rdefinitions.IZR 0) (Rdefinitions.IZR 1) Rdefinitions.Rplus
              (HannRamp.hann_ramp ov) l i = Rdefinitions.IZR 1.
Proof. exact HannRamp.splicing_hann_sums_to_one. Qed.
Print Assumptions C17_splicing_hann_sums_to_one.

(* The domain hypothesis overlap < nswin is necessary: otherwise (signal longer than the window) the loop of the
   source never terminates. *)
Theorem C17_overlap_ge_window_diverges : forall ns nswin ov,
  nswin <= ov -> nswin < ns -> firstlast ns nswin ov = None.
Proof. exact firstlast_diverges. Qed.
Print Assumptions C17_overlap_ge_window_diverges.

(* ---------------------------------------------------------------------- *)
(* Round 4: slice / slice_array / tscale related to firstlast.               *)

(* wg.slice and wg.slice_array(sig, axis), consumed in any company and run to their end, yield exactly the
   (first, last) of firstlast, in order, then StopIteration. *)
Theorem C17_slice_views_are_firstlast :
  forall ns nswin ov kinds evs st' outs l i k, 1 <= ns -> 0 <= ov < nswin ->
  run_schedule ns nswin ov kinds evs = (st', outs) -> firstlast ns nswin ov = Some l ->
  nth_error kinds i = Some k -> (length l <= count_next i evs)%nat ->
  (k = KSlice -> firstn (length l) (outs_of i evs outs) = map (fun w => OSlice (fst w) (snd w)) l) /\
  (k = KSliceArray -> firstn (length l) (outs_of i evs outs) = map (fun w => OSliceArray (fst w) (snd w)) l).
Proof.
  intros ns nswin ov kinds evs st' outs l i k Hns Hov Hr Hl Hk Hc.
  split; intros ->;
    destruct (exhausted_view ns nswin ov kinds evs st' outs l i _ Hns Hov Hr Hl Hk eq_refl Hc) as [H _];
    exact H.
Qed.
Print Assumptions C17_slice_views_are_firstlast.

(* slice_array: one array per window; along axis 0 (-2) it is rows first..last-1 of sig, along axis 1 (-1) the same
   positions of every row (take_axis / zslice); zslice l a b has b - a elements, the j-th being l[a + j]. *)
Theorem C17_slice_array_takes_the_windows :
  (forall ns nswin ov axis sig L l,
     slice_array_model ns nswin ov axis sig = Some L -> firstlast ns nswin ov = Some l ->
     length L = length l /\
     forall k, (k < length l)%nat ->
       nth k L [] = take_axis axis sig (fst (nth k l (0, 0))) (snd (nth k l (0, 0)))) /\
  (forall (A : Type) (sig : list A) a b j d, 0 <= a -> 0 <= j < b - a ->
     nth (Z.to_nat j) (zslice sig a b) d = nth (Z.to_nat (a + j)) sig d) /\
  (forall (A : Type) (sig : list A) a b, 0 <= a <= b -> b <= Z.of_nat (length sig) ->
     length (zslice sig a b) = Z.to_nat (b - a)).
Proof.
  split; [exact slice_array_spec|]. split.
  - intros A sig a b j d. exact (zslice_nth sig a b j d).
  - intros A sig a b. exact (zslice_length sig a b).
Qed.
Print Assumptions C17_slice_array_takes_the_windows.

(* zero overlap: the slices of a signal of length ns, put end to end, are the signal (each sample exactly once,
   in order) -- for any element type, so for rows of an array sliced along axis 0 as well *)
Theorem C17_slices_concat_zero_overlap :
  forall (A : Type) ns nswin (sig : list A) l, 1 <= ns -> 0 < nswin ->
  Z.of_nat (length sig) = ns -> firstlast ns nswin 0 = Some l ->
  concat (map (fun w => zslice sig (fst w) (snd w)) l) = sig.
Proof. intros A ns nswin sig l Hns Hw. exact (slices_concat_zero_overlap ns nswin Hns Hw sig l). Qed.
Print Assumptions C17_slices_concat_zero_overlap.

(* tscale: exactly one time per window (nwin of them); twice the k-th is first_k + last_k - 1, i.e. the time is the
   centre (first + (last-1))/2 of the window divided by fs (tscale_q: numerator * fd / (2 fn) for fs = fn/fd);
   strictly increasing. *)
Theorem C17_tscale_one_time_per_window :
  forall ns nswin ov ts l, 1 <= ns -> 0 <= ov < nswin ->
  tscale2 ns nswin ov = Some ts -> firstlast ns nswin ov = Some l ->
  Z.of_nat (length ts) = nwin ns nswin ov /\
  (forall k, (k < length l)%nat -> nth k ts 0 = fst (nth k l (0, 0)) + snd (nth k l (0, 0)) - 1) /\
  (forall k, (S k < length l)%nat -> nth k ts 0 < nth (S k) ts 0).
Proof. exact tscale_spec. Qed.
Print Assumptions C17_tscale_one_time_per_window.

(* Non-vacuity: concrete triples meeting the hypotheses, with the model's values. *)
Example C17_example_short_last :
  firstlast 13 10 4 = Some [(0, 10); (6, 13)] /\ nwin 13 10 4 = 2 /\
  firstlast_valid 13 10 4 = Some [(0, 10, 0, 8); (6, 13, 8, 13)] /\
  splicing 13 10 4 = Some [(0, 10, [-1;-1;-1;-1;-1;-1;3;2;1;0]);
                           (6, 13, [0;1;2;3;-1;-1;-1])].
Proof. vm_compute. repeat split. Qed.

Example C17_example_shorter_than_overlap :
  firstlast 5 20 15 = Some [(0, 5)] /\ nwin 5 20 15 = 1.
Proof. vm_compute. split; reflexivity. Qed.

(* two views of one object side by side, tscale() in the middle: outputs and (iw, nalloc) *)
Example C17_example_interleaved :
  snd (run_schedule 13 10 4 [KValid; KSplicing] [ENext 0; ENext 1; ETscale; ENext 0; ENext 1; ENext 0]%nat)
  = [(OValid 0 10 0 8, mkobj (Some 0) 0);
     (OSplice 0 10 [-1;-1;-1;-1;-1;-1;3;2;1;0], mkobj (Some 0) 1);
     (OTscale [9; 18], mkobj (Some 1) 1);
     (OValid 6 13 8 13, mkobj (Some 2) 1);
     (OSplice 6 13 [0;1;2;3;-1;-1;-1], mkobj (Some 3) 2);
     (OStop, mkobj (Some 3) 2)].
Proof. vm_compute. reflexivity. Qed.

(* --- the hypotheses of every theorem above are satisfiable on non-trivial inputs --- *)

(* C17_splicing_sums_to_one: the ring Z, the ramp [5; 2; -1; -4] (w[j] + w[3-j] = 1), (13, 10, 4) *)
Definition ex_ramp (j : Z) : Z := if j =? 0 then 5 else if j =? 1 then 2 else if j =? 2 then -1 else -4.
Example C17_example_splicing_hypotheses :
  (forall j, 0 <= j < 4 -> ex_ramp j + ex_ramp (4 - 1 - j) = 1) /\
  1 <= 13 /\ 0 <= 4 < 10 /\ 2 * 4 <= 10 /\
  forallb (fun i => spliced_sum 13 4 Z 0 1 Z.add ex_ramp [(0, 10); (6, 13)] i =? 1) (zrange 13) = true.
Proof.
  split; [|repeat split; try lia; vm_compute; reflexivity].
  intros j Hj. assert (H : j = 0 \/ j = 1 \/ j = 2 \/ j = 3) by lia.
  destruct H as [-> | [-> | [-> | ->]]]; reflexivity.
Qed.

(* C17_valid_partition / C17_windows_structure / C17_windows_cover: (400, 64, 32), 12 windows, a full last window *)
Example C17_example_valid_hypotheses :
  1 <= 400 /\ 0 <= 32 < 64 /\ 32 mod 2 = 0 /\ nwin 400 64 32 = 12 /\
  option_map (@length _) (firstlast_valid 400 64 32) = Some 12%nat /\
  option_map (fun l => nth 11 l (0, 0, 0, 0)) (firstlast_valid 400 64 32) = Some (352, 400, 368, 400).
Proof. vm_compute. repeat split; try discriminate; reflexivity. Qed.

(* C17_exhausted_view_yields_generator_list / C17_views_interleaving_independent:
   zip(firstlast_valid, firstlast_splicing) on (13, 10, 4), three rounds; both views exhausted *)
Example C17_example_exhausted_hypotheses :
  let evs := [ENext 0; ENext 1; ENext 0; ENext 1; ENext 0; ENext 1]%nat in
  firstlast 13 10 4 = Some [(0, 10); (6, 13)] /\ nth_error [KValid; KSplicing] 0 = Some KValid /\
  asserts 4 KValid = false /\ (2 <= count_next 0 evs)%nat /\
  outs_of 0 evs (snd (run_schedule 13 10 4 [KValid; KSplicing] evs)) =
    [OValid 0 10 0 8; OValid 6 13 8 13; OStop].
Proof. vm_compute. repeat split; try lia. Qed.

(* C17_iw_tracks_lone_view: something else first (a slice view and a tscale()), then a valid view alone *)
Example C17_example_lone_view_hypotheses :
  let evs0 := [ENext 0; ETscale]%nat in
  nth_error [KSlice; KValid] 1 = Some KValid /\ asserts 2 KValid = false /\ count_next 1 evs0 = 0%nat /\
  map (fun n => o_iw (fst (fst (run_schedule 30 10 2 [KSlice; KValid] (evs0 ++ repeat (ENext 1%nat) n)))))
      [1; 2; 3; 4; 5]%nat = [Some 0; Some 1; Some 2; Some 3; Some 3] /\ nwin 30 10 2 = 4.
Proof. vm_compute. repeat split. Qed.

(* C17_nwin_float64_exact / C17_float64_ceil_div_exact: the spike-sorting default (65536, 1024) on 300000 samples *)
Example C17_example_float_hypotheses :
  Z.abs (300000 - 65536) < 2 ^ 53 /\ 0 < 65536 - 1024 < 2 ^ 53 /\ nwin 300000 65536 1024 = 5.
Proof. vm_compute. repeat split; try discriminate; reflexivity. Qed.

(* C17_overlap_ge_window_diverges / C17_short_signal_single_window *)
Example C17_example_domain_edges :
  firstlast 1000 300 576 = None /\ firstlast 200 300 576 = Some [(0, 200)] /\ firstlast 5 20 15 = Some [(0, 5)].
Proof. vm_compute. repeat split. Qed.

(* round 4: slice_array of a 5 x 2 array along axis 0 and of its transpose along axis 1, windows (5, 3, 1);
   tscale at fs = 30000/1 *)
Example C17_example_slice_array :
  slice_array_model 5 3 1 0 [[0;1];[2;3];[4;5];[6;7];[8;9]] =
    Some [[[0;1];[2;3];[4;5]]; [[4;5];[6;7];[8;9]]] /\
  slice_array_model 5 3 1 (-1) [[0;2;4;6;8];[1;3;5;7;9]] =
    Some [[[0;2;4];[1;3;5]]; [[4;6;8];[5;7;9]]] /\
  option_map (map (tscale_q 30000 1)) (firstlast 5 3 1) = Some [(2, 60000); (6, 60000)] /\
  concat (map (fun w => zslice [10;11;12;13;14;15;16] (fst w) (snd w)) [(0, 3); (3, 6); (6, 7)]) = [10;11;12;13;14;15;16] /\
  firstlast 7 3 0 = Some [(0, 3); (3, 6); (6, 7)].
Proof. vm_compute. repeat split. Qed.
