(* C17 — property theorems.  This file contains only statements closed by
   `exact <lemma>` and the Print Assumptions that the check collects.
   Domain of every theorem: ns >= 1, 0 <= overlap < nswin, unbounded. *)
From Coq Require Import ZArith List Bool Lia Ring.
From IBL.lib Require Import PyInt.
From IBL.C17 Require Import Model Proofs.
Import ListNotations.
Open Scope Z_scope.

Local Notation d := (0, 0).

(* The generator loop terminates within the announced number of iterations and
   the announced window count equals the number of windows produced. *)
Theorem C17_nwin_correct : forall ns nswin ov, 1 <= ns -> 0 <= ov < nswin ->
  exists l, firstlast ns nswin ov = Some l /\
            Z.of_nat (length l) = nwin ns nswin ov /\ (1 <= length l)%nat.
Proof. exact pub_total. Qed.
Print Assumptions C17_nwin_correct.

(* First window starts at 0, last ends at ns; consecutive windows are a stride
   nswin-overlap apart and overlap by exactly `overlap`; every window but the
   last has length nswin; with more than one window the last has a length in
   (overlap, nswin]; all windows are non-empty and inside [0, ns]. *)
Theorem C17_windows_structure : forall ns nswin ov l, 1 <= ns -> 0 <= ov < nswin ->
  firstlast ns nswin ov = Some l ->
  fst (nth 0 l d) = 0 /\
  snd (nth (length l - 1) l d) = ns /\
  (forall i, (S i < length l)%nat ->
     snd (nth i l d) - fst (nth i l d) = nswin /\
     fst (nth (S i) l d) = fst (nth i l d) + (nswin - ov) /\
     snd (nth i l d) - fst (nth (S i) l d) = ov) /\
  ((1 < length l)%nat ->
     ov < snd (nth (length l - 1) l d) - fst (nth (length l - 1) l d) <= nswin) /\
  (forall i, (i < length l)%nat -> 0 <= fst (nth i l d) < snd (nth i l d) /\ snd (nth i l d) <= ns).
Proof. intros ns nswin ov l Hns Hov. exact (pub_structure ns nswin ov Hns Hov l). Qed.
Print Assumptions C17_windows_structure.

(* No gaps: every sample lies in some window. *)
Theorem C17_windows_cover : forall ns nswin ov l x, 1 <= ns -> 0 <= ov < nswin ->
  firstlast ns nswin ov = Some l -> 0 <= x < ns ->
  exists i, (i < length l)%nat /\ fst (nth i l d) <= x < snd (nth i l d).
Proof. intros ns nswin ov l x Hns Hov. exact (pub_cover ns nswin ov Hns Hov l x). Qed.
Print Assumptions C17_windows_cover.

(* 'valid' sub-windows (even overlap): one per window, inside it, non-empty,
   and every sample of the signal lies in exactly one of them. *)
Theorem C17_valid_partition : forall ns nswin ov lv, 1 <= ns -> 0 <= ov < nswin ->
  ov mod 2 = 0 -> firstlast_valid ns nswin ov = Some lv ->
  exists l, firstlast ns nswin ov = Some l /\ length lv = length l /\
  (forall i, (i < length lv)%nat ->
     let '(f, la, fv, lv_) := nth i lv (0, 0, 0, 0) in
     (f, la) = nth i l d /\ f <= fv /\ fv < lv_ /\ lv_ <= la) /\
  (forall x, 0 <= x < ns ->
     exists i, (i < length lv)%nat /\
       (let '(_, _, fv, lv_) := nth i lv (0, 0, 0, 0) in fv <= x < lv_) /\
       forall i', (i' < length lv)%nat ->
         (let '(_, _, fv, lv_) := nth i' lv (0, 0, 0, 0) in fv <= x < lv_) -> i' = i).
Proof. intros ns nswin ov lv Hns Hov. exact (pub_valid ns nswin ov Hns Hov lv). Qed.
Print Assumptions C17_valid_partition.

(* Odd overlap: the 'valid' generator refuses (the source asserts). *)
Theorem C17_valid_odd_rejected : forall ns nswin ov,
  ov mod 2 <> 0 -> firstlast_valid ns nswin ov = None.
Proof.
  intros ns nswin ov H. unfold firstlast_valid.
  destruct (ov mod 2 =? 0) eqn:E; [|reflexivity]. apply Z.eqb_eq in E. contradiction.
Qed.
Print Assumptions C17_valid_odd_rejected.

(* Splicing: over any commutative ring, for any ramp with
   w[j] + w[overlap-1-j] = 1 (the source asserts this of its Hann ramp), and
   overlap <= nswin/2 (zero included): at every sample the amplitudes of all
   windows containing it sum to one. *)
Theorem C17_splicing_sums_to_one :
  forall (R : Type) (rO rI : R) (radd rmul rsub : R -> R -> R) (ropp : R -> R),
  ring_theory rO rI radd rmul rsub ropp (@eq R) ->
  forall ns nswin ov (w : Z -> R) l i,
  1 <= ns -> 0 <= ov < nswin -> 2 * ov <= nswin ->
  (forall j, 0 <= j < ov -> radd (w j) (w (ov - 1 - j)) = rI) ->
  firstlast ns nswin ov = Some l -> 0 <= i < ns ->
  spliced_sum ns ov R rO rI radd w l i = rI.
Proof. exact pub_splicing. Qed.
Print Assumptions C17_splicing_sums_to_one.

(* Time scale: twice the numerator of the centre = first index + last index. *)
Theorem C17_tscale_centre : forall w, tscale_num2 w = fst w + (snd w - 1).
Proof. exact pub_tscale. Qed.
Print Assumptions C17_tscale_centre.

(* Non-vacuity: concrete triples meeting the hypotheses, with the model's values. *)
Example C17_example_short_last :
  firstlast 13 10 4 = Some [(0, 10); (6, 13)] /\ nwin 13 10 4 = 2 /\
  firstlast_valid 13 10 4 = Some [(0, 10, 0, 8); (6, 13, 8, 13)] /\
  splicing 13 10 4 = Some [(0, 10, [-1;-1;-1;-1;-1;-1;3;2;1;0]);
                           (6, 13, [0;1;2;3;-1;-1;-1])].
Proof. vm_compute. repeat split. Qed.

Example C17_example_shorter_than_overlap :
  firstlast 5 20 15 = Some [(0, 5)] /\ nwin 5 20 15 = 1.
Proof. vm_compute. split; reflexivity. Qed.
