(* C17 round 2 -- lemmas about the WindowGenerator object model (Object.v). *)
From Coq Require Import ZArith List Bool Lia.
From IBL.lib Require Import PyInt.
From IBL.C17 Require Import Model Proofs Object.
Import ListNotations.
Open Scope Z_scope.

(* ------------------------------------------------------------------ *)
(* signal not longer than the window: exactly one window, the whole signal,
   and the count says so (the class on which the count used to wrap for
   unsigned arguments before repo 01d7a00) *)
Lemma short_signal_single_window ns nswin ov :
  1 <= ns <= nswin -> 0 <= ov < nswin ->
  nwin ns nswin ov = 1 /\ firstlast ns nswin ov = Some [(0, ns)].
Proof.
  intros Hn Hov.
  assert (H1 : nwin ns nswin ov = 1).
  { unfold nwin. pose proof (cdiv_nonpos (ns - nswin) (nswin - ov) ltac:(lia) ltac:(lia)). lia. }
  split; [exact H1|]. unfold firstlast. rewrite H1. change (Z.to_nat 1) with 1%nat.
  cbn [firstlast_loop]. replace (Z.min (0 + nswin) ns) with ns by lia. rewrite Z.eqb_refl. reflexivity.
Qed.

(* ------------------------------------------------------------------ *)
(* generic list helpers                                                 *)

Lemma set_nth_length {A} (x : A) : forall l i, length (set_nth i x l) = length l.
Proof. induction l as [|a l IH]; intros [|i]; cbn [set_nth length]; auto. Qed.

Lemma set_nth_same {A} (x : A) : forall l i, (i < length l)%nat ->
  nth_error (set_nth i x l) i = Some x.
Proof.
  induction l as [|a l IH]; intros [|i] Hi; cbn [length] in Hi; try lia; cbn [set_nth nth_error].
  - reflexivity.
  - apply IH. lia.
Qed.

Lemma set_nth_other {A} (x : A) : forall l i j, i <> j ->
  nth_error (set_nth i x l) j = nth_error l j.
Proof.
  induction l as [|a l IH]; intros [|i] [|j] Hne; cbn [set_nth nth_error]; try reflexivity; try lia.
  apply IH. lia.
Qed.

Lemma o_iw_alloc k o : o_iw (alloc k o) = o_iw o.
Proof. destruct k; reflexivity. Qed.

Lemma o_nalloc_alloc k o : o_nalloc (alloc k o) = o_nalloc o + (if match k with KSplicing => true | _ => false end then 1 else 0).
Proof. destruct k; cbn [alloc o_nalloc]; lia. Qed.

Lemma is_splice_emit ns ov k w :
  is_splice (emit ns ov k w) = match k with KSplicing => true | _ => false end.
Proof.
  destruct k; try reflexivity. cbn [emit].
  destruct (valid_of ns ov w) as [[[f l] fv] lv]. reflexivity.
Qed.

Lemma run_events_app ns nswin ov kinds : forall a b st,
  run_events ns nswin ov kinds st (a ++ b) =
  let '(st1, o1) := run_events ns nswin ov kinds st a in
  let '(st2, o2) := run_events ns nswin ov kinds st1 b in (st2, o1 ++ o2).
Proof.
  induction a as [|e a IH]; intros b st; cbn [app run_events].
  - destruct (run_events ns nswin ov kinds st b). reflexivity.
  - destruct (step ns nswin ov kinds st e) as [st' x]. rewrite IH.
    destruct (run_events ns nswin ov kinds st' a) as [st1 o1].
    destruct (run_events ns nswin ov kinds st1 b) as [st2 o2]. reflexivity.
Qed.

(* Every yielded amplitude vector is a newly allocated buffer: the allocation
   counter moves by one exactly at the events that yield a splicing tuple.
   (No hypothesis on the triple.) *)
Lemma step_nalloc ns nswin ov kinds st e st' x :
  step ns nswin ov kinds st e = (st', x) ->
  o_nalloc (fst st') = o_nalloc (fst st) + (if is_splice x then 1 else 0).
Proof.
  destruct st as [o vs]. unfold step. cbn [fst snd]. destruct e as [i|].
  - destruct (nth_error kinds i) as [k|]; [|intros [= <- <-]; cbn; lia].
    destruct (nth_error vs i) as [v|]; [|intros [= <- <-]; cbn; lia].
    unfold vnext. destruct v as [|[f l]|].
    + destruct (asserts ov k); intros [= <- <-]; cbn [fst is_splice]; [lia|].
      rewrite o_nalloc_alloc, is_splice_emit. cbn [o_nalloc]. reflexivity.
    + destruct (l =? ns); intros [= <- <-]; cbn [fst is_splice]; [lia|].
      rewrite o_nalloc_alloc, is_splice_emit. cbn [o_nalloc]. reflexivity.
    + intros [= <- <-]. cbn. lia.
  - unfold tscale_ev. destruct (firstlast ns nswin ov); intros [= <- <-]; cbn; lia.
Qed.

Lemma run_nalloc ns nswin ov kinds : forall evs st st' outs,
  run_events ns nswin ov kinds st evs = (st', outs) ->
  o_nalloc (fst st') =
  o_nalloc (fst st) + Z.of_nat (length (filter (fun p => is_splice (fst p)) outs)).
Proof.
  induction evs as [|e evs IH]; intros st st' outs; cbn [run_events].
  - intros [= <- <-]. cbn. lia.
  - destruct (step ns nswin ov kinds st e) as [st1 x] eqn:Es.
    destruct (run_events ns nswin ov kinds st1 evs) as [st2 xs] eqn:Er.
    intros [= <- <-]. rewrite (IH _ _ _ Er), (step_nalloc _ _ _ _ _ _ _ _ Es).
    cbn [filter fst]. destruct (is_splice x); cbn [length]; lia.
Qed.

(* the object state recorded next to each output is the state after that event;
   in particular the recorded allocation counter goes up by one exactly at
   splicing yields, along the whole trace *)
Lemma run_nalloc_trace ns nswin ov kinds : forall evs st st' outs,
  run_events ns nswin ov kinds st evs = (st', outs) ->
  forall n, (n < length outs)%nat ->
    o_nalloc (snd (nth n outs (OBad, fst st))) =
    o_nalloc (fst st) +
    Z.of_nat (length (filter (fun p => is_splice (fst p)) (firstn (S n) outs))).
Proof.
  induction evs as [|e evs IH]; intros st st' outs; cbn [run_events].
  - intros [= <- <-] n Hn. cbn in Hn. lia.
  - destruct (step ns nswin ov kinds st e) as [st1 x] eqn:Es.
    destruct (run_events ns nswin ov kinds st1 evs) as [st2 xs] eqn:Er.
    intros [= <- <-] n Hn. pose proof (step_nalloc _ _ _ _ _ _ _ _ Es) as H1.
    destruct n as [|n].
    + cbn [nth snd firstn filter fst]. destruct (is_splice x); cbn [length]; lia.
    + cbn [length] in Hn. cbn [nth].
      rewrite (nth_indep xs (OBad, fst st) (OBad, fst st1)) by lia.
      rewrite (IH _ _ _ Er n ltac:(lia)). rewrite H1.
      cbn [firstn filter fst]. destruct (is_splice x); cbn [length]; lia.
Qed.

(* ------------------------------------------------------------------ *)
(* (B) the state machine on the property's domain                       *)

Section Machine.
Variables ns nswin ov : Z.
Hypothesis Hns : 1 <= ns.
Hypothesis Hov : 0 <= ov < nswin.
Set Default Proof Using "Hns Hov".

Local Notation s := (stride nswin ov).
Local Notation K := (lastk ns nswin ov).
Local Notation NW := (nwin ns nswin ov).

(* state of a view after n calls of next() on it -- whatever else happened *)
Definition vstate_after (k : vkind) (n : Z) : vstate :=
  if n =? 0 then VFresh
  else if asserts ov k then VDone
  else if n <=? NW then VAt (win ns nswin ov (n - 1)) else VDone.

(* effect of the (n+1)-th next() of a view of kind k on the object *)
Definition obj_after (k : vkind) (o : obj) (n : Z) : obj :=
  if asserts ov k then o
  else if n =? 0 then alloc k (mkobj (Some 0) (o_nalloc o))
  else if n <? NW then alloc k (mkobj (option_map (Z.add 1) (o_iw o)) (o_nalloc o))
  else o.

Lemma NW_pos : 1 <= NW.
Proof. rewrite (nwin_K ns nswin ov Hns Hov). pose proof (K_nonneg ns nswin ov Hns Hov). lia. Qed.

Lemma vnext_after k o n : 0 <= n ->
  vnext ns nswin ov k o (vstate_after k n) =
  (obj_after k o n, vstate_after k (n + 1), view_out ns nswin ov k n).
Proof.
  intros Hn. pose proof NW_pos as HNW.
  pose proof (nwin_K ns nswin ov Hns Hov) as HK.
  unfold vstate_after, obj_after, view_out.
  destruct (n =? 0) eqn:En0.
  - (* first next() *)
    assert (n = 0) by lia. subst n. cbn [vnext].
    change (0 + 1 =? 0) with false. change (0 + 1) with 1.
    destruct (asserts ov k); [reflexivity|].
    destruct (1 <=? NW) eqn:E2; [|lia]. destruct (0 <? NW) eqn:E3; [|lia].
    change (1 - 1) with 0.
    assert (Hw : (0, Z.min (0 + nswin) ns) = win ns nswin ov 0).
    { unfold win. rewrite Z.mul_0_l. reflexivity. }
    rewrite Hw. reflexivity.
  - destruct (n + 1 =? 0) eqn:E1; [lia|]. clear E1.
    destruct (asserts ov k); [reflexivity|].
    destruct (n <=? NW) eqn:E2.
    + (* suspended at window n-1 *)
      destruct (Z.eq_dec n NW) as [HeqN|HneN].
      * (* that was the last window: break *)
        assert (Hlast : win ns nswin ov (n - 1) = ((n - 1) * s, ns)).
        { replace (n - 1) with K by lia.
          pose proof (win_last_K ns nswin ov Hns Hov) as H1.
          pose proof (win_first ns nswin ov Hns Hov K) as H0.
          destruct (win ns nswin ov K) as [f l]. cbn [fst snd] in *. now subst. }
        rewrite Hlast. cbn [vnext]. rewrite Z.eqb_refl.
        destruct (n + 1 <=? NW) eqn:E3; [lia|]. destruct (n <? NW) eqn:E4; [lia|]. reflexivity.
      * pose proof (before_K_short ns nswin ov Hns Hov (n - 1) ltac:(lia)) as Hshort.
        assert (Hin : win ns nswin ov (n - 1) = ((n - 1) * s, (n - 1) * s + nswin)).
        { unfold win, stride in *. f_equal. lia. }
        rewrite Hin. cbn [vnext].
        destruct ((n - 1) * s + nswin =? ns) eqn:E3; [lia|].
        destruct (n + 1 <=? NW) eqn:E4; [|lia]. destruct (n <? NW) eqn:E5; [|lia].
        replace (n + 1 - 1) with n by lia.
        assert (Hw : ((n - 1) * s + (nswin - ov), Z.min ((n - 1) * s + (nswin - ov) + nswin) ns)
                     = win ns nswin ov n).
        { unfold win, stride. replace ((n - 1) * (nswin - ov) + (nswin - ov)) with (n * (nswin - ov)) by ring.
          reflexivity. }
        rewrite Hw. reflexivity.
    + cbn [vnext]. destruct (n + 1 <=? NW) eqn:E3; [lia|]. destruct (n <? NW) eqn:E4; [lia|]. reflexivity.
Qed.

(* --- invariant: every view's state is a function of how often IT was advanced --- *)
Definition inv (kinds : list vkind) (c : nat -> Z) (vs : list vstate) : Prop :=
  length vs = length kinds /\
  forall i k, nth_error kinds i = Some k -> nth_error vs i = Some (vstate_after k (c i)).

Definition upd (c : nat -> Z) (i : nat) : nat -> Z :=
  fun j => if Nat.eqb j i then c j + 1 else c j.

Fixpoint cnt_after (c : nat -> Z) (evs : list event) : nat -> Z :=
  match evs with
  | [] => c
  | ENext i :: r => cnt_after (upd c i) r
  | ETscale :: r => cnt_after c r
  end.

Lemma cnt_after_count : forall evs c i,
  cnt_after c evs i = c i + Z.of_nat (count_next i evs).
Proof.
  induction evs as [|[i'|] evs IH]; intros c i; cbn [cnt_after count_next].
  - lia.
  - rewrite IH. unfold upd. rewrite Nat.eqb_sym. destruct (Nat.eqb i' i); lia.
  - apply IH.
Qed.

Lemma inv_init kinds : inv kinds (fun _ => 0) (map (fun _ => VFresh) kinds).
Proof.
  split; [apply map_length|]. intros i k Hk.
  rewrite (map_nth_error (fun _ => VFresh) i kinds Hk). reflexivity.
Qed.

Lemma step_next_spec kinds c o vs i k :
  inv kinds c vs -> (forall j, 0 <= c j) -> nth_error kinds i = Some k ->
  exists vs', step ns nswin ov kinds (o, vs) (ENext i) =
              ((obj_after k o (c i), vs'), view_out ns nswin ov k (c i)) /\
              inv kinds (upd c i) vs'.
Proof.
  intros [Hlen Hinv] Hc Hk. unfold step. cbn [fst snd]. rewrite Hk, (Hinv i k Hk).
  rewrite (vnext_after k o (c i) (Hc i)).
  eexists. split; [reflexivity|].
  assert (Hi : (i < length vs)%nat).
  { rewrite Hlen. apply nth_error_Some. congruence. }
  split; [now rewrite set_nth_length|].
  intros j kj Hkj. unfold upd. destruct (Nat.eqb j i) eqn:E.
  - apply Nat.eqb_eq in E. subst j. rewrite set_nth_same by assumption. congruence.
  - apply Nat.eqb_neq in E. rewrite set_nth_other by congruence. now apply Hinv.
Qed.

Lemma step_bad_spec kinds c o vs i :
  inv kinds c vs -> nth_error kinds i = None ->
  step ns nswin ov kinds (o, vs) (ENext i) = ((o, vs), OBad) /\ inv kinds (upd c i) vs.
Proof.
  intros [Hlen Hinv] Hk. unfold step. cbn [fst snd]. rewrite Hk. split; [reflexivity|].
  split; [assumption|]. intros j kj Hkj. unfold upd. destruct (Nat.eqb j i) eqn:E.
  - apply Nat.eqb_eq in E. congruence.
  - now apply Hinv.
Qed.

Lemma upd_nonneg c i : (forall j, 0 <= c j) -> forall j, 0 <= upd c i j.
Proof. intros H j. unfold upd. specialize (H j). destruct (Nat.eqb j i); lia. Qed.

(* main lemma: from any reachable state *)
Lemma run_events_spec kinds : forall evs c o vs st' outs,
  inv kinds c vs -> (forall j, 0 <= c j) ->
  run_events ns nswin ov kinds (o, vs) evs = (st', outs) ->
  inv kinds (cnt_after c evs) (snd st') /\
  length outs = length evs /\
  forall i k, nth_error kinds i = Some k ->
    outs_of i evs outs =
    map (fun j => view_out ns nswin ov k (c i + Z.of_nat j)) (seq 0 (count_next i evs)).
Proof.
  induction evs as [|e evs IH]; intros c o vs st' outs Hinv Hc; cbn [run_events].
  - intros [= <- <-]. cbn. auto.
  - destruct (step ns nswin ov kinds (o, vs) e) as [[o1 vs1] x] eqn:Es.
    destruct (run_events ns nswin ov kinds (o1, vs1) evs) as [st2 xs] eqn:Er.
    intros [= <- <-]. destruct e as [i'|].
    + destruct (nth_error kinds i') as [k'|] eqn:Hk'.
      * destruct (step_next_spec kinds c o vs i' k' Hinv Hc Hk') as [vs' [Hs Hinv']].
        rewrite Hs in Es. injection Es as <- <- <-.
        destruct (IH _ _ _ _ _ Hinv' (upd_nonneg c i' Hc) Er) as [Hi2 [Hl2 Ho2]].
        split; [exact Hi2|]. split; [cbn [length]; lia|].
        intros i k Hk. cbn [outs_of count_next cnt_after]. rewrite (Ho2 i k Hk).
        unfold upd. rewrite (Nat.eqb_sym i i'). destruct (Nat.eqb i' i) eqn:E.
        -- apply Nat.eqb_eq in E. subst i'. assert (k' = k) by congruence. subst k'.
           cbn [seq map]. rewrite Z.add_0_r. f_equal.
           rewrite <- seq_shift, map_map. apply map_ext. intros j. f_equal. lia.
        -- reflexivity.
      * destruct (step_bad_spec kinds c o vs i' Hinv Hk') as [Hs Hinv'].
        rewrite Hs in Es. injection Es as <- <- <-.
        destruct (IH _ _ _ _ _ Hinv' (upd_nonneg c i' Hc) Er) as [Hi2 [Hl2 Ho2]].
        split; [exact Hi2|]. split; [cbn [length]; lia|].
        intros i k Hk. cbn [outs_of count_next cnt_after]. rewrite (Ho2 i k Hk).
        unfold upd. rewrite (Nat.eqb_sym i i'). destruct (Nat.eqb i' i) eqn:E.
        -- apply Nat.eqb_eq in E. congruence.
        -- reflexivity.
    + unfold step in Es. cbn [fst snd] in Es.
      destruct (tscale_ev ns nswin ov o) as [o' r]. injection Es as <- <- <-.
      destruct (IH _ _ _ _ _ Hinv Hc Er) as [Hi2 [Hl2 Ho2]].
      split; [exact Hi2|]. split; [cbn [length]; lia|].
      intros i k Hk. cbn [outs_of count_next]. now apply Ho2.
Qed.

(* Interleaving independence, from the object as __init__ leaves it. *)
Lemma views_independent kinds evs st' outs :
  run_schedule ns nswin ov kinds evs = (st', outs) ->
  forall i k, nth_error kinds i = Some k ->
    outs_of i evs outs =
    map (fun j => view_out ns nswin ov k (Z.of_nat j)) (seq 0 (count_next i evs)).
Proof.
  unfold run_schedule, init_state. intros Hr i k Hk.
  destruct (run_events_spec kinds evs (fun _ => 0) _ _ _ _ (inv_init kinds) ltac:(intros; lia) Hr)
    as [_ [_ H]].
  rewrite (H i k Hk). apply map_ext. intros j. f_equal.
Qed.

(* view_out is the standalone generator's list followed by StopIteration *)
Lemma view_alone_nth k l (j : nat) :
  firstlast ns nswin ov = Some l -> asserts ov k = false ->
  view_out ns nswin ov k (Z.of_nat j) = nth j (map (emit ns ov k) l) OStop.
Proof.
  intros Hl Ha. unfold view_out. rewrite Ha.
  pose proof (pub_length ns nswin ov Hns Hov l Hl) as Hlen.
  pose proof (K_nonneg ns nswin ov Hns Hov) as HK.
  rewrite (nwin_K ns nswin ov Hns Hov).
  destruct (Z.of_nat j <? K + 1) eqn:E.
  - assert (Hj : (j < length l)%nat) by lia.
    rewrite (nth_indep _ OStop (emit ns ov k (0, 0))) by (now rewrite map_length).
    rewrite map_nth. f_equal. symmetry. now apply (pub_nth ns nswin ov Hns Hov).
  - rewrite nth_overflow; [reflexivity|]. rewrite map_length. lia.
Qed.

Lemma view_asserting k (j : Z) : asserts ov k = true ->
  view_out ns nswin ov k j = if j =? 0 then OAssert else OStop.
Proof. intros Ha. unfold view_out. now rewrite Ha. Qed.

(* --- the shared counter --- *)

(* iw after a run of next() on ONE view, starting when that view has been advanced m
   times and (if m >= 1) iw is in step with it *)
Lemma lone_run kinds i k : nth_error kinds i = Some k -> asserts ov k = false ->
  forall (n : nat) c o vs st' outs,
  inv kinds c vs -> (forall j, 0 <= c j) ->
  (1 <= c i -> o_iw o = Some (Z.min (c i) NW - 1)) ->
  (1 <= c i + Z.of_nat n) ->
  run_events ns nswin ov kinds (o, vs) (repeat (ENext i) n) = (st', outs) ->
  o_iw (fst st') = Some (Z.min (c i + Z.of_nat n) NW - 1).
Proof.
  intros Hk Ha. pose proof NW_pos as HNW.
  induction n as [|n IH]; intros c o vs st' outs Hinv Hc Hiw Hpos; cbn [repeat run_events].
  - intros [= <- <-]. cbn [fst]. rewrite Z.add_0_r in *. now apply Hiw.
  - destruct (step_next_spec kinds c o vs i k Hinv Hc Hk) as [vs' [Hs Hinv']].
    rewrite Hs.
    destruct (run_events ns nswin ov kinds (obj_after k o (c i), vs') (repeat (ENext i) n))
      as [st2 xs] eqn:Er.
    intros [= <- <-].
    assert (Hci : upd c i i = c i + 1) by (unfold upd; now rewrite Nat.eqb_refl).
    pose proof (IH (upd c i) (obj_after k o (c i)) vs' st2 xs Hinv' (upd_nonneg c i Hc)) as IH'.
    rewrite Hci in IH'.
    replace (c i + Z.of_nat (S n)) with (c i + 1 + Z.of_nat n) by lia.
    apply (fun A B => IH' A B Er); [|lia].
    intros _. unfold obj_after. rewrite Ha. specialize (Hc i).
    destruct (c i =? 0) eqn:E0.
    + rewrite o_iw_alloc. cbn [o_iw]. f_equal. lia.
    + destruct (c i <? NW) eqn:E1.
      * rewrite o_iw_alloc. cbn [o_iw]. rewrite Hiw by lia. cbn [option_map]. f_equal. lia.
      * rewrite Hiw by lia. f_equal. lia.
Qed.

(* a view consumed with nothing else in between (whatever was done with the object
   before that view's first next()): after its n-th next(), iw = index of the window
   it is at -- what `_ind2save`-style readers of wg.iw rely on *)
Lemma iw_lone kinds evs0 i k (n : nat) st' outs :
  nth_error kinds i = Some k -> asserts ov k = false ->
  count_next i evs0 = O -> (1 <= n)%nat ->
  run_schedule ns nswin ov kinds (evs0 ++ repeat (ENext i) n) = (st', outs) ->
  o_iw (fst st') = Some (Z.min (Z.of_nat n) NW - 1).
Proof.
  intros Hk Ha H0 Hn. unfold run_schedule. rewrite run_events_app.
  destruct (run_events ns nswin ov kinds (init_state kinds) evs0) as [[o1 vs1] o1s] eqn:E0.
  destruct (run_events ns nswin ov kinds (o1, vs1) (repeat (ENext i) n)) as [st2 o2s] eqn:E1.
  intros [= <- <-].
  destruct (run_events_spec kinds evs0 (fun _ => 0) _ _ _ _ (inv_init kinds) ltac:(intros; lia) E0)
    as [Hinv _]. cbn [snd] in Hinv.
  assert (Hc : forall j, 0 <= cnt_after (fun _ => 0) evs0 j).
  { intros j. rewrite cnt_after_count. lia. }
  assert (Hci : cnt_after (fun _ => 0) evs0 i = 0) by (rewrite cnt_after_count, H0; lia).
  pose proof (lone_run kinds i k Hk Ha n _ o1 vs1 st2 o2s Hinv Hc) as H.
  rewrite Hci in H. rewrite Z.add_0_l in H. apply (fun A B => H A B E1); lia.
Qed.

(* tscale() leaves iw at the last window index, whatever happened before *)
Lemma iw_tscale kinds evs0 st' outs :
  run_schedule ns nswin ov kinds (evs0 ++ [ETscale]) = (st', outs) ->
  o_iw (fst st') = Some (NW - 1) /\
  exists l, firstlast ns nswin ov = Some l /\
            fst (last outs (OBad, obj0)) = OTscale (map tscale_num2 l).
Proof.
  unfold run_schedule. rewrite run_events_app.
  destruct (run_events ns nswin ov kinds (init_state kinds) evs0) as [[o1 vs1] o1s] eqn:E0.
  cbn [run_events step fst snd]. unfold tscale_ev.
  destruct (pub_total ns nswin ov Hns Hov) as [l [Hl [Hlen _]]]. rewrite Hl.
  intros [= <- <-]. cbn [fst o_iw]. split; [f_equal; lia|].
  exists l. split; [reflexivity|]. rewrite last_last. reflexivity.
Qed.

End Machine.
Unset Default Proof Using.

(* The counter is NOT a function of the reader's own position once two views of the
   same object are consumed side by side: zip(wg.firstlast_valid, wg.slice) on
   (ns, nswin, overlap) = (30, 10, 2): after the second round the valid view is at
   window 1 and iw = 2; after the third, window 2 and iw = 4 > nwin - 1 = 3. *)
Lemma iw_interleaving_witness :
  map (fun p => o_iw (snd p))
      (snd (run_schedule 30 10 2 [KValid; KSlice]
              [ENext 0; ENext 1; ENext 0; ENext 1; ENext 0; ENext 1]%nat))
  = [Some 0; Some 0; Some 1; Some 2; Some 3; Some 4] /\ nwin 30 10 2 = 4.
Proof. vm_compute. split; reflexivity. Qed.

(* ------------------------------------------------------------------ *)
(* statements used by Props.v                                            *)

Definition ovalid (q : Z * Z * Z * Z) : out := let '(f, la, fv, lv) := q in OValid f la fv lv.
Definition osplice (a : Z * Z * list Z) : out := let '(f, la, codes) := a in OSplice f la codes.

Lemma emit_valid_list ns nswin ov l lv :
  firstlast ns nswin ov = Some l -> firstlast_valid ns nswin ov = Some lv ->
  map (emit ns ov KValid) l = map ovalid lv.
Proof.
  intros Hl. unfold firstlast_valid. rewrite Hl. destruct (ov mod 2 =? 0); [|discriminate].
  intros [= <-]. rewrite map_map. apply map_ext. intros w. reflexivity.
Qed.

Lemma emit_splicing_list ns nswin ov l ls :
  firstlast ns nswin ov = Some l -> splicing ns nswin ov = Some ls ->
  map (emit ns ov KSplicing) l = map osplice ls.
Proof.
  intros Hl. unfold splicing. rewrite Hl. intros [= <-]. rewrite map_map. reflexivity.
Qed.

Lemma map_nth_seq_id {A} (d : A) : forall L, map (fun j => nth j L d) (seq 0 (length L)) = L.
Proof.
  induction L as [|a L IH]; [reflexivity|].
  cbn [length seq map nth]. f_equal. rewrite <- seq_shift, map_map. exact IH.
Qed.

Lemma firstn_seq_le : forall n st len, (n <= len)%nat -> firstn n (seq st len) = seq st n.
Proof.
  induction n as [|n IH]; intros st [|len] H; cbn [firstn seq]; try reflexivity; try lia.
  f_equal. apply IH. lia.
Qed.

Lemma skipn_seq_in : forall n st len j, In j (skipn n (seq st len)) -> (st + n <= j)%nat.
Proof.
  induction n as [|n IH]; intros st len j H.
  - cbn [skipn] in H. apply in_seq in H. lia.
  - destruct len as [|len]; cbn [seq skipn] in H; [contradiction|].
    apply IH in H. lia.
Qed.

(* a view advanced at least nwin times has produced exactly the standalone list,
   then only StopIteration -- under any interleaving *)
Lemma exhausted_view ns nswin ov kinds evs st' outs l i k :
  1 <= ns -> 0 <= ov < nswin ->
  run_schedule ns nswin ov kinds evs = (st', outs) ->
  firstlast ns nswin ov = Some l ->
  nth_error kinds i = Some k -> asserts ov k = false ->
  (length l <= count_next i evs)%nat ->
  firstn (length l) (outs_of i evs outs) = map (emit ns ov k) l /\
  forall x, In x (skipn (length l) (outs_of i evs outs)) -> x = OStop.
Proof.
  intros Hns Hov Hr Hl Hk Ha Hcnt.
  rewrite (views_independent ns nswin ov Hns Hov kinds evs st' outs Hr i k Hk).
  set (L := map (emit ns ov k) l).
  assert (HL : length L = length l) by (unfold L; apply map_length).
  assert (Hf : forall j : nat, view_out ns nswin ov k (Z.of_nat j) = nth j L OStop).
  { intros j. now apply view_alone_nth. }
  rewrite (map_ext _ _ Hf). split.
  - rewrite firstn_map, firstn_seq_le by lia. rewrite <- HL. apply map_nth_seq_id.
  - intros x Hx. rewrite skipn_map in Hx. apply in_map_iff in Hx. destruct Hx as [j [<- Hj]].
    apply skipn_seq_in in Hj. apply nth_overflow. lia.
Qed.

(* ------------------------------------------------------------------ *)
(* The hypothesis overlap < nswin of the theorems cannot be dropped: with overlap >= nswin and a signal
   longer than the window the stride is <= 0, `last` never reaches ns and the source's `while True` loop
   never breaks (the model runs out of any fuel). *)
Lemma loop_diverges ns nswin ov : nswin <= ov -> nswin < ns ->
  forall fuel first, first <= 0 -> firstlast_loop fuel ns nswin ov first = None.
Proof.
  intros Hov Hns. induction fuel as [|f IH]; intros first Hf; [reflexivity|].
  cbn [firstlast_loop].
  destruct (Z.min (first + nswin) ns =? ns) eqn:E; [lia|].
  rewrite IH by lia. reflexivity.
Qed.

Lemma firstlast_diverges ns nswin ov : nswin <= ov -> nswin < ns -> firstlast ns nswin ov = None.
Proof. intros Hov Hns. unfold firstlast. apply loop_diverges; lia. Qed.
