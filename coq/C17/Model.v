(* C17 — executable model of ibldsp.utils.WindowGenerator (src/ibldsp/utils.py).
   Definitions only; proofs are in Proofs.v, property theorems in Props.v.

   Python                                   model
   ------                                   -----
   self.nwin                                nwin
   firstlast (while True loop)              firstlast_loop / firstlast
   firstlast_valid                          firstlast_valid
   firstlast_splicing (amp vector)          amp_code / splicing
   tscale(fs)                               tscale_num  (numerator of the centre x 2)
*)
From Coq Require Import ZArith List Bool Lia.
From IBL.lib Require Import PyInt.
Import ListNotations.
Open Scope Z_scope.

(* self.nwin = max(int(np.ceil(float(ns - nswin) / float(nswin - overlap))), 0) + 1
   The float division is modelled by the exact ceiling (see DESIGN C17,
   float_ceil_exact: exact for |ns| < 2^52; validated by correspondence). *)
Definition nwin (ns nswin ov : Z) : Z :=
  Z.max (cdiv (ns - nswin) (nswin - ov)) 0 + 1.

(* The generator loop, literally:
     first = 0
     while True:
         last = min(first + nswin, ns); yield (first, last)
         if last == ns: break
         first += nswin - overlap
   on explicit fuel; None = out of fuel (excluded by firstlast_total). *)
Fixpoint firstlast_loop (fuel : nat) (ns nswin ov first : Z) : option (list (Z * Z)) :=
  match fuel with
  | O => None
  | S f =>
      let last := Z.min (first + nswin) ns in
      if last =? ns then Some [(first, last)]
      else match firstlast_loop f ns nswin ov (first + (nswin - ov)) with
           | Some l => Some ((first, last) :: l)
           | None => None
           end
  end.

Definition firstlast (ns nswin ov : Z) : option (list (Z * Z)) :=
  firstlast_loop (Z.to_nat (nwin ns nswin ov)) ns nswin ov 0.

(* Closed form used by the proofs: window k. *)
Definition win (ns nswin ov k : Z) : Z * Z :=
  (k * (nswin - ov), Z.min (k * (nswin - ov) + nswin) ns).

(* firstlast_valid: asserts even overlap (None = AssertionError). *)
Definition valid_of (ns ov : Z) (w : Z * Z) : Z * Z * Z * Z :=
  let '(first, last) := w in
  (first, last,
   if first =? 0 then 0 else first + ov / 2,
   if last =? ns then last else last - ov / 2).

Definition firstlast_valid (ns nswin ov : Z) : option (list (Z * Z * Z * Z)) :=
  if ov mod 2 =? 0 then
    match firstlast ns nswin ov with
    | Some l => Some (map (valid_of ns ov) l)
    | None => None
    end
  else None.

(* firstlast_splicing.  The ramp w (overlap samples of a Hann window) is kept
   symbolic: amp_code returns, for local position j of a window (first,last),
     -1      for the constant 1
     i >= 0  for w[i]                      (head ramp:  amp[:ov] = w)
     and for the tail  amp[size-ov:] = flipud(w)  position j holds w[ov-1-(j-(size-ov))].
   Assignment order is the source's: the tail is written after the head and
   wins where both address the same cell. *)
Definition amp_code (ns ov : Z) (w : Z * Z) (j : Z) : Z :=
  let '(first, last) := w in
  let size := last - first in
  if negb (last =? ns) && (size - ov <=? j) then ov - 1 - (j - (size - ov))
  else if negb (first =? 0) && (j <? ov) then j
  else -1.

Definition amp_codes (ns ov : Z) (w : Z * Z) : list Z :=
  map (amp_code ns ov w) (zrange (Z.to_nat (snd w - fst w))).

Definition splicing (ns nswin ov : Z) : option (list (Z * Z * list Z)) :=
  match firstlast ns nswin ov with
  | Some l => Some (map (fun w => (fst w, snd w, amp_codes ns ov w)) l)
  | None => None
  end.

(* tscale: centre of window = (first + (last - first - 1) / 2) / fs.
   Model returns twice the numerator, an integer: 2*first + (last-first-1). *)
Definition tscale_num2 (w : Z * Z) : Z := 2 * fst w + (snd w - fst w - 1).

Definition tscale2 (ns nswin ov : Z) : option (list Z) :=
  match firstlast ns nswin ov with
  | Some l => Some (map tscale_num2 l)
  | None => None
  end.

(* Everything the correspondence check compares, for one triple. *)
Definition observe (ns nswin ov : Z) :=
  (nwin ns nswin ov, firstlast ns nswin ov, firstlast_valid ns nswin ov,
   tscale2 ns nswin ov).
