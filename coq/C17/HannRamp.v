(* C17 -- the ramp the source uses satisfies the hypothesis of the splicing theorem, exactly, over the reals.
     w = scipy.signal.windows.hann((overlap + 1) * 2 + 1, sym=True)[1:overlap + 1]
   hann(M, sym=True)[n] = 1/2 - 1/2 cos(2 pi n / (M - 1)); with M - 1 = 2 overlap + 2 and n = j + 1:
     w[j] = 1/2 - 1/2 cos(2 pi (j + 1) / (2 overlap + 2)),  j = 0 .. overlap-1.
   (The source asserts np.isclose(w + flipud(w), 1) at run time; here it is an identity of real numbers, so the
   splicing theorem holds for the Hann ramp without hypothesis on w.  The float64 values the implementation actually
   adds are within rounding of these; that the float sums are within 1e-12 of one is checked by the harness.) *)
From Coq Require Import Reals ZArith Lra Lia List RealField.
From IBL.C17 Require Import Model Proofs.
Local Open Scope R_scope.

Definition hann_ramp (ov j : Z) : R :=
  / 2 - / 2 * cos (2 * PI * (IZR j + 1) / (2 * IZR ov + 2)).

Lemma hann_ramp_complement ov j : (0 <= j < ov)%Z ->
  hann_ramp ov j + hann_ramp ov (ov - 1 - j) = 1.
Proof.
  intros Hj. unfold hann_ramp.
  assert (Hov : 0 < IZR ov) by (apply IZR_lt; lia).
  rewrite !minus_IZR.
  replace (2 * PI * (IZR ov - 1 - IZR j + 1) / (2 * IZR ov + 2))
    with (- (2 * PI * (IZR j + 1) / (2 * IZR ov + 2)) + PI) by (field; lra).
  rewrite neg_cos, cos_neg. lra.
Qed.

Theorem splicing_hann_sums_to_one ns nswin ov l i :
  (1 <= ns)%Z -> (0 <= ov < nswin)%Z -> (2 * ov <= nswin)%Z ->
  firstlast ns nswin ov = Some l -> (0 <= i < ns)%Z ->
  spliced_sum ns ov R 0 1 Rplus (hann_ramp ov) l i = 1.
Proof.
  intros Hns Hov Hhalf Hl Hi.
  apply (pub_splicing R 0 1 Rplus Rmult Rminus Ropp RTheory ns nswin ov (hann_ramp ov) l i); try assumption.
  intros j Hj. now apply hann_ramp_complement.
Qed.
