(* C17 round 2 -- executable model of the WindowGenerator OBJECT (shared state `iw`, heap
   of amplitude buffers, several generator views of one object consumed in any
   interleaving).  (The window count is Model.nwin for every representation of the constructor
   arguments: since repo 01d7a00 __init__ computes it from self.ns / self.nswin / self.overlap,
   the int()-converted values.)
   Definitions only; proofs in ObjectProofs.v, property theorems in Props.v.
   Kept apart from Model.v because other properties import IBL.C17.Model. *)
From Coq Require Import ZArith List Bool Lia.
From IBL.lib Require Import PyInt.
From IBL.C17 Require Import Model.
Import ListNotations.
Open Scope Z_scope.

(* The WindowGenerator OBJECT as a state machine.

   Python state                          model
   ------------                          -----
   self.iw (None | int), shared by       o_iw : option Z
     every generator made from the object
   heap: np.ones(...) in                 o_nalloc : Z  (number of amplitude
     firstlast_splicing allocates a                     buffers allocated so far;
     fresh buffer per window                           every yielded amp is a new one)
   one generator object                  vstate: VFresh (created, no next() yet:
     (wg.firstlast / .firstlast_valid /     creating a generator runs no code),
      .firstlast_splicing / .slice /        VAt (first,last) (suspended at the yield),
      .slice_array(sig))                    VDone (returned or raised)
   next(g)                               ENext i    (i = index of the view)
   wg.tscale(fs)                         ETscale    (runs a whole firstlast loop)

   One next() on a view whose inner firstlast generator is
     - not started:  [firstlast_valid only: assert overlap % 2 == 0, raising leaves iw alone]
                     self.iw = 0; first = 0; last = min(first + nswin, ns); yield
     - suspended:    if last == ns: break        (StopIteration, iw untouched)
                     first += nswin - overlap; self.iw += 1      (the SHARED counter)
                     last = min(first + nswin, ns); yield
     - finished:     StopIteration
   firstlast_valid / firstlast_splicing / slice / slice_array derive what they
   yield from (first, last) only -- `emit`. *)
Inductive vkind := KFirstlast | KValid | KSplicing | KSlice | KSliceArray.
Inductive vstate := VFresh | VAt (w : Z * Z) | VDone.
Record obj := mkobj { o_iw : option Z; o_nalloc : Z }.
Inductive event := ENext (i : nat) | ETscale.

Inductive out :=
| OStop                                   (* StopIteration *)
| OAssert                                 (* AssertionError("Overlap must be even") *)
| OFirstlast (f l : Z)
| OValid (f l fv lv : Z)
| OSplice (f l : Z) (codes : list Z)      (* amp as symbolic codes, see amp_code *)
| OSlice (f l : Z)
| OSliceArray (f l : Z)                   (* np.take(sig, arange(f, l), axis) *)
| OTscale (ts2 : list Z)                  (* twice the centres *)
| ODiverge                                (* model out of fuel: excluded on the domain *)
| OBad.                                   (* event addresses a view that does not exist *)

Definition emit (ns ov : Z) (k : vkind) (w : Z * Z) : out :=
  match k with
  | KFirstlast => OFirstlast (fst w) (snd w)
  | KValid => let '(f, l, fv, lv) := valid_of ns ov w in OValid f l fv lv
  | KSplicing => OSplice (fst w) (snd w) (amp_codes ns ov w)
  | KSlice => OSlice (fst w) (snd w)
  | KSliceArray => OSliceArray (fst w) (snd w)
  end.

Definition asserts (ov : Z) (k : vkind) : bool :=
  match k with KValid => negb (ov mod 2 =? 0) | _ => false end.

(* heap effect of yielding one window from a view of kind k *)
Definition alloc (k : vkind) (o : obj) : obj :=
  match k with
  | KSplicing => mkobj (o_iw o) (o_nalloc o + 1)
  | _ => o
  end.

Definition vnext (ns nswin ov : Z) (k : vkind) (o : obj) (v : vstate) : obj * vstate * out :=
  match v with
  | VFresh =>
      if asserts ov k then (o, VDone, OAssert)
      else let w := (0, Z.min (0 + nswin) ns) in
           (alloc k (mkobj (Some 0) (o_nalloc o)), VAt w, emit ns ov k w)
  | VAt (first, last) =>
      if last =? ns then (o, VDone, OStop)
      else let first' := first + (nswin - ov) in
           let w := (first', Z.min (first' + nswin) ns) in
           (alloc k (mkobj (option_map (Z.add 1) (o_iw o)) (o_nalloc o)), VAt w, emit ns ov k w)
  | VDone => (o, VDone, OStop)
  end.

Definition tscale_ev (ns nswin ov : Z) (o : obj) : obj * out :=
  match firstlast ns nswin ov with
  | Some l => (mkobj (Some (Z.of_nat (length l) - 1)) (o_nalloc o), OTscale (map tscale_num2 l))
  | None => (o, ODiverge)
  end.

Fixpoint set_nth {A} (i : nat) (x : A) (l : list A) : list A :=
  match l, i with
  | [], _ => []
  | _ :: r, O => x :: r
  | a :: r, S j => a :: set_nth j x r
  end.

Definition mstate := (obj * list vstate)%type.

Definition step (ns nswin ov : Z) (kinds : list vkind) (st : mstate) (e : event) : mstate * out :=
  match e with
  | ETscale => let '(o', r) := tscale_ev ns nswin ov (fst st) in ((o', snd st), r)
  | ENext i =>
      match nth_error kinds i, nth_error (snd st) i with
      | Some k, Some v =>
          let '(o', v', r) := vnext ns nswin ov k (fst st) v in ((o', set_nth i v' (snd st)), r)
      | _, _ => (st, OBad)
      end
  end.

(* the whole schedule; every event's output together with the object state right after it *)
Fixpoint run_events (ns nswin ov : Z) (kinds : list vkind) (st : mstate) (evs : list event)
  : mstate * list (out * obj) :=
  match evs with
  | [] => (st, [])
  | e :: r =>
      let '(st', x) := step ns nswin ov kinds st e in
      let '(st'', xs) := run_events ns nswin ov kinds st' r in
      (st'', (x, fst st') :: xs)
  end.

Definition obj0 : obj := mkobj None 0.                        (* after __init__ *)
Definition init_state (kinds : list vkind) : mstate := (obj0, map (fun _ => VFresh) kinds).

Definition run_schedule (ns nswin ov : Z) (kinds : list vkind) (evs : list event) :=
  run_events ns nswin ov kinds (init_state kinds) evs.

(* What the (j+1)-th next() of a view of kind k returns when the view is the only
   thing ever done with the object -- closed form (Proofs: view_alone_nth ties it
   to firstlast / firstlast_valid / splicing above). *)
Definition view_out (ns nswin ov : Z) (k : vkind) (j : Z) : out :=
  if asserts ov k then (if j =? 0 then OAssert else OStop)
  else if j <? nwin ns nswin ov then emit ns ov k (win ns nswin ov j) else OStop.

(* outputs of the next() calls addressed to view i, in order *)
Fixpoint outs_of (i : nat) (evs : list event) (outs : list (out * obj)) : list out :=
  match evs, outs with
  | ENext i' :: er, (x, _) :: xr =>
      if Nat.eqb i' i then x :: outs_of i er xr else outs_of i er xr
  | _ :: er, _ :: xr => outs_of i er xr
  | _, _ => []
  end.

Fixpoint count_next (i : nat) (evs : list event) : nat :=
  match evs with
  | [] => O
  | ENext i' :: r => if Nat.eqb i' i then S (count_next i r) else count_next i r
  | _ :: r => count_next i r
  end.

Definition is_splice (x : out) : bool := match x with OSplice _ _ _ => true | _ => false end.

(* ====================================================================== *)
(* Round 4: the remaining views of the object, as data.

   wg.slice            slice(first, last) for the windows of firstlast           slices
   wg.slice_array(sig, axis)
                       np.take(sig, np.arange(first, last), axis=axis)           slice_array_model
                       (a 2-D array is a list of rows; axis 0 / -2 takes rows,
                        axis 1 / -1 takes the same positions inside every row)
   wg.tscale(fs)       (first + (last - first - 1) / 2) / fs, one per window:    tscale_q
                       as the exact rational numerator / denominator
                       (first + last - 1) / (2 fs)  for an integer or rational fs = fn / fd *)
Definition zslice {A} (l : list A) (a b : Z) : list A :=
  firstn (Z.to_nat (b - a)) (skipn (Z.to_nat a) l).

Definition take_axis (axis : Z) (sig : list (list Z)) (a b : Z) : list (list Z) :=
  if (axis =? 0) || (axis =? -2) then zslice sig a b else map (fun row => zslice row a b) sig.

Definition slices (ns nswin ov : Z) : option (list (Z * Z)) := firstlast ns nswin ov.

Definition slice_array_model (ns nswin ov axis : Z) (sig : list (list Z)) : option (list (list (list Z))) :=
  match firstlast ns nswin ov with
  | Some l => Some (map (fun w => take_axis axis sig (fst w) (snd w)) l)
  | None => None
  end.

(* time of window w at sampling rate fn/fd, as (numerator, denominator) *)
Definition tscale_q (fn fd : Z) (w : Z * Z) : Z * Z := (tscale_num2 w * fd, 2 * fn).
