(* C17 — lemmas about the WindowGenerator model. *)
From Coq Require Import ZArith List Bool Lia Ring.
From IBL.lib Require Import PyInt.
From IBL.C17 Require Import Model.
Import ListNotations.
Open Scope Z_scope.

Definition stride (nswin ov : Z) : Z := nswin - ov.
Definition lastk (ns nswin ov : Z) : Z := Z.max (cdiv (ns - nswin) (stride nswin ov)) 0.

Section Win.
Variables ns nswin ov : Z.
Hypothesis Hns : 1 <= ns.
Hypothesis Hov : 0 <= ov < nswin.

Local Notation s := (stride nswin ov).
Local Notation K := (lastk ns nswin ov).
Set Default Proof Using "Hns Hov".

Lemma s_pos : 0 < s. Proof. unfold stride; lia. Qed.

Lemma K_nonneg : 0 <= K. Proof. unfold lastk; lia. Qed.

Lemma nwin_K : nwin ns nswin ov = K + 1.
Proof. reflexivity. Qed.

(* the last window reaches ns, earlier ones do not *)
Lemma K_reaches : ns <= K * s + nswin.
Proof.
  pose proof (cdiv_spec (ns - nswin) s s_pos) as H. unfold lastk.
  pose proof s_pos. nia.
Qed.

Lemma before_K_short k : 0 <= k < K -> k * s + nswin < ns.
Proof.
  intros Hk. pose proof (cdiv_spec (ns - nswin) s s_pos) as H.
  pose proof s_pos. unfold lastk in *. nia.
Qed.

Definition wins_from (k : Z) (n : nat) : list (Z * Z) :=
  map (fun i => win ns nswin ov (k + Z.of_nat i)) (seq 0 n).

Lemma wins_from_S k n :
  wins_from k (S n) = win ns nswin ov k :: wins_from (k + 1) n.
Proof.
  unfold wins_from. cbn [seq map]. rewrite Z.add_0_r. f_equal.
  rewrite <- seq_shift, map_map. apply map_ext. intros i. f_equal. lia.
Qed.

Lemma loop_S f first :
  firstlast_loop (S f) ns nswin ov first =
  if Z.min (first + nswin) ns =? ns then Some [(first, Z.min (first + nswin) ns)]
  else match firstlast_loop f ns nswin ov (first + (nswin - ov)) with
       | Some l => Some ((first, Z.min (first + nswin) ns) :: l)
       | None => None
       end.
Proof. reflexivity. Qed.

Lemma loop_closed n : forall k,
  0 <= k -> k + Z.of_nat n = K ->
  firstlast_loop (S n) ns nswin ov (k * s) = Some (wins_from k (S n)).
Proof.
  induction n as [|n IH]; intros k Hk HK.
  - rewrite loop_S. assert (k = K) by lia. subst k.
    pose proof K_reaches.
    replace (Z.min (K * s + nswin) ns) with ns by lia.
    rewrite Z.eqb_refl. unfold wins_from, win. cbn [seq map].
    rewrite Z.add_0_r. unfold stride in *. repeat f_equal. lia.
  - rewrite loop_S.
    pose proof (before_K_short k ltac:(lia)) as Hshort.
    destruct (Z.min (k * s + nswin) ns =? ns) eqn:E; [lia|].
    replace (k * s + (nswin - ov)) with ((k + 1) * s) by (unfold stride; ring).
    rewrite (IH (k + 1)) by lia.
    rewrite (wins_from_S k (S n)). unfold win.  reflexivity.
Qed.

(* firstlast_total + nwin_correct *)
Lemma firstlast_closed :
  firstlast ns nswin ov = Some (wins_from 0 (Z.to_nat (K + 1))).
Proof.
  unfold firstlast. rewrite nwin_K. pose proof K_nonneg.
  replace (Z.to_nat (K + 1)) with (S (Z.to_nat K)) by lia.
  change 0 with (0 * s) at 1. apply loop_closed; lia.
Qed.

Lemma firstlast_count l :
  firstlast ns nswin ov = Some l -> Z.of_nat (length l) = nwin ns nswin ov.
Proof.
  rewrite firstlast_closed. intros [= <-]. unfold wins_from.
  rewrite map_length, seq_length, nwin_K. pose proof K_nonneg. lia.
Qed.

Lemma nth_wins k n (i : nat) d :
  (i < n)%nat -> nth i (wins_from k n) d = win ns nswin ov (k + Z.of_nat i).
Proof.
  intros Hi. unfold wins_from.
  rewrite (nth_indep _ d (win ns nswin ov (k + Z.of_nat 0))).
  2:{ now rewrite map_length, seq_length. }
  rewrite (map_nth (fun i => win ns nswin ov (k + Z.of_nat i))).
  now rewrite seq_nth.
Qed.

(* Characterisation of the produced list by position. *)
Lemma firstlast_nth l (i : nat) d :
  firstlast ns nswin ov = Some l -> (i < length l)%nat ->
  nth i l d = win ns nswin ov (Z.of_nat i).
Proof.
  rewrite firstlast_closed. intros [= <-] Hi.
  unfold wins_from in Hi. rewrite map_length, seq_length in Hi.
  now rewrite nth_wins.
Qed.

Lemma win_first k : fst (win ns nswin ov k) = k * s. Proof. reflexivity. Qed.

Lemma win_last_inner k : 0 <= k < K -> snd (win ns nswin ov k) = k * s + nswin.
Proof. intros Hk. pose proof (before_K_short k Hk). unfold win; cbn [snd]. unfold stride in *. lia. Qed.

Lemma win_last_K : snd (win ns nswin ov K) = ns.
Proof. pose proof K_reaches. unfold win; cbn [snd]. unfold stride in *. lia. Qed.

(* Last window is longer than the overlap whenever there is more than one. *)
Lemma last_len_gt_ov : 0 < K -> ov < ns - K * s.
Proof.
  intros HK. pose proof (before_K_short (K - 1) ltac:(lia)). unfold stride in *. nia.
Qed.

Lemma last_len_le : ns - K * s <= nswin.
Proof. pose proof K_reaches. lia. Qed.

(* cover: every sample lies in some window *)
Lemma cover i : 0 <= i < ns ->
  exists k, 0 <= k <= K /\ fst (win ns nswin ov k) <= i < snd (win ns nswin ov k).
Proof.
  intros Hi. pose proof s_pos as Hs. pose proof K_nonneg as HK.
  destruct (Z_lt_le_dec (i / s) K) as [Hlt|Hge].
  - exists (i / s). split; [split; [apply Z.div_pos; lia | lia]|].
    rewrite win_first, win_last_inner by (split; [apply Z.div_pos; lia | lia]).
    pose proof (Z.div_mod i s ltac:(lia)). pose proof (Z.mod_pos_bound i s Hs).
    unfold stride in *. nia.
  - exists K. split; [lia|]. rewrite win_first, win_last_K.
    pose proof (Z.div_mod i s ltac:(lia)). pose proof (Z.mod_pos_bound i s Hs).
    nia.
Qed.

(* valid sub-windows *)
Section Valid.
Hypothesis Heven : ov mod 2 = 0.
Set Default Proof Using "Hns Hov Heven".

Definition vfirst k := if k =? 0 then 0 else k * s + ov / 2.
Definition vlast k := if k =? K then ns else k * s + nswin - ov / 2.

Lemma valid_of_win k : 0 <= k <= K ->
  valid_of ns ov (win ns nswin ov k) =
  (fst (win ns nswin ov k), snd (win ns nswin ov k), vfirst k, vlast k).
Proof.
  intros Hk. pose proof s_pos as Hs. unfold valid_of.
  destruct (win ns nswin ov k) as [f l] eqn:E.
  assert (Hf : f = k * s) by (now rewrite <- win_first, E).
  cbn [fst snd]. unfold vfirst, vlast. f_equal; [f_equal|].
  - subst f. destruct (k * s =? 0) eqn:E0, (k =? 0) eqn:E1; try reflexivity; nia.
  - destruct (Z.eq_dec k K) as [->|Hne].
    + rewrite Z.eqb_refl. assert (l = ns) by (now rewrite <- win_last_K, E). subst l.
      now rewrite Z.eqb_refl.
    + assert (Hl : l = k * s + nswin).
      { rewrite <- (win_last_inner k) by lia. now rewrite E. }
      pose proof (before_K_short k ltac:(lia)).
      destruct (l =? ns) eqn:El; [lia|]. destruct (k =? K) eqn:Ek; [lia|]. lia.
Qed.

Lemma valid_adjacent k : 0 <= k < K -> vlast k = vfirst (k + 1).
Proof.
  intros Hk. unfold vlast, vfirst.
  destruct (k =? K) eqn:E1; [lia|]. destruct (k + 1 =? 0) eqn:E2; [lia|].
  pose proof (Z.div_mod ov 2 ltac:(lia)). unfold stride. nia.
Qed.

Lemma valid_nonempty k : 0 <= k <= K -> vfirst k < vlast k.
Proof.
  intros Hk. unfold vlast, vfirst. pose proof s_pos.
  pose proof (Z.div_mod ov 2 ltac:(lia)).
  destruct (k =? 0) eqn:E1, (k =? K) eqn:E2; try lia.
  assert (k = K) by lia. subst k. pose proof (last_len_gt_ov ltac:(lia)). lia.
Qed.

Lemma valid_inside k : 0 <= k <= K ->
  fst (win ns nswin ov k) <= vfirst k /\ vlast k <= snd (win ns nswin ov k).
Proof.
  intros Hk. rewrite win_first. unfold vfirst, vlast.
  pose proof (Z.div_mod ov 2 ltac:(lia)). pose proof s_pos.
  split.
  - destruct (k =? 0) eqn:E; nia.
  - destruct (Z.eq_dec k K) as [->|Hne].
    + rewrite Z.eqb_refl, win_last_K. lia.
    + destruct (k =? K) eqn:E; [lia|]. rewrite win_last_inner by lia. lia.
Qed.

Lemma vfirst_0 : vfirst 0 = 0. Proof. reflexivity. Qed.
Lemma vlast_K : vlast K = ns. Proof. unfold vlast. now rewrite Z.eqb_refl. Qed.

Lemma vfirst_mono k : 0 <= k -> k <= K -> vfirst k <= vfirst (k + 1).
Proof.
  intros. unfold vfirst. pose proof s_pos.
  pose proof (Z.div_mod ov 2 ltac:(lia)).
  destruct (k =? 0) eqn:E1, (k + 1 =? 0) eqn:E2; nia.
Qed.

(* every sample is in exactly one valid sub-window *)
Lemma valid_exists_unique i : 0 <= i < ns ->
  exists k, 0 <= k <= K /\ vfirst k <= i < vlast k /\
            forall k', 0 <= k' <= K -> vfirst k' <= i < vlast k' -> k' = k.
Proof.
  intros Hi. pose proof K_nonneg as HK.
  (* find by induction on K - k the block containing i *)
  assert (Hfind : forall n k, Z.of_nat n = K - k -> 0 <= k -> vfirst k <= i ->
            exists k0, k <= k0 <= K /\ vfirst k0 <= i < vlast k0).
  { induction n as [|n IH]; intros k Hn Hk Hvi.
    - assert (k = K) by lia. subst k. exists K. rewrite vlast_K. lia.
    - destruct (Z_lt_le_dec i (vlast k)) as [Hlt|Hge].
      + exists k. lia.
      + rewrite valid_adjacent in Hge by lia.
        destruct (IH (k + 1) ltac:(lia) ltac:(lia) Hge) as [k0 [? ?]].
        exists k0. split; [lia|assumption]. }
  destruct (Hfind (Z.to_nat K) 0 ltac:(lia) ltac:(lia) ltac:(rewrite vfirst_0; lia))
    as [k [Hk Hin]].
  exists k. split; [lia|]. split; [assumption|].
  (* uniqueness: blocks are ordered *)
  assert (Hord : forall n a, 0 <= a -> a + Z.of_nat n <= K ->
                   vlast a <= vfirst (a + Z.of_nat n + 1) \/ a + Z.of_nat n = K).
  { induction n as [|n IH]; intros a Ha Hb.
    - rewrite Z.add_0_r. destruct (Z.eq_dec a K); [now right|left].
      rewrite valid_adjacent by lia. lia.
    - destruct (Z.eq_dec (a + Z.of_nat (S n)) K); [now right|left].
      destruct (IH a Ha ltac:(lia)) as [H|H]; [|lia].
      pose proof (vfirst_mono (a + Z.of_nat n + 1) ltac:(lia) ltac:(lia)).
      replace (a + Z.of_nat (S n) + 1) with (a + Z.of_nat n + 1 + 1) by lia. lia. }
  intros k' Hk' Hin'.
  destruct (Z.lt_trichotomy k' k) as [Hlt|[Heq|Hgt]]; [exfalso|assumption|exfalso].
  - destruct (Hord (Z.to_nat (k - k' - 1)) k' ltac:(lia) ltac:(lia)) as [H|H]; [|lia].
    replace (k' + Z.of_nat (Z.to_nat (k - k' - 1)) + 1) with k in H by lia. lia.
  - destruct (Hord (Z.to_nat (k' - k - 1)) k ltac:(lia) ltac:(lia)) as [H|H]; [|lia].
    replace (k + Z.of_nat (Z.to_nat (k' - k - 1)) + 1) with k' in H by lia. lia.
Qed.

End Valid.
Set Default Proof Using "Hns Hov".

(* ------------------------------------------------------------------ *)
(* Splicing amplitudes sum to one (exact arithmetic, abstract ring).    *)

Section Sums.
Variable R : Type.
Variables (rO rI : R) (radd rmul rsub : R -> R -> R) (ropp : R -> R).
Hypothesis Rth : ring_theory rO rI radd rmul rsub ropp (@eq R).
Add Ring Rring : Rth.
Set Default Proof Using "Hns Hov Rth".

Definition rsum (g : nat -> R) (l : list nat) : R :=
  fold_right (fun j acc => radd (g j) acc) rO l.

Lemma rsum_zero g l : (forall j, In j l -> g j = rO) -> rsum g l = rO.
Proof.
  induction l as [|a l IH]; intros H; cbn [rsum fold_right]; [reflexivity|].
  fold (rsum g l). rewrite (H a (or_introl eq_refl)), IH.
  - ring.
  - intros j Hj. apply H. now right.
Qed.

Lemma rsum_single g n : forall st a,
  (st <= a < st + n)%nat ->
  (forall j, (st <= j < st + n)%nat -> j <> a -> g j = rO) ->
  rsum g (seq st n) = g a.
Proof.
  induction n as [|n IH]; intros st a Ha H; [lia|].
  cbn [seq rsum fold_right]. fold (rsum g (seq (S st) n)).
  destruct (Nat.eq_dec st a) as [->|Hne].
  - rewrite rsum_zero; [ring|]. intros j Hj. apply in_seq in Hj. apply H; lia.
  - rewrite (H st) by lia. rewrite (IH (S st) a) by (try lia; intros; apply H; lia). ring.
Qed.

Lemma rsum_pair g n : forall st a,
  (st <= a /\ a + 1 < st + n)%nat ->
  (forall j, (st <= j < st + n)%nat -> j <> a -> j <> (a + 1)%nat -> g j = rO) ->
  rsum g (seq st n) = radd (g a) (g (a + 1)%nat).
Proof.
  induction n as [|n IH]; intros st a Ha H; [lia|].
  cbn [seq rsum fold_right]. fold (rsum g (seq (S st) n)).
  destruct (Nat.eq_dec st a) as [->|Hne].
  - rewrite (rsum_single g n (S a) (a + 1)%nat); [reflexivity|lia|].
    intros j Hj Hne. apply H; lia.
  - rewrite (H st) by lia. rewrite (IH (S st) a) by (try lia; intros; apply H; lia). ring.
Qed.

(* --- the windows --- *)
Hypothesis Hhalf : 2 * ov <= nswin.
Variable w : Z -> R.                       (* the ramp, w[0..ov-1] *)
Hypothesis Hw : forall i, 0 <= i < ov -> radd (w i) (w (ov - 1 - i)) = rI.
Set Default Proof Using "Hns Hov Rth Hhalf Hw".

Local Notation s := (stride nswin ov).
Local Notation K := (lastk ns nswin ov).

Definition amp_val (code : Z) : R := if code <? 0 then rI else w code.

(* contribution of window wd to sample i *)
Definition contrib (wd : Z * Z) (i : Z) : R :=
  if (fst wd <=? i) && (i <? snd wd)
  then amp_val (amp_code ns ov wd (i - fst wd)) else rO.

Definition spliced_sum (l : list (Z * Z)) (i : Z) : R :=
  fold_right (fun wd acc => radd (contrib wd i) acc) rO l.

Lemma spliced_sum_wins n i :
  spliced_sum (wins_from 0 n) i =
  rsum (fun j => contrib (win ns nswin ov (Z.of_nat j)) i) (seq 0 n).
Proof.
  unfold wins_from, spliced_sum, rsum. generalize (seq 0 n) as l.
  induction l as [|a l IH]; cbn [map fold_right]; [reflexivity|].
  rewrite IH. reflexivity.
Qed.

Lemma contrib_win k i : 0 <= k <= K -> 0 <= i < ns ->
  contrib (win ns nswin ov k) i =
  if (k * s <=? i) && (i <? k * s + nswin)
  then amp_val (amp_code ns ov (win ns nswin ov k) (i - k * s)) else rO.
Proof.
  intros Hk Hi. unfold contrib. rewrite (win_first k). 
  destruct (Z.eq_dec k K) as [->|Hne].
  - rewrite win_last_K.
    pose proof K_reaches as HR. 
    destruct (K * s <=? i) eqn:E1; cbn [andb]; [|reflexivity].
    destruct (i <? ns) eqn:E2; [|lia]. destruct (i <? K * s + nswin) eqn:E3; [reflexivity|lia].
  - rewrite (win_last_inner k) by lia.  reflexivity.
Qed.

Lemma amp_code_inner k j : 0 <= k < K -> 0 <= j < nswin ->
  amp_code ns ov (win ns nswin ov k) j =
  if s <=? j then ov - 1 - (j - s) else if negb (k =? 0) && (j <? ov) then j else -1.
Proof.
  intros Hk Hj. pose proof s_pos as Hs. 
  pose proof (before_K_short k) as Hb. 
  specialize (Hb Hk).
  unfold amp_code. destruct (win ns nswin ov k) as [f l] eqn:E.
  assert (Hf : f = k * s) by (now rewrite <- (win_first k), E).
  assert (Hl : l = k * s + nswin).
  { rewrite <- (win_last_inner k) by lia. now rewrite E. }
  subst f l. replace (k * s + nswin - k * s - ov) with s by (unfold stride; ring).
  destruct (k * s + nswin =? ns) eqn:E1; [lia|]. cbn [negb andb].
  destruct (s <=? j) eqn:E2; [reflexivity|].
  destruct (k * s =? 0) eqn:E3, (k =? 0) eqn:E4; try reflexivity; nia.
Qed.

Lemma amp_code_last j : 0 <= j ->
  amp_code ns ov (win ns nswin ov K) j =
  if negb (K =? 0) && (j <? ov) then j else -1.
Proof.
  intros Hj. pose proof s_pos as Hs. 
  unfold amp_code. destruct (win ns nswin ov K) as [f l] eqn:E.
  assert (Hf : f = K * s) by (now rewrite <- win_first, E).
  assert (Hl : l = ns) by (rewrite <- win_last_K; now rewrite E).
  subst f l. rewrite Z.eqb_refl. cbn [negb andb].
  pose proof K_nonneg as HK. 
  destruct (K * s =? 0) eqn:E3, (K =? 0) eqn:E4; try reflexivity; nia.
Qed.

Theorem splicing_sum i : 0 <= i < ns ->
  spliced_sum (wins_from 0 (Z.to_nat (K + 1))) i = rI.
Proof.
  intros Hi. rewrite spliced_sum_wins.
  pose proof s_pos as Hs. 
  pose proof K_nonneg as HK. 
  pose proof K_reaches as HR. 
  pose proof (Z.div_mod i s ltac:(lia)) as Hdm.
  pose proof (Z.mod_pos_bound i s Hs) as Hm.
  set (q := i / s) in *. set (r := i mod s) in *.
  assert (Hq : 0 <= q) by (apply Z.div_pos; lia).
  set (g := fun j : nat => contrib (win ns nswin ov (Z.of_nat j)) i).
  assert (Hs_ov : ov <= s) by (unfold stride; lia).
  (* windows other than q-1, q (or K) do not contain i *)
  assert (Hout : forall k, 0 <= k <= K -> (k < q - 1 \/ q < k) -> contrib (win ns nswin ov k) i = rO).
  { intros k Hk Hor. rewrite contrib_win by lia.
    destruct (k * s <=? i) eqn:E1; cbn [andb]; [|reflexivity].
    destruct (i <? k * s + nswin) eqn:E2; [|reflexivity]. exfalso. unfold stride in *. nia. }
  destruct (Z_le_gt_dec q K) as [HqK|HqK].
  - (* q <= K *)
    destruct (Z_lt_le_dec r ov) as [Hr|Hr]; [destruct (Z.eq_dec q 0) as [Hq0|Hq0]|].
    + (* q = 0, r < ov : single window 0, head is flat *)
      rewrite (rsum_single g _ 0%nat 0%nat); [|lia|].
      2:{ intros j Hj Hne. apply Hout; lia. }
      unfold g. change (Z.of_nat 0) with 0. rewrite contrib_win by lia.
      destruct (0 * s <=? i) eqn:E1; [|lia]. destruct (i <? 0 * s + nswin) eqn:E2; [|nia].
      cbn [andb]. destruct (Z.eq_dec K 0) as [HK0|HK0].
      * rewrite <- HK0 at 1. rewrite amp_code_last by lia. rewrite HK0. cbn. reflexivity.
      * rewrite amp_code_inner by lia. destruct (s <=? i - 0 * s) eqn:E3; [nia|]. cbn. reflexivity.
    + (* q >= 1, r < ov : windows q-1 (tail ramp) and q (head ramp) *)
      rewrite (rsum_pair g _ 0%nat (Z.to_nat (q - 1))); [|lia|].
      2:{ intros j Hj Hne1 Hne2. apply Hout; lia. }
      unfold g. replace (Z.of_nat (Z.to_nat (q - 1))) with (q - 1) by lia.
      replace (Z.of_nat (Z.to_nat (q - 1) + 1)) with q by lia.
      rewrite !contrib_win by lia.
      destruct ((q - 1) * s <=? i) eqn:E1; [|nia].
      destruct (i <? (q - 1) * s + nswin) eqn:E2; [|unfold stride in *; nia].
      destruct (q * s <=? i) eqn:E3; [|nia].
      destruct (i <? q * s + nswin) eqn:E4; [|unfold stride in *; nia].
      cbn [andb].
      rewrite (amp_code_inner (q - 1)) by (unfold stride in *; nia).
      replace (i - (q - 1) * s) with (s + r) by nia.
      replace (i - q * s) with r by nia.
      destruct (s <=? s + r) eqn:E5; [|lia].
      replace (ov - 1 - (s + r - s)) with (ov - 1 - r) by ring.
      assert (Hhead : amp_code ns ov (win ns nswin ov q) r = r).
      { destruct (Z.eq_dec q K) as [->|HneK].
        - rewrite amp_code_last by lia. destruct (K =? 0) eqn:E6; [lia|].
          destruct (r <? ov) eqn:E7; [reflexivity|lia].
        - rewrite amp_code_inner by lia. destruct (s <=? r) eqn:E6; [lia|].
          destruct (q =? 0) eqn:E7; [lia|]. destruct (r <? ov) eqn:E8; [reflexivity|lia]. }
      rewrite Hhead. unfold amp_val.
      destruct (ov - 1 - r <? 0) eqn:E6; [lia|]. destruct (r <? 0) eqn:E7; [lia|].
      rewrite <- (Hw r) by lia. ring.
    + (* r >= ov : single window q, flat part *)
      rewrite (rsum_single g _ 0%nat (Z.to_nat q)); [|lia|].
      2:{ intros j Hj Hne. destruct (Z.eq_dec (Z.of_nat j) (q - 1)) as [Hj1|Hj1].
          - unfold g. rewrite Hj1. rewrite contrib_win by lia.
            destruct ((q - 1) * s <=? i) eqn:E1; cbn [andb]; [|reflexivity].
            destruct (i <? (q - 1) * s + nswin) eqn:E2; [|reflexivity]. exfalso. unfold stride in *. nia.
          - unfold g. apply Hout; lia. }
      unfold g. replace (Z.of_nat (Z.to_nat q)) with q by lia.
      rewrite contrib_win by lia.
      destruct (q * s <=? i) eqn:E1; [|nia].
      destruct (i <? q * s + nswin) eqn:E2; [|unfold stride in *; nia]. cbn [andb].
      replace (i - q * s) with r by nia.
      assert (Hflat : amp_code ns ov (win ns nswin ov q) r = -1).
      { destruct (Z.eq_dec q K) as [->|HneK].
        - rewrite amp_code_last by lia. destruct (r <? ov) eqn:E7; [lia|].
          now rewrite andb_false_r.
        - rewrite amp_code_inner by (unfold stride in *; lia). destruct (s <=? r) eqn:E6; [lia|].
          destruct (r <? ov) eqn:E8; [lia|]. now rewrite andb_false_r. }
      rewrite Hflat. reflexivity.
  - (* q > K : the sample lies in the long last window only *)
    rewrite (rsum_single g _ 0%nat (Z.to_nat K)); [|lia|].
    2:{ intros j Hj Hne. unfold g. rewrite contrib_win by lia.
        destruct (Z.of_nat j * s <=? i) eqn:E1; cbn [andb]; [|reflexivity].
        destruct (i <? Z.of_nat j * s + nswin) eqn:E2; [|reflexivity]. exfalso.
        assert (Z.of_nat j <= K - 1) by lia. unfold stride in *. nia. }
    unfold g. replace (Z.of_nat (Z.to_nat K)) with K by lia.
    rewrite contrib_win by lia.
    destruct (K * s <=? i) eqn:E1; [|nia].
    destruct (i <? K * s + nswin) eqn:E2; [|lia]. cbn [andb].
    rewrite amp_code_last by lia.
    destruct (i - K * s <? ov) eqn:E3; [unfold stride in *; nia|].
    rewrite andb_false_r. reflexivity.
Qed.

End Sums.
End Win.
Unset Default Proof Using.

(* ------------------------------------------------------------------ *)
(* Statements in terms of the produced list, as used by Props.v        *)
Section Public.
Variables ns nswin ov : Z.
Hypothesis Hns : 1 <= ns.
Hypothesis Hov : 0 <= ov < nswin.
Local Notation K := (lastk ns nswin ov).
Local Notation d := (0, 0).

Lemma pub_total : exists l, firstlast ns nswin ov = Some l /\
  Z.of_nat (length l) = nwin ns nswin ov /\ (1 <= length l)%nat.
Proof.
  eexists. split; [apply firstlast_closed; assumption|].
  unfold wins_from. rewrite map_length, seq_length.
  pose proof (K_nonneg ns nswin ov Hns Hov). rewrite (nwin_K ns nswin ov Hns Hov). split; lia.
Qed.

Lemma pub_length l : firstlast ns nswin ov = Some l -> length l = Z.to_nat (K + 1).
Proof.
  rewrite firstlast_closed by assumption. intros [= <-]. unfold wins_from.
  now rewrite map_length, seq_length.
Qed.

Lemma pub_nth l i : firstlast ns nswin ov = Some l -> (i < length l)%nat ->
  nth i l d = win ns nswin ov (Z.of_nat i).
Proof. intros. now apply firstlast_nth. Qed.

Lemma pub_structure l : firstlast ns nswin ov = Some l ->
  fst (nth 0 l d) = 0 /\
  snd (nth (length l - 1) l d) = ns /\
  (forall i, (S i < length l)%nat ->
     snd (nth i l d) - fst (nth i l d) = nswin /\
     fst (nth (S i) l d) = fst (nth i l d) + (nswin - ov) /\
     snd (nth i l d) - fst (nth (S i) l d) = ov) /\
  ((1 < length l)%nat ->
     ov < snd (nth (length l - 1) l d) - fst (nth (length l - 1) l d) <= nswin) /\
  (forall i, (i < length l)%nat -> 0 <= fst (nth i l d) < snd (nth i l d) /\ snd (nth i l d) <= ns).
Proof.
  intros Hl. pose proof (pub_length l Hl) as Hlen.
  pose proof (K_nonneg ns nswin ov Hns Hov) as HK.
  pose proof (s_pos ns nswin ov Hns Hov) as Hs.
  assert (HlastK : Z.of_nat (length l - 1) = K) by lia.
  split; [|split; [|split; [|split]]].
  - rewrite (pub_nth l 0 Hl) by lia. reflexivity.
  - rewrite (pub_nth l _ Hl) by lia. rewrite HlastK. now apply win_last_K.
  - intros i Hi. rewrite !(pub_nth l _ Hl) by lia.
    rewrite !(win_first ns nswin ov Hns Hov), (win_last_inner ns nswin ov Hns Hov) by lia.
    unfold stride. split; [|split]; lia.
  - intros Hgt. rewrite !(pub_nth l _ Hl) by lia. rewrite HlastK.
    rewrite (win_first ns nswin ov Hns Hov), win_last_K by assumption.
    pose proof (last_len_gt_ov ns nswin ov Hns Hov ltac:(lia)).
    pose proof (last_len_le ns nswin ov Hns Hov). lia.
  - intros i Hi. rewrite !(pub_nth l _ Hl) by lia. rewrite (win_first ns nswin ov Hns Hov).
    destruct (Z.eq_dec (Z.of_nat i) K) as [->|Hne].
    + rewrite win_last_K by assumption.
      destruct (Z.eq_dec K 0) as [->|HK0]; [lia|].
      pose proof (last_len_gt_ov ns nswin ov Hns Hov ltac:(lia)). nia.
    + rewrite (win_last_inner ns nswin ov Hns Hov) by lia.
      pose proof (before_K_short ns nswin ov Hns Hov (Z.of_nat i) ltac:(lia)). nia.
Qed.

Lemma pub_cover l x : firstlast ns nswin ov = Some l -> 0 <= x < ns ->
  exists i, (i < length l)%nat /\ fst (nth i l d) <= x < snd (nth i l d).
Proof.
  intros Hl Hx. destruct (cover ns nswin ov Hns Hov x Hx) as [k [Hk Hin]].
  pose proof (pub_length l Hl) as Hlen.
  exists (Z.to_nat k). split; [lia|]. rewrite (pub_nth l _ Hl) by lia.
  now replace (Z.of_nat (Z.to_nat k)) with k by lia.
Qed.

Lemma pub_valid lv : ov mod 2 = 0 -> firstlast_valid ns nswin ov = Some lv ->
  exists l, firstlast ns nswin ov = Some l /\ length lv = length l /\
  (forall i, (i < length lv)%nat ->
     let '(f, la, fv, lv_) := nth i lv (0, 0, 0, 0) in
     (f, la) = nth i l d /\ f <= fv /\ fv < lv_ /\ lv_ <= la) /\
  (forall x, 0 <= x < ns ->
     exists i, (i < length lv)%nat /\
       (let '(_, _, fv, lv_) := nth i lv (0, 0, 0, 0) in fv <= x < lv_) /\
       forall i', (i' < length lv)%nat ->
         (let '(_, _, fv, lv_) := nth i' lv (0, 0, 0, 0) in fv <= x < lv_) -> i' = i).
Proof.
  intros Heven. unfold firstlast_valid. rewrite Heven. cbn [Z.eqb].
  destruct (firstlast ns nswin ov) as [l|] eqn:Hl; [|discriminate].
  intros [= <-]. exists l. split; [reflexivity|]. rewrite map_length. split; [reflexivity|].
  pose proof (pub_length l Hl) as Hlen.
  pose proof (K_nonneg ns nswin ov Hns Hov) as HK.
  assert (Hnth : forall i, (i < length l)%nat ->
            nth i (map (valid_of ns ov) l) (0, 0, 0, 0) =
            (fst (win ns nswin ov (Z.of_nat i)), snd (win ns nswin ov (Z.of_nat i)),
             vfirst nswin ov (Z.of_nat i), vlast ns nswin ov (Z.of_nat i))).
  { intros i Hi. rewrite (nth_indep _ (0,0,0,0) (valid_of ns ov d)) by (now rewrite map_length).
    rewrite map_nth, (pub_nth l i Hl Hi). apply valid_of_win; try assumption. lia. }
  split.
  - intros i Hi. rewrite (Hnth i Hi). rewrite (pub_nth l i Hl Hi).
    pose proof (valid_inside ns nswin ov Hns Hov Heven (Z.of_nat i) ltac:(lia)) as [H1 H2].
    pose proof (valid_nonempty ns nswin ov Hns Hov Heven (Z.of_nat i) ltac:(lia)) as H3.
    split; [now destruct (win ns nswin ov (Z.of_nat i))|]. lia.
  - intros x Hx.
    destruct (valid_exists_unique ns nswin ov Hns Hov Heven x Hx) as [k [Hk [Hin Huniq]]].
    exists (Z.to_nat k). split; [lia|]. split.
    + rewrite Hnth by lia. now replace (Z.of_nat (Z.to_nat k)) with k by lia.
    + intros i' Hi'. rewrite Hnth by lia. intros Hin'.
      specialize (Huniq (Z.of_nat i') ltac:(lia) Hin'). lia.
Qed.

End Public.

Section PublicSplice.
Variable R : Type.
Variables (rO rI : R) (radd rmul rsub : R -> R -> R) (ropp : R -> R).
Hypothesis Rth : ring_theory rO rI radd rmul rsub ropp (@eq R).

Lemma pub_splicing ns nswin ov (w : Z -> R) l i :
  1 <= ns -> 0 <= ov < nswin -> 2 * ov <= nswin ->
  (forall j, 0 <= j < ov -> radd (w j) (w (ov - 1 - j)) = rI) ->
  firstlast ns nswin ov = Some l -> 0 <= i < ns ->
  spliced_sum ns ov R rO rI radd w l i = rI.
Proof.
  intros Hns Hov Hhalf Hw Hl Hi.
  rewrite firstlast_closed in Hl by assumption. injection Hl as <-.
  eapply splicing_sum; eassumption.
Qed.
End PublicSplice.

Lemma pub_tscale w : tscale_num2 w = fst w + (snd w - 1).
Proof. unfold tscale_num2. ring. Qed.

(* the symbolic amplitude vector produced by the executable model has one
   entry per sample of the window, and entry j is amp_code j *)
Lemma amp_codes_nth ns ov w j :
  0 <= j < snd w - fst w -> nth (Z.to_nat j) (amp_codes ns ov w) 0 = amp_code ns ov w j.
Proof.
  intros Hj. unfold amp_codes.
  rewrite (nth_indep _ 0 (amp_code ns ov w 0)).
  2:{ rewrite map_length, zrange_length. lia. }
  rewrite map_nth. f_equal. unfold zrange.
  rewrite (nth_indep _ 0 (Z.of_nat 0)) by (rewrite map_length, seq_length; lia).
  rewrite map_nth, seq_nth by lia. lia.
Qed.
