(* C17 round 4 -- slice / slice_array / tscale related to firstlast. *)
From Coq Require Import ZArith List Bool Lia.
From IBL.lib Require Import PyInt.
From IBL.C17 Require Import Model Proofs Object.
Import ListNotations.
Open Scope Z_scope.

Lemma nth_firstn_lt {A} (d : A) : forall n l i, (i < n)%nat -> nth i (firstn n l) d = nth i l d.
Proof.
  induction n as [|n IH]; intros l i Hi; [lia|].
  destruct l as [|a l]; [now destruct i|]. destruct i as [|i]; [reflexivity|].
  cbn [firstn nth]. apply IH. lia.
Qed.

Lemma nth_skipn_add {A} (d : A) : forall n l i, nth i (skipn n l) d = nth (n + i) l d.
Proof.
  induction n as [|n IH]; intros l i; [reflexivity|].
  destruct l as [|a l]; [now destruct i|]. cbn [skipn Nat.add nth]. apply IH.
Qed.

Lemma skipn_add {A} : forall n m (l : list A), skipn (n + m) l = skipn m (skipn n l).
Proof.
  induction n as [|n IH]; intros m l; [reflexivity|].
  destruct l as [|x l]; cbn [Nat.add skipn]; [now rewrite skipn_nil|]. apply IH.
Qed.

Lemma firstn_skipn_app {A} : forall n m (l : list A),
  firstn n l ++ firstn m (skipn n l) = firstn (n + m) l.
Proof.
  induction n as [|n IH]; intros m l; [reflexivity|].
  destruct l as [|x l]; cbn [Nat.add firstn skipn app]; [now rewrite firstn_nil|]. f_equal. apply IH.
Qed.

Section Slice.
Context {A : Type}.
Variable sig : list A.

(* element j of sig[a:b] is sig[a+j]; its length is b - a *)
Lemma zslice_length a b : 0 <= a <= b -> b <= Z.of_nat (length sig) ->
  length (zslice sig a b) = Z.to_nat (b - a).
Proof.
  intros Hab Hb. unfold zslice. rewrite firstn_length, skipn_length. lia.
Qed.

Lemma zslice_nth a b j d : 0 <= a -> 0 <= j < b - a ->
  nth (Z.to_nat j) (zslice sig a b) d = nth (Z.to_nat (a + j)) sig d.
Proof.
  intros Ha Hj. unfold zslice. rewrite nth_firstn_lt by lia. rewrite nth_skipn_add. f_equal. lia.
Qed.

Lemma zslice_app a b c : 0 <= a <= b -> b <= c ->
  zslice sig a b ++ zslice sig b c = zslice sig a c.
Proof.
  intros Hab Hbc. unfold zslice.
  replace (Z.to_nat b) with (Z.to_nat a + Z.to_nat (b - a))%nat by lia.
  rewrite skipn_add.
  replace (Z.to_nat (c - a)) with (Z.to_nat (b - a) + Z.to_nat (c - b))%nat by lia.
  apply firstn_skipn_app.
Qed.

Lemma zslice_all : zslice sig 0 (Z.of_nat (length sig)) = sig.
Proof. unfold zslice. cbn [Z.to_nat skipn]. rewrite Z.sub_0_r, Nat2Z.id. apply firstn_all. Qed.

(* windows that follow each other without gap or overlap *)
Inductive chain : Z -> list (Z * Z) -> Z -> Prop :=
| chain_nil a : chain a [] a
| chain_cons a b l c : a <= b -> chain b l c -> chain a ((a, b) :: l) c.

Lemma chain_le a l c : chain a l c -> a <= c.
Proof. induction 1; lia. Qed.

Lemma concat_chain a l c : chain a l c -> 0 <= a ->
  concat (map (fun w => zslice sig (fst w) (snd w)) l) = zslice sig a c.
Proof.
  induction 1 as [a|a b l c Hab Hc IH]; intros Ha.
  - cbn. unfold zslice. now rewrite Z.sub_diag.
  - cbn [map concat fst snd]. rewrite IH by lia. apply zslice_app; [lia|]. now apply chain_le in Hc.
Qed.
End Slice.

Section ZeroOverlap.
Variables ns nswin : Z.
Hypothesis Hns : 1 <= ns.
Hypothesis Hw : 0 < nswin.

Local Notation K := (lastk ns nswin 0).

Lemma Hov0 : 0 <= 0 < nswin. Proof using Hw. lia. Qed.

Lemma wins_chain n : forall k, 0 <= k -> k + Z.of_nat n = K ->
  chain (k * nswin) (wins_from ns nswin 0 k (S n)) ns.
Proof using Hns Hw.
  induction n as [|n IH]; intros k Hk HK.
  - assert (k = K) by lia. subst k. unfold wins_from. cbn [seq map]. rewrite Z.add_0_r.
    pose proof (win_last_K ns nswin 0 Hns Hov0) as HL.
    pose proof (win_first ns nswin 0 Hns Hov0 K) as HF. unfold stride in HF. rewrite Z.sub_0_r in HF.
    destruct (win ns nswin 0 K) as [f l] eqn:E. cbn [fst snd] in *. subst f l.
    apply chain_cons; [|apply chain_nil].
    pose proof (K_reaches ns nswin 0 Hns Hov0). pose proof (K_nonneg ns nswin 0 Hns Hov0).
    destruct (Z.eq_dec K 0) as [->|Hne]; [lia|].
    pose proof (last_len_gt_ov ns nswin 0 Hns Hov0 ltac:(lia)). unfold stride in *. lia.
  - rewrite (wins_from_S ns nswin 0 Hns Hov0 k (S n)).
    pose proof (win_last_inner ns nswin 0 Hns Hov0 k ltac:(lia)) as HL.
    pose proof (win_first ns nswin 0 Hns Hov0 k) as HF. unfold stride in HL, HF. rewrite Z.sub_0_r in HL, HF.
    destruct (win ns nswin 0 k) as [f l] eqn:E. cbn [fst snd] in *. subst f l.
    apply chain_cons; [lia|].
    replace (k * nswin + nswin) with ((k + 1) * nswin) by ring. apply IH; lia.
Qed.

(* zero overlap: the windows' slices, put end to end, are the signal *)
Lemma slices_concat_zero_overlap {A} (sig : list A) l :
  Z.of_nat (length sig) = ns -> firstlast ns nswin 0 = Some l ->
  concat (map (fun w => zslice sig (fst w) (snd w)) l) = sig.
Proof using Hns Hw.
  intros Hlen Hl. rewrite (firstlast_closed ns nswin 0 Hns Hov0) in Hl. injection Hl as <-.
  pose proof (K_nonneg ns nswin 0 Hns Hov0) as HK.
  replace (Z.to_nat (K + 1)) with (S (Z.to_nat K)) by lia.
  rewrite (concat_chain sig (0 * nswin) _ ns (wins_chain (Z.to_nat K) 0 ltac:(lia) ltac:(lia))) by lia.
  rewrite Z.mul_0_l, <- Hlen. apply zslice_all.
Qed.
End ZeroOverlap.

(* slice_array: one array per window of firstlast, each the rows (axis 0) / the columns (axis 1) first..last-1 *)
Lemma slice_array_spec ns nswin ov axis sig L l :
  slice_array_model ns nswin ov axis sig = Some L -> firstlast ns nswin ov = Some l ->
  length L = length l /\
  forall k, (k < length l)%nat ->
    nth k L [] = take_axis axis sig (fst (nth k l (0, 0))) (snd (nth k l (0, 0))).
Proof.
  unfold slice_array_model. intros H Hl. rewrite Hl in H. injection H as <-.
  split; [apply map_length|]. intros k Hk.
  rewrite (nth_indep _ [] (take_axis axis sig (fst (0, 0)) (snd (0, 0)))) by (now rewrite map_length).
  now rewrite (map_nth (fun w => take_axis axis sig (fst w) (snd w))).
Qed.

(* tscale: one time per window, the centre, strictly increasing *)
Lemma tscale_spec ns nswin ov ts l : 1 <= ns -> 0 <= ov < nswin ->
  tscale2 ns nswin ov = Some ts -> firstlast ns nswin ov = Some l ->
  Z.of_nat (length ts) = nwin ns nswin ov /\
  (forall k, (k < length l)%nat ->
     nth k ts 0 = fst (nth k l (0, 0)) + snd (nth k l (0, 0)) - 1) /\
  (forall k, (S k < length l)%nat -> nth k ts 0 < nth (S k) ts 0).
Proof.
  intros Hns Hov Ht Hl. unfold tscale2 in Ht. rewrite Hl in Ht. injection Ht as <-.
  assert (Hnth : forall k, (k < length l)%nat ->
            nth k (map tscale_num2 l) 0 = fst (nth k l (0, 0)) + snd (nth k l (0, 0)) - 1).
  { intros k Hk. rewrite (nth_indep _ 0 (tscale_num2 (0, 0))) by (now rewrite map_length).
    rewrite map_nth. unfold tscale_num2. lia. }
  split; [|split].
  - rewrite map_length. now apply (firstlast_count ns nswin ov Hns Hov).
  - exact Hnth.
  - intros k Hk. rewrite !Hnth by lia.
    destruct (pub_structure ns nswin ov Hns Hov l Hl) as [_ [_ [Hstep [Hlast _]]]].
    destruct (Hstep k Hk) as [Hlen [Hnext Hovl]].
    destruct (Nat.eq_dec (S k) (length l - 1)) as [E|E].
    + specialize (Hlast ltac:(lia)). rewrite <- E in Hlast. lia.
    + destruct (Hstep (S k) ltac:(lia)) as [Hlen' _]. lia.
Qed.
