(* C17 -- flat-integer interface of the model for the correspondence check.
   mode 0/1  input : [ns; nswin; ov; with_splice]
             output: nwin :: enc(firstlast) ++ enc(firstlast_valid) ++ enc(tscale2) ++ enc(splicing)
             (splicing only when with_splice = 1).
   mode 2    input : ns :: nswin :: ov :: 2 :: nk :: kinds(nk) ++ events
                     kinds: 0 firstlast, 1 firstlast_valid, 2 firstlast_splicing, 3 slice, 4 slice_array
                     events: i >= 0 = next() on view i, -1 = tscale()
             output: per event  enc(out) ++ [iw or -1 for None; nalloc]   (Object.run_schedule)
   mode 4    input : ns :: nswin :: ov :: 4 :: axis :: nrows :: ncols :: data (row-major)
             output: enc_option over the windows of  [rows; cols] ++ data  of  np.take(sig, arange(first,last), axis)
   mode 5    input : ns :: nswin :: ov :: 5 :: fn :: fd :: p1 :: q1 :: p2 :: q2 ...   (p_k/q_k = the exact value of the
                     k-th float returned by tscale(fn/fd))
             output: number of windows :: for each k  1 if p_k/q_k = tscale_q fn fd (window k) exactly else 0
   Constructor arguments in other representations (NumPy ints, unsigned, floats) are mode 0 cases:
   the object must behave as for the same Python ints. *)
From Coq Require Import ZArith List Bool.
From IBL.lib Require Import PyInt RunLib.
From IBL.C17 Require Import Model Object.
Import ListNotations.
Open Scope Z_scope.

Definition enc_pair (p : Z * Z) : list Z := [fst p; snd p].
Definition enc_quad (q : Z * Z * Z * Z) : list Z :=
  let '(a, b, c, d) := q in [a; b; c; d].
Definition enc_amp (a : Z * Z * list Z) : list Z :=
  let '(f, l, codes) := a in f :: l :: enc_zlist codes.

Definition dec_kind (z : Z) : vkind :=
  if z =? 0 then KFirstlast else if z =? 1 then KValid else if z =? 2 then KSplicing
  else if z =? 3 then KSlice else KSliceArray.
Definition dec_event (z : Z) : event := if z <? 0 then ETscale else ENext (Z.to_nat z).

Definition enc_out (x : out) : list Z :=
  match x with
  | OStop => [0]
  | OAssert => [1]
  | OFirstlast f l => [2; f; l]
  | OValid f l fv lv => [3; f; l; fv; lv]
  | OSplice f l codes => 4 :: f :: l :: enc_zlist codes
  | OSlice f l => [5; f; l]
  | OSliceArray f l => [6; f; l]
  | OTscale ts => 7 :: enc_zlist ts
  | ODiverge => [8]
  | OBad => [9]
  end.
Definition enc_obj (o : obj) : list Z :=
  [match o_iw o with Some z => z | None => -1 end; o_nalloc o].

Fixpoint chunks (fuel : nat) (c : Z) (l : list Z) : list (list Z) :=
  match fuel with
  | O => []
  | S f => firstn (Z.to_nat c) l :: chunks f c (skipn (Z.to_nat c) l)
  end.

Definition enc_arr (a : list (list Z)) : list Z :=
  Z.of_nat (length a) :: Z.of_nat (match a with r :: _ => length r | [] => O end) :: concat a.

Fixpoint pairs (l : list Z) : list (Z * Z) :=
  match l with
  | p :: q :: r => (p, q) :: pairs r
  | _ => []
  end.

Fixpoint check_times (fn fd : Z) (ws : list (Z * Z)) (pq : list (Z * Z)) : list Z :=
  match ws, pq with
  | w :: wr, (p, q) :: pr =>
      (let '(num, den) := tscale_q fn fd w in if p * den =? q * num then 1 else 0) :: check_times fn fd wr pr
  | _ :: wr, [] => 0 :: check_times fn fd wr []
  | [], _ => []
  end.

Definition run (inp : list Z) : list Z :=
  match inp with
  | [ns; nswin; ov; sp] =>
      nwin ns nswin ov
      :: enc_option (enc_list enc_pair) (firstlast ns nswin ov)
      ++ enc_option (enc_list enc_quad) (firstlast_valid ns nswin ov)
      ++ enc_option enc_zlist (tscale2 ns nswin ov)
      ++ (if sp =? 1 then enc_option (enc_list enc_amp) (splicing ns nswin ov) else [])
  | ns :: nswin :: ov :: mode :: rest =>
      if mode =? 2 then
        match rest with
        | nk :: r =>
            let '(ks, es) := take_z nk r in
            flat_map (fun p => enc_out (fst p) ++ enc_obj (snd p))
                     (snd (run_schedule ns nswin ov (map dec_kind ks) (map dec_event es)))
        | [] => [-999]
        end
      else if mode =? 4 then
        match rest with
        | axis :: nr :: nc :: data =>
            enc_option (fun L => Z.of_nat (length L) :: flat_map enc_arr L)
                       (slice_array_model ns nswin ov axis (chunks (Z.to_nat nr) nc data))
        | _ => [-999]
        end
      else if mode =? 5 then
        match rest with
        | fn :: fd :: pq =>
            match firstlast ns nswin ov with
            | Some l => Z.of_nat (length l) :: Z.of_nat (length (pairs pq)) :: check_times fn fd l (pairs pq)
            | None => [-1]
            end
        | _ => [-999]
        end
      else [-999]
  | _ => [-999]
  end.

Definition mismatches := mismatches_of run.
