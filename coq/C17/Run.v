(* C17 — flat-integer interface of the model for the correspondence check.
   input : [ns; nswin; ov; with_splice]
   output: nwin :: enc(firstlast) ++ enc(firstlast_valid) ++ enc(tscale2) ++ enc(splicing)
   (splicing only when with_splice = 1). *)
From Coq Require Import ZArith List Bool.
From IBL.lib Require Import PyInt RunLib.
From IBL.C17 Require Import Model.
Import ListNotations.
Open Scope Z_scope.

Definition enc_pair (p : Z * Z) : list Z := [fst p; snd p].
Definition enc_quad (q : Z * Z * Z * Z) : list Z :=
  let '(a, b, c, d) := q in [a; b; c; d].
Definition enc_amp (a : Z * Z * list Z) : list Z :=
  let '(f, l, codes) := a in f :: l :: enc_zlist codes.

Definition run (inp : list Z) : list Z :=
  match inp with
  | [ns; nswin; ov; sp] =>
      nwin ns nswin ov
      :: enc_option (enc_list enc_pair) (firstlast ns nswin ov)
      ++ enc_option (enc_list enc_quad) (firstlast_valid ns nswin ov)
      ++ enc_option enc_zlist (tscale2 ns nswin ov)
      ++ (if sp =? 1 then enc_option (enc_list enc_amp) (splicing ns nswin ov) else [])
  | _ => [-999]
  end.

Definition mismatches := mismatches_of run.
