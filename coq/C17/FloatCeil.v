(* C17 -- the float64 quotient in `nwin` has the exact integer ceiling.
     self.nwin = max(int(np.ceil(float(ns - nswin) / float(nswin - overlap))), 0) + 1
   IEEE-754 binary64 division = round-to-nearest-even of the exact quotient (FLT format,
   emin = -1074, 53 bits).  For integers 0 < a, b < 2^53 (exactly representable, so float()
   is exact) the ceiling of the rounded quotient is the ceiling of the exact quotient:
   rounding moves a/b by at most 2^-53 * a/b < 1/b, and a/b is at least 1/b above the
   integer below it; the integer above it is representable and rounding is monotone. *)
From Coq Require Import ZArith Reals Lia Lra Psatz.
From Flocq Require Import Core BinarySingleNaN.
From Flocq.Prop Require Import Relative.
From IBL.lib Require Import PyInt.
Local Open Scope R_scope.

Definition fexp64 := FLT_exp (-1074) 53.
Definition RN64 (x : R) : R := round radix2 fexp64 ZnearestE x.

Lemma int_format64 (n : Z) : (Z.abs n < 2 ^ 53)%Z -> generic_format radix2 fexp64 (IZR n).
Proof.
  intros Hn. apply generic_format_FLT. exists (Float radix2 n 0).
  - unfold F2R. cbn. ring.
  - cbn [Fnum]. exact Hn.
  - cbn. lia.
Qed.

Lemma bpow_53 : bpow radix2 53 = IZR (2 ^ 53).
Proof. rewrite <- (IZR_Zpower radix2 53) by lia. reflexivity. Qed.

Lemma bpow_m53 : bpow radix2 (-53) = / IZR (2 ^ 53).
Proof. change (-53)%Z with (Z.opp 53). rewrite bpow_opp, bpow_53. reflexivity. Qed.

Lemma half_ulp_53 : / 2 * bpow radix2 (- (53) + 1) = / IZR (2 ^ 53).
Proof.
  rewrite bpow_plus, bpow_opp, bpow_53. change (bpow radix2 1) with 2.
  field. apply Rgt_not_eq. apply IZR_lt. lia.
Qed.

Theorem float_ceil_exact (a b : Z) : (0 < a < 2 ^ 53)%Z -> (0 < b < 2 ^ 53)%Z ->
  Zceil (RN64 (IZR a / IZR b)) = cdiv a b.
Proof.
  intros Ha Hb.
  pose proof (cdiv_spec a b ltac:(lia)) as Hc.
  pose proof (cdiv_pos a b ltac:(lia) ltac:(lia)) as Hc0.
  set (c := cdiv a b) in *.
  assert (Hca : (c <= a)%Z) by nia.
  set (A := IZR a). set (B := IZR b). set (C := IZR c).
  assert (HB : 0 < B) by (apply IZR_lt; lia).
  assert (HA : 0 < A) by (apply IZR_lt; lia).
  assert (H1 : (C - 1) * B + 1 <= A).
  { unfold A, B, C. rewrite <- minus_IZR, <- mult_IZR, <- plus_IZR. apply IZR_le. lia. }
  assert (H2 : A <= C * B).
  { unfold A, B, C. rewrite <- mult_IZR. apply IZR_le. lia. }
  assert (HP : A < IZR (2 ^ 53)) by (apply IZR_lt; lia).
  set (q := A / B).
  assert (HqB : q * B = A) by (unfold q; field; lra).
  assert (Hq0 : 0 < q) by (unfold q; apply Rdiv_lt_0_compat; assumption).
  assert (Hbp : bpow radix2 53 = IZR (2 ^ 53)).
  { rewrite <- (IZR_Zpower radix2 53) by lia. reflexivity. }
  symmetry. symmetry. apply Zceil_imp. rewrite minus_IZR. fold C. split.
  - (* rounding cannot reach the integer below *)
    assert (Hrel : Rabs (RN64 q - q) <= / 2 * bpow radix2 (- (53) + 1) * Rabs q).
    { unfold RN64, fexp64. apply relative_error_N_FLT; [lia|].
      rewrite (Rabs_pos_eq q) by lra.
      apply Rle_trans with (bpow radix2 (-53)); [apply bpow_le; lia|].
      rewrite bpow_m53.
      (* / 2^53 <= q  since  q * B = A >= 1 and B < 2^53 *)
      assert (HBP : B < IZR (2 ^ 53)) by (apply IZR_lt; lia).
      assert (HA1 : 1 <= A) by (apply (IZR_le 1); lia).
      assert (HP0 : 0 < IZR (2 ^ 53)) by (apply IZR_lt; lia).
      apply Rmult_le_reg_r with (IZR (2 ^ 53)); [assumption|].
      rewrite Rinv_l by lra. nra. }
    rewrite (Rabs_pos_eq q) in Hrel by lra.
    rewrite half_ulp_53 in Hrel.
    apply Rabs_le_inv in Hrel.
    (* q / 2^53 < 1 / B *)
    assert (HP0 : 0 < IZR (2 ^ 53)) by (apply IZR_lt; lia).
    assert (Herr : / IZR (2 ^ 53) * q * B < 1).
    { rewrite Rmult_assoc, HqB. apply Rmult_lt_reg_l with (IZR (2 ^ 53)); [assumption|].
      rewrite <- Rmult_assoc, Rinv_r by lra. lra. }
    (* (C - 1) * B <= A - 1 = q*B - 1 < (q - err) * B <= RN q * B *)
    apply Rmult_lt_reg_r with B; [assumption|]. nra.
  - (* the integer above is representable; rounding is monotone *)
    assert (Hle : q <= C).
    { apply Rmult_le_reg_r with B; [assumption|]. rewrite HqB. assumption. }
    replace C with (RN64 C).
    + unfold RN64. apply round_le; [apply FLT_exp_valid; unfold Prec_gt_0; lia | apply valid_rnd_N | assumption].
    + unfold RN64. apply round_generic; [apply valid_rnd_N|]. apply int_format64. lia.
Qed.

(* as used by Model.nwin: the clamp max(., 0) makes the sign of ns - nswin irrelevant *)
Theorem nwin_float_exact (ns nswin ov : Z) :
  (Z.abs (ns - nswin) < 2 ^ 53)%Z -> (0 < nswin - ov < 2 ^ 53)%Z ->
  (Z.max (Zceil (RN64 (IZR (ns - nswin) / IZR (nswin - ov)))) 0 + 1 =
   Z.max (cdiv (ns - nswin) (nswin - ov)) 0 + 1)%Z.
Proof.
  intros Ha Hb. f_equal.
  destruct (Z_lt_le_dec 0 (ns - nswin)) as [Hpos|Hneg].
  - rewrite float_ceil_exact by lia. reflexivity.
  - (* non-positive numerator: both ceilings are <= 0 *)
    pose proof (cdiv_nonpos (ns - nswin) (nswin - ov) ltac:(lia) Hneg) as Hc.
    assert (Hq : IZR (ns - nswin) / IZR (nswin - ov) <= 0).
    { apply Rmult_le_reg_r with (IZR (nswin - ov)); [apply IZR_lt; lia|].
      unfold Rdiv. rewrite Rmult_assoc, Rinv_l, Rmult_1_r, Rmult_0_l.
      - apply IZR_le. lia.
      - apply Rgt_not_eq. apply IZR_lt. lia. }
    assert (Hr : RN64 (IZR (ns - nswin) / IZR (nswin - ov)) <= 0).
    { replace 0 with (RN64 0).
      - unfold RN64. apply round_le; [apply FLT_exp_valid; unfold Prec_gt_0; lia | apply valid_rnd_N | assumption].
      - unfold RN64. apply round_0. apply valid_rnd_N. }
    assert (Hz : (Zceil (RN64 (IZR (ns - nswin) / IZR (nswin - ov))) <= 0)%Z).
    { apply Zceil_glb. exact Hr. }
    lia.
Qed.

(* binary64 datatype level: float(n) for an integer, x / y as IEEE division *)
Definition Hprec64 : Prec_gt_0 53 := eq_refl.
Definition Hmax64 : Prec_lt_emax 53 1024 := eq_refl.
Definition b64 := binary_float 53 1024.
Definition Z2B64 (n : Z) : b64 := binary_normalize 53 1024 Hprec64 Hmax64 mode_NE n 0 false.
Definition div64 (x y : b64) : b64 := @Bdiv 53 1024 Hprec64 Hmax64 mode_NE x y.

Lemma RN64_int n : (Z.abs n < 2 ^ 53)%Z -> RN64 (IZR n) = IZR n.
Proof. intros H. unfold RN64. apply round_generic; [apply valid_rnd_N|]. now apply int_format64. Qed.

Lemma lt_emax n : (Z.abs n < 2 ^ 53)%Z -> Rabs (IZR n) < bpow radix2 1024.
Proof.
  intros H. rewrite <- abs_IZR.
  apply Rlt_trans with (bpow radix2 53); [rewrite bpow_53; apply IZR_lt; lia|].
  apply bpow_lt. lia.
Qed.

Lemma Z2B64_correct n : (Z.abs n < 2 ^ 53)%Z ->
  B2R (Z2B64 n) = IZR n /\ is_finite (Z2B64 n) = true.
Proof.
  intros H. unfold Z2B64.
  pose proof (binary_normalize_correct 53 1024 Hprec64 Hmax64 mode_NE n 0 false) as Hc.
  cbv zeta in Hc.
  assert (Hx : F2R (Float radix2 n 0) = IZR n) by (unfold F2R; cbn; ring).
  rewrite Hx in Hc.
  change (round radix2 (SpecFloat.fexp 53 1024) (round_mode mode_NE) (IZR n)) with (RN64 (IZR n)) in Hc.
  rewrite RN64_int in Hc by assumption.
  rewrite Rlt_bool_true in Hc by (now apply lt_emax).
  destruct Hc as [H1 [H2 _]]. split; assumption.
Qed.

Theorem div64_is_RN64 a b : (Z.abs a < 2 ^ 53)%Z -> (0 < b < 2 ^ 53)%Z ->
  B2R (div64 (Z2B64 a) (Z2B64 b)) = RN64 (IZR a / IZR b) /\
  is_finite (div64 (Z2B64 a) (Z2B64 b)) = true.
Proof.
  intros Ha Hb.
  destruct (Z2B64_correct a Ha) as [Ra Fa].
  destruct (Z2B64_correct b ltac:(lia)) as [Rb Fb].
  assert (Hnz : B2R (Z2B64 b) <> 0).
  { rewrite Rb. apply Rgt_not_eq. apply IZR_lt. lia. }
  pose proof (Bdiv_correct 53 1024 Hprec64 Hmax64 mode_NE (Z2B64 a) (Z2B64 b) Hnz) as Hc.
  rewrite Ra, Rb in Hc.
  change (round radix2 (SpecFloat.fexp 53 1024) (round_mode mode_NE) (IZR a / IZR b))
    with (RN64 (IZR a / IZR b)) in Hc.
  (* no overflow: |RN(a/b)| <= |a| < 2^1024 *)
  assert (HB : 1 <= IZR b) by (apply (IZR_le 1); lia).
  assert (Hq : Rabs (IZR a / IZR b) <= IZR (Z.abs a)).
  { unfold Rdiv. rewrite Rabs_mult, abs_IZR, (Rabs_pos_eq (/ IZR b)).
    - rewrite <- (Rmult_1_r (Rabs (IZR a))) at 2. apply Rmult_le_compat_l; [apply Rabs_pos|].
      rewrite <- Rinv_1. apply Rinv_le; lra.
    - apply Rlt_le, Rinv_0_lt_compat. lra. }
  assert (Hr : Rabs (RN64 (IZR a / IZR b)) <= IZR (Z.abs a)).
  { unfold RN64. apply abs_round_le_generic;
      [apply FLT_exp_valid; unfold Prec_gt_0; lia | apply valid_rnd_N | apply int_format64; lia | exact Hq]. }
  rewrite Rlt_bool_true in Hc.
  - destruct Hc as [H1 [H2 _]]. split; [exact H1|]. unfold div64. rewrite H2. exact Fa.
  - apply Rle_lt_trans with (IZR (Z.abs a)); [exact Hr|].
    rewrite <- (Rabs_pos_eq (IZR (Z.abs a))) by (apply IZR_le; lia). apply lt_emax. lia.
Qed.

(* int(np.ceil(float(a) / float(b))): the ceiling of the value of the IEEE quotient *)
Definition ceil_div64 (a b : Z) : Z := Zceil (B2R (div64 (Z2B64 a) (Z2B64 b))).

Theorem float64_ceil_div_exact a b : (0 < a < 2 ^ 53)%Z -> (0 < b < 2 ^ 53)%Z ->
  ceil_div64 a b = cdiv a b.
Proof.
  intros Ha Hb. unfold ceil_div64. destruct (div64_is_RN64 a b ltac:(lia) Hb) as [-> _]. now apply float_ceil_exact.
Qed.

(* the source line, at the binary64 datatype level:
     self.nwin = max(int(np.ceil(float(ns - nswin) / float(nswin - overlap))), 0) + 1
   (float() of an integer below 2^53 is exact; np.ceil of a finite float, then int(), is the
   mathematical ceiling of its value) *)
Definition nwin_float64 (ns nswin ov : Z) : Z :=
  Z.max (ceil_div64 (ns - nswin) (nswin - ov)) 0 + 1.

Theorem nwin_float64_exact ns nswin ov :
  (Z.abs (ns - nswin) < 2 ^ 53)%Z -> (0 < nswin - ov < 2 ^ 53)%Z ->
  nwin_float64 ns nswin ov = (Z.max (cdiv (ns - nswin) (nswin - ov)) 0 + 1)%Z.
Proof.
  intros Ha Hb. unfold nwin_float64, ceil_div64.
  destruct (div64_is_RN64 (ns - nswin) (nswin - ov) Ha Hb) as [-> _].
  now apply nwin_float_exact.
Qed.
