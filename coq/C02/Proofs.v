(* C02 — lemmas. *)
From Coq Require Import ZArith List Bool Lia.
From IBL.lib Require Import PyInt.
From IBL.C02 Require Import Model.
Import ListNotations.
Open Scope Z_scope.

(* ---------------------------------------------------------------------- *)
(* Part A: resolution                                                      *)
(* ---------------------------------------------------------------------- *)
Definition entry_exists (eb ec em : bool) (e : entry) : bool :=
  match e with EBin => eb | ECbin => ec | EMeta => em end.

Lemma resolve_existing eb ec em e :
  eb || ec = true -> entry_exists eb ec em e = true ->
  exists f, resolve eb ec e = Some f /\ dfile_exists eb ec f = true.
Proof.
  intros Hd He. destruct e, eb, ec; cbn in *; try discriminate; eauto.
Qed.
