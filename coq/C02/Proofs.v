(* C02 — lemmas. *)
From Coq Require Import ZArith List Bool Lia.
From IBL.lib Require Import PyInt.
From IBL.C02 Require Import Model.
Import ListNotations.
Open Scope Z_scope.

(* ---------------------------------------------------------------------- *)
(* Part A: resolution                                                      *)
(* ---------------------------------------------------------------------- *)
Definition entry_exists (eb ec em : bool) (e : entry) : bool :=
  match e with EBin => eb | ECbin => ec | EMeta => em end.

Lemma resolve_existing eb ec em e :
  eb || ec = true -> entry_exists eb ec em e = true ->
  exists f, resolve eb ec e = Some f /\ dfile_exists eb ec f = true.
Proof.
  intros Hd He. destruct e, eb, ec; cbn in *; try discriminate; eauto.
Qed.

(* ---------------------------------------------------------------------- *)
(* Part B: the file-system machine                                         *)
(* ---------------------------------------------------------------------- *)

(* fault-free execution, the states it passes through, and the (state, step)
   pairs it executes *)
Fixpoint run (l : list step) (fs : fsys) : option fsys :=
  match l with
  | [] => Some fs
  | s :: l' => match effect fs s with None => None | Some fs' => run l' fs' end
  end.
Fixpoint reach (l : list step) (fs : fsys) : list fsys :=
  fs :: match l with
        | [] => []
        | s :: l' => match effect fs s with None => [] | Some fs' => reach l' fs' end
        end.
Fixpoint pre_steps (l : list step) (fs : fsys) : list (fsys * step) :=
  match l with
  | [] => []
  | s :: l' => match effect fs s with
               | None => []
               | Some fs' => (fs, s) :: pre_steps l' fs'
               end
  end.

Lemma reach_head l fs : In fs (reach l fs).
Proof. destruct l; cbn; auto. Qed.

(* whatever the fault, the run ends in a state the fault-free run passes through *)
Lemma exec_final_in_reach l : forall fs f, In (final_fs (exec l fs f)) (reach l fs).
Proof.
  induction l as [|s l IH]; intros fs f; [cbn; auto|].
  cbn [exec reach].
  destruct (fires fs s) eqn:Ef, f as [[|n]|]; cbn [final_fs fst]; try (left; reflexivity);
    (destruct (effect fs s) as [fs'|] eqn:Ee; [|left; reflexivity]);
    match goal with |- context [exec l fs' ?g] =>
      specialize (IH fs' g); destruct (exec l fs' g) as [[a b] t]; cbn in *; right; exact IH end.
Qed.

Lemma exec_trace_incl l : forall fs f, incl (final_tr (exec l fs f)) (pre_steps l fs).
Proof.
  induction l as [|s l IH]; intros fs f; [cbn; intros x []|].
  cbn [exec pre_steps].
  destruct (fires fs s) eqn:Ef, f as [[|n]|]; cbn [final_tr snd]; try (intros x []);
    (destruct (effect fs s) as [fs'|] eqn:Ee; [|intros x []]);
    match goal with |- context [exec l fs' ?g] =>
      specialize (IH fs' g); destruct (exec l fs' g) as [[a b] t]; cbn in *;
      intros x [Hx|Hx]; [left; exact Hx|right; apply IH; exact Hx] end.
Qed.

Lemma exec_done_run l : forall fs f,
  final_oc (exec l fs f) = Done -> run l fs = Some (final_fs (exec l fs f)).
Proof.
  induction l as [|s l IH]; intros fs f; [cbn; auto|].
  cbn [exec run].
  destruct (fires fs s) eqn:Ef, f as [[|n]|]; cbn [final_oc final_fs fst snd]; try discriminate;
    (destruct (effect fs s) as [fs'|] eqn:Ee; [|cbn; discriminate]);
    match goal with |- context [exec l fs' ?g] =>
      specialize (IH fs' g); destruct (exec l fs' g) as [[a b] t]; cbn in *; exact IH end.
Qed.

Lemma exec_nofault l : forall fs fs',
  run l fs = Some fs' -> exec l fs None = (fs', Done, pre_steps l fs).
Proof.
  induction l as [|s l IH]; intros fs fs' H; cbn in *; [congruence|].
  destruct (effect fs s) as [fs1|] eqn:Ee; [|discriminate].
  destruct (fires fs s); rewrite (IH _ _ H); reflexivity.
Qed.

Lemma exec_raised_fault l : forall fs f, final_oc (exec l fs f) = Raised -> f <> None.
Proof.
  induction l as [|s l IH]; intros fs f; [cbn; discriminate|].
  cbn [exec].
  destruct (fires fs s) eqn:Ef, f as [[|n]|]; cbn [final_oc fst snd]; try discriminate;
    (destruct (effect fs s) as [fs'|] eqn:Ee; [|cbn; discriminate]);
    match goal with |- context [exec l fs' ?g] =>
      specialize (IH fs' g); destruct (exec l fs' g) as [[a b] t]; cbn in *; intros H;
      try discriminate; try (apply IH in H; congruence) end.
Qed.

Lemma run_app l1 : forall l2 fs,
  run (l1 ++ l2) fs = match run l1 fs with Some fs1 => run l2 fs1 | None => None end.
Proof.
  induction l1 as [|s l1 IH]; intros l2 fs; cbn; [reflexivity|].
  destruct (effect fs s); [apply IH|reflexivity].
Qed.

Lemma reach_app_forall (P : fsys -> Prop) l1 : forall l2 fs,
  Forall P (reach l1 fs) ->
  (forall fs1, run l1 fs = Some fs1 -> Forall P (reach l2 fs1)) ->
  Forall P (reach (l1 ++ l2) fs).
Proof.
  induction l1 as [|s l1 IH]; intros l2 fs H1 H2; cbn in *.
  - apply H2. reflexivity.
  - inversion H1 as [|x y Hx Hy]; subst. constructor; [exact Hx|].
    destruct (effect fs s) as [fs'|]; [|constructor].
    apply IH; [exact Hy|exact H2].
Qed.

Lemma pre_steps_app_forall (P : fsys * step -> Prop) l1 : forall l2 fs,
  Forall P (pre_steps l1 fs) ->
  (forall fs1, run l1 fs = Some fs1 -> Forall P (pre_steps l2 fs1)) ->
  Forall P (pre_steps (l1 ++ l2) fs).
Proof.
  induction l1 as [|s l1 IH]; intros l2 fs H1 H2; cbn in *.
  - apply H2. reflexivity.
  - destruct (effect fs s) as [fs'|]; [|constructor].
    inversion H1 as [|x y Hx Hy]; subst. constructor; [exact Hx|].
    apply IH; [exact Hy|exact H2].
Qed.

(* the chunk loop: only computes and appends to one path *)
Definition is_body (p : path) (s : step) : Prop :=
  (exists k, s = SCompute k) \/ (exists k, s = SAppend p k).

Definition body_rel (p : path) (fs x : fsys) : Prop :=
  (forall q, path_eqb q p = false -> x q = fs q) /\
  (x p = fs p \/ exists j, x p = Partial j).

Lemma body_rel_refl p fs : body_rel p fs fs.
Proof. split; auto. Qed.

Lemma body_rel_step p fs x s x' :
  body_rel p fs x -> is_body p s -> effect x s = Some x' -> body_rel p fs x'.
Proof.
  intros [Ho Hp] [[k ->]|[k ->]] He; cbn in He; inversion He; subst; clear He.
  - split; auto.
  - split.
    + intros q Hq. unfold upd. rewrite Hq. apply Ho, Hq.
    + right. exists (k + 1). unfold upd, path_eqb. now rewrite Z.eqb_refl.
Qed.

Lemma body_effect p x s : is_body p s -> exists x', effect x s = Some x'.
Proof. intros [[k ->]|[k ->]]; cbn; eauto. Qed.

Lemma body_run p body : Forall (is_body p) body -> forall fs x, body_rel p fs x ->
  exists x', run body x = Some x' /\ body_rel p fs x'.
Proof.
  induction 1 as [|s body Hs Hb IH]; intros fs x Hx; cbn; [eauto|].
  destruct (body_effect p x s Hs) as [x1 He]. rewrite He.
  apply (IH fs x1). eapply body_rel_step; eauto.
Qed.

Lemma body_reach p body : Forall (is_body p) body -> forall fs x, body_rel p fs x ->
  Forall (body_rel p fs) (reach body x).
Proof.
  induction 1 as [|s body Hs Hb IH]; intros fs x Hx; cbn; [auto|].
  constructor; [exact Hx|].
  destruct (body_effect p x s Hs) as [x1 He]. rewrite He.
  apply IH. eapply body_rel_step; eauto.
Qed.

Lemma body_pre_steps p body : Forall (is_body p) body -> forall x,
  Forall (fun e => is_body p (snd e)) (pre_steps body x).
Proof.
  induction 1 as [|s body Hs Hb IH]; intros x; cbn; [auto|].
  destruct (effect x s); constructor; auto.
Qed.

Lemma batches_body p m B : Forall (is_body p) (batches p m B).
Proof.
  unfold batches. apply Forall_forall. intros s Hs.
  apply in_flat_map in Hs. destruct Hs as [i [_ Hs]].
  unfold batch_steps in Hs. apply in_app_or in Hs.
  destruct Hs as [Hs|Hs]; apply in_map_iff in Hs; destruct Hs as [k [<- _]];
    [left|right]; eauto.
Qed.

Lemma tag_eqb_refl t : tag_eqb t t = true.
Proof. destruct t; cbn; rewrite ?Z.eqb_refl; reflexivity. Qed.

Lemma is_complete_refl t : is_complete (Complete t) t = true.
Proof. apply tag_eqb_refl. Qed.

(* ---- compress_file ---- *)
Definition others : list path := [PMeta; PBinTmp; PSBin; PSBinTmp; PSMeta].

(* header and stream are published by two renames; pub says where a state is:
   nothing published yet / header published, stream still under its temporary
   name (the complete new stream, source intact) / both published *)
Definition pub (r c : Z) (fs0 x : fsys) : Prop :=
  (x PCh = fs0 PCh /\ x PCbin = fs0 PCbin) \/
  (x PCh = Complete (Hdr r c) /\ x PCbin = fs0 PCbin /\
   x PCbinTmp = Complete (Comp r c) /\ x PChTmp = Absent /\ x PBin = Complete (Orig r)) \/
  (x PCh = Complete (Hdr r c) /\ x PCbin = Complete (Comp r c)).

Definition cQ (r c : Z) (keep : bool) (fs0 x : fsys) : Prop :=
  (x PCbin = fs0 PCbin \/ x PCbin = Complete (Comp r c)) /\
  (x PBin = Complete (Orig r) \/
   (keep = false /\ x PBin = Absent /\
    x PCbin = Complete (Comp r c) /\ x PCh = Complete (Hdr r c))) /\
  (forall q, In q others -> x q = fs0 q) /\
  pub r c fs0 x.

Definition compress_tail (r c : Z) (keep chk : bool) : list step :=
  [SClose PCbinTmp (Comp r c); SOpenW PChTmp; SDump PChTmp (Hdr r c)] ++
  (if chk then [SVerify PCbinTmp PChTmp PBin r c] else []) ++
  [SRename PChTmp PCh; SRename PCbinTmp PCbin] ++
  (if keep then [] else [SUnlink PBin]).

Lemma compress_steps_split r c m B keep chk :
  compress_steps r c m B keep chk =
  [SOpenW PCbinTmp] ++ batches PCbinTmp m B ++ compress_tail r c keep chk.
Proof. reflexivity. Qed.

Ltac fs_simpl :=
  unfold upd, path_eqb; cbn [path_code Z.eqb Pos.eqb negb andb orb present is_complete];
  rewrite ?tag_eqb_refl; cbn [andb orb negb].

Ltac others_cases Hq := unfold others in Hq; cbn [In] in Hq;
  repeat (destruct Hq as [Hq|Hq]; [subst; cbn [path_code Z.eqb Pos.eqb]|]); try contradiction.

Ltac solve_cQ Hb Hc Hh Hot :=
  unfold cQ, pub; cbn [path_code Z.eqb Pos.eqb]; rewrite ?Hb, ?Hc, ?Hh;
  split; [auto|split; [auto 6|split;
    [intros q Hq; rewrite <- (Hot q Hq); others_cases Hq; reflexivity|auto 10]]].

Lemma compress_tail_reach r c keep chk fs0 fs2 :
  fs0 PBin = Complete (Orig r) ->
  (forall q, path_eqb q PCbinTmp = false -> fs2 q = fs0 q) ->
  Forall (cQ r c keep fs0) (reach (compress_tail r c keep chk) fs2).
Proof.
  intros Hsrc Ho.
  assert (Hb : fs2 PBin = Complete (Orig r)) by (rewrite Ho; auto).
  assert (Hc : fs2 PCbin = fs0 PCbin) by (apply Ho; reflexivity).
  assert (Hh : fs2 PCh = fs0 PCh) by (apply Ho; reflexivity).
  assert (Hot : forall q, In q others -> fs2 q = fs0 q).
  { intros q Hq. apply Ho. others_cases Hq; reflexivity. }
  unfold compress_tail. destruct chk, keep; cbn [app reach effect]; fs_simpl; rewrite ?Hb; fs_simpl;
  repeat first [apply Forall_nil | apply Forall_cons; [solve_cQ Hb Hc Hh Hot|]
               | progress (fs_simpl; rewrite ?Hb; fs_simpl)].
Qed.

(* what the fault-free tail ends in *)
Lemma compress_tail_run r c keep chk fs2 :
  fs2 PBin = Complete (Orig r) ->
  exists fsf, run (compress_tail r c keep chk) fs2 = Some fsf /\
    fsf PCbin = Complete (Comp r c) /\ fsf PCh = Complete (Hdr r c) /\
    fsf PCbinTmp = Absent /\ fsf PChTmp = Absent /\
    fsf PBin = (if keep then Complete (Orig r) else Absent).
Proof.
  intros Hb. unfold compress_tail.
  destruct chk, keep; cbn [app run effect]; repeat progress (fs_simpl; rewrite ?Hb);
    eexists; (split; [reflexivity|]); cbn [path_code Z.eqb Pos.eqb]; rewrite ?Hb; auto 6.
Qed.

(* ordering inside the tail: the header is published only once stream and
   header are complete (and verified when asked); the stream is published
   next, with the complete header already in place; the source is unlinked
   only after both *)
Definition c_order (r c : Z) (e : fsys * step) : Prop :=
  let '(x, s) := e in
  (s = SRename PChTmp PCh ->
     x PChTmp = Complete (Hdr r c) /\ x PCbinTmp = Complete (Comp r c) /\
     x PBin = Complete (Orig r)) /\
  (s = SRename PCbinTmp PCbin ->
     x PCbinTmp = Complete (Comp r c) /\ x PCh = Complete (Hdr r c) /\
     x PChTmp = Absent /\ x PBin = Complete (Orig r)) /\
  (s = SUnlink PBin ->
     x PCbin = Complete (Comp r c) /\ x PCh = Complete (Hdr r c) /\
     x PCbinTmp = Absent /\ x PChTmp = Absent).

Lemma compress_tail_order r c keep chk fs2 :
  fs2 PBin = Complete (Orig r) ->
  Forall (c_order r c) (pre_steps (compress_tail r c keep chk) fs2).
Proof.
  intros Hb. unfold compress_tail.
  destruct chk, keep; cbn [app pre_steps effect]; fs_simpl; rewrite ?Hb; fs_simpl;
  repeat first [apply Forall_nil
               | apply Forall_cons;
                 [unfold c_order; split; [|split]; intros Hs; try discriminate Hs;
                  cbn [path_code Z.eqb Pos.eqb]; rewrite ?Hb; auto 6|]
               | progress (fs_simpl; rewrite ?Hb; fs_simpl)].
Qed.

Lemma exec_not_failed l : forall fs f, run l fs <> None -> final_oc (exec l fs f) <> Failed.
Proof.
  induction l as [|s l IH]; intros fs f; [cbn; discriminate|].
  cbn [exec run].
  destruct (effect fs s) as [fs'|] eqn:Ee; [|congruence].
  intros Hr.
  destruct (fires fs s) eqn:Ef, f as [[|n]|]; cbn [final_oc fst snd]; try discriminate;
    match goal with |- context [exec l fs' ?g] =>
      specialize (IH fs' g Hr); destruct (exec l fs' g) as [[a b] t]; cbn in *; exact IH end.
Qed.

Lemma open_tmp_rel fs0 p : body_rel p fs0 (upd fs0 p (Partial 0)).
Proof.
  split.
  - intros q Hq. unfold upd. now rewrite Hq.
  - right. exists 0. unfold upd, path_eqb. now rewrite Z.eqb_refl.
Qed.

Lemma cQ_of_rel r c keep fs0 x :
  fs0 PBin = Complete (Orig r) -> body_rel PCbinTmp fs0 x -> cQ r c keep fs0 x.
Proof.
  intros Hsrc [Ho _]. unfold cQ, pub.
  rewrite (Ho PCbin eq_refl), (Ho PBin eq_refl), (Ho PCh eq_refl).
  split; [auto|split; [auto|split; [|auto]]].
  intros q Hq. apply Ho. others_cases Hq; reflexivity.
Qed.

Lemma body_rel_trans p a b c : body_rel p a b -> body_rel p b c -> body_rel p a c.
Proof.
  intros [H1 H1'] [H2 H2']. split.
  - intros q Hq. rewrite (H2 q Hq). apply H1, Hq.
  - destruct H2' as [E|[j E]]; [rewrite E; exact H1'|right; eauto].
Qed.

Lemma compress_reach r c m B keep chk fs0 :
  fs0 PBin = Complete (Orig r) ->
  Forall (cQ r c keep fs0) (reach (compress_steps r c m B keep chk) fs0).
Proof.
  intros Hsrc. rewrite compress_steps_split.
  apply reach_app_forall.
  - cbn [reach effect].
    apply Forall_cons; [apply cQ_of_rel; auto using body_rel_refl|].
    apply Forall_cons; [apply cQ_of_rel; auto using open_tmp_rel|apply Forall_nil].
  - intros fs1 H1. cbn in H1. inversion H1; subst fs1; clear H1.
    pose proof (open_tmp_rel fs0 PCbinTmp) as R1.
    set (fs1 := upd fs0 PCbinTmp (Partial 0)) in *.
    apply reach_app_forall.
    + eapply Forall_impl;
        [|apply (body_reach PCbinTmp _ (batches_body _ m B) fs1 fs1 (body_rel_refl _ _))].
      intros x Hx. apply cQ_of_rel; [exact Hsrc|]. eapply body_rel_trans; eauto.
    + intros fs2 H2.
      destruct (body_run PCbinTmp _ (batches_body _ m B) fs1 fs1 (body_rel_refl _ _)) as [x' [Hx' R2]].
      rewrite H2 in Hx'. inversion Hx'; subst x'; clear Hx'.
      apply compress_tail_reach; [exact Hsrc|].
      intros q Hq. destruct (body_rel_trans _ _ _ _ R1 R2) as [Ho _]. apply Ho, Hq.
Qed.

Lemma compress_run r c m B keep chk fs0 :
  fs0 PBin = Complete (Orig r) ->
  exists fsf, run (compress_steps r c m B keep chk) fs0 = Some fsf /\
    fsf PCbin = Complete (Comp r c) /\ fsf PCh = Complete (Hdr r c) /\
    fsf PCbinTmp = Absent /\ fsf PChTmp = Absent /\
    fsf PBin = (if keep then Complete (Orig r) else Absent).
Proof.
  intros Hsrc. rewrite compress_steps_split, run_app. cbn [run effect].
  rewrite run_app.
  destruct (body_run PCbinTmp _ (batches_body _ m B) _ _ (open_tmp_rel fs0 PCbinTmp)) as [fs2 [H2 [Ho _]]].
  rewrite H2. apply compress_tail_run. rewrite (Ho PBin eq_refl). exact Hsrc.
Qed.

Lemma compress_order r c m B keep chk fs0 :
  fs0 PBin = Complete (Orig r) ->
  Forall (c_order r c) (pre_steps (compress_steps r c m B keep chk) fs0).
Proof.
  intros Hsrc. rewrite compress_steps_split.
  apply pre_steps_app_forall.
  - cbn. apply Forall_cons; [|apply Forall_nil]. split; [|split]; intros Hs; discriminate Hs.
  - intros fs1 H1. cbn in H1. inversion H1; subst fs1; clear H1.
    apply pre_steps_app_forall.
    + eapply Forall_impl; [|apply (body_pre_steps PCbinTmp _ (batches_body _ m B))].
      intros [x s] Hs. cbn in Hs. unfold c_order.
      destruct Hs as [[k ->]|[k ->]]; (split; [|split]); intros E; discriminate E.
    + intros fs2 H2.
      destruct (body_run PCbinTmp _ (batches_body _ m B) _ _ (open_tmp_rel fs0 PCbinTmp)) as [x' [Hx' [Ho _]]].
      rewrite H2 in Hx'. inversion Hx'; subst x'; clear Hx'.
      apply compress_tail_order. rewrite (Ho PBin eq_refl). exact Hsrc.
Qed.

(* the public statement *)
Lemma compress_atomic r c m B keep chk fs0 fault :
  fs0 PBin = Complete (Orig r) ->
  let res := exec (compress_steps r c m B keep chk) fs0 fault in
  let fs' := final_fs res in
  (fs' PCbin = fs0 PCbin \/ fs' PCbin = Complete (Comp r c)) /\
  (fs' PBin = Complete (Orig r) \/
   (keep = false /\ fs' PBin = Absent /\
    fs' PCbin = Complete (Comp r c) /\ fs' PCh = Complete (Hdr r c))) /\
  (forall q, In q others -> fs' q = fs0 q) /\
  pub r c fs0 fs' /\
  (final_oc res = Done ->
     fs' PCbin = Complete (Comp r c) /\ fs' PCh = Complete (Hdr r c) /\
     fs' PCbinTmp = Absent /\ fs' PChTmp = Absent /\
     fs' PBin = (if keep then Complete (Orig r) else Absent)) /\
  (fault = None -> final_oc res = Done) /\
  final_oc res <> Failed.
Proof.
  intros Hsrc res fs'.
  pose proof (compress_reach r c m B keep chk fs0 Hsrc) as HR.
  rewrite Forall_forall in HR.
  destruct (HR fs' (exec_final_in_reach _ _ _)) as [Ha [Hb [Hc Hp]]].
  destruct (compress_run r c m B keep chk fs0 Hsrc) as [fsf [Hrun Hf]].
  split; [exact Ha|split; [exact Hb|split; [exact Hc|split; [exact Hp|split; [|split]]]]].
  - intros H. pose proof (exec_done_run _ _ _ H) as E. fold res fs' in E. rewrite Hrun in E.
    inversion E as [E1]. rewrite <- E1. exact Hf.
  - intros ->. unfold res. rewrite (exec_nofault _ _ _ Hrun). reflexivity.
  - apply exec_not_failed. rewrite Hrun. discriminate.
Qed.

Lemma compress_inplace_order r c m B keep chk fs0 fault :
  fs0 PBin = Complete (Orig r) ->
  Forall (c_order r c) (final_tr (exec (compress_steps r c m B keep chk) fs0 fault)).
Proof.
  intros Hsrc. apply Forall_forall. intros e He.
  pose proof (compress_order r c m B keep chk fs0 Hsrc) as HO. rewrite Forall_forall in HO.
  apply HO. eapply exec_trace_incl; eauto.
Qed.

(* ---- decompress_file ---- *)
Definition out_ok (out : path) : bool :=
  match out with PBin | PBinTmp | PSBinTmp => true | _ => false end.

Definition dQ (r c : Z) (keep : bool) (out : path) (fs0 x : fsys) : Prop :=
  ((x PCbin = Complete (Comp r c) /\ x PCh = Complete (Hdr r c)) \/
   (keep = false /\ x out = Complete (Orig r) /\ x PCbin = Absent /\
    (x PCh = Complete (Hdr r c) \/ x PCh = Absent))) /\
  (forall q, path_eqb q out = false -> path_eqb q PCbin = false -> path_eqb q PCh = false ->
             x q = fs0 q).

Definition decompress_head (out : path) (ow : bool) : list step :=
  [SReadOpen PCh; SReadOpen PCbin;
   (if ow then SUnlinkIfExists out else SRequireAbsent out); SOpenW out].
Definition decompress_tail (r c : Z) (out : path) (keep chk : bool) : list step :=
  [SClose out (Orig r)] ++
  (if chk then [SVerify PCbin PCh out r c] else []) ++
  (if keep then [] else [SUnlink PCbin; SUnlink PCh]).

Lemma decompress_steps_split r c m B out keep chk ow :
  decompress_steps r c m B out keep chk ow =
  decompress_head out ow ++ batches out m B ++ decompress_tail r c out keep chk.
Proof. reflexivity. Qed.

Definition same_but (p : path) (fs x : fsys) : Prop :=
  forall q, path_eqb q p = false -> x q = fs q.

Lemma same_but_refl p fs : same_but p fs fs.
Proof. intros q _. reflexivity. Qed.
Lemma same_but_upd p fs x v : same_but p fs x -> same_but p fs (upd x p v).
Proof. intros H q Hq. unfold upd. rewrite Hq. apply H, Hq. Qed.
Lemma same_but_trans p a b c : same_but p a b -> same_but p b c -> same_but p a c.
Proof. intros H1 H2 q Hq. rewrite (H2 q Hq). apply H1, Hq. Qed.
Lemma body_rel_same p fs x : body_rel p fs x -> same_but p fs x.
Proof. intros [H _]. exact H. Qed.

Lemma dQ_of_same r c keep out fs0 x :
  out_ok out = true ->
  fs0 PCbin = Complete (Comp r c) -> fs0 PCh = Complete (Hdr r c) ->
  same_but out fs0 x -> dQ r c keep out fs0 x.
Proof.
  intros Hout Hc Hh Ho. unfold dQ. split.
  - left. rewrite (Ho PCbin), (Ho PCh); [auto| |]; destruct out; try discriminate; reflexivity.
  - intros q Hq _ _. apply Ho, Hq.
Qed.

Lemma decompress_head_reach r c out ow fs0 :
  fs0 PCbin = Complete (Comp r c) -> fs0 PCh = Complete (Hdr r c) ->
  Forall (same_but out fs0) (reach (decompress_head out ow) fs0).
Proof.
  intros Hc Hh. unfold decompress_head. repeat progress (cbn [reach effect present]; rewrite ?Hc, ?Hh).
  apply Forall_cons; [apply same_but_refl|].
  apply Forall_cons; [apply same_but_refl|].
  apply Forall_cons; [apply same_but_refl|].
  destruct ow; cbn [effect].
  - apply Forall_cons; [apply same_but_upd, same_but_refl|].
    apply Forall_cons; [apply same_but_upd, same_but_upd, same_but_refl|apply Forall_nil].
  - destruct (present (fs0 out)); [apply Forall_nil|].
    apply Forall_cons; [apply same_but_refl|].
    apply Forall_cons; [apply same_but_upd, same_but_refl|apply Forall_nil].
Qed.

Lemma decompress_head_run r c out ow fs0 fs1 :
  fs0 PCbin = Complete (Comp r c) -> fs0 PCh = Complete (Hdr r c) ->
  run (decompress_head out ow) fs0 = Some fs1 ->
  same_but out fs0 fs1 /\ fs1 out = Partial 0.
Proof.
  intros Hc Hh. unfold decompress_head. repeat progress (cbn [run effect present]; rewrite ?Hc, ?Hh).
  destruct ow; cbn [effect].
  - intros E. inversion E. split; [apply same_but_upd, same_but_upd, same_but_refl|].
    unfold upd, path_eqb. now rewrite Z.eqb_refl.
  - destruct (present (fs0 out)); [discriminate|].
    intros E. inversion E. split; [apply same_but_upd, same_but_refl|].
    unfold upd, path_eqb. now rewrite Z.eqb_refl.
Qed.

Lemma decompress_head_total r c out ow fs0 :
  fs0 PCbin = Complete (Comp r c) -> fs0 PCh = Complete (Hdr r c) ->
  (ow = true \/ present (fs0 out) = false) ->
  exists fs1, run (decompress_head out ow) fs0 = Some fs1.
Proof.
  intros Hc Hh Hg. unfold decompress_head. repeat progress (cbn [run effect present]; rewrite ?Hc, ?Hh).
  destruct ow; cbn [effect]; [eauto|].
  destruct Hg as [Hg|Hg]; [discriminate|]. rewrite Hg. eauto.
Qed.

Ltac solve_dQ Hc Hh Ho :=
  unfold dQ; cbn [path_code Z.eqb Pos.eqb]; rewrite ?Hc, ?Hh;
  split; [auto 8|
          intros q Hq1 Hq2 Hq3; unfold path_eqb in Hq1, Hq2, Hq3; cbn [path_code] in Hq1, Hq2, Hq3;
          rewrite ?Hq1, ?Hq2, ?Hq3; apply Ho; unfold path_eqb; cbn [path_code]; assumption].

Lemma decompress_tail_reach r c out keep chk fs0 fs2 :
  out_ok out = true ->
  fs0 PCbin = Complete (Comp r c) -> fs0 PCh = Complete (Hdr r c) ->
  same_but out fs0 fs2 ->
  Forall (dQ r c keep out fs0) (reach (decompress_tail r c out keep chk) fs2).
Proof.
  intros Hout Hc0 Hh0 Ho.
  assert (Hc : fs2 PCbin = Complete (Comp r c)).
  { rewrite (Ho PCbin); [auto|]. destruct out; try discriminate; reflexivity. }
  assert (Hh : fs2 PCh = Complete (Hdr r c)).
  { rewrite (Ho PCh); [auto|]. destruct out; try discriminate; reflexivity. }
  unfold decompress_tail.
  destruct out; try discriminate Hout; destruct chk, keep; cbn [app reach effect];
  repeat progress (fs_simpl; rewrite ?Hc, ?Hh);
  repeat first [apply Forall_nil | apply Forall_cons; [solve_dQ Hc Hh Ho|]
               | progress (fs_simpl; rewrite ?Hc, ?Hh; fs_simpl)].
Qed.

Lemma decompress_tail_run r c out keep chk fs2 :
  out_ok out = true ->
  fs2 PCbin = Complete (Comp r c) -> fs2 PCh = Complete (Hdr r c) ->
  exists fsf, run (decompress_tail r c out keep chk) fs2 = Some fsf /\
    fsf out = Complete (Orig r) /\
    fsf PCbin = (if keep then Complete (Comp r c) else Absent) /\
    fsf PCh = (if keep then Complete (Hdr r c) else Absent).
Proof.
  intros Hout Hc Hh. unfold decompress_tail.
  destruct out; try discriminate Hout; destruct chk, keep; cbn [app run effect];
    repeat progress (fs_simpl; rewrite ?Hc, ?Hh);
    eexists; (split; [reflexivity|]); cbn [path_code Z.eqb Pos.eqb]; rewrite ?Hc, ?Hh; auto.
Qed.

(* the compressed source is unlinked only when the decompressed file is complete *)
Definition d_order (r : Z) (out : path) (e : fsys * step) : Prop :=
  let '(x, s) := e in
  (s = SUnlink PCbin \/ s = SUnlink PCh) -> x out = Complete (Orig r).

Lemma decompress_tail_order r c out keep chk fs2 :
  out_ok out = true ->
  fs2 PCbin = Complete (Comp r c) -> fs2 PCh = Complete (Hdr r c) ->
  Forall (d_order r out) (pre_steps (decompress_tail r c out keep chk) fs2).
Proof.
  intros Hout Hc Hh. unfold decompress_tail.
  destruct out; try discriminate Hout; destruct chk, keep; cbn [app pre_steps effect];
  repeat progress (fs_simpl; rewrite ?Hc, ?Hh);
  repeat first [apply Forall_nil
               | apply Forall_cons;
                 [unfold d_order; intros [Hs|Hs]; try discriminate Hs;
                  cbn [path_code Z.eqb Pos.eqb]; auto|]
               | progress (fs_simpl; rewrite ?Hc, ?Hh; fs_simpl)].
Qed.

Lemma out_ok_src out : out_ok out = true -> path_eqb PCbin out = false /\ path_eqb PCh out = false.
Proof. destruct out; try discriminate; auto. Qed.

Lemma decompress_reach r c m B out keep chk ow fs0 :
  out_ok out = true ->
  fs0 PCbin = Complete (Comp r c) -> fs0 PCh = Complete (Hdr r c) ->
  Forall (dQ r c keep out fs0) (reach (decompress_steps r c m B out keep chk ow) fs0).
Proof.
  intros Hout Hc Hh. rewrite decompress_steps_split.
  apply reach_app_forall.
  - eapply Forall_impl; [|apply (decompress_head_reach r c out ow fs0 Hc Hh)].
    intros x Hx. apply dQ_of_same; auto.
  - intros fs1 H1. destruct (decompress_head_run r c out ow fs0 fs1 Hc Hh H1) as [S1 _].
    apply reach_app_forall.
    + eapply Forall_impl;
        [|apply (body_reach out _ (batches_body _ m B) fs1 fs1 (body_rel_refl _ _))].
      intros x Hx. apply dQ_of_same; auto.
      eapply same_but_trans; [exact S1|apply body_rel_same, Hx].
    + intros fs2 H2.
      destruct (body_run out _ (batches_body _ m B) fs1 fs1 (body_rel_refl _ _)) as [x' [Hx' R2]].
      rewrite H2 in Hx'. inversion Hx'; subst x'; clear Hx'.
      apply decompress_tail_reach; auto.
      eapply same_but_trans; [exact S1|apply body_rel_same, R2].
Qed.

Lemma decompress_run r c m B out keep chk ow fs0 :
  out_ok out = true ->
  fs0 PCbin = Complete (Comp r c) -> fs0 PCh = Complete (Hdr r c) ->
  (ow = true \/ present (fs0 out) = false) ->
  exists fsf, run (decompress_steps r c m B out keep chk ow) fs0 = Some fsf /\
    fsf out = Complete (Orig r) /\
    fsf PCbin = (if keep then Complete (Comp r c) else Absent) /\
    fsf PCh = (if keep then Complete (Hdr r c) else Absent).
Proof.
  intros Hout Hc Hh Hg. rewrite decompress_steps_split, run_app.
  destruct (decompress_head_total r c out ow fs0 Hc Hh Hg) as [fs1 H1]. rewrite H1.
  destruct (decompress_head_run r c out ow fs0 fs1 Hc Hh H1) as [S1 _].
  rewrite run_app.
  destruct (body_run out _ (batches_body _ m B) fs1 fs1 (body_rel_refl _ _)) as [fs2 [H2 R2]].
  rewrite H2.
  pose proof (same_but_trans _ _ _ _ S1 (body_rel_same _ _ _ R2)) as S2.
  destruct (out_ok_src out Hout) as [E1 E2].
  apply decompress_tail_run; [exact Hout| |]; [rewrite (S2 PCbin E1)|rewrite (S2 PCh E2)]; auto.
Qed.

Lemma decompress_order r c m B out keep chk ow fs0 :
  out_ok out = true ->
  fs0 PCbin = Complete (Comp r c) -> fs0 PCh = Complete (Hdr r c) ->
  Forall (d_order r out) (pre_steps (decompress_steps r c m B out keep chk ow) fs0).
Proof.
  intros Hout Hc Hh. rewrite decompress_steps_split.
  assert (Hnu : forall (P : Prop) s, (forall p, s <> SUnlink p) ->
                 ((s = SUnlink PCbin \/ s = SUnlink PCh) -> P)).
  { intros P s Hs [E|E]; exfalso; eapply Hs; eauto. }
  apply pre_steps_app_forall.
  - unfold decompress_head.
    assert (Hall : forall l x, Forall (fun s => forall p, s <> SUnlink p) l ->
              Forall (d_order r out) (pre_steps l x)).
    { induction l as [|s l IH]; intros x Hl; cbn; [constructor|].
      inversion Hl; subst. destruct (effect x s); constructor; auto.
      unfold d_order. apply Hnu. assumption. }
    apply Hall. destruct ow; repeat constructor; intros p E; discriminate E.
  - intros fs1 H1. destruct (decompress_head_run r c out ow fs0 fs1 Hc Hh H1) as [S1 _].
    apply pre_steps_app_forall.
    + eapply Forall_impl; [|apply (body_pre_steps out _ (batches_body _ m B))].
      intros [x s] Hs. cbn in Hs. unfold d_order. apply Hnu.
      destruct Hs as [[k ->]|[k ->]]; intros p E; discriminate E.
    + intros fs2 H2.
      destruct (body_run out _ (batches_body _ m B) fs1 fs1 (body_rel_refl _ _)) as [x' [Hx' R2]].
      rewrite H2 in Hx'. inversion Hx'; subst x'; clear Hx'.
      pose proof (same_but_trans _ _ _ _ S1 (body_rel_same _ _ _ R2)) as S2.
      destruct (out_ok_src out Hout) as [E1 E2].
      apply decompress_tail_order; [exact Hout| |]; [rewrite (S2 PCbin E1)|rewrite (S2 PCh E2)]; auto.
Qed.

(* ---- decompress_to_scratch ---- *)
Definition sQ (r c : Z) (sd : bool) (fs0 x : fsys) : Prop :=
  x PCbin = Complete (Comp r c) /\ x PCh = Complete (Hdr r c) /\
  (x (scratch_target sd) = fs0 (scratch_target sd) \/
   x (scratch_target sd) = Complete (Orig r)) /\
  (forall q, path_eqb q (scratch_target sd) = false -> path_eqb q (scratch_tmp sd) = false ->
             path_eqb q PSMeta = false -> x q = fs0 q).

Lemma scratch_tmp_ok sd : out_ok (scratch_tmp sd) = true.
Proof. destruct sd; reflexivity. Qed.

Lemma sQ_of_dQ r c sd fs0 fs1 x :
  fs0 PCbin = Complete (Comp r c) -> fs0 PCh = Complete (Hdr r c) ->
  same_but PSMeta fs0 fs1 ->
  dQ r c true (scratch_tmp sd) fs1 x -> sQ r c sd fs0 x.
Proof.
  intros Hc Hh S1 [[[Dc Dh]|[E _]] Do]; [|discriminate E].
  unfold sQ. split; [exact Dc|split; [exact Dh|split]].
  - left. rewrite Do; [apply S1| | |]; destruct sd; reflexivity.
  - intros q Q1 Q2 Q3.
    destruct (path_eqb q PCbin) eqn:E1.
    { unfold path_eqb in E1. apply Z.eqb_eq in E1. destruct q; try discriminate E1. congruence. }
    destruct (path_eqb q PCh) eqn:E2.
    { unfold path_eqb in E2. apply Z.eqb_eq in E2. destruct q; try discriminate E2. congruence. }
    rewrite Do; auto.
Qed.

Lemma scratch_reach r c m B sd fs0 :
  fs0 PCbin = Complete (Comp r c) -> fs0 PCh = Complete (Hdr r c) ->
  Forall (sQ r c sd fs0) (reach (scratch_steps fs0 r c m B sd) fs0).
Proof.
  intros Hc Hh. unfold scratch_steps.
  assert (Hbase : forall fs1, same_but PSMeta fs0 fs1 -> sQ r c sd fs0 fs1).
  { intros fs1 S1. unfold sQ. rewrite (S1 PCbin eq_refl), (S1 PCh eq_refl).
    split; [auto|split; [auto|split]].
    - left. apply S1. destruct sd; reflexivity.
    - intros q _ _ Q3. apply S1, Q3. }
  assert (Hmain : forall fs1, same_but PSMeta fs0 fs1 ->
     Forall (sQ r c sd fs0)
       (reach (if present (fs0 (scratch_target sd)) then []
               else decompress_steps r c m B (scratch_tmp sd) true false true ++
                    [SRename (scratch_tmp sd) (scratch_target sd)]) fs1)).
  { intros fs1 S1.
    destruct (present (fs0 (scratch_target sd))).
    { cbn. apply Forall_cons; [apply Hbase, S1|apply Forall_nil]. }
    assert (Hc1 : fs1 PCbin = Complete (Comp r c)) by (rewrite (S1 PCbin eq_refl); exact Hc).
    assert (Hh1 : fs1 PCh = Complete (Hdr r c)) by (rewrite (S1 PCh eq_refl); exact Hh).
    apply reach_app_forall.
    - eapply Forall_impl; [|apply (decompress_reach r c m B _ true false true fs1 (scratch_tmp_ok sd) Hc1 Hh1)].
      intros x Hx. eapply sQ_of_dQ; eauto.
    - intros fs2 H2.
      destruct (decompress_run r c m B _ true false true fs1 (scratch_tmp_ok sd) Hc1 Hh1 (or_introl eq_refl))
        as [fsf [Hrun [Ft [Fc Fh]]]].
      rewrite H2 in Hrun. inversion Hrun; subst fsf; clear Hrun.
      pose proof (decompress_reach r c m B _ true false true fs1 (scratch_tmp_ok sd) Hc1 Hh1) as HR.
      rewrite Forall_forall in HR.
      assert (Hin : In fs2 (reach (decompress_steps r c m B (scratch_tmp sd) true false true) fs1)).
      { pose proof (exec_final_in_reach (decompress_steps r c m B (scratch_tmp sd) true false true) fs1 None) as Hi.
        rewrite (exec_nofault _ _ _ H2) in Hi. exact Hi. }
      pose proof (sQ_of_dQ r c sd fs0 fs1 fs2 Hc Hh S1 (HR _ Hin)) as [Q1 [Q2 [Q3 Q4]]].
      cbn [reach effect]. rewrite Ft. cbn [present].
      apply Forall_cons; [unfold sQ; auto|].
      apply Forall_cons; [|apply Forall_nil].
      unfold sQ. destruct sd; cbn [scratch_target scratch_tmp] in *; fs_simpl;
        (split; [exact Q1|split; [exact Q2|split; [right; first [exact Ft|reflexivity]|]]]);
        intros q A1 A2 A3; unfold path_eqb in A1, A2; cbn [path_code] in A1, A2;
        rewrite A1, A2; apply Q4; auto. }
  destruct sd.
  - apply reach_app_forall.
    + cbn [reach effect]. apply Forall_cons; [apply Hbase, same_but_refl|].
      destruct (present (fs0 PMeta)); [|apply Forall_nil].
      apply Forall_cons; [apply Hbase, same_but_upd, same_but_refl|apply Forall_nil].
    + intros fs1 H1. cbn [run effect] in H1.
      destruct (present (fs0 PMeta)); [|discriminate]. inversion H1; subst fs1.
      apply Hmain, same_but_upd, same_but_refl.
  - cbn [app]. apply Hmain, same_but_refl.
Qed.

Lemma scratch_run r c m B sd fs0 :
  fs0 PCbin = Complete (Comp r c) -> fs0 PCh = Complete (Hdr r c) ->
  (sd = true -> present (fs0 PMeta) = true) ->
  exists fsf, run (scratch_steps fs0 r c m B sd) fs0 = Some fsf /\
    fsf (scratch_target sd) =
      (if present (fs0 (scratch_target sd)) then fs0 (scratch_target sd) else Complete (Orig r)) /\
    (present (fs0 (scratch_target sd)) = false -> fsf (scratch_tmp sd) = Absent).
Proof.
  intros Hc Hh Hm. unfold scratch_steps.
  assert (Hmain : forall fs1, same_but PSMeta fs0 fs1 ->
    exists fsf, run (if present (fs0 (scratch_target sd)) then []
               else decompress_steps r c m B (scratch_tmp sd) true false true ++
                    [SRename (scratch_tmp sd) (scratch_target sd)]) fs1 = Some fsf /\
      fsf (scratch_target sd) =
        (if present (fs0 (scratch_target sd)) then fs0 (scratch_target sd) else Complete (Orig r)) /\
      (present (fs0 (scratch_target sd)) = false -> fsf (scratch_tmp sd) = Absent)).
  { intros fs1 S1.
    destruct (present (fs0 (scratch_target sd))) eqn:Ep.
    { cbn. eexists; split; [reflexivity|split; [|discriminate]]. apply S1. destruct sd; reflexivity. }
    assert (Hc1 : fs1 PCbin = Complete (Comp r c)) by (rewrite (S1 PCbin eq_refl); exact Hc).
    assert (Hh1 : fs1 PCh = Complete (Hdr r c)) by (rewrite (S1 PCh eq_refl); exact Hh).
    destruct (decompress_run r c m B _ true false true fs1 (scratch_tmp_ok sd) Hc1 Hh1 (or_introl eq_refl))
      as [fs2 [Hrun [Ft _]]].
    rewrite run_app, Hrun. cbn [run effect]. rewrite Ft. cbn [present].
    eexists; split; [reflexivity|]. destruct sd; cbn [scratch_target scratch_tmp]; fs_simpl; auto. }
  destruct sd.
  - rewrite run_app. cbn [run effect]. rewrite (Hm eq_refl).
    apply Hmain, same_but_upd, same_but_refl.
  - cbn [app]. apply Hmain, same_but_refl.
Qed.

Lemma scratch_atomic r c m B sd fs0 fault :
  fs0 PCbin = Complete (Comp r c) -> fs0 PCh = Complete (Hdr r c) ->
  (sd = true -> present (fs0 PMeta) = true) ->
  let res := exec (scratch_steps fs0 r c m B sd) fs0 fault in
  let fs' := final_fs res in
  sQ r c sd fs0 fs' /\
  (final_oc res = Done ->
     fs' (scratch_target sd) =
       (if present (fs0 (scratch_target sd)) then fs0 (scratch_target sd) else Complete (Orig r)) /\
     (present (fs0 (scratch_target sd)) = false -> fs' (scratch_tmp sd) = Absent)) /\
  (fault = None -> final_oc res = Done) /\
  final_oc res <> Failed.
Proof.
  intros Hc Hh Hm res fs'.
  pose proof (scratch_reach r c m B sd fs0 Hc Hh) as HR. rewrite Forall_forall in HR.
  destruct (scratch_run r c m B sd fs0 Hc Hh Hm) as [fsf [Hrun Hf]].
  split; [apply HR, exec_final_in_reach|split; [|split]].
  - intros H. pose proof (exec_done_run _ _ _ H) as E. fold res fs' in E. rewrite Hrun in E.
    inversion E as [E1]. rewrite <- E1. exact Hf.
  - intros ->. unfold res. rewrite (exec_nofault _ _ _ Hrun). reflexivity.
  - apply exec_not_failed. rewrite Hrun. discriminate.
Qed.

(* public statement for decompress_file *)
Lemma decompress_atomic r c m B out keep chk ow fs0 fault :
  out_ok out = true ->
  fs0 PCbin = Complete (Comp r c) -> fs0 PCh = Complete (Hdr r c) ->
  let res := exec (decompress_steps r c m B out keep chk ow) fs0 fault in
  let fs' := final_fs res in
  dQ r c keep out fs0 fs' /\
  (final_oc res = Done ->
     fs' out = Complete (Orig r) /\
     fs' PCbin = (if keep then Complete (Comp r c) else Absent) /\
     fs' PCh = (if keep then Complete (Hdr r c) else Absent)) /\
  (fault = None -> (ow = true \/ present (fs0 out) = false) -> final_oc res = Done) /\
  Forall (d_order r out) (final_tr res).
Proof.
  intros Hout Hc Hh res fs'.
  pose proof (decompress_reach r c m B out keep chk ow fs0 Hout Hc Hh) as HR.
  rewrite Forall_forall in HR.
  split; [apply HR, exec_final_in_reach|split; [|split]].
  - intros H. pose proof (exec_done_run _ _ _ H) as E. fold res fs' in E.
    pose proof (decompress_reach r c m B out keep chk ow fs0 Hout Hc Hh) as HR2.
    (* Done means the fault-free tail was executed: recompute through run *)
    rewrite decompress_steps_split, run_app in E.
    destruct (run (decompress_head out ow) fs0) as [fs1|] eqn:H1; [|discriminate].
    destruct (decompress_head_run r c out ow fs0 fs1 Hc Hh H1) as [S1 _].
    rewrite run_app in E.
    destruct (body_run out _ (batches_body _ m B) fs1 fs1 (body_rel_refl _ _)) as [fs2 [H2 R2]].
    rewrite H2 in E.
    pose proof (same_but_trans _ _ _ _ S1 (body_rel_same _ _ _ R2)) as S2.
    destruct (out_ok_src out Hout) as [E1 E2].
    destruct (decompress_tail_run r c out keep chk fs2 Hout) as [fsf [Hrun Hf]];
      [rewrite (S2 PCbin E1); exact Hc|rewrite (S2 PCh E2); exact Hh|].
    rewrite Hrun in E. inversion E as [E3]. rewrite <- E3. exact Hf.
  - intros -> Hg. destruct (decompress_run r c m B out keep chk ow fs0 Hout Hc Hh Hg) as [fsf [Hrun _]].
    unfold res. rewrite (exec_nofault _ _ _ Hrun). reflexivity.
  - apply Forall_forall. intros e He.
    pose proof (decompress_order r c m B out keep chk ow fs0 Hout Hc Hh) as HO.
    rewrite Forall_forall in HO. apply HO. eapply exec_trace_incl; eauto.
Qed.

(* ---- histories ---- *)
Lemma tag_eqb_eq a b : tag_eqb a b = true -> a = b.
Proof.
  destruct a, b; cbn; try discriminate; intros H;
    repeat (apply andb_prop in H; destruct H as [H ?]);
    repeat match goal with E : (_ =? _) = true |- _ => apply Z.eqb_eq in E; subst end; reflexivity.
Qed.
Lemma is_complete_true s t : is_complete s t = true -> s = Complete t.
Proof. destruct s; cbn; try discriminate. intros H. apply tag_eqb_eq in H. now subst. Qed.

Definition HInv (r : Z) (x : fsys) : Prop :=
  (x PBin = Complete (Orig r) \/
   exists c, x PCbin = Complete (Comp r c) /\ x PCh = Complete (Hdr r c)) /\
  (x PCbin = Absent \/ exists c, x PCbin = Complete (Comp r c)) /\
  (x PSBin = Absent \/ x PSBin = Complete (Orig r)) /\
  present (x PMeta) = true.

Lemma HInv_step r fs o f :
  HInv r fs -> op_enabled r fs o = true ->
  HInv r (final_fs (exec (op_steps r fs o) fs f)).
Proof.
  intros [I1 [I2 [I3 I4]]] En. destruct o as [c m B keep chk|c m B keep chk ow|c m B sd]; cbn [op_enabled] in En; cbn [op_steps].
  - apply is_complete_true in En.
    destruct (compress_atomic r c m B keep chk fs f En) as [A [Bq [C _]]].
    cbn zeta in A, Bq, C. unfold HInv. split; [|split; [|split]].
    + destruct Bq as [Bq|[_ [_ [Bc Bh]]]]; [left; exact Bq|right; eauto].
    + destruct A as [A|A]; [rewrite A; exact I2|right; eauto].
    + rewrite (C PSBin); [exact I3|unfold others; cbn; auto].
    + rewrite (C PMeta); [exact I4|unfold others; cbn; auto].
  - apply andb_prop in En. destruct En as [Ec Eh].
    apply is_complete_true in Ec. apply is_complete_true in Eh.
    destruct (decompress_atomic r c m B PBin keep chk ow fs f eq_refl Ec Eh) as [[D1 D2] _].
    cbn zeta in D1, D2. unfold HInv. split; [|split; [|split]].
    + destruct D1 as [[Dc Dh]|[_ [Db _]]]; [right; eauto|left; exact Db].
    + destruct D1 as [[Dc Dh]|[_ [_ [Dc _]]]]; [right; eauto|left; exact Dc].
    + rewrite (D2 PSBin); auto.
    + rewrite (D2 PMeta); auto.
  - apply andb_prop in En. destruct En as [Ec Eh].
    apply is_complete_true in Ec. apply is_complete_true in Eh.
    destruct (scratch_atomic r c m B sd fs f Ec Eh (fun _ => I4)) as [[S1 [S2 [S3 S4]]] _].
    cbn zeta in S1, S2, S3, S4. unfold HInv. split; [|split; [|split]].
    + right; eauto.
    + right; eauto.
    + destruct sd; cbn [scratch_target scratch_tmp] in *.
      * destruct S3 as [S3|S3]; [rewrite S3; exact I3|right; exact S3].
      * rewrite (S4 PSBin); auto.
    + rewrite (S4 PMeta); [exact I4| | |]; destruct sd; reflexivity.
Qed.

Lemma history_safe r h : forall fs, HInv r fs -> HInv r (run_history r fs h).
Proof.
  induction h as [|[o f] h IH]; intros fs HI; cbn; [exact HI|].
  apply IH. destruct (op_enabled r fs o) eqn:En; [apply HInv_step; assumption|exact HI].
Qed.

(* ---------------------------------------------------------------------- *)
(* Part C: the codec                                                       *)
(* ---------------------------------------------------------------------- *)
Lemma wrap16_id z : is_i16 z -> wrap16 z = z.
Proof. unfold is_i16, wrap16. intros H. rewrite Z.mod_small; lia. Qed.

Lemma wrap16_range z : is_i16 (wrap16 z).
Proof. unfold is_i16, wrap16. pose proof (Z.mod_pos_bound (z + 32768) 65536 ltac:(lia)). lia. Qed.

Lemma wrap16_undo prev x : is_i16 x -> wrap16 (prev + wrap16 (x - prev)) = x.
Proof.
  intros Hx. unfold wrap16 at 1 2.
  replace (prev + ((x - prev + 32768) mod 65536 - 32768) + 32768)
    with (prev + (x - prev + 32768) mod 65536) by lia.
  rewrite Zplus_mod_idemp_r.
  replace (prev + (x - prev + 32768)) with (x + 32768) by lia.
  unfold is_i16 in Hx. rewrite Z.mod_small; lia.
Qed.

Lemma cumsum_diff_from l : forall prev, Forall is_i16 l ->
  cumsum_from prev (diff_from prev l) = l.
Proof.
  induction l as [|x l IH]; intros prev Hl; cbn; [reflexivity|].
  inversion Hl; subst. rewrite wrap16_undo by assumption. f_equal. apply IH. assumption.
Qed.

Lemma cumsum_diff1 l : Forall is_i16 l -> cumsum1 (diff1 l) = l.
Proof.
  destruct l as [|x l]; cbn; [reflexivity|]. intros H. inversion H; subst.
  f_equal. apply cumsum_diff_from. assumption.
Qed.

Lemma diff_from_length l : forall prev, length (diff_from prev l) = length l.
Proof. induction l; intros; cbn; auto. Qed.
Lemma diff1_length l : length (diff1 l) = length l.
Proof. destruct l; cbn; auto using diff_from_length. Qed.

Lemma diff_from_i16 l : forall prev, Forall is_i16 (diff_from prev l).
Proof. induction l; intros; cbn; constructor; auto using wrap16_range. Qed.
Lemma diff1_i16 l : Forall is_i16 l -> Forall is_i16 (diff1 l).
Proof. destruct l; cbn; intros H; [constructor|]. inversion H; subst. constructor; auto using diff_from_i16. Qed.

Lemma bytes_roundtrip l : Forall is_i16 l -> from_bytes (to_bytes l) = l.
Proof.
  induction 1 as [|x l Hx Hl IH]; cbn [to_bytes from_bytes]; [reflexivity|].
  rewrite IH. f_equal.
  pose proof (Z.div_mod (x mod 65536) 256 ltac:(lia)) as E.
  replace ((x mod 65536) mod 256 + 256 * (x mod 65536 / 256)) with (x mod 65536) by lia.
  unfold wrap16. rewrite Zplus_mod_idemp_l.
  unfold is_i16 in Hx. rewrite Z.mod_small; lia.
Qed.

(* every byte produced is a byte *)
Lemma to_bytes_range l : Forall (fun b => 0 <= b < 256) (to_bytes l).
Proof.
  induction l as [|x l IH]; cbn [to_bytes]; [constructor|].
  pose proof (Z.mod_pos_bound x 65536 ltac:(lia)).
  constructor; [apply Z.mod_pos_bound; lia|constructor; [|exact IH]].
  split; [apply Z.div_pos; lia|apply Z.div_lt_upper_bound; lia].
Qed.

Lemma pieces_concat (cols : list (list Z)) n :
  Forall (fun col => length col = n) cols ->
  pieces (length cols) n (concat cols) = cols.
Proof.
  induction 1 as [|col cols Hc Hcs IH]; cbn; [reflexivity|].
  subst n. rewrite firstn_app, skipn_app, Nat.sub_diag, firstn_all, skipn_all.
  cbn [firstn skipn app]. rewrite app_nil_r. now rewrite IH.
Qed.

Lemma nth_seq_id {A} (l : list A) d : map (fun j => nth j l d) (seq 0 (length l)) = l.
Proof.
  induction l as [|a l IH]; cbn; [reflexivity|].
  f_equal. rewrite <- seq_shift, map_map. exact IH.
Qed.

Lemma column_nth rows j i : nth i (column rows j) 0 = nth j (nth i rows []) 0.
Proof.
  unfold column.
  rewrite <- (map_nth (fun row : list Z => nth j row 0) rows [] i).
  f_equal. destruct j; reflexivity.
Qed.

Lemma transpose_involutive nc rows :
  Forall (fun row => length row = nc) rows ->
  transpose (length rows) (transpose nc rows) = rows.
Proof.
  intros Hr.
  transitivity (map (fun i => nth i rows []) (seq 0 (length rows))); [|apply nth_seq_id].
  unfold transpose at 1.
  apply map_ext_in. intros i Hi. apply in_seq in Hi.
  unfold column at 1. unfold transpose. rewrite map_map.
  assert (Hlen : length (nth i rows []) = nc).
  { rewrite Forall_forall in Hr. apply Hr, nth_In. lia. }
  transitivity (map (fun j => nth j (nth i rows []) 0) (seq 0 (length (nth i rows []))));
    [|apply nth_seq_id].
  rewrite Hlen. apply map_ext. intros j. apply column_nth.
Qed.

Lemma column_length rows j : length (column rows j) = length rows.
Proof. unfold column. apply map_length. Qed.

Lemma column_i16 nc rows j : rect nc rows -> Forall is_i16 (column rows j).
Proof.
  unfold rect, column. intros H. apply Forall_forall. intros x Hx.
  apply in_map_iff in Hx. destruct Hx as [row [<- Hrow]].
  rewrite Forall_forall in H. destruct (H row Hrow) as [_ Hi].
  destruct (Nat.lt_ge_cases j (length row)) as [Hj|Hj].
  - rewrite Forall_forall in Hi. apply Hi, nth_In, Hj.
  - rewrite nth_overflow by lia. unfold is_i16. lia.
Qed.

Lemma rect_lengths nc rows : rect nc rows -> Forall (fun row => length row = nc) rows.
Proof. unfold rect. apply Forall_impl. intros a [H _]. exact H. Qed.

(* one chunk *)
Lemma payload_roundtrip nc rows :
  rect nc rows -> decode_payload (length rows) nc (payload nc rows) = rows.
Proof.
  intros Hr. unfold decode_payload, payload.
  set (cols := transpose nc rows).
  assert (Hci : Forall (Forall is_i16) cols).
  { unfold cols, transpose. apply Forall_forall. intros col Hc.
    apply in_map_iff in Hc. destruct Hc as [j [<- _]]. eapply column_i16; eauto. }
  assert (Hcl : Forall (fun col => length col = length rows) cols).
  { unfold cols, transpose. apply Forall_forall. intros col Hc.
    apply in_map_iff in Hc. destruct Hc as [j [<- _]]. apply column_length. }
  rewrite bytes_roundtrip.
  2:{ apply Forall_concat. apply Forall_forall. intros d Hd.
      apply in_map_iff in Hd. destruct Hd as [col [<- Hc]].
      apply diff1_i16. rewrite Forall_forall in Hci. auto. }
  assert (Hnc : length (map diff1 cols) = nc).
  { unfold cols, transpose. now rewrite !map_length, seq_length. }
  rewrite <- Hnc. rewrite pieces_concat.
  2:{ apply Forall_forall. intros d Hd. apply in_map_iff in Hd. destruct Hd as [col [<- Hc]].
      rewrite diff1_length. rewrite Forall_forall in Hcl. auto. }
  rewrite map_map.
  replace (map (fun x => cumsum1 (diff1 x)) cols) with cols.
  2:{ symmetry. rewrite <- (map_id cols) at 2. apply map_ext_in. intros col Hc.
      apply cumsum_diff1. rewrite Forall_forall in Hci. auto. }
  apply transpose_involutive, rect_lengths, Hr.
Qed.

Lemma chunk_roundtrip (zip unzip : list Z -> list Z) nc rows :
  (forall b, unzip (zip b) = b) -> rect nc rows ->
  decode_chunk unzip (length rows) nc (encode_chunk zip nc rows) = rows.
Proof.
  intros Hz Hr. unfold decode_chunk, encode_chunk. rewrite Hz. apply payload_roundtrip, Hr.
Qed.

(* whole file *)
Lemma split_rows_concat fuel : forall size rows, (0 < size)%nat -> (length rows <= fuel)%nat ->
  concat (split_rows fuel size rows) = rows.
Proof.
  induction fuel as [|f IH]; intros size rows Hs Hl; cbn.
  - destruct rows; [reflexivity|cbn in Hl; lia].
  - destruct rows as [|a rows]; [reflexivity|].
    cbn [concat]. rewrite IH; [apply firstn_skipn|exact Hs|].
    rewrite skipn_length. cbn [length] in *. lia.
Qed.

Lemma in_firstn {A} n : forall (l : list A) x, In x (firstn n l) -> In x l.
Proof. induction n; intros [|a l] x; cbn; try tauto. intros [H|H]; auto. Qed.
Lemma in_skipn {A} n : forall (l : list A) x, In x (skipn n l) -> In x l.
Proof. induction n; intros [|a l] x; cbn; try tauto. intros H; auto. Qed.

Lemma split_rows_rect fuel nc : forall size rows, rect nc rows ->
  Forall (rect nc) (split_rows fuel size rows).
Proof.
  induction fuel as [|f IH]; intros size rows Hr; cbn; [constructor|].
  destruct rows as [|a rows]; [constructor|].
  constructor.
  - unfold rect in *. apply Forall_forall. intros x Hx. rewrite Forall_forall in Hr.
    apply Hr. eapply in_firstn, Hx.
  - apply IH. unfold rect in *. apply Forall_forall. intros x Hx. rewrite Forall_forall in Hr.
    apply Hr. eapply in_skipn, Hx.
Qed.

Lemma file_roundtrip (zip unzip : list Z -> list Z) nc size rows :
  (forall b, unzip (zip b) = b) -> 1 <= size -> rect nc rows ->
  decode_file unzip nc (encode_file zip nc size rows) = rows.
Proof.
  intros Hz Hs Hr. unfold decode_file, encode_file, file_chunks. rewrite map_map. cbn [fst snd].
  pose proof (split_rows_rect (length rows) nc (Z.to_nat size) rows Hr) as Hc.
  transitivity (concat (split_rows (length rows) (Z.to_nat size) rows));
    [|apply split_rows_concat; lia].
  f_equal. rewrite <- (map_id (split_rows _ _ _)) at 2.
  apply map_ext_in. intros ch Hch. rewrite Forall_forall in Hc.
  apply chunk_roundtrip; auto.
Qed.

(* chunk bounds *)
Lemma zseq_length a n : length (zseq a n) = n.
Proof. unfold zseq. now rewrite map_length, seq_length. Qed.
Lemma zseq_nth a n i : (i < n)%nat -> nth i (zseq a n) 0 = a + Z.of_nat i.
Proof.
  intros Hi. unfold zseq.
  rewrite (nth_indep _ 0 (a + Z.of_nat 0)) by (now rewrite map_length, seq_length).
  change (a + Z.of_nat 0) with ((fun i => a + Z.of_nat i) 0%nat).
  rewrite map_nth, seq_nth by exact Hi. reflexivity.
Qed.

Lemma chunk_bounds_spec n size : 1 <= n -> 1 <= size ->
  let b := chunk_bounds n size in
  let m := n_chunks n size in
  1 <= m /\ Z.of_nat (length b) = m + 1 /\
  (forall k, 0 <= k < m -> nth (Z.to_nat k) b 0 = k * size) /\
  nth (Z.to_nat m) b 0 = n /\
  (m - 1) * size < n <= m * size.
Proof.
  intros Hn Hs b m. unfold b, m, chunk_bounds, n_chunks.
  pose proof (cdiv_spec n size ltac:(lia)) as Hc.
  pose proof (cdiv_pos n size ltac:(lia) ltac:(lia)) as Hp.
  set (q := cdiv n size) in *.
  split; [lia|split; [|split; [|split]]].
  - rewrite app_length, map_length, zseq_length. cbn. lia.
  - intros k Hk. rewrite app_nth1 by (rewrite map_length, zseq_length; lia).
    rewrite (nth_indep _ 0 (0 * size)) by (rewrite map_length, zseq_length; lia).
    change (0 * size) with ((fun k => k * size) 0).
    rewrite map_nth, zseq_nth by lia. lia.
  - rewrite app_nth2 by (rewrite map_length, zseq_length; lia).
    rewrite map_length, zseq_length. replace (Z.to_nat q - Z.to_nat q)%nat with 0%nat by lia.
    reflexivity.
  - exact Hc.
Qed.

Lemma skipn_add {A} b : forall a (l : list A), skipn a (skipn b l) = skipn (b + a) l.
Proof. induction b; intros a l; cbn; [reflexivity|]. destruct l; [now rewrite skipn_nil|apply IHb]. Qed.

(* chunk k of the file is rows[k*size : k*size + size] *)
Lemma split_rows_nth size k : forall fuel rows, (0 < size)%nat -> (length rows <= fuel)%nat ->
  (k * size < length rows)%nat ->
  nth k (split_rows fuel size rows) [] = firstn size (skipn (k * size) rows).
Proof.
  induction k as [|k IH]; intros fuel rows Hs Hf Hk.
  - destruct fuel as [|f]; [lia|]. destruct rows as [|a rows]; [cbn in Hk; lia|]. reflexivity.
  - destruct fuel as [|f]; [lia|]. destruct rows as [|a rows]; [cbn in Hk; lia|].
    cbn [split_rows nth]. rewrite IH; [|exact Hs| |]; rewrite ?skipn_length.
    + rewrite skipn_add. f_equal.
    + cbn [length] in *. lia.
    + cbn [length Nat.mul] in *. lia.
Qed.

(* ---------------------------------------------------------------------- *)
(* Part A continued: the resolved file holds the recording                 *)
(* ---------------------------------------------------------------------- *)
Definition holds (r : Z) (fs : fsys) (f : dfile) : Prop :=
  match f with
  | DBin => fs PBin = Complete (Orig r)
  | DCbin => exists c, fs PCbin = Complete (Comp r c) /\ fs PCh = Complete (Hdr r c)
  end.
Definition consistent (r : Z) (fs : fsys) : Prop :=
  (present (fs PBin) = true -> holds r fs DBin) /\
  (present (fs PCbin) = true -> holds r fs DCbin).
Definition entry_path (e : entry) : path :=
  match e with EBin => PBin | ECbin => PCbin | EMeta => PMeta end.

Lemma resolve_same_recording r fs e :
  consistent r fs ->
  present (fs PBin) || present (fs PCbin) = true ->
  present (fs (entry_path e)) = true ->
  present (fs PMeta) = true ->
  exists f, resolve (present (fs PBin)) (present (fs PCbin)) e = Some f /\ holds r fs f /\
    open_outcome (present (fs PBin)) (present (fs PCbin)) (present (fs PMeta)) (present (fs PCh)) e
      = match f with DBin => OpenedBin | DCbin => OpenedCbin end.
Proof.
  intros [Cb Cc] Hd He Hm. unfold open_outcome. rewrite Hm.
  destruct e; cbn [entry_path resolve] in *.
  - exists DBin. rewrite He. cbn. split; [reflexivity|split; [apply Cb, He|reflexivity]].
  - exists DCbin. rewrite He. cbn. destruct (Cc He) as [c [E1 E2]].
    rewrite E2. cbn. split; [reflexivity|split; [eauto|reflexivity]].
  - destruct (present (fs PBin)) eqn:Eb.
    + exists DBin. cbn. split; [reflexivity|split; [apply Cb; reflexivity|reflexivity]].
    + cbn in Hd. destruct (Cc Hd) as [c [E1 E2]]. rewrite Hd. exists DCbin. cbn.
      rewrite E2. cbn.
      split; [reflexivity|split; [eauto|reflexivity]].
Qed.

(* ---------------------------------------------------------------------- *)
(* witnesses for what does NOT hold                                        *)
(* ---------------------------------------------------------------------- *)
Definition fs_bin_only : fsys :=
  fun p => match p with PBin => Complete (Orig 1) | PMeta => Complete (MetaOf 1) | _ => Absent end.
Definition fs_bin_stale : fsys :=
  fun p => match p with PBin => Complete (Orig 1) | PMeta => Complete (MetaOf 1)
                   | PCbin => Complete (Comp 1 2) | PCh => Complete (Hdr 1 2) | _ => Absent end.
Definition fs_cbin_only : fsys :=
  fun p => match p with PCbin => Complete (Comp 1 1) | PCh => Complete (Hdr 1 1)
                   | PMeta => Complete (MetaOf 1) | _ => Absent end.

(* since 746882f a fault while the header is written leaves only temporaries behind *)
Lemma header_fault_witness :
  let res := exec (compress_steps 1 1 2 1 true true) fs_bin_only (Some 6%nat) in
  final_oc res = Raised /\ final_fs res PCh = Absent /\ final_fs res PCbin = Absent /\
  final_fs res PChTmp = Partial 0 /\ final_fs res PCbinTmp = Complete (Comp 1 1).
Proof. vm_compute. auto 6. Qed.

(* the one window left: a fault exactly between the two renames, with an older
   pair of another chunking present, leaves the new complete header next to the
   old complete stream; the new complete stream is in x.cbin_tmp, x.bin intact *)
Lemma between_renames_witness :
  let res := exec (compress_steps 1 1 2 1 true true) fs_bin_stale (Some 9%nat) in
  final_oc res = Raised /\ final_fs res PCbin = Complete (Comp 1 2) /\
  final_fs res PCh = Complete (Hdr 1 1) /\ final_fs res PCbinTmp = Complete (Comp 1 1) /\
  final_fs res PBin = Complete (Orig 1).
Proof. vm_compute. auto 6. Qed.

(* decompress_file writes under the final name: a fault leaves a truncated x.bin *)
Lemma decompress_partial_witness :
  let res := exec (decompress_steps 1 1 2 1 PBin true true true) fs_cbin_only (Some 5%nat) in
  final_oc res = Raised /\ final_fs res PBin = Partial 1 /\
  final_fs res PCbin = Complete (Comp 1 1) /\ final_fs res PCh = Complete (Hdr 1 1).
Proof. vm_compute. auto. Qed.

(* no partial file ever carries the final name x.cbin or x.ch *)
Lemma final_names_never_partial r c m B keep chk fs0 fault :
  fs0 PBin = Complete (Orig r) ->
  (forall j, fs0 PCbin <> Partial j) -> (forall j, fs0 PCh <> Partial j) ->
  let fs' := final_fs (exec (compress_steps r c m B keep chk) fs0 fault) in
  forall j, fs' PCbin <> Partial j /\ fs' PCh <> Partial j.
Proof.
  intros Hsrc N1 N2 fs' j.
  destruct (compress_atomic r c m B keep chk fs0 fault Hsrc) as [A [_ [_ [P _]]]].
  cbn zeta in A, P. fold fs' in A, P. split.
  - destruct A as [A|A]; rewrite A; [apply N1|discriminate].
  - destruct P as [[P _]|[[P _]|[P _]]]; rewrite P; [apply N2|discriminate|discriminate].
Qed.

(* ---------------------------------------------------------------------- *)
(* Part D: the Reader object across in-place operations                    *)
(* ---------------------------------------------------------------------- *)
Definition wgood (w : rworld) : Prop := 1 <= w_n w /\ 1 <= w_nc w /\ w_nch w = w_n w.

(* open() in general (tree at aa7f63d): whatever count the object currently
   holds (meta file right or wrong) and whatever its cached nbytes, open()
   succeeds, exposes the true count, installs the reader of the current file,
   leaves nbytes alone, and warns iff the count was wrong and ignore_warnings is off *)
Lemma r_open_gen w o : wgood w ->
  exists o', r_open w o = Some o' /\ o_ns o' = w_n w /\ o_file o' = o_file o /\
    o_nbytes o' = o_nbytes o /\
    o_raw o' = (match o_file o with DBin => RawMemmap | DCbin => RawMtscomp end) /\
    o_warn o' = negb (o_ns o =? w_n w) && negb (w_iw w).
Proof.
  intros [Hn [Hc Hh]]. unfold r_open. destruct (o_file o) eqn:Ef.
  - assert (Hdiv : fsize w DBin / (2 * w_nc w) = w_n w).
    { unfold fsize. replace (2 * w_n w * w_nc w) with (w_n w * (2 * w_nc w)) by lia.
      apply Z.div_mul. lia. }
    assert (Hm : negb (w_nc w * o_ns o * 2 =? fsize w DBin) = negb (o_ns o =? w_n w)).
    { f_equal. unfold fsize. destruct (o_ns o =? w_n w) eqn:E.
      - apply Z.eqb_eq in E. rewrite E. apply Z.eqb_eq. ring.
      - apply Z.eqb_neq in E. apply Z.eqb_neq. intros H. apply E. nia. }
    rewrite Hm.
    assert (Hns : (if negb (o_ns o =? w_n w) then fsize w DBin / (2 * w_nc w) else o_ns o) = w_n w).
    { destruct (o_ns o =? w_n w) eqn:E; cbn; [apply Z.eqb_eq in E; exact E|exact Hdiv]. }
    rewrite Hns.
    assert (Hchk : (0 <? w_n w) && (w_n w * w_nc w * 2 <=? fsize w DBin) = true).
    { apply andb_true_intro. split; [apply Z.ltb_lt; lia|apply Z.leb_le; unfold fsize; lia]. }
    rewrite Hchk. eexists. split; [reflexivity|]. cbn [o_ns o_file o_nbytes o_raw o_warn]. auto 6.
  - rewrite Hh. rewrite (Z.eqb_sym (w_n w) (o_ns o)).
    destruct (o_ns o =? w_n w) eqn:E; eexists; (split; [reflexivity|]); cbn [o_ns o_file o_nbytes o_raw o_warn];
      [apply Z.eqb_eq in E; auto 6|auto 6].
Qed.

Lemma r_open_ok w o : wgood w -> o_ns o = w_n w ->
  exists o', r_open w o = Some o' /\ o_ns o' = w_n w /\ o_file o' = o_file o /\
    o_nbytes o' = o_nbytes o /\
    o_raw o' = (match o_file o with DBin => RawMemmap | DCbin => RawMtscomp end) /\
    o_warn o' = false.
Proof.
  intros Hw Hs. destruct (r_open_gen w o Hw) as [o' [E [H1 [H2 [H3 [H4 H5]]]]]].
  exists o'. repeat (split; [assumption|]). rewrite H5, Hs, Z.eqb_refl. reflexivity.
Qed.

(* the invariant of the current code: right sample count; whenever the object
   is on x.bin its cached nbytes is the size of x.bin; never a closed reader in
   _raw; no size-mismatch warning *)
Definition RInv (w : rworld) (s : rstate) : Prop :=
  let o := s_obj s in
  o_ns o = w_n w /\
  (o_file o = DBin -> o_nbytes o = fsize w DBin) /\
  o_raw o <> RawClosed /\
  o_warn o = false.

Lemma r_open_inv w o : wgood w ->
  o_ns o = w_n w -> (o_file o = DBin -> o_nbytes o = fsize w DBin) -> o_warn o = false ->
  exists o', r_open w o = Some o' /\ o_ns o' = w_n w /\ o_file o' = o_file o /\
    o_nbytes o' = o_nbytes o /\
    o_raw o' = (match o_file o with DBin => RawMemmap | DCbin => RawMtscomp end) /\
    o_warn o' = false.
Proof. intros Hw Hs _ _. exact (r_open_ok w o Hw Hs). Qed.

Lemma r_step_inv w s op : wgood w -> RInv w s -> RInv w (fst (r_step w s op)).
Proof.
  intros Hw [Hs [Hb [Hr Hwn]]]. unfold RInv.
  destruct op as [| |keep|keep|sd]; cbn [r_step].
  - cbn [fst]. split; [exact Hs|split; [exact Hb|split; [exact Hr|exact Hwn]]].
  - destruct (r_open_inv w (s_obj s) Hw Hs Hb Hwn) as [o' [E [H1 [H2 [H3 [H4 H5]]]]]].
    rewrite E. cbn [fst s_obj]. split; [exact H1|split; [|split; [|exact H5]]].
    + intros Hf. rewrite H3. apply Hb. rewrite <- H2. exact Hf.
    + rewrite H4. destruct (o_file (s_obj s)); discriminate.
  - destruct (o_file (s_obj s)) eqn:Ef; [destruct keep|]; cbn [fst s_obj o_ns o_file o_nbytes o_raw o_warn];
      try (split; [exact Hs|split; [intros E; rewrite ?Ef in E; first [discriminate E|apply Hb; reflexivity]|split; [exact Hr|exact Hwn]]]).
  - destruct (o_file (s_obj s)) eqn:Ef; destruct keep; cbn [fst s_obj];
      try (split; [exact Hs|split; [intros E; rewrite ?Ef in E; first [discriminate E|apply Hb; reflexivity]|split; [exact Hr|exact Hwn]]]).
    unfold r_decompress_inplace.
    set (o1 := mkR DBin (fsize w DBin) (o_ns (s_obj s)) RawNone (o_warn (s_obj s))).
    assert (I1 : o_ns o1 = w_n w /\ (o_file o1 = DBin -> o_nbytes o1 = fsize w DBin) /\
                 o_raw o1 <> RawClosed /\ o_warn o1 = false).
    { unfold o1; cbn. split; [exact Hs|split; [reflexivity|split; [discriminate|exact Hwn]]]. }
    destruct (r_open_inv w o1 Hw (proj1 I1) (proj1 (proj2 I1)) (proj2 (proj2 (proj2 I1))))
      as [o2 [E [H1 [H2 [H3 [H4 H5]]]]]].
    destruct (o_raw (s_obj s)); cbn [fst]; try exact I1; rewrite E; cbn [fst];
      (split; [exact H1|split; [intros _; rewrite H3; reflexivity|split; [rewrite H4; discriminate|exact H5]]]).
  - destruct (o_file (s_obj s)) eqn:Ef, sd; cbn [fst s_obj]; (split; [exact Hs|split; [intros E; rewrite ?Ef in E; first [discriminate E|apply Hb; reflexivity]|split; [exact Hr|exact Hwn]]]).
Qed.

Lemma r_start_inv w f : RInv w (r_start w f (w_n w)).
Proof.
  unfold RInv, r_start, r_init. cbn.
  split; [reflexivity|split; [intros ->; reflexivity|split; [discriminate|reflexivity]]].
Qed.

Lemma r_run_inv w ops : forall s, wgood w -> RInv w s ->
  Forall (fun x => RInv w (fst x)) (r_run w s ops).
Proof.
  induction ops as [|op ops IH]; intros s Hw Hi; cbn; constructor.
  - apply r_step_inv; assumption.
  - apply IH; [assumption|apply r_step_inv; assumption].
Qed.

(* under the invariant no call raises except the is_mtscomp guards, and after
   open() / in-place decompression of an open object the raw reader is the one
   of the current file *)
Lemma r_step_noraise w s op : wgood w -> RInv w s ->
  snd (r_step w s op) = true ->
  (exists k, op = RCompress k /\ o_file (s_obj s) = DCbin) \/
  (exists k, op = RDecompress k /\ o_file (s_obj s) = DBin) \/
  (op = RScratch true /\ o_file (s_obj s) = DBin /\ s_sb s = false).
Proof.
  intros Hw [Hs [Hb [Hr Hwn]]]. destruct op as [| |keep|keep|sd]; cbn [r_step].
  - discriminate.
  - destruct (r_open_inv w (s_obj s) Hw Hs Hb Hwn) as [o' [E _]]. rewrite E. discriminate.
  - destruct (o_file (s_obj s)); [discriminate|]. intros _. left. eauto.
  - destruct (o_file (s_obj s)) eqn:Ef; [intros _; right; left; eauto|].
    destruct keep; [discriminate|]. unfold r_decompress_inplace.
    set (o1 := mkR DBin (fsize w DBin) (o_ns (s_obj s)) RawNone (o_warn (s_obj s))).
    destruct (r_open_inv w o1 Hw Hs (fun _ => eq_refl) Hwn) as [o2 [E _]].
    destruct (o_raw (s_obj s)); cbn [snd]; try discriminate; rewrite E; discriminate.
  - destruct (o_file (s_obj s)) eqn:Ef, sd; cbn [snd]; try discriminate.
    intros H. right; right. apply negb_true_iff in H. auto.
Qed.

Lemma r_reopened w s : wgood w -> RInv w s ->
  o_raw (s_obj (fst (r_step w s ROpen))) =
    (match o_file (s_obj s) with DBin => RawMemmap | DCbin => RawMtscomp end) /\
  (o_file (s_obj s) = DCbin -> o_raw (s_obj s) <> RawNone ->
     let o' := s_obj (fst (r_step w s (RDecompress false))) in
     o_file o' = DBin /\ o_raw o' = RawMemmap /\ o_nbytes o' = fsize w DBin).
Proof.
  intros Hw [Hs [Hb [Hr Hwn]]]. split.
  - cbn [r_step]. destruct (r_open_inv w (s_obj s) Hw Hs Hb Hwn) as [o' [E [_ [_ [_ [H _]]]]]].
    rewrite E. exact H.
  - intros Hf Hopen. cbn [r_step]. rewrite Hf. unfold r_decompress_inplace.
    set (o1 := mkR DBin (fsize w DBin) (o_ns (s_obj s)) RawNone (o_warn (s_obj s))).
    destruct (r_open_inv w o1 Hw Hs (fun _ => eq_refl) Hwn) as [o2 [E [_ [H2 [H3 [H4 _]]]]]].
    destruct (o_raw (s_obj s)); try contradiction; cbn [fst s_obj]; rewrite E; cbn [fst];
      (split; [exact H2|split; [exact H4|exact H3]]).
Qed.

(* witnesses: a 11 x 3 recording (66 bytes) whose x.cbin has 93 bytes *)
Definition w_ex : rworld := mkW 11 3 93 11 false.

(* what is still not refreshed: compress_file(keep_original=False) keeps the
   size of x.bin in nbytes while the object points at x.cbin.  Nothing reads
   nbytes in that state (the cbin branch of open() does not use it) and the
   next in-place decompression refreshes it. *)
Lemma stale_nbytes_on_cbin_witness :
  let tr := r_run w_ex (r_start w_ex DBin 11) [ROpen; RCompress false; ROpen] in
  let o := s_obj (fst (last tr (r_start w_ex DBin 11, false))) in
  o_file o = DCbin /\ o_nbytes o = 66 /\ fsize w_ex DCbin = 93 /\ o_warn o = false /\ o_ns o = 11 /\
  o_raw o = RawMtscomp.
Proof. vm_compute. auto 7. Qed.

(* open() with ANY sample count in the meta file (longer, shorter, right) and
   either ignore_warnings: a freshly constructed object (nbytes = size of its
   file) exposes the true count afterwards, on x.bin as on x.cbin; the warning
   is logged iff the count was wrong and ignore_warnings is off *)
Lemma r_open_any_meta w f ns0 : wgood w ->
  exists o', r_open w (r_init w f ns0) = Some o' /\ o_ns o' = w_n w /\ o_file o' = f /\
    o_raw o' = (match f with DBin => RawMemmap | DCbin => RawMtscomp end) /\
    o_warn o' = negb (ns0 =? w_n w) && negb (w_iw w).
Proof.
  intros Hw. destruct (r_open_gen w (r_init w f ns0) Hw) as [o' [E [H1 [H2 [_ [H4 H5]]]]]].
  exists o'. cbn in *. auto 6.
Qed.

(* open() does not read the cached nbytes *)
Lemma r_open_nbytes_irrelevant w o z :
  r_open w (mkR (o_file o) z (o_ns o) (o_raw o) (o_warn o)) =
  option_map (fun x => mkR (o_file x) z (o_ns x) (o_raw x) (o_warn x)) (r_open w o).
Proof.
  unfold r_open. cbn [o_file o_ns o_nbytes]. destruct (o_file o).
  - destruct ((0 <? _) && _); reflexivity.
  - destruct (w_nch w =? o_ns o); reflexivity.
Qed.


(* ---------------------------------------------------------------------- *)
(* the channel-count guess of a meta-less reader                           *)
(* ---------------------------------------------------------------------- *)
Lemma flat_guess_384 n : 1 <= n -> flat_guess (2 * n * 384) = Some (384, n, 0).
Proof.
  intros Hn. unfold flat_guess. replace (2 * n * 384) with (n * 768) by lia.
  rewrite Z.mod_mul by lia. cbn [Z.eqb]. rewrite Z.div_mul by lia. reflexivity.
Qed.

(* a 385-channel file is recognised unless its sample count is a multiple of 384:
   then 768 divides the size as well and the first test wins — it is taken for
   384 channels x (385 n / 384) samples *)
Lemma flat_guess_385 n : 1 <= n ->
  flat_guess (2 * n * 385) =
    if n mod 384 =? 0 then Some (384, 385 * (n / 384), 0) else Some (385, n, 1).
Proof.
  intros Hn. unfold flat_guess.
  replace (2 * n * 385) with (n * 770) by lia.
  destruct (n mod 384 =? 0) eqn:E.
  - apply Z.eqb_eq in E. apply Z.mod_divide in E; [|lia]. destruct E as [k Hk]. subst n.
    replace (k * 384 * 770) with (385 * k * 768) by lia.
    rewrite Z.mod_mul by lia. cbn [Z.eqb]. rewrite !Z.div_mul by lia. reflexivity.
  - apply Z.eqb_neq in E.
    assert (Hm : (n * 770) mod 768 <> 0).
    { intros H. apply Z.mod_divide in H; [|lia]. destruct H as [k Hk].
      apply E. apply Z.mod_divide; [lia|]. exists (k - n). lia. }   (* 385 n = 384 k, so n = 384 (k - n) *)
    apply Z.eqb_neq in Hm. rewrite Hm. rewrite Z.mod_mul by lia. cbn [Z.eqb].
    rewrite Z.div_mul by lia. reflexivity.
Qed.

(* meta-less readers: for every announced count within the data, .bin and .cbin expose it *)
Lemma nometa_transparent w ns : 1 <= w_nc w -> 1 <= ns <= w_n w ->
  r_open_nometa w DBin ns = Some ns /\ r_open_nometa w DCbin ns = Some ns.
Proof.
  intros Hc Hn. unfold r_open_nometa, fsize. split; [|reflexivity].
  replace ((0 <? ns) && (ns * w_nc w * 2 <=? 2 * w_n w * w_nc w)) with true; [reflexivity|].
  symmetry. apply andb_true_intro. split; [apply Z.ltb_lt; lia|apply Z.leb_le; nia].
Qed.

(* ---------------------------------------------------------------------- *)
(* Part F: file names                                                      *)
(* ---------------------------------------------------------------------- *)
Definition nodot (l : list Z) : Prop := ~ In dot l.

Lemma split_last_dot_nodot e : nodot e -> split_last_dot e = None.
Proof.
  induction e as [|c e IH]; intros H; [reflexivity|].
  cbn. rewrite IH by (intros Hin; apply H; now right).
  destruct (c =? dot) eqn:E; [|reflexivity].
  apply Z.eqb_eq in E. exfalso. apply H. now left.
Qed.

Lemma split_last_dot_app stem e : nodot e ->
  split_last_dot (stem ++ dot :: e) = Some (stem, e).
Proof.
  intros He. induction stem as [|c stem IH]; cbn.
  - rewrite (split_last_dot_nodot e He). reflexivity.
  - rewrite IH. reflexivity.
Qed.

(* a name with a proper suffix: stem ++ "." ++ e with stem and e non-empty, e without dots *)
Lemma name_stem_app stem e : stem <> [] -> e <> [] -> nodot e ->
  name_stem (stem ++ dot :: e) = stem.
Proof.
  intros Hs He Hn. unfold name_stem. rewrite (split_last_dot_app stem e Hn).
  destruct stem; [congruence|]. destruct e; [congruence|]. reflexivity.
Qed.

Lemma with_suffix_app stem e e' : stem <> [] -> e <> [] -> nodot e ->
  with_suffix (stem ++ dot :: e) e' = stem ++ dot :: e'.
Proof. intros. unfold with_suffix. now rewrite name_stem_app. Qed.

(* the names compress_file publishes depend on the stem only — whatever characters it contains *)
Lemma published_names_spec stem e t1 t2 c h :
  stem <> [] -> e <> [] -> nodot e -> t1 <> [] -> nodot t1 ->
  published_names (stem ++ dot :: e) t1 t2 c h =
    (stem ++ dot :: t1, stem ++ dot :: t2, stem ++ dot :: c, stem ++ dot :: h).
Proof.
  intros Hs He Hn Ht Hnt. unfold published_names.
  rewrite !(with_suffix_app stem e) by assumption.
  rewrite (with_suffix_app stem t1 c) by assumption. reflexivity.
Qed.
