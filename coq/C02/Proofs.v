(* C02 — lemmas. *)
From Coq Require Import ZArith List Bool Lia.
From IBL.lib Require Import PyInt.
From IBL.C02 Require Import Model.
Import ListNotations.
Open Scope Z_scope.

(* ---------------------------------------------------------------------- *)
(* Part A: resolution                                                      *)
(* ---------------------------------------------------------------------- *)
Definition entry_exists (eb ec em : bool) (e : entry) : bool :=
  match e with EBin => eb | ECbin => ec | EMeta => em end.

Lemma resolve_existing eb ec em e :
  eb || ec = true -> entry_exists eb ec em e = true ->
  exists f, resolve eb ec e = Some f /\ dfile_exists eb ec f = true.
Proof.
  intros Hd He. destruct e, eb, ec; cbn in *; try discriminate; eauto.
Qed.

(* ---------------------------------------------------------------------- *)
(* Part B: the file-system machine                                         *)
(* ---------------------------------------------------------------------- *)

(* fault-free execution, the states it passes through, and the (state, step)
   pairs it executes *)
Fixpoint run (l : list step) (fs : fsys) : option fsys :=
  match l with
  | [] => Some fs
  | s :: l' => match effect fs s with None => None | Some fs' => run l' fs' end
  end.
Fixpoint reach (l : list step) (fs : fsys) : list fsys :=
  fs :: match l with
        | [] => []
        | s :: l' => match effect fs s with None => [] | Some fs' => reach l' fs' end
        end.
Fixpoint pre_steps (l : list step) (fs : fsys) : list (fsys * step) :=
  match l with
  | [] => []
  | s :: l' => match effect fs s with
               | None => []
               | Some fs' => (fs, s) :: pre_steps l' fs'
               end
  end.

Lemma reach_head l fs : In fs (reach l fs).
Proof. destruct l; cbn; auto. Qed.

(* whatever the fault, the run ends in a state the fault-free run passes through *)
Lemma exec_final_in_reach l : forall fs f, In (final_fs (exec l fs f)) (reach l fs).
Proof.
  induction l as [|s l IH]; intros fs f; [cbn; auto|].
  cbn [exec reach].
  destruct (fires fs s) eqn:Ef, f as [[|n]|]; cbn [final_fs fst]; try (left; reflexivity);
    (destruct (effect fs s) as [fs'|] eqn:Ee; [|left; reflexivity]);
    match goal with |- context [exec l fs' ?g] =>
      specialize (IH fs' g); destruct (exec l fs' g) as [[a b] t]; cbn in *; right; exact IH end.
Qed.

Lemma exec_trace_incl l : forall fs f, incl (final_tr (exec l fs f)) (pre_steps l fs).
Proof.
  induction l as [|s l IH]; intros fs f; [cbn; intros x []|].
  cbn [exec pre_steps].
  destruct (fires fs s) eqn:Ef, f as [[|n]|]; cbn [final_tr snd]; try (intros x []);
    (destruct (effect fs s) as [fs'|] eqn:Ee; [|intros x []]);
    match goal with |- context [exec l fs' ?g] =>
      specialize (IH fs' g); destruct (exec l fs' g) as [[a b] t]; cbn in *;
      intros x [Hx|Hx]; [left; exact Hx|right; apply IH; exact Hx] end.
Qed.

Lemma exec_done_run l : forall fs f,
  final_oc (exec l fs f) = Done -> run l fs = Some (final_fs (exec l fs f)).
Proof.
  induction l as [|s l IH]; intros fs f; [cbn; auto|].
  cbn [exec run].
  destruct (fires fs s) eqn:Ef, f as [[|n]|]; cbn [final_oc final_fs fst snd]; try discriminate;
    (destruct (effect fs s) as [fs'|] eqn:Ee; [|cbn; discriminate]);
    match goal with |- context [exec l fs' ?g] =>
      specialize (IH fs' g); destruct (exec l fs' g) as [[a b] t]; cbn in *; exact IH end.
Qed.

Lemma exec_nofault l : forall fs fs',
  run l fs = Some fs' -> exec l fs None = (fs', Done, pre_steps l fs).
Proof.
  induction l as [|s l IH]; intros fs fs' H; cbn in *; [congruence|].
  destruct (effect fs s) as [fs1|] eqn:Ee; [|discriminate].
  destruct (fires fs s); rewrite (IH _ _ H); reflexivity.
Qed.

Lemma exec_raised_fault l : forall fs f, final_oc (exec l fs f) = Raised -> f <> None.
Proof.
  induction l as [|s l IH]; intros fs f; [cbn; discriminate|].
  cbn [exec].
  destruct (fires fs s) eqn:Ef, f as [[|n]|]; cbn [final_oc fst snd]; try discriminate;
    (destruct (effect fs s) as [fs'|] eqn:Ee; [|cbn; discriminate]);
    match goal with |- context [exec l fs' ?g] =>
      specialize (IH fs' g); destruct (exec l fs' g) as [[a b] t]; cbn in *; intros H;
      try discriminate; try (apply IH in H; congruence) end.
Qed.

Lemma run_app l1 : forall l2 fs,
  run (l1 ++ l2) fs = match run l1 fs with Some fs1 => run l2 fs1 | None => None end.
Proof.
  induction l1 as [|s l1 IH]; intros l2 fs; cbn; [reflexivity|].
  destruct (effect fs s); [apply IH|reflexivity].
Qed.

Lemma reach_app_forall (P : fsys -> Prop) l1 : forall l2 fs,
  Forall P (reach l1 fs) ->
  (forall fs1, run l1 fs = Some fs1 -> Forall P (reach l2 fs1)) ->
  Forall P (reach (l1 ++ l2) fs).
Proof.
  induction l1 as [|s l1 IH]; intros l2 fs H1 H2; cbn in *.
  - apply H2. reflexivity.
  - inversion H1 as [|x y Hx Hy]; subst. constructor; [exact Hx|].
    destruct (effect fs s) as [fs'|]; [|constructor].
    apply IH; [exact Hy|exact H2].
Qed.

Lemma pre_steps_app_forall (P : fsys * step -> Prop) l1 : forall l2 fs,
  Forall P (pre_steps l1 fs) ->
  (forall fs1, run l1 fs = Some fs1 -> Forall P (pre_steps l2 fs1)) ->
  Forall P (pre_steps (l1 ++ l2) fs).
Proof.
  induction l1 as [|s l1 IH]; intros l2 fs H1 H2; cbn in *.
  - apply H2. reflexivity.
  - destruct (effect fs s) as [fs'|]; [|constructor].
    inversion H1 as [|x y Hx Hy]; subst. constructor; [exact Hx|].
    apply IH; [exact Hy|exact H2].
Qed.

(* the chunk loop: only computes and appends to one path *)
Definition is_body (p : path) (s : step) : Prop :=
  (exists k, s = SCompute k) \/ (exists k, s = SAppend p k).

Definition body_rel (p : path) (fs x : fsys) : Prop :=
  (forall q, path_eqb q p = false -> x q = fs q) /\
  (x p = fs p \/ exists j, x p = Partial j).

Lemma body_rel_refl p fs : body_rel p fs fs.
Proof. split; auto. Qed.

Lemma body_rel_step p fs x s x' :
  body_rel p fs x -> is_body p s -> effect x s = Some x' -> body_rel p fs x'.
Proof.
  intros [Ho Hp] [[k ->]|[k ->]] He; cbn in He; inversion He; subst; clear He.
  - split; auto.
  - split.
    + intros q Hq. unfold upd. rewrite Hq. apply Ho, Hq.
    + right. exists (k + 1). unfold upd, path_eqb. now rewrite Z.eqb_refl.
Qed.

Lemma body_effect p x s : is_body p s -> exists x', effect x s = Some x'.
Proof. intros [[k ->]|[k ->]]; cbn; eauto. Qed.

Lemma body_run p body : Forall (is_body p) body -> forall fs x, body_rel p fs x ->
  exists x', run body x = Some x' /\ body_rel p fs x'.
Proof.
  induction 1 as [|s body Hs Hb IH]; intros fs x Hx; cbn; [eauto|].
  destruct (body_effect p x s Hs) as [x1 He]. rewrite He.
  apply (IH fs x1). eapply body_rel_step; eauto.
Qed.

Lemma body_reach p body : Forall (is_body p) body -> forall fs x, body_rel p fs x ->
  Forall (body_rel p fs) (reach body x).
Proof.
  induction 1 as [|s body Hs Hb IH]; intros fs x Hx; cbn; [auto|].
  constructor; [exact Hx|].
  destruct (body_effect p x s Hs) as [x1 He]. rewrite He.
  apply IH. eapply body_rel_step; eauto.
Qed.

Lemma body_pre_steps p body : Forall (is_body p) body -> forall x,
  Forall (fun e => is_body p (snd e)) (pre_steps body x).
Proof.
  induction 1 as [|s body Hs Hb IH]; intros x; cbn; [auto|].
  destruct (effect x s); constructor; auto.
Qed.

Lemma batches_body p m B : Forall (is_body p) (batches p m B).
Proof.
  unfold batches. apply Forall_forall. intros s Hs.
  apply in_flat_map in Hs. destruct Hs as [i [_ Hs]].
  unfold batch_steps in Hs. apply in_app_or in Hs.
  destruct Hs as [Hs|Hs]; apply in_map_iff in Hs; destruct Hs as [k [<- _]];
    [left|right]; eauto.
Qed.

Lemma tag_eqb_refl t : tag_eqb t t = true.
Proof. destruct t; cbn; rewrite ?Z.eqb_refl; reflexivity. Qed.

Lemma is_complete_refl t : is_complete (Complete t) t = true.
Proof. apply tag_eqb_refl. Qed.

(* ---- compress_file ---- *)
Definition others : list path := [PMeta; PBinTmp; PSBin; PSBinTmp; PSMeta].

Definition cQ (r c : Z) (keep : bool) (fs0 x : fsys) : Prop :=
  (x PCbin = fs0 PCbin \/ x PCbin = Complete (Comp r c)) /\
  (x PBin = Complete (Orig r) \/
   (keep = false /\ x PBin = Absent /\
    x PCbin = Complete (Comp r c) /\ x PCh = Complete (Hdr r c))) /\
  (forall q, In q others -> x q = fs0 q).

Definition compress_tail (r c : Z) (keep chk : bool) : list step :=
  [SClose PCbinTmp (Comp r c); SOpenW PCh; SDump PCh (Hdr r c)] ++
  (if chk then [SVerify PCbinTmp PCh PBin r c] else []) ++
  [SRename PCbinTmp PCbin] ++
  (if keep then [] else [SUnlink PBin]).

Lemma compress_steps_split r c m B keep chk :
  compress_steps r c m B keep chk =
  [SOpenW PCbinTmp] ++ batches PCbinTmp m B ++ compress_tail r c keep chk.
Proof. reflexivity. Qed.

Ltac fs_simpl :=
  unfold upd, path_eqb; cbn [path_code Z.eqb Pos.eqb negb andb orb present is_complete];
  rewrite ?tag_eqb_refl; cbn [andb orb negb].

Ltac others_cases Hq := unfold others in Hq; cbn [In] in Hq;
  repeat (destruct Hq as [Hq|Hq]; [subst; cbn [path_code Z.eqb Pos.eqb]|]); try contradiction.

Ltac solve_cQ Hb Hc Hot :=
  unfold cQ; cbn [path_code Z.eqb Pos.eqb]; rewrite ?Hb, ?Hc;
  split; [auto|split; [auto 6|intros q Hq; rewrite <- (Hot q Hq); others_cases Hq; reflexivity]].

Lemma compress_tail_reach r c keep chk fs0 fs2 :
  fs0 PBin = Complete (Orig r) ->
  (forall q, path_eqb q PCbinTmp = false -> fs2 q = fs0 q) ->
  Forall (cQ r c keep fs0) (reach (compress_tail r c keep chk) fs2).
Proof.
  intros Hsrc Ho.
  assert (Hb : fs2 PBin = Complete (Orig r)) by (rewrite Ho; auto).
  assert (Hc : fs2 PCbin = fs0 PCbin) by (apply Ho; reflexivity).
  assert (Hot : forall q, In q others -> fs2 q = fs0 q).
  { intros q Hq. apply Ho. others_cases Hq; reflexivity. }
  unfold compress_tail. destruct chk, keep; cbn [app reach effect]; fs_simpl; rewrite ?Hb; fs_simpl;
  repeat first [apply Forall_nil | apply Forall_cons; [solve_cQ Hb Hc Hot|]
               | progress (fs_simpl; rewrite ?Hb; fs_simpl)].
Qed.

(* what the fault-free tail ends in *)
Lemma compress_tail_run r c keep chk fs2 :
  fs2 PBin = Complete (Orig r) ->
  exists fsf, run (compress_tail r c keep chk) fs2 = Some fsf /\
    fsf PCbin = Complete (Comp r c) /\ fsf PCh = Complete (Hdr r c) /\
    fsf PCbinTmp = Absent /\
    fsf PBin = (if keep then Complete (Orig r) else Absent).
Proof.
  intros Hb. unfold compress_tail.
  destruct chk, keep; cbn [app run effect]; repeat progress (fs_simpl; rewrite ?Hb);
    eexists; (split; [reflexivity|]); cbn [path_code Z.eqb Pos.eqb]; rewrite ?Hb; auto.
Qed.

(* ordering inside the tail: the rename publishes a complete stream next to a
   complete header; the source is unlinked only after that *)
Definition c_order (r c : Z) (e : fsys * step) : Prop :=
  let '(x, s) := e in
  (s = SRename PCbinTmp PCbin ->
     x PCbinTmp = Complete (Comp r c) /\ x PCh = Complete (Hdr r c) /\ x PBin = Complete (Orig r)) /\
  (s = SUnlink PBin ->
     x PCbin = Complete (Comp r c) /\ x PCh = Complete (Hdr r c) /\ x PCbinTmp = Absent).

Lemma compress_tail_order r c keep chk fs2 :
  fs2 PBin = Complete (Orig r) ->
  Forall (c_order r c) (pre_steps (compress_tail r c keep chk) fs2).
Proof.
  intros Hb. unfold compress_tail.
  destruct chk, keep; cbn [app pre_steps effect]; fs_simpl; rewrite ?Hb; fs_simpl;
  repeat first [apply Forall_nil
               | apply Forall_cons;
                 [unfold c_order; split; intros Hs; try discriminate Hs;
                  cbn [path_code Z.eqb Pos.eqb]; rewrite ?Hb; auto|]
               | progress (fs_simpl; rewrite ?Hb; fs_simpl)].
Qed.
