(* C02 — joint with C11 (IBL.C11.Model: ns_meta, open_bin, open_cbin over Flocq
   binary64; IBL.C11.Proofs: open_offline_floor, open_cbin_exposes): whatever
   duration the meta file claims, Reader(x.cbin) and Reader(x.bin) expose the
   same shape.  The ignore_warnings option does not occur in C11's model of
   open() because the rewrite of fileTimeSecs does not depend on it in the
   code; the statement quantifies over it through `reader_shape`. *)
From Coq Require Import ZArith Bool Lia.
From IBL.C11 Require Model Proofs.
Open Scope Z_scope.

Module M11 := IBL.C11.Model.
Module P11 := IBL.C11.Proofs.

(* Reader(file, ignore_warnings=iw).shape after the constructor's open():
   the mtscomp branch for x.cbin (the header announces n frames of nc channels),
   the memmap branch for x.bin (int16: item size 2, 2*n*nc bytes) *)
Definition reader_shape (iw cbin : bool) (n nc : Z) (fts : option M11.b64) (fs : M11.b64) : option (Z * Z) :=
  match (if cbin then M11.open_cbin n nc nc fts fs else M11.open_bin false 2 (2 * n * nc) nc fts fs) with
  | M11.Opened ns nc' _ _ => Some (ns, nc')
  | _ => None
  end.

Lemma cbin_shape_eq_bin_shape n nc t fs ns0 (iw1 iw2 : bool) :
  1 <= n <= 2 ^ 50 -> 1 <= nc -> P11.fs_ok fs ->
  M11.ns_meta (Some t) fs = M11.NsOk ns0 ->
  reader_shape iw1 true n nc (Some t) fs = Some (n, nc) /\
  reader_shape iw2 false n nc (Some t) fs = Some (n, nc).
Proof.
  intros Hn Hc Hfs Hns. unfold reader_shape. split.
  - rewrite (P11.open_cbin_exposes n nc t fs ns0 ltac:(lia) Hfs Hns). reflexivity.
  - assert (Hdiv : 2 * n * nc / (2 * nc) = n).
    { replace (2 * n * nc) with (n * (2 * nc)) by lia. apply Z.div_mul. lia. }
    pose proof (P11.open_offline_floor 2 (2 * n * nc) nc t fs ns0 Hc ltac:(lia) ltac:(nia)
                  ltac:(rewrite Hdiv; lia) Hfs Hns) as H.
    cbn zeta in H. rewrite Hdiv in H. rewrite H. reflexivity.
Qed.
