(* C02 — property theorems (statements closed by `exact <lemma>`). *)
From Coq Require Import ZArith List Bool Lia.
From IBL.lib Require Import PyInt.
From IBL.C02 Require Import Model Proofs.
Import ListNotations.
Open Scope Z_scope.

Theorem C02_resolve_existing : forall eb ec em e,
  eb || ec = true -> entry_exists eb ec em e = true ->
  exists f, resolve eb ec e = Some f /\ dfile_exists eb ec f = true.
Proof. exact resolve_existing. Qed.
Print Assumptions C02_resolve_existing.
