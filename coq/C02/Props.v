(* C02 — property theorems.  Only statements closed by `exact <lemma>` (or a
   short unfolding wrapper) and the Print Assumptions the check collects.

   Vocabulary (coq/C02/Model.v): a file system maps the nine paths of one
   recording (x.bin, x.cbin, x.cbin_tmp, x.ch, x.meta, x.bin_temp and the three
   scratch paths) to Absent | Partial j | Complete tag; `exec steps fs fault`
   runs a procedure's step list, the fault-th instrumented call raising instead
   of executing; `final_fs`, `final_oc`, `final_tr` are its final state, its
   outcome (Done | Raised | Failed) and the (state-before, step) pairs that
   took effect.  All theorems quantify over every chunk count m, every batch
   size B (= n_threads), every fault position (or none) and every initial
   content of the files not mentioned in the hypotheses (stale files included). *)
From Coq Require Import ZArith List Bool Lia.
From IBL.lib Require Import PyInt.
From IBL.C02 Require Import Model Proofs Chunks OpenJoint.
Import ListNotations.
Open Scope Z_scope.

(* ---------------------------------------------------------------------- *)
(* Resolution: whichever of x.bin / x.cbin / x.meta is handed to the reader,
   in a folder whose data files all belong to recording r and with at least
   one of them present, the constructor settles on an existing data file of r
   and opens it.                                                            *)
Theorem C02_resolve_same_recording : forall r fs e,
  consistent r fs ->
  present (fs PBin) || present (fs PCbin) = true ->
  present (fs (entry_path e)) = true ->
  present (fs PMeta) = true ->
  exists f, resolve (present (fs PBin)) (present (fs PCbin)) e = Some f /\ holds r fs f /\
    open_outcome (present (fs PBin)) (present (fs PCbin)) (present (fs PMeta)) (present (fs PCh)) e
      = match f with DBin => OpenedBin | DCbin => OpenedCbin end.
Proof. exact resolve_same_recording. Qed.
Print Assumptions C02_resolve_same_recording.

(* hypotheses satisfiable: a folder holding x.cbin + x.ch + x.meta of recording 1 (no x.bin), opened through x.meta *)
Example resolve_hyp_satisfiable :
  consistent 1 fs_cbin_only /\
  present (fs_cbin_only PBin) || present (fs_cbin_only PCbin) = true /\
  present (fs_cbin_only (entry_path EMeta)) = true /\ present (fs_cbin_only PMeta) = true /\
  resolve (present (fs_cbin_only PBin)) (present (fs_cbin_only PCbin)) EMeta = Some DCbin.
Proof.
  unfold consistent, holds. cbn. repeat split; try discriminate; intros _; exists 1; auto.
Qed.

Example resolve_meta_only_cbin :
  resolve false true EMeta = Some DCbin /\ open_outcome false true true true EMeta = OpenedCbin.
Proof. vm_compute. auto. Qed.

(* ---------------------------------------------------------------------- *)
(* Meta-less flat binary handed to Reader(...) with nothing else: the channel
   count is guessed from the file size.  A 384-channel int16 file is always
   recognised; a 385-channel file is recognised (with one sync channel) unless
   its sample count is a multiple of 384 — then 768 divides the size too and it
   is taken for 384 channels x 385 n / 384 samples (exact truth of the
   heuristic; the harness confirms it on the real constructor).              *)
Theorem C02_flat_guess : forall n, 1 <= n ->
  flat_guess (2 * n * 384) = Some (384, n, 0) /\
  flat_guess (2 * n * 385) =
    (if n mod 384 =? 0 then Some (384, 385 * (n / 384), 0) else Some (385, n, 1)).
Proof. intros n Hn. split; [exact (flat_guess_384 n Hn)|exact (flat_guess_385 n Hn)]. Qed.
Print Assumptions C02_flat_guess.

Example flat_guess_example :
  flat_guess (2 * 3 * 385) = Some (385, 3, 1) /\ flat_guess (2 * 384 * 385) = Some (384, 385, 0) /\
  flat_guess (2 * 11 * 3) = None.
Proof. vm_compute. auto. Qed.

(* Meta-less readers Reader(file, nc=, ns=, fs=) (tree at 3b02450): for every
   announced sample count within the data, the .bin and the .cbin reader both
   open and expose exactly that count — same shape through either file.      *)
Theorem C02_nometa_shape_transparent : forall w ns, 1 <= w_nc w -> 1 <= ns <= w_n w ->
  r_open_nometa w DBin ns = Some ns /\ r_open_nometa w DCbin ns = Some ns.
Proof. exact nometa_transparent. Qed.
Print Assumptions C02_nometa_shape_transparent.

Example nometa_example :
  r_open_nometa w_ex DBin 9 = Some 9 /\ r_open_nometa w_ex DCbin 9 = Some 9 /\
  r_open_nometa w_ex DBin 12 = None /\ r_open_nometa w_ex DCbin 12 = Some 12.
Proof. vm_compute. auto. Qed.

(* File names (character level; with_suffix models pathlib: the suffix starts at
   the last '.', provided it is neither the first nor the last character).
   For a source file named stem.e (stem, e non-empty, no '.' in e) and
   WHATEVER characters the stem contains — other dots, "_tmp", ".cbin_tmp",
   "bin", "meta", ... — the temporaries are stem.cbin_tmp / stem.ch_tmp, the
   published files are stem.cbin / stem.ch, and these are exactly the names
   the reader looks up: x.meta -> with_suffix cbin, x.cbin -> with_suffix ch,
   and the decompressed output of the published .cbin is stem.bin again.     *)
Theorem C02_published_names_are_looked_up :
  forall stem e t1 t2 xcbin xch xmeta xbin,
  stem <> [] -> e <> [] -> ~ In dot e ->
  t1 <> [] -> ~ In dot t1 -> xcbin <> [] -> ~ In dot xcbin -> xmeta <> [] -> ~ In dot xmeta ->
  let x := stem ++ dot :: e in
  let '(tmp_cbin, tmp_ch, pub_cbin, pub_ch) := published_names x t1 t2 xcbin xch in
  tmp_cbin = stem ++ dot :: t1 /\ tmp_ch = stem ++ dot :: t2 /\
  pub_cbin = stem ++ dot :: xcbin /\ pub_ch = stem ++ dot :: xch /\
  with_suffix (stem ++ dot :: xmeta) xcbin = pub_cbin /\       (* Reader(x.meta) looks for this *)
  with_suffix pub_cbin xch = pub_ch /\                          (* open() of the .cbin looks for this *)
  with_suffix pub_cbin xbin = stem ++ dot :: xbin /\            (* decompress_file's default output *)
  with_suffix pub_cbin xmeta = stem ++ dot :: xmeta.            (* the .meta companion *)
Proof.
  intros stem e t1 t2 xcbin xch xmeta xbin Hs He Hn Ht Hnt Hc Hnc Hm Hnm x.
  unfold x. rewrite (published_names_spec stem e t1 t2 xcbin xch Hs He Hn Ht Hnt).
  rewrite (with_suffix_app stem xmeta xcbin Hs Hm Hnm).
  rewrite !(with_suffix_app stem xcbin) by assumption.
  repeat split; reflexivity.
Qed.
Print Assumptions C02_published_names_are_looked_up.

(* probe_tmp_test.cbin_tmp.imec0.ap.bin -> probe_tmp_test.cbin_tmp.imec0.ap.cbin / .ch *)
Example published_names_example :
  let s := [112;114;111;98;101;95;116;109;112;95;116;101;115;116;46;99;98;105;110;95;116;109;112;46;105;109;101;99;48;46;97;112] in
  published_names (s ++ [46; 98; 105; 110]) [99;98;105;110;95;116;109;112] [99;104;95;116;109;112] [99;98;105;110] [99;104]
  = (s ++ [46;99;98;105;110;95;116;109;112], s ++ [46;99;104;95;116;109;112], s ++ [46;99;98;105;110], s ++ [46;99;104]) /\
  with_suffix [46;104;105;100] [99;104] = [46;104;105;100;46;99;104] /\      (* ".hid" has no suffix *)
  with_suffix [97;46] [99;104] = [97;46;46;99;104].                          (* "a." neither *)
Proof. vm_compute. auto. Qed.

(* ---------------------------------------------------------------------- *)
(* compress_file (tree at 746882f: stream -> x.cbin_tmp, header -> x.ch_tmp,
   then rename header, rename stream, unlink source).  Source x.bin complete;
   anything else arbitrary (stale pair, stale temporaries).
   1. x.cbin is either what it was or the complete new stream;
   2. x.bin is intact, unless keep_original=False and then only with the
      complete x.cbin and x.ch in place;
   3. files other than x.bin/x.cbin/x.ch and the two temporaries are untouched;
   4. header and stream are published in this order: nothing yet (x.ch and
      x.cbin as they were) / header only — and then the complete new stream is
      still in x.cbin_tmp, x.ch_tmp is gone and x.bin is intact / both.  So a
      fault during compression (chunks, header write, check) leaves x.ch and
      x.cbin exactly as they were; only a fault of the second rename itself
      leaves the new complete x.ch next to the old (or absent) x.cbin;
   5. a run that returns leaves cbin+ch complete, no temporaries, source as
      requested; without a fault the run returns; no step fails by itself.
   Temporaries x.cbin_tmp / x.ch_tmp may be left behind by a faulted run.    *)
Theorem C02_compress_atomic : forall r c m B keep chk fs0 fault,
  fs0 PBin = Complete (Orig r) ->
  let res := exec (compress_steps r c m B keep chk) fs0 fault in
  let fs' := final_fs res in
  (fs' PCbin = fs0 PCbin \/ fs' PCbin = Complete (Comp r c)) /\
  (fs' PBin = Complete (Orig r) \/
   (keep = false /\ fs' PBin = Absent /\
    fs' PCbin = Complete (Comp r c) /\ fs' PCh = Complete (Hdr r c))) /\
  (forall q, In q [PMeta; PBinTmp; PSBin; PSBinTmp; PSMeta] -> fs' q = fs0 q) /\
  ((fs' PCh = fs0 PCh /\ fs' PCbin = fs0 PCbin) \/
   (fs' PCh = Complete (Hdr r c) /\ fs' PCbin = fs0 PCbin /\
    fs' PCbinTmp = Complete (Comp r c) /\ fs' PChTmp = Absent /\ fs' PBin = Complete (Orig r)) \/
   (fs' PCh = Complete (Hdr r c) /\ fs' PCbin = Complete (Comp r c))) /\
  (final_oc res = Done ->
     fs' PCbin = Complete (Comp r c) /\ fs' PCh = Complete (Hdr r c) /\
     fs' PCbinTmp = Absent /\ fs' PChTmp = Absent /\
     fs' PBin = (if keep then Complete (Orig r) else Absent)) /\
  (fault = None -> final_oc res = Done) /\
  final_oc res <> Failed.
Proof. exact compress_atomic. Qed.
Print Assumptions C02_compress_atomic.

(* No partial file ever carries a final name: if x.cbin and x.ch were not
   partial before the call they are not partial after it, whatever the fault. *)
Theorem C02_final_names_never_partial : forall r c m B keep chk fs0 fault,
  fs0 PBin = Complete (Orig r) ->
  (forall j, fs0 PCbin <> Partial j) -> (forall j, fs0 PCh <> Partial j) ->
  let fs' := final_fs (exec (compress_steps r c m B keep chk) fs0 fault) in
  forall j, fs' PCbin <> Partial j /\ fs' PCh <> Partial j.
Proof. exact final_names_never_partial. Qed.
Print Assumptions C02_final_names_never_partial.

Example final_names_hyp_satisfiable :
  fs_bin_stale PBin = Complete (Orig 1) /\
  (forall j, fs_bin_stale PCbin <> Partial j) /\ (forall j, fs_bin_stale PCh <> Partial j) /\
  final_fs (exec (compress_steps 1 1 2 1 true true) fs_bin_stale (Some 3%nat)) PCbinTmp = Partial 1.
Proof. repeat split; try (intros j; discriminate); vm_compute; reflexivity. Qed.

(* Order of publication: x.ch_tmp -> x.ch only with complete stream and header
   (source still there); x.cbin_tmp -> x.cbin next, the complete header already
   under its final name; x.bin unlinked only after both, no temporary left.  *)
Theorem C02_compress_inplace_order : forall r c m B keep chk fs0 fault x s,
  fs0 PBin = Complete (Orig r) ->
  In (x, s) (final_tr (exec (compress_steps r c m B keep chk) fs0 fault)) ->
  (s = SRename PChTmp PCh ->
     x PChTmp = Complete (Hdr r c) /\ x PCbinTmp = Complete (Comp r c) /\
     x PBin = Complete (Orig r)) /\
  (s = SRename PCbinTmp PCbin ->
     x PCbinTmp = Complete (Comp r c) /\ x PCh = Complete (Hdr r c) /\
     x PChTmp = Absent /\ x PBin = Complete (Orig r)) /\
  (s = SUnlink PBin ->
     x PCbin = Complete (Comp r c) /\ x PCh = Complete (Hdr r c) /\
     x PCbinTmp = Absent /\ x PChTmp = Absent).
Proof.
  intros r c m B keep chk fs0 fault x s Hsrc Hin.
  pose proof (compress_inplace_order r c m B keep chk fs0 fault Hsrc) as H.
  rewrite Forall_forall in H. exact (H _ Hin).
Qed.
Print Assumptions C02_compress_inplace_order.

(* the trace of a run really contains the three kinds of steps the theorem speaks about *)
Example inplace_order_steps_occur :
  let tr := map snd (final_tr (exec (compress_steps 1 1 2 1 false true) fs_bin_only None)) in
  existsb (fun s => match s with SRename PChTmp PCh => true | _ => false end) tr = true /\
  existsb (fun s => match s with SRename PCbinTmp PCbin => true | _ => false end) tr = true /\
  existsb (fun s => match s with SUnlink PBin => true | _ => false end) tr = true.
Proof. vm_compute. auto. Qed.

Example compress_hyp_satisfiable :
  let res := exec (compress_steps 1 1 3 2 false true) fs_bin_stale None in
  final_oc res = Done /\ final_fs res PBin = Absent /\ final_fs res PCbin = Complete (Comp 1 1) /\
  length (final_tr res) = 14%nat.
Proof. vm_compute. auto. Qed.

(* ---------------------------------------------------------------------- *)
(* decompress_file (out = x.bin, or a temporary name).  The property asks only
   for the ordering here: the compressed pair is intact, unless
   keep_original=False and then x.cbin / x.ch are unlinked only in states where
   the output is the complete binary; other files untouched; a run that
   returns leaves the complete binary.                                      *)
Theorem C02_decompress_file_order : forall r c m B out keep chk ow fs0 fault,
  out_ok out = true ->
  fs0 PCbin = Complete (Comp r c) -> fs0 PCh = Complete (Hdr r c) ->
  let res := exec (decompress_steps r c m B out keep chk ow) fs0 fault in
  let fs' := final_fs res in
  ((fs' PCbin = Complete (Comp r c) /\ fs' PCh = Complete (Hdr r c)) \/
   (keep = false /\ fs' out = Complete (Orig r) /\ fs' PCbin = Absent /\
    (fs' PCh = Complete (Hdr r c) \/ fs' PCh = Absent))) /\
  (forall q, path_eqb q out = false -> path_eqb q PCbin = false -> path_eqb q PCh = false ->
             fs' q = fs0 q) /\
  (final_oc res = Done ->
     fs' out = Complete (Orig r) /\
     fs' PCbin = (if keep then Complete (Comp r c) else Absent) /\
     fs' PCh = (if keep then Complete (Hdr r c) else Absent)) /\
  (fault = None -> (ow = true \/ present (fs0 out) = false) -> final_oc res = Done) /\
  (forall x s, In (x, s) (final_tr res) -> (s = SUnlink PCbin \/ s = SUnlink PCh) ->
               x out = Complete (Orig r)).
Proof.
  intros r c m B out keep chk ow fs0 fault Hout Hc Hh res fs'.
  destruct (decompress_atomic r c m B out keep chk ow fs0 fault Hout Hc Hh) as [[D1 D2] [D3 [D4 D5]]].
  split; [exact D1|split; [exact D2|split; [exact D3|split; [exact D4|]]]].
  intros x s Hin. rewrite Forall_forall in D5. exact (D5 _ Hin).
Qed.
Print Assumptions C02_decompress_file_order.

Example decompress_hyp_satisfiable :
  out_ok PBin = true /\ fs_cbin_only PCbin = Complete (Comp 1 1) /\ fs_cbin_only PCh = Complete (Hdr 1 1) /\
  let res := exec (decompress_steps 1 1 3 2 PBin false true true) fs_cbin_only None in
  final_oc res = Done /\ final_fs res PBin = Complete (Orig 1) /\ final_fs res PCbin = Absent /\
  final_fs res PCh = Absent /\ length (final_tr res) = 14%nat.
Proof. vm_compute. auto 8. Qed.

(* ---------------------------------------------------------------------- *)
(* decompress_to_scratch (scratch_dir given or None).  The compressed pair is
   never touched; the final name of the scratch binary holds what it held or
   the complete binary — never a partial file; nothing else but the temporary
   and the copied .meta changes; a run that returns leaves the complete binary
   (or the file that was already there) and no temporary.                   *)
Theorem C02_scratch_atomic : forall r c m B sd fs0 fault,
  fs0 PCbin = Complete (Comp r c) -> fs0 PCh = Complete (Hdr r c) ->
  (sd = true -> present (fs0 PMeta) = true) ->
  let res := exec (scratch_steps fs0 r c m B sd) fs0 fault in
  let fs' := final_fs res in
  let tgt := scratch_target sd in
  let tmp := scratch_tmp sd in
  fs' PCbin = Complete (Comp r c) /\ fs' PCh = Complete (Hdr r c) /\
  (fs' tgt = fs0 tgt \/ fs' tgt = Complete (Orig r)) /\
  (forall q, path_eqb q tgt = false -> path_eqb q tmp = false -> path_eqb q PSMeta = false ->
             fs' q = fs0 q) /\
  (final_oc res = Done ->
     fs' tgt = (if present (fs0 tgt) then fs0 tgt else Complete (Orig r)) /\
     (present (fs0 tgt) = false -> fs' tmp = Absent)) /\
  (fault = None -> final_oc res = Done) /\
  final_oc res <> Failed.
Proof.
  intros r c m B sd fs0 fault Hc Hh Hm res fs' tgt tmp.
  destruct (scratch_atomic r c m B sd fs0 fault Hc Hh Hm) as [[S1 [S2 [S3 S4]]] [S5 [S6 S7]]].
  repeat (split; [assumption|]). assumption.
Qed.
Print Assumptions C02_scratch_atomic.

Example scratch_hyp_satisfiable :
  let res := exec (scratch_steps fs_cbin_only 1 1 2 16 true) fs_cbin_only (Some 8%nat) in
  final_oc res = Raised /\ final_fs res PSBin = Absent /\ final_fs res PSBinTmp = Complete (Orig 1).
Proof. vm_compute. auto. Qed.

(* ---------------------------------------------------------------------- *)
(* Any sequence of calls of the three procedures (any options), each hit by an
   arbitrary fault or none, each enabled only on a reader that could have been
   opened: the recording is never lost (x.bin complete, or a readable
   x.cbin/x.ch pair), x.cbin is never a partial file, scratch/x.bin is never a
   partial file.                                                            *)
Theorem C02_history_safe : forall r h fs,
  ((fs PBin = Complete (Orig r) \/
    exists c, fs PCbin = Complete (Comp r c) /\ fs PCh = Complete (Hdr r c)) /\
   (fs PCbin = Absent \/ exists c, fs PCbin = Complete (Comp r c)) /\
   (fs PSBin = Absent \/ fs PSBin = Complete (Orig r)) /\
   present (fs PMeta) = true) ->
  let fs' := run_history r fs h in
  (fs' PBin = Complete (Orig r) \/
   exists c, fs' PCbin = Complete (Comp r c) /\ fs' PCh = Complete (Hdr r c)) /\
  (fs' PCbin = Absent \/ exists c, fs' PCbin = Complete (Comp r c)) /\
  (fs' PSBin = Absent \/ fs' PSBin = Complete (Orig r)) /\
  present (fs' PMeta) = true.
Proof. intros r h fs H. exact (history_safe r h fs H). Qed.
Print Assumptions C02_history_safe.

Example history_example :
  let h := [(OpCompress 1 3 2 false true, Some 4%nat); (OpCompress 2 2 1 false true, None);
            (OpScratch 2 2 16 true, Some 7%nat); (OpDecompress 2 2 1 false true true, Some 8%nat)] in
  let fs' := run_history 1 fs_bin_only h in
  fs' PBin = Complete (Orig 1) /\ fs' PCbin = Complete (Comp 1 2) /\ fs' PCh = Complete (Hdr 1 2) /\
  fs' PCbinTmp = Absent /\ fs' PSBinTmp = Partial 1.
Proof. vm_compute. auto. Qed.

(* ---------------------------------------------------------------------- *)
(* Codec.  For every compressor pair with unzip (zip b) = b, every chunk size
   >= 1 and every int16 matrix with nc columns: decoding the encoded file
   gives the matrix back (wrapping differences, Fortran-order bytes,
   wrapping running sum).                                                   *)
Theorem C02_codec_roundtrip : forall (zip unzip : list Z -> list Z) nc size rows,
  (forall b, unzip (zip b) = b) -> 1 <= size ->
  Forall (fun row => length row = nc /\ Forall (fun v => -32768 <= v < 32768) row) rows ->
  decode_file unzip nc (encode_file zip nc size rows) = rows.
Proof. exact file_roundtrip. Qed.
Print Assumptions C02_codec_roundtrip.

(* one chunk, with the byte stream made explicit: the bytes handed to zlib are
   bytes, and decoding them gives the chunk back *)
Theorem C02_chunk_roundtrip : forall nc rows,
  Forall (fun row => length row = nc /\ Forall (fun v => -32768 <= v < 32768) row) rows ->
  Forall (fun b => 0 <= b < 256) (payload nc rows) /\
  decode_payload (length rows) nc (payload nc rows) = rows.
Proof.
  intros nc rows H. split; [apply to_bytes_range|exact (payload_roundtrip nc rows H)].
Qed.
Print Assumptions C02_chunk_roundtrip.

Example codec_example :
  let rows := [[32767; -32768]; [-32768; 32767]; [0; -1]] in
  payload 2 rows = [255; 127; 1; 0; 0; 128; 0; 128; 255; 255; 0; 128] /\
  decode_file (fun b => b) 2 (encode_file (fun b => b) 2 2 rows) = rows.
Proof. vm_compute. auto. Qed.

(* Chunk bounds range(0, n, size) ++ [n] tile [0, n): m = ceil(n/size) >= 1
   chunks, bound k = k*size for k < m, last bound n, and the last chunk is
   non-empty and at most `size` long.                                       *)
Theorem C02_chunks_partition : forall n size, 1 <= n -> 1 <= size ->
  let b := chunk_bounds n size in
  let m := n_chunks n size in
  1 <= m /\ Z.of_nat (length b) = m + 1 /\
  (forall k, 0 <= k < m -> nth (Z.to_nat k) b 0 = k * size) /\
  nth (Z.to_nat m) b 0 = n /\
  (m - 1) * size < n <= m * size.
Proof. exact chunk_bounds_spec. Qed.
Print Assumptions C02_chunks_partition.

Example chunks_partition_example :
  chunk_bounds 11 4 = [0; 4; 8; 11] /\ n_chunks 11 4 = 3 /\ chunk_bounds 8 4 = [0; 4; 8] /\ chunk_bounds 1 7 = [0; 1].
Proof. vm_compute. auto. Qed.

(* ... and chunk k of the encoder's split is rows[k*size : k*size + size] *)
Theorem C02_chunk_is_slice : forall size k (rows : list (list Z)),
  (0 < size)%nat -> (k * size < length rows)%nat ->
  nth k (file_chunks (Z.of_nat size) rows) [] = firstn size (skipn (k * size) rows).
Proof.
  intros size k rows Hs Hk. unfold file_chunks. rewrite Nat2Z.id.
  apply split_rows_nth; [exact Hs|apply Nat.le_refl|exact Hk].
Qed.
Print Assumptions C02_chunk_is_slice.

Example chunk_is_slice_example :
  nth 2 (file_chunks 2 [[1]; [2]; [3]; [4]; [5]]) [] = [[5]] /\ (2 * 2 < length [[1]; [2]; [3]; [4]; [5]])%nat.
Proof. vm_compute. split; [reflexivity|lia]. Qed.

(* ---------------------------------------------------------------------- *)
(* Reading back through the .ch table.  The encoder writes the chunks one
   after the other (cbin_stream) and records chunk_bounds / chunk_offsets.
   Chunk k as mtscomp.Reader.read_chunk gets it — pread of
   [offsets[k], offsets[k+1]), unzip, reshape to bounds[k+1]-bounds[k] rows in
   Fortran order, wrapping running sum — is rows[k*size : (k+1)*size] of the
   recording, for every int16 matrix, chunk size and chunk index.             *)
Theorem C02_read_chunk_is_slice :
  forall (zip unzip : list Z -> list Z) nc size (rows : list (list Z)) k,
  (forall b, unzip (zip b) = b) -> (0 < size)%nat ->
  Forall (fun row => length row = nc /\ Forall (fun v => -32768 <= v < 32768) row) rows ->
  (k * size < length rows)%nat ->
  let sz := Z.of_nat size in
  read_chunk unzip nc (cbin_stream zip nc sz rows) (chunk_offsets zip nc sz rows)
             (chunk_bounds (Z.of_nat (length rows)) sz) k
  = firstn size (skipn (k * size) rows).
Proof. exact read_chunk_is_slice. Qed.
Print Assumptions C02_read_chunk_is_slice.

(* Joint with C01 (IBL.C01.Model: validate_index, chunks_for_interval — bisect
   on the bounds —, np_index1, slice_indices; IBL.C01.Proofs.mts_slice_pos).
   mts_read_rows is mtscomp.Reader.__getitem__(slice(a, b, step)) on values:
   load the chunks the interval touches, concatenate, sub-slice.  For every
   int16 matrix, chunk size, start/stop (None, negative, beyond the end, on or
   off a chunk boundary) and every positive or default step, reading the bytes
   written by the encoder through the table gives exactly the rows at Python's
   slice indices: every sample-slice position relative to the chunk
   boundaries.  (Integers, channel selectors and calibration: C01_cbin_eq_bin.) *)
Theorem C02_cbin_slice_read :
  forall (zip unzip : list Z -> list Z) nc size (rows : list (list Z)) a b c,
  (forall x, unzip (zip x) = x) -> (0 < size)%nat -> (1 <= length rows)%nat ->
  Forall (fun row => length row = nc /\ Forall (fun v => -32768 <= v < 32768) row) rows ->
  0 < match c with None => 1 | Some s => s end ->
  let sz := Z.of_nat size in
  let n := Z.of_nat (length rows) in
  let bounds := chunk_bounds n sz in
  let chunk k := read_chunk unzip nc (cbin_stream zip nc sz rows) (chunk_offsets zip nc sz rows)
                            bounds (Z.to_nat k) in
  exists l, IBL.C01.Model.slice_indices n a b c = Some l /\
    mts_read_rows chunk bounds n a b c =
      IBL.C01.Model.Ok (map (fun p => nth (Z.to_nat p) rows []) l).
Proof. exact cbin_slice_read. Qed.
Print Assumptions C02_cbin_slice_read.

Example cbin_slice_example :
  let rows := [[1; -2]; [3; 4]; [32767; -32768]; [-32768; 32767]; [0; 5]] in
  let idz := fun b : list Z => b in
  let bounds := chunk_bounds 5 2 in
  let chunk k := read_chunk idz 2 (cbin_stream idz 2 2 rows) (chunk_offsets idz 2 2 rows) bounds (Z.to_nat k) in
  chunk_offsets idz 2 2 rows = [0; 8; 16; 20] /\ bounds = [0; 2; 4; 5] /\
  mts_read_rows chunk bounds 5 (Some 1) (Some (-1)) None = IBL.C01.Model.Ok [[3; 4]; [32767; -32768]; [-32768; 32767]] /\
  mts_read_rows chunk bounds 5 (Some 3) None (Some 2) = IBL.C01.Model.Ok [[-32768; 32767]].
Proof. vm_compute. auto. Qed.

(* ---------------------------------------------------------------------- *)
(* One Reader object through any sequence of open() / compress_file /
   decompress_file (either keep_original) / decompress_to_scratch (tree at
   38d7b2f), started on x.bin or x.cbin of a recording with n >= 1 samples,
   nc >= 1 channels, any compressed size, header and meta file announcing n
   samples.  After every call:
   - the object exposes the recording's shape (ns = n);
   - the public attribute nbytes is the size of x.bin whenever the object
     points at x.bin (set at construction, refreshed by the in-place
     decompression; since aa7f63d open() no longer reads it, see
     C02_object_warning_iff_meta_wrong; it is NOT the size of x.cbin after
     compress_file(keep_original=False), see C02_object_nbytes_stale_on_cbin);
   - _raw never holds a closed reader;
   - no size-mismatch warning has been logged.                               *)
Theorem C02_object_shape_invariant : forall w f ops,
  1 <= w_n w -> 1 <= w_nc w -> w_nch w = w_n w ->
  Forall (fun x => let o := s_obj (fst x) in
            o_ns o = w_n w /\
            (o_file o = DBin -> o_nbytes o = fsize w DBin) /\
            o_raw o <> RawClosed /\
            o_warn o = false)
         (r_run w (r_start w f (w_n w)) ops).
Proof.
  intros w f ops Hn Hc Hh.
  exact (r_run_inv w ops _ (conj Hn (conj Hc Hh)) (r_start_inv w f)).
Qed.
Print Assumptions C02_object_shape_invariant.

Example object_sequence_example :
  let tr := r_run w_ex (r_start w_ex DCbin 11)
              [ROpen; RScratch true; RDecompress false; RScratch true; RCompress false; ROpen; RCompress true] in
  map (fun x => (o_file (s_obj (fst x)), o_nbytes (s_obj (fst x)), o_raw (s_obj (fst x)), snd x)) tr =
  [(DCbin, 93, RawMtscomp, false); (DCbin, 93, RawMtscomp, false); (DBin, 66, RawMemmap, false);
   (DBin, 66, RawMemmap, false); (DCbin, 66, RawMemmap, false); (DCbin, 66, RawMtscomp, false);
   (DCbin, 66, RawMtscomp, true)] /\
  (1 <= w_n w_ex /\ 1 <= w_nc w_ex /\ w_nch w_ex = w_n w_ex).
Proof. vm_compute. repeat split; congruence. Qed.

(* In any such state: the only calls that raise are the is_mtscomp guards
   (compress_file on an object pointing at x.cbin; decompress_file on one
   pointing at x.bin; decompress_to_scratch(dir) on one pointing at x.bin when
   scratch/x.bin does not exist yet — otherwise it just returns that file); open() installs the reader
   of the current file; decompress_file(keep_original=False) on an opened
   object leaves it opened on x.bin (memmap) with the fresh size.            *)
Theorem C02_object_calls_succeed : forall w s op,
  1 <= w_n w -> 1 <= w_nc w -> w_nch w = w_n w ->
  (let o := s_obj s in
   o_ns o = w_n w /\ (o_file o = DBin -> o_nbytes o = fsize w DBin) /\
   o_raw o <> RawClosed /\ o_warn o = false) ->
  (snd (r_step w s op) = true ->
     (exists k, op = RCompress k /\ o_file (s_obj s) = DCbin) \/
     (exists k, op = RDecompress k /\ o_file (s_obj s) = DBin) \/
     (op = RScratch true /\ o_file (s_obj s) = DBin /\ s_sb s = false)) /\
  o_raw (s_obj (fst (r_step w s ROpen))) =
    (match o_file (s_obj s) with DBin => RawMemmap | DCbin => RawMtscomp end) /\
  (o_file (s_obj s) = DCbin -> o_raw (s_obj s) <> RawNone ->
     let o' := s_obj (fst (r_step w s (RDecompress false))) in
     o_file o' = DBin /\ o_raw o' = RawMemmap /\ o_nbytes o' = fsize w DBin).
Proof.
  intros w s op Hn Hc Hh HI.
  assert (Hw : wgood w) by (repeat split; assumption).
  split; [exact (r_step_noraise w s op Hw HI)|exact (r_reopened w s Hw HI)].
Qed.
Print Assumptions C02_object_calls_succeed.

(* open() in general (tree at aa7f63d: the flat-binary mismatch test uses the
   file's current size): for ANY object state — any count taken from the meta
   file, any cached nbytes — open() succeeds, exposes the true count, installs
   the reader of the current file and logs the size-mismatch warning iff the
   count was wrong and ignore_warnings is off.  The cached nbytes plays no
   part: changing it changes nothing but the attribute itself.               *)
Theorem C02_object_warning_iff_meta_wrong : forall w o,
  1 <= w_n w -> 1 <= w_nc w -> w_nch w = w_n w ->
  (exists o', r_open w o = Some o' /\ o_ns o' = w_n w /\ o_file o' = o_file o /\
     o_nbytes o' = o_nbytes o /\
     o_raw o' = (match o_file o with DBin => RawMemmap | DCbin => RawMtscomp end) /\
     o_warn o' = negb (o_ns o =? w_n w) && negb (w_iw w)) /\
  (forall z, r_open w (mkR (o_file o) z (o_ns o) (o_raw o) (o_warn o)) =
             option_map (fun x => mkR (o_file x) z (o_ns x) (o_raw x) (o_warn x)) (r_open w o)).
Proof.
  intros w o Hn Hc Hh. split.
  - exact (r_open_gen w o (conj Hn (conj Hc Hh))).
  - intros z. exact (r_open_nbytes_irrelevant w o z).
Qed.
Print Assumptions C02_object_warning_iff_meta_wrong.

(* meta file claiming 9 samples for an 11-sample recording, ignore_warnings off / on *)
Example object_open_wrong_meta :
  option_map (fun o => (o_ns o, o_warn o)) (r_open w_ex (r_init w_ex DCbin 9)) = Some (11, true) /\
  option_map (fun o => (o_ns o, o_warn o)) (r_open w_ex (r_init w_ex DBin 14)) = Some (11, true) /\
  option_map (fun o => (o_ns o, o_warn o)) (r_open (mkW 11 3 93 11 true) (r_init (mkW 11 3 93 11 true) DCbin 9))
    = Some (11, false).
Proof. vm_compute. auto. Qed.

(* Transparency of the SHAPE when the meta file is wrong about the length
   (interrupted acquisition, chopped file), for either ignore_warnings:
   a freshly constructed Reader — on x.bin or on x.cbin — exposes the true
   sample count after open(), whatever count ns0 the meta file claims (longer,
   shorter or right); the size-mismatch warning is logged iff the claim is
   wrong and ignore_warnings is off.  So Reader(x.cbin).shape = Reader(x.bin).shape
   = (n, nc) for every ns0 and every flag (integer-level model; the float
   arithmetic of fileTimeSecs is the next theorem).                          *)
Theorem C02_shape_transparent_any_meta : forall w ns0,
  1 <= w_n w -> 1 <= w_nc w -> w_nch w = w_n w ->
  (exists ob, r_open w (r_init w DBin ns0) = Some ob /\ o_ns ob = w_n w /\ o_raw ob = RawMemmap /\
              o_warn ob = negb (ns0 =? w_n w) && negb (w_iw w)) /\
  (exists oc, r_open w (r_init w DCbin ns0) = Some oc /\ o_ns oc = w_n w /\ o_raw oc = RawMtscomp /\
              o_warn oc = negb (ns0 =? w_n w) && negb (w_iw w)).
Proof.
  intros w ns0 Hn Hc Hh. assert (Hw : wgood w) by (repeat split; assumption).
  destruct (r_open_any_meta w DBin ns0 Hw) as [ob [E1 [H1 [_ [H2 H3]]]]].
  destruct (r_open_any_meta w DCbin ns0 Hw) as [oc [E2 [H4 [_ [H5 H6]]]]].
  split; [exists ob|exists oc]; auto.
Qed.
Print Assumptions C02_shape_transparent_any_meta.

(* Joint with C11 (IBL.C11.Model.open_cbin / open_bin / ns_meta, Flocq binary64;
   IBL.C11.Proofs.open_cbin_exposes, open_offline_floor): for every fileTimeSecs
   value t in the meta file that Reader.ns can convert, every sampling rate in
   [2^-64, 2^64], n <= 2^50 frames and both values of ignore_warnings on either
   side, Reader(x.cbin).shape = Reader(x.bin).shape = (n, nc).               *)
Theorem C02_cbin_shape_eq_bin_shape : forall n nc t fs ns0 (iw_cbin iw_bin : bool),
  1 <= n <= 2 ^ 50 -> 1 <= nc -> IBL.C11.Proofs.fs_ok fs ->
  IBL.C11.Model.ns_meta (Some t) fs = IBL.C11.Model.NsOk ns0 ->
  reader_shape iw_cbin true n nc (Some t) fs = Some (n, nc) /\
  reader_shape iw_bin false n nc (Some t) fs = Some (n, nc).
Proof. exact cbin_shape_eq_bin_shape. Qed.
Print Assumptions C02_cbin_shape_eq_bin_shape.

(* hypotheses satisfiable (C11's examples): fs = 30000, a meta file claiming 22/30000 + 1.8324 s = 54994 samples
   for a 22-sample recording of 385 channels; both readers expose (22, 385) *)
Example cbin_shape_hyp_satisfiable :
  IBL.C11.Model.ns_meta (Some (IBL.C11.Model.of_me 8255698596920435 (-52))) (IBL.C11.Model.of_me 30000 0)
    = IBL.C11.Model.NsOk 54994 /\
  reader_shape true true 22 385 (Some (IBL.C11.Model.of_me 8255698596920435 (-52))) (IBL.C11.Model.of_me 30000 0)
    = Some (22, 385) /\
  reader_shape false false 22 385 (Some (IBL.C11.Model.of_me 8255698596920435 (-52))) (IBL.C11.Model.of_me 30000 0)
    = Some (22, 385).
Proof. vm_compute. auto. Qed.

(* What is still not refreshed: compress_file(keep_original=False) switches
   file_bin to x.cbin and keeps the size of x.bin in nbytes.  While the object
   points at x.cbin, and ever since aa7f63d, nothing reads nbytes; the next
   in-place decompression refreshes it — so nothing follows for shape, values
   or warnings; only the public attribute `nbytes` is the size of the wrong
   file in that state.  (After construction and after an in-place
   decompression nbytes IS the size of the file the object points at:
   r_init, r_decompress_inplace and the invariant above.)                    *)
Theorem C02_object_nbytes_stale_on_cbin :
  exists w f ops, 1 <= w_n w /\ 1 <= w_nc w /\ w_nch w = w_n w /\
    let o := s_obj (fst (last (r_run w (r_start w f (w_n w)) ops) (r_start w f (w_n w), false))) in
    o_file o = DCbin /\ o_nbytes o = fsize w DBin /\ o_nbytes o <> fsize w DCbin /\
    o_raw o = RawMtscomp /\ o_ns o = w_n w /\ o_warn o = false.
Proof.
  exists w_ex, DBin, [ROpen; RCompress false; ROpen].
  cbn zeta. repeat split; try (vm_compute; congruence).
Qed.
Print Assumptions C02_object_nbytes_stale_on_cbin.

(* ---------------------------------------------------------------------- *)
(* The exact truth about what is left of the former findings F-C02-b/c
   (repaired in 746882f), and about decompress_file.                        *)

(* a fault while the header is written leaves only temporaries: x.ch and
   x.cbin are as before (here: absent), x.ch_tmp truncated, x.cbin_tmp complete *)
Theorem C02_header_fault_leaves_temporaries :
  exists r c m B keep chk fs0 fault,
    fs0 PBin = Complete (Orig r) /\ fs0 PCh = Absent /\ fs0 PCbin = Absent /\
    let res := exec (compress_steps r c m B keep chk) fs0 fault in
    final_oc res = Raised /\ final_fs res PCh = Absent /\ final_fs res PCbin = Absent /\
    final_fs res PChTmp = Partial 0 /\ final_fs res PCbinTmp = Complete (Comp r c).
Proof.
  exists 1, 1, 2, 1, true, true, fs_bin_only, (Some 6%nat).
  cbn zeta. repeat split; try reflexivity; apply header_fault_witness.
Qed.
Print Assumptions C02_header_fault_leaves_temporaries.

(* two renames cannot be one atomic commit: a fault of the second rename
   itself, with an older pair of another chunking present, leaves the new
   complete x.ch next to the old complete x.cbin (new complete stream in
   x.cbin_tmp, x.bin intact).  Both final-named files are complete and the
   source is untouched, so the property's clause is met; by clause 4 of
   C02_compress_atomic this is the only state in which the pair disagrees. *)
Theorem C02_pair_commit_window :
  exists r c c' m B keep chk fs0 fault,
    c <> c' /\ fs0 PBin = Complete (Orig r) /\
    fs0 PCbin = Complete (Comp r c') /\ fs0 PCh = Complete (Hdr r c') /\
    let res := exec (compress_steps r c m B keep chk) fs0 fault in
    final_oc res = Raised /\
    final_fs res PCbin = Complete (Comp r c') /\ final_fs res PCh = Complete (Hdr r c) /\
    final_fs res PCbinTmp = Complete (Comp r c) /\ final_fs res PBin = Complete (Orig r).
Proof.
  exists 1, 1, 2, 2, 1, true, true, fs_bin_stale, (Some 9%nat).
  cbn zeta. repeat split; try reflexivity; try discriminate; apply between_renames_witness.
Qed.
Print Assumptions C02_pair_commit_window.

(* decompress_file itself writes under the final name (the property does not
   ask otherwise): a fault leaves a truncated x.bin next to the intact pair *)
Theorem C02_decompress_file_not_atomic :
  exists r c m B fs0 fault,
    fs0 PCbin = Complete (Comp r c) /\ fs0 PCh = Complete (Hdr r c) /\ fs0 PBin = Absent /\
    let res := exec (decompress_steps r c m B PBin true true true) fs0 fault in
    final_oc res = Raised /\ final_fs res PBin = Partial 1.
Proof.
  exists 1, 1, 2, 1, fs_cbin_only, (Some 5%nat).
  repeat (split; [reflexivity|]).
  destruct decompress_partial_witness as [H1 [H2 _]]. split; assumption.
Qed.
Print Assumptions C02_decompress_file_not_atomic.
