(* C02 — executable model of compression transparency / atomic publication in
   src/spikeglx.py (Reader.__init__, compress_file, decompress_file,
   decompress_to_scratch) and of the mtscomp 1.0.2 codec they delegate to
   (site-packages/mtscomp.py: Writer._compute_chunk_bounds, Writer._compress_chunk,
   Writer.write, Reader.read_chunk, Reader.tofile, decompress, check).
   Definitions only; proofs are in Proofs.v, property theorems in Props.v.

   Part A  resolve / open_outcome : which data file Reader.__init__ settles on
   Part B  a small file-system machine: step lists of the three procedures,
           executed with an optional injected fault
   Part C  the codec: chunk bounds, int16 time differences (wrapping),
           Fortran-order byte stream, abstract zip/unzip, wrapping cumsum *)
From Coq Require Import ZArith List Bool Lia.
From IBL.lib Require Import PyInt.
Import ListNotations.
Open Scope Z_scope.

(* ====================================================================== *)
(* Part A — Reader.__init__ file resolution (spikeglx.py lines 78-94, 134) *)
(* ====================================================================== *)

(* the path handed to Reader(...): x.bin, x.cbin or x.meta *)
Inductive entry := EBin | ECbin | EMeta.
(* the data file the reader settles on (self.file_bin) *)
Inductive dfile := DBin | DCbin.

(*  meta_file = meta_file or _get_companion_file(sglx_file, '.meta')
    if meta_file == sglx_file:                       # entry is the .meta
        self.file_bin = x.cbin if x.cbin.exists() else None
        if x.bin.exists(): self.file_bin = x.bin
    else:
        self.file_bin = sglx_file                                          *)
Definition resolve (eb ec : bool) (e : entry) : option dfile :=
  match e with
  | EMeta => let f := if ec then Some DCbin else None in
             if eb then Some DBin else f
  | EBin => Some DBin
  | ECbin => Some DCbin
  end.

Definition dfile_exists (eb ec : bool) (f : dfile) : bool :=
  match f with DBin => eb | DCbin => ec end.

(* What the constructor (open=True) ends in.  The caller supplies nc/ns/fs when
   there is no .meta (flat-binary mode), as the harness does. *)
Inductive opened :=
| OpenedBin        (* memmap on x.bin *)
| OpenedCbin       (* mtscomp.Reader on x.cbin + x.ch *)
| Unopened         (* no exception, file_bin is None, nothing opened *)
| ErrNotFound      (* FileNotFoundError: stat() of a missing data file, or missing .ch *)
| ErrNoFile.       (* AttributeError: None.stat() in the no-meta branch *)

(*  self.nbytes = self.file_bin.stat().st_size if self.file_bin else None
    if not meta_file.exists(): ... self.file_bin.stat() ...
    if open and self.file_bin: self.open()   -> cbin needs its .ch companion *)
Definition open_outcome (eb ec em ech : bool) (e : entry) : opened :=
  match resolve eb ec e with
  | None => if em then Unopened else ErrNoFile
  | Some f =>
      if negb (dfile_exists eb ec f) then ErrNotFound
      else match f with
           | DBin => OpenedBin
           | DCbin => if ech then OpenedCbin else ErrNotFound
           end
  end.

(* Reader.__init__ without a meta file and without nc/ns given: the channel count
   is guessed from the file size (int16):
     if   st_size / 384 % 2 == 0: nc = 384; ns = st_size / 2 / 384; fs = 30000
     elif st_size / 385 % 2 == 0: nc = 385; ns = st_size / 2 / 385; fs = 30000; nsync = 1
     else: AssertionError (nc, fs must be given)
   (float division; `x / 384 % 2 == 0` holds exactly when 768 divides st_size).
   Result: (nc, ns, nsync), None = the assertion fails. *)
Definition flat_guess (size : Z) : option (Z * Z * Z) :=
  if size mod 768 =? 0 then Some (384, size / 768, 0)
  else if size mod 770 =? 0 then Some (385, size / 770, 1)
  else None.

(* ====================================================================== *)
(* Part B — file-system machine                                            *)
(* ====================================================================== *)

(* Files of one recording x in its folder, plus the scratch copies
   (PChTmp was added last so that the codes of the others did not move). *)
Inductive path :=
| PBin        (* x.bin *)
| PCbin       (* x.cbin *)
| PCbinTmp    (* x.cbin_tmp   (compress_file: file_tmp) *)
| PCh         (* x.ch *)
| PMeta       (* x.meta *)
| PBinTmp     (* x.bin_temp   (decompress_to_scratch, scratch_dir=None) *)
| PSBin       (* scratch/x.bin *)
| PSBinTmp    (* scratch/x.bin_temp *)
| PSMeta      (* scratch/x.meta *)
| PChTmp.     (* x.ch_tmp     (compress_file: ch_tmp, since 746882f) *)

Definition path_code (p : path) : Z :=
  match p with PBin => 0 | PCbin => 1 | PCbinTmp => 2 | PCh => 3 | PMeta => 4
             | PBinTmp => 5 | PSBin => 6 | PSBinTmp => 7 | PSMeta => 8 | PChTmp => 9 end.
Definition path_eqb (a b : path) : bool := path_code a =? path_code b.
Definition all_paths : list path :=
  [PBin; PCbin; PCbinTmp; PCh; PMeta; PBinTmp; PSBin; PSBinTmp; PSMeta; PChTmp].

(* Abstract content: r names a recording (its sample matrix), c a compression
   configuration (chunk size); two streams are interchangeable iff tags agree. *)
Inductive tag :=
| Orig (r : Z)            (* flat int16 binary of recording r *)
| Comp (r c : Z)          (* concatenated compressed chunks of r under config c *)
| Hdr (r c : Z)           (* the JSON header (.ch) of that stream *)
| MetaOf (r : Z).         (* SpikeGLX .meta of r *)

Definition tag_eqb (a b : tag) : bool :=
  match a, b with
  | Orig r, Orig r' => r =? r'
  | Comp r c, Comp r' c' => (r =? r') && (c =? c')
  | Hdr r c, Hdr r' c' => (r =? r') && (c =? c')
  | MetaOf r, MetaOf r' => r =? r'
  | _, _ => false
  end.

(* Partial j: a strict prefix holding the first j chunks of some stream. *)
Inductive fstate := Absent | Partial (j : Z) | Complete (t : tag).

Definition fsys := path -> fstate.
Definition upd (fs : fsys) (p : path) (v : fstate) : fsys :=
  fun q => if path_eqb q p then v else fs q.
Definition present (s : fstate) : bool :=
  match s with Absent => false | _ => true end.
Definition is_complete (s : fstate) (t : tag) : bool :=
  match s with Complete t' => tag_eqb t' t | _ => false end.

(* Atomic steps.  Every step that `fires` corresponds to one instrumented call
   of the real code and is a place where a fault can be injected (the call
   raises before having any effect). *)
Inductive step :=
| SReadOpen (p : path)            (* open(p,'r'/'rb')        : error if absent *)
| SRequireAbsent (p : path)       (* tofile(overwrite=False) : ValueError if present; not a call *)
| SUnlinkIfExists (p : path)      (* tofile(overwrite=True)  : out.unlink() only if out.exists() *)
| SOpenW (p : path)               (* open(p,'wb'/'w')        : create or truncate *)
| SCompute (k : Z)                (* zlib.compress / zlib.decompress of chunk k; no fs effect *)
| SAppend (p : path) (k : Z)      (* fb.write(chunk k) *)
| SClose (p : path) (t : tag)     (* normal exit of the `with open(...)` block; not a call *)
| SDump (p : path) (t : tag)      (* json.dump(cmeta, f) into the open header *)
| SVerify (a b d : path) (r c : Z)(* mtscomp.check: stream a + header b decode to data d *)
| SRename (a b : path)            (* Path.rename / shutil.move on one file system *)
| SUnlink (p : path)              (* Path.unlink: error if absent *)
| SCopy (a b : path).             (* shutil.copy: error if a absent *)

(* does the step show up as an instrumented call in this state? *)
Definition fires (fs : fsys) (s : step) : bool :=
  match s with
  | SRequireAbsent _ | SClose _ _ => false
  | SUnlinkIfExists p => present (fs p)
  | _ => true
  end.

(* effect; None = the call itself raises (FileNotFoundError, ValueError,
   AssertionError/RuntimeError of the integrity check) *)
Definition effect (fs : fsys) (s : step) : option fsys :=
  match s with
  | SReadOpen p => if present (fs p) then Some fs else None
  | SRequireAbsent p => if present (fs p) then None else Some fs
  | SUnlinkIfExists p => Some (upd fs p Absent)
  | SOpenW p => Some (upd fs p (Partial 0))
  | SCompute _ => Some fs
  | SAppend p k => Some (upd fs p (Partial (k + 1)))
  | SClose p t => Some (upd fs p (Complete t))
  | SDump p t => Some (upd fs p (Complete t))
  | SVerify a b d r c =>
      if is_complete (fs a) (Comp r c) && is_complete (fs b) (Hdr r c)
         && is_complete (fs d) (Orig r) then Some fs else None
  | SRename a b => if present (fs a) then Some (upd (upd fs b (fs a)) a Absent) else None
  | SUnlink p => if present (fs p) then Some (upd fs p Absent) else None
  | SCopy a b => if present (fs a) then Some (upd fs b (fs a)) else None
  end.

Inductive outcome :=
| Done          (* the procedure returned *)
| Raised        (* the injected fault propagated *)
| Failed.       (* a step raised by itself *)

(* exec steps fs fault : run the steps in order.  fault = Some n: the n-th
   firing step (0-based) raises instead of executing.  Returns the final file
   system, the outcome, and the trace of (state before, step) for every step
   that took effect, in execution order. *)
Fixpoint exec (l : list step) (fs : fsys) (fault : option nat)
  : fsys * outcome * list (fsys * step) :=
  match l with
  | [] => (fs, Done, [])
  | s :: l' =>
      let fr := fires fs s in
      match fr, fault with
      | true, Some O => (fs, Raised, [])
      | _, _ =>
          match effect fs s with
          | None => (fs, Failed, [])
          | Some fs' =>
              let fault' := match fr, fault with
                            | true, Some (S n) => Some n
                            | _, _ => fault end in
              let '(fsf, oc, tr) := exec l' fs' fault' in
              (fsf, oc, (fs, s) :: tr)
          end
      end
  end.

Definition final_fs (x : fsys * outcome * list (fsys * step)) : fsys := fst (fst x).
Definition final_oc (x : fsys * outcome * list (fsys * step)) : outcome := snd (fst x).
Definition final_tr (x : fsys * outcome * list (fsys * step)) : list (fsys * step) := snd x.

(* Chunks 0..m-1 are processed in batches of B (= n_threads): all chunks of a
   batch are (de)compressed (pool.map / list comprehension), then written in
   order (Writer.write / Reader.tofile inner loops). *)
Definition zseq (a : Z) (n : nat) : list Z := map (fun i => a + Z.of_nat i) (seq 0 n).
Definition batch_steps (p : path) (ks : list Z) : list step :=
  map SCompute ks ++ map (SAppend p) ks.
Definition batch_ids (m B i : Z) : list Z :=
  zseq (B * i) (Z.to_nat (Z.min (B * (i + 1)) m - B * i)).
Definition batches (p : path) (m B : Z) : list step :=
  flat_map (fun i => batch_steps p (batch_ids m B i)) (zseq 0 (Z.to_nat (cdiv m B))).

(* Reader.compress_file(keep_original, check_after_compress=chk, n_threads=B)  (tree at 746882f):
     file_tmp = x.cbin_tmp ; ch_tmp = x.ch_tmp
     mtscomp.compress(x.bin, out=file_tmp, outmeta=ch_tmp, ...)
        Writer.write: with open(out,'wb'): batches ...        (x.cbin_tmp grows)
                      with open(outmeta,'w'): json.dump       (x.ch_tmp)
                      if check_after_compress: check(data, out, outmeta)
     ch_tmp.rename(x.ch)
     file_tmp.rename(x.cbin)
     if not keep_original: x.bin.unlink()                                      *)
Definition compress_steps (r c m B : Z) (keep chk : bool) : list step :=
  [SOpenW PCbinTmp] ++ batches PCbinTmp m B ++
  [SClose PCbinTmp (Comp r c); SOpenW PChTmp; SDump PChTmp (Hdr r c)] ++
  (if chk then [SVerify PCbinTmp PChTmp PBin r c] else []) ++
  [SRename PChTmp PCh; SRename PCbinTmp PCbin] ++
  (if keep then [] else [SUnlink PBin]).

(* Reader.decompress_file(keep_original, out=out, overwrite=ow, check_after_decompress=chk):
     mtscomp.decompress(x.cbin, x.ch, out=out, overwrite=ow, ...)
        Reader.open: open(cmeta,'r'); open(cdata,'rb')
        Reader.tofile: exists/overwrite handling; with open(out,'wb'): batches
                       if check_after_decompress: check(decompressed, cdata, cmeta)
     if not keep_original: x.cbin.unlink(); x.ch.unlink()                      *)
Definition decompress_steps (r c m B : Z) (out : path) (keep chk ow : bool) : list step :=
  [SReadOpen PCh; SReadOpen PCbin;
   (if ow then SUnlinkIfExists out else SRequireAbsent out);
   SOpenW out] ++ batches out m B ++ [SClose out (Orig r)] ++
  (if chk then [SVerify PCbin PCh out r c] else []) ++
  (if keep then [] else [SUnlink PCbin; SUnlink PCh]).

(* Reader.decompress_to_scratch(scratch_dir):
     bin_file = x.bin (scratch_dir None) | scratch/x.bin (+ shutil.copy of the .meta)
     if not bin_file.exists():
         self.decompress_file(keep_original=True, out=bin_file.bin_temp,
                              check_after_decompress=False, overwrite=True)
         shutil.move(bin_file.bin_temp, bin_file)                              *)
Definition scratch_target (sd : bool) : path := if sd then PSBin else PBin.
Definition scratch_tmp (sd : bool) : path := if sd then PSBinTmp else PBinTmp.
Definition scratch_steps (fs : fsys) (r c m B : Z) (sd : bool) : list step :=
  (if sd then [SCopy PMeta PSMeta] else []) ++
  (if present (fs (scratch_target sd)) then []
   else decompress_steps r c m B (scratch_tmp sd) true false true ++
        [SRename (scratch_tmp sd) (scratch_target sd)]).

(* One call of a public procedure, for histories. *)
Inductive op :=
| OpCompress (c m B : Z) (keep chk : bool)
| OpDecompress (c m B : Z) (keep chk ow : bool)      (* out = x.bin *)
| OpScratch (c m B : Z) (sd : bool).

Definition op_steps (r : Z) (fs : fsys) (o : op) : list step :=
  match o with
  | OpCompress c m B keep chk => compress_steps r c m B keep chk
  | OpDecompress c m B keep chk ow => decompress_steps r c m B PBin keep chk ow
  | OpScratch c m B sd => scratch_steps fs r c m B sd
  end.

(* The reader the procedure is called on must have been opened: compress_file
   needs the flat binary of the recording, the two decompressions need a
   readable x.cbin/x.ch pair (Reader.open parses x.ch). *)
Definition op_enabled (r : Z) (fs : fsys) (o : op) : bool :=
  match o with
  | OpCompress _ _ _ _ _ => is_complete (fs PBin) (Orig r)
  | OpDecompress c _ _ _ _ _ | OpScratch c _ _ _ =>
      is_complete (fs PCbin) (Comp r c) && is_complete (fs PCh) (Hdr r c)
  end.

(* A history: each call may be hit by a fault; the next call starts from
   whatever the previous one left behind. *)
Fixpoint run_history (r : Z) (fs : fsys) (h : list (op * option nat)) : fsys :=
  match h with
  | [] => fs
  | (o, f) :: h' =>
      run_history r (if op_enabled r fs o then final_fs (exec (op_steps r fs o) fs f) else fs) h'
  end.

(* ====================================================================== *)
(* Part C — the codec                                                      *)
(* ====================================================================== *)

(* int16 wrap-around (NumPy int16 arithmetic / casting) *)
Definition wrap16 (z : Z) : Z := (z + 32768) mod 65536 - 32768.
Definition is_i16 (z : Z) : Prop := -32768 <= z < 32768.
Definition is_i16b (z : Z) : bool := (-32768 <=? z) && (z <? 32768).

(* Writer._compute_chunk_bounds:
     chunk_bounds = list(range(0, n_samples, chunk_size))
     if chunk_bounds[-1] < n_samples: chunk_bounds.append(n_samples)  *)
Definition chunk_bounds (n size : Z) : list Z :=
  map (fun k => k * size) (zseq 0 (Z.to_nat (cdiv n size))) ++ [n].
Definition n_chunks (n size : Z) : Z := cdiv n size.

(* diff_along_axis(chunk, 0) on one column: first value kept, then int16
   differences; cumsum_along_axis(.., 0): int16 running sum. *)
Fixpoint diff_from (prev : Z) (l : list Z) : list Z :=
  match l with
  | [] => []
  | x :: l' => wrap16 (x - prev) :: diff_from x l'
  end.
Definition diff1 (l : list Z) : list Z :=
  match l with [] => [] | x :: l' => x :: diff_from x l' end.
Fixpoint cumsum_from (acc : Z) (l : list Z) : list Z :=
  match l with
  | [] => []
  | d :: l' => let y := wrap16 (acc + d) in y :: cumsum_from y l'
  end.
Definition cumsum1 (l : list Z) : list Z :=
  match l with [] => [] | x :: l' => x :: cumsum_from x l' end.

(* a chunk is a list of rows (samples), each a list of nc int16 values *)
Definition column (rows : list (list Z)) (j : nat) : list Z :=
  map (fun row => nth j row 0) rows.
Definition transpose (ncols : nat) (rows : list (list Z)) : list (list Z) :=
  map (column rows) (seq 0 ncols).

(* little-endian two's-complement bytes of an int16 stream (ndarray.tobytes) *)
Fixpoint to_bytes (l : list Z) : list Z :=
  match l with
  | [] => []
  | x :: l' => let u := x mod 65536 in (u mod 256) :: (u / 256) :: to_bytes l'
  end.
(* np.frombuffer(buffer, int16) *)
Fixpoint from_bytes (b : list Z) : list Z :=
  match b with
  | lo :: hi :: b' => wrap16 (lo + 256 * hi) :: from_bytes b'
  | _ => []
  end.

(* split a flat list into `cnt` consecutive pieces of length len (reshape order='F') *)
Fixpoint pieces (cnt len : nat) (l : list Z) : list (list Z) :=
  match cnt with
  | O => []
  | S c => firstn len l :: pieces c len (skipn len l)
  end.

(* Writer._compress_chunk: chunkd = diff along time; chunkd.tobytes(order='F')
   (column after column); zlib.compress.  zip is a parameter. *)
Definition payload (nc : nat) (rows : list (list Z)) : list Z :=
  to_bytes (concat (map diff1 (transpose nc rows))).
Definition encode_chunk (zip : list Z -> list Z) (nc : nat) (rows : list (list Z)) : list Z :=
  zip (payload nc rows).

(* Reader.read_chunk: zlib.decompress; frombuffer; reshape((n, nc), order='F');
   cumsum along time. *)
Definition decode_payload (n nc : nat) (b : list Z) : list (list Z) :=
  transpose n (map cumsum1 (pieces nc n (from_bytes b))).
Definition decode_chunk (unzip : list Z -> list Z) (n nc : nat) (b : list Z) : list (list Z) :=
  decode_payload n nc (unzip b).

(* the rows of the file cut at the chunk bounds: data[i0:i1] for successive bounds *)
Fixpoint split_rows (fuel : nat) (size : nat) (rows : list (list Z)) : list (list (list Z)) :=
  match fuel with
  | O => []
  | S f => match rows with
           | [] => []
           | _ => firstn size rows :: split_rows f size (skipn size rows)
           end
  end.
Definition file_chunks (size : Z) (rows : list (list Z)) : list (list (list Z)) :=
  split_rows (length rows) (Z.to_nat size) rows.

(* whole file: the list of compressed chunks, and back *)
Definition encode_file (zip : list Z -> list Z) (nc : nat) (size : Z) (rows : list (list Z))
  : list (nat * list Z) :=
  map (fun ch => (length ch, encode_chunk zip nc ch)) (file_chunks size rows).
Definition decode_file (unzip : list Z -> list Z) (nc : nat) (cs : list (nat * list Z))
  : list (list Z) :=
  concat (map (fun c => decode_chunk unzip (fst c) nc (snd c)) cs).

Definition rect (nc : nat) (rows : list (list Z)) : Prop :=
  Forall (fun row => length row = nc /\ Forall is_i16 row) rows.

(* ====================================================================== *)
(* Part D — the Reader OBJECT across in-place operations                   *)
(* ====================================================================== *)
(* Fields of a spikeglx.Reader that are computed once and then cached:
     file_bin            (switched by compress_file / decompress_file with keep_original=False)
     nbytes              (file_bin.stat().st_size at construction, refreshed by decompress_file(keep_original=False);
                          since aa7f63d a public attribute only: open() does not read it)
     meta.fileTimeSecs   (here as the sample count ns it implies; rewritten by open() on a mismatch)
     _raw                (np.memmap | mtscomp.Reader)
   Tree at 38d7b2f: decompress_file(keep_original=False) refreshes nbytes, resets _raw and
   re-opens the object if it was open; compress_file(keep_original=False) only switches file_bin. *)
Inductive rawk :=
| RawNone       (* never opened *)
| RawMemmap     (* np.memmap of x.bin (stays readable after x.bin was unlinked) *)
| RawMtscomp    (* open mtscomp.Reader on x.cbin *)
| RawClosed.    (* a closed reader still held in _raw (is_open True): no call of the current code produces it *)

Record robj := mkR {
  o_file : dfile; o_nbytes : Z; o_ns : Z; o_raw : rawk;
  o_warn : bool       (* the last open() logged "meta data and filesize do not checkout" / "...chunks dont checkout" *)
}.

(* the recording on disk: n samples, nc channels, x.cbin of zc bytes whose
   header announces nch samples; which of x.bin / x.cbin exist *)
(* w_iw: the constructor option ignore_warnings (it only silences the warning) *)
Record rworld := mkW { w_n : Z; w_nc : Z; w_zc : Z; w_nch : Z; w_iw : bool }.
Definition fsize (w : rworld) (f : dfile) : Z :=
  match f with DBin => 2 * w_n w * w_nc w | DCbin => w_zc w end.

(* Reader.__init__ (open=False part): nbytes = stat().st_size; ns from the meta file (= ns0) *)
Definition r_init (w : rworld) (f : dfile) (ns0 : Z) : robj :=
  mkR f (fsize w f) ns0 RawNone false.

(* Reader.open():
     cbin: _raw = mtscomp.Reader; if _raw.shape != (ns, nc): (warn unless ignore_warnings); fileTimeSecs = shape[0] / fs
     bin : if nc * ns * itemsize != file_bin.stat().st_size:      <- current size (aa7f63d; nbytes is not read)
               ftsec = file_bin.stat().st_size // (itemsize * nc) / fs
               warn; fileTimeSecs = ftsec
           _raw = np.memmap(shape=(ns, nc))   (ValueError when the file is shorter: None)  *)
Definition r_open (w : rworld) (o : robj) : option robj :=
  match o_file o with
  | DCbin =>
      if w_nch w =? o_ns o then Some (mkR DCbin (o_nbytes o) (o_ns o) RawMtscomp false)
      else Some (mkR DCbin (o_nbytes o) (w_nch w) RawMtscomp (negb (w_iw w)))
  | DBin =>
      let mism := negb (w_nc w * o_ns o * 2 =? fsize w DBin) in
      let ns' := if mism then fsize w DBin / (2 * w_nc w) else o_ns o in
      if (0 <? ns') && (ns' * w_nc w * 2 <=? fsize w DBin)
      then Some (mkR DBin (o_nbytes o) ns' RawMemmap (mism && negb (w_iw w)))
      else None
  end.

(* Reader(file, nc=, ns=, fs=) WITHOUT a meta file (tree at 3b02450): both branches of open() leave the
   announced sample count alone (`... and self.meta is not None`); the .bin branch maps ns*nc*2 bytes
   (np.memmap raises ValueError beyond the file), the .cbin branch opens whatever ns says.
   Result: the exposed sample count, None = ValueError. *)
Definition r_open_nometa (w : rworld) (f : dfile) (ns : Z) : option Z :=
  match f with
  | DBin => if (0 <? ns) && (ns * w_nc w * 2 <=? fsize w DBin) then Some ns else None
  | DCbin => Some ns
  end.

Inductive rop :=
| RNop                          (* Reader(..., open=False): construction only *)
| ROpen
| RCompress (keep : bool)       (* compress_file(keep_original=keep) *)
| RDecompress (keep : bool)     (* decompress_file(keep_original=keep, overwrite=True) *)
| RScratch (sd : bool).         (* decompress_to_scratch(scratch_dir) : sd = a scratch directory is given / None *)

(* object + which data files exist: x.bin, x.cbin, scratch/x.bin *)
Record rstate := mkS { s_obj : robj; s_eb : bool; s_ec : bool; s_sb : bool }.

(* decompress_file(keep_original=False), after the files were switched:
     was_open = self.is_open; self.close(); ...; self.file_bin = out
     self.nbytes = Path(self.file_bin).stat().st_size; self._raw = None
     if was_open: self.open()
   Returns the new object and whether that open() raised. *)
Definition r_decompress_inplace (w : rworld) (o : robj) : robj * bool :=
  let o1 := mkR DBin (fsize w DBin) (o_ns o) RawNone (o_warn o) in
  match o_raw o with
  | RawNone => (o1, false)
  | _ => match r_open w o1 with Some o2 => (o2, false) | None => (o1, true) end
  end.

(* one call on the object; the bool says that the call raised (AssertionError of
   the is_mtscomp guards — object unchanged —, ValueError of np.memmap) *)
Definition r_step (w : rworld) (s : rstate) (op : rop) : rstate * bool :=
  let o := s_obj s in
  match op, o_file o with
  | RNop, _ => (s, false)
  | ROpen, _ =>
      match r_open w o with Some o' => (mkS o' (s_eb s) (s_ec s) (s_sb s), false) | None => (s, true) end
  | RCompress keep, DBin =>
      (* keep_original=False: self.file_bin = x.cbin and nothing else (nbytes, _raw stay) *)
      (mkS (if keep then o else mkR DCbin (o_nbytes o) (o_ns o) (o_raw o) (o_warn o)) keep true (s_sb s), false)
  | RCompress _, DCbin => (s, true)
  | RDecompress true, DCbin => (mkS o true true (s_sb s), false)
  | RDecompress false, DCbin =>
      let r := r_decompress_inplace w o in (mkS (fst r) true false (s_sb s), snd r)
  | RDecompress _, DBin => (s, true)
  (* decompress_to_scratch: bin_file = scratch/x.bin | x.bin; only `if not bin_file.exists()` leads to
     decompress_file (whose is_mtscomp guard fails on an object pointing at x.bin); the object never changes *)
  | RScratch true, DCbin => (mkS o (s_eb s) (s_ec s) true, false)
  | RScratch true, DBin => (s, negb (s_sb s))
  | RScratch false, DCbin => (mkS o true (s_ec s) (s_sb s), false)
  | RScratch false, DBin => (s, false)          (* bin_file is the object's own file: it exists *)
  end.

Fixpoint r_run (w : rworld) (s : rstate) (ops : list rop) : list (rstate * bool) :=
  match ops with
  | [] => []
  | op :: ops' => let r := r_step w s op in r :: r_run w (fst r) ops'
  end.

Definition r_start (w : rworld) (f : dfile) (ns0 : Z) : rstate :=
  mkS (r_init w f ns0) (match f with DBin => true | DCbin => false end)
      (match f with DBin => false | DCbin => true end) false.

(* ====================================================================== *)
(* Part E — the compressed file as bytes + the .ch table; chunk-wise reads *)
(* ====================================================================== *)
(* Writer.write: the chunks are written one after the other into x.cbin and
   chunk_offsets = [0, len(c0), len(c0)+len(c1), ...] goes into x.ch next to
   chunk_bounds. *)
Fixpoint offsets_from (acc : Z) (lens : list Z) : list Z :=
  acc :: match lens with [] => [] | l :: t => offsets_from (acc + l) t end.
Definition cbin_chunks (zip : list Z -> list Z) (nc : nat) (size : Z) (rows : list (list Z))
  : list (list Z) := map snd (encode_file zip nc size rows).
Definition cbin_stream zip nc size rows : list Z := concat (cbin_chunks zip nc size rows).
Definition chunk_offsets zip nc size rows : list Z :=
  offsets_from 0 (map (fun c => Z.of_nat (length c)) (cbin_chunks zip nc size rows)).

(* os.pread(fd, length, start) *)
Definition zslice (l : list Z) (a b : Z) : list Z :=
  firstn (Z.to_nat (b - a)) (skipn (Z.to_nat a) l).

(* mtscomp.Reader.read_chunk(k, chunk_offsets[k], chunk_offsets[k+1]-chunk_offsets[k]):
   pread, zlib.decompress, reshape to (chunk_bounds[k+1]-chunk_bounds[k], nc) order 'F', cumsum *)
Definition read_chunk (unzip : list Z -> list Z) (nc : nat) (stream offsets bounds : list Z) (k : nat)
  : list (list Z) :=
  decode_chunk unzip (Z.to_nat (nth (S k) bounds 0 - nth k bounds 0)) nc
    (zslice stream (nth k offsets 0) (nth (S k) offsets 0)).

(* ====================================================================== *)
(* Part F — file names: pathlib's with_suffix and the names compress_file publishes *)
(* ====================================================================== *)
(* A file name is a list of character codes; 46 is '.'.
   PurePath.suffix: i = name.rfind('.'); the suffix is name[i:] if 0 < i < len(name) - 1, else ''.
   PurePath.with_suffix(s): name[:-len(suffix)] + s   (name + s when there is no suffix). *)
Definition dot : Z := 46.

(* split at the last '.': Some (before, after) — None if there is no '.' *)
Fixpoint split_last_dot (name : list Z) : option (list Z * list Z) :=
  match name with
  | [] => None
  | c :: rest =>
      match split_last_dot rest with
      | Some (a, b) => Some (c :: a, b)
      | None => if c =? dot then Some ([], rest) else None
      end
  end.

Definition name_stem (name : list Z) : list Z :=
  match split_last_dot name with
  | Some (a, b) => match a, b with
                   | [], _ | _, [] => name          (* leading dot / trailing dot: no suffix *)
                   | _, _ => a
                   end
  | None => name
  end.

(* with_suffix(name, "." ++ ext) *)
Definition with_suffix (name ext : list Z) : list Z := name_stem name ++ dot :: ext.

(* compress_file (tree at 746882f..4667666), for the source name x:
     file_tmp = x.with_suffix(".cbin_tmp"); ch_tmp = x.with_suffix(".ch_tmp")
     ch_tmp.rename(x.with_suffix(".ch")); file_tmp.rename(file_tmp.with_suffix(".cbin"))
   ext arguments are the character codes of cbin_tmp, ch_tmp, cbin, ch *)
Definition published_names (x e_cbin_tmp e_ch_tmp e_cbin e_ch : list Z)
  : list Z * list Z * list Z * list Z :=
  let file_tmp := with_suffix x e_cbin_tmp in
  let ch_tmp := with_suffix x e_ch_tmp in
  (file_tmp, ch_tmp, with_suffix file_tmp e_cbin, with_suffix x e_ch).
