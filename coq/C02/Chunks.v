(* C02 — chunk-wise reads: the .ch table (chunk_bounds, chunk_offsets) addresses
   the chunks of the byte stream, every chunk decodes to its rows of the
   recording, and a sample slice read through mtscomp.Reader.__getitem__
   (C01's model of it, IBL.C01.Model.mts_slice / chunks_for_interval) returns
   exactly the rows Python's slice selects.  Joint with C01. *)
From Coq Require Import ZArith List Bool Lia.
From IBL.lib Require Import PyInt.
From IBL.C02 Require Import Model Proofs.
From IBL.C01 Require Model Proofs.
Import ListNotations.
Open Scope Z_scope.

Module M1 := IBL.C01.Model.
Module P1 := IBL.C01.Proofs.

(* ---- the offsets table addresses the chunks of the stream ---------------- *)
Definition lens (cs : list (list Z)) : list Z := map (fun c => Z.of_nat (length c)) cs.
Definition sumlen (cs : list (list Z)) : Z := Z.of_nat (length (concat cs)).

Lemma sumlen_cons c cs : sumlen (c :: cs) = Z.of_nat (length c) + sumlen cs.
Proof. unfold sumlen. cbn. rewrite app_length. lia. Qed.

Lemma offsets_nth cs : forall k acc, (k <= length cs)%nat ->
  nth k (offsets_from acc (lens cs)) 0 = acc + sumlen (firstn k cs).
Proof.
  induction cs as [|c cs IH]; intros k acc Hk.
  - destruct k; [cbn; unfold sumlen; cbn; lia|cbn in Hk; lia].
  - destruct k as [|k]; [cbn; unfold sumlen; cbn; lia|].
    cbn [lens map offsets_from nth firstn]. fold (lens cs).
    rewrite IH by (cbn in Hk; lia). rewrite sumlen_cons. lia.
Qed.

Lemma slice_concat cs : forall k, (k < length cs)%nat ->
  zslice (concat cs) (sumlen (firstn k cs)) (sumlen (firstn (S k) cs)) = nth k cs [].
Proof.
  induction cs as [|c cs IH]; intros k Hk; [cbn in Hk; lia|].
  destruct k as [|k].
  - unfold zslice, sumlen. cbn [firstn concat length]. rewrite app_nil_r.
    rewrite ?Z.sub_0_r, ?Nat2Z.id. change (Z.to_nat (Z.of_nat 0)) with 0%nat. cbn [skipn nth].
    rewrite firstn_app, Nat.sub_diag, firstn_all. cbn. now rewrite app_nil_r.
  - change (firstn (S k) (c :: cs)) with (c :: firstn k cs).
    change (firstn (S (S k)) (c :: cs)) with (c :: firstn (S k) cs).
    change (nth (S k) (c :: cs) []) with (nth k cs []).
    rewrite !sumlen_cons. unfold zslice.
    replace (Z.of_nat (length c) + sumlen (firstn (S k) cs) - (Z.of_nat (length c) + sumlen (firstn k cs)))
      with (sumlen (firstn (S k) cs) - sumlen (firstn k cs)) by lia.
    assert (Hs : 0 <= sumlen (firstn k cs)) by (unfold sumlen; lia).
    replace (Z.to_nat (Z.of_nat (length c) + sumlen (firstn k cs)))
      with (length c + Z.to_nat (sumlen (firstn k cs)))%nat by lia.
    cbn [concat]. rewrite <- skipn_add, skipn_app, skipn_all, Nat.sub_diag. cbn [skipn app].
    apply (IH k). cbn in Hk. lia.
Qed.

(* ---- number and length of the chunks ------------------------------------- *)
Lemma split_rows_lt size k : forall fuel (rows : list (list Z)), (0 < size)%nat ->
  (length rows <= fuel)%nat -> (k * size < length rows)%nat ->
  (k < length (split_rows fuel size rows))%nat.
Proof.
  induction k as [|k IH]; intros fuel rows Hs Hf Hk.
  - destruct fuel; [lia|]. destruct rows; [cbn in Hk; lia|]. cbn. lia.
  - destruct fuel as [|f]; [lia|]. destruct rows as [|a rows]; [cbn in Hk; lia|].
    cbn [split_rows length]. apply (proj1 (Nat.succ_lt_mono _ _)). apply IH; [exact Hs| |]; rewrite skipn_length;
      cbn [length Nat.mul] in *; lia.
Qed.

Lemma chunk_len size k (rows : list (list Z)) :
  length (firstn size (skipn (k * size) rows)) = Nat.min size (length rows - k * size).
Proof. now rewrite firstn_length, skipn_length. Qed.

(* chunk k, as the reader gets it from the bytes and the table, is rows[k*size : (k+1)*size] *)
Lemma read_chunk_is_slice (zip unzip : list Z -> list Z) nc size (rows : list (list Z)) k :
  (forall b, unzip (zip b) = b) -> (0 < size)%nat -> rect nc rows -> (k * size < length rows)%nat ->
  let sz := Z.of_nat size in
  read_chunk unzip nc (cbin_stream zip nc sz rows) (chunk_offsets zip nc sz rows)
             (chunk_bounds (Z.of_nat (length rows)) sz) k
  = firstn size (skipn (k * size) rows).
Proof.
  intros Hz Hs Hr Hk sz.
  unfold read_chunk, cbin_stream, chunk_offsets, cbin_chunks, encode_file, file_chunks.
  subst sz. rewrite !Nat2Z.id. set (sz := Z.of_nat size).
  set (n := Z.of_nat (length rows)).
  assert (Hn : 1 <= n) by (unfold n; lia).
  assert (Hsz : 1 <= sz) by (unfold sz; lia).
  destruct (chunk_bounds_spec n sz Hn Hsz) as [Hm1 [Hlen [Hnth [Hlast Hmm]]]].
  cbn zeta in *. set (m := n_chunks n sz) in *.
  assert (Hkm : Z.of_nat k < m).
  { assert (Z.of_nat k * sz < n) by (unfold sz, n; nia). nia. }
  set (chs := split_rows (length rows) size rows).
  assert (Hkl : (k < length chs)%nat) by (apply split_rows_lt; [exact Hs|apply Nat.le_refl|exact Hk]).
  assert (Hch : nth k chs [] = firstn size (skipn (k * size) rows))
    by (apply split_rows_nth; [exact Hs|apply Nat.le_refl|exact Hk]).
  rewrite map_map. cbn [snd].
  set (cs := map (fun x => encode_chunk zip nc x) chs).
  assert (Hcl : length cs = length chs) by (unfold cs; apply map_length).
  fold (lens cs).
  rewrite !offsets_nth by lia. rewrite !Z.add_0_l.
  rewrite slice_concat by lia.
  assert (Hck : nth k cs [] = encode_chunk zip nc (nth k chs [])).
  { unfold cs. rewrite (nth_indep _ [] (encode_chunk zip nc [])) by (rewrite map_length; lia).
    apply (map_nth (fun x => encode_chunk zip nc x)). }
  rewrite Hck, Hch.
  (* the bounds give the chunk length *)
  assert (Hbk : nth k (chunk_bounds n sz) 0 = Z.of_nat k * sz).
  { rewrite <- (Nat2Z.id k) at 1. apply Hnth. lia. }
  assert (Hbk1 : nth (S k) (chunk_bounds n sz) 0 =
                 Z.of_nat (k * size + length (firstn size (skipn (k * size) rows)))).
  { rewrite chunk_len.
    destruct (Z.eq_dec (Z.of_nat k + 1) m) as [E|E].
    - replace (S k) with (Z.to_nat m) by lia. rewrite Hlast. unfold n, sz in *. nia.
    - replace (S k) with (Z.to_nat (Z.of_nat k + 1)) by lia. rewrite Hnth by lia.
      assert ((Z.of_nat k + 1) * sz <= (m - 1) * sz) by nia.
      unfold n, sz in *. nia. }
  rewrite Hbk, Hbk1.
  replace (Z.to_nat (Z.of_nat (k * size + length (firstn size (skipn (k * size) rows))) - Z.of_nat k * sz))
    with (length (firstn size (skipn (k * size) rows))) by (unfold sz; nia).
  apply chunk_roundtrip; [exact Hz|].
  unfold rect in *. apply Forall_forall. intros x Hx. rewrite Forall_forall in Hr.
  apply Hr. eapply in_skipn, in_firstn, Hx.
Qed.

(* ---- joint with C01: a sample slice read through the chunks --------------- *)
(* mtscomp.Reader.__getitem__(slice) on VALUES: literally C01's mts_slice
   (which works on row positions), with chunk k given by `chunk k`. *)
Definition mts_read_rows {T} (chunk : Z -> list T) (bounds : list Z) (n : Z)
           (start stop step : option Z) : M1.res (list T) :=
  let i0 := M1.validate_index n start 0 in
  let i1 := M1.validate_index n stop n in
  if i1 <=? i0 then M1.Ok []
  else
    let '(first, last) := M1.chunks_for_interval bounds n i0 i1 in
    let arr := flat_map chunk (M1.arith first 1 (Z.to_nat (last - first + 1))) in
    let a := i0 - M1.bound bounds first in
    let b := i1 - M1.bound bounds first in
    M1.bind (M1.np_index1 arr (M1.SSlice (Some a) (Some b) step)) (fun '(_, out) => M1.Ok out).

Lemma zget_map {S T} (g : S -> T) l p : M1.zget (map g l) p = option_map g (M1.zget l p).
Proof. unfold M1.zget. destruct (p <? 0); [reflexivity|apply nth_error_map]. Qed.

Lemma gather_map_values {S T} (g : S -> T) l ps :
  M1.gather (map g l) ps = option_map (map g) (M1.gather l ps).
Proof.
  unfold M1.gather. induction ps as [|p ps IH]; cbn; [reflexivity|].
  rewrite zget_map. destruct (M1.zget l p); cbn; [|reflexivity].
  rewrite IH. destruct (M1.mapM (M1.zget l) ps); reflexivity.
Qed.

Lemma np_index1_map {S T} (g : S -> T) l s :
  M1.np_index1 (map g l) s =
  match M1.np_index1 l s with M1.Ok (d, xs) => M1.Ok (d, map g xs) | M1.Err e => M1.Err e end.
Proof.
  unfold M1.np_index1, M1.zlen. rewrite map_length.
  destruct (M1.sel_positions (Z.of_nat (length l)) s) as [[d ps]|e]; cbn; [|reflexivity].
  rewrite gather_map_values. destruct (M1.gather l ps); reflexivity.
Qed.

Lemma flat_map_map_values {T} (g : Z -> T) (pos : Z -> list Z) (chunk : Z -> list T) ks :
  (forall k, In k ks -> chunk k = map g (pos k)) ->
  flat_map chunk ks = map g (flat_map pos ks).
Proof.
  induction ks as [|k ks IH]; intros H; cbn; [reflexivity|].
  rewrite map_app, (H k (or_introl eq_refl)), IH; [reflexivity|].
  intros k' Hk'. apply H. now right.
Qed.

(* If every chunk holds its rows of the recording, a slice with positive (or
   default) step read through the chunks is the rows at Python's slice indices. *)
Lemma mts_read_rows_eq {T} (g : Z -> T) (chunk : Z -> list T) bounds n a b c :
  P1.bounds_ok bounds n -> 1 <= n ->
  0 < match c with None => 1 | Some s => s end ->
  (forall k, 0 <= k -> k + 1 < M1.zlen bounds -> chunk k = map g (M1.chunk_positions bounds k)) ->
  exists l, M1.slice_indices n a b c = Some l /\
            mts_read_rows chunk bounds n a b c = M1.Ok (map g l).
Proof.
  intros Hok Hn Hst Hch.
  destruct (P1.mts_slice_pos bounds n a b c Hok Hn Hst) as [l [Hl Hm]].
  exists l. split; [exact Hl|].
  unfold mts_read_rows. unfold M1.mts_slice in Hm.
  set (i0 := M1.validate_index n a 0) in *. set (i1 := M1.validate_index n b n) in *.
  destruct (i1 <=? i0) eqn:Ecmp.
  - inversion Hm; subst. reflexivity.
  - apply Z.leb_gt in Ecmp.
    destruct (M1.chunks_for_interval bounds n i0 i1) as [first last] eqn:Ecf.
    assert (Hi0 : 0 <= i0) by (unfold i0, M1.validate_index, M1.clip; destruct a; lia).
    assert (Hi1 : i1 <= n) by (unfold i1, M1.validate_index, M1.clip; destruct b; lia).
    destruct (P1.chunks_facts bounds n i0 i1 first last Hok ltac:(lia) Hi1 Ecf) as [Hfl [Hlast _]].
    rewrite (flat_map_map_values g (M1.chunk_positions bounds) chunk).
    + rewrite np_index1_map.
      destruct (M1.np_index1 (flat_map (M1.chunk_positions bounds)
                 (M1.arith first 1 (Z.to_nat (last - first + 1)))) _) as [[d xs]|e]; cbn in Hm |- *.
      * inversion Hm; subst. reflexivity.
      * discriminate Hm.
    + intros k Hk. unfold M1.arith in Hk. apply in_map_iff in Hk. destruct Hk as [j [<- Hj]].
      apply in_zrange in Hj. apply Hch; lia.
Qed.

(* ---- the table written by mtscomp satisfies C01's hypothesis --------------- *)
Lemma zget_nth (l : list Z) k : 0 <= k < M1.zlen l -> M1.zget l k = Some (nth (Z.to_nat k) l 0).
Proof.
  intros H. unfold M1.zget, M1.zlen in *. destruct (k <? 0) eqn:E; [apply Z.ltb_lt in E; lia|].
  apply nth_error_nth'. lia.
Qed.

Lemma bound_nth (l : list Z) k : 0 <= k < M1.zlen l -> M1.bound l k = nth (Z.to_nat k) l 0.
Proof. intros H. unfold M1.bound. now rewrite zget_nth. Qed.

Lemma chunk_bounds_ok n sz : 1 <= n -> 1 <= sz ->
  P1.bounds_ok (chunk_bounds n sz) n /\ M1.zlen (chunk_bounds n sz) = n_chunks n sz + 1 /\
  (forall k, 0 <= k < n_chunks n sz -> M1.bound (chunk_bounds n sz) k = k * sz) /\
  M1.bound (chunk_bounds n sz) (n_chunks n sz) = n.
Proof.
  intros Hn Hs.
  destruct (chunk_bounds_spec n sz Hn Hs) as [Hm1 [Hlen [Hnth [Hlast Hmm]]]]. cbn zeta in *.
  set (bd := chunk_bounds n sz) in *. set (m := n_chunks n sz) in *.
  assert (Hz : M1.zlen bd = m + 1) by exact Hlen.
  assert (Hb : forall k, 0 <= k < m -> M1.bound bd k = k * sz).
  { intros k Hk. rewrite bound_nth by lia. apply Hnth, Hk. }
  assert (Hbm : M1.bound bd m = n) by (rewrite bound_nth by lia; exact Hlast).
  split; [|split; [exact Hz|split; [exact Hb|exact Hbm]]].
  unfold P1.bounds_ok. rewrite Hz. split; [lia|split; [|split]].
  - rewrite zget_nth by lia. rewrite (Hnth 0) by lia. reflexivity.
  - replace (m + 1 - 1) with m by lia. rewrite zget_nth by lia. now rewrite Hlast.
  - intros j Hj0 Hj1. destruct (Z.eq_dec (j + 1) m) as [E|E].
    + rewrite E, Hbm, Hb by lia. nia.
    + rewrite !Hb by lia. nia.
Qed.

Lemma skipn_cons_nth {T} (d : T) a : forall (rows : list T), (a < length rows)%nat ->
  skipn a rows = nth a rows d :: skipn (S a) rows.
Proof.
  induction a as [|a IH]; intros [|x rows] H; cbn in H; try lia; [reflexivity|].
  cbn [skipn nth]. apply IH. lia.
Qed.

Lemma firstn_skipn_seq {T} (d : T) (rows : list T) cnt : forall a, (a + cnt <= length rows)%nat ->
  firstn cnt (skipn a rows) = map (fun i => nth (a + i) rows d) (seq 0 cnt).
Proof.
  induction cnt as [|cnt IH]; intros a H; [reflexivity|].
  rewrite (skipn_cons_nth d a rows) by lia. cbn [firstn seq map].
  rewrite Nat.add_0_r. f_equal. rewrite IH by lia.
  rewrite <- seq_shift, map_map. apply map_ext. intros i. f_equal. lia.
Qed.

Lemma slice_as_gather {T} (d : T) (rows : list T) a cnt : (a + cnt <= length rows)%nat ->
  firstn cnt (skipn a rows) =
  map (fun p => nth (Z.to_nat p) rows d) (M1.arith (Z.of_nat a) 1 cnt).
Proof.
  intros H. rewrite (firstn_skipn_seq d) by exact H.
  unfold M1.arith, zrange. rewrite !map_map. apply map_ext. intros i. f_equal. lia.
Qed.

Lemma firstn_min_len {T} s (l : list T) : firstn s l = firstn (Nat.min s (length l)) l.
Proof.
  destruct (Nat.le_ge_cases s (length l)) as [H|H].
  - now rewrite Nat.min_l.
  - rewrite Nat.min_r by exact H. rewrite firstn_all. now apply firstn_all2.
Qed.

(* THE JOINT STATEMENT: bytes + table written by the encoder, read back chunk by
   chunk by mtscomp.Reader.__getitem__(slice(a, b, step)) *)
Lemma cbin_slice_read (zip unzip : list Z -> list Z) nc size (rows : list (list Z)) a b c :
  (forall x, unzip (zip x) = x) -> (0 < size)%nat -> (1 <= length rows)%nat -> rect nc rows ->
  0 < match c with None => 1 | Some s => s end ->
  let sz := Z.of_nat size in
  let n := Z.of_nat (length rows) in
  let bounds := chunk_bounds n sz in
  let chunk k := read_chunk unzip nc (cbin_stream zip nc sz rows) (chunk_offsets zip nc sz rows)
                            bounds (Z.to_nat k) in
  exists l, M1.slice_indices n a b c = Some l /\
    mts_read_rows chunk bounds n a b c = M1.Ok (map (fun p => nth (Z.to_nat p) rows []) l).
Proof.
  intros Hz Hs Hlen Hr Hst sz n bounds chunk.
  assert (Hn : 1 <= n) by (unfold n; lia).
  assert (Hsz : 1 <= sz) by (unfold sz; lia).
  destruct (chunk_bounds_ok n sz Hn Hsz) as [Hok [Hzl [Hb Hbm]]]. fold bounds in Hok, Hzl, Hb, Hbm.
  destruct (chunk_bounds_spec n sz Hn Hsz) as [Hm1 [_ [_ [_ Hmm]]]]. cbn zeta in Hm1, Hmm.
  set (m := n_chunks n sz) in *.
  apply mts_read_rows_eq; [exact Hok|exact Hn|exact Hst|].
  intros k Hk0 Hk1. rewrite Hzl in Hk1.
  assert (Hks : (Z.to_nat k * size < length rows)%nat).
  { assert (k * sz < n) by nia. unfold sz, n in *. nia. }
  unfold chunk. subst bounds n sz.
  rewrite (read_chunk_is_slice zip unzip nc size rows (Z.to_nat k) Hz Hs Hr Hks).
  unfold M1.chunk_positions.
  fold (Z.of_nat (length rows)). 
  set (n := Z.of_nat (length rows)) in *. set (sz := Z.of_nat size) in *.
  rewrite (Hb k) by lia.
  assert (Hnext : M1.bound (chunk_bounds n sz) (k + 1) - k * sz =
                  Z.of_nat (Nat.min size (length rows - Z.to_nat k * size))).
  { destruct (Z.eq_dec (k + 1) m) as [E|E].
    - rewrite E, Hbm. unfold n, sz in *. nia.
    - rewrite (Hb (k + 1)) by lia. assert ((k + 1) * sz <= (m - 1) * sz) by nia. unfold n, sz in *. nia. }
  rewrite Hnext, Nat2Z.id.
  rewrite (firstn_min_len size (skipn (Z.to_nat k * size) rows)), skipn_length.
  replace (k * sz) with (Z.of_nat (Z.to_nat k * size)) by (unfold sz; nia).
  apply slice_as_gather. lia.
Qed.
