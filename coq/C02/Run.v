(* C02 — flat-integer interface of the model for the correspondence check.

   kind 0 (resolution)  input : [0; eb; ec; em; ech; entry]      entry 0=.bin 1=.cbin 2=.meta
                        output: [file; outcome]                   file 0=None 1=.bin 2=.cbin
                                                                  outcome 1..5 = opened constructors
   kind 1 (procedures)  input : [1; op; r; c; m; B; keep; chk; ow; sd; fault] ++ 10 x [st; a; b; c]
                                op 0=compress_file 1=decompress_file 2=decompress_to_scratch
                                fault -1 = none, k = the k-th instrumented call raises
                        output: [outcome] ++ enc_list event ++ 10 x [st; a; b; c]
                                outcome 0=Done 1=Raised 2=Failed; event = [kind; x; y]
   kind 2 (codec)       input : [2; nc; ns; size] ++ ns*nc samples (row-major)
                        output: enc_zlist bounds ++ enc_list (enc_zlist payload_k)
                                ++ enc_zlist (decode (encode data)), zip = unzip = identity
   kind 3 (one Reader object)
                        input : [3; n; nc; zc; nch; ns0; f0; iw] ++ ops   f0 1=.bin 2=.cbin; iw = ignore_warnings;
                                op 0=open() (first op: construction with open=True), 7=construction with open=False,
                                1/2=compress_file keep/in place, 3/4=decompress_file keep/in place,
                                5=decompress_to_scratch(dir) 6=decompress_to_scratch(None)
                        output: [#ops] ++ per op [raised; file; nbytes; ns; raw; warned; bin exists; cbin exists; scratch bin exists]
                                ++ [file a fresh Reader(x.meta) would resolve to]
                                raw 0=None 1=memmap 2=mtscomp 3=closed
   kind 4 (meta-less flat binary, nothing given)
                        input : [4; size]          output: [nc; ns; nsync]  ([0;0;0] = AssertionError)
   kind 5 (meta-less reader, nc/ns/fs given)
                        input : [5; n; nc; ns; f]  f 1=.bin 2=.cbin     output: [1; exposed ns] or [0; 0] (ValueError)
   kind 6 (file names)  input : [6] ++ character codes of the source file name x
                        output: enc_zlist of x.cbin_tmp, x.ch_tmp, the published .cbin and .ch names
   state quadruple: [0;0;0;0] absent, [1;j;0;0] partial with j chunks,
                    [2;t;r;c] complete with tag t (1 Orig 2 Comp 3 Hdr 4 MetaOf). *)
From Coq Require Import ZArith List Bool.
From IBL.lib Require Import PyInt RunLib.
From IBL.C02 Require Import Model.
Import ListNotations.
Open Scope Z_scope.

Definition zb (z : Z) : bool := negb (z =? 0).

(* ---- kind 0 ---- *)
Definition dec_entry (z : Z) : entry :=
  if z =? 0 then EBin else if z =? 1 then ECbin else EMeta.
Definition enc_file (o : option dfile) : Z :=
  match o with None => 0 | Some DBin => 1 | Some DCbin => 2 end.
Definition enc_opened (o : opened) : Z :=
  match o with OpenedBin => 1 | OpenedCbin => 2 | Unopened => 3 | ErrNotFound => 4 | ErrNoFile => 5 end.

(* ---- kind 1 ---- *)
Definition dec_state (a b c d : Z) : fstate :=
  if a =? 0 then Absent
  else if a =? 1 then Partial b
  else Complete (if b =? 1 then Orig c else if b =? 2 then Comp c d
                 else if b =? 3 then Hdr c d else MetaOf c).
Definition enc_state (s : fstate) : list Z :=
  match s with
  | Absent => [0; 0; 0; 0]
  | Partial j => [1; j; 0; 0]
  | Complete (Orig r) => [2; 1; r; 0]
  | Complete (Comp r c) => [2; 2; r; c]
  | Complete (Hdr r c) => [2; 3; r; c]
  | Complete (MetaOf r) => [2; 4; r; 0]
  end.
Fixpoint dec_states (n : nat) (l : list Z) : list fstate :=
  match n, l with
  | S n', a :: b :: c :: d :: l' => dec_state a b c d :: dec_states n' l'
  | _, _ => []
  end.
Definition fs_of_list (l : list fstate) : fsys :=
  fun p => nth (Z.to_nat (path_code p)) l Absent.
Definition enc_fs (fs : fsys) : list Z := flat_map (fun p => enc_state (fs p)) all_paths.

Definition enc_event (e : fsys * step) : list Z :=
  let '(fs, s) := e in
  if fires fs s then
    match s with
    | SReadOpen p => [1; path_code p; 0]
    | SOpenW p => [2; path_code p; 0]
    | SCompute k => [3; k; 0]
    | SAppend p k => [4; path_code p; k]
    | SDump p _ => [5; path_code p; 0]
    | SVerify _ _ _ _ _ => [6; 0; 0]
    | SRename a b => [7; path_code a; path_code b]
    | SUnlink p | SUnlinkIfExists p => [8; path_code p; 0]
    | SCopy a b => [9; path_code a; path_code b]
    | _ => []
    end
  else [].
Definition enc_events (tr : list (fsys * step)) : list Z :=
  let ev := flat_map enc_event tr in
  (Z.of_nat (length ev) / 3) :: ev.
Definition enc_outcome (o : outcome) : Z :=
  match o with Done => 0 | Raised => 1 | Failed => 2 end.

Definition run_fs (opk r c m B keep chk ow sd fault : Z) (st : list Z) : list Z :=
  let fs := fs_of_list (dec_states 10 st) in
  let steps :=
    if opk =? 0 then compress_steps r c m B (zb keep) (zb chk)
    else if opk =? 1 then decompress_steps r c m B PBin (zb keep) (zb chk) (zb ow)
    else scratch_steps fs r c m B (zb sd) in
  let f := if fault <? 0 then None else Some (Z.to_nat fault) in
  let res := exec steps fs f in
  enc_outcome (final_oc res) :: enc_events (final_tr res) ++ enc_fs (final_fs res).

(* ---- kind 2 ---- *)
Fixpoint rows_of (ns : nat) (nc : nat) (l : list Z) : list (list Z) :=
  match ns with
  | O => []
  | S n => firstn nc l :: rows_of n nc (skipn nc l)
  end.
Definition idz (l : list Z) : list Z := l.

Definition run_codec (nc ns size : Z) (data : list Z) : list Z :=
  let ncn := Z.to_nat nc in
  let rows := rows_of (Z.to_nat ns) ncn data in
  let enc := encode_file idz ncn size rows in
  enc_zlist (chunk_bounds ns size)
  ++ enc_list (fun c => enc_zlist (snd c)) enc
  ++ enc_zlist (concat (decode_file idz ncn enc)).

(* ---- kind 3 ---- *)
Definition dec_rop (z : Z) : rop :=
  if z =? 0 then ROpen else if z =? 1 then RCompress true else if z =? 2 then RCompress false
  else if z =? 3 then RDecompress true else if z =? 4 then RDecompress false
  else if z =? 5 then RScratch true else if z =? 6 then RScratch false else RNop.
Definition enc_raw (k : rawk) : Z :=
  match k with RawNone => 0 | RawMemmap => 1 | RawMtscomp => 2 | RawClosed => 3 end.
Definition enc_rstate (x : rstate * bool) : list Z :=
  let '(s, e) := x in
  let o := s_obj s in
  [enc_bool e; enc_file (Some (o_file o)); o_nbytes o; o_ns o; enc_raw (o_raw o);
   enc_bool (o_warn o); enc_bool (s_eb s); enc_bool (s_ec s); enc_bool (s_sb s)].
Definition run_obj (n nc zc nch ns0 f0 iw : Z) (ops : list Z) : list Z :=
  let w := mkW n nc zc nch (zb iw) in
  let s0 := r_start w (if f0 =? 1 then DBin else DCbin) ns0 in
  let tr := r_run w s0 (map dec_rop ops) in
  let sf := last (map fst tr) s0 in
  Z.of_nat (length tr) :: flat_map enc_rstate tr ++ [enc_file (resolve (s_eb sf) (s_ec sf) EMeta)].

Definition run (inp : list Z) : list Z :=
  match inp with
  | [0; eb; ec; em; ech; e] =>
      [enc_file (resolve (zb eb) (zb ec) (dec_entry e));
       enc_opened (open_outcome (zb eb) (zb ec) (zb em) (zb ech) (dec_entry e))]
  | 1 :: opk :: r :: c :: m :: B :: keep :: chk :: ow :: sd :: fault :: st =>
      run_fs opk r c m B keep chk ow sd fault st
  | 2 :: nc :: ns :: size :: data => run_codec nc ns size data
  | 3 :: n :: nc :: zc :: nch :: ns0 :: f0 :: iw :: ops => run_obj n nc zc nch ns0 f0 iw ops
  | [5; n; nc; ns; f] =>
      match r_open_nometa (mkW n nc 0 n false) (if f =? 1 then DBin else DCbin) ns with
      | Some k => [1; k] | None => [0; 0] end
  | 6 :: name =>
      let '(a, b, c, d) := published_names name [99;98;105;110;95;116;109;112] [99;104;95;116;109;112]
                                           [99;98;105;110] [99;104] in
      enc_zlist a ++ enc_zlist b ++ enc_zlist c ++ enc_zlist d
  | [4; size] => match flat_guess size with Some (nc, ns, nsy) => [nc; ns; nsy] | None => [0; 0; 0] end
  | _ => [-999]
  end.

Definition mismatches := mismatches_of run.
