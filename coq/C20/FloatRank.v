(* C20 — the float64 expression int(rank * size / nc) of voltage.svd_denoise_npx equals the exact
   integer floor (the model's svd_rank), for all operands below 2^26.  Flocq: binary64 = radix 2,
   FLT_exp (-1074) 53, round to nearest even; Python's int / int is the correctly rounded quotient
   of the two integers, int() of a non-negative float is its floor. *)
From Coq Require Import ZArith Reals Lia Lra.
From Flocq Require Import Core.
Open Scope R_scope.

Definition fexp64 := FLT_exp (-1074) 53.
Definition rnd64 (x : R) : R := round radix2 fexp64 ZnearestE x.

Local Instance prec53 : Prec_gt_0 53. Proof. unfold Prec_gt_0. lia. Qed.
Local Instance valid64 : Valid_exp fexp64. Proof. apply FLT_exp_valid. exact prec53. Qed.

Lemma bpow_IZR (e : Z) : (0 <= e)%Z -> bpow radix2 e = IZR (2 ^ e).
Proof. intros He. rewrite <- (IZR_Zpower radix2 e He). reflexivity. Qed.

Lemma bpow_neg_IZR (e : Z) : (0 <= e)%Z -> bpow radix2 (- e) = / IZR (2 ^ e).
Proof. intros He. rewrite bpow_opp, (bpow_IZR e He). reflexivity. Qed.

Lemma int_format (q : Z) : (Z.abs q < 2 ^ 53)%Z -> generic_format radix2 fexp64 (IZR q).
Proof.
  intros H. replace (IZR q) with (F2R (Float radix2 q 0)) by (unfold F2R; simpl; ring).
  apply generic_format_F2R. intros Hq.
  assert (Hm : (mag radix2 (F2R (Float radix2 q 0)) <= 53)%Z).
  { apply mag_le_bpow.
    - apply F2R_neq_0. exact Hq.
    - unfold F2R. simpl. rewrite Rmult_1_r, <- abs_IZR. apply IZR_lt. exact H. }
  unfold cexp, fexp64, FLT_exp. lia.
Qed.

Theorem float_floor_div (a b : Z) : (0 <= a)%Z -> (0 < b < 2 ^ 26)%Z -> (a < 2 ^ 26 * b)%Z ->
  Zfloor (rnd64 (IZR a / IZR b)) = (a / b)%Z.
Proof.
  intros Ha Hb Hab.
  set (q := (a / b)%Z). set (r := (a mod b)%Z).
  assert (Hdm : a = (b * q + r)%Z) by (apply Z.div_mod; lia).
  assert (Hr : (0 <= r < b)%Z) by (apply Z.mod_pos_bound; lia).
  assert (Hq : (0 <= q < 2 ^ 26)%Z).
  { split; [apply Z.div_pos; lia | apply Z.div_lt_upper_bound; lia]. }
  assert (Hbpos : 0 < IZR b) by (apply IZR_lt; lia).
  assert (Hx : IZR a / IZR b = IZR q + IZR r / IZR b).
  { rewrite Hdm, plus_IZR, mult_IZR. field. lra. }
  assert (Hfq : generic_format radix2 fexp64 (IZR q)) by (apply int_format; lia).
  apply Zfloor_imp. rewrite plus_IZR. split.
  - (* q = round q <= round x *)
    rewrite <- (round_generic radix2 fexp64 ZnearestE (IZR q) Hfq). apply round_le; [exact valid64 | apply valid_rnd_N |].
    rewrite Hx. assert (0 <= IZR r / IZR b); [|lra].
    apply Rmult_le_pos; [apply IZR_le; lia | left; apply Rinv_0_lt_compat; exact Hbpos].
  - destruct (Z.eq_dec r 0) as [Hr0|Hr0].
    + (* exact quotient *)
      unfold rnd64. rewrite Hx, Hr0. replace (IZR q + 0 / IZR b) with (IZR q) by (field; lra).
      rewrite round_generic; [lra | apply valid_rnd_N | exact Hfq].
    + (* x <= q + 1 - 1/b and the rounding error is below 2^-27 < 1/b *)
      set (x := IZR a / IZR b) in *.
      assert (Hb26 : IZR b < IZR (2 ^ 26)) by (apply IZR_lt; lia).
      assert (Hinv : / IZR (2 ^ 26) < / IZR b).
      { apply Rinv_lt_contravar; [|exact Hb26]. apply Rmult_lt_0_compat; [exact Hbpos | apply IZR_lt; lia]. }
      assert (Hrb : IZR r / IZR b <= 1 - / IZR b).
      { assert (IZR r <= IZR b - 1) by (rewrite <- minus_IZR; apply IZR_le; lia).
        unfold Rdiv. replace (1 - / IZR b) with ((IZR b - 1) * / IZR b) by (field; lra).
        apply Rmult_le_compat_r; [left; apply Rinv_0_lt_compat; exact Hbpos | assumption]. }
      assert (Hr1 : / IZR b <= IZR r / IZR b).
      { unfold Rdiv. rewrite <- (Rmult_1_l (/ IZR b)) at 1.
        apply Rmult_le_compat_r; [left; apply Rinv_0_lt_compat; exact Hbpos | apply IZR_le; lia]. }
      assert (Hxpos : / IZR (2 ^ 26) < x) by (rewrite Hx; assert (0 <= IZR q) by (apply IZR_le; lia); lra).
      assert (Hxlt : x < IZR (2 ^ 26)).
      { rewrite Hx. assert (IZR q <= IZR (2 ^ 26) - 1) by (rewrite <- minus_IZR; apply IZR_le; lia).
        assert (0 < / IZR b) by (apply Rinv_0_lt_compat; exact Hbpos). lra. }
      assert (H26 : 0 < IZR (2 ^ 26)) by (apply IZR_lt; lia).
      assert (Hinv26 : 0 < / IZR (2 ^ 26)) by (apply Rinv_0_lt_compat; exact H26).
      pose proof (error_le_half_ulp radix2 fexp64 (fun z => negb (Z.even z)) x) as Herr.
      fold (ZnearestE) in Herr.
      assert (Hulp : ulp radix2 fexp64 x <= Rabs x * bpow radix2 (1 - 53)).
      { apply ulp_FLT_le. rewrite Rabs_pos_eq by lra.
        apply Rle_trans with (/ IZR (2 ^ 26)); [|lra].
        assert (E26 : bpow radix2 (-26) = / IZR (2 ^ 26)) by (apply (bpow_neg_IZR 26); lia).
        rewrite <- E26. apply bpow_le. lia. }
      rewrite Rabs_pos_eq in Hulp by lra.
      assert (Hb52 : bpow radix2 (1 - 53) = / IZR (2 ^ 52)).
      { apply (bpow_neg_IZR 52). lia. }
      rewrite Hb52 in Hulp.
      assert (Hprod : x * / IZR (2 ^ 52) < / IZR (2 ^ 26)).
      { replace (/ IZR (2 ^ 26)) with (IZR (2 ^ 26) * / IZR (2 ^ 52)).
        - apply Rmult_lt_compat_r; [apply Rinv_0_lt_compat, IZR_lt; lia | exact Hxlt].
        - replace (2 ^ 52)%Z with (2 ^ 26 * 2 ^ 26)%Z by reflexivity. rewrite mult_IZR. field. lra. }
      apply Rabs_le_inv in Herr. unfold rnd64. fold x.
      assert (round radix2 fexp64 ZnearestE x <= x + / 2 * (x * / IZR (2 ^ 52))) by lra.
      assert (0 < x * / IZR (2 ^ 52)).
      { apply Rmult_lt_0_compat; [lra | apply Rinv_0_lt_compat, IZR_lt; lia]. }
      rewrite Hx in *. lra.
Qed.
