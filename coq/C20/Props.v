(* C20 — property theorems.  Only statements closed by `exact <lemma>` (or a short
   wrapper), each followed by Print Assumptions; Examples show that hypotheses are
   satisfiable and record concrete behaviour of the faithful model. *)
From Coq Require Import ZArith List Bool Lia Sorted Field.
From IBL.lib Require Import PyInt.
From IBL.C20 Require Import Model Proofs FloatRank RankForms RankSweep.
From Coq Require Import Reals.
From Flocq Require Import Core.
Import ListNotations.
Open Scope Z_scope.

(* ---------------------------------------------------------------------------
   1. spikes_venn2 / spikes_venn3: for 2 or 3 sorters, ANY bin sizes, ANY positive
   chunk size and any spike trains (samples >= 0) on which the function returns,
   the result has 2^n - 1 counts and, for every sorter s, the counts of the regions
   whose key has a '1' at position s add up to the number of spikes of sorter s.
   (Hence no IndexError / wrap-around of pre_result[conds - 1] either.) *)
Theorem C20_venn_conserves :
  forall (P : vparams) (trains : list (list spike)) (res : list Z) (n s : Z),
  n = Z.of_nat (length trains) -> n = 2 \/ n = 3 -> 0 < v_chunk P ->
  (forall t sp, In t trains -> In sp t -> 0 <= fst sp) ->
  venn P trains = Some res -> 0 <= s < n ->
  Z.of_nat (length res) = 2 ^ n - 1 /\
  region_sum n s res = Z.of_nat (length (nth (Z.to_nat s) trains [])).
Proof. exact venn_conserves. Qed.
Print Assumptions C20_venn_conserves.

(* ... and the function does return (no exception) whenever no sorter is empty and every channel
   falls inside the channel bins: every sample of a chunk falls inside the sample bins. *)
Theorem C20_venn_total : forall (P : vparams) (trains : list (list spike)),
  0 < v_xbin P -> 0 < v_chunk P -> (forall t, In t trains -> t <> []) ->
  (forall t sp, In t trains -> In sp t -> 0 <= snd sp / v_ybin P < v_ny P) ->
  exists res, venn P trains = Some res.
Proof. exact venn_total. Qed.
Print Assumptions C20_venn_total.

(* the hypotheses are satisfiable, several chunks, non-trivial result: {'01':1,'10':2,'11':3} *)
Example venn_example :
  venn {| v_xbin := 4; v_ybin := 2; v_nchan := 8; v_chunk := 10 |}
       [[(0,0); (5,1); (13,2); (13,2); (40,3)]; [(1,0); (5,0); (13,2); (14,2)]] = Some [1; 2; 3].
Proof. vm_compute. reflexivity. Qed.
(* region counts themselves DO depend on an unaligned chunk size (bins are relative to the
   chunk start); only the per-sorter sums are invariant *)
Example venn_unaligned_chunking_changes_regions :
  venn {| v_xbin := 4; v_ybin := 2; v_nchan := 8; v_chunk := 100 |} [[(3,0)]; [(4,0)]] = Some [1; 1; 0] /\
  venn {| v_xbin := 4; v_ybin := 2; v_nchan := 8; v_chunk := 3 |} [[(3,0)]; [(4,0)]] = Some [0; 0; 1].
Proof. vm_compute. split; reflexivity. Qed.

(* Conservation for EVERY positive rational chunk size c = cn / cd (chunk_size passed as a float, or the default
   20 * fs with a non-integer rate): chunk k covers [k c, (k+1) c), these half-open intervals tile the line
   (in_chunk_q_unique: a sample lies in chunk k iff k = floor(s cd / cn)), and every spike is counted once. *)
Theorem C20_venn_conserves_rational_chunk :
  forall (xbin ybin nchan cn cd : Z) (trains : list (list spike)) (res : list Z) (n s : Z),
  n = Z.of_nat (length trains) -> n = 2 \/ n = 3 -> 0 < cn -> 0 < cd ->
  (forall t sp, In t trains -> In sp t -> 0 <= fst sp) ->
  venn_q xbin ybin nchan cn cd trains = Some res -> 0 <= s < n ->
  (forall k sp, in_chunk_q cn cd k sp = (k =? (fst sp * cd) / cn)) /\
  Z.of_nat (length res) = 2 ^ n - 1 /\
  region_sum n s res = Z.of_nat (length (nth (Z.to_nat s) trains [])).
Proof.
  intros xbin ybin nchan cn cd trains res n s Hlen Hn Hcn Hcd Hpos H Hs.
  split; [intros k sp; now apply in_chunk_q_unique|]. now apply (venn_q_conserves xbin ybin nchan cn cd trains res n s).
Qed.
Print Assumptions C20_venn_conserves_rational_chunk.

Example venn_rational_chunk_example :   (* chunk size 2.5: boundaries 2.5, 5, 7.5, 10; spikes on floor / ceil of them *)
  venn_q 2 1 4 5 2 [[(2,0); (3,0); (5,1); (7,2); (8,2); (10,3)]; [(2,0); (5,1); (10,3); (11,3)]] = Some [1; 3; 3].
Proof. vm_compute. reflexivity. Qed.

(* Whole-dictionary invariance: two chunk sizes that are both multiples of the time bin give the SAME
   region counts (not only the same per-sorter sums), for 2 or 3 sorters and any trains with samples >= 0.
   (For chunk sizes that are not multiples of the bin the counts may differ: example above.) *)
Theorem C20_venn_chunk_invariant_aligned :
  forall (xbin ybin nchan q1 q2 : Z) (trains : list (list spike)) (r1 r2 : list Z) (n : Z),
  0 < xbin -> 0 < q1 -> 0 < q2 -> 0 <= nscale nchan ybin ->
  n = Z.of_nat (length trains) -> n = 2 \/ n = 3 ->
  (forall t sp, In t trains -> In sp t -> 0 <= fst sp) ->
  venn {| v_xbin := xbin; v_ybin := ybin; v_nchan := nchan; v_chunk := q1 * xbin |} trains = Some r1 ->
  venn {| v_xbin := xbin; v_ybin := ybin; v_nchan := nchan; v_chunk := q2 * xbin |} trains = Some r2 ->
  r1 = r2.
Proof. exact venn_chunk_invariant_aligned. Qed.
Print Assumptions C20_venn_chunk_invariant_aligned.

Example venn_aligned_example :
  let tr := [[(0,0); (5,1); (13,2); (13,2); (40,3)]; [(1,0); (5,0); (13,2); (14,2)]] in
  venn {| v_xbin := 4; v_ybin := 2; v_nchan := 8; v_chunk := 1 * 4 |} tr = Some [0; 1; 4] /\
  venn {| v_xbin := 4; v_ybin := 2; v_nchan := 8; v_chunk := 5 * 4 |} tr = Some [0; 1; 4].
Proof. vm_compute. split; reflexivity. Qed.

(* ---------------------------------------------------------------------------
   2. voltage.stack: one row per distinct label, labels in strictly increasing
   order; row k is the aggregate of exactly the traces carrying label k (in their
   original order); fold = multiplicity > 0; folds add up to the trace count. *)
Theorem C20_stack_spec :
  forall (A B : Type) (agg : list A -> B) (data : list A) (word : list Z) st fold,
  length data = length word -> stack agg data word = (st, fold) ->
  let groups := uniq_sorted word in
  StronglySorted Z.lt groups /\ (forall g, In g groups <-> In g word) /\
  st = map (fun g => agg (select word data g)) groups /\
  fold = map (fun g => count_eq g word) groups /\
  (forall g, In g groups -> 0 < count_eq g word /\
             Z.of_nat (length (select word data g)) = count_eq g word) /\
  (forall g row, In row (select word data g) <->
                 exists k, nth_error word k = Some g /\ nth_error data k = Some row) /\
  zsum fold = Z.of_nat (length word).
Proof. intros A B. exact (@stack_spec A B). Qed.
Print Assumptions C20_stack_spec.

Example stack_example :
  stack (fun rows => rows) [10; 20; 30; 40] [5; 3; 5; 3] = ([[20; 40]; [10; 30]], [2; 2]).
Proof. vm_compute. reflexivity. Qed.

(* ... with a header dict: entry i of EVERY aggregated header vector is the aggregate over exactly the traces
   carrying the i-th smallest label — the same label as stacked row i and fold i (pandas groupby sorts). *)
Theorem C20_stack_header_spec :
  forall (A B H HB : Type) (agg : list A -> B) (hagg : list H -> HB)
         (data : list A) (hdrs : list (list H)) (word : list Z) st hs fold,
  stack_header agg hagg data hdrs word = (st, hs, fold) ->
  let groups := uniq_sorted word in
  stack agg data word = (st, fold) /\
  length hs = length hdrs /\
  forall (k i : nat) (dh : list H) (dhb : HB), (k < length hdrs)%nat -> (i < length groups)%nat ->
    length (nth k hs []) = length groups /\
    nth i (nth k hs []) dhb = hagg (select word (nth k hdrs dh) (nth i groups 0)) /\
    nth i fold 0 = count_eq (nth i groups 0) word.
Proof. intros A B H HB. exact (@stack_header_spec A B H HB). Qed.
Print Assumptions C20_stack_header_spec.

Example stack_header_example :   (* labels first appear in descending order *)
  stack_header (fun rows : list Z => zsum rows) (fun v : list Z => zsum v)
               [10; 20; 30; 40] [[1; 2; 3; 4]; [7; 7; 8; 9]] [5; 3; 5; 3]
  = ([60; 40], [[6; 4]; [16; 15]], [2; 2]).
Proof. vm_compute. reflexivity. Qed.

(* F-C20-b: the stacked array takes the dtype of the data, so for INTEGER traces and the default
   aggregate (nanmean) the rows are the means truncated towards zero, not the per-label means:
   traces [1] and [2] with one label stack to [1] (and [-3],[-4] to [-3]). *)
Theorem C20_stack_int_dtype_refuted :
  exists (data : list (list Z)) (word : list Z) (st : list (list Z)) (fold : list Z),
    stack_int_mean 1 data word = (st, fold) /\
    exists g row, In g (uniq_sorted word) /\ nth_error st 0 = Some row /\
      hd 0 row * count_eq g word <> hd 0 (col_sums 1 (select word data g)).
Proof.
  exists [[1]; [2]], [0; 0], [[1]], [2]. split; [vm_compute; reflexivity|].
  exists 0, [1]. split; [vm_compute; auto|]. split; [reflexivity|]. vm_compute. discriminate.
Qed.
Print Assumptions C20_stack_int_dtype_refuted.

(* ---------------------------------------------------------------------------
   3. smooth.rolling_window keeps the length for EVERY window_len >= 3 (both
   parities; Python's round is half-to-even) and every input at least that long;
   every output combines exactly window_len input samples. *)
Theorem C20_rolling_keeps_length :
  forall (A : Type) (w : Z) (x : list A), 3 <= w <= Z.of_nat (length x) ->
  length (rolling_windows w x) = length x /\
  forall win, In win (rolling_windows w x) ->
    Z.of_nat (length win) = w /\ forall y, In y win -> In y x.
Proof. intros A. exact (@rolling_keeps_length A). Qed.
Print Assumptions C20_rolling_keeps_length.

(* ... and returns constants unchanged, for any window whose weights do not sum to zero,
   over any field (the normalisation w / w.sum() is part of the model). *)
Theorem C20_rolling_constant :
  forall (R : Type) (rO rI : R) (radd rmul rsub : R -> R -> R) (ropp : R -> R)
         (rdiv : R -> R -> R) (rinv : R -> R),
  field_theory rO rI radd rmul rsub ropp rdiv rinv (@eq R) ->
  forall (w : list R) (c : R) (n : nat),
  rsuml R rO radd w <> rO -> (3 <= length w <= n)%nat ->
  rolling R rO radd rmul rdiv w (repeat c n) = repeat c n.
Proof. exact rolling_constant. Qed.
Print Assumptions C20_rolling_constant.

(* OBSERVATION (not a clause of the property): the slice y[round(w/2 - 1) : ...] starts at h - (h mod 2)
   for window_len = 2h+1, while the centred start is h: for odd h (window_len = 3 mod 4: 3, 7, 11 = default,
   15, ...) every output is the window centred one sample EARLIER, i.e. the output is delayed by one sample.
   Even window_len = 2h starts at h - 1 (half-sample alignment is unavoidable there). *)
Theorem C20_rolling_slice_start : forall h, 0 <= h ->
  py_round_half (2 * h + 1 - 2) = h - h mod 2 /\ py_round_half (2 * h - 2) = h - 1.
Proof. exact round_half_start. Qed.
Print Assumptions C20_rolling_slice_start.

(* the output is NOT centred for window_len = 3 mod 4 (default 11): output k is the window
   centred on sample k-1 (round(4.5) = 4): output 10 of a length-30 input reads samples 4..14 *)
Example rolling_default_window_is_delayed_by_one :
  option_map (fun t => nth 10 t []) (rolling_taps 30 11) = Some [14; 13; 12; 11; 10; 9; 8; 7; 6; 5; 4] /\
  option_map (fun t => nth 10 t []) (rolling_taps 30 9) = Some [14; 13; 12; 11; 10; 9; 8; 7; 6].
Proof. vm_compute. split; reflexivity. Qed.

(* ---------------------------------------------------------------------------
   4. smooth.lp keeps the length for EVERY pad >= 0 (pad = m * 2^-e as a float64, m = 0 is
   pad = 0; lpad = int(ceil(float64(n * pad)))) and any length-preserving filter
   (since fix cea07c9 the crop is ts_[lpad : len - lpad]; before it pad = 0 gave an empty result) ... *)
Theorem C20_lp_keeps_length :
  forall (A : Type) (filt : list A -> list A) (m e : Z) (x : list A),
  (forall l, length (filt l) = length l) -> 0 <= m -> 0 <= e ->
  0 <= lpad_of (Z.of_nat (length x)) m e /\
  (0 < m -> x <> [] -> 0 < lpad_of (Z.of_nat (length x)) m e) /\
  length (lp filt (lpad_of (Z.of_nat (length x)) m e) x) = length x.
Proof.
  intros A filt m e x Hf Hm He.
  assert (H0 : 0 <= lpad_of (Z.of_nat (length x)) m e) by (apply lpad_of_nonneg; lia).
  split; [exact H0|]. split; [|now apply lp_keeps_length].
  intros Hm' Hx. apply lpad_of_pos; try assumption. destruct x; [contradiction | cbn [length]; lia].
Qed.
Print Assumptions C20_lp_keeps_length.

(* ... and returns constants unchanged when the filter does (DC gain 1), for every pad length >= 0. *)
Theorem C20_lp_constant :
  forall (A : Type) (filt : list A -> list A) (lpad : Z) (c : A) (n : nat),
  (forall k, filt (repeat c k) = repeat c k) -> 0 <= lpad ->
  lp filt lpad (repeat c n) = repeat c n.
Proof. intros A. exact (@lp_constant A). Qed.
Print Assumptions C20_lp_constant.

Example lp_pad_zero_example : lp (fun t => t) (lpad_of 4 0 0) [7; 8; 9; 10] = [7; 8; 9; 10].
Proof. vm_compute. reflexivity. Qed.

(* ---------------------------------------------------------------------------
   5. non_uniform_savgol: over any field, for ANY abscissae, samples of a polynomial
   of degree <= polynom are returned unchanged — interior and both borders —
   provided np.linalg.inv returns a left inverse of the normal matrix of every
   interior window (which exists iff the window has > polynom distinct abscissae). *)
Theorem C20_savgol_reproduces_polynomials :
  forall (R : Type) (rO rI : R) (radd rmul rsub : R -> R -> R) (ropp : R -> R)
         (rdiv : R -> R -> R) (rinv : R -> R),
  field_theory rO rI radd rmul rsub ropp rdiv rinv (@eq R) ->
  forall (minv : list (list R) -> list (list R)) (window polynom : Z) (x q : list R),
  window mod 2 = 1 -> 0 <= polynom < window -> window < Z.of_nat (length x) ->
  length q = Z.to_nat (polynom + 1) ->
  let half := Z.to_nat (window / 2) in
  (forall i, (half <= i < length x - half)%nat ->
     let ts := map (fun xx => rsub xx (nth i x rO)) (firstn (2 * half + 1) (skipn (i - half) x)) in
     left_inverse R rO rI radd rmul (Z.to_nat (polynom + 1))
                  (minv (normal_mat R rO rI radd rmul (Z.to_nat (polynom + 1)) ts))
                  (normal_mat R rO rI radd rmul (Z.to_nat (polynom + 1)) ts)) ->
  savgol R rO rI radd rmul rsub minv window polynom x (map (peval R rO rI radd rmul q) x)
  = inr (map (peval R rO rI radd rmul q) x).
Proof. exact savgol_public. Qed.
Print Assumptions C20_savgol_reproduces_polynomials.

(* Corollary (scale invariance on the data the filter must reproduce): rescaling the abscissae x -> c x by ANY
   non-zero c (time stamps in seconds vs sample indices, 1e-4 ... 1e3) leaves the output unchanged — it is
   still the input — because the same samples are a polynomial of the same degree in the new variable.
   An absolute regularisation of the normal matrix (seeded change C20-r4seed2) is not a left inverse any more. *)
Theorem C20_savgol_scale_invariant :
  forall (R : Type) (rO rI : R) (radd rmul rsub : R -> R -> R) (ropp : R -> R)
         (rdiv : R -> R -> R) (rinv : R -> R),
  field_theory rO rI radd rmul rsub ropp rdiv rinv (@eq R) ->
  forall (minv : list (list R) -> list (list R)) (window polynom : Z) (x q : list R) (c : R),
  c <> rO ->
  window mod 2 = 1 -> 0 <= polynom < window -> window < Z.of_nat (length x) ->
  length q = Z.to_nat (polynom + 1) ->
  let half := Z.to_nat (window / 2) in
  let xs := map (rmul c) x in
  (forall i, (half <= i < length xs - half)%nat ->
     let ts := map (fun xx => rsub xx (nth i xs rO)) (firstn (2 * half + 1) (skipn (i - half) xs)) in
     left_inverse R rO rI radd rmul (Z.to_nat (polynom + 1))
                  (minv (normal_mat R rO rI radd rmul (Z.to_nat (polynom + 1)) ts))
                  (normal_mat R rO rI radd rmul (Z.to_nat (polynom + 1)) ts)) ->
  savgol R rO rI radd rmul rsub minv window polynom (map (rmul c) x) (map (peval R rO rI radd rmul q) x)
  = inr (map (peval R rO rI radd rmul q) x).
Proof. exact savgol_scale_invariant. Qed.
Print Assumptions C20_savgol_scale_invariant.

(* ---------------------------------------------------------------------------
   6. cadzow: every trace index occurs in the Toeplitz-like index matrix of any size,
   and for any layout with distinct sites every trace occurs in the block trajectory
   matrix (trcount > 0: the final division is defined). *)
Theorem C20_traj_indices_cover : forall n, 1 <= n ->
  (forall row, In row (traj_idx n) -> forall v, In v row -> 0 <= v < n) /\
  (forall k, 0 <= k < n -> exists row, In row (traj_idx n) /\ In k row).
Proof. exact traj_idx_spec. Qed.
Print Assumptions C20_traj_indices_cover.

Theorem C20_traj_every_trace_occurs : forall (x y : list Z) (k : nat),
  length x = length y -> NoDup (combine x y) -> (k < length x)%nat ->
  let '(nrows, ncols, entries) := traj_entries x y in
  Z.of_nat (length entries) = nrows * ncols /\ In (Z.of_nat k) entries /\
  0 < count_eq (Z.of_nat k) entries.
Proof. exact traj_every_trace_occurs. Qed.
Print Assumptions C20_traj_every_trace_occurs.

Example traj_example :   (* 2 columns x 4 rows *)
  traj_entries [0; 16; 0; 16; 0; 16; 0; 16] [0; 0; 20; 20; 40; 40; 60; 60]
  = (6, 2, [2; 0; 4; 2; 6; 4; 3; 1; 5; 3; 7; 5]).
Proof. vm_compute. reflexivity. Qed.

(* cadzow.denoise on one frequency, ANY number of iterations niter >= 1 (each iteration re-fills the
   trajectory matrix from the previous output), returns its input when the rank is not reduced
   (derank returns the trajectory matrix), in any field of characteristic 0. *)
Theorem C20_denoise_identity :
  forall (R : Type) (rO rI : R) (radd rmul rsub : R -> R -> R) (ropp : R -> R)
         (rdiv : R -> R -> R) (rinv : R -> R),
  field_theory rO rI radd rmul rsub ropp rdiv rinv (@eq R) ->
  forall (derank : list R -> list R) (entries : list Z) (w : list R) (niter : nat),
  (forall n, (0 < n)%nat -> rofnat R rO rI radd n <> rO) ->
  (forall k, 0 <= k < Z.of_nat (length w) -> 0 < count_eq k entries) ->
  derank (fill R rO entries w) = fill R rO entries w -> (1 <= niter)%nat ->
  denoise_n R rO rI radd rdiv derank entries niter w = w.
Proof. exact denoise_n_identity. Qed.
Print Assumptions C20_denoise_identity.

(* voltage.svd_denoise_npx (per-collection wrapper, _svd_denoise abstract): the wrapper returns its input
   whenever the reconstruction of every collection does; a requested rank >= nc gives every collection
   at least its full size as rank; the collections partition the traces. *)
Theorem C20_svd_npx_identity :
  forall (A : Type) (d : A) (f : Z -> list A -> list A) (data : list A) (coll : list Z) (rank : Z),
  length data = length coll ->
  (forall g, In g coll ->
     let rows := select coll data g in
     f (svd_rank rank (Z.of_nat (length coll)) (Z.of_nat (length rows))) rows = rows) ->
  svd_npx d f data coll rank = data /\
  zsum (map (fun g => Z.of_nat (length (fst g))) (svd_groups coll rank)) = Z.of_nat (length coll) /\
  (forall size, 0 < Z.of_nat (length coll) -> 0 <= size -> Z.of_nat (length coll) <= rank ->
     size <= svd_rank rank (Z.of_nat (length coll)) size).
Proof.
  intros A d f data coll rank Hl Hf. split; [now apply svd_npx_identity|].
  split; [apply svd_groups_partition | intros; now apply svd_rank_full].
Qed.
Print Assumptions C20_svd_npx_identity.

(* The per-collection rank the SOURCE computes, int(rank * ind.size / nc) in binary64 (Python's int / int is
   the correctly rounded quotient; int() of a non-negative float is its floor), IS the model's exact
   floor svd_rank, for every nc, rank < 2^26 and size <= nc.  (Flocq; uses the classical-reals axioms of the
   standard library.)  A pre-divided ratio (rank / nc) * size does not have this property (seeded change
   C20-r3seed3: 3/47*47 -> 2). *)
Theorem C20_svd_rank_float_exact : forall rank nc size : Z,
  0 < nc < 2 ^ 26 -> 0 <= rank < 2 ^ 26 -> 0 <= size <= nc ->
  Zfloor (rnd64 (IZR ((if rank =? 0 then nc / 4 else rank) * size) / IZR nc)) = svd_rank rank nc size.
Proof.
  intros rank nc size Hnc Hrank Hsize. unfold svd_rank.
  assert (Hr : 0 <= (if rank =? 0 then nc / 4 else rank) < 2 ^ 26).
  { destruct (rank =? 0); [|lia]. split; [apply Z.div_pos; lia | apply Z.div_lt_upper_bound; lia]. }
  apply float_floor_div; nia.
Qed.
Print Assumptions C20_svd_rank_float_exact.

Example svd_rank_examples :
  svd_rank 3 47 47 = 3 /\ svd_rank 2 98 49 = 1 /\ svd_rank 0 384 96 = 24 /\ svd_rank 5 12 7 = 2.
Proof. vm_compute. repeat split; reflexivity. Qed.

(* UNEQUAL collections: whenever the exact share rank * n_i / nc of a collection of n_i traces is an integer, the code's
   binary64 expression (product first, ONE rounded division) returns exactly that integer. *)
Theorem C20_svd_rank_exact_share : forall rank nc size : Z,
  0 < nc < 2 ^ 26 -> 0 < rank < 2 ^ 26 -> 0 <= size <= nc -> (rank * size) mod nc = 0 ->
  Zfloor (rnd64 (IZR (rank * size) / IZR nc)) * nc = rank * size /\ svd_rank rank nc size * nc = rank * size.
Proof.
  intros rank nc size Hnc Hrank Hsize Hdiv.
  pose proof (C20_svd_rank_float_exact rank nc size Hnc ltac:(lia) Hsize) as H.
  assert (E : (rank =? 0) = false) by (apply Z.eqb_neq; lia). rewrite E in H. rewrite H.
  unfold svd_rank. rewrite E.
  pose proof (Z.div_mod (rank * size) nc ltac:(lia)). split; lia.
Qed.
Print Assumptions C20_svd_rank_exact_share.

(* The RE-ASSOCIATED forms are not exact: kernel sweeps over an exact integer model of binary64 (RankForms.v; tied to the
   host's floats on every run).  On the box 1 <= n, rank <= nc <= 64 the code's form is the exact floor everywhere, while
   rank * (n / nc) floors one lower on exactly 39 triples (e.g. nc = 22, n = 15, rank = 22 -> 14) and (rank / nc) * n on
   the same triples with n and rank exchanged; for nc = 384 and collection sizes that are multiples of 16 the only such
   triple is n = 208, rank = 216 (116 instead of 117). *)
Theorem C20_rank_reassociation_sweep :
  bad_triples form_code (zr 1 64) = [] /\
  prop_bad_64 = prop_bad_64_list /\ all_one_lower form_prop prop_bad_64_list = true /\
  (forall rank n nc, form_ratio rank n nc = form_prop n rank nc) /\
  prop_bad_384 = [(384, 208, 216)] /\ form_prop 216 208 384 = 116 /\ form_code 216 208 384 = 117.
Proof.
  split; [exact code_form_exact_64|]. split; [exact (proj1 prop_form_bad_64)|]. split; [exact (proj2 prop_form_bad_64)|].
  split; [exact form_ratio_swap|]. exact prop_form_bad_384.
Qed.
Print Assumptions C20_rank_reassociation_sweep.

(* a single plane wave A u^i v^j on a complete regular grid fills the block trajectory
   matrix with an outer product f(row) * g(column): rank one. *)
Theorem C20_plane_wave_rank1 :
  forall (R : Type) (rO rI : R) (radd rmul rsub : R -> R -> R) (ropp : R -> R),
  ring_theory rO rI radd rmul rsub ropp (@eq R) ->
  forall (A u v : R) (nx ny r c : Z),
  1 <= nx -> 1 <= ny ->
  0 <= r < traj_rows ny * traj_rows nx -> 0 <= c < traj_cols ny * traj_cols nx ->
  let nry := traj_rows ny in let ncy := traj_cols ny in
  rmul (rmul A (zpw R rI rmul u (traj_at nx (r / nry) (c / ncy))))
       (zpw R rI rmul v (traj_at ny (r mod nry) (c mod ncy)))
  = rmul (rmul (rmul A (zpw R rI rmul u (r / nry))) (zpw R rI rmul v (r mod nry)))
         (rmul (zpw R rI rmul u (traj_cols nx - 1 - c / ncy)) (zpw R rI rmul v (ncy - 1 - c mod ncy))).
Proof. exact plane_wave_rank1. Qed.
Print Assumptions C20_plane_wave_rank1.

(* ---------------------------------------------------------------------------
   non-vacuity of the Savitzky-Golay hypotheses *)
From Coq Require Import QArith Qcanon.
Open Scope Z_scope.
(* the hypotheses of C20_savgol_reproduces_polynomials are satisfiable: canonical rationals Qc
   (Leibniz equality), a 2x2 adjugate inverse as np.linalg.inv, irregular abscissae *)
Definition qc (z : Z) : Qc := Q2Qc (inject_Z z).
Definition inv2 (M : list (list Qc)) : list (list Qc) :=
  match M with
  | [[a; b]; [c; d]] => let det := (a * d - b * c)%Qc in
                        [[(d / det)%Qc; (- b / det)%Qc]; [(- c / det)%Qc; (a / det)%Qc]]
  | _ => []
  end.
Definition xs := map qc [0; 1; 3; 4; 9; 10].

Lemma qc_eq (a b : Qc) : Qeq_bool a b = true -> a = b.
Proof. intros H. apply Qc_is_canon. now apply Qeq_bool_eq. Qed.

Example savgol_hypotheses_satisfiable :
  savgol Qc 0%Qc 1%Qc Qcplus Qcmult Qcminus inv2 3 1 xs
         (map (peval Qc 0%Qc 1%Qc Qcplus Qcmult [qc 2; qc (-3)]) xs)
  = inr (map (peval Qc 0%Qc 1%Qc Qcplus Qcmult [qc 2; qc (-3)]) xs).
Proof.
  apply (savgol_public Qc 0%Qc 1%Qc Qcplus Qcmult Qcminus Qcopp Qcdiv Qcinv Qcft inv2);
    try reflexivity; try (cbn; lia).
  intros i Hi. change (Z.to_nat (3 / 2)) with 1%nat in Hi. cbn [xs map length] in Hi.
  assert (Hc : i = 1%nat \/ i = 2%nat \/ i = 3%nat \/ i = 4%nat) by lia.
  destruct Hc as [-> | [-> | [-> | ->]]];
    (split; [reflexivity|]; split;
     [intros row [<-|[<-|[]]]; reflexivity|];
     intros k' m Hk Hm;
     assert (Hk' : k' = 0%nat \/ k' = 1%nat) by lia;
     assert (Hm' : m = 0%nat \/ m = 1%nat) by lia;
     destruct Hk' as [-> | ->]; destruct Hm' as [-> | ->]; apply qc_eq; vm_compute; reflexivity).
Qed.

(* ---------------------------------------------------------------------------
   further non-vacuity examples (hypotheses of the field / wrapper theorems are satisfiable) *)
(* rolling_constant: a (1,2,1) window over Qc *)
Example rolling_constant_satisfiable :
  rolling Qc 0%Qc Qcplus Qcmult Qcdiv [qc 1; qc 2; qc 1] (repeat (qc 7) 6) = repeat (qc 7) 6.
Proof.
  apply (rolling_constant Qc 0%Qc 1%Qc Qcplus Qcmult Qcminus Qcopp Qcdiv Qcinv Qcft); [|cbn; lia].
  intro H. apply (f_equal this) in H. vm_compute in H. discriminate.
Qed.

(* characteristic 0 in Qc *)
Lemma rofnat_Qc n : (this (rofnat Qc 0%Qc 1%Qc Qcplus n) == inject_Z (Z.of_nat n))%Q.
Proof.
  induction n as [|n IH]; [reflexivity|]. cbn [rofnat]. unfold Qcplus, Q2Qc. cbn [this].
  rewrite Qred_correct, IH. rewrite Nat2Z.inj_succ. unfold Z.succ. rewrite inject_Z_plus. cbn. ring.
Qed.
Lemma Qc_char0 n : (0 < n)%nat -> rofnat Qc 0%Qc 1%Qc Qcplus n <> 0%Qc.
Proof.
  intros Hn H. pose proof (rofnat_Qc n) as E. rewrite H in E. cbn [this] in E.
  unfold Qeq, inject_Z in E. cbn in E. lia.
Qed.

(* denoise identity, 3 iterations, on the 2 x 4 layout of traj_example with derank = identity *)
Example denoise_identity_satisfiable :
  let entries := [2; 0; 4; 2; 6; 4; 3; 1; 5; 3; 7; 5] in
  let w := map qc [3; -1; 4; 1; -5; 9; 2; -6] in
  denoise_n Qc 0%Qc 1%Qc Qcplus Qcdiv (fun t => t) entries 3 w = w.
Proof.
  intros entries w.
  apply (denoise_n_identity Qc 0%Qc 1%Qc Qcplus Qcmult Qcminus Qcopp Qcdiv Qcinv Qcft); [exact Qc_char0 | | reflexivity | lia].
  intros k Hk. cbn [w map length] in Hk.
  assert (Hc : k = 0 \/ k = 1 \/ k = 2 \/ k = 3 \/ k = 4 \/ k = 5 \/ k = 6 \/ k = 7) by lia.
  destruct Hc as [-> | [-> | [-> | [-> | [-> | [-> | [-> | ->]]]]]]]; vm_compute; reflexivity.
Qed.

(* svd wrapper with the identity as per-collection reconstruction *)
Example svd_npx_identity_satisfiable :
  svd_npx (-1) (fun _ rows => rows) [10; 11; 12; 13; 14; 15] [2; 1; 2; 1; 1; 5] 4 = [10; 11; 12; 13; 14; 15] /\
  svd_groups [2; 1; 2; 1; 1; 5] 4 = [([1; 3; 4], 2); ([0; 2], 1); ([5], 0)].
Proof. vm_compute. split; reflexivity. Qed.

(* plane wave over Z: A = 3, u = 2, v = 5 on a 3 x 4 grid, element (r, c) = (4, 2) *)
Example plane_wave_example :
  let nry := traj_rows 4 in let ncy := traj_cols 4 in
  3 * zpw Z 1 Z.mul 2 (traj_at 3 (4 / nry) (2 / ncy)) * zpw Z 1 Z.mul 5 (traj_at 4 (4 mod nry) (2 mod ncy))
  = (3 * zpw Z 1 Z.mul 2 (4 / nry) * zpw Z 1 Z.mul 5 (4 mod nry))
    * (zpw Z 1 Z.mul 2 (traj_cols 3 - 1 - 2 / ncy) * zpw Z 1 Z.mul 5 (ncy - 1 - 2 mod ncy)).
Proof. vm_compute. reflexivity. Qed.
