(* C20 — property theorems (statements closed by `exact <lemma>`). *)
From Coq Require Import ZArith List Bool Lia.
From IBL.lib Require Import PyInt.
From IBL.C20 Require Import Model Proofs.
Import ListNotations.
Open Scope Z_scope.

(* F-C20-a: smooth.lp(ts, fac, pad=0) returns an EMPTY array whatever the input
   (ts_[lpad:-lpad] with lpad = 0 is ts_[0:0]); "keeps the input length" fails for pad = 0. *)
Theorem C20_lp_pad_zero_refuted : forall (A : Type) (filt : list A -> list A) (x : list A),
  lp filt 0 x = [].
Proof. exact lp_pad_zero_empty. Qed.
Print Assumptions C20_lp_pad_zero_refuted.
