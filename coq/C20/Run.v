(* C20 — flat-integer interface of the models for the correspondence check.
   First integer = which function:
   1 venn     [1; n; xbin; ybin; nchan; chunk; fs; (len; samples..; channels..) x n]
              -> enc_option enc_zlist (venn result, 2^n-1 counts in key order)
   2 stack    [2; ntr; ns; word..; data (row-major)..]  with fcn_agg = position-weighted column sum
              -> ntrs :: stack rows (row-major) ++ fold
   3 rolling  [3; n; w] -> 0 (ValueError) | 1 :: n_out :: multiplicity matrix M[k][p] =
              number of taps of output k that read x[p]   (n_out x n)
   7 rolling  [7; n; w] -> 0 | 1 :: n_out :: ordered taps of every output (n_out x w)
   4 lp       [4; m; e; x..] (pad = m * 2^-e) -> lpad :: enc_zlist (padded) ++ enc_zlist (cropped)
   5 savgol   [5; window; polynom; n; x..; y..] over Q -> 0 :: code | 1 :: n :: (floor v; floor (frac v * 2^40)) x n
   8 stack    [8; ntr; ns; word..; data..] integer data, default fcn_agg=np.nanmean: truncated means
   12 ranks   [12; nc] -> int(rank*n/nc), int(rank*(n/nc)), int((rank/nc)*n) in binary64 for all 1 <= n, rank <= nc
   11 venn    [11; n; xbin; ybin; nchan; cn; cd; trains..] chunk size cn/cd (float chunk sizes)
   10 stack   [10; ntr; nkeys; word..; header vectors..] -> per-key per-label sums of the header, fold
   9 svd      [9; nc; rank (0 = None); collection..] -> groups (rank; size; indices) and the scatter result
   6 traj     [6; nc; x..; y..] -> nrows :: ncols :: enc_zlist entries ++ enc_zlist trcount *)
From Coq Require Import ZArith List Bool QArith Qreduction.
From IBL.lib Require Import PyInt RunLib.
From IBL.C20 Require Import Model RankForms.
Import ListNotations.
Open Scope Z_scope.

Fixpoint chunks_of {A} (fuel : nat) (k : nat) (l : list A) : list (list A) :=
  match fuel with
  | O => []
  | S f => match l with [] => [] | _ => firstn k l :: chunks_of f k (skipn k l) end
  end.

(* ---- venn ---- *)
Fixpoint dec_trains (n : nat) (l : list Z) : list (list spike) :=
  match n with
  | O => []
  | S n' => match l with
            | [] => []
            | len :: r => let k := Z.to_nat len in
                          combine (firstn k r) (firstn k (skipn k r)) :: dec_trains n' (skipn (k + k) r)
            end
  end.

Definition run_venn (l : list Z) : list Z :=
  match l with
  | n :: xbin :: ybin :: nchan :: chunk :: fs :: r =>
      enc_option enc_zlist (venn (venn_params xbin ybin nchan chunk fs) (dec_trains (Z.to_nat n) r))
  | _ => [-999]
  end.

(* venn with a rational chunk size cn / cd: [n; xbin; ybin; nchan; cn; cd; trains..] *)
Definition run_venn_q (l : list Z) : list Z :=
  match l with
  | n :: xbin :: ybin :: nchan :: cn :: cd :: r =>
      enc_option enc_zlist (venn_q xbin ybin nchan cn cd (dec_trains (Z.to_nat n) r))
  | _ => [-999]
  end.

(* the three float forms of the per-collection rank: [nc] -> for n = 1..nc, rank = 1..nc:
   form_code; form_prop; form_ratio  (integer model of binary64, RankForms.v) *)
Definition run_rank_forms (l : list Z) : list Z :=
  match l with
  | [nc] => flat_map (fun n => flat_map (fun r => [form_code r n nc; form_prop r n nc; form_ratio r n nc]) (zr 1 nc)) (zr 1 nc)
  | _ => [-999]
  end.

(* ---- stack ---- *)
Fixpoint zip_add (a b : list Z) : list Z :=
  match a, b with x :: a', y :: b' => (x + y) :: zip_add a' b' | _, _ => [] end.
Fixpoint wsum_from (k : Z) (ns : nat) (rows : list (list Z)) : list Z :=
  match rows with
  | [] => repeat 0 ns
  | r :: rs => zip_add (map (Z.mul k) r) (wsum_from (k + 1) ns rs)
  end.
Definition run_stack (l : list Z) : list Z :=
  match l with
  | ntr :: ns :: r =>
      let word := firstn (Z.to_nat ntr) r in
      let data := chunks_of (Z.to_nat ntr) (Z.to_nat ns) (skipn (Z.to_nat ntr) r) in
      let '(st, fold) := stack (wsum_from 1 (Z.to_nat ns)) data word in
      Z.of_nat (length st) :: concat st ++ fold
  | _ => [-999]
  end.

(* stack with a header: [ntr; nkeys; word..; header vectors (nkeys x ntr)] -> ngroups :: per key the per-label
   SUMS of the header values (mean x fold on the implementation side) ++ fold *)
Definition run_stack_header (l : list Z) : list Z :=
  match l with
  | ntr :: nkeys :: r =>
      let n := Z.to_nat ntr in
      let word := firstn n r in
      let hdrs := chunks_of (Z.to_nat nkeys) n (skipn n r) in
      let '(st, hs, fold) := stack_header (fun rows : list Z => zsum rows) (fun v : list Z => zsum v) word hdrs word in
      Z.of_nat (length fold) :: concat hs ++ fold
  | _ => [-999]
  end.

(* stack with integer data and the default nanmean: truncated means *)
Definition run_stack_int (l : list Z) : list Z :=
  match l with
  | ntr :: ns :: r =>
      let word := firstn (Z.to_nat ntr) r in
      let data := chunks_of (Z.to_nat ntr) (Z.to_nat ns) (skipn (Z.to_nat ntr) r) in
      let '(st, fold) := stack_int_mean (Z.to_nat ns) data word in
      Z.of_nat (length st) :: concat st ++ fold
  | _ => [-999]
  end.

(* svd_denoise_npx grouping: [nc; rank; collection..] -> ngroups :: (rank_g; size; indices..) per group
   ++ enc_zlist (svd_npx with the identity as _svd_denoise applied to the row numbers) *)
Definition run_svd (l : list Z) : list Z :=
  match l with
  | nc :: rank :: coll0 =>
      let coll := firstn (Z.to_nat nc) coll0 in
      let gs := svd_groups coll rank in
      Z.of_nat (length gs) :: flat_map (fun g => snd g :: enc_zlist (fst g)) gs
      ++ enc_zlist (svd_npx (-1) (fun _ rows => rows) (zrange (length coll)) coll rank)
  | _ => [-999]
  end.

(* ---- rolling ---- *)
Definition run_rolling (ordered : bool) (l : list Z) : list Z :=
  match l with
  | [n; w] => match rolling_taps n w with
              | None => [0]
              | Some taps =>
                  1 :: Z.of_nat (length taps) ::
                  (if ordered then concat taps
                   else flat_map (fun t => map (fun p => count_eq p t) (zrange (Z.to_nat n))) taps)
              end
  | _ => [-999]
  end.

(* ---- lp ---- *)
Definition run_lp (l : list Z) : list Z :=
  match l with
  | m :: e :: x => let lpad := lpad_of (Z.of_nat (length x)) m e in
                   lpad :: enc_zlist (edge_pad lpad x) ++ enc_zlist (lp (fun t => t) lpad x)
  | _ => [-999]
  end.

(* ---- savgol over Q: Gauss-Jordan inverse as the instance of np.linalg.inv ---- *)
Definition qadd (a b : Q) := Qred (a + b).
Definition qmul (a b : Q) := Qred (a * b).
Definition qsub (a b : Q) := Qred (a - b).
Definition qdiv (a b : Q) := Qred (a / b).
Definition qzero (a : Q) : bool := (Qnum a =? 0)%Z.

Fixpoint find_pivot (c : nat) (rows : list (list Q)) : option (list Q * list (list Q)) :=
  match rows with
  | [] => None
  | r :: rs => if negb (qzero (nth c r 0%Q)) then Some (r, rs)
               else match find_pivot c rs with
                    | Some (pr, rest) => Some (pr, r :: rest)
                    | None => None
                    end
  end.
Fixpoint row_sub (r pr : list Q) (f : Q) : list Q :=
  match r, pr with a :: r', b :: pr' => qsub a (qmul f b) :: row_sub r' pr' f | _, _ => [] end.
Definition elim (c : nat) (pr : list Q) (r : list Q) : list Q := row_sub r pr (nth c r 0%Q).
Fixpoint gj (cols : list nat) (done todo : list (list Q)) : option (list (list Q)) :=
  match cols with
  | [] => Some done
  | c :: cs => match find_pivot c todo with
               | None => None
               | Some (pr, rest) =>
                   let pr' := map (fun a => qdiv a (nth c pr 0%Q)) pr in
                   gj cs (map (elim c pr') done ++ [pr']) (map (elim c pr') rest)
               end
  end.
Definition q_inv (M : list (list Q)) : list (list Q) :=
  let p := length M in
  let aug := map (fun kr => snd kr ++ map (fun j => if (j =? fst kr)%nat then 1%Q else 0%Q) (seq 0 p))
                 (combine (seq 0 p) M) in
  match gj (seq 0 p) [] aug with
  | Some rows => map (skipn p) rows
  | None => []
  end.

Definition q_savgol := savgol Q 0%Q 1%Q qadd qmul qsub q_inv.
(* a rational as [floor a; floor (frac a * 2^40)] — numerators/denominators themselves can exceed
   the 62-bit range of the driver's I/O *)
Definition enc_q (a : Q) : list Z :=
  let n := Qnum a in let d := Z.pos (Qden a) in
  [n / d; ((n mod d) * 2 ^ 40) / d].
Definition run_savgol (l : list Z) : list Z :=
  match l with
  | window :: polynom :: n :: r =>
      let k := Z.to_nat n in
      let x := map inject_Z (firstn k r) in
      let y := map inject_Z (firstn k (skipn k r)) in
      match q_savgol window polynom x y with
      | inl c => [0; Z.of_nat c]
      | inr out => 1 :: Z.of_nat (length out) :: flat_map enc_q out
      end
  | _ => [-999]
  end.

(* ---- trajectory ---- *)
Definition run_traj (l : list Z) : list Z :=
  match l with
  | nc :: r => let k := Z.to_nat nc in
               let '(nr, ncl, ent) := traj_entries (firstn k r) (firstn k (skipn k r)) in
               nr :: ncl :: enc_zlist ent ++ enc_zlist (trcount ent)
  | _ => [-999]
  end.

Definition run (inp : list Z) : list Z :=
  match inp with
  | 1 :: r => run_venn r
  | 2 :: r => run_stack r
  | 3 :: r => run_rolling false r
  | 7 :: r => run_rolling true r
  | 4 :: r => run_lp r
  | 5 :: r => run_savgol r
  | 6 :: r => run_traj r
  | 8 :: r => run_stack_int r
  | 9 :: r => run_svd r
  | 10 :: r => run_stack_header r
  | 11 :: r => run_venn_q r
  | 12 :: r => run_rank_forms r
  | _ => [-999]
  end.

Definition mismatches := mismatches_of run.
