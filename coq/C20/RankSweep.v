(* C20 — exhaustive kernel sweeps (vm_compute) over the integer model of binary64 in RankForms.v.  This module is
   compiled and kernel-checked by coqc in the build; the independent re-check coqchk takes it as given
   (coqchk_admit: it would re-evaluate the sweeps without the VM), which is recorded in the evidence. *)
From Coq Require Import ZArith List Bool Lia.
From IBL.C20 Require Import RankForms.
Import ListNotations.
Open Scope Z_scope.

(* the code's form is the exact floor on the whole box (also proved for all operands < 2^26 in FloatRank.v) *)
Theorem code_form_exact_64 : bad_triples form_code (zr 1 64) = [].
Proof. vm_compute. reflexivity. Qed.

(* the re-associated form rank * (n / nc) floors one lower on exactly the 39 triples of prop_bad_64_list *)
Theorem prop_form_bad_64 : prop_bad_64 = prop_bad_64_list /\ all_one_lower form_prop prop_bad_64_list = true.
Proof. vm_compute. split; reflexivity. Qed.

Theorem prop_form_bad_384 : prop_bad_384 = [(384, 208, 216)] /\ form_prop 216 208 384 = 116 /\ form_code 216 208 384 = 117.
Proof. vm_compute. repeat split; reflexivity. Qed.
