(* C20 — the three ways of writing the per-collection rank of svd_denoise_npx in binary64, as exact integer
   arithmetic (positive operands far from overflow / underflow: round to nearest even on a 53-bit significand):
     code   int(rank * n / nc)        product first (exact integer), ONE rounded division
     prop   int(rank * (n / nc))      rounded proportion, then a rounded product
     ratio  int((rank / nc) * n)      rounded ratio, then a rounded product
   The first is the exact floor (proved in general in FloatRank.v); the re-associated forms floor one lower on the
   triples listed below (exhaustive kernel sweeps). *)
From Coq Require Import ZArith List Bool Lia.
Import ListNotations.
Open Scope Z_scope.

(* round-to-nearest-even of num/den (> 0) to a 53-bit significand: (m, e) with value m * 2^e, 2^52 <= m <= 2^53 *)
Definition scaled (num den e : Z) : (Z * Z)%type :=
  if e <=? 0 then (num * 2 ^ (- e), den) else (num, den * 2 ^ e).
Definition rnd_q (num den : Z) : (Z * Z)%type :=
  let e0 := Z.log2 num - Z.log2 den - 52 in
  let '(Na, Da) := scaled num den e0 in
  let e := if Na / Da <? 2 ^ 52 then e0 - 1 else e0 in
  let '(Nb, Db) := scaled num den e in
  let m := Nb / Db in
  let r := Nb mod Db in
  let m' := if (Db <? 2 * r) || ((Db =? 2 * r) && Z.odd m) then m + 1 else m in
  (m', e).
(* float times a positive integer *)
Definition fmul_int (k : Z) (x : (Z * Z)%type) : (Z * Z)%type :=
  let '(m, e) := x in
  if e <=? 0 then rnd_q (k * m) (2 ^ (- e)) else rnd_q (k * m * 2 ^ e) 1.
Definition ffloor (x : (Z * Z)%type) : Z := let '(m, e) := x in if e <=? 0 then m / 2 ^ (- e) else m * 2 ^ e.

Definition form_code (rank n nc : Z) : Z := if rank * n =? 0 then 0 else ffloor (rnd_q (rank * n) nc).
Definition form_prop (rank n nc : Z) : Z := ffloor (fmul_int rank (rnd_q n nc)).
Definition form_ratio (rank n nc : Z) : Z := ffloor (fmul_int n (rnd_q rank nc)).

Definition zr (a b : Z) : list Z := map (fun k => a + Z.of_nat k) (seq 0 (Z.to_nat (b - a + 1))).   (* a..b *)

(* triples (nc, n, rank), 1 <= n, rank <= nc, on which a form differs from the exact floor *)
Definition bad_triples (form : Z -> Z -> Z -> Z) (ncs : list Z) : list (Z * Z * Z)%type :=
  flat_map (fun nc => flat_map (fun n => flat_map (fun r =>
     if form r n nc =? (r * n) / nc then [] else [(nc, n, r)]) (zr 1 nc)) (zr 1 nc)) ncs.
(* every difference is exactly one component too few *)
Definition all_one_lower (form : Z -> Z -> Z -> Z) (l : list (Z * Z * Z)%type) : bool :=
  forallb (fun t => let '(nc, n, r) := t in form r n nc =? (r * n) / nc - 1) l.

Definition prop_bad_64 : list (Z * Z * Z)%type := bad_triples form_prop (zr 1 64).
Definition ratio_bad_64 : list (Z * Z * Z)%type := bad_triples form_ratio (zr 1 64).

Lemma form_ratio_swap rank n nc : form_ratio rank n nc = form_prop n rank nc.
Proof. reflexivity. Qed.


(* the triples found by the sweeps of RankSweep.v *)
Definition prop_bad_64_list : list (Z * Z * Z)%type :=
  [(22, 15, 22); (23, 13, 23); (26, 15, 26); (39, 31, 39); (43, 23, 43); (43, 31, 43); (44, 15, 44); (44, 30, 22);
   (44, 30, 44); (45, 13, 45); (45, 26, 45); (46, 13, 46); (46, 26, 23); (46, 26, 46); (47, 3, 47); (47, 6, 47);
   (47, 12, 47); (47, 24, 47); (47, 31, 47); (49, 1, 49); (49, 2, 49); (49, 4, 49); (49, 8, 49); (49, 16, 49);
   (49, 27, 49); (49, 32, 49); (50, 29, 50); (51, 31, 51); (52, 15, 52); (52, 30, 26); (52, 30, 52); (55, 7, 55);
   (55, 14, 55); (55, 15, 55); (55, 28, 55); (55, 29, 55); (55, 30, 55); (55, 31, 55); (58, 31, 58)].

(* nc = 384 (Neuropixels), collection sizes that are multiples of 16, every rank 1..384 *)
Definition prop_bad_384 : list (Z * Z * Z)%type :=
  flat_map (fun n => flat_map (fun r => if form_prop r n 384 =? (r * n) / 384 then [] else [(384, n, r)]) (zr 1 384))
           (map (fun k => 16 * k) (zr 1 24)).
