(* C20 — executable models of the counting / stacking / smoothing / rank-reduction
   utilities.  Definitions only; lemmas in Proofs.v, property theorems in Props.v.

   Python (src/ibldsp)                                  model
   -------------------                                  -----
   spiketrains._spikes_venn (chunk loop)                venn, venn_loop, chunk_cols
     bincount2D(...)[0].flatten()                       bin_id, chunk_cols
     peeling loop (max_per_spike, venn_info, vec @ .)   level_codes, vec_code, venn_chunk
     np.unique(..., return_counts) ; pre_result[c-1]+=  accumulate
   voltage.stack                                        uniq_sorted, select, stack
   smooth.rolling_window                                rolling_windows, rolling, py_round_half
   smooth.lp                                            lpad_of, edge_pad, lp
   smooth.non_uniform_savgol                            design_row, normal_mat, coeffs, fit, savgol
   cadzow.traj_matrix_indices / trajectory              traj_idx, traj_entries, trcount
   cadzow.denoise (one frequency)                       fill, unfill, denoise1
*)
From Coq Require Import ZArith List Bool Lia.
From IBL.lib Require Import PyInt.
Import ListNotations.
Open Scope Z_scope.

(* ------------------------------------------------------------------ *)
(* generic helpers                                                     *)
(* ------------------------------------------------------------------ *)
Definition zsum (l : list Z) : Z := fold_right Z.add 0 l.
(* np.amax / np.max of non-negative integers (counts, sample times >= 0) *)
Definition zmaxl (l : list Z) : Z := fold_right Z.max 0 l.
(* number of occurrences of k *)
Definition count_eq (k : Z) (l : list Z) : Z := Z.of_nat (length (filter (Z.eqb k) l)).

Fixpoint option_all {A} (l : list (option A)) : option (list A) :=
  match l with
  | [] => Some []
  | None :: _ => None
  | Some a :: r => match option_all r with Some r' => Some (a :: r') | None => None end
  end.

(* Python slice a[i:j] (step 1), negative indices wrap, everything clips. *)
Definition norm_idx (len i : Z) : Z := if i <? 0 then Z.max (i + len) 0 else Z.min i len.
Definition pyslice {A} (a b : Z) (l : list A) : list A :=
  let len := Z.of_nat (length l) in
  let a' := norm_idx len a in
  let b' := norm_idx len b in
  firstn (Z.to_nat (b' - a')) (skipn (Z.to_nat a') l).

(* ------------------------------------------------------------------ *)
(* 1. spiketrains._spikes_venn                                         *)
(* ------------------------------------------------------------------ *)
Definition spike := (Z * Z)%type.          (* (sample, channel) *)

(* len(np.arange(lim0=0, lim + bin / 2, bin)) : bincount2D's scale size *)
Definition nscale (lim bin : Z) : Z := cdiv (2 * lim + bin) (2 * bin).

(* slice(np.searchsorted(samples, [off, off+chunk]) unpacked) on a sorted train
   = the spikes with off <= sample < off + chunk *)
Definition in_chunk (off chunk : Z) (sp : spike) : bool :=
  (off <=? fst sp) && (fst sp <? off + chunk).
Definition chunk_spikes (off chunk : Z) (l : list spike) : list spike :=
  filter (in_chunk off chunk) l.

(* bincount2D: xind = floor((s - off) / xbin), yind = floor(c / ybin),
   np.ravel_multi_index((yind, xind), dims=(ny, nx)) — ValueError (None) outside *)
Definition bin_id (xbin ybin nx ny off : Z) (sp : spike) : option Z :=
  let xi := (fst sp - off) / xbin in
  let yi := snd sp / ybin in
  if (0 <=? xi) && (xi <? nx) && (0 <=? yi) && (yi <? ny) then Some (yi * nx + xi) else None.

Record vparams := { v_xbin : Z; v_ybin : Z; v_nchan : Z; v_chunk : Z }.

Definition v_nx (P : vparams) := nscale (v_chunk P) (v_xbin P).
Definition v_ny (P : vparams) := nscale (v_nchan P) (v_ybin P).

(* bin ids of the spikes of every sorter inside chunk ch *)
Definition chunk_ids (P : vparams) (trains : list (list spike)) (ch : Z) : option (list (list Z)) :=
  let off := ch * v_chunk P in
  option_all (map (fun t => option_all (map (bin_id (v_xbin P) (v_ybin P) (v_nx P) (v_ny P) off)
                                            (chunk_spikes off (v_chunk P) t))) trains).

(* bin_counts, stored column-wise: one count vector (one entry per sorter) per bin *)
Definition cols_of (nbins : Z) (idss : list (list Z)) : list (list Z) :=
  map (fun j => map (count_eq j) idss) (zrange (Z.to_nat nbins)).

Definition chunk_cols (P : vparams) (trains : list (list spike)) (ch : Z) : option (list (list Z)) :=
  match chunk_ids P trains ch with
  | Some idss => Some (cols_of (v_nx P * v_ny P) idss)
  | None => None
  end.

(* vec @ venn_info with vec = [2^(n-1), ..., 2, 1] *)
Definition vec_code (bs : list bool) : Z :=
  fold_left (fun acc (b : bool) => 2 * acc + (if b then 1 else 0)) bs 0.

(* one pass of the peeling loop:
     ind = max_per_spike - i > 0
     venn_info = bin_counts[:, ind] >= (max_per_spike - i)[ind]
     venn_info_int = vec @ venn_info *)
Definition level_codes (cols : list (list Z)) (i : Z) : list Z :=
  flat_map (fun col => let m := zmaxl col in
                       if m - i >? 0 then [vec_code (map (fun c => c >=? m - i) col)] else [])
           cols.

(* a[idx] += v for one Python index (negative wraps; out of range leaves the
   list unchanged — IndexError in NumPy, shown never to happen) *)
Fixpoint add_at_nat (l : list Z) (k : nat) (v : Z) : list Z :=
  match l, k with
  | [], _ => []
  | a :: r, O => (a + v) :: r
  | a :: r, S k' => a :: add_at_nat r k' v
  end.
Definition add_at (l : list Z) (idx v : Z) : list Z :=
  let len := Z.of_nat (length l) in
  let i := if idx <? 0 then idx + len else idx in
  if (0 <=? i) && (i <? len) then add_at_nat l (Z.to_nat i) v else l.

(* conds, counts = np.unique(codes, return_counts=True); pre_result[conds - 1] += counts
   (conds are distinct, so the fancy-indexed += adds every count) *)
Definition accumulate (pre : list Z) (codes : list Z) : list Z :=
  fold_left (fun p c => add_at p (c - 1) 1) codes pre.

(* for i in range(0, overall_max) *)
Definition venn_chunk (cols : list (list Z)) (pre : list Z) : list Z :=
  fold_left (fun p i => accumulate p (level_codes cols i))
            (zrange (Z.to_nat (zmaxl (map zmaxl cols)))) pre.

Fixpoint venn_loop (P : vparams) (trains : list (list spike)) (chs : list Z) (pre : list Z)
  : option (list Z) :=
  match chs with
  | [] => Some pre
  | ch :: r => match chunk_cols P trains ch with
               | Some cols => venn_loop P trains r (venn_chunk cols pre)
               | None => None
               end
  end.

Definition max_sample (trains : list (list spike)) : Z :=
  zmaxl (map (fun t => zmaxl (map fst t)) trains).

(* None: np.max of an empty train (ValueError) or a channel outside the bins *)
Definition venn (P : vparams) (trains : list (list spike)) : option (list Z) :=
  if existsb (fun t => match t with [] => true | _ => false end) trains then None
  else
    let nchunks := max_sample trains / v_chunk P + 1 in
    venn_loop P trains (zrange (Z.to_nat nchunks))
              (repeat 0 (Z.to_nat (2 ^ Z.of_nat (length trains) - 1))).

(* defaults: samples_binsize = int(0.4 * fs / 1000) when falsy, chunk_size = 20 * fs when falsy *)
Definition venn_params (xbin ybin nchan chunk fs : Z) : vparams :=
  {| v_xbin := if xbin =? 0 then fs / 2500 else xbin; v_ybin := ybin; v_nchan := nchan;
     v_chunk := if chunk =? 0 then 20 * fs else chunk |}.

(* NON-INTEGER chunk sizes (chunk_size passed as a float, or the default 20 * fs with a calibrated rate):
   chunk k covers the half-open interval [k c, (k+1) c) of the real line, c = cn / cd > 0.  For an integer sample s
       k c <= s < (k+1) c   <=>   k cn <= s cd < (k+1) cn,
   the local bin floor((s - k c) / xbin) = floor((s cd - k cn) / (xbin cd)), the number of chunks
   floor(max / c) + 1 = (max cd) / cn + 1 and the scale length ceil((c + xbin/2) / xbin) = nscale cn (xbin cd):
   the computation IS the integer-chunk computation on the samples multiplied by the denominator.
   (Since fix bbf5c54 both edges of chunk k are the products fl(k c) and fl((k+1) c): the end of chunk k and the start of
   chunk k+1 are literally the same float, so the chunks tile for every float c; the rational model describes the exact
   products — it coincides with the code whenever k c is exact, e.g. dyadic c.) *)
Definition in_chunk_q (cn cd k : Z) (sp : spike) : bool :=
  (k * cn <=? fst sp * cd) && (fst sp * cd <? (k + 1) * cn).
Definition scale_spike (cd : Z) (sp : spike) : spike := (fst sp * cd, snd sp).
Definition venn_q (xbin ybin nchan cn cd : Z) (trains : list (list spike)) : option (list Z) :=
  venn {| v_xbin := xbin * cd; v_ybin := ybin; v_nchan := nchan; v_chunk := cn |}
       (map (map (scale_spike cd)) trains).

(* the dictionary key of code c is format(c, '0{n}b'); sorter s (0-based) is a
   member of the region iff character s of the key is '1', i.e. bit n-1-s of c.
   Sum of the result over the regions containing sorter s: *)
Definition in_region (n s c : Z) : bool := Z.testbit c (n - 1 - s).
Definition region_sum (n s : Z) (res : list Z) : Z :=
  zsum (map (fun c => if in_region n s c then nth (Z.to_nat (c - 1)) res 0 else 0)
            (map (fun k => k + 1) (zrange (Z.to_nat (2 ^ n - 1))))).

(* ------------------------------------------------------------------ *)
(* 2. voltage.stack                                                    *)
(* ------------------------------------------------------------------ *)
Fixpoint insert_u (a : Z) (l : list Z) : list Z :=
  match l with
  | [] => [a]
  | b :: r => if a <? b then a :: l else if a =? b then l else b :: insert_u a r
  end.
(* np.unique(word) *)
Definition uniq_sorted (l : list Z) : list Z := fold_right insert_u [] l.
(* data[sind == uinds, :] — the traces of one label, in their original order *)
Definition select {A} (word : list Z) (data : list A) (g : Z) : list A :=
  map snd (filter (fun p => fst p =? g) (combine word data)).
(* stack rows and fold; fcn_agg is abstract *)
Definition stack {A B} (agg : list A -> B) (data : list A) (word : list Z) : list B * list Z :=
  let groups := uniq_sorted word in
  (map (fun g => agg (select word data g)) groups, map (fun g => count_eq g word) groups).

(* header: pd.DataFrame(header).groupby("stack_word").aggregate("mean"): every header vector is aggregated
   per label, the groups in SORTED label order (pandas groupby sorts by default) — the same order as the
   stacked rows and fold.  hagg is the aggregate of the header values (mean), abstract. *)
Definition stack_header {A B H HB} (agg : list A -> B) (hagg : list H -> HB)
           (data : list A) (hdrs : list (list H)) (word : list Z) : list B * list (list HB) * list Z :=
  let '(st, fold) := stack agg data word in
  (st, map (fun h => fst (stack hagg h word)) hdrs, fold).

(* stack = np.zeros((ntrs, ns), dtype=data.dtype); stack[sind, :] = fcn_agg(...):
   the aggregate is CAST to the dtype of the data.  For integer data and the default
   fcn_agg = np.nanmean the float mean is truncated towards zero (C cast). *)
Fixpoint col_sums (ns : nat) (rows : list (list Z)) : list Z :=
  match rows with
  | [] => repeat 0 ns
  | r :: rs => map (fun p => fst p + snd p) (combine r (col_sums ns rs))
  end.
Definition mean_trunc (ns : nat) (rows : list (list Z)) : list Z :=
  map (fun s => Z.quot s (Z.of_nat (length rows))) (col_sums ns rows).
Definition stack_int_mean (ns : nat) (data : list (list Z)) (word : list Z) : list (list Z) * list Z :=
  stack (mean_trunc ns) data word.

(* voltage.svd_denoise_npx: rank = rank or nc // 4; for every distinct collection value (sorted) the
   traces of that collection (np.where order; argsort of equal keys is the identity) are passed to
   _svd_denoise with rank int(rank * size / nc) and written back to their positions. *)
Definition svd_rank (rank nc size : Z) : Z :=
  ((if rank =? 0 then nc / 4 else rank) * size) / nc.
Definition svd_groups (coll : list Z) (rank : Z) : list (list Z * Z) :=
  let nc := Z.of_nat (length coll) in
  map (fun g => let idx := select coll (zrange (length coll)) g in
                (idx, svd_rank rank nc (Z.of_nat (length idx))))
      (uniq_sorted coll).
(* the returned array, row i: the row of its group's result at the position of i inside the group *)
Definition svd_npx {A} (d : A) (f : Z -> list A -> list A) (data : list A) (coll : list Z) (rank : Z) : list A :=
  map (fun i => let g := nth i coll 0 in
                let rows := select coll data g in
                nth (length (filter (fun c => c =? g) (firstn i coll)))
                    (f (svd_rank rank (Z.of_nat (length coll)) (Z.of_nat (length rows))) rows) d)
      (seq 0 (length coll)).

(* ------------------------------------------------------------------ *)
(* 3. smooth.rolling_window, smooth.lp (index structure, any element type) *)
(* ------------------------------------------------------------------ *)
(* Python round(k / 2): half to even *)
Definition py_round_half (k : Z) : Z :=
  if Z.even k then k / 2 else let f := k / 2 in if Z.even f then f else f + 1.

Section Elems.
Variable A : Type.

(* s = np.r_[x[w-1:0:-1], x, x[-1:-w:-1]]   (len x >= w) *)
Definition reflect_pad (w : Z) (x : list A) : list A :=
  rev (firstn (Z.to_nat (w - 1)) (tl x)) ++ x ++ firstn (Z.to_nat (w - 1)) (rev x).

(* np.convolve(wn, s, 'valid')[m] = sum_j wn[j] * s[m + w - 1 - j]:
   the reversed length-w windows of s *)
Definition conv_windows (w : Z) (s : list A) : list (list A) :=
  map (fun m => rev (firstn (Z.to_nat w) (skipn m s)))
      (seq 0 (length s + 1 - Z.to_nat w)).

(* y[round(w/2 - 1) : round(-(w/2))] *)
Definition rolling_windows (w : Z) (x : list A) : list (list A) :=
  pyslice (py_round_half (w - 2)) (py_round_half (- w)) (conv_windows w (reflect_pad w x)).

(* np.pad(ts, lpad, mode='edge') *)
Definition edge_pad (lpad : Z) (x : list A) : list A :=
  match x with
  | [] => []
  | a :: _ => repeat a (Z.to_nat lpad) ++ x ++ repeat (last x a) (Z.to_nat lpad)
  end.

(* smooth.lp: ts_ = pad; ts_ = ft.lp(ts_, ...); return ts_[lpad:ts_.shape[0] - lpad] *)
Definition lp (filt : list A -> list A) (lpad : Z) (x : list A) : list A :=
  let t := filt (edge_pad lpad x) in
  pyslice lpad (Z.of_nat (length t) - lpad) t.
End Elems.
Arguments reflect_pad {A}. Arguments conv_windows {A}. Arguments rolling_windows {A}.
Arguments edge_pad {A}. Arguments lp {A}.

(* float64 product of the integer n with pad = m * 2^-e (0 < m < 2^53), then
   int(np.ceil(.)): round-to-nearest-even of n*m to 53 significant bits *)
Definition rne53 (N : Z) : Z :=
  if N <? 2 ^ 53 then N
  else let sh := Z.log2 N - 52 in
       let q := N / 2 ^ sh in
       let r := N mod 2 ^ sh in
       let half := 2 ^ (sh - 1) in
       let q' := if (half <? r) || ((r =? half) && Z.odd q) then q + 1 else q in
       q' * 2 ^ sh.
Definition lpad_of (n m e : Z) : Z := cdiv (rne53 (n * m)) (2 ^ e).

(* rolling_window over the integers for index probes: 0 = ValueError *)
Definition rolling_taps (n w : Z) : option (list (list Z)) :=
  if n <? w then None
  else if w <? 3 then Some (map (fun k => [k]) (zrange (Z.to_nat n)))
  else Some (rolling_windows w (zrange (Z.to_nat n))).

(* ------------------------------------------------------------------ *)
(* 4./5. field-valued models: rolling_window values, Savitzky-Golay, cadzow *)
(* ------------------------------------------------------------------ *)
Section Field.
Variable R : Type.
Variables (rO rI : R) (radd rmul rsub : R -> R -> R) (ropp : R -> R) (rdiv : R -> R -> R).

Definition rsuml (l : list R) : R := fold_right radd rO l.
Definition dot (a b : list R) : R := rsuml (map (fun p => rmul (fst p) (snd p)) (combine a b)).
Fixpoint rpow (t : R) (k : nat) : R := match k with O => rI | S k' => rmul (rpow t k') t end.
Fixpoint rofnat (n : nat) : R := match n with O => rO | S k => radd rI (rofnat k) end.

(* rolling_window: y = np.convolve(w / w.sum(), s, 'valid')[start:stop].
   Result dtype: the weights are float64, so the convolution and the returned slice are float64 WHATEVER the dtype or
   container of x (int16/int32/int64/uint8 arrays, lists of ints, float32): the model's values live in a field,
   nothing is cast back to the input type (the same holds for smooth.lp — real(ifft(...)) — and for
   non_uniform_savgol — np.full(len(y), nan)). *)
Definition rolling (w : list R) (x : list R) : list R :=
  let wn := map (fun a => rdiv a (rsuml w)) w in
  map (dot wn) (rolling_windows (Z.of_nat (length w)) x).

(* --- non_uniform_savgol ---
   x = np.asarray(x, dtype=float) (fix d4ec8f3): the abscissae enter as exact numbers whatever their storage type
   (unsigned / signed integers, float32, lists); the model's abscissae are field elements. *)
(* A[j, k] = t_j^k, k < p   (r = 1.0; A[j,k] = r; r *= t[j]) *)
Definition design_row (p : nat) (t : R) : list R := map (rpow t) (seq 0 p).
(* tAA = np.matmul(tA, A) *)
Definition normal_mat (p : nat) (ts : list R) : list (list R) :=
  map (fun k => map (fun m => rsuml (map (fun t => rmul (rpow t k) (rpow t m)) ts)) (seq 0 p))
      (seq 0 p).
Variable minv : list (list R) -> list (list R).        (* np.linalg.inv *)
(* coeffs = np.matmul(inv(tAA), tA) : p rows of window entries *)
Definition coeffs (p : nat) (ts : list R) : list (list R) :=
  map (fun row => map (fun t => dot row (design_row p t)) ts) (minv (normal_mat p ts)).
(* the p coefficients of the local fit: coeffs @ ywin *)
Definition fit (p : nat) (ts ys : list R) : list R := map (fun crow => dot crow ys) (coeffs p ts).
(* sum_j c[j] * d^j   (x_i = 1; y += c[j] * x_i; x_i *= d) *)
Definition peval (c : list R) (d : R) : R :=
  rsuml (map (fun kc => rmul (snd kc) (rpow d (fst kc))) (combine (seq 0 (length c)) c)).

Definition window_at (half : nat) (i : nat) (l : list R) : list R :=
  firstn (2 * half + 1) (skipn (i - half) l).

(* y_smoothed; window = 2*half+1, p = polynom + 1.  The guards of the source are in savgol. *)
Definition savgol_core (half p : nat) (x y : list R) : list R :=
  let n := length x in
  let centre i := nth i x rO in
  let local i := fit p (map (fun xx => rsub xx (centre i)) (window_at half i x)) (window_at half i y) in
  let first_coeffs := local half in
  let last_coeffs := local (n - half - 1)%nat in
  map (fun i =>
         if (i <? half)%nat then peval first_coeffs (rsub (centre i) (centre half))
         else if (i <? n - half)%nat then hd rO (local i)
         else peval last_coeffs (rsub (centre i) (centre (n - half - 1)%nat)))
      (seq 0 n).

(* error codes: 1 ValueError (sizes / even window / polynom >= window),
   2 UnboundLocalError: len(x) == window >= 3 leaves last_coeffs unset *)
Definition savgol (window polynom : Z) (x y : list R) : nat + list R :=
  if negb (length x =? length y)%nat then inl 1%nat
  else if Z.of_nat (length x) <? window then inl 1%nat
  else if window mod 2 =? 0 then inl 1%nat
  else if polynom >=? window then inl 1%nat
  else if (Z.of_nat (length x) =? window) && (3 <=? window) then inl 2%nat
  else inr (savgol_core (Z.to_nat (window / 2)) (Z.to_nat (polynom + 1)) x y).

(* --- cadzow.denoise, one frequency ---
   entries: for every element of the trajectory matrix (row-major) the trace it
   holds, or -1.  T[it] = W[itr]; T_ = derank(T); out = bincount(itr, T_[it]) / trcount *)
Definition fill (entries : list Z) (w : list R) : list R :=
  map (fun e => if e <? 0 then rO else nth (Z.to_nat e) w rO) entries.
Definition unfill (nc : nat) (entries : list Z) (t : list R) : list R :=
  map (fun k => rdiv (rsuml (map (fun ev => if fst ev =? k then snd ev else rO) (combine entries t)))
                     (rofnat (Z.to_nat (count_eq k entries))))
      (zrange nc).
Variable derank : list R -> list R.
Definition denoise1 (entries : list Z) (w : list R) : list R :=
  unfill (length w) entries (derank (fill entries w)).
(* for _ in np.arange(niter): ... WAV0 = WAV_.copy()    (WAV_ = zeros when niter = 0) *)
Fixpoint denoise_iter (entries : list Z) (k : nat) (w : list R) : list R :=
  match k with O => w | S k' => denoise_iter entries k' (denoise1 entries w) end.
Definition denoise_n (entries : list Z) (niter : nat) (w : list R) : list R :=
  match niter with O => map (fun _ => rO) w | _ => denoise_iter entries niter w end.
End Field.

(* ------------------------------------------------------------------ *)
(* 5. cadzow trajectory indices                                        *)
(* ------------------------------------------------------------------ *)
(* nrows = int(floor(n/2 + 1)); ncols = int(ceil(n/2));
   itraj = tile(arange(nrows), (ncols,1)).T + flipud(arange(ncols)) *)
Definition traj_rows (n : Z) : Z := n / 2 + 1.
Definition traj_cols (n : Z) : Z := cdiv n 2.
Definition traj_at (n r c : Z) : Z := r + (traj_cols n - 1 - c).
Definition traj_idx (n : Z) : list (list Z) :=
  map (fun r => map (fun c => traj_at n r c) (zrange (Z.to_nat (traj_cols n))))
      (zrange (Z.to_nat (traj_rows n))).

(* np.unique(v, return_inverse=True)[1] *)
Definition rank_in (l : list Z) (v : Z) : Z :=
  Z.of_nat (length (filter (fun u => u <? v) (uniq_sorted l))).

(* first trace whose (ix, iy) is (a, b), or -1 (ismember2d) *)
Fixpoint find_pair (k : Z) (ixy : list (Z * Z)) (a b : Z) : Z :=
  match ixy with
  | [] => -1
  | (i, j) :: r => if (i =? a) && (j =? b) then k else find_pair (k + 1) r a b
  end.

(* tiy = np.tile(tiy_, tix_.shape): tiy[R][C] = tiy_[R mod nry][C mod ncy]
   tix = repeat(repeat(tix_, nry, 0), ncy, 1): tix[R][C] = tix_[R / nry][C / ncy]
   (shape, entries row-major) *)
Definition traj_entries (x y : list Z) : Z * Z * list Z :=
  let nx := Z.of_nat (length (uniq_sorted x)) in
  let ny := Z.of_nat (length (uniq_sorted y)) in
  let ixy := combine (map (rank_in x) x) (map (rank_in y) y) in
  let nry := traj_rows ny in let ncy := traj_cols ny in
  let nrows := nry * traj_rows nx in
  let ncols := ncy * traj_cols nx in
  (nrows, ncols,
   flat_map (fun r => map (fun c =>
       find_pair 0 ixy (traj_at nx (r / nry) (c / ncy)) (traj_at ny (r mod nry) (c mod ncy)))
       (zrange (Z.to_nat ncols))) (zrange (Z.to_nat nrows))).

(* trcount = np.bincount(itr): length max(itr) + 1 *)
Definition trcount (entries : list Z) : list Z :=
  map (fun k => count_eq k entries) (zrange (Z.to_nat (zmaxl entries + 1))).
