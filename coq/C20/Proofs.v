(* C20 — lemmas. *)
From Coq Require Import ZArith List Bool Lia Ring Field.
From IBL.lib Require Import PyInt.
From IBL.C20 Require Import Model.
Import ListNotations.
Open Scope Z_scope.

(* ------------------------------------------------------------------ *)
(* smooth.lp with pad = 0: ts_[0:-0] is empty                          *)
(* ------------------------------------------------------------------ *)
Lemma lp_pad_zero_empty (A : Type) (filt : list A -> list A) (x : list A) : lp filt 0 x = [].
Proof.
  unfold lp, pyslice. cbn [Z.opp]. unfold norm_idx. cbn [Z.ltb Z.compare].
  replace (Z.min 0 (Z.of_nat (length (filt (edge_pad 0 x))))) with 0 by lia.
  reflexivity.
Qed.
