(* C20 — lemmas. *)
From Coq Require Import ZArith List Bool Lia Ring Field Sorted.
From IBL.lib Require Import PyInt.
From IBL.C20 Require Import Model.
Import ListNotations.
Open Scope Z_scope.

(* ------------------------------------------------------------------ *)
(* generic sums                                                        *)
(* ------------------------------------------------------------------ *)
Lemma zsum_app l1 l2 : zsum (l1 ++ l2) = zsum l1 + zsum l2.
Proof. induction l1 as [|a l IH]; cbn [app zsum fold_right]; [reflexivity|]. fold (zsum (l ++ l2)) (zsum l). lia. Qed.

Lemma zsum_map_add {A} (f g : A -> Z) l :
  zsum (map (fun x => f x + g x) l) = zsum (map f l) + zsum (map g l).
Proof.
  induction l as [|a l IH]; cbn [map zsum fold_right]; [reflexivity|].
  fold (zsum (map (fun x => f x + g x) l)) (zsum (map f l)) (zsum (map g l)). lia.
Qed.

Lemma zsum_map_ext {A} (f g : A -> Z) l :
  (forall x, In x l -> f x = g x) -> zsum (map f l) = zsum (map g l).
Proof.
  induction l as [|a l IH]; intros H; cbn [map zsum fold_right]; [reflexivity|].
  fold (zsum (map f l)) (zsum (map g l)). rewrite (H a (or_introl eq_refl)), IH; [reflexivity|].
  intros x Hx. apply H. now right.
Qed.

Lemma zsum_map_zero {A} (l : list A) : zsum (map (fun _ => 0) l) = 0.
Proof. induction l as [|a l IH]; cbn [map zsum fold_right]; [reflexivity|]. fold (zsum (map (fun _ : A => 0) l)). lia. Qed.

Lemma zsum_swap {A B} (f : A -> B -> Z) la lb :
  zsum (map (fun a => zsum (map (f a) lb)) la) = zsum (map (fun b => zsum (map (fun a => f a b) la)) lb).
Proof.
  induction la as [|a la IH]; cbn [map zsum fold_right].
  - now rewrite zsum_map_zero.
  - fold (zsum (map (fun a0 => zsum (map (f a0) lb)) la)). rewrite IH.
    rewrite <- zsum_map_add. apply zsum_map_ext. intros b _.
    cbn [map zsum fold_right]. reflexivity.
Qed.

Lemma zrange_S n : zrange (S n) = zrange n ++ [Z.of_nat n].
Proof. unfold zrange. rewrite seq_S, map_app. reflexivity. Qed.

Lemma zsum_indicator (N : nat) (a : Z) : 0 <= a < Z.of_nat N ->
  zsum (map (fun j => if j =? a then 1 else 0) (zrange N)) = 1.
Proof.
  induction N as [|N IH]; intros Ha; [lia|].
  rewrite zrange_S, map_app, zsum_app. cbn [map zsum fold_right].
  destruct (Z.eqb_spec (Z.of_nat N) a) as [E|E].
  - rewrite (zsum_map_ext _ (fun _ => 0)), zsum_map_zero; [lia|].
    intros x Hx. apply in_zrange in Hx. destruct (Z.eqb_spec x a); lia.
  - rewrite IH by lia. lia.
Qed.

Lemma count_eq_cons k a l : count_eq k (a :: l) = (if k =? a then 1 else 0) + count_eq k l.
Proof. unfold count_eq. cbn [filter]. destruct (k =? a); cbn [length]; lia. Qed.

Lemma count_eq_nonneg k l : 0 <= count_eq k l.
Proof. unfold count_eq. lia. Qed.

(* the bins (or chunks) partition a list of ids *)
Lemma count_partition (N : nat) (l : list Z) :
  (forall x, In x l -> 0 <= x < Z.of_nat N) ->
  zsum (map (fun j => count_eq j l) (zrange N)) = Z.of_nat (length l).
Proof.
  induction l as [|a l IH]; intros H.
  - unfold count_eq. cbn [filter length]. apply zsum_map_zero.
  - rewrite (zsum_map_ext _ (fun j => (if j =? a then 1 else 0) + count_eq j l))
      by (intros; apply count_eq_cons).
    rewrite zsum_map_add, zsum_indicator, IH.
    + cbn [length]. lia.
    + intros x Hx. apply H. now right.
    + apply H. now left.
Qed.

Lemma zmaxl_ge l x : In x l -> x <= zmaxl l.
Proof.
  induction l as [|a l IH]; intros H; [destruct H|].
  cbn [zmaxl fold_right]. fold (zmaxl l). destruct H as [->|H]; [lia|]. specialize (IH H). lia.
Qed.
Lemma zmaxl_nonneg l : 0 <= zmaxl l.
Proof. induction l as [|a l IH]; cbn [zmaxl fold_right]; [lia|]. fold (zmaxl l). lia. Qed.

Lemma option_all_some {A} (l : list (option A)) l' : option_all l = Some l' -> l = map Some l'.
Proof.
  revert l'. induction l as [|a l IH]; intros l' H; cbn [option_all] in H.
  - inversion H. reflexivity.
  - destruct a as [a|]; [|discriminate]. destruct (option_all l) as [r|]; [|discriminate].
    inversion H. cbn [map]. now rewrite (IH r eq_refl).
Qed.

(* ------------------------------------------------------------------ *)
(* venn: the peeling loop                                               *)
(* ------------------------------------------------------------------ *)
Lemma add_code_sum n s pre bs :
  n = 2 \/ n = 3 -> length pre = Z.to_nat (2 ^ n - 1) -> length bs = Z.to_nat n ->
  0 <= s < n -> existsb (fun b => b) bs = true ->
  length (add_at pre (vec_code bs - 1) 1) = length pre /\
  region_sum n s (add_at pre (vec_code bs - 1) 1)
  = region_sum n s pre + (if nth (Z.to_nat s) bs false then 1 else 0).
Proof.
  intros [-> | ->] Hp Hb Hs Hex.
  - destruct pre as [|p1 [|p2 [|p3 [|? ?]]]]; try discriminate Hp.
    destruct bs as [|b1 [|b2 [|? ?]]]; try discriminate Hb.
    assert (Hs' : s = 0 \/ s = 1) by lia.
    destruct Hs' as [-> | ->]; destruct b1, b2; try discriminate Hex;
      (split; [reflexivity | cbv -[Z.add]; cbn; lia]).
  - destruct pre as [|p1 [|p2 [|p3 [|p4 [|p5 [|p6 [|p7 [|? ?]]]]]]]]; try discriminate Hp.
    destruct bs as [|b1 [|b2 [|b3 [|? ?]]]]; try discriminate Hb.
    assert (Hs' : s = 0 \/ s = 1 \/ s = 2) by lia.
    destruct Hs' as [-> | [-> | ->]]; destruct b1, b2, b3; try discriminate Hex;
      (split; [reflexivity | cbv -[Z.add]; cbn; lia]).
Qed.

(* contribution of one bin (count vector col) at peeling level i to sorter s *)
Definition gsel (s : Z) (col : list Z) (i : Z) : Z :=
  if (zmaxl col - i >? 0) && (nth (Z.to_nat s) col 0 >=? zmaxl col - i) then 1 else 0.

Lemma existsb_ge_max (col : list Z) t : 0 < t <= zmaxl col ->
  existsb (fun b => b) (map (fun c => c >=? t) col) = true.
Proof.
  induction col as [|a col IH]; cbn [zmaxl fold_right map existsb]; intros H; [lia|].
  fold (zmaxl col) in H. destruct (Z.geb_spec a t) as [G|G]; [reflexivity|].
  cbn [orb]. apply IH. lia.
Qed.

Lemma col_step n s pre col i :
  n = 2 \/ n = 3 -> length pre = Z.to_nat (2 ^ n - 1) -> length col = Z.to_nat n ->
  0 <= s < n -> 0 <= i ->
  let pre' := accumulate pre (level_codes [col] i) in
  length pre' = length pre /\ region_sum n s pre' = region_sum n s pre + gsel s col i.
Proof.
  intros Hn Hp Hc Hs Hi. unfold level_codes, gsel. cbn [flat_map]. rewrite app_nil_r.
  destruct (Z.gtb_spec (zmaxl col - i) 0) as [G|G]; cbn [andb].
  - unfold accumulate. cbn [fold_left].
    destruct (add_code_sum n s pre (map (fun c => c >=? zmaxl col - i) col) Hn Hp) as [H1 H2];
      [now rewrite map_length | exact Hs | apply existsb_ge_max; lia |].
    split; [exact H1|]. rewrite H2. f_equal.
    rewrite (nth_indep _ false ((fun c => c >=? zmaxl col - i) 0)) by (rewrite map_length; lia).
    rewrite (map_nth (fun c => c >=? zmaxl col - i) col 0). reflexivity.
  - unfold accumulate. cbn [fold_left]. split; [reflexivity | lia].
Qed.

Lemma accumulate_app pre a b : accumulate pre (a ++ b) = accumulate (accumulate pre a) b.
Proof. unfold accumulate. apply fold_left_app. Qed.

Lemma level_codes_cons col cols i : level_codes (col :: cols) i = level_codes [col] i ++ level_codes cols i.
Proof. unfold level_codes. cbn [flat_map]. now rewrite app_nil_r. Qed.

Lemma level_step n s cols : forall pre i,
  n = 2 \/ n = 3 -> length pre = Z.to_nat (2 ^ n - 1) ->
  (forall col, In col cols -> length col = Z.to_nat n) -> 0 <= s < n -> 0 <= i ->
  let pre' := accumulate pre (level_codes cols i) in
  length pre' = length pre /\
  region_sum n s pre' = region_sum n s pre + zsum (map (fun col => gsel s col i) cols).
Proof.
  induction cols as [|col cols IH]; intros pre i Hn Hp Hc Hs Hi.
  - cbn. split; [reflexivity | lia].
  - cbv zeta. rewrite level_codes_cons, accumulate_app.
    destruct (col_step n s pre col i Hn Hp (Hc col (or_introl eq_refl)) Hs Hi) as [H1 H2].
    destruct (IH (accumulate pre (level_codes [col] i)) i Hn (eq_trans H1 Hp)
                 (fun c Hc' => Hc c (or_intror Hc')) Hs Hi) as [H3 H4].
    split; [congruence|]. rewrite H4, H2. cbn [map zsum fold_right]. fold (zsum (map (fun c => gsel s c i) cols)). lia.
Qed.

Lemma levels_step n s cols (levels : list Z) : forall pre,
  n = 2 \/ n = 3 -> length pre = Z.to_nat (2 ^ n - 1) ->
  (forall col, In col cols -> length col = Z.to_nat n) -> 0 <= s < n ->
  (forall i, In i levels -> 0 <= i) ->
  let pre' := fold_left (fun p i => accumulate p (level_codes cols i)) levels pre in
  length pre' = length pre /\
  region_sum n s pre' = region_sum n s pre
                        + zsum (map (fun i => zsum (map (fun col => gsel s col i) cols)) levels).
Proof.
  induction levels as [|i levels IH]; intros pre Hn Hp Hc Hs Hl.
  - cbn. split; [reflexivity | lia].
  - cbv zeta. cbn [fold_left].
    destruct (level_step n s cols pre i Hn Hp Hc Hs (Hl i (or_introl eq_refl))) as [H1 H2].
    destruct (IH (accumulate pre (level_codes cols i)) Hn (eq_trans H1 Hp) Hc Hs
                 (fun j Hj => Hl j (or_intror Hj))) as [H3 H4].
    split; [congruence|]. rewrite H4, H2. cbn [map zsum fold_right].
    fold (zsum (map (fun i0 => zsum (map (fun col => gsel s col i0) cols)) levels)). lia.
Qed.

(* a bin holding c <= m spikes of sorter s is counted c times over the m levels *)
Lemma gsel_levels s col (M : nat) :
  let c := nth (Z.to_nat s) col 0 in
  0 <= c <= zmaxl col ->
  zsum (map (gsel s col) (zrange M)) = Z.max 0 (Z.min (Z.of_nat M) (zmaxl col) - (zmaxl col - c)).
Proof.
  intros c Hc. induction M as [|M IH].
  - cbn [zrange seq map zsum fold_right]. lia.
  - rewrite zrange_S, map_app, zsum_app, IH. cbn [map zsum fold_right]. unfold gsel. fold c.
    destruct (Z.gtb_spec (zmaxl col - Z.of_nat M) 0); destruct (Z.geb_spec c (zmaxl col - Z.of_nat M));
      cbn [andb]; lia.
Qed.

Lemma venn_chunk_sum n s cols pre :
  n = 2 \/ n = 3 -> length pre = Z.to_nat (2 ^ n - 1) ->
  (forall col, In col cols -> length col = Z.to_nat n /\ (forall c, In c col -> 0 <= c)) ->
  0 <= s < n ->
  length (venn_chunk cols pre) = length pre /\
  region_sum n s (venn_chunk cols pre)
  = region_sum n s pre + zsum (map (fun col => nth (Z.to_nat s) col 0) cols).
Proof.
  intros Hn Hp Hc Hs. unfold venn_chunk.
  set (M := Z.to_nat (zmaxl (map zmaxl cols))).
  destruct (levels_step n s cols (zrange M) pre Hn Hp (fun c H => proj1 (Hc c H)) Hs) as [H1 H2].
  { intros i Hi. apply in_zrange in Hi. lia. }
  split; [exact H1|]. rewrite H2. f_equal.
  rewrite zsum_swap. apply zsum_map_ext. intros col Hcol.
  destruct (Hc col Hcol) as [Hlen Hpos].
  assert (Hin : In (nth (Z.to_nat s) col 0) col) by (apply nth_In; lia).
  change (fun a => gsel s col a) with (gsel s col).
  rewrite gsel_levels by (split; [apply Hpos, Hin | apply zmaxl_ge, Hin]).
  assert (zmaxl col <= Z.of_nat M).
  { unfold M. rewrite Z2Nat.id by apply zmaxl_nonneg. apply zmaxl_ge, in_map, Hcol. }
  pose proof (Hpos _ Hin). pose proof (zmaxl_ge col _ Hin). lia.
Qed.

(* ------------------------------------------------------------------ *)
(* venn: bins, chunks, the whole function                              *)
(* ------------------------------------------------------------------ *)
Lemma bin_id_range xbin ybin nx ny off sp id :
  bin_id xbin ybin nx ny off sp = Some id -> 0 <= id < nx * ny.
Proof.
  unfold bin_id.
  destruct (Z.leb_spec 0 ((fst sp - off) / xbin)); cbn [andb]; [|discriminate].
  destruct (Z.ltb_spec ((fst sp - off) / xbin) nx); cbn [andb]; [|discriminate].
  destruct (Z.leb_spec 0 (snd sp / ybin)); cbn [andb]; [|discriminate].
  destruct (Z.ltb_spec (snd sp / ybin) ny); [|discriminate].
  intros H'. inversion H'. nia.
Qed.

Lemma option_all_nth {A B} (F : A -> option B) dA dB : forall l l' k,
  option_all (map F l) = Some l' -> (k < length l)%nat ->
  length l' = length l /\ F (nth k l dA) = Some (nth k l' dB).
Proof.
  induction l as [|a l IH]; intros l' k H Hk; [cbn in Hk; lia|].
  cbn [map option_all] in H. destruct (F a) as [b|] eqn:Fa; [|discriminate].
  destruct (option_all (map F l)) as [r|] eqn:Hr; [|discriminate]. inversion H; subst l'.
  destruct k as [|k].
  - cbn [nth length]. split; [|exact Fa].
    destruct l as [|a2 l2]; [cbn in Hr; inversion Hr; reflexivity|].
    f_equal. apply (IH r 0%nat eq_refl). cbn; lia.
  - cbn [nth length]. cbn [length] in Hk. destruct (IH r k eq_refl ltac:(lia)) as [H1 H2].
    split; [now f_equal | exact H2].
Qed.

Lemma option_all_in {A B} (F : A -> option B) : forall l l' y,
  option_all (map F l) = Some l' -> In y l' -> exists x, In x l /\ F x = Some y.
Proof.
  induction l as [|a l IH]; intros l' y H Hy; cbn [map option_all] in H.
  - inversion H; subst. destruct Hy.
  - destruct (F a) as [b|] eqn:Fa; [|discriminate].
    destruct (option_all (map F l)) as [r|] eqn:Hr; [|discriminate]. inversion H; subst l'.
    destruct Hy as [<-|Hy].
    + exists a. split; [now left | exact Fa].
    + destruct (IH r y eq_refl Hy) as [x [Hx Fx]]. exists x. split; [now right | exact Fx].
Qed.

Lemma option_all_length {A B} (F : A -> option B) : forall l l',
  option_all (map F l) = Some l' -> length l' = length l.
Proof.
  induction l as [|a l IH]; intros l' H; cbn [map option_all] in H.
  - inversion H. reflexivity.
  - destruct (F a); [|discriminate]. destruct (option_all (map F l)) as [r|]; [|discriminate].
    inversion H. cbn [length]. f_equal. now apply IH.
Qed.

Lemma chunk_cols_sum P (trains : list (list spike)) ch cols n s pre :
  n = 2 \/ n = 3 -> n = Z.of_nat (length trains) -> length pre = Z.to_nat (2 ^ n - 1) ->
  0 <= s < n -> chunk_cols P trains ch = Some cols ->
  length (venn_chunk cols pre) = length pre /\
  region_sum n s (venn_chunk cols pre)
  = region_sum n s pre
    + Z.of_nat (length (chunk_spikes (ch * v_chunk P) (v_chunk P) (nth (Z.to_nat s) trains []))).
Proof.
  intros Hn Hlen Hp Hs H. unfold chunk_cols in H.
  destruct (chunk_ids P trains ch) as [idss|] eqn:Hids; [|discriminate]. inversion H; subst cols; clear H.
  unfold chunk_ids in Hids.
  set (F := fun t => option_all (map (bin_id (v_xbin P) (v_ybin P) (v_nx P) (v_ny P) (ch * v_chunk P))
                                     (chunk_spikes (ch * v_chunk P) (v_chunk P) t))) in Hids.
  destruct (option_all_nth F [] [] trains idss (Z.to_nat s) Hids ltac:(lia)) as [Hl Hk].
  unfold F in Hk.
  pose proof (option_all_length _ _ _ Hk) as Hlk.
  assert (Hrange : forall id, In id (nth (Z.to_nat s) idss []) -> 0 <= id < v_nx P * v_ny P).
  { intros id Hid. destruct (option_all_in _ _ _ id Hk Hid) as [sp [_ Hsp]]. exact (bin_id_range _ _ _ _ _ _ _ Hsp). }
  destruct (venn_chunk_sum n s (cols_of (v_nx P * v_ny P) idss) pre Hn Hp) as [H1 H2]; [|exact Hs|].
  { intros col Hcol. unfold cols_of in Hcol. apply in_map_iff in Hcol. destruct Hcol as [j [<- _]].
    split; [rewrite map_length; lia|]. intros c Hc. apply in_map_iff in Hc. destruct Hc as [ids [<- _]].
    apply count_eq_nonneg. }
  split; [exact H1|]. rewrite H2. f_equal. unfold cols_of. rewrite map_map.
  rewrite (zsum_map_ext _ (fun j => count_eq j (nth (Z.to_nat s) idss []))).
  - rewrite count_partition; [lia|]. intros x Hx. specialize (Hrange x Hx). lia.
  - intros j _. rewrite (nth_indep _ 0 ((fun l => count_eq j l) [])) by (rewrite map_length; lia).
    apply (map_nth (fun l => count_eq j l) idss []).
Qed.

Lemma venn_loop_sum P (trains : list (list spike)) n s : forall chs pre res,
  n = 2 \/ n = 3 -> n = Z.of_nat (length trains) -> length pre = Z.to_nat (2 ^ n - 1) ->
  0 <= s < n -> venn_loop P trains chs pre = Some res ->
  length res = length pre /\
  region_sum n s res
  = region_sum n s pre
    + zsum (map (fun ch => Z.of_nat (length (chunk_spikes (ch * v_chunk P) (v_chunk P)
                                                          (nth (Z.to_nat s) trains [])))) chs).
Proof.
  induction chs as [|ch chs IH]; intros pre res Hn Hlen Hp Hs H; cbn [venn_loop] in H.
  - inversion H. cbn [map zsum fold_right]. split; [reflexivity | lia].
  - destruct (chunk_cols P trains ch) as [cols|] eqn:Hc; [|discriminate].
    destruct (chunk_cols_sum P trains ch cols n s pre Hn Hlen Hp Hs Hc) as [H1 H2].
    destruct (IH _ _ Hn Hlen (eq_trans H1 Hp) Hs H) as [H3 H4].
    split; [congruence|]. rewrite H4, H2. cbn [map zsum fold_right].
    fold (zsum (map (fun ch0 => Z.of_nat (length (chunk_spikes (ch0 * v_chunk P) (v_chunk P)
                                                          (nth (Z.to_nat s) trains [])))) chs)). lia.
Qed.

Lemma in_chunk_div chunk ch (sp : spike) : 0 < chunk ->
  in_chunk (ch * chunk) chunk sp = (ch =? fst sp / chunk).
Proof.
  intros Hc. unfold in_chunk.
  pose proof (Z.div_mod (fst sp) chunk ltac:(lia)). pose proof (Z.mod_pos_bound (fst sp) chunk Hc).
  destruct (Z.eqb_spec ch (fst sp / chunk)) as [E|E];
  destruct (Z.leb_spec (ch * chunk) (fst sp)); destruct (Z.ltb_spec (fst sp) (ch * chunk + chunk));
    cbn [andb]; try reflexivity; exfalso; nia.
Qed.

(* every spike lies in exactly one chunk *)
Lemma chunks_cover chunk (N : nat) (t : list spike) : 0 < chunk ->
  (forall sp, In sp t -> 0 <= fst sp / chunk < Z.of_nat N) ->
  zsum (map (fun ch => Z.of_nat (length (chunk_spikes (ch * chunk) chunk t))) (zrange N))
  = Z.of_nat (length t).
Proof.
  intros Hc. induction t as [|a t IH]; intros H.
  - cbn [chunk_spikes filter length]. apply zsum_map_zero.
  - rewrite (zsum_map_ext _ (fun ch => (if ch =? fst a / chunk then 1 else 0)
                                       + Z.of_nat (length (chunk_spikes (ch * chunk) chunk t)))).
    + rewrite zsum_map_add, zsum_indicator, IH; [cbn [length]; lia | |].
      * intros sp Hsp. apply H. now right.
      * apply H. now left.
    + intros ch _. unfold chunk_spikes. cbn [filter]. rewrite in_chunk_div by exact Hc.
      destruct (ch =? fst a / chunk); cbn [length]; lia.
Qed.

Lemma region_sum_zero n s : n = 2 \/ n = 3 -> 0 <= s < n ->
  region_sum n s (repeat 0 (Z.to_nat (2 ^ n - 1))) = 0.
Proof.
  intros [-> | ->] Hs.
  - assert (Hs' : s = 0 \/ s = 1) by lia. destruct Hs' as [-> | ->]; reflexivity.
  - assert (Hs' : s = 0 \/ s = 1 \/ s = 2) by lia. destruct Hs' as [-> | [-> | ->]]; reflexivity.
Qed.

Theorem venn_conserves P (trains : list (list spike)) res n s :
  n = Z.of_nat (length trains) -> n = 2 \/ n = 3 -> 0 < v_chunk P ->
  (forall t sp, In t trains -> In sp t -> 0 <= fst sp) ->
  venn P trains = Some res -> 0 <= s < n ->
  Z.of_nat (length res) = 2 ^ n - 1 /\
  region_sum n s res = Z.of_nat (length (nth (Z.to_nat s) trains [])).
Proof.
  intros Hlen Hn Hc Hpos H Hs. unfold venn in H.
  match type of H with (if ?b then _ else _) = _ => destruct b end; [discriminate|].
  rewrite <- Hlen in H.
  destruct (venn_loop_sum P trains n s _ _ res Hn Hlen (repeat_length _ _) Hs H) as [H1 H2].
  split.
  { rewrite H1, repeat_length. destruct Hn as [-> | ->]; reflexivity. }
  rewrite H2, region_sum_zero by assumption.
  rewrite chunks_cover; [lia | exact Hc |].
  intros sp Hsp.
  assert (Ht : In (nth (Z.to_nat s) trains []) trains) by (apply nth_In; lia).
  pose proof (Hpos _ _ Ht Hsp) as H0.
  assert (Hmax : fst sp <= max_sample trains).
  { unfold max_sample. etransitivity; [apply (zmaxl_ge (map fst (nth (Z.to_nat s) trains []))), in_map, Hsp|].
    apply zmaxl_ge. apply (in_map (fun t => zmaxl (map fst t))), Ht. }
  pose proof (Z.div_pos (fst sp) (v_chunk P) H0 Hc).
  pose proof (Z.div_le_mono _ _ (v_chunk P) Hc Hmax).
  rewrite Z2Nat.id; lia.
Qed.

(* ------------------------------------------------------------------ *)
(* venn: the function returns on every valid input                     *)
(* ------------------------------------------------------------------ *)
Lemma option_all_total {A B} (f : A -> option B) l :
  (forall x, In x l -> exists y, f x = Some y) -> exists l', option_all (map f l) = Some l'.
Proof.
  induction l as [|a l IH]; intros H; [exists []; reflexivity|].
  destruct (H a (or_introl eq_refl)) as [y Hy]. destruct (IH (fun x Hx => H x (or_intror Hx))) as [l' Hl'].
  exists (y :: l'). cbn [map option_all]. now rewrite Hy, Hl'.
Qed.

Lemma nscale_bound chunk xbin d : 0 < xbin -> 0 <= d < chunk -> 0 <= d / xbin < nscale chunk xbin.
Proof.
  intros Hx Hd. unfold nscale. pose proof (cdiv_spec (2 * chunk + xbin) (2 * xbin) ltac:(lia)).
  pose proof (Z.div_mod d xbin ltac:(lia)). pose proof (Z.mod_pos_bound d xbin Hx).
  split; [apply Z.div_pos; lia | nia].
Qed.

Theorem venn_total P (trains : list (list spike)) :
  0 < v_xbin P -> 0 < v_chunk P -> (forall t, In t trains -> t <> []) ->
  (forall t sp, In t trains -> In sp t -> 0 <= snd sp / v_ybin P < v_ny P) ->
  exists res, venn P trains = Some res.
Proof.
  intros Hx Hc Hne Hch. unfold venn.
  assert (E : existsb (fun t : list spike => match t with [] => true | _ => false end) trains = false).
  { apply not_true_is_false. intros H. apply existsb_exists in H. destruct H as [t [Ht Hm]].
    destruct t; [exact (Hne _ Ht eq_refl) | discriminate]. }
  rewrite E. generalize (repeat 0 (Z.to_nat (2 ^ Z.of_nat (length trains) - 1))).
  generalize (zrange (Z.to_nat (max_sample trains / v_chunk P + 1))).
  induction l as [|ch chs IH]; intros pre; [exists pre; reflexivity|].
  cbn [venn_loop]. unfold chunk_cols, chunk_ids.
  destruct (option_all_total (fun t => option_all (map (bin_id (v_xbin P) (v_ybin P) (v_nx P) (v_ny P) (ch * v_chunk P))
                                                   (chunk_spikes (ch * v_chunk P) (v_chunk P) t))) trains) as [idss Hids].
  { intros t Ht. apply option_all_total. intros sp Hsp. unfold chunk_spikes in Hsp. apply filter_In in Hsp.
    destruct Hsp as [Hsp Hin]. unfold in_chunk in Hin. apply andb_true_iff in Hin. destruct Hin as [H1 H2].
    apply Z.leb_le in H1. apply Z.ltb_lt in H2.
    pose proof (nscale_bound (v_chunk P) (v_xbin P) (fst sp - ch * v_chunk P) Hx ltac:(lia)) as Hb.
    pose proof (Hch t sp Ht Hsp) as Hy. unfold bin_id. fold (v_nx P) in Hb.
    destruct (Z.leb_spec 0 ((fst sp - ch * v_chunk P) / v_xbin P)); [|lia].
    destruct (Z.ltb_spec ((fst sp - ch * v_chunk P) / v_xbin P) (v_nx P)); [|lia].
    destruct (Z.leb_spec 0 (snd sp / v_ybin P)); [|lia].
    destruct (Z.ltb_spec (snd sp / v_ybin P) (v_ny P)); [|lia]. cbn [andb]. eexists. reflexivity. }
  rewrite Hids. apply IH.
Qed.

(* ------------------------------------------------------------------ *)
(* voltage.stack                                                       *)
(* ------------------------------------------------------------------ *)
Lemma insert_u_in a l x : In x (insert_u a l) <-> x = a \/ In x l.
Proof.
  induction l as [|b l IH]; cbn [insert_u].
  - cbn. intuition.
  - destruct (Z.ltb_spec a b); [cbn; intuition|].
    destruct (Z.eqb_spec a b) as [->|]; [cbn; intuition|].
    cbn [In]. rewrite IH. intuition.
Qed.

Lemma insert_u_sorted a l : StronglySorted Z.lt l -> StronglySorted Z.lt (insert_u a l).
Proof.
  induction l as [|b l IH]; intros Hs; cbn [insert_u].
  - constructor; constructor.
  - inversion Hs as [|? ? Hs' Hall]; subst.
    destruct (Z.ltb_spec a b) as [Hab|Hab].
    + constructor; [exact Hs|]. constructor; [exact Hab|].
      rewrite Forall_forall in *. intros x Hx. specialize (Hall x Hx). lia.
    + destruct (Z.eqb_spec a b) as [->|Hne]; [exact Hs|].
      constructor; [apply IH, Hs'|]. rewrite Forall_forall in *. intros x Hx.
      apply insert_u_in in Hx. destruct Hx as [->|Hx]; [lia | apply Hall, Hx].
Qed.

Lemma uniq_sorted_in l x : In x (uniq_sorted l) <-> In x l.
Proof.
  induction l as [|a l IH]; cbn [uniq_sorted fold_right]; [reflexivity|].
  fold (uniq_sorted l). rewrite insert_u_in, IH. cbn. intuition.
Qed.

Lemma uniq_sorted_sorted l : StronglySorted Z.lt (uniq_sorted l).
Proof.
  induction l as [|a l IH]; cbn [uniq_sorted fold_right]; [constructor|].
  apply insert_u_sorted, IH.
Qed.

Lemma sorted_nodup l : StronglySorted Z.lt l -> NoDup l.
Proof.
  induction 1 as [|a l Hs IH Hall]; constructor; [|exact IH].
  intros Hin. rewrite Forall_forall in Hall. specialize (Hall a Hin). lia.
Qed.

Lemma zsum_indicator_nodup (l : list Z) a : NoDup l -> In a l ->
  zsum (map (fun g => if g =? a then 1 else 0) l) = 1.
Proof.
  induction 1 as [|b l Hnin Hnd IH]; intros Hin; [destruct Hin|].
  cbn [map zsum fold_right]. fold (zsum (map (fun g => if g =? a then 1 else 0) l)).
  destruct Hin as [->|Hin].
  - rewrite Z.eqb_refl. rewrite (zsum_map_ext _ (fun _ => 0)), zsum_map_zero; [lia|].
    intros x Hx. destruct (Z.eqb_spec x a) as [->|]; [contradiction | reflexivity].
  - rewrite IH by exact Hin. destruct (Z.eqb_spec b a) as [->|]; [contradiction | lia].
Qed.

(* every trace belongs to exactly one group: the folds add up to the trace count *)
Lemma fold_total (groups word : list Z) : NoDup groups -> (forall x, In x word -> In x groups) ->
  zsum (map (fun g => count_eq g word) groups) = Z.of_nat (length word).
Proof.
  intros Hnd. induction word as [|a w IH]; intros Hin.
  - unfold count_eq. cbn [filter length]. apply zsum_map_zero.
  - rewrite (zsum_map_ext _ (fun g => (if g =? a then 1 else 0) + count_eq g w))
      by (intros; apply count_eq_cons).
    rewrite zsum_map_add, zsum_indicator_nodup, IH; [cbn [length]; lia | | exact Hnd |].
    + intros x Hx. apply Hin. now right.
    + apply Hin. now left.
Qed.

Lemma select_cons {A} w (word : list Z) (d : A) data g :
  select (w :: word) (d :: data) g = if w =? g then d :: select word data g else select word data g.
Proof. unfold select. cbn [combine filter fst]. destruct (w =? g); reflexivity. Qed.

Lemma select_length {A} (word : list Z) : forall (data : list A) g, length data = length word ->
  Z.of_nat (length (select word data g)) = count_eq g word.
Proof.
  induction word as [|w word IH]; intros data g Hl.
  - destruct data; reflexivity.
  - destruct data as [|d data]; [discriminate|]. rewrite select_cons, count_eq_cons.
    rewrite (Z.eqb_sym g w). injection Hl as Hl. specialize (IH data g Hl).
    destruct (w =? g); cbn [length]; lia.
Qed.

Lemma select_in {A} (word : list Z) : forall (data : list A) g row,
  In row (select word data g) <->
  exists k, nth_error word k = Some g /\ nth_error data k = Some row.
Proof.
  induction word as [|w word IH]; intros data g row.
  - unfold select. cbn. split; [tauto|]. intros [k [H _]]. destruct k; discriminate.
  - destruct data as [|d data].
    + unfold select. cbn. split; [tauto|]. intros [k [_ H]]. destruct k; discriminate.
    + rewrite select_cons. destruct (Z.eqb_spec w g) as [->|Hne].
      * cbn [In]. rewrite IH. split.
        -- intros [<-|[k Hk]]; [exists 0%nat; cbn; auto | exists (S k); exact Hk].
        -- intros [[|k] Hk]; [left; cbn in Hk; destruct Hk as [_ Hk]; now inversion Hk | right; exists k; exact Hk].
      * rewrite IH. split.
        -- intros [k Hk]. exists (S k). exact Hk.
        -- intros [[|k] Hk]; [cbn in Hk; destruct Hk as [Hk _]; inversion Hk; contradiction | exists k; exact Hk].
Qed.

Lemma count_eq_pos g word : In g word -> 0 < count_eq g word.
Proof.
  induction word as [|w word IH]; intros Hg; [destruct Hg|].
  rewrite count_eq_cons. pose proof (count_eq_nonneg g word).
  destruct Hg as [->|Hg]; [rewrite Z.eqb_refl; lia|]. specialize (IH Hg). destruct (g =? w); lia.
Qed.

Theorem stack_spec {A B} (agg : list A -> B) (data : list A) (word : list Z) st fold :
  length data = length word -> stack agg data word = (st, fold) ->
  let groups := uniq_sorted word in
  StronglySorted Z.lt groups /\ (forall g, In g groups <-> In g word) /\
  st = map (fun g => agg (select word data g)) groups /\
  fold = map (fun g => count_eq g word) groups /\
  (forall g, In g groups -> 0 < count_eq g word /\
             Z.of_nat (length (select word data g)) = count_eq g word) /\
  (forall g row, In row (select word data g) <->
                 exists k, nth_error word k = Some g /\ nth_error data k = Some row) /\
  zsum fold = Z.of_nat (length word).
Proof.
  intros Hl H. unfold stack in H. inversion H; subst st fold; clear H. cbv zeta.
  split; [apply uniq_sorted_sorted|]. split; [apply uniq_sorted_in|].
  split; [reflexivity|]. split; [reflexivity|]. split; [|split].
  - intros g Hg. split; [|apply select_length, Hl].
    apply count_eq_pos. now apply (proj1 (uniq_sorted_in word g)).
  - apply select_in.
  - apply fold_total; [apply sorted_nodup, uniq_sorted_sorted | intros x Hx; now apply uniq_sorted_in].
Qed.

(* header vectors are aggregated in the same (sorted) label order as the rows and fold *)
Theorem stack_header_spec {A B H HB} (agg : list A -> B) (hagg : list H -> HB)
        (data : list A) (hdrs : list (list H)) (word : list Z) st hs fold :
  stack_header agg hagg data hdrs word = (st, hs, fold) ->
  let groups := uniq_sorted word in
  stack agg data word = (st, fold) /\
  length hs = length hdrs /\
  forall (k i : nat) (dh : list H) (dhb : HB), (k < length hdrs)%nat -> (i < length groups)%nat ->
    length (nth k hs []) = length groups /\
    nth i (nth k hs []) dhb = hagg (select word (nth k hdrs dh) (nth i groups 0)) /\
    nth i fold 0 = count_eq (nth i groups 0) word.
Proof.
  unfold stack_header. destruct (stack agg data word) as [st' fold'] eqn:E. intros H0. inversion H0; subst st hs fold; clear H0.
  cbv zeta. split; [reflexivity|]. split; [now rewrite map_length|].
  intros k i dh dhb Hk Hi. unfold stack in *. cbn [fst]. inversion E; subst st' fold'.
  rewrite (nth_indep _ [] ((fun h => map (fun g => hagg (select word h g)) (uniq_sorted word)) dh))
    by (rewrite map_length; exact Hk).
  rewrite (map_nth (fun h => map (fun g => hagg (select word h g)) (uniq_sorted word))).
  split; [now rewrite map_length|]. split.
  - rewrite (nth_indep _ dhb ((fun g => hagg (select word (nth k hdrs dh) g)) 0)) by (rewrite map_length; exact Hi).
    now rewrite (map_nth (fun g => hagg (select word (nth k hdrs dh) g))).
  - rewrite (nth_indep _ 0 ((fun g => count_eq g word) 0)) by (rewrite map_length; exact Hi).
    now rewrite (map_nth (fun g => count_eq g word)).
Qed.

(* ------------------------------------------------------------------ *)
(* smooth.rolling_window / smooth.lp: lengths                          *)
(* ------------------------------------------------------------------ *)
Lemma even_mod k : Z.even k = (k mod 2 =? 0).
Proof.
  destruct (Z.even k) eqn:E; symmetry.
  - apply Z.even_spec in E. destruct E as [m ->]. apply Z.eqb_eq.
    rewrite Z.mul_comm. apply Z.mod_mul. lia.
  - apply Z.eqb_neq. intros Hm. rewrite <- Z.negb_odd in E. apply negb_false_iff in E.
    apply Z.odd_spec in E. destruct E as [m ->].
    rewrite Z.add_comm, Z.mul_comm, Z.mod_add in Hm by lia. discriminate.
Qed.

(* round(w/2 - 1) - round(-(w/2)) = w - 1 for BOTH parities (Python rounds half to even) *)
Lemma round_half_span w : py_round_half (w - 2) - py_round_half (- w) = w - 1.
Proof.
  unfold py_round_half. rewrite !even_mod.
  pose proof (Z.div_mod w 2 ltac:(lia)). pose proof (Z.mod_pos_bound w 2 ltac:(lia)).
  pose proof (Z.div_mod (w - 2) 2 ltac:(lia)). pose proof (Z.mod_pos_bound (w - 2) 2 ltac:(lia)).
  pose proof (Z.div_mod (- w) 2 ltac:(lia)). pose proof (Z.mod_pos_bound (- w) 2 ltac:(lia)).
  pose proof (Z.div_mod ((w - 2) / 2) 2 ltac:(lia)). pose proof (Z.mod_pos_bound ((w - 2) / 2) 2 ltac:(lia)).
  pose proof (Z.div_mod (- w / 2) 2 ltac:(lia)). pose proof (Z.mod_pos_bound (- w / 2) 2 ltac:(lia)).
  destruct (Z.eqb_spec ((w - 2) mod 2) 0); destruct (Z.eqb_spec (- w mod 2) 0);
  destruct (Z.eqb_spec (((w - 2) / 2) mod 2) 0); destruct (Z.eqb_spec ((- w / 2) mod 2) 0); lia.
Qed.

Lemma round_half_bounds w : 3 <= w ->
  0 <= py_round_half (w - 2) /\ py_round_half (- w) < 0 /\ 2 * py_round_half (w - 2) <= w - 1.
Proof.
  intros Hw. unfold py_round_half. rewrite !even_mod.
  pose proof (Z.div_mod (w - 2) 2 ltac:(lia)). pose proof (Z.mod_pos_bound (w - 2) 2 ltac:(lia)).
  pose proof (Z.div_mod (- w) 2 ltac:(lia)). pose proof (Z.mod_pos_bound (- w) 2 ltac:(lia)).
  destruct (Z.eqb_spec ((w - 2) mod 2) 0); destruct (Z.eqb_spec (- w mod 2) 0);
  destruct (Z.eqb_spec (((w - 2) / 2) mod 2) 0); destruct (Z.eqb_spec ((- w / 2) mod 2) 0); lia.
Qed.

(* where the output slice starts: centred would be h for window_len = 2h+1 *)
Lemma round_half_start h : 0 <= h ->
  py_round_half (2 * h + 1 - 2) = h - h mod 2 /\ py_round_half (2 * h - 2) = h - 1.
Proof.
  intros Hh. unfold py_round_half. rewrite !even_mod.
  pose proof (Z.div_mod h 2 ltac:(lia)). pose proof (Z.mod_pos_bound h 2 ltac:(lia)).
  pose proof (Z.div_mod (2 * h + 1 - 2) 2 ltac:(lia)). pose proof (Z.mod_pos_bound (2 * h + 1 - 2) 2 ltac:(lia)).
  pose proof (Z.div_mod (2 * h - 2) 2 ltac:(lia)). pose proof (Z.mod_pos_bound (2 * h - 2) 2 ltac:(lia)).
  pose proof (Z.div_mod ((2 * h + 1 - 2) / 2) 2 ltac:(lia)). pose proof (Z.mod_pos_bound ((2 * h + 1 - 2) / 2) 2 ltac:(lia)).
  split.
  - destruct (Z.eqb_spec ((2 * h + 1 - 2) mod 2) 0); destruct (Z.eqb_spec (((2 * h + 1 - 2) / 2) mod 2) 0); lia.
  - destruct (Z.eqb_spec ((2 * h - 2) mod 2) 0); lia.
Qed.

Lemma pyslice_length {A} a b (l : list A) :
  0 <= a -> b < 0 -> a <= Z.of_nat (length l) + b ->
  Z.of_nat (length (pyslice a b l)) = Z.of_nat (length l) + b - a.
Proof.
  intros Ha Hb Hab. unfold pyslice, norm_idx.
  destruct (Z.ltb_spec a 0); [lia|]. destruct (Z.ltb_spec b 0); [|lia].
  rewrite firstn_length, skipn_length. lia.
Qed.

Lemma pyslice_length_pos {A} a b (l : list A) :
  0 <= a <= b -> b <= Z.of_nat (length l) -> Z.of_nat (length (pyslice a b l)) = b - a.
Proof.
  intros Ha Hb. unfold pyslice, norm_idx.
  destruct (Z.ltb_spec a 0); [lia|]. destruct (Z.ltb_spec b 0); [lia|].
  rewrite firstn_length, skipn_length. lia.
Qed.

Lemma firstn_incl {A} n (l : list A) x : In x (firstn n l) -> In x l.
Proof. intros H. rewrite <- (firstn_skipn n l). apply in_or_app. now left. Qed.
Lemma skipn_incl {A} n (l : list A) x : In x (skipn n l) -> In x l.
Proof. intros H. rewrite <- (firstn_skipn n l). apply in_or_app. now right. Qed.
Lemma pyslice_incl {A} a b (l : list A) x : In x (pyslice a b l) -> In x l.
Proof. unfold pyslice. intros H. eapply skipn_incl, firstn_incl, H. Qed.

Lemma reflect_pad_length {A} w (x : list A) : 1 <= w <= Z.of_nat (length x) ->
  Z.of_nat (length (reflect_pad w x)) = Z.of_nat (length x) + 2 * (w - 1).
Proof.
  intros Hw. unfold reflect_pad. rewrite !app_length, rev_length, !firstn_length, rev_length.
  destruct x as [|a x]; cbn [length tl] in *; lia.
Qed.

Lemma reflect_pad_incl {A} w (x : list A) y : In y (reflect_pad w x) -> In y x.
Proof.
  unfold reflect_pad. intros H. apply in_app_or in H. destruct H as [H|H].
  - apply in_rev in H. apply firstn_incl in H. destruct x; [destruct H | now right].
  - apply in_app_or in H. destruct H as [H|H]; [exact H|]. apply firstn_incl in H. now apply in_rev.
Qed.

Lemma conv_windows_spec {A} w (s : list A) win : 1 <= w <= Z.of_nat (length s) ->
  In win (conv_windows w s) -> Z.of_nat (length win) = w /\ forall y, In y win -> In y s.
Proof.
  intros Hw H. unfold conv_windows in H. apply in_map_iff in H. destruct H as [m [<- Hm]].
  apply in_seq in Hm. split.
  - rewrite rev_length, firstn_length, skipn_length. lia.
  - intros y Hy. apply in_rev in Hy. eapply skipn_incl, firstn_incl, Hy.
Qed.

(* every window_len >= 3 (both parities), every input at least that long: one output per
   input sample, each a combination of exactly window_len input samples *)
Theorem rolling_keeps_length {A} w (x : list A) : 3 <= w <= Z.of_nat (length x) ->
  length (rolling_windows w x) = length x /\
  forall win, In win (rolling_windows w x) ->
    Z.of_nat (length win) = w /\ forall y, In y win -> In y x.
Proof.
  intros Hw. pose proof (reflect_pad_length w x ltac:(lia)) as Hs.
  destruct (round_half_bounds w ltac:(lia)) as [Ha [Hb Hc]]. pose proof (round_half_span w) as Hsp.
  split.
  - unfold rolling_windows. apply Nat2Z.inj. rewrite pyslice_length; try assumption;
      unfold conv_windows; rewrite map_length, seq_length; lia.
  - intros win Hin. unfold rolling_windows in Hin. apply pyslice_incl in Hin.
    destruct (conv_windows_spec w (reflect_pad w x) win ltac:(lia) Hin) as [H1 H2].
    split; [exact H1|]. intros y Hy. apply reflect_pad_incl with (w := w), H2, Hy.
Qed.

Lemma rolling_taps_small n w : w < 3 -> w <= n ->
  rolling_taps n w = Some (map (fun k => [k]) (zrange (Z.to_nat n))).
Proof. intros H1 H2. unfold rolling_taps. destruct (Z.ltb_spec n w); [lia|]. destruct (Z.ltb_spec w 3); [reflexivity|lia]. Qed.

(* --- lp --- *)
Lemma edge_pad_length {A} lpad (x : list A) : 0 <= lpad -> x <> [] ->
  Z.of_nat (length (edge_pad lpad x)) = Z.of_nat (length x) + 2 * lpad.
Proof.
  intros Hl Hx. destruct x as [|a x]; [contradiction|]. unfold edge_pad.
  rewrite !app_length, !repeat_length. lia.
Qed.

Theorem lp_keeps_length {A} (filt : list A -> list A) lpad (x : list A) :
  (forall l, length (filt l) = length l) -> 0 <= lpad -> length (lp filt lpad x) = length x.
Proof.
  intros Hf Hl. unfold lp. cbv zeta. destruct x as [|a x].
  - unfold pyslice. assert (H0 : length (filt (edge_pad lpad [])) = 0%nat) by (rewrite Hf; reflexivity).
    rewrite firstn_length, skipn_length, H0. cbn [length]. lia.
  - apply Nat2Z.inj. pose proof (edge_pad_length lpad (a :: x) ltac:(lia) ltac:(discriminate)).
    rewrite pyslice_length_pos; rewrite ?Hf; lia.
Qed.

(* a positive pad always gives a positive pad length (n * pad in float64, then ceil) *)
Lemma rne53_pos N : 0 < N -> 0 < rne53 N.
Proof.
  intros HN. unfold rne53. destruct (Z.ltb_spec N (2 ^ 53)); [exact HN|].
  pose proof (Z.log2_spec N HN) as [Hlo _].
  assert (53 <= Z.log2 N) by (apply Z.log2_le_pow2; lia).
  set (sh := Z.log2 N - 52) in *.
  assert (Hp : 0 < 2 ^ sh) by (apply Z.pow_pos_nonneg; lia).
  assert (2 ^ sh <= N).
  { etransitivity; [|exact Hlo]. apply Z.pow_le_mono_r; lia. }
  assert (0 < N / 2 ^ sh) by (apply Z.div_str_pos; lia).
  destruct (_ || _); nia.
Qed.

Lemma lpad_of_nonneg n m e : 0 <= n -> 0 <= m -> 0 <= e -> 0 <= lpad_of n m e.
Proof.
  intros Hn Hm He. unfold lpad_of. apply cdiv_nonneg; [apply Z.pow_pos_nonneg; lia|].
  assert (H : 0 <= n * m) by nia. destruct (Z.eq_dec (n * m) 0) as [E|E].
  - rewrite E. reflexivity.
  - pose proof (rne53_pos (n * m) ltac:(lia)). lia.
Qed.

Lemma lpad_of_pos n m e : 0 < n -> 0 < m -> 0 <= e -> 0 < lpad_of n m e.
Proof.
  intros Hn Hm He. unfold lpad_of. apply cdiv_pos; [apply Z.pow_pos_nonneg; lia|].
  apply rne53_pos. nia.
Qed.

(* ------------------------------------------------------------------ *)
(* constants through lp (any element type)                             *)
(* ------------------------------------------------------------------ *)
Lemma all_eq_repeat {A} (c : A) l : (forall y, In y l -> y = c) -> l = repeat c (length l).
Proof.
  induction l as [|a l IH]; intros H; [reflexivity|]. cbn [length repeat].
  rewrite (H a (or_introl eq_refl)). f_equal. apply IH. intros y Hy. apply H. now right.
Qed.

Lemma map_const_repeat {A B} (f : A -> B) c l : (forall y, In y l -> f y = c) -> map f l = repeat c (length l).
Proof.
  induction l as [|a l IH]; intros H; [reflexivity|]. cbn [map length repeat].
  rewrite (H a (or_introl eq_refl)). f_equal. apply IH. intros y Hy. apply H. now right.
Qed.

Theorem lp_constant {A} (filt : list A -> list A) lpad (c : A) (n : nat) :
  (forall k, filt (repeat c k) = repeat c k) -> 0 <= lpad ->
  lp filt lpad (repeat c n) = repeat c n.
Proof.
  intros Hf Hl.
  assert (Hlen : length (lp filt lpad (repeat c n)) = n).
  { unfold lp; cbv zeta. destruct n as [|n]; [|].
    - unfold edge_pad. cbn [repeat]. change (@nil A) with (repeat c 0). rewrite Hf. unfold pyslice.
      rewrite firstn_length, skipn_length. cbn [repeat length]. lia.
    - apply Nat2Z.inj.
      assert (He : edge_pad lpad (repeat c (S n)) = repeat c (length (edge_pad lpad (repeat c (S n))))).
      { apply all_eq_repeat. intros y Hy. unfold edge_pad in Hy. cbn [repeat] in Hy.
        apply in_app_or in Hy. destruct Hy as [Hy|Hy]; [now apply repeat_spec in Hy|].
        apply in_app_or in Hy. destruct Hy as [Hy|Hy].
        - change (c :: repeat c n) with (repeat c (S n)) in Hy. now apply repeat_spec in Hy.
        - apply repeat_spec in Hy. rewrite Hy. change (c :: repeat c n) with (repeat c (S n)).
          clear. generalize (S n). intros k. induction k as [|k IH]; [reflexivity|].
          cbn [repeat last]. destruct k; [reflexivity | exact IH]. }
      rewrite He, Hf. pose proof (edge_pad_length lpad (repeat c (S n)) ltac:(lia) ltac:(discriminate)) as Hp.
      rewrite repeat_length in Hp. rewrite pyslice_length_pos; rewrite ?repeat_length; lia. }
  rewrite <- Hlen at 2. apply all_eq_repeat. intros y Hy. unfold lp in Hy. cbv zeta in Hy. apply pyslice_incl in Hy.
  assert (He : forall z, In z (edge_pad lpad (repeat c n)) -> z = c).
  { intros z Hz. unfold edge_pad in Hz. destruct n as [|n]; [destruct Hz|]. cbn [repeat] in Hz.
    apply in_app_or in Hz. destruct Hz as [Hz|Hz]; [now apply repeat_spec in Hz|].
    apply in_app_or in Hz. destruct Hz as [Hz|Hz].
    - change (c :: repeat c n) with (repeat c (S n)) in Hz. now apply repeat_spec in Hz.
    - apply repeat_spec in Hz. rewrite Hz. change (c :: repeat c n) with (repeat c (S n)).
      clear. generalize (S n). intros k. induction k as [|k IH]; [reflexivity|].
      cbn [repeat last]. destruct k; [reflexivity | exact IH]. }
  rewrite (all_eq_repeat c _ He), Hf in Hy. now apply repeat_spec in Hy.
Qed.

(* ------------------------------------------------------------------ *)
(* field-valued statements                                              *)
(* ------------------------------------------------------------------ *)
Section FieldProofs.
Variable R : Type.
Variables (rO rI : R) (radd rmul rsub : R -> R -> R) (ropp : R -> R) (rdiv : R -> R -> R) (rinv : R -> R).
Hypothesis Fth : field_theory rO rI radd rmul rsub ropp rdiv rinv (@eq R).
Add Field Ffield : Fth.
Set Default Proof Using "Fth".

Local Notation rsum := (rsuml R rO radd).
Local Notation rdot := (dot R rO radd rmul).
Local Notation pw := (rpow R rI rmul).
Local Notation ofnat := (rofnat R rO rI radd).

Lemma rsum_map_add {A} (f g : A -> R) l :
  rsum (map (fun x => radd (f x) (g x)) l) = radd (rsum (map f l)) (rsum (map g l)).
Proof. induction l as [|a l IH]; cbn [map rsuml fold_right]; [ring|]. fold (rsum (map (fun x => radd (f x) (g x)) l)) (rsum (map f l)) (rsum (map g l)). rewrite IH. ring. Qed.

Lemma rsum_map_ext {A} (f g : A -> R) l : (forall x, In x l -> f x = g x) -> rsum (map f l) = rsum (map g l).
Proof.
  induction l as [|a l IH]; intros H; cbn [map rsuml fold_right]; [reflexivity|].
  fold (rsum (map f l)) (rsum (map g l)). rewrite (H a (or_introl eq_refl)), IH; [reflexivity|].
  intros x Hx. apply H. now right.
Qed.

Lemma rsum_map_zero {A} (l : list A) : rsum (map (fun _ => rO) l) = rO.
Proof. induction l as [|a l IH]; cbn [map rsuml fold_right]; [reflexivity|]. fold (rsum (map (fun _ : A => rO) l)). rewrite IH. ring. Qed.

Lemma rsum_map_scal_l {A} c (f : A -> R) l : rsum (map (fun x => rmul c (f x)) l) = rmul c (rsum (map f l)).
Proof. induction l as [|a l IH]; cbn [map rsuml fold_right]; [ring|]. fold (rsum (map (fun x => rmul c (f x)) l)) (rsum (map f l)). rewrite IH. ring. Qed.

Lemma rsum_map_scal_r {A} c (f : A -> R) l : rsum (map (fun x => rmul (f x) c) l) = rmul (rsum (map f l)) c.
Proof. induction l as [|a l IH]; cbn [map rsuml fold_right]; [ring|]. fold (rsum (map (fun x => rmul (f x) c) l)) (rsum (map f l)). rewrite IH. ring. Qed.

Lemma rsum_swap {A B} (f : A -> B -> R) la lb :
  rsum (map (fun a => rsum (map (f a) lb)) la) = rsum (map (fun b => rsum (map (fun a => f a b) la)) lb).
Proof.
  induction la as [|a la IH]; cbn [map rsuml fold_right].
  - now rewrite rsum_map_zero.
  - fold (rsum (map (fun a0 => rsum (map (f a0) lb)) la)). rewrite IH, <- rsum_map_add.
    apply rsum_map_ext. intros b _. cbn [map rsuml fold_right]. reflexivity.
Qed.

Lemma rsum_single (p : nat) (k : nat) (f : nat -> R) : (k < p)%nat ->
  rsum (map (fun m => if (m =? k)%nat then f m else rO) (seq 0 p)) = f k.
Proof.
  intros Hk. induction p as [|p IH]; [lia|].
  rewrite seq_S, map_app. cbn [map plus].
  assert (Happ : forall l1 l2, rsum (l1 ++ l2) = radd (rsum l1) (rsum l2)).
  { unfold rsuml. induction l1 as [|a l1 IH1]; intros l2; cbn [app fold_right]; [ring|]. rewrite IH1. ring. }
  rewrite Happ. cbn [rsuml fold_right].
  destruct (Nat.eqb_spec p k) as [->|Hne].
  - rewrite (rsum_map_ext _ (fun _ => rO)), rsum_map_zero; [ring|].
    intros x Hx. apply in_seq in Hx. destruct (Nat.eqb_spec x k); [lia | reflexivity].
  - rewrite IH by lia. ring.
Qed.

(* dot product against a function tabulated on seq *)
Lemma dot_seq (f : nat -> R) : forall (p s : nat) (a : list R), length a = p ->
  rdot a (map f (seq s p)) = rsum (map (fun k => rmul (nth k a rO) (f (s + k)%nat)) (seq 0 p)).
Proof.
  induction p as [|p IH]; intros s a Ha.
  - destruct a; [reflexivity | discriminate].
  - destruct a as [|a0 a]; [discriminate|]. injection Ha as Ha.
    cbn [seq map]. unfold dot. cbn [combine map rsuml fold_right fst snd].
    change (fold_right radd rO (map (fun p0 : R * R => rmul (fst p0) (snd p0)) (combine a (map f (seq (S s) p)))))
      with (rdot a (map f (seq (S s) p))).
    rewrite (IH (S s) a Ha). rewrite <- (seq_shift p 0), map_map. unfold rsuml. f_equal.
    + cbn [nth]. now rewrite Nat.add_0_r.
    + apply rsum_map_ext. intros k _. cbn [nth]. now rewrite Nat.add_succ_r.
Qed.

Lemma dot_map_r {A} (f g : A -> R) (l : list A) :
  rdot (map f l) (map g l) = rsum (map (fun x => rmul (f x) (g x)) l).
Proof. unfold dot, rsuml. induction l as [|a l IH]; [reflexivity|]. cbn [map combine fold_right fst snd]. now rewrite IH. Qed.

Lemma peval_seq (c : list R) (d : R) :
  peval R rO rI radd rmul c d = rsum (map (fun k => rmul (nth k c rO) (pw d k)) (seq 0 (length c))).
Proof.
  unfold peval.
  assert (H : forall (c : list R) s,
    rsum (map (fun kc : nat * R => rmul (snd kc) (pw d (fst kc))) (combine (seq s (length c)) c))
    = rsum (map (fun k => rmul (nth k c rO) (pw d (s + k)%nat)) (seq 0 (length c)))).
  { clear c. induction c as [|c0 c IH]; intros s; [reflexivity|].
    cbn [length seq combine map rsuml fold_right fst snd nth]. rewrite Nat.add_0_r. f_equal.
    fold (rsum (map (fun kc : nat * R => rmul (snd kc) (pw d (fst kc))) (combine (seq (S s) (length c)) c))).
    rewrite IH, <- seq_shift, map_map. apply rsum_map_ext. intros k _. cbn [nth]. now rewrite Nat.add_succ_r. }
  apply (H c 0%nat).
Qed.

(* ---------------- rolling_window returns constants unchanged ---------------- *)
Lemma dot_norm_const (w : list R) (W c : R) : W <> rO ->
  rdot (map (fun a => rdiv a W) w) (repeat c (length w)) = rmul (rdiv (rsum w) W) c.
Proof.
  intros HW. unfold dot, rsuml. induction w as [|a w IH]; cbn [map length repeat combine fold_right fst snd].
  - field. exact HW.
  - rewrite IH. field. exact HW.
Qed.

Theorem rolling_constant (w : list R) (c : R) (n : nat) :
  rsum w <> rO -> (3 <= length w <= n)%nat ->
  rolling R rO radd rmul rdiv w (repeat c n) = repeat c n.
Proof.
  intros HW Hn. unfold rolling.
  destruct (rolling_keeps_length (Z.of_nat (length w)) (repeat c n)) as [Hlen Hwin];
    [rewrite repeat_length; lia|].
  rewrite repeat_length in Hlen. rewrite <- Hlen at 2. apply map_const_repeat.
  intros win Hin. destruct (Hwin win Hin) as [H1 H2].
  rewrite (all_eq_repeat c win) by (intros y Hy; apply H2 in Hy; now apply repeat_spec in Hy).
  apply Nat2Z.inj in H1. rewrite H1, dot_norm_const by exact HW. field. exact HW.
Qed.

(* ---------------- cadzow.denoise: identity when the rank is not reduced ---------------- *)
Lemma unfill_sum (w : list R) k : 0 <= k -> forall entries,
  rsum (map (fun ev : Z * R => if fst ev =? k then snd ev else rO)
            (combine entries (fill R rO entries w)))
  = rmul (ofnat (Z.to_nat (count_eq k entries))) (nth (Z.to_nat k) w rO).
Proof.
  intros Hk. induction entries as [|e entries IH].
  - cbn. ring.
  - cbn [fill map combine rsuml fold_right fst snd]. fold (fill R rO entries w).
    fold (rsum (map (fun ev : Z * R => if fst ev =? k then snd ev else rO) (combine entries (fill R rO entries w)))).
    rewrite IH, count_eq_cons. pose proof (count_eq_nonneg k entries).
    rewrite (Z.eqb_sym k e). destruct (Z.eqb_spec e k) as [->|Hne].
    + destruct (Z.ltb_spec k 0); [lia|]. rewrite Z2Nat.inj_add by lia. change (Z.to_nat 1) with 1%nat. cbn [plus rofnat]. ring.
    + cbn [Z.add]. replace (0 + count_eq k entries) with (count_eq k entries) by lia. ring.
Qed.

Lemma map_nth_zrange (w : list R) : map (fun k => nth (Z.to_nat k) w rO) (zrange (length w)) = w.
Proof.
  unfold zrange. rewrite map_map. apply nth_ext with (d := rO) (d' := rO).
  - now rewrite map_length, seq_length.
  - intros i Hi. rewrite map_length, seq_length in Hi.
    rewrite (nth_indep _ rO ((fun x => nth (Z.to_nat (Z.of_nat x)) w rO) 0%nat)) by (rewrite map_length, seq_length; exact Hi).
    rewrite (map_nth (fun x => nth (Z.to_nat (Z.of_nat x)) w rO)), seq_nth by exact Hi.
    now rewrite Nat2Z.id.
Qed.

Theorem denoise_identity (derank : list R -> list R) (entries : list Z) (w : list R) :
  (forall n, (0 < n)%nat -> ofnat n <> rO) ->                      (* characteristic 0 *)
  (forall k, 0 <= k < Z.of_nat (length w) -> 0 < count_eq k entries) ->   (* every trace occurs *)
  derank (fill R rO entries w) = fill R rO entries w ->          (* rank not reduced *)
  denoise1 R rO rI radd rdiv derank entries w = w.
Proof.
  intros Hchar Hcount Hd. unfold denoise1. rewrite Hd. unfold unfill.
  transitivity (map (fun k => nth (Z.to_nat k) w rO) (zrange (length w))); [|apply map_nth_zrange].
  apply map_ext_in. intros k Hk. apply in_zrange in Hk.
  rewrite unfill_sum by lia. specialize (Hcount k Hk).
  assert (Hne : ofnat (Z.to_nat (count_eq k entries)) <> rO) by (apply Hchar; lia).
  field. exact Hne.
Qed.

Theorem denoise_n_identity (derank : list R -> list R) (entries : list Z) (w : list R) (niter : nat) :
  (forall n, (0 < n)%nat -> ofnat n <> rO) ->
  (forall k, 0 <= k < Z.of_nat (length w) -> 0 < count_eq k entries) ->
  derank (fill R rO entries w) = fill R rO entries w -> (1 <= niter)%nat ->
  denoise_n R rO rI radd rdiv derank entries niter w = w.
Proof.
  intros Hchar Hcount Hd Hn. pose proof (denoise_identity derank entries w Hchar Hcount Hd) as H1.
  unfold denoise_n. destruct niter as [|k]; [lia|]. clear Hn.
  generalize (S k). intros m. induction m as [|m IH]; cbn [denoise_iter]; [reflexivity|].
  rewrite H1. exact IH.
Qed.

(* ---------------- non_uniform_savgol reproduces polynomials ---------------- *)
Lemma rsum_mul {A B} (f : A -> R) (g : B -> R) la lb :
  rmul (rsum (map f la)) (rsum (map g lb)) = rsum (map (fun a => rsum (map (fun b => rmul (f a) (g b)) lb)) la).
Proof.
  rewrite <- rsum_map_scal_r. apply rsum_map_ext. intros a _. now rewrite rsum_map_scal_l.
Qed.

Lemma nth_map_seq {B} (f : nat -> B) (p k : nat) d : (k < p)%nat -> nth k (map f (seq 0 p)) d = f k.
Proof.
  intros Hk. rewrite (nth_indep _ d (f 0%nat)) by (rewrite map_length, seq_length; exact Hk).
  rewrite map_nth, seq_nth by exact Hk. reflexivity.
Qed.

(* power sums: the entries of tA @ A *)
Definition psum (ts : list R) (k m : nat) : R := rsum (map (fun t => rmul (pw t k) (pw t m)) ts).

Lemma normal_mat_nth p ts k m : (k < p)%nat -> (m < p)%nat ->
  nth m (nth k (normal_mat R rO rI radd rmul p ts) []) rO = psum ts k m.
Proof. intros Hk Hm. unfold normal_mat. rewrite nth_map_seq by exact Hk. now rewrite nth_map_seq by exact Hm. Qed.

(* Mi is a left inverse of M (p x p) *)
Definition left_inverse (p : nat) (Mi M : list (list R)) : Prop :=
  length Mi = p /\ (forall row, In row Mi -> length row = p) /\
  forall k' m, (k' < p)%nat -> (m < p)%nat ->
    rsum (map (fun k => rmul (nth k (nth k' Mi []) rO) (nth m (nth k M []) rO)) (seq 0 p))
    = if (k' =? m)%nat then rI else rO.

Variable minv : list (list R) -> list (list R).
Local Notation nmat := (normal_mat R rO rI radd rmul).
Local Notation pev := (peval R rO rI radd rmul).
Local Notation lfit := (fit R rO rI radd rmul minv).

(* the local least-squares fit returns the coefficients of any polynomial of degree < p *)
Lemma fit_recovers p ts c : length c = p -> left_inverse p (minv (nmat p ts)) (nmat p ts) ->
  lfit p ts (map (pev c) ts) = c.
Proof.
  intros Hc [HL [Hrow Hinv]]. unfold fit, coeffs. rewrite map_map.
  apply nth_ext with (d := rO) (d' := rO); [rewrite map_length; congruence|].
  intros k' Hk'. rewrite map_length, HL in Hk'.
  set (G := fun row => rdot (map (fun t => rdot row (design_row R rI rmul p t)) ts) (map (pev c) ts)).
  rewrite (nth_indep _ rO (G [])) by (rewrite map_length; lia).
  rewrite (map_nth G). unfold G. clear G.
  set (row := nth k' (minv (nmat p ts)) []).
  assert (Hr : length row = p) by (apply Hrow, nth_In; lia).
  rewrite dot_map_r.
  rewrite (rsum_map_ext _ (fun t => rsum (map (fun k => rsum (map (fun m =>
             rmul (rmul (nth k row rO) (pw t k)) (rmul (nth m c rO) (pw t m))) (seq 0 p))) (seq 0 p)))).
  2:{ intros t _. unfold design_row. rewrite (dot_seq _ p 0 row Hr), peval_seq, Hc. cbn [plus]. apply rsum_mul. }
  rewrite rsum_swap.
  rewrite (rsum_map_ext _ (fun k => rsum (map (fun m => rsum (map (fun t =>
             rmul (rmul (nth k row rO) (pw t k)) (rmul (nth m c rO) (pw t m))) ts)) (seq 0 p))))
    by (intros k _; apply rsum_swap).
  rewrite rsum_swap.
  rewrite (rsum_map_ext _ (fun m => if (m =? k')%nat then nth m c rO else rO)).
  - apply rsum_single. exact Hk'.
  - intros m Hm. apply in_seq in Hm.
    rewrite (rsum_map_ext _ (fun k => rmul (nth m c rO) (rmul (nth k row rO) (nth m (nth k (nmat p ts) []) rO)))).
    + rewrite rsum_map_scal_l. subst row. rewrite (Hinv k' m Hk' ltac:(lia)).
      rewrite Nat.eqb_sym. destruct (m =? k')%nat; ring.
    + intros k Hk. apply in_seq in Hk. rewrite normal_mat_nth by lia. unfold psum.
      rewrite <- !rsum_map_scal_l. apply rsum_map_ext. intros t _. ring.
Qed.

(* Taylor shift: the coefficients of q(a + t) as a polynomial in t *)
Fixpoint padd (a b : list R) : list R :=
  match a, b with
  | [], _ => b
  | _, [] => a
  | x :: a', y :: b' => radd x y :: padd a' b'
  end.
Fixpoint pshift (q : list R) (a : R) : list R :=
  match q with
  | [] => []
  | q0 :: q' => let s := pshift q' a in padd [q0] (padd (map (rmul a) s) (rO :: s))
  end.

Lemma pev_nil d : pev [] d = rO.
Proof. reflexivity. Qed.

Lemma pev_cons c0 c d : pev (c0 :: c) d = radd c0 (rmul d (pev c d)).
Proof.
  rewrite !peval_seq. cbn [length seq map rsuml fold_right nth rpow].
  rewrite <- seq_shift, map_map. fold (rsum (map (fun x => rmul (nth (S x) (c0 :: c) rO) (pw d (S x))) (seq 0 (length c)))).
  rewrite <- rsum_map_scal_l. f_equal; [ring|]. apply rsum_map_ext. intros k _. cbn [nth rpow]. ring.
Qed.

Lemma pev_padd a : forall b d, pev (padd a b) d = radd (pev a d) (pev b d).
Proof.
  induction a as [|x a IH]; intros b d; cbn [padd]; [rewrite pev_nil; ring|].
  destruct b as [|y b]; [rewrite pev_nil; ring|]. rewrite !pev_cons, IH. ring.
Qed.

Lemma pev_scal a c d : pev (map (rmul a) c) d = rmul a (pev c d).
Proof. induction c as [|c0 c IH]; cbn [map]; [rewrite !pev_nil; ring|]. rewrite !pev_cons, IH. ring. Qed.

Lemma padd_length a : forall b, length a = length b -> length (padd a b) = length a.
Proof. induction a as [|x a IH]; intros [|y b] H; try discriminate; [reflexivity|]. cbn [padd length]. f_equal. apply IH. now injection H. Qed.

Lemma pshift_length q a : length (pshift q a) = length q.
Proof.
  induction q as [|q0 q IH]; [reflexivity|]. cbn [pshift].
  assert (H : forall a b : list R, length (padd a b) = Nat.max (length a) (length b)).
  { induction a0 as [|x a0 IHa]; intros [|y b]; cbn [padd length]; try lia. rewrite IHa. lia. }
  rewrite !H. cbn [length]. rewrite map_length, IH. lia.
Qed.

Lemma pshift_spec q a t : pev (pshift q a) t = pev q (radd a t).
Proof.
  induction q as [|q0 q IH]; [reflexivity|]. cbn [pshift]. rewrite !pev_padd, !pev_cons, pev_scal, pev_nil, IH. ring.
Qed.

Lemma pev_zero_hd c : pev c rO = hd rO c.
Proof. destruct c as [|c0 c]; [reflexivity|]. rewrite pev_cons. cbn [hd]. ring. Qed.

(* the filter is the identity on samples of a polynomial of degree <= polynom, for ANY abscissae
   whose windows have an invertible normal matrix (np.linalg.inv returns a left inverse) *)
Theorem savgol_reproduces_polynomials (half p : nat) (x : list R) (q : list R) :
  length q = p -> (2 * half + 1 <= length x)%nat ->
  (forall i, (half <= i < length x - half)%nat ->
     let ts := map (fun xx => rsub xx (nth i x rO)) (firstn (2 * half + 1) (skipn (i - half) x)) in
     left_inverse p (minv (nmat p ts)) (nmat p ts)) ->
  savgol_core R rO rI radd rmul rsub minv half p x (map (pev q) x) = map (pev q) x.
Proof.
  intros Hq Hn Hinv. unfold savgol_core.
  set (n := length x) in *.
  assert (Hlocal : forall i, (half <= i < n - half)%nat ->
            lfit p (map (fun xx => rsub xx (nth i x rO)) (window_at R half i x))
                   (window_at R half i (map (pev q) x)) = pshift q (nth i x rO)).
  { intros i Hi. unfold window_at. rewrite skipn_map, firstn_map.
    set (win := firstn (2 * half + 1) (skipn (i - half) x)).
    rewrite (map_ext (pev q) (fun xx => pev (pshift q (nth i x rO)) (rsub xx (nth i x rO)))).
    2:{ intros xx. rewrite pshift_spec. f_equal. ring. }
    rewrite <- (map_map (fun xx => rsub xx (nth i x rO)) (pev (pshift q (nth i x rO)))).
    apply fit_recovers; [rewrite pshift_length; exact Hq | exact (Hinv i Hi)]. }
  apply nth_ext with (d := rO) (d' := rO); [rewrite !map_length, seq_length; reflexivity|].
  intros i Hi. rewrite map_length, seq_length in Hi.
  rewrite nth_map_seq by exact Hi.
  rewrite (nth_indep (map (pev q) x) rO (pev q rO)) by (rewrite map_length; exact Hi). rewrite (map_nth (pev q)).
  destruct (Nat.ltb_spec i half) as [H1|H1].
  - rewrite Hlocal by lia. rewrite pshift_spec. f_equal. ring.
  - destruct (Nat.ltb_spec i (n - half)) as [H2|H2].
    + rewrite Hlocal by lia. rewrite <- pev_zero_hd, pshift_spec. f_equal. ring.
    + rewrite Hlocal by lia. rewrite pshift_spec. f_equal. ring.
Qed.

(* the public function, with its guards: odd window, polynom < window < len(x) *)
Theorem savgol_public (window polynom : Z) (x q : list R) :
  window mod 2 = 1 -> 0 <= polynom < window -> window < Z.of_nat (length x) ->
  length q = Z.to_nat (polynom + 1) ->
  let half := Z.to_nat (window / 2) in
  (forall i, (half <= i < length x - half)%nat ->
     let ts := map (fun xx => rsub xx (nth i x rO)) (firstn (2 * half + 1) (skipn (i - half) x)) in
     left_inverse (Z.to_nat (polynom + 1)) (minv (nmat (Z.to_nat (polynom + 1)) ts))
                  (nmat (Z.to_nat (polynom + 1)) ts)) ->
  savgol R rO rI radd rmul rsub minv window polynom x (map (pev q) x) = inr (map (pev q) x).
Proof.
  intros Hodd Hp Hn Hq half Hinv. unfold savgol. rewrite map_length, Nat.eqb_refl. cbn [negb].
  destruct (Z.ltb_spec (Z.of_nat (length x)) window); [lia|].
  rewrite Hodd. cbn [Z.eqb].
  destruct (Z.geb_spec polynom window); [lia|].
  destruct (Z.eqb_spec (Z.of_nat (length x)) window); [lia|]. cbn [andb].
  f_equal. apply savgol_reproduces_polynomials; [exact Hq | | exact Hinv].
  pose proof (Z.div_mod window 2 ltac:(lia)). fold half. unfold half. lia.
Qed.

(* scale invariance on polynomial data: rescaling the abscissae x -> c x (c <> 0) leaves the output
   unchanged, because the same samples are a polynomial of the same degree in the new variable *)
Fixpoint pscale (q : list R) (d : R) : list R :=
  match q with [] => [] | q0 :: q' => q0 :: map (rmul d) (pscale q' d) end.

Lemma pscale_length q d : length (pscale q d) = length q.
Proof. induction q as [|q0 q IH]; [reflexivity|]. cbn [pscale length]. now rewrite map_length, IH. Qed.

Lemma pscale_spec q d t : pev (pscale q d) t = pev q (rmul d t).
Proof.
  induction q as [|q0 q IH]; [reflexivity|]. cbn [pscale]. rewrite !pev_cons, pev_scal, IH. ring.
Qed.

Theorem savgol_scale_invariant (window polynom : Z) (x q : list R) (c : R) :
  c <> rO ->
  window mod 2 = 1 -> 0 <= polynom < window -> window < Z.of_nat (length x) ->
  length q = Z.to_nat (polynom + 1) ->
  let half := Z.to_nat (window / 2) in
  let xs := map (rmul c) x in
  (forall i, (half <= i < length xs - half)%nat ->
     let ts := map (fun xx => rsub xx (nth i xs rO)) (firstn (2 * half + 1) (skipn (i - half) xs)) in
     left_inverse (Z.to_nat (polynom + 1)) (minv (nmat (Z.to_nat (polynom + 1)) ts))
                  (nmat (Z.to_nat (polynom + 1)) ts)) ->
  savgol R rO rI radd rmul rsub minv window polynom (map (rmul c) x) (map (pev q) x) = inr (map (pev q) x).
Proof.
  intros Hc Hodd Hp Hn Hq half xs Hinv.
  assert (E : map (pev q) x = map (pev (pscale q (rdiv rI c))) xs).
  { unfold xs. rewrite map_map. apply map_ext. intros t. rewrite pscale_spec. f_equal. field. exact Hc. }
  rewrite E. apply savgol_public; try assumption.
  - unfold xs. now rewrite map_length.
  - now rewrite pscale_length.
Qed.

End FieldProofs.
Unset Default Proof Using.

(* ------------------------------------------------------------------ *)
(* cadzow: trajectory-matrix index structure                           *)
(* ------------------------------------------------------------------ *)
Lemma traj_dims n : 1 <= n -> 1 <= traj_rows n /\ 1 <= traj_cols n /\ traj_rows n + traj_cols n = n + 1.
Proof.
  intros Hn. unfold traj_rows, traj_cols, cdiv.
  pose proof (Z.div_mod n 2 ltac:(lia)). pose proof (Z.mod_pos_bound n 2 ltac:(lia)).
  pose proof (Z.div_mod (- n) 2 ltac:(lia)). pose proof (Z.mod_pos_bound (- n) 2 ltac:(lia)). lia.
Qed.

Lemma traj_at_range n r c : 1 <= n -> 0 <= r < traj_rows n -> 0 <= c < traj_cols n ->
  0 <= traj_at n r c < n.
Proof. intros Hn Hr Hc. pose proof (traj_dims n Hn). unfold traj_at. lia. Qed.

(* every trace index 0..n-1 occurs in the one-dimensional Toeplitz-like index matrix *)
Lemma traj_cover n k : 1 <= n -> 0 <= k < n ->
  exists r c, 0 <= r < traj_rows n /\ 0 <= c < traj_cols n /\ traj_at n r c = k.
Proof.
  intros Hn Hk. pose proof (traj_dims n Hn) as [H1 [H2 H3]].
  destruct (Z_lt_le_dec k (traj_rows n)) as [Hlt|Hge].
  - exists k, (traj_cols n - 1). unfold traj_at. lia.
  - exists (traj_rows n - 1), (traj_cols n - 1 - (k - (traj_rows n - 1))). unfold traj_at. lia.
Qed.

Lemma traj_idx_spec n : 1 <= n ->
  (forall row, In row (traj_idx n) -> forall v, In v row -> 0 <= v < n) /\
  (forall k, 0 <= k < n -> exists row, In row (traj_idx n) /\ In k row).
Proof.
  intros Hn. pose proof (traj_dims n Hn) as [H1 [H2 H3]]. split.
  - intros row Hrow v Hv. unfold traj_idx in Hrow. apply in_map_iff in Hrow. destruct Hrow as [r [<- Hr]].
    apply in_map_iff in Hv. destruct Hv as [c [<- Hc]]. apply in_zrange in Hr, Hc.
    apply traj_at_range; lia.
  - intros k Hk. destruct (traj_cover n k Hn Hk) as [r [c [Hr [Hc E]]]].
    exists (map (fun c => traj_at n r c) (zrange (Z.to_nat (traj_cols n)))). split.
    + unfold traj_idx. apply in_map_iff. exists r. split; [reflexivity|]. apply in_zrange. lia.
    + apply in_map_iff. exists c. split; [exact E|]. apply in_zrange. lia.
Qed.

(* --- ranks (np.unique inverse) --- *)
Lemma filter_len_mono {A} (p q : A -> bool) l :
  (forall x, In x l -> p x = true -> q x = true) -> (length (filter p l) <= length (filter q l))%nat.
Proof.
  induction l as [|a l IH]; intros H; [reflexivity|]. cbn [filter].
  assert (IH' := IH (fun x Hx => H x (or_intror Hx))).
  destruct (p a) eqn:Pa; [rewrite (H a (or_introl eq_refl) Pa); cbn [length]; lia|].
  destruct (q a); cbn [length]; lia.
Qed.

Lemma filter_len_strict {A} (p q : A -> bool) l w :
  (forall x, In x l -> p x = true -> q x = true) -> In w l -> p w = false -> q w = true ->
  (length (filter p l) < length (filter q l))%nat.
Proof.
  induction l as [|a l IH]; intros H Hw Pw Qw; [destruct Hw|]. cbn [filter].
  pose proof (filter_len_mono p q l (fun x Hx => H x (or_intror Hx))) as Hm.
  destruct Hw as [->|Hw].
  - rewrite Pw, Qw. cbn [length]. lia.
  - specialize (IH (fun x Hx => H x (or_intror Hx)) Hw Pw Qw).
    destruct (p a) eqn:Pa; [rewrite (H a (or_introl eq_refl) Pa); cbn [length]; lia|].
    destruct (q a); cbn [length]; lia.
Qed.

Lemma rank_in_range l v : In v l -> 0 <= rank_in l v < Z.of_nat (length (uniq_sorted l)).
Proof.
  intros Hv. unfold rank_in. split; [lia|]. apply inj_lt.
  assert (E : filter (fun _ : Z => true) (uniq_sorted l) = uniq_sorted l).
  { induction (uniq_sorted l) as [|a r IH]; [reflexivity|]. cbn [filter]. now rewrite IH. }
  rewrite <- E at 2. apply filter_len_strict with (w := v); try reflexivity.
  - now apply uniq_sorted_in.
  - apply Z.ltb_irrefl.
Qed.

Lemma rank_in_lt l u v : In u l -> u < v -> rank_in l u < rank_in l v.
Proof.
  intros Hu Huv. unfold rank_in. apply inj_lt. apply filter_len_strict with (w := u).
  - intros x _ Hx. apply Z.ltb_lt in Hx. apply Z.ltb_lt. lia.
  - now apply uniq_sorted_in.
  - apply Z.ltb_irrefl.
  - now apply Z.ltb_lt.
Qed.

Lemma rank_in_inj l u v : In u l -> In v l -> rank_in l u = rank_in l v -> u = v.
Proof.
  intros Hu Hv E. destruct (Z.lt_trichotomy u v) as [H|[H|H]]; [|exact H|].
  - pose proof (rank_in_lt l u v Hu H). lia.
  - pose proof (rank_in_lt l v u Hv H). lia.
Qed.

Lemma NoDup_map_local {A B} (f : A -> B) l :
  NoDup l -> (forall a b, In a l -> In b l -> f a = f b -> a = b) -> NoDup (map f l).
Proof.
  induction 1 as [|a l Hnin Hnd IH]; intros Hinj; [constructor|]. cbn [map]. constructor.
  - intros Hin. apply in_map_iff in Hin. destruct Hin as [b [Eb Hb]].
    assert (b = a) by (apply Hinj; [now right | now left | exact Eb]). subst b. contradiction.
  - apply IH. intros x y Hx Hy. apply Hinj; now right.
Qed.

Lemma combine_map_both {A B C D} (f : A -> C) (g : B -> D) (la : list A) : forall lb,
  combine (map f la) (map g lb) = map (fun p => (f (fst p), g (snd p))) (combine la lb).
Proof. induction la as [|a la IH]; intros [|b lb]; cbn; try reflexivity. now rewrite IH. Qed.

Lemma find_pair_first (ixy : list (Z * Z)) : forall k0 (k : nat) a b,
  NoDup ixy -> nth_error ixy k = Some (a, b) -> find_pair k0 ixy a b = k0 + Z.of_nat k.
Proof.
  induction ixy as [|[i j] r IH]; intros k0 k a b Hnd Hk; [destruct k; discriminate|].
  inversion Hnd as [|? ? Hnin Hnd']; subst. cbn [find_pair]. destruct k as [|k].
  - cbn in Hk. inversion Hk; subst. rewrite !Z.eqb_refl. cbn. lia.
  - cbn [nth_error] in Hk.
    destruct ((i =? a) && (j =? b)) eqn:E.
    + apply andb_true_iff in E. destruct E as [E1 E2]. apply Z.eqb_eq in E1, E2. subst.
      exfalso. apply Hnin. eapply nth_error_In, Hk.
    + rewrite (IH (k0 + 1) k a b Hnd' Hk). lia.
Qed.

(* every trace of a layout with distinct sites occurs in the trajectory matrix, and all
   entries are -1 or a trace index *)
Theorem traj_every_trace_occurs (x y : list Z) (k : nat) :
  length x = length y -> NoDup (combine x y) -> (k < length x)%nat ->
  let '(nrows, ncols, entries) := traj_entries x y in
  Z.of_nat (length entries) = nrows * ncols /\ In (Z.of_nat k) entries /\ 0 < count_eq (Z.of_nat k) entries.
Proof.
  intros Hl Hnd Hk. unfold traj_entries.
  set (nx := Z.of_nat (length (uniq_sorted x))). set (ny := Z.of_nat (length (uniq_sorted y))).
  set (ixy := combine (map (rank_in x) x) (map (rank_in y) y)).
  set (nry := traj_rows ny). set (ncy := traj_cols ny).
  set (nrows := nry * traj_rows nx). set (ncols := ncy * traj_cols nx).
  set (F := fun r c => find_pair 0 ixy (traj_at nx (r / nry) (c / ncy)) (traj_at ny (r mod nry) (c mod ncy))).
  assert (Hxk : In (nth k x 0) x) by (apply nth_In; lia).
  assert (Hyk : In (nth k y 0) y) by (apply nth_In; lia).
  pose proof (rank_in_range x _ Hxk) as Ha. pose proof (rank_in_range y _ Hyk) as Hb. fold nx in Ha. fold ny in Hb.
  destruct (traj_dims nx ltac:(lia)) as [Hx1 [Hx2 Hx3]]. destruct (traj_dims ny ltac:(lia)) as [Hy1 [Hy2 Hy3]].
  fold nry ncy in Hy1, Hy2, Hy3.
  assert (Hlen : Z.of_nat (length (flat_map (fun r => map (fun c => F r c) (zrange (Z.to_nat ncols)))
                                            (zrange (Z.to_nat nrows)))) = nrows * ncols).
  { assert (G : forall l, Z.of_nat (length (flat_map (fun r => map (fun c => F r c) (zrange (Z.to_nat ncols))) l))
                         = Z.of_nat (length l) * ncols).
    { induction l as [|r l IH]; [reflexivity|]. cbn [flat_map length]. rewrite app_length, map_length, zrange_length.
      rewrite Nat2Z.inj_add, IH. unfold ncols. nia. }
    rewrite G, zrange_length. unfold nrows. nia. }
  assert (Hin : In (Z.of_nat k) (flat_map (fun r => map (fun c => F r c) (zrange (Z.to_nat ncols)))
                                          (zrange (Z.to_nat nrows)))).
  { destruct (traj_cover nx _ ltac:(lia) Ha) as [r1 [c1 [Hr1 [Hc1 E1]]]].
    destruct (traj_cover ny _ ltac:(lia) Hb) as [r2 [c2 [Hr2 [Hc2 E2]]]]. fold nry in Hr2. fold ncy in Hc2.
    apply in_flat_map. exists (r1 * nry + r2). split; [apply in_zrange; unfold nrows; nia|].
    apply in_map_iff. exists (c1 * ncy + c2). split; [|apply in_zrange; unfold ncols; nia].
    unfold F.
    assert (D1 : (r1 * nry + r2) / nry = r1) by (symmetry; apply (Z.div_unique _ nry r1 r2); lia).
    assert (D2 : (r1 * nry + r2) mod nry = r2) by (symmetry; apply (Z.mod_unique _ nry r1 r2); lia).
    assert (D3 : (c1 * ncy + c2) / ncy = c1) by (symmetry; apply (Z.div_unique _ ncy c1 c2); lia).
    assert (D4 : (c1 * ncy + c2) mod ncy = c2) by (symmetry; apply (Z.mod_unique _ ncy c1 c2); lia).
    rewrite D1, D2, D3, D4.
    rewrite E1, E2. rewrite (find_pair_first ixy 0 k); [lia| |].
    - unfold ixy. rewrite combine_map_both. apply NoDup_map_local; [exact Hnd|].
      intros [u v] [u' v'] H1 H2 E. cbn [fst snd] in E. inversion E as [[Eu Ev]].
      pose proof (in_combine_l _ _ _ _ H1). pose proof (in_combine_r _ _ _ _ H1).
      pose proof (in_combine_l _ _ _ _ H2). pose proof (in_combine_r _ _ _ _ H2).
      f_equal; [eapply rank_in_inj; eauto | eapply rank_in_inj; eauto].
    - unfold ixy. rewrite combine_map_both.
      rewrite nth_error_map. 
      assert (Hc : nth_error (combine x y) k = Some (nth k x 0, nth k y 0)).
      { rewrite <- (combine_nth x y k 0 0 Hl). apply nth_error_nth'. rewrite combine_length. lia. }
      rewrite Hc. reflexivity. }
  split; [exact Hlen|]. split; [exact Hin | apply count_eq_pos, Hin].
Qed.

(* ------------------------------------------------------------------ *)
(* a plane wave on a complete regular grid fills a rank-one trajectory matrix *)
(* ------------------------------------------------------------------ *)
Section PlaneWave.
Variable R : Type.
Variables (rO rI : R) (radd rmul rsub : R -> R -> R) (ropp : R -> R).
Hypothesis Rth : ring_theory rO rI radd rmul rsub ropp (@eq R).
Add Ring Rring : Rth.
Set Default Proof Using "Rth".
Local Notation pw := (rpow R rI rmul).

Lemma rpow_add t a b : pw t (a + b) = rmul (pw t a) (pw t b).
Proof. induction b as [|b IH]; [rewrite Nat.add_0_r; cbn [rpow]; ring|]. rewrite Nat.add_succ_r. cbn [rpow]. rewrite IH. ring. Qed.

Definition zpw (t : R) (k : Z) : R := pw t (Z.to_nat k).

Theorem plane_wave_rank1 (A u v : R) (nx ny r c : Z) :
  1 <= nx -> 1 <= ny ->
  0 <= r < traj_rows ny * traj_rows nx -> 0 <= c < traj_cols ny * traj_cols nx ->
  let nry := traj_rows ny in let ncy := traj_cols ny in
  rmul (rmul A (zpw u (traj_at nx (r / nry) (c / ncy)))) (zpw v (traj_at ny (r mod nry) (c mod ncy)))
  = rmul (rmul (rmul A (zpw u (r / nry))) (zpw v (r mod nry)))
         (rmul (zpw u (traj_cols nx - 1 - c / ncy)) (zpw v (ncy - 1 - c mod ncy))).
Proof.
  intros Hnx Hny Hr Hc nry ncy.
  destruct (traj_dims nx Hnx) as [Hx1 [Hx2 _]]. destruct (traj_dims ny Hny) as [Hy1 [Hy2 _]]. fold nry ncy in Hy1, Hy2.
  assert (0 <= r / nry) by (apply Z.div_pos; lia).
  assert (0 <= c / ncy < traj_cols nx).
  { split; [apply Z.div_pos; lia|]. apply Z.div_lt_upper_bound; [lia|]. fold ncy in Hc. lia. }
  pose proof (Z.mod_pos_bound r nry ltac:(lia)). pose proof (Z.mod_pos_bound c ncy ltac:(lia)).
  unfold zpw, traj_at. fold ncy. rewrite !Z2Nat.inj_add, !rpow_add by lia. ring.
Qed.
End PlaneWave.
Unset Default Proof Using.

(* ------------------------------------------------------------------ *)
(* venn: the whole result under bin-aligned chunkings                  *)
(* ------------------------------------------------------------------ *)
(* any linear functional of the result vector *)
Definition vcodes (n : Z) : list Z := map (fun k => k + 1) (zrange (Z.to_nat (2 ^ n - 1))).
Definition wsumv (n : Z) (w : Z -> Z) (res : list Z) : Z :=
  zsum (map (fun c => w c * nth (Z.to_nat (c - 1)) res 0) (vcodes n)).

Lemma add_code_w n (w : Z -> Z) pre bs :
  n = 2 \/ n = 3 -> length pre = Z.to_nat (2 ^ n - 1) -> length bs = Z.to_nat n ->
  existsb (fun b => b) bs = true ->
  length (add_at pre (vec_code bs - 1) 1) = length pre /\
  wsumv n w (add_at pre (vec_code bs - 1) 1) = wsumv n w pre + w (vec_code bs).
Proof.
  intros [-> | ->] Hp Hb Hex.
  - destruct pre as [|p1 [|p2 [|p3 [|? ?]]]]; try discriminate Hp.
    destruct bs as [|b1 [|b2 [|? ?]]]; try discriminate Hb.
    destruct b1, b2; try discriminate Hex;
      (split; [reflexivity | cbv -[Z.add Z.mul]; cbn; lia]).
  - destruct pre as [|p1 [|p2 [|p3 [|p4 [|p5 [|p6 [|p7 [|? ?]]]]]]]]; try discriminate Hp.
    destruct bs as [|b1 [|b2 [|b3 [|? ?]]]]; try discriminate Hb.
    destruct b1, b2, b3; try discriminate Hex;
      (split; [reflexivity | cbv -[Z.add Z.mul]; cbn; lia]).
Qed.

Definition gw (w : Z -> Z) (col : list Z) (i : Z) : Z :=
  if zmaxl col - i >? 0 then w (vec_code (map (fun c => c >=? zmaxl col - i) col)) else 0.
(* contribution of one bin to the functional *)
Definition Fw (w : Z -> Z) (col : list Z) : Z := zsum (map (gw w col) (zrange (Z.to_nat (zmaxl col)))).

Lemma col_step_w n w pre col i :
  n = 2 \/ n = 3 -> length pre = Z.to_nat (2 ^ n - 1) -> length col = Z.to_nat n -> 0 <= i ->
  let pre' := accumulate pre (level_codes [col] i) in
  length pre' = length pre /\ wsumv n w pre' = wsumv n w pre + gw w col i.
Proof.
  intros Hn Hp Hc Hi. unfold level_codes, gw. cbn [flat_map]. rewrite app_nil_r.
  destruct (Z.gtb_spec (zmaxl col - i) 0) as [G|G].
  - unfold accumulate. cbn [fold_left].
    apply (add_code_w n w pre (map (fun c => c >=? zmaxl col - i) col) Hn Hp);
      [now rewrite map_length | apply existsb_ge_max; lia].
  - unfold accumulate. cbn [fold_left]. split; [reflexivity | lia].
Qed.

Lemma level_step_w n w cols : forall pre i,
  n = 2 \/ n = 3 -> length pre = Z.to_nat (2 ^ n - 1) ->
  (forall col, In col cols -> length col = Z.to_nat n) -> 0 <= i ->
  let pre' := accumulate pre (level_codes cols i) in
  length pre' = length pre /\
  wsumv n w pre' = wsumv n w pre + zsum (map (fun col => gw w col i) cols).
Proof.
  induction cols as [|col cols IH]; intros pre i Hn Hp Hc Hi.
  - cbn. split; [reflexivity | lia].
  - cbv zeta. rewrite level_codes_cons, accumulate_app.
    destruct (col_step_w n w pre col i Hn Hp (Hc col (or_introl eq_refl)) Hi) as [H1 H2].
    destruct (IH (accumulate pre (level_codes [col] i)) i Hn (eq_trans H1 Hp)
                 (fun c Hc' => Hc c (or_intror Hc')) Hi) as [H3 H4].
    split; [congruence|]. rewrite H4, H2. cbn [map zsum fold_right].
    fold (zsum (map (fun c => gw w c i) cols)). lia.
Qed.

Lemma levels_step_w n w cols (levels : list Z) : forall pre,
  n = 2 \/ n = 3 -> length pre = Z.to_nat (2 ^ n - 1) ->
  (forall col, In col cols -> length col = Z.to_nat n) ->
  (forall i, In i levels -> 0 <= i) ->
  let pre' := fold_left (fun p i => accumulate p (level_codes cols i)) levels pre in
  length pre' = length pre /\
  wsumv n w pre' = wsumv n w pre + zsum (map (fun i => zsum (map (fun col => gw w col i) cols)) levels).
Proof.
  induction levels as [|i levels IH]; intros pre Hn Hp Hc Hl.
  - cbn. split; [reflexivity | lia].
  - cbv zeta. cbn [fold_left].
    destruct (level_step_w n w cols pre i Hn Hp Hc (Hl i (or_introl eq_refl))) as [H1 H2].
    destruct (IH (accumulate pre (level_codes cols i)) Hn (eq_trans H1 Hp) Hc
                 (fun j Hj => Hl j (or_intror Hj))) as [H3 H4].
    split; [congruence|]. rewrite H4, H2. cbn [map zsum fold_right].
    fold (zsum (map (fun i0 => zsum (map (fun col => gw w col i0) cols)) levels)). lia.
Qed.

Lemma zsum_zrange_tail (f : Z -> Z) (a b : nat) : (a <= b)%nat ->
  (forall i, Z.of_nat a <= i < Z.of_nat b -> f i = 0) ->
  zsum (map f (zrange b)) = zsum (map f (zrange a)).
Proof.
  intros Hab. induction b as [|b IH]; intros H.
  - replace a with 0%nat by lia. reflexivity.
  - destruct (Nat.eq_dec a (S b)) as [->|Hne]; [reflexivity|].
    rewrite zrange_S, map_app, zsum_app. cbn [map zsum fold_right].
    rewrite (H (Z.of_nat b)) by lia. rewrite IH; [lia | lia |]. intros i Hi. apply H. lia.
Qed.

Lemma venn_chunk_w n w cols pre :
  n = 2 \/ n = 3 -> length pre = Z.to_nat (2 ^ n - 1) ->
  (forall col, In col cols -> length col = Z.to_nat n) ->
  length (venn_chunk cols pre) = length pre /\
  wsumv n w (venn_chunk cols pre) = wsumv n w pre + zsum (map (Fw w) cols).
Proof.
  intros Hn Hp Hc. unfold venn_chunk.
  set (M := Z.to_nat (zmaxl (map zmaxl cols))).
  destruct (levels_step_w n w cols (zrange M) pre Hn Hp Hc) as [H1 H2].
  { intros i Hi. apply in_zrange in Hi. lia. }
  split; [exact H1|]. rewrite H2. f_equal.
  rewrite zsum_swap. apply zsum_map_ext. intros col Hcol. unfold Fw.
  change (fun a => gw w col a) with (gw w col).
  assert (Hm : zmaxl col <= Z.of_nat M).
  { unfold M. rewrite Z2Nat.id by apply zmaxl_nonneg. apply zmaxl_ge, in_map, Hcol. }
  pose proof (zmaxl_nonneg col).
  apply zsum_zrange_tail; [lia|]. intros i Hi. unfold gw.
  destruct (Z.gtb_spec (zmaxl col - i) 0); [lia | reflexivity].
Qed.

Definition chunk_w (P : vparams) (trains : list (list spike)) (w : Z -> Z) (ch : Z) : Z :=
  match chunk_cols P trains ch with Some cols => zsum (map (Fw w) cols) | None => 0 end.

Lemma venn_loop_w P (trains : list (list spike)) n w : forall chs pre res,
  n = 2 \/ n = 3 -> n = Z.of_nat (length trains) -> length pre = Z.to_nat (2 ^ n - 1) ->
  venn_loop P trains chs pre = Some res ->
  length res = length pre /\
  (forall ch, In ch chs -> chunk_cols P trains ch <> None) /\
  wsumv n w res = wsumv n w pre + zsum (map (chunk_w P trains w) chs).
Proof.
  induction chs as [|ch chs IH]; intros pre res Hn Hlen Hp H; cbn [venn_loop] in H.
  - inversion H. split; [reflexivity|]. split; [intros ch []|]. cbn. lia.
  - destruct (chunk_cols P trains ch) as [cols|] eqn:Hc; [|discriminate].
    assert (Hcl : forall col, In col cols -> length col = Z.to_nat n).
    { unfold chunk_cols in Hc. destruct (chunk_ids P trains ch) as [idss|] eqn:Hids; [|discriminate].
      inversion Hc; subst cols. intros col Hcol. unfold cols_of in Hcol. apply in_map_iff in Hcol.
      destruct Hcol as [j [<- _]]. rewrite map_length. unfold chunk_ids in Hids.
      apply option_all_length in Hids. lia. }
    destruct (venn_chunk_w n w cols pre Hn Hp Hcl) as [H1 H2].
    destruct (IH _ _ Hn Hlen (eq_trans H1 Hp) H) as [H3 [HF H4]].
    split; [congruence|]. split.
    + intros c [<-|Hc']; [congruence | now apply HF].
    + rewrite H4, H2. cbn [map zsum fold_right]. unfold chunk_w at 2. rewrite Hc.
      fold (zsum (map (chunk_w P trains w) chs)). lia.
Qed.

(* --- generic helpers --- *)
Lemma option_all_map_fun {A B} (f : A -> option B) (g : A -> B) : forall l l',
  (forall x y, In x l -> f x = Some y -> y = g x) -> option_all (map f l) = Some l' -> l' = map g l.
Proof.
  induction l as [|a l IH]; intros l' Hfg H; cbn [map option_all] in H.
  - inversion H. reflexivity.
  - destruct (f a) as [b|] eqn:Fa; [|discriminate].
    destruct (option_all (map f l)) as [r|] eqn:Hr; [|discriminate]. inversion H; subst l'. cbn [map].
    f_equal; [apply Hfg; [now left | exact Fa]|]. apply IH; [|reflexivity].
    intros x y Hx. apply Hfg. now right.
Qed.

Lemma count_eq_map {A} (h : A -> Z) j l :
  count_eq j (map h l) = Z.of_nat (length (filter (fun x => j =? h x) l)).
Proof.
  unfold count_eq. f_equal. induction l as [|a l IH]; [reflexivity|]. cbn [map filter].
  destruct (j =? h a); cbn [length]; now rewrite IH.
Qed.

Lemma filter_filter {A} (p q : A -> bool) l : filter p (filter q l) = filter (fun x => q x && p x) l.
Proof.
  induction l as [|a l IH]; [reflexivity|]. cbn [filter]. destruct (q a); cbn [filter andb]; [|exact IH].
  destruct (p a); now rewrite IH.
Qed.

Lemma filter_none {A} (p : A -> bool) l : (forall x, In x l -> p x = false) -> filter p l = [].
Proof.
  induction l as [|a l IH]; intros H; [reflexivity|]. cbn [filter]. rewrite (H a (or_introl eq_refl)).
  apply IH. intros x Hx. apply H. now right.
Qed.

Lemma zmaxl_zeros {A} (l : list A) : zmaxl (map (fun _ => 0) l) = 0.
Proof. induction l as [|a l IH]; [reflexivity|]. cbn [map zmaxl fold_right]. fold (zmaxl (map (fun _ : A => 0) l)). rewrite IH. reflexivity. Qed.

Lemma Fw_zeros {A} w (l : list A) : Fw w (map (fun _ => 0) l) = 0.
Proof. unfold Fw. rewrite zmaxl_zeros. reflexivity. Qed.

Lemma zrange_plus (a b : nat) : zrange (a + b) = zrange a ++ map (fun k => Z.of_nat a + k) (zrange b).
Proof.
  induction b as [|b IH]; [rewrite Nat.add_0_r, app_nil_r; reflexivity|].
  rewrite Nat.add_succ_r, !zrange_S, IH, map_app, app_assoc. cbn [map]. do 2 f_equal. lia.
Qed.

(* sum over a*q + b, a < N, b < q  =  sum over j < N*q *)
Lemma zsum_reindex (f : Z -> Z) (N q : nat) :
  zsum (map (fun a => zsum (map (fun b => f (a * Z.of_nat q + b)) (zrange q))) (zrange N))
  = zsum (map f (zrange (N * q))).
Proof.
  induction N as [|N IH]; [reflexivity|].
  rewrite zrange_S, map_app, zsum_app, IH. cbn [map zsum fold_right].
  replace (S N * q)%nat with (N * q + q)%nat by lia. rewrite zrange_plus, map_app, zsum_app, map_map.
  f_equal. rewrite Z.add_0_r. apply zsum_map_ext. intros b _. f_equal. lia.
Qed.

(* --- the per-sorter spike counts of a global time/channel bin --- *)
Definition colG (P : vparams) (trains : list (list spike)) (X Y : Z) : list Z :=
  map (fun t => Z.of_nat (length (filter (fun sp : spike => (fst sp / v_xbin P =? X) && (snd sp / v_ybin P =? Y)) t)))
      trains.

Definition bin_of (P : vparams) (ch : Z) (sp : spike) : Z :=
  (snd sp / v_ybin P) * v_nx P + (fst sp - ch * v_chunk P) / v_xbin P.

Lemma chunk_ids_some P trains ch idss : chunk_ids P trains ch = Some idss ->
  idss = map (fun t => map (bin_of P ch) (chunk_spikes (ch * v_chunk P) (v_chunk P) t)) trains.
Proof.
  unfold chunk_ids. apply option_all_map_fun. intros t ids _ Hids.
  revert Hids. apply option_all_map_fun. intros sp v _ Hv. unfold bin_id in Hv.
  destruct (_ && _); [|discriminate]. inversion Hv. reflexivity.
Qed.

Lemma nscale_aligned q xbin : 0 < xbin -> 0 <= q -> nscale (q * xbin) xbin = q + 1.
Proof. intros Hx Hq. unfold nscale. apply cdiv_unique; nia. Qed.

(* in an aligned chunk, local bin (Y, xi) is the global bin (ch*q + xi, Y); the extra column xi = q is empty *)
Lemma aligned_pred xbin q ch s Y yb xi :
  0 < xbin -> 0 < q -> 0 <= xi < q + 1 ->
  ((ch * (q * xbin) <=? s) && (s <? ch * (q * xbin) + q * xbin))
    && (Y * (q + 1) + xi =? yb * (q + 1) + (s - ch * (q * xbin)) / xbin)
  = (xi <? q) && ((s / xbin =? ch * q + xi) && (yb =? Y)).
Proof.
  intros Hx Hq Hxi.
  pose proof (Z.div_mod s xbin ltac:(lia)) as Hdm. pose proof (Z.mod_pos_bound s xbin Hx) as Hm.
  assert (E : (s - ch * (q * xbin)) / xbin = s / xbin - ch * q).
  { symmetry. apply (Z.div_unique _ xbin _ (s mod xbin)); [lia | nia]. }
  rewrite E. set (X := s / xbin) in *. set (r := s mod xbin) in *.
  apply eq_true_iff_eq. rewrite !andb_true_iff, !Z.leb_le, !Z.ltb_lt, !Z.eqb_eq. split.
  - intros [[H1 H2] H3].
    assert (ch * q <= X < ch * q + q) by nia.
    assert (Y = yb) by nia. subst yb. split; [nia|]. split; [nia | reflexivity].
  - intros [H1 [H2 H3]]. subst yb. split; [split; nia | nia].
Qed.

Lemma max_sample_nonneg (trains : list (list spike)) : 0 <= max_sample trains.
Proof. apply zmaxl_nonneg. Qed.

Section Aligned.
Variable P : vparams.
Variable trains : list (list spike).
Variable q : Z.
Hypothesis Hq : 0 < q.
Hypothesis Hx : 0 < v_xbin P.
Hypothesis Hchunk : v_chunk P = q * v_xbin P.
Hypothesis Hny : 0 <= v_ny P.
Set Default Proof Using "Hq Hx Hchunk Hny".

Lemma nx_aligned : v_nx P = q + 1.
Proof. unfold v_nx. rewrite Hchunk. apply nscale_aligned; lia. Qed.

(* the count vector of local bin Y*nx + xi of chunk ch *)
Lemma colv_aligned ch idss Y xi : chunk_ids P trains ch = Some idss -> 0 <= xi < q + 1 ->
  map (count_eq (Y * (q + 1) + xi)) idss
  = if xi <? q then colG P trains (ch * q + xi) Y else map (fun _ => 0) trains.
Proof.
  intros Hids Hxi. rewrite (chunk_ids_some P trains ch idss Hids), map_map.
  assert (Hcol : forall t, count_eq (Y * (q + 1) + xi) (map (bin_of P ch) (chunk_spikes (ch * v_chunk P) (v_chunk P) t))
            = Z.of_nat (length (filter (fun sp : spike => (xi <? q) && ((fst sp / v_xbin P =? ch * q + xi) && (snd sp / v_ybin P =? Y))) t))).
  { intros t. rewrite count_eq_map. unfold chunk_spikes. rewrite filter_filter. do 2 f_equal.
    apply filter_ext. intros sp. unfold in_chunk, bin_of. rewrite nx_aligned, Hchunk.
    apply aligned_pred; lia. }
  destruct (Z.ltb_spec xi q) as [Hlt|Hge].
  - unfold colG. apply map_ext. intros t. rewrite Hcol. reflexivity.
  - apply map_ext. intros t. rewrite Hcol. cbn [andb]. rewrite filter_none; [reflexivity | reflexivity].
Qed.

Lemma chunk_w_aligned w ch : chunk_cols P trains ch <> None ->
  chunk_w P trains w ch
  = zsum (map (fun Y => zsum (map (fun xi => Fw w (colG P trains (ch * q + xi) Y)) (zrange (Z.to_nat q))))
              (zrange (Z.to_nat (v_ny P)))).
Proof.
  intros Hsome. unfold chunk_w, chunk_cols in *.
  destruct (chunk_ids P trains ch) as [idss|] eqn:Hids; [|contradiction].
  unfold cols_of. rewrite map_map, nx_aligned.
  replace (Z.to_nat ((q + 1) * v_ny P)) with (Z.to_nat (v_ny P) * Z.to_nat (q + 1))%nat by nia.
  rewrite <- (zsum_reindex (fun j => Fw w (map (count_eq j) idss))).
  apply zsum_map_ext. intros Y _.
  rewrite Z2Nat.id by lia.
  replace (Z.to_nat (q + 1)) with (S (Z.to_nat q)) by lia.
  rewrite zrange_S, map_app, zsum_app. cbn [map zsum fold_right].
  rewrite (colv_aligned ch idss Y (Z.of_nat (Z.to_nat q)) Hids) by lia.
  destruct (Z.ltb_spec (Z.of_nat (Z.to_nat q)) q); [lia|]. rewrite Fw_zeros.
  rewrite (zsum_map_ext _ (fun xi => Fw w (colG P trains (ch * q + xi) Y))); [lia|].
  intros xi Hxi. apply in_zrange in Hxi. rewrite (colv_aligned ch idss Y xi Hids) by lia.
  destruct (Z.ltb_spec xi q); [reflexivity | lia].
Qed.

(* the functional of the result in chunk-free form *)
Definition venn_global (w : Z -> Z) : Z :=
  zsum (map (fun Y => zsum (map (fun X => Fw w (colG P trains X Y))
                                (zrange (Z.to_nat (max_sample trains / v_xbin P + 1)))))
            (zrange (Z.to_nat (v_ny P)))).

Lemma colG_beyond X Y : (forall t sp, In t trains -> In sp t -> 0 <= fst sp) ->
  max_sample trains / v_xbin P < X -> colG P trains X Y = map (fun _ => 0) trains.
Proof.
  intros Hpos HX. unfold colG. apply map_ext_in. intros t Ht. rewrite filter_none; [reflexivity|].
  intros sp Hsp. assert (Hmax : fst sp <= max_sample trains).
  { unfold max_sample. etransitivity; [apply (zmaxl_ge (map fst t)), in_map, Hsp|].
    apply zmaxl_ge. apply (in_map (fun t => zmaxl (map fst t))), Ht. }
  pose proof (Z.div_le_mono _ _ (v_xbin P) Hx Hmax).
  destruct (Z.eqb_spec (fst sp / v_xbin P) X); [lia | reflexivity].
Qed.

Theorem venn_aligned_global res n w :
  n = Z.of_nat (length trains) -> n = 2 \/ n = 3 ->
  (forall t sp, In t trains -> In sp t -> 0 <= fst sp) ->
  venn P trains = Some res ->
  Z.of_nat (length res) = 2 ^ n - 1 /\ wsumv n w res = venn_global w.
Proof.
  intros Hlen Hn Hpos H. unfold venn in H.
  match type of H with (if ?b then _ else _) = _ => destruct b end; [discriminate|].
  rewrite <- Hlen in H.
  destruct (venn_loop_w P trains n w _ _ res Hn Hlen (repeat_length _ _) H) as [H1 [HS H2]].
  split. { rewrite H1, repeat_length. destruct Hn as [-> | ->]; reflexivity. }
  rewrite H2.
  assert (Hz : wsumv n w (repeat 0 (Z.to_nat (2 ^ n - 1))) = 0) by (destruct Hn as [-> | ->]; cbv -[Z.add Z.mul]; cbn; lia).
  rewrite Hz, Z.add_0_l.
  set (N := Z.to_nat (max_sample trains / v_chunk P + 1)) in *.
  rewrite (zsum_map_ext _ (fun ch => zsum (map (fun Y => zsum (map (fun xi => Fw w (colG P trains (ch * q + xi) Y))
                (zrange (Z.to_nat q)))) (zrange (Z.to_nat (v_ny P))))))
    by (intros ch Hch; apply chunk_w_aligned, HS, Hch).
  rewrite zsum_swap. unfold venn_global. apply zsum_map_ext. intros Y _.
  transitivity (zsum (map (fun X => Fw w (colG P trains X Y)) (zrange (N * Z.to_nat q)))).
  { rewrite <- zsum_reindex. apply zsum_map_ext. intros a _. apply zsum_map_ext. intros b _.
    rewrite Z2Nat.id by lia. reflexivity. }
  pose proof (max_sample_nonneg trains) as Hm0.
  assert (Hc : 0 < v_chunk P) by nia.
  assert (HB : (Z.to_nat (max_sample trains / v_xbin P + 1) <= N * Z.to_nat q)%nat).
  { pose proof (Z.div_pos (max_sample trains) (v_xbin P) Hm0 Hx).
    pose proof (Z.div_pos (max_sample trains) (v_chunk P) Hm0 Hc).
    assert (max_sample trains / v_xbin P < (max_sample trains / v_chunk P + 1) * q).
    { apply Z.div_lt_upper_bound; [lia|].
      pose proof (Z.div_mod (max_sample trains) (v_chunk P) ltac:(lia)).
      pose proof (Z.mod_pos_bound (max_sample trains) (v_chunk P) Hc). nia. }
    unfold N. nia. }
  apply zsum_zrange_tail; [exact HB|]. intros X HXr.
  rewrite colG_beyond; [apply Fw_zeros | exact Hpos | ].
  pose proof (Z.div_pos (max_sample trains) (v_xbin P) Hm0 Hx). lia.
Qed.
End Aligned.
Unset Default Proof Using.

Lemma wsumv2 w a b c : wsumv 2 w [a; b; c] = w 1 * a + w 2 * b + w 3 * c.
Proof. cbv -[Z.add Z.mul]; cbn; lia. Qed.
Lemma wsumv3 w a b c d e f g :
  wsumv 3 w [a; b; c; d; e; f; g] = w 1 * a + w 2 * b + w 3 * c + w 4 * d + w 5 * e + w 6 * f + w 7 * g.
Proof. cbv -[Z.add Z.mul]; cbn; lia. Qed.

Lemma wsumv_ext n (r1 r2 : list Z) : n = 2 \/ n = 3 ->
  Z.of_nat (length r1) = 2 ^ n - 1 -> Z.of_nat (length r2) = 2 ^ n - 1 ->
  (forall w, wsumv n w r1 = wsumv n w r2) -> r1 = r2.
Proof.
  intros [-> | ->] H1 H2 H.
  - destruct r1 as [|a1 [|a2 [|a3 [|? ?]]]]; cbn [length] in H1; try lia.
    destruct r2 as [|b1 [|b2 [|b3 [|? ?]]]]; cbn [length] in H2; try lia.
    assert (E : forall k, (if k =? 1 then 1 else 0) * a1 + (if k =? 2 then 1 else 0) * a2 + (if k =? 3 then 1 else 0) * a3
                        = (if k =? 1 then 1 else 0) * b1 + (if k =? 2 then 1 else 0) * b2 + (if k =? 3 then 1 else 0) * b3).
    { intros k. pose proof (H (fun c => if k =? c then 1 else 0)) as E. rewrite !wsumv2 in E.
      exact E. }
    pose proof (E 1) as E1. pose proof (E 2) as E2. pose proof (E 3) as E3.
    cbn -[Z.mul Z.add] in E1, E2, E3. repeat f_equal; lia.
  - destruct r1 as [|a1 [|a2 [|a3 [|a4 [|a5 [|a6 [|a7 [|? ?]]]]]]]]; cbn [length] in H1; try lia.
    destruct r2 as [|b1 [|b2 [|b3 [|b4 [|b5 [|b6 [|b7 [|? ?]]]]]]]]; cbn [length] in H2; try lia.
    assert (E : forall k, let i c := if k =? c then 1 else 0 in
       i 1 * a1 + i 2 * a2 + i 3 * a3 + i 4 * a4 + i 5 * a5 + i 6 * a6 + i 7 * a7
       = i 1 * b1 + i 2 * b2 + i 3 * b3 + i 4 * b4 + i 5 * b5 + i 6 * b6 + i 7 * b7).
    { intros k i. pose proof (H i) as E. rewrite !wsumv3 in E. exact E. }
    pose proof (E 1) as E1. pose proof (E 2) as E2. pose proof (E 3) as E3. pose proof (E 4) as E4.
    pose proof (E 5) as E5. pose proof (E 6) as E6. pose proof (E 7) as E7.
    cbn -[Z.mul Z.add] in E1, E2, E3, E4, E5, E6, E7. repeat f_equal; lia.
Qed.

(* Two chunk sizes that are both multiples of the time bin give the SAME dictionary: the whole
   result, not only the per-sorter sums, is independent of a bin-aligned chunking. *)
Theorem venn_chunk_invariant_aligned (xbin ybin nchan q1 q2 : Z) (trains : list (list spike)) r1 r2 n :
  0 < xbin -> 0 < q1 -> 0 < q2 -> 0 <= nscale nchan ybin ->
  n = Z.of_nat (length trains) -> n = 2 \/ n = 3 ->
  (forall t sp, In t trains -> In sp t -> 0 <= fst sp) ->
  venn {| v_xbin := xbin; v_ybin := ybin; v_nchan := nchan; v_chunk := q1 * xbin |} trains = Some r1 ->
  venn {| v_xbin := xbin; v_ybin := ybin; v_nchan := nchan; v_chunk := q2 * xbin |} trains = Some r2 ->
  r1 = r2.
Proof.
  intros Hx Hq1 Hq2 Hny Hlen Hn Hpos V1 V2.
  set (P1 := {| v_xbin := xbin; v_ybin := ybin; v_nchan := nchan; v_chunk := q1 * xbin |}) in *.
  set (P2 := {| v_xbin := xbin; v_ybin := ybin; v_nchan := nchan; v_chunk := q2 * xbin |}) in *.
  assert (G1 := fun w => venn_aligned_global P1 trains q1 Hq1 Hx eq_refl Hny r1 n w Hlen Hn Hpos V1).
  assert (G2 := fun w => venn_aligned_global P2 trains q2 Hq2 Hx eq_refl Hny r2 n w Hlen Hn Hpos V2).
  apply (wsumv_ext n r1 r2 Hn (proj1 (G1 (fun _ => 0))) (proj1 (G2 (fun _ => 0)))).
  intros w. rewrite (proj2 (G1 w)), (proj2 (G2 w)). reflexivity.
Qed.

(* ------------------------------------------------------------------ *)
(* voltage.svd_denoise_npx: per-collection wrapper                     *)
(* ------------------------------------------------------------------ *)
Lemma select_nth {A} (d : A) (coll : list Z) : forall (data : list A) (i : nat),
  length data = length coll -> (i < length coll)%nat ->
  nth (length (filter (fun c => c =? nth i coll 0) (firstn i coll))) (select coll data (nth i coll 0)) d
  = nth i data d.
Proof.
  induction coll as [|c coll IH]; intros data i Hl Hi; [cbn in Hi; lia|].
  destruct data as [|a data]; [discriminate|]. injection Hl as Hl.
  destruct i as [|i].
  - cbn [nth firstn filter length]. rewrite select_cons, Z.eqb_refl. reflexivity.
  - cbn [nth firstn filter]. rewrite select_cons. cbn [length] in Hi.
    destruct (Z.eqb_spec c (nth i coll 0)) as [E|E]; cbn [length nth]; apply IH; (exact Hl || lia).
Qed.

(* the wrapper returns its input whenever the per-collection reconstruction does, whatever the
   collection vector; in general row i is taken from the result of ITS collection at its position *)
Theorem svd_npx_identity {A} (d : A) (f : Z -> list A -> list A) (data : list A) (coll : list Z) (rank : Z) :
  length data = length coll ->
  (forall g, In g coll ->
     let rows := select coll data g in
     f (svd_rank rank (Z.of_nat (length coll)) (Z.of_nat (length rows))) rows = rows) ->
  svd_npx d f data coll rank = data.
Proof.
  intros Hl Hf. unfold svd_npx. apply nth_ext with (d := d) (d' := d); [now rewrite map_length, seq_length|].
  intros i Hi. rewrite map_length, seq_length in Hi.
  rewrite (nth_indep _ d ((fun i => nth (length (filter (fun c => c =? nth i coll 0) (firstn i coll)))
     (f (svd_rank rank (Z.of_nat (length coll)) (Z.of_nat (length (select coll data (nth i coll 0)))))
        (select coll data (nth i coll 0))) d) 0%nat)) by (rewrite map_length, seq_length; exact Hi).
  rewrite (map_nth (fun i => nth (length (filter (fun c => c =? nth i coll 0) (firstn i coll)))
     (f (svd_rank rank (Z.of_nat (length coll)) (Z.of_nat (length (select coll data (nth i coll 0)))))
        (select coll data (nth i coll 0))) d)), seq_nth by exact Hi. cbn [plus].
  rewrite (Hf (nth i coll 0)) by (apply nth_In; exact Hi). apply select_nth; assumption.
Qed.

(* the per-collection ranks: full requested rank (rank >= nc) gives every collection its full size *)
Lemma svd_rank_full rank nc size : 0 < nc -> 0 <= size -> nc <= rank -> size <= svd_rank rank nc size.
Proof.
  intros Hn Hs Hr. unfold svd_rank. destruct (Z.eqb_spec rank 0); [lia|].
  apply Z.div_le_lower_bound; nia.
Qed.

(* the groups partition the traces: sizes add up to nc *)
Lemma svd_groups_partition coll rank :
  zsum (map (fun g => Z.of_nat (length (fst g))) (svd_groups coll rank)) = Z.of_nat (length coll).
Proof.
  unfold svd_groups. rewrite map_map. cbn [fst].
  rewrite (zsum_map_ext _ (fun g => count_eq g coll)).
  - apply fold_total; [apply sorted_nodup, uniq_sorted_sorted | intros x Hx; now apply uniq_sorted_in].
  - intros g _. apply select_length. now rewrite zrange_length.
Qed.

(* ------------------------------------------------------------------ *)
(* venn with a non-integer (rational) chunk size                        *)
(* ------------------------------------------------------------------ *)
(* the half-open intervals [k c, (k+1) c) tile the line: the scaled predicate is the integer one *)
Lemma in_chunk_q_scaled cn cd k sp :
  in_chunk_q cn cd k sp = in_chunk (k * cn) cn (scale_spike cd sp).
Proof. unfold in_chunk_q, in_chunk, scale_spike. cbn [fst]. f_equal. f_equal. ring. Qed.

Lemma in_chunk_q_unique cn cd k sp : 0 < cn ->
  in_chunk_q cn cd k sp = (k =? (fst sp * cd) / cn).
Proof. intros H. rewrite in_chunk_q_scaled. apply in_chunk_div. exact H. Qed.

Theorem venn_q_conserves xbin ybin nchan cn cd (trains : list (list spike)) res n s :
  n = Z.of_nat (length trains) -> n = 2 \/ n = 3 -> 0 < cn -> 0 < cd ->
  (forall t sp, In t trains -> In sp t -> 0 <= fst sp) ->
  venn_q xbin ybin nchan cn cd trains = Some res -> 0 <= s < n ->
  Z.of_nat (length res) = 2 ^ n - 1 /\
  region_sum n s res = Z.of_nat (length (nth (Z.to_nat s) trains [])).
Proof.
  intros Hlen Hn Hcn Hcd Hpos H Hs. unfold venn_q in H.
  destruct (venn_conserves {| v_xbin := xbin * cd; v_ybin := ybin; v_nchan := nchan; v_chunk := cn |}
              (map (map (scale_spike cd)) trains) res n s) as [H1 H2]; try assumption.
  - now rewrite map_length.
  - intros t sp Ht Hsp. apply in_map_iff in Ht. destruct Ht as [t0 [<- Ht0]].
    apply in_map_iff in Hsp. destruct Hsp as [sp0 [<- Hsp0]]. unfold scale_spike. cbn [fst].
    specialize (Hpos t0 sp0 Ht0 Hsp0). nia.
  - split; [exact H1|]. rewrite H2. f_equal.
    change (@nil spike) with (map (scale_spike cd) []). rewrite map_nth, map_length. reflexivity.
Qed.
