(* C04 — executable file-level model of neuropixel.NP2Converter.process
   (src/neuropixel.py) over an abstract file system.  Definitions only.

   Python                                         model
   ------                                         -----
   files under <root>/probe00, probe00a..d        path  (PDir k | PFile owner fkind)
   absent / other bytes / the expected bytes      fstate (Absent | Partial | Complete)
   NP2Converter.process(overwrite)                plan24 / plan21 : list step   + exec
   _prepare_files_NP24 (exists? mkdir, open wb)   prep24   (SMkdir, STrunc)
   window loop, _split2shanks(ap) / (lf)          wins24 / wins21 (SAppendSh / SAppend21)
   _writemetadata_ap / _lf (write_meta_data)      metas24 / SWriteMeta
   check_NP24 (clears, then sets check_completed) SCheckBegin, SVerify
   compress_NP24 / compress_NP21 with
     Reader.compress_file = mtscomp.compress
     to .cbin_tmp + .ch_tmp, two renames, unlink  comp_steps (SUnlink, SCompBegin, SCompEnd, SRenameCh, SRename)
   delete_NP24 (guard check_completed)            SDeleteOrig
   exception raised at site call number c         crash index c: exec (firstn c plan)
   a fresh converter object per run               run_once; a history is a list of runspec

   One step = one call of a patchable site in the real code, so the harness can
   stop the real converter exactly between two model steps. *)
From Coq Require Import ZArith List Bool Arith Lia.
Import ListNotations.

Inductive kind := NP24 | NP21 | NP1.
Inductive etype := Ap | Lf.
Inductive fkind := FBin | FCbin | FTmp | FCh | FMeta | FChTmp.
(* Orig: the recording given to the converter (x.ap.bin ...), Lf21: the x.lf.bin ... files
   an NP2.1 run writes next to it, Shank k e: the e-band files inside shank folder k. *)
Inductive owner := Orig | Lf21 | Shank (k : nat) (e : etype).
(* PMark: not a file — Complete iff the original's .meta is the one NP2Reconstructor.write_metadata
   writes (original_meta=False kept, <version>_shank and snsSaveChanSubset_orig removed) rather than
   SpikeGLX's own *)
Inductive path := PDir (k : nat) | PFile (o : owner) (f : fkind) | PMark.
(* Complete = byte-equal to the one content this path is supposed to hold
   (for FTmp: the content of the finished .cbin); Partial = exists, other bytes. *)
Inductive fstate := Absent | Partial | Complete.

Definition etype_eqb (a b : etype) : bool :=
  match a, b with Ap, Ap | Lf, Lf => true | _, _ => false end.
Definition fkind_eqb (a b : fkind) : bool :=
  match a, b with
  | FBin, FBin | FCbin, FCbin | FTmp, FTmp | FCh, FCh | FMeta, FMeta | FChTmp, FChTmp => true
  | _, _ => false end.
Definition owner_eqb (a b : owner) : bool :=
  match a, b with
  | Orig, Orig | Lf21, Lf21 => true
  | Shank k e, Shank k' e' => Nat.eqb k k' && etype_eqb e e'
  | _, _ => false end.
Definition path_eqb (a b : path) : bool :=
  match a, b with
  | PDir k, PDir k' => Nat.eqb k k'
  | PFile o f, PFile o' f' => owner_eqb o o' && fkind_eqb f f'
  | PMark, PMark => true
  | _, _ => false end.
Definition fstate_eqb (a b : fstate) : bool :=
  match a, b with
  | Absent, Absent | Partial, Partial | Complete, Complete => true
  | _, _ => false end.

Definition fsys := path -> fstate.
Definition upd (fs : fsys) (p : path) (v : fstate) : fsys :=
  fun q => if path_eqb q p then v else fs q.
Definition present (fs : fsys) (p : path) : bool := negb (fstate_eqb (fs p) Absent).
Definition complete (fs : fsys) (p : path) : bool := fstate_eqb (fs p) Complete.

(* run-local state: the disk and the converter's check_completed attribute *)
Record rstate := mkR { r_fs : fsys; r_checked : bool }.

Inductive err := EFileNotFound | EAssertion | ECrash | EUnspecified | EOther.
Inductive res := Ok (rs : rstate) | Err (e : err).

Inductive step :=
  | SMkdir (k : nat)                      (* probe_path.mkdir(parents=True, exist_ok=True) *)
  | STrunc (p : path)                     (* open(p, "wb") *)
  | SAppendSh (n : nat) (e : etype) (last : bool)  (* _split2shanks(chunk, e): tofile on every shank k < n *)
  | SAppendSub (sub : list nat) (e : etype) (last : bool)  (* the same when init_params(nshank=sub) restricts the shanks *)
  | SAppend21 (last : bool)               (* _split2shanks(chunk, "lf") of an NP2.1 run *)
  | SWriteMeta (o : owner)                (* spikeglx.write_meta_data (stat()s the data file first) *)
  | SCorrupt (p : path)                   (* adversary (harness): flips bytes of p before verification *)
  | SCheckBegin                           (* check_NP24 entered: self.check_completed = False *)
  | SVerify (n : nat)                     (* check_NP24: Readers on every shank ap file, comparison *)
  | SVerifyS (sub : list nat) (n : nat)   (* check_NP24 when shank_info holds the shanks `sub` of a probe with n:
                                             the window is reassembled from the shank files (zeros elsewhere)
                                             and compared with the full-width original *)
  | SUnlink (p : path) (missing_ok : bool)
  | SCompBegin (o : owner)                (* mtscomp.compress: open(.cbin_tmp, "wb") *)
  | SCompEnd (o : owner)                  (* ... all chunks written, .ch_tmp written, check passed *)
  | SRenameCh (o : owner)                 (* ch_tmp.rename(.ch) *)
  | SRename (o : owner)                   (* file_tmp.rename(.cbin) *)
  | SDeleteOrig (f : fkind)               (* delete_NP24() *)
  | SFail (f : fkind).                    (* self.sr[...] through a Reader this object has closed: .bin: the
                                             memmap is gone, the interpreter dies (SIGSEGV); .cbin: depends
                                             on mtscomp's chunk cache — not generated by the harness *)

Definition dir_ok (fs : fsys) (p : path) : bool :=
  match p with
  | PFile (Shank k _) _ => present fs (PDir k)
  | _ => true
  end.

(* check_NP24 opens a spikeglx.Reader on every shank ap.bin (needs its .meta) and compares *)
Definition all_ap_complete (fs : fsys) (n : nat) : bool :=
  forallb (fun k => complete fs (PFile (Shank k Ap) FBin) && complete fs (PFile (Shank k Ap) FMeta))
          (seq 0 n).

Definition mem (k : nat) (l : list nat) : bool := existsb (Nat.eqb k) l.

(* coverage: the columns of the shank files in shank_info together are every channel of the
   original (every shank k < n is among them) and each of these files (and its .meta) is complete *)
Definition verify_cover (fs : fsys) (sub : list nat) (n : nat) : bool :=
  forallb (fun k => mem k sub) (seq 0 n)
  && forallb (fun k => complete fs (PFile (Shank k Ap) FBin) && complete fs (PFile (Shank k Ap) FMeta)) sub.

Definition unlink (rs : rstate) (p : path) (missing_ok : bool) : res :=
  if present (r_fs rs) p then Ok (mkR (upd (r_fs rs) p Absent) (r_checked rs))
  else if missing_ok then Ok rs else Err EFileNotFound.

Definition step_sem (s : step) (rs : rstate) : res :=
  let fs := r_fs rs in
  let ck := r_checked rs in
  match s with
  | SMkdir k => Ok (mkR (upd fs (PDir k) Complete) ck)
  | STrunc p => if dir_ok fs p then Ok (mkR (upd fs p Partial) ck) else Err EFileNotFound
  | SAppendSh n e last =>
      Ok (mkR (fun q => match q with
                        | PFile (Shank k e') FBin =>
                            if (k <? n) && etype_eqb e e'
                            then (if last then Complete else Partial) else fs q
                        | _ => fs q end) ck)
  | SAppendSub sub e last =>
      Ok (mkR (fun q => match q with
                        | PFile (Shank k e') FBin =>
                            if mem k sub && etype_eqb e e'
                            then (if last then Complete else Partial) else fs q
                        | _ => fs q end) ck)
  | SAppend21 last => Ok (mkR (upd fs (PFile Lf21 FBin) (if last then Complete else Partial)) ck)
  | SWriteMeta o =>
      if present fs (PFile o FBin) then Ok (mkR (upd fs (PFile o FMeta) Complete) ck)
      else Err EFileNotFound
  | SCorrupt p => if present fs p then Ok (mkR (upd fs p Partial) ck) else Ok rs
  | SCheckBegin => Ok (mkR fs false)
  | SVerify n => if all_ap_complete fs n then Ok (mkR fs true) else Err EAssertion
  | SVerifyS sub n => if verify_cover fs sub n then Ok (mkR fs true) else Err EAssertion
  | SUnlink p mok => unlink rs p mok
  | SCompBegin o =>
      if present fs (PFile o FBin) then Ok (mkR (upd fs (PFile o FTmp) Partial) ck)
      else Err EFileNotFound
  | SCompEnd o =>
      let v := if complete fs (PFile o FBin) then Complete else Partial in
      Ok (mkR (upd (upd fs (PFile o FTmp) v) (PFile o FChTmp) v) ck)
  | SRenameCh o =>
      if present fs (PFile o FChTmp)
      then Ok (mkR (upd (upd fs (PFile o FCh) (fs (PFile o FChTmp))) (PFile o FChTmp) Absent) ck)
      else Err EFileNotFound
  | SRename o =>
      if present fs (PFile o FTmp)
      then Ok (mkR (upd (upd fs (PFile o FCbin) (fs (PFile o FTmp))) (PFile o FTmp) Absent) ck)
      else Err EFileNotFound
  | SDeleteOrig f => if ck then unlink rs (PFile Orig f) false else Ok rs
  | SFail _ => Err EOther
  end.

(* run the steps until one raises; the state returned is the one before the
   failing step (a failing step changes nothing). *)
Fixpoint exec (l : list step) (rs : rstate) : rstate * option err :=
  match l with
  | [] => (rs, None)
  | s :: l' => match step_sem s rs with
               | Ok rs' => exec l' rs'
               | Err e => (rs, Some e)
               end
  end.

(* number of steps executed (for the trace compared with the real call log) *)
Fixpoint nexec (l : list step) (rs : rstate) : nat :=
  match l with
  | [] => O
  | s :: l' => match step_sem s rs with
               | Ok rs' => S (nexec l' rs')
               | Err _ => O
               end
  end.

(* ---- plans ---------------------------------------------------------------- *)
Record opts := mkO { o_post : bool; o_del : bool; o_comp : bool }.

(* _prepare_files_NP24: for sh in shanks: if not probe_path.exists() or overwrite:
   mkdir, open ap, open lf  else: already_exists = True.  The loop goes on after
   an existing folder, so missing folders are created even when the run then
   reports "nothing done". *)
Definition prep_one (ow : bool) (fs : fsys) (k : nat) : list step :=
  if negb (present fs (PDir k)) || ow
  then [SMkdir k; STrunc (PFile (Shank k Ap) FBin); STrunc (PFile (Shank k Lf) FBin)]
  else [].
Definition prep24 (ow : bool) (fs : fsys) (n : nat) : list step :=
  flat_map (prep_one ow fs) (seq 0 n).
Definition already24 (ow : bool) (fs : fsys) (n : nat) : bool :=
  existsb (fun k => present fs (PDir k) && negb ow) (seq 0 n).

(* for first, last in wg.firstlast: _split2shanks(ap); _split2shanks(lf)
   (w windows, w >= 1 in the real code; the last one completes the files) *)
Definition wins24 (n w : nat) : list step :=
  match w with
  | O => []
  | S w' => flat_map (fun _ => [SAppendSh n Ap false; SAppendSh n Lf false]) (seq 0 w')
            ++ [SAppendSh n Ap true; SAppendSh n Lf true]
  end.
Definition wins21 (w : nat) : list step :=
  match w with
  | O => []
  | S w' => map (fun _ => SAppend21 false) (seq 0 w') ++ [SAppend21 true]
  end.

Definition metas24 (n : nat) : list step :=
  flat_map (fun k => [SWriteMeta (Shank k Ap)]) (seq 0 n)
  ++ flat_map (fun k => [SWriteMeta (Shank k Lf)]) (seq 0 n).

Definition verify24 (n : nat) (corrupt : option nat) : list step :=
  match corrupt with Some k => [SCorrupt (PFile (Shank k Ap) FBin)] | None => [] end
  ++ [SCheckBegin; SVerify n].

(* compress_NP24 body for one file: if overwrite: cbin.unlink(missing_ok=True);
   Reader(bin).compress_file(); bin.unlink() *)
Definition comp_steps (ow : bool) (o : owner) : list step :=
  (if ow then [SUnlink (PFile o FCbin) true] else [])
  ++ [SCompBegin o; SCompEnd o; SRenameCh o; SRename o; SUnlink (PFile o FBin) false].
Definition comp24 (ow : bool) (n : nat) : list step :=
  flat_map (fun k => comp_steps ow (Shank k Ap) ++ comp_steps ow (Shank k Lf)) (seq 0 n).

(* _process_NP24 after the already_exists test; tf = form of the file given *)
Definition body24 (n w : nat) (o : opts) (ow : bool) (corrupt : option nat) : list step :=
  wins24 n w ++ metas24 n
  ++ (if o_post o then verify24 n corrupt else [])
  ++ (if o_comp o then comp24 ow n else []).
Definition del24 (o : opts) (tf : fkind) : list step :=
  if o_del o then [SDeleteOrig tf] else [].

Definition plan24 (n w : nat) (o : opts) (ow : bool) (corrupt : option nat) (tf : fkind)
                  (fs : fsys) : list step :=
  if already24 ow fs n then prep24 ow fs n
  else (prep24 ow fs n ++ body24 n w o ow corrupt) ++ del24 o tf.

(* ---- the same with init_params(nshank=sub): only the shanks in `sub` are prepared, written,
   described, compressed; the verification still compares with the full-width original ---- *)
Definition prep24s (ow : bool) (fs : fsys) (sub : list nat) : list step :=
  flat_map (prep_one ow fs) sub.
Definition already24s (ow : bool) (fs : fsys) (sub : list nat) : bool :=
  existsb (fun k => present fs (PDir k) && negb ow) sub.
Definition wins24s (sub : list nat) (w : nat) : list step :=
  match w with
  | O => []
  | S w' => flat_map (fun _ => [SAppendSub sub Ap false; SAppendSub sub Lf false]) (seq 0 w')
            ++ [SAppendSub sub Ap true; SAppendSub sub Lf true]
  end.
Definition metas24s (sub : list nat) : list step :=
  flat_map (fun k => [SWriteMeta (Shank k Ap)]) sub ++ flat_map (fun k => [SWriteMeta (Shank k Lf)]) sub.
Definition verify24s (sub : list nat) (n : nat) (corrupt : option nat) : list step :=
  match corrupt with Some k => [SCorrupt (PFile (Shank k Ap) FBin)] | None => [] end
  ++ [SCheckBegin; SVerifyS sub n].
Definition comp24s (ow : bool) (sub : list nat) : list step :=
  flat_map (fun k => comp_steps ow (Shank k Ap) ++ comp_steps ow (Shank k Lf)) sub.
Definition body24s (sub : list nat) (n w : nat) (o : opts) (ow : bool) (corrupt : option nat) : list step :=
  wins24s sub w ++ metas24s sub
  ++ (if o_post o then verify24s sub n corrupt else [])
  ++ (if o_comp o then comp24s ow sub else []).
Definition plan24s (sub : list nat) (n w : nat) (o : opts) (ow : bool) (corrupt : option nat)
                   (tf : fkind) (fs : fsys) : list step :=
  if already24s ow fs sub then prep24s ow fs sub
  else (prep24s ow fs sub ++ body24s sub n w o ow corrupt) ++ del24 o tf.

(* the subsets this model specifies: non-empty (an empty list means "all shanks" to the code),
   without repetition, shanks of the probe *)
Fixpoint nodupb (l : list nat) : bool :=
  match l with [] => true | k :: l' => negb (mem k l') && nodupb l' end.
Definition sub_ok (sub : list nat) (n : nat) : bool :=
  negb (Nat.eqb (length sub) 0) && nodupb sub && forallb (fun k => k <? n) sub.

(* _process_NP21: lf file next to the original; compress_NP21 first compresses
   the original in place when it is not yet a .cbin *)
Definition already21 (ow : bool) (fs : fsys) : bool :=
  (present fs (PFile Lf21 FBin) || present fs (PFile Lf21 FCbin)) && negb ow.
Definition origcomp21 (tf : fkind) : list step :=
  match tf with
  | FBin => [SCompBegin Orig; SCompEnd Orig; SRenameCh Orig; SRename Orig; SUnlink (PFile Orig FBin) false]
  | _ => []
  end.
Definition plan21 (w : nat) (o : opts) (ow : bool) (tf : fkind) (fs : fsys) : list step :=
  if already21 ow fs then []
  else ([STrunc (PFile Lf21 FBin)] ++ wins21 w ++ [SWriteMeta Lf21])
       ++ (if o_comp o then origcomp21 tf ++ comp_steps ow Lf21 else []).

(* ---- one run, histories ------------------------------------------------------ *)
Inductive target := TBin | TCbin | TShank (k : nat).
Record runspec := mkRun {
  r_target : target; r_opts : opts; r_ow : bool;
  r_crash : option nat;       (* raise at this site-call number *)
  r_corrupt : option nat;     (* adversary damages shank k's ap.bin just before check_NP24 *)
  r_sub : option (list nat) }.  (* init_params(nshank=sub) *)

Inductive outcome := Status (z : Z) | Raised (e : err).
Inductive inputst := Present | Missing | Unspec.

Definition input_state (kd : kind) (n : nat) (fs : fsys) (t : target) : inputst :=
  if negb (complete fs (PFile Orig FMeta)) then Unspec else
  match t with
  | TBin => match fs (PFile Orig FBin) with
            | Complete => Present | Absent => Missing | Partial => Unspec end
  | TCbin => match fs (PFile Orig FCbin) with
             | Absent => Missing
             | Complete => if complete fs (PFile Orig FCh) then Present else Unspec
             | Partial => Unspec end
  | TShank k =>
      match kd with
      | NP24 =>
          if (k <? n) && complete fs (PFile (Shank k Ap) FMeta)
             && (complete fs (PFile (Shank k Ap) FBin)
                 || (negb (present fs (PFile (Shank k Ap) FBin))
                     && complete fs (PFile (Shank k Ap) FCbin)
                     && complete fs (PFile (Shank k Ap) FCh)))
          then Present else Unspec
      | _ => Unspec
      end
  end.

Definition target_form (t : target) : fkind :=
  match t with TBin => FBin | _ => FCbin end.

Record runout := mkOut {
  out_fs : fsys; out_outcome : outcome; out_checked : bool;
  out_already : Z;          (* already_exists attribute: 0 / 1, 2 = not reported *)
  out_processed : bool;     (* already_processed attribute *)
  out_trace : list step }.

Definition noop (fs : fsys) (oc : outcome) (proc : bool) : runout :=
  mkOut fs oc false 2 proc [].

Definition go (plan : list step) (crash : option nat) (fs : fsys) (st already : Z) : runout :=
  let pl := match crash with Some c => firstn c plan | None => plan end in
  let '(rs', e) := exec pl (mkR fs false) in
  let oc := match e with
            | Some e => Raised e
            | None => if (length pl <? length plan)%nat then Raised ECrash else Status st
            end in
  mkOut (r_fs rs') oc (r_checked rs')
        (match oc with Status _ => already | Raised _ => 2%Z end) false
        (firstn (nexec pl (mkR fs false)) pl).

Definition run_once (kd : kind) (n w : nat) (fs : fsys) (r : runspec) : runout :=
  match input_state kd n fs (r_target r) with
  | Missing => noop fs (Raised EFileNotFound) false
  | Unspec => noop fs (Raised EUnspecified) false
  | Present =>
      match r_target r with
      | TShank _ => noop fs (Status 0) true       (* check_metadata: <version>_shank key *)
      | t =>
          let tf := target_form t in
          match kd with
          | NP1 => noop fs (Status (-1)) false
          | NP24 =>
              match r_sub r with
              | None =>
                  let al := already24 (r_ow r) fs n in
                  go (plan24 n w (r_opts r) (r_ow r) (r_corrupt r) tf fs) (r_crash r) fs
                     (if al then 0 else 1)%Z (if al then 1 else 0)%Z
              | Some sub =>
                  if sub_ok sub n then
                    let al := already24s (r_ow r) fs sub in
                    go (plan24s sub n w (r_opts r) (r_ow r) (r_corrupt r) tf fs) (r_crash r) fs
                       (if al then 0 else 1)%Z (if al then 1 else 0)%Z
                  else noop fs (Raised EUnspecified) false
              end
          | NP21 =>
              let al := already21 (r_ow r) fs in
              go (plan21 w (r_opts r) (r_ow r) tf fs) (r_crash r) fs
                 (if al then 0 else 1)%Z (if al then 1 else 0)%Z
          end
      end
  end.

Fixpoint run_hist (kd : kind) (n w : nat) (fs : fsys) (h : list runspec) : list runout :=
  match h with
  | [] => []
  | r :: h' => let o := run_once kd n w fs r in o :: run_hist kd n w (out_fs o) h'
  end.

Fixpoint state_after (kd : kind) (n w : nat) (fs : fsys) (h : list runspec) : fsys :=
  match h with
  | [] => fs
  | r :: h' => state_after kd n w (out_fs (run_once kd n w fs r)) h'
  end.

(* the directory as the user finds it: the recording as .bin, or already
   compressed (.cbin + .ch), and its .meta *)
Definition init_fs (compressed : bool) : fsys :=
  fun p => match p with
           | PFile Orig FMeta => Complete
           | PFile Orig FBin => if compressed then Absent else Complete
           | PFile Orig FCbin | PFile Orig FCh => if compressed then Complete else Absent
           | _ => Absent
           end.

(* ======================================================================== *)
(* Several method calls on ONE converter object                                 *)
(* ======================================================================== *)
(* What the object remembers between calls (code after 899cbec, 8b318aa, 8925238):
     ob_opts     post_check / delete_original / compress (plain attributes, the user may set them)
     ob_checked  check_completed: False after init_params, cleared at the start of every
                 check_NP24 and of every NP2.4 run (just before _prepare_files_NP24), set True at
                 the end of a successful check_NP24
     ob_tf       form of self.ap_file (.bin, or .cbin once compress_NP21 has replaced it; the
                 reader is reopened with sort=False, like the constructor's)
     ob_fullbin  self.shank_info lists every requested shank and every ap entry is still the .bin
                 (what a direct check_NP24() needs; anything else is left unspecified)
     ob_closed   self.sr has been closed and not reopened: delete_NP24 past its guard, or
                 compress_NP21 interrupted between sr.close() and ap_file.unlink() *)
Record obj := mkObj { ob_opts : opts; ob_checked : bool; ob_tf : fkind;
                      ob_fullbin : bool; ob_closed : bool;
                      ob_sub : option (list nat) }.   (* init_params(nshank=...), fixed for the object *)

Inductive call :=
  | CProcess (ow : bool) (crash corrupt : option nat)   (* obj.process(overwrite=ow) *)
  | CCheck (crash corrupt : option nat)                  (* obj.check_NP24() *)
  | CDelete (crash : option nat)                         (* obj.delete_NP24() *)
  | CSetOpts (o : opts).                                 (* obj.post_check = ...; obj.delete_original = ...; ... *)

Definition step_eqb_unlink (p : path) (s : step) : bool :=
  match s with SUnlink q false => path_eqb q p | _ => false end.
Definition is_ap_bin_unlink (s : step) : bool :=
  match s with SUnlink (PFile (Shank _ Ap) FBin) false => true | _ => false end.
Definition is_rename_orig (s : step) : bool :=
  match s with SRename Orig => true | _ => false end.

(* the steps of one call, its status when it returns, the already_exists value;
   None = a call this model does not specify *)
Definition call_plan (kd : kind) (n w : nat) (ob : obj) (fs : fsys) (c : call)
  : option (list step * Z * Z) :=
  match c with
  | CProcess ow _ corrupt =>
      match kd with
      | NP1 => Some ([], (-1)%Z, 2%Z)
      | NP24 =>
          match ob_sub ob with
          | None =>
              let al := already24 ow fs n in
              Some (if ob_closed ob
                    then (if al then prep24 ow fs n else prep24 ow fs n ++ [SFail (ob_tf ob)])
                    else plan24 n w (ob_opts ob) ow corrupt (ob_tf ob) fs,
                    if al then 0%Z else 1%Z, if al then 1%Z else 0%Z)
          | Some sub =>
              if sub_ok sub n then
                let al := already24s ow fs sub in
                Some (if ob_closed ob
                      then (if al then prep24s ow fs sub else prep24s ow fs sub ++ [SFail (ob_tf ob)])
                      else plan24s sub n w (ob_opts ob) ow corrupt (ob_tf ob) fs,
                      if al then 0%Z else 1%Z, if al then 1%Z else 0%Z)
              else None
          end
      | NP21 =>
          let al := already21 ow fs in
          Some (if ob_closed ob
                then (if al then [] else [STrunc (PFile Lf21 FBin); SFail (ob_tf ob)])
                else plan21 w (ob_opts ob) ow (ob_tf ob) fs,
                if al then 0%Z else 1%Z, if al then 1%Z else 0%Z)
      end
  | CCheck _ corrupt =>
      match kd with
      | NP24 => if ob_fullbin ob
                then match ob_sub ob with
                     | None => Some (verify24 n corrupt, 7%Z, 2%Z)
                     | Some sub => if sub_ok sub n then Some (verify24s sub n corrupt, 7%Z, 2%Z) else None
                     end
                else None
      | _ => None
      end
  | CDelete _ =>
      match kd with
      | NP24 => if o_del (ob_opts ob) then Some ([SDeleteOrig (ob_tf ob)], 7%Z, 2%Z) else None
      | _ => None
      end
  | CSetOpts _ => Some ([], 7%Z, 2%Z)
  end.

Definition call_crash (c : call) : option nat :=
  match c with
  | CProcess _ cr _ | CCheck cr _ | CDelete cr => cr
  | CSetOpts _ => None
  end.

Definition is_process (c : call) : bool := match c with CProcess _ _ _ => true | _ => false end.

(* process() begins with: if not Path(self.ap_file).exists(): raise FileNotFoundError *)
Definition refused (ob : obj) (fs : fsys) (c : call) : bool :=
  is_process c && negb (present fs (PFile Orig (ob_tf ob))).

(* the flag the call's steps start from: _process_NP24 clears check_completed before
   _prepare_files_NP24 (before any site call) *)
Definition start_flag (kd : kind) (ob : obj) (c : call) : bool :=
  match c, kd with
  | CProcess _ _ _, NP24 => false
  | _, _ => ob_checked ob
  end.

Definition obj_call (kd : kind) (n w : nat) (ob : obj) (fs : fsys) (c : call) : obj * runout :=
  if refused ob fs c then (ob, mkOut fs (Raised EFileNotFound) (ob_checked ob) 2 false []) else
  match call_plan kd n w ob fs c with
  | None => (ob, mkOut fs (Raised EUnspecified) (ob_checked ob) 2 false [])
  | Some (plan, st, al) =>
      let pl := match call_crash c with Some k => firstn k plan | None => plan end in
      let rs0 := mkR fs (start_flag kd ob c) in
      let '(rs', e) := exec pl rs0 in
      let executed := firstn (nexec pl rs0) pl in
      let oc := match e with
                | Some e => Raised e
                | None => if (length pl <? length plan)%nat then Raised ECrash else Status st
                end in
      let fs' := r_fs rs' in
      let opts' := match c with CSetOpts o => o | _ => ob_opts ob end in
      let tf' := match kd with
                 | NP21 => if existsb (step_eqb_unlink (PFile Orig FBin)) executed then FCbin else ob_tf ob
                 | _ => ob_tf ob end in
      let fullbin' :=
        match c, kd with
        | CProcess ow _ _, NP24 =>
            let '(np, al) := match ob_sub ob with
                             | None => (length (prep24 ow fs n), already24 ow fs n)
                             | Some sub => (length (prep24s ow fs sub), already24s ow fs sub)
                             end in
            if (np <=? length executed)%nat
            then negb al && negb (existsb is_ap_bin_unlink executed)
            else ob_fullbin ob
        | _, _ => ob_fullbin ob
        end in
      let closed' :=
        ob_closed ob ||
        match kd with
        | NP24 => present fs (PFile Orig (ob_tf ob)) && negb (present fs' (PFile Orig (ob_tf ob)))
                  (* delete_NP24 got past its guard: sr.close(), ap_file.unlink() *)
        | NP21 => existsb is_rename_orig executed
                  && negb (existsb (step_eqb_unlink (PFile Orig FBin)) executed)
        | NP1 => false
        end in
      (mkObj opts' (r_checked rs') tf' fullbin' closed' (ob_sub ob),
       mkOut fs' oc (r_checked rs')
             (match oc with Status _ => al | Raised _ => 2%Z end) false executed)
  end.

Fixpoint obj_run (kd : kind) (n w : nat) (ob : obj) (fs : fsys) (cs : list call) : list runout :=
  match cs with
  | [] => []
  | c :: cs' => let '(ob', o) := obj_call kd n w ob fs c in o :: obj_run kd n w ob' (out_fs o) cs'
  end.

Fixpoint obj_after (kd : kind) (n w : nat) (ob : obj) (fs : fsys) (cs : list call) : obj * fsys :=
  match cs with
  | [] => (ob, fs)
  | c :: cs' => let '(ob', o) := obj_call kd n w ob fs c in obj_after kd n w ob' (out_fs o) cs'
  end.

(* NP2Converter(ap_file, post_check, delete_original, compress) on the .bin or the .cbin *)
Definition new_obj_sub (o : opts) (compressed : bool) (sub : option (list nat)) : obj :=
  mkObj o false (if compressed then FCbin else FBin) false false sub.
Definition new_obj (o : opts) (compressed : bool) : obj := new_obj_sub o compressed None.

(* ======================================================================== *)
(* Metadata markers, NP2Reconstructor, histories with user operations            *)
(* ======================================================================== *)
(* what check_metadata can see in the .meta of the file it is given *)
Inductive marker :=
  | MPristine      (* SpikeGLX's own metadata: neither key *)
  | MRecon         (* written by NP2Reconstructor: original_meta=False, no <version>_shank *)
  | MShank.        (* written by the converter for a shank: original_meta=False and <version>_shank=k *)
Definition marker_of (fs : fsys) (t : target) : marker :=
  match t with
  | TShank _ => MShank
  | _ => if complete fs PMark then MRecon else MPristine
  end.
(* check_metadata: already_processed iff the <version>_shank key is present *)
Definition marks_processed (m : marker) : bool := match m with MShank => true | _ => false end.

(* NP2Reconstructor(root, "probe00", compress).process(): needs every shank folder with its ap
   metadata and exactly one form of complete ap data; here only specified when the original is gone *)
Definition shank_src_ok (fs : fsys) (k : nat) : bool :=
  present fs (PDir k) && complete fs (PFile (Shank k Ap) FMeta)
  && ((complete fs (PFile (Shank k Ap) FBin) && negb (present fs (PFile (Shank k Ap) FCbin)))
      || (negb (present fs (PFile (Shank k Ap) FBin)) && complete fs (PFile (Shank k Ap) FCbin)
          && complete fs (PFile (Shank k Ap) FCh))).
Definition recon_ok (n : nat) (fs : fsys) : bool :=
  (1 <=? n)%nat && forallb (shank_src_ok fs) (seq 0 n)
  && negb (present fs (PFile Orig FBin)) && negb (present fs (PFile Orig FCbin))
  && (complete fs (PFile Orig FMeta) || negb (present fs (PFile Orig FMeta))).
(* _reconstruct writes probe00/x.ap.bin; write_metadata keeps an existing .meta whose fileSizeBytes
   matches, else writes the reconstructed one; compress_file replaces the .bin by .cbin + .ch *)
Definition recon (comp : bool) (fs : fsys) : fsys :=
  let fs1 := if present fs (PFile Orig FMeta) then fs
             else upd (upd fs (PFile Orig FMeta) Complete) PMark Complete in
  if comp then upd (upd fs1 (PFile Orig FCbin) Complete) (PFile Orig FCh) Complete
  else upd fs1 (PFile Orig FBin) Complete.

Inductive hop :=
  | HRun (r : runspec)
  | HDropMeta                 (* the user removes the leftover x.ap.meta *)
  | HRecon (comp : bool).

Definition hop_apply (kd : kind) (n w : nat) (fs : fsys) (op : hop) : runout :=
  match op with
  | HRun r => run_once kd n w fs r
  | HDropMeta => mkOut (upd (upd fs (PFile Orig FMeta) Absent) PMark Absent) (Status 7) false 2 false []
  | HRecon comp =>
      match kd with
      | NP24 => if recon_ok n fs then mkOut (recon comp fs) (Status 1) false 2 false []
                else noop fs (Raised EUnspecified) false
      | _ => noop fs (Raised EUnspecified) false
      end
  end.

Fixpoint ops_run (kd : kind) (n w : nat) (fs : fsys) (h : list hop) : list runout :=
  match h with
  | [] => []
  | op :: h' => let o := hop_apply kd n w fs op in o :: ops_run kd n w (out_fs o) h'
  end.

(* ======================================================================== *)
(* File names and probe versions                                                *)
(* ======================================================================== *)
(* The lf output is named after the file given: name.replace("ap", "lf") (Python str.replace: every
   non-overlapping occurrence, left to right).  Names are lists of character codes. *)
Fixpoint lf_name (s : list Z) : list Z :=
  match s with
  | [] => []
  | a :: t =>
      match t with
      | [] => [a]
      | p :: r => if ((a =? 97) && (p =? 112))%Z then 108%Z :: 102%Z :: lf_name r else a :: lf_name t
      end
  end.
Fixpoint has_ap (s : list Z) : bool :=
  match s with
  | [] => false
  | a :: t =>
      match t with
      | [] => false
      | p :: r => ((a =? 97) && (p =? 112))%Z || has_ap t
      end
  end.

(* spikeglx._get_neuropixel_version_from_meta: what process() dispatches on *)
Inductive version := V3A | V3B1 | V3B2 | VNP21 | VNP24 | VNPultra.
Definition kind_of_version (v : version) : kind :=
  match v with
  | VNP24 => NP24
  | VNP21 => NP21
  | V3A | V3B1 | V3B2 | VNPultra => NP1      (* process(): neither NP2.1 nor NP2.4 -> -1, nothing touched *)
  end.

(* a non-NP2 recording with its hardware lf file next to it *)
Definition init_fs_hwlf : fsys :=
  fun p => match p with
           | PFile Orig FMeta | PFile Orig FBin | PFile Lf21 FBin | PFile Lf21 FMeta => Complete
           | _ => Absent
           end.
