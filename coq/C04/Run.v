(* C04 — flat-integer interface of the model for the correspondence check.
   input : kind(0 NP2.4 | 1 NP2.1 | 2 NP1) :: nshank :: nwin :: compressed(0|1) ::
           then 8 integers per run:
             target(0 bin | 1 cbin | 2+k shank k) post_check delete_original compress overwrite
             crash(-1 none | site-call number)  corrupt(-1 none | shank)  nshank(0 not given | bit mask)
   output: per run: outcome(100+status | 200+error) check_completed already_exists(0|1|2)
           already_processed  ntrace  trace codes...  state(0 absent|1 other|2 expected) of
           every path of `universe nshank`. *)
From Coq Require Import ZArith List Bool.
From IBL.lib Require Import PyInt RunLib.
From IBL.C04 Require Import Model.
Import ListNotations.
Open Scope Z_scope.

Definition fcode (f : fkind) : Z :=
  match f with FBin => 0 | FCbin => 1 | FTmp => 2 | FCh => 3 | FMeta => 4 | FChTmp => 5 end.
Definition ecode (e : etype) : Z := match e with Ap => 0 | Lf => 1 end.
Definition owner_code (o : owner) : Z :=
  match o with
  | Orig => 1 | Lf21 => 2
  | Shank k e => 10 + 2 * Z.of_nat k + ecode e
  end.
Definition path_code (p : path) : Z :=
  match p with
  | PDir k => 1000 + Z.of_nat k
  | PFile o f => owner_code o * 10 + fcode f
  | PMark => 9000
  end.
Definition enc_step (s : step) : Z :=
  match s with
  | SMkdir k => 100000 + Z.of_nat k
  | STrunc p => 200000 + path_code p
  | SAppendSh _ e _ => 300000 + ecode e
  | SAppendSub _ e _ => 300000 + ecode e
  | SAppend21 _ => 300001
  | SWriteMeta o => 400000 + owner_code o
  | SCorrupt p => 500000 + path_code p
  | SCheckBegin => 650000
  | SVerify _ => 600000
  | SVerifyS _ _ => 600000
  | SUnlink p mok => 700000 + 2 * path_code p + enc_bool mok
  | SCompBegin o => 800000 + owner_code o
  | SCompEnd o => 900000 + owner_code o
  | SRename o => 1000000 + owner_code o
  | SRenameCh o => 1200000 + owner_code o
  | SDeleteOrig f => 1100000 + fcode f
  | SFail _ => 1300000
  end.

Definition fkinds : list fkind := [FBin; FCbin; FTmp; FCh; FMeta; FChTmp].
Definition universe (n : nat) : list path :=
  map (PFile Orig) fkinds ++ map (PFile Lf21) fkinds
  ++ flat_map (fun k => PDir k :: map (PFile (Shank k Ap)) fkinds
                        ++ map (PFile (Shank k Lf)) fkinds) (seq 0 n)
  ++ [PMark].

Definition enc_fstate (v : fstate) : Z :=
  match v with Absent => 0 | Partial => 1 | Complete => 2 end.
Definition enc_err (e : err) : Z :=
  match e with EFileNotFound => 1 | EAssertion => 2 | ECrash => 3 | EUnspecified => 4 | EOther => 9 end.
Definition enc_outcome (o : outcome) : Z :=
  match o with Status z => 100 + z | Raised e => 200 + enc_err e end.

Definition enc_out (n : nat) (o : runout) : list Z :=
  [enc_outcome (out_outcome o); enc_bool (out_checked o); out_already o;
   enc_bool (out_processed o)]
  ++ enc_zlist (map enc_step (out_trace o))
  ++ map (fun p => enc_fstate (out_fs o p)) (universe n).

Definition dec_opt (z : Z) : option nat := if z <? 0 then None else Some (Z.to_nat z).
Definition dec_target (z : Z) : target :=
  if z =? 0 then TBin else if z =? 1 then TCbin else TShank (Z.to_nat (z - 2)).
Definition dec_bool (z : Z) : bool := negb (z =? 0).

(* init_params(nshank=...): 0 = not given, else bit k set = shank k requested (ascending order) *)
Definition dec_sub (n : nat) (z : Z) : option (list nat) :=
  if z <=? 0 then None else Some (filter (fun k => Z.testbit z (Z.of_nat k)) (seq 0 (Nat.max n 8))).

(* target 100 = the user removes the original's .meta, 101 = NP2Reconstructor(compress=comp).process() *)
Fixpoint dec_runs (n : nat) (fuel : nat) (l : list Z) : list hop :=
  match fuel with
  | O => []
  | S f =>
      match l with
      | t :: po :: de :: co :: ow :: cr :: cp :: sb :: rest =>
          (if t =? 100 then HDropMeta else if t =? 101 then HRecon (dec_bool co) else
           HRun (mkRun (dec_target t) (mkO (dec_bool po) (dec_bool de) (dec_bool co)) (dec_bool ow)
                       (dec_opt cr) (dec_opt cp) (dec_sub n sb))) :: dec_runs n f rest
      | _ => []
      end
  end.

Definition dec_kind (z : Z) : kind :=
  if z =? 0 then NP24 else if z =? 1 then NP21 else NP1.

(* object mode: 7 integers per call: ctype(0 process | 1 check_NP24 | 2 delete_NP24 | 3 set options)
   post del comp (new option values, ctype 3 only)  overwrite  crash  corrupt *)
Fixpoint dec_calls (fuel : nat) (l : list Z) : list call :=
  match fuel with
  | O => []
  | S f =>
      match l with
      | t :: po :: de :: co :: ow :: cr :: cp :: rest =>
          (if t =? 0 then CProcess (dec_bool ow) (dec_opt cr) (dec_opt cp)
           else if t =? 1 then CCheck (dec_opt cr) (dec_opt cp)
           else if t =? 2 then CDelete (dec_opt cr)
           else CSetOpts (mkO (dec_bool po) (dec_bool de) (dec_bool co))) :: dec_calls f rest
      | _ => []
      end
  end.

(* input, name mode: 30 :: character codes -> lf_name ++ [has_ap]; history mode: kind :: n :: w ::
   compressed(0 .bin | 1 .cbin | 2 .bin with a hardware lf file next to it) :: ...; object mode: 10+kind :: n :: w :: compressed :: post :: del ::
   comp :: nshank mask :: calls *)
Definition run (inp : list Z) : list Z :=
  match inp with
  | 30 :: name => lf_name name ++ [enc_bool (has_ap name)]      (* name mode *)
  | kd :: n :: w :: c :: rest =>
      let n' := Z.to_nat n in
      if kd <? 10 then
        flat_map (enc_out n')
          (ops_run (dec_kind kd) n' (Z.to_nat w) (if c =? 2 then init_fs_hwlf else init_fs (dec_bool c))
                    (dec_runs n' (length rest) (rest)))
      else
        match rest with
        | po :: de :: co :: sb :: rest' =>
            flat_map (enc_out n')
              (obj_run (dec_kind (kd - 10)) n' (Z.to_nat w)
                       (new_obj_sub (mkO (dec_bool po) (dec_bool de) (dec_bool co)) (dec_bool c) (dec_sub n' sb))
                       (init_fs (dec_bool c)) (dec_calls (length rest') rest'))
        | _ => [-998]
        end
  | _ => [-999]
  end.

Definition mismatches := mismatches_of run.
