(* C04 — property theorems (statements closed by `exact <lemma>`). *)
From Coq Require Import ZArith List Bool Arith Lia.
From IBL.C04 Require Import Model Proofs.
Import ListNotations.

Theorem C04_np1_status : forall n w fs r k,
  r_target r <> TShank k -> input_state NP1 n fs (r_target r) = Present ->
  out_outcome (run_once NP1 n w fs r) = Status (-1) /\
  (forall p, out_fs (run_once NP1 n w fs r) p = fs p).
Proof. exact np1_noop. Qed.
Print Assumptions C04_np1_status.
