(* C04 — property theorems.  Only statements closed by `exact <lemma>` (or a
   1-3 line wrapper) and the Print Assumptions the check collects.

   Vocabulary (coq/C04/Model.v, Proofs.v):
     fsys                 abstract directory: path -> Absent | Partial | Complete
     run_once kd n w fs r one NP2Converter(...).process(...) call (fresh object) with target file,
                          options, overwrite flag, optional crash index and optional adversary
                          damage described by r, on a probe of kind kd with n shanks, w windows
     state_after ... h    the directory after the history h (list of runs), from init_fs
     plan24 / plan21      the list of atomic steps of one run; exec (firstn c plan) = the
                          run interrupted before its step number c
     orig_ok fs           the original is complete as .bin, or as .cbin + .ch
     shanks_ok n fs       for every shank k < n: ap data complete (.bin, or .cbin + .ch) and ap
                          metadata complete
   Shank count n and window count w are arbitrary; histories are unbounded. *)
From Coq Require Import ZArith List Bool Arith Lia.
From IBL.C04 Require Import Model Proofs.
Import ListNotations.

(* Every history of runs — any options, any overwrite flag, any target (plain,
   compressed, an already split shank file, a missing file), interrupted at any
   step or not, with or without damage to a shank file before verification —
   leaves the original recoverable: its metadata untouched, and the samples
   complete as .bin or as .cbin+.ch, or (NP2.4 only) every shank's ap data and
   metadata complete.  Interrupted runs are runs, so this covers every
   intermediate state as well. *)
Theorem C04_original_recoverable : forall kd n w compressed h,
  let fs := state_after kd n w (init_fs compressed) h in
  fs (PFile Orig FMeta) = Complete /\
  (orig_ok fs \/ (kd = NP24 /\ shanks_ok n fs)).
Proof. exact original_recoverable. Qed.
Print Assumptions C04_original_recoverable.

(* NP2.4: if a run, stopped anywhere, has changed any file of the original,
   then post_check and delete_original were both set, the run had gone through
   all its other steps (the change is its last step, delete_NP24), not taken the
   "already exists" exit, check_completed is set, and at that moment every
   shank's ap data and metadata are complete. *)
Theorem C04_delete_only_after_verify : forall n w compressed h o ow corrupt tf c rs',
  let fs := state_after NP24 n w (init_fs compressed) h in
  (tf = FBin \/ tf = FCbin) -> orig_ok fs ->
  exec (firstn c (plan24 n w o ow corrupt tf fs)) (mkR fs false) = (rs', None) ->
  (exists f, r_fs rs' (PFile Orig f) <> fs (PFile Orig f)) ->
  o_post o = true /\ o_del o = true /\ r_checked rs' = true /\ shanks_ok n (r_fs rs') /\
  (length (prep24 ow fs n ++ body24 n w o ow corrupt) < c)%nat /\ already24 ow fs n = false.
Proof.
  intros n w compressed h o ow corrupt tf c rs' fs Htf Ho Hx.
  exact (proj2 (np24_prefix n w o ow corrupt tf fs c rs' Htf Ho
                  (history_inv NP24 n w h _ (init_inv NP24 n compressed)) Hx)).
Qed.
Print Assumptions C04_delete_only_after_verify.

(* check_completed is true only after a check_NP24 step of the same run that
   found every shank's ap.bin complete (bit-identical content). *)
Theorem C04_check_completed_sound : forall l fs rs',
  exec l (mkR fs false) = (rs', None) -> r_checked rs' = true ->
  exists l1 m l2 rsv, l = l1 ++ SVerify m :: l2 /\ exec l1 (mkR fs false) = (rsv, None) /\
    forall k, (k < m)%nat -> r_fs rsv (PFile (Shank k Ap) FBin) = Complete.
Proof. intros l fs rs'. exact (check_completed_sound l (mkR fs false) rs' eq_refl). Qed.
Print Assumptions C04_check_completed_sound.

(* NP2.1 (single shank): along a run started on a complete .bin, stopped
   anywhere, the .bin is complete, or it has been removed and the finished
   .cbin and .ch are complete (compressed in place, losslessly by mtscomp's own
   check inside the SCompEnd step). *)
Theorem C04_np21_replaced_only_by_complete_cbin : forall n w compressed h o ow tf c rs',
  let fs := state_after NP21 n w (init_fs compressed) h in
  orig_ok fs -> (tf = FBin -> fs (PFile Orig FBin) = Complete) ->
  exec (firstn c (plan21 w o ow tf fs)) (mkR fs false) = (rs', None) ->
  fs (PFile Orig FBin) = Complete ->
  r_fs rs' (PFile Orig FBin) = Complete \/
  (r_fs rs' (PFile Orig FBin) = Absent /\ r_fs rs' (PFile Orig FCbin) = Complete /\
   r_fs rs' (PFile Orig FCh) = Complete).
Proof.
  intros n w compressed h o ow tf c rs' fs Ho Htf Hx.
  exact (proj2 (proj2 (np21_prefix NP21 n w o ow tf fs c rs' Ho
                  (history_inv NP21 n w h _ (init_inv NP21 n compressed)) Htf Hx))).
Qed.
Print Assumptions C04_np21_replaced_only_by_complete_cbin.

(* Not an NP2 probe: status -1, nothing changes. *)
Theorem C04_np1_status : forall n w fs r k,
  r_target r <> TShank k -> input_state NP1 n fs (r_target r) = Present ->
  out_outcome (run_once NP1 n w fs r) = Status (-1) /\
  (forall p, out_fs (run_once NP1 n w fs r) p = fs p).
Proof. exact np1_noop. Qed.
Print Assumptions C04_np1_status.

(* Input that is already a split shank file: status 0, already_processed, no
   step executed, nothing changes. *)
Theorem C04_split_input_noop : forall kd n w fs r k,
  r_target r = TShank k -> input_state kd n fs (r_target r) = Present ->
  let o := run_once kd n w fs r in
  out_outcome o = Status 0 /\ out_processed o = true /\ out_trace o = [] /\ forall p, out_fs o p = fs p.
Proof. exact split_input_noop. Qed.
Print Assumptions C04_split_input_noop.

(* F-C04-b (faithful to the code): after a first run interrupted inside
   _prepare_files_NP24, a run without overwrite reports "nothing done" (status
   0) and yet creates the missing shank folders with empty files. *)
Theorem C04_rerun_after_interrupted_prepare_refuted :
  exists fs r, let o := run_once NP24 4 2 fs r in
    fs = state_after NP24 4 2 (init_fs false)
           [mkRun TBin (mkO true false true) false (Some 1%nat) None] /\
    r_ow r = false /\ r_crash r = None /\
    out_outcome o = Status 0 /\ fs (PDir 1) = Absent /\ out_fs o (PDir 1) = Complete /\
    out_fs o (PFile (Shank 1 Ap) FBin) = Partial.
Proof.
  eexists. exists (mkRun TBin (mkO true false true) false None None).
  cbv zeta. split; [reflexivity|]. vm_compute. repeat split.
Qed.
Print Assumptions C04_rerun_after_interrupted_prepare_refuted.

(* Non-vacuity: a complete NP2.4 run with verification, compression and
   deletion from the fresh directory ends with the original gone, every shank
   compressed, check_completed set; the same history interrupted just before
   delete_NP24 keeps the original. *)
Example C04_example_full_run :
  let o := run_once NP24 2 2 (init_fs false) (mkRun TBin (mkO true true true) false None None) in
  out_outcome o = Status 1 /\ out_checked o = true /\ out_fs o (PFile Orig FBin) = Absent /\
  out_fs o (PFile (Shank 1 Ap) FCbin) = Complete /\ out_fs o (PFile (Shank 1 Ap) FBin) = Absent /\
  length (out_trace o) = 32%nat.
Proof. vm_compute. repeat split. Qed.

Example C04_example_crash_before_delete :
  let o := run_once NP24 2 2 (init_fs false) (mkRun TBin (mkO true true true) false (Some 31%nat) None) in
  out_outcome o = Raised ECrash /\ out_checked o = true /\ out_fs o (PFile Orig FBin) = Complete.
Proof. vm_compute. repeat split. Qed.
