(* C04 — property theorems.  Only statements closed by `exact <lemma>` (or a
   1-3 line wrapper) and the Print Assumptions the check collects.

   Vocabulary (coq/C04/Model.v, Proofs.v):
     fsys                 abstract directory: path -> Absent | Partial | Complete
     run_once kd n w fs r one NP2Converter(...).process(...) call (fresh object) with target file,
                          options, overwrite flag, optional crash index and optional adversary
                          damage described by r, on a probe of kind kd with n shanks, w windows
     state_after ... h    the directory after the history h (list of runs), from init_fs
     plan24 / plan21      the list of atomic steps of one run; exec (firstn c plan) = the
                          run interrupted before its step number c
     orig_ok fs           the original is complete as .bin, or as .cbin + .ch
     shanks_ok n fs       for every shank k < n: ap data complete (.bin, or .cbin + .ch) and ap
                          metadata complete
   Shank count n and window count w are arbitrary; histories are unbounded. *)
From Coq Require Import ZArith List Bool Arith Lia.
From IBL.C04 Require Import Model Proofs.
Import ListNotations.

(* Every history of runs — any options, any overwrite flag, any target (plain,
   compressed, an already split shank file, a missing file), interrupted at any
   step or not, with or without damage to a shank file before verification —
   leaves the original recoverable: its metadata untouched, and the samples
   complete as .bin or as .cbin+.ch, or (NP2.4 only) every shank's ap data and
   metadata complete.  Interrupted runs are runs, so this covers every
   intermediate state as well. *)
Theorem C04_original_recoverable : forall kd n w compressed h,
  let fs := state_after kd n w (init_fs compressed) h in
  fs (PFile Orig FMeta) = Complete /\
  (orig_ok fs \/ (kd = NP24 /\ shanks_ok n fs)).
Proof. exact original_recoverable. Qed.
Print Assumptions C04_original_recoverable.

(* NP2.4: if a run, stopped anywhere, has changed any file of the original,
   then post_check and delete_original were both set, the run had gone through
   all its other steps (the change is its last step, delete_NP24), not taken the
   "already exists" exit, check_completed is set, and at that moment every
   shank's ap data and metadata are complete. *)
Theorem C04_delete_only_after_verify : forall n w compressed h o ow corrupt tf c rs',
  let fs := state_after NP24 n w (init_fs compressed) h in
  (tf = FBin \/ tf = FCbin) -> orig_ok fs ->
  exec (firstn c (plan24 n w o ow corrupt tf fs)) (mkR fs false) = (rs', None) ->
  (exists f, r_fs rs' (PFile Orig f) <> fs (PFile Orig f)) ->
  o_post o = true /\ o_del o = true /\ r_checked rs' = true /\ shanks_ok n (r_fs rs') /\
  (length (prep24 ow fs n ++ body24 n w o ow corrupt) < c)%nat /\ already24 ow fs n = false.
Proof.
  intros n w compressed h o ow corrupt tf c rs' fs Htf Ho Hx.
  exact (proj2 (np24_prefix n w o ow corrupt tf fs c rs' Htf Ho
                  (history_inv NP24 n w h _ (init_inv NP24 n compressed)) Hx)).
Qed.
Print Assumptions C04_delete_only_after_verify.

(* check_completed is true only after a check_NP24 step of the same run that
   found every shank's ap.bin complete (bit-identical content). *)
Theorem C04_check_completed_sound : forall l fs rs',
  exec l (mkR fs false) = (rs', None) -> r_checked rs' = true ->
  exists l1 v l2 rsv, l = l1 ++ v :: l2 /\ is_sverify v = true /\ exec l1 (mkR fs false) = (rsv, None) /\
    forall k, (k < verify_n v)%nat -> r_fs rsv (PFile (Shank k Ap) FBin) = Complete.
Proof. intros l fs rs'. exact (check_completed_sound l (mkR fs false) rs' eq_refl). Qed.
Print Assumptions C04_check_completed_sound.

(* NP2.1 (single shank): along a run started on a complete .bin, stopped
   anywhere, the .bin is complete, or it has been removed and the finished
   .cbin and .ch are complete (compressed in place, losslessly by mtscomp's own
   check inside the SCompEnd step). *)
Theorem C04_np21_replaced_only_by_complete_cbin : forall n w compressed h o ow tf c rs',
  let fs := state_after NP21 n w (init_fs compressed) h in
  orig_ok fs -> (tf = FBin -> fs (PFile Orig FBin) = Complete) ->
  exec (firstn c (plan21 w o ow tf fs)) (mkR fs false) = (rs', None) ->
  fs (PFile Orig FBin) = Complete ->
  r_fs rs' (PFile Orig FBin) = Complete \/
  (r_fs rs' (PFile Orig FBin) = Absent /\ r_fs rs' (PFile Orig FCbin) = Complete /\
   r_fs rs' (PFile Orig FCh) = Complete).
Proof.
  intros n w compressed h o ow tf c rs' fs Ho Htf Hx.
  exact (proj2 (proj2 (np21_prefix NP21 n w o ow tf fs c rs' Ho
                  (history_inv NP21 n w h _ (init_inv NP21 n compressed)) Htf Hx))).
Qed.
Print Assumptions C04_np21_replaced_only_by_complete_cbin.

(* Not an NP2 probe: status -1, nothing changes. *)
Theorem C04_np1_status : forall n w fs r k,
  r_target r <> TShank k -> input_state NP1 n fs (r_target r) = Present ->
  out_outcome (run_once NP1 n w fs r) = Status (-1) /\
  (forall p, out_fs (run_once NP1 n w fs r) p = fs p).
Proof. exact np1_noop. Qed.
Print Assumptions C04_np1_status.

(* Input that is already a split shank file: status 0, already_processed, no
   step executed, nothing changes. *)
Theorem C04_split_input_noop : forall kd n w fs r k,
  r_target r = TShank k -> input_state kd n fs (r_target r) = Present ->
  let o := run_once kd n w fs r in
  out_outcome o = Status 0 /\ out_processed o = true /\ out_trace o = [] /\ forall p, out_fs o p = fs p.
Proof. exact split_input_noop. Qed.
Print Assumptions C04_split_input_noop.

(* Repeated run: whenever every shank folder exists (NP2.4) / the lf file
   exists as .bin or .cbin (NP2.1) — in particular after a complete run, next
   theorem — a run without overwrite, whatever its options, crash index or
   damage request, executes no step, returns status 0 with already_exists set
   and leaves every path as it was. *)
Theorem C04_rerun_noop : forall kd n w fs r,
  (kd = NP24 /\ (1 <= n)%nat /\ (forall k, (k < n)%nat -> fs (PDir k) <> Absent)) \/
  (kd = NP21 /\ (fs (PFile Lf21 FBin) <> Absent \/ fs (PFile Lf21 FCbin) <> Absent)) ->
  r_ow r = false -> r_sub r = None -> (r_target r = TBin \/ r_target r = TCbin) ->
  input_state kd n fs (r_target r) = Present ->
  run_once kd n w fs r = mkOut fs (Status 0) false 1 false [].
Proof.
  intros kd n w fs r [[-> [Hn Hd]] | [-> Hd]] How Hsub Ht Hin.
  - exact (rerun_noop24 n w fs r Hn Hd How Hsub Ht Hin).
  - exact (rerun_noop21 n w fs r Hd How Ht Hin).
Qed.
Print Assumptions C04_rerun_noop.

(* After a complete NP2.4 run (status 1, from any directory, any options) every
   shank folder exists — so the next run without overwrite is the no-op above. *)
Theorem C04_complete_run_then_rerun_noop : forall n w fs r r2,
  (1 <= n)%nat -> r_sub r = None -> (r_target r = TBin \/ r_target r = TCbin) ->
  out_outcome (run_once NP24 n w fs r) = Status 1 ->
  let fs1 := out_fs (run_once NP24 n w fs r) in
  r_ow r2 = false -> r_sub r2 = None -> (r_target r2 = TBin \/ r_target r2 = TCbin) ->
  input_state NP24 n fs1 (r_target r2) = Present ->
  run_once NP24 n w fs1 r2 = mkOut fs1 (Status 0) false 1 false [].
Proof.
  intros n w fs r r2 Hn Hs Ht H1 fs1 How Hs2 Ht2 Hin.
  apply rerun_noop24; auto. intros k Hk. unfold fs1.
  rewrite (complete24_dirs n w fs r Hs Ht H1 k Hk). discriminate.
Qed.
Print Assumptions C04_complete_run_then_rerun_noop.

(* Forced re-run, NP2.4: from ANY directory (reachable or not: stale, partial
   or missing output) in which the given original exists, a fault-free run
   with overwrite=True and at least one window returns 1 and ends with, for
   every shank: the folder, both metadata files, and the ap and lf data
   complete — as .cbin + .ch with no .bin / .cbin_tmp left when compress is
   set, as .bin otherwise; check_completed equals post_check; the original is
   removed exactly when post_check and delete_original are both set and is
   otherwise untouched. *)
Theorem C04_forced_rerun_completes_np24 : forall n w' fs t o,
  (t = TBin \/ t = TCbin) -> input_state NP24 n fs t = Present ->
  let out := run_once NP24 n (S w') fs (mkRun t o true None None None) in
  let tf := target_form t in
  out_outcome out = Status 1 /\ out_checked out = o_post o /\
  (forall k, (k < n)%nat ->
     out_fs out (PDir k) = Complete /\
     out_fs out (PFile (Shank k Ap) FMeta) = Complete /\ out_fs out (PFile (Shank k Lf) FMeta) = Complete /\
     out_ok (o_comp o) (out_fs out) (Shank k Ap) /\ out_ok (o_comp o) (out_fs out) (Shank k Lf)) /\
  out_fs out (PFile Orig tf) = (if o_post o && o_del o then Absent else fs (PFile Orig tf)) /\
  forall f, f <> tf -> out_fs out (PFile Orig f) = fs (PFile Orig f).
Proof. exact forced24. Qed.
Print Assumptions C04_forced_rerun_completes_np24.

(* First run / any run: every NP2.4 run that gets past the "already exists" test — without overwrite
   on a directory with none of the shank folders, or with overwrite — and is not interrupted returns
   1 with the same complete, valid output, from ANY directory in which the input exists.  (Totality:
   a fault-free run never raises.) *)
Theorem C04_run_past_exists_test_completes_np24 : forall n w' fs t o ow,
  (t = TBin \/ t = TCbin) -> input_state NP24 n fs t = Present -> already24 ow fs n = false ->
  let out := run_once NP24 n (S w') fs (mkRun t o ow None None None) in
  let tf := target_form t in
  out_outcome out = Status 1 /\ out_checked out = o_post o /\
  (forall k, (k < n)%nat ->
     out_fs out (PDir k) = Complete /\
     out_fs out (PFile (Shank k Ap) FMeta) = Complete /\ out_fs out (PFile (Shank k Lf) FMeta) = Complete /\
     out_ok (o_comp o) (out_fs out) (Shank k Ap) /\ out_ok (o_comp o) (out_fs out) (Shank k Lf)) /\
  out_fs out (PFile Orig tf) = (if o_post o && o_del o then Absent else fs (PFile Orig tf)) /\
  forall f, f <> tf -> out_fs out (PFile Orig f) = fs (PFile Orig f).
Proof. exact run24_completes. Qed.
Print Assumptions C04_run_past_exists_test_completes_np24.

(* Forced re-run, NP2.1: same, for the lf file next to the original; with
   compress set and a plain .bin given, the original ends as .cbin + .ch with
   the .bin removed; otherwise it is untouched. *)
Theorem C04_forced_rerun_completes_np21 : forall n w' fs t o,
  (t = TBin \/ t = TCbin) -> input_state NP21 n fs t = Present ->
  let out := run_once NP21 n (S w') fs (mkRun t o true None None None) in
  out_outcome out = Status 1 /\
  out_fs out (PFile Lf21 FMeta) = Complete /\ out_ok (o_comp o) (out_fs out) Lf21 /\
  (if o_comp o && fkind_eqb (target_form t) FBin then out_ok true (out_fs out) Orig
   else forall f, out_fs out (PFile Orig f) = fs (PFile Orig f)) /\
  out_fs out (PFile Orig FMeta) = fs (PFile Orig FMeta).
Proof. exact forced21. Qed.
Print Assumptions C04_forced_rerun_completes_np21.

(* F-C04-b (faithful to the code): after a first run interrupted inside
   _prepare_files_NP24, a run without overwrite reports "nothing done" (status
   0) and yet creates the missing shank folders with empty files. *)
Theorem C04_rerun_after_interrupted_prepare_refuted :
  exists fs r, let o := run_once NP24 4 2 fs r in
    fs = state_after NP24 4 2 (init_fs false)
           [mkRun TBin (mkO true false true) false (Some 1%nat) None None] /\
    r_ow r = false /\ r_crash r = None /\
    out_outcome o = Status 0 /\ fs (PDir 1) = Absent /\ out_fs o (PDir 1) = Complete /\
    out_fs o (PFile (Shank 1 Ap) FBin) = Partial.
Proof.
  eexists. exists (mkRun TBin (mkO true false true) false None None None).
  cbv zeta. split; [reflexivity|]. vm_compute. repeat split.
Qed.
Print Assumptions C04_rerun_after_interrupted_prepare_refuted.

(* init_params(nshank=sub): a run that writes only the shanks in `sub` (any non-empty duplicate-free
   subset, any options, interrupted anywhere, from any reachable directory; histories may mix such
   runs with full ones — they are part of C04_original_recoverable).  If such a run has changed the
   original at all, delete_original was set, check_completed is set and EVERY shank k < n of the
   probe has its ap data (.bin or .cbin+.ch) and metadata complete: every channel of the original is
   present in a complete shank file.  The verification step of the model succeeds iff the shank files
   in shank_info cover every shank of the probe and each is complete (verify_cover), which is what
   comparing the reassembled full-width window with the original amounts to. *)
Theorem C04_subset_run_deletes_only_when_covering : forall n w compressed h sub o ow corrupt tf c rs',
  let fs := state_after NP24 n w (init_fs compressed) h in
  sub_ok sub n = true -> (tf = FBin \/ tf = FCbin) -> orig_ok fs ->
  exec (firstn c (plan24s sub n w o ow corrupt tf fs)) (mkR fs false) = (rs', None) ->
  r_fs rs' (PFile Orig tf) <> fs (PFile Orig tf) ->
  o_del o = true /\ r_checked rs' = true /\ shanks_ok n (r_fs rs').
Proof.
  intros n w compressed h sub o ow corrupt tf c rs' fs Hok Htf Ho Hx.
  exact (proj2 (proj2 (proj2 (np24s_prefix sub n w o ow corrupt tf fs c rs' (sub_ok_NoDup _ _ Hok) Htf Ho
                  (history_inv NP24 n w h _ (init_inv NP24 n compressed)) Hx)))).
Qed.
Print Assumptions C04_subset_run_deletes_only_when_covering.

(* the comparison of a subset run succeeds only when the subset is the whole probe *)
Theorem C04_subset_verification_needs_coverage : forall fs sub n,
  verify_cover fs sub n = true ->
  forall k, (k < n)%nat -> In k sub /\
    fs (PFile (Shank k Ap) FBin) = Complete /\ fs (PFile (Shank k Ap) FMeta) = Complete.
Proof. exact verify_cover_spec. Qed.
Print Assumptions C04_subset_verification_needs_coverage.

(* ... and conversely: coverage + completeness is all the comparison needs. *)
Theorem C04_subset_verification_iff : forall fs sub n,
  verify_cover fs sub n = true <->
  ((forall k, (k < n)%nat -> In k sub) /\
   (forall k, In k sub -> fs (PFile (Shank k Ap) FBin) = Complete /\ fs (PFile (Shank k Ap) FMeta) = Complete)).
Proof.
  intros fs sub n. split.
  - intros H. split.
    + intros k Hk. apply (verify_cover_spec _ _ _ H k Hk).
    + intros k Hk. unfold verify_cover in H. apply andb_true_iff in H as [_ Ha].
      rewrite forallb_forall in Ha. specialize (Ha k Hk). apply andb_true_iff in Ha as [A B].
      split; apply complete_true; assumption.
  - intros [A B]. apply verify_cover_intro; assumption.
Qed.
Print Assumptions C04_subset_verification_iff.

Example C04_example_subset_run_keeps_original :
  let o := run_once NP24 4 2 (init_fs false)
             (mkRun TBin (mkO true true false) false None None (Some [0%nat; 1%nat])) in
  out_outcome o = Raised EAssertion /\ out_checked o = false /\ out_fs o (PFile Orig FBin) = Complete /\
  out_fs o (PFile (Shank 1 Ap) FBin) = Complete /\ out_fs o (PDir 2) = Absent.
Proof. vm_compute. repeat split. Qed.

(* ---- ONE converter object, several method calls (process / check_NP24 / delete_NP24 /
   assignment of the option attributes), exceptions caught in between; code after 899cbec
   (check_completed cleared at the start of every check_NP24 and every NP2.4 run), 8b318aa
   (compress_NP21 reopens the reader unsorted), 8925238 (process() refuses when the original is
   gone).  obj_after ... cs = the object and the directory after the calls cs. ---------------- *)

(* The original is recoverable in every reachable state of every method-call sequence on one
   object: NP2.4, any reachable directory, any options (also changed between calls), any number of
   process() / check_NP24() / delete_NP24() calls in any order, each interrupted anywhere or not,
   process() also with a shank file damaged before its verification, the object restricted to any
   subset of the shanks by init_params(nshank=sub) or not.  (An interrupted call is a
   call, so intermediate states are covered.  The model's adversary may not act inside a direct
   check_NP24(): it could destroy the only copy after the original is gone.)  And, second half:
   whenever check_completed is true, every shank's ap data (.bin, or .cbin+.ch) and metadata are
   complete on disk AT THAT MOMENT — the flag can no longer be stale. *)
Theorem C04_object_all_call_sequences_safe : forall n w compressed h o (c : bool) sub cs,
  let fs := state_after NP24 n w (init_fs compressed) h in
  input_state NP24 n fs (if c then TCbin else TBin) = Present ->
  forallb admissible cs = true ->
  let ob' := fst (obj_after NP24 n w (new_obj_sub o c sub) fs cs) in
  let fs' := snd (obj_after NP24 n w (new_obj_sub o c sub) fs cs) in
  fs' (PFile Orig FMeta) = Complete /\ (orig_ok fs' \/ shanks_ok n fs') /\
  (ob_checked ob' = true -> shanks_ok n fs').
Proof.
  intros n w compressed h o c sub cs fs Hin Hall ob' fs'.
  pose proof (history_inv NP24 n w h _ (init_inv NP24 n compressed)) as Hinv.
  destruct (objI_seq n w cs (new_obj_sub o c sub) fs Hall (new_obj_I n fs o c sub Hinv Hin))
    as [_ [[A [_ [B | [_ B]]]] [K _]]]; auto.
Qed.
Print Assumptions C04_object_all_call_sequences_safe.

(* check_completed true after an NP2.4 process() call that ran  ==>  a check_NP24 step of THIS call
   found every shank ap.bin complete (the call clears the flag before _prepare_files_NP24). *)
Theorem C04_object_check_completed_is_fresh : forall n w ob fs ow cr cp ob' o plan st al,
  fs (PFile Orig (ob_tf ob)) <> Absent ->
  call_plan NP24 n w ob fs (CProcess ow cr cp) = Some (plan, st, al) ->
  obj_call NP24 n w ob fs (CProcess ow cr cp) = (ob', o) -> ob_checked ob' = true ->
  exists l1 v l2 rsv, out_trace o = l1 ++ v :: l2 /\ is_sverify v = true /\ verify_n v = n /\
    exec l1 (mkR fs false) = (rsv, None) /\
    forall k, (k < n)%nat -> r_fs rsv (PFile (Shank k Ap) FBin) = Complete.
Proof. exact process_flag_from_this_call. Qed.
Print Assumptions C04_object_check_completed_is_fresh.

(* A failing check_NP24() leaves check_completed False; delete_NP24() then does nothing.  (The
   former F-C04-e witnesses, now positive: the calls that lost the original before 899cbec.) *)
Theorem C04_object_failed_check_clears_flag :
  (let '(ob, fs) := obj_after NP24 1 3 (new_obj (mkO true false false) false) (init_fs false)
                      [CProcess false None None; CCheck None (Some 0%nat);
                       CSetOpts (mkO true true false); CDelete None] in
   ob_checked ob = false /\ fs (PFile Orig FBin) = Complete) /\
  (let '(ob, fs) := obj_after NP24 1 3 (new_obj (mkO true true true) false) (init_fs false)
                      [CProcess false (Some 14%nat) None; CProcess true (Some 5%nat) None; CDelete None] in
   ob_checked ob = false /\ fs (PFile Orig FBin) = Complete).
Proof. vm_compute. repeat split. Qed.
Print Assumptions C04_object_failed_check_clears_flag.

(* process() on an object whose original is gone (any kind, any flags) raises FileNotFoundError
   before touching anything: the directory, the object and its flag are unchanged, no step runs.
   (Former F-C04-d.) *)
Theorem C04_object_process_without_original_raises : forall kd n w ob fs ow cr cp,
  fs (PFile Orig (ob_tf ob)) = Absent ->
  obj_call kd n w ob fs (CProcess ow cr cp) =
  (ob, mkOut fs (Raised EFileNotFound) (ob_checked ob) 2 false []).
Proof. exact process_without_original. Qed.
Print Assumptions C04_object_process_without_original_raises.

(* NP2.1: a forced re-run on the same object — in particular after its own compress_NP21 replaced
   the original and reopened the reader — completes with status 1 and lf metadata and data with the
   expected bytes (channels in disk order).  (Former F-C04-f.) *)
Theorem C04_object_np21_forced_rerun_valid : forall n w' ob fs cp ob' o,
  ob_closed ob = false -> fs (PFile Orig (ob_tf ob)) <> Absent ->
  (ob_tf ob = FBin -> fs (PFile Orig FBin) = Complete) ->
  obj_call NP21 n (S w') ob fs (CProcess true None cp) = (ob', o) ->
  out_outcome o = Status 1 /\ out_fs o (PFile Lf21 FMeta) = Complete /\
  out_ok (o_comp (ob_opts ob)) (out_fs o) Lf21.
Proof. exact np21_object_forced_rerun. Qed.
Print Assumptions C04_object_np21_forced_rerun_valid.

Example C04_example_np21_same_object :
  let cs := [CProcess false None None; CProcess true None None] in
  let ob0 := new_obj (mkO false false true) false in
  let '(ob, fs) := obj_after NP21 0 2 ob0 (init_fs false) cs in
  ob_tf ob = FCbin /\ ob_closed ob = false /\ fs (PFile Lf21 FCbin) = Complete /\
  fs (PFile Orig FCbin) = Complete /\ fs (PFile Orig FBin) = Absent.
Proof. vm_compute. repeat split. Qed.

(* Non-vacuity: a complete NP2.4 run with verification, compression and
   deletion from the fresh directory ends with the original gone, every shank
   compressed, check_completed set; the same history interrupted just before
   delete_NP24 keeps the original. *)
Example C04_example_full_run :
  let o := run_once NP24 2 2 (init_fs false) (mkRun TBin (mkO true true true) false None None None) in
  out_outcome o = Status 1 /\ out_checked o = true /\ out_fs o (PFile Orig FBin) = Absent /\
  out_fs o (PFile (Shank 1 Ap) FCbin) = Complete /\ out_fs o (PFile (Shank 1 Ap) FBin) = Absent /\
  length (out_trace o) = 37%nat.
Proof. vm_compute. repeat split. Qed.

Example C04_example_crash_before_delete :
  let o := run_once NP24 2 2 (init_fs false) (mkRun TBin (mkO true true true) false (Some 36%nat) None None) in
  out_outcome o = Raised ECrash /\ out_checked o = true /\ out_fs o (PFile Orig FBin) = Complete.
Proof. vm_compute. repeat split. Qed.

(* ---- metadata markers and NP2Reconstructor ------------------------------------------------ *)
(* already_processed (why a run is skipped as "already split") is a function of the markers in the
   metadata of the file given: true exactly for a shank file (the <version>_shank key) — not for
   SpikeGLX's own metadata, and not for the metadata NP2Reconstructor writes (original_meta=False
   without the shank key). *)
Theorem C04_already_processed_decision : forall kd n w fs r,
  input_state kd n fs (r_target r) = Present ->
  out_processed (run_once kd n w fs r) = marks_processed (marker_of fs (r_target r)) /\
  (marks_processed MShank = true /\ marks_processed MRecon = false /\ marks_processed MPristine = false).
Proof. intros kd n w fs r Hin. split; [exact (processed_decision kd n w fs r Hin) | auto]. Qed.
Print Assumptions C04_already_processed_decision.

(* A reconstructed original is convertible again: from ANY directory in which NP2Reconstructor can
   run (every shank folder with complete ap data and metadata, the original gone, its leftover .meta
   kept or removed), the file it recreates — plain or compressed — is a valid input that is not
   taken for a split shank, and a forced run on it returns 1 with the complete valid output of
   C04_forced_rerun_completes_np24.  (A genuine shank file is still refused: C04_split_input_noop
   holds for every directory, in particular after a reconstruction.) *)
Theorem C04_reconstructed_original_converts_again : forall n w' fs comp o,
  recon_ok n fs = true ->
  let fs1 := recon comp fs in
  let t := if comp then TCbin else TBin in
  let out := run_once NP24 n (S w') fs1 (mkRun t o true None None None) in
  input_state NP24 n fs1 t = Present /\
  out_processed out = false /\ out_outcome out = Status 1 /\ out_checked out = o_post o /\
  (forall k, (k < n)%nat ->
     out_fs out (PDir k) = Complete /\
     out_fs out (PFile (Shank k Ap) FMeta) = Complete /\ out_fs out (PFile (Shank k Lf) FMeta) = Complete /\
     out_ok (o_comp o) (out_fs out) (Shank k Ap) /\ out_ok (o_comp o) (out_fs out) (Shank k Lf)) /\
  out_fs out (PFile Orig (target_form t)) = (if o_post o && o_del o then Absent else Complete).
Proof.
  intros n w' fs comp o H fs1 t out. split; [exact (recon_input n comp fs H)|].
  exact (reconstructed_converts_again n w' fs comp o H).
Qed.
Print Assumptions C04_reconstructed_original_converts_again.

(* split with deletion -> the user removes the leftover .meta -> reconstruct -> convert again
   (forced) -> a shank file of the new split is refused *)
Example C04_example_reconstruct_history :
  let h := [HRun (mkRun TBin (mkO true true false) false None None None); HDropMeta; HRecon false;
            HRun (mkRun TBin (mkO true false true) true None None None);
            HRun (mkRun (TShank 1) (mkO true true true) true None None None)] in
  map out_outcome (ops_run NP24 2 2 (init_fs false) h) = [Status 1; Status 7; Status 1; Status 1; Status 0] /\
  map out_processed (ops_run NP24 2 2 (init_fs false) h) = [false; false; false; false; true] /\
  recon_ok 2 (out_fs (nth 1 (ops_run NP24 2 2 (init_fs false) h) (noop (init_fs false) (Status 0) false))) = true /\
  out_fs (nth 2 (ops_run NP24 2 2 (init_fs false) h) (noop (init_fs false) (Status 0) false)) PMark = Complete.
Proof. vm_compute. repeat split. Qed.

(* ---- file names and probe versions ------------------------------------------------------ *)
(* The lf output is named name.replace("ap", "lf").  For EVERY file name (any characters, any length —
   in particular names with a dataset UUID between "ap" and the extension): the renamed name has the
   same length, and it equals the name given exactly when the name contains no "ap"; so as soon as
   the name contains "ap", no lf output path — whatever extension / suffix follows — is a path of the
   file given (the model's distinct Orig and Lf21 / Shank-lf paths are distinct real paths). *)
Theorem C04_output_names_never_alias_original : forall stem e e',
  has_ap stem = true ->
  length (lf_name stem) = length stem /\ lf_name stem ++ e' <> stem ++ e.
Proof. intros stem e e' H. split; [apply lf_name_length | apply lf_name_never_aliases; exact H]. Qed.
Print Assumptions C04_output_names_never_alias_original.

(* ... and conversely (F-C04-i, faithful to the code): a file whose name contains no "ap" — which
   spikeglx.Reader accepts — makes the lf path the path of the file itself. *)
Theorem C04_name_without_ap_aliases_refuted :
  (forall s, lf_name s = s <-> has_ap s = false) /\
  lf_name [114; 101; 99; 46; 105; 109; 101; 99; 48; 46; 98; 105; 110]%Z
        = [114; 101; 99; 46; 105; 109; 101; 99; 48; 46; 98; 105; 110]%Z.      (* "rec.imec0.bin" *)
Proof. split; [exact lf_name_alias_iff | reflexivity]. Qed.
Print Assumptions C04_name_without_ap_aliases_refuted.

(* Probe-version dispatch: for every version that is neither NP2.1 nor NP2.4 — 3A, 3B1, 3B2, NPultra —
   process() returns -1 and touches nothing (also with a hardware lf file next to the recording). *)
Theorem C04_non_np2_versions_untouched : forall v n w fs r k,
  (v = V3A \/ v = V3B1 \/ v = V3B2 \/ v = VNPultra) ->
  r_target r <> TShank k -> input_state NP1 n fs (r_target r) = Present ->
  out_outcome (run_once (kind_of_version v) n w fs r) = Status (-1) /\
  (forall p, out_fs (run_once (kind_of_version v) n w fs r) p = fs p).
Proof.
  intros v n w fs r k Hv. apply non_np2_noop. destruct Hv as [-> | [-> | [-> | ->]]]; reflexivity.
Qed.
Print Assumptions C04_non_np2_versions_untouched.

Example C04_example_uuid_name :   (* "x.ap.4f1e.bin" -> "x.lf.4f1e.bin" *)
  lf_name [120; 46; 97; 112; 46; 52; 102; 49; 101; 46; 98; 105; 110]%Z
        = [120; 46; 108; 102; 46; 52; 102; 49; 101; 46; 98; 105; 110]%Z /\
  has_ap [120; 46; 97; 112; 46; 52; 102; 49; 101; 46; 98; 105; 110]%Z = true.
Proof. split; reflexivity. Qed.

(* ---- the hypotheses of the theorems above are satisfiable on non-trivial inputs ---- *)
(* rerun_noop / complete_run_then_rerun_noop: a complete run, then a plain re-run *)
Example C04_example_rerun :
  let r := mkRun TBin (mkO true false true) false None None None in
  let fs1 := out_fs (run_once NP24 2 2 (init_fs false) r) in
  out_outcome (run_once NP24 2 2 (init_fs false) r) = Status 1 /\
  input_state NP24 2 fs1 TBin = Present /\ fs1 (PDir 1) = Complete /\
  out_outcome (run_once NP24 2 2 fs1 r) = Status 0 /\ out_trace (run_once NP24 2 2 fs1 r) = [].
Proof. vm_compute. repeat split. Qed.

(* forced re-run / run past the exists-test: from a directory left by a run interrupted in the
   middle of compressing shank 0 (stale .cbin_tmp, partial outputs) *)
Example C04_example_forced_rerun :
  let fs1 := out_fs (run_once NP24 2 2 (init_fs false)
                       (mkRun TBin (mkO true false true) false (Some 17%nat) None None)) in
  fs1 (PFile (Shank 0 Ap) FTmp) = Partial /\ input_state NP24 2 fs1 TBin = Present /\
  already24 true fs1 2 = false /\ already24 false fs1 2 = true /\
  out_outcome (run_once NP24 2 2 fs1 (mkRun TBin (mkO true true true) true None None None)) = Status 1.
Proof. vm_compute. repeat split. Qed.

(* np21_replaced_only_by_complete_cbin: interrupted between the rename and the unlink of the .bin *)
Example C04_example_np21_interrupted :
  let o := run_once NP21 0 2 (init_fs false) (mkRun TBin (mkO false false true) false (Some 8%nat) None None) in
  out_outcome o = Raised ECrash /\ out_fs o (PFile Orig FBin) = Complete /\ out_fs o (PFile Orig FCbin) = Complete.
Proof. vm_compute. repeat split. Qed.

(* object_all_call_sequences_safe: a sequence with every kind of call, ending with a legitimate
   deletion through the separate methods *)
Example C04_example_object_calls :
  let cs := [CProcess false (Some 20%nat) None; CProcess true None None; CCheck None None;
             CSetOpts (mkO false true false); CDelete None; CProcess true None None] in
  forallb admissible cs = true /\
  let '(ob, fs) := obj_after NP24 2 2 (new_obj (mkO true false false) false) (init_fs false) cs in
  ob_checked ob = true /\ ob_closed ob = true /\ fs (PFile Orig FBin) = Absent /\
  fs (PFile (Shank 1 Ap) FBin) = Complete /\ fs (PFile (Shank 1 Ap) FMeta) = Complete.
Proof. vm_compute. repeat split. Qed.

(* the model's verification is pointwise equality of every shank file with its expected bytes: ANY
   damage of a shank ap.bin — also one that keeps every sum (values exchanged between channels or
   frames, +k / -k, two channels exchanged) — is a state that is not Complete, and the check fails *)
Example C04_example_zero_sum_damage_fails_check :
  let fs := out_fs (run_once NP24 2 2 (init_fs false) (mkRun TBin (mkO false false false) false None None None)) in
  fs (PFile (Shank 1 Ap) FBin) = Complete /\
  step_sem (SVerify 2) (mkR fs false) = Ok (mkR fs true) /\
  step_sem (SVerify 2) (mkR (upd fs (PFile (Shank 1 Ap) FBin) Partial) false) = Err EAssertion /\
  out_outcome (run_once NP24 2 2 (init_fs false)
                 (mkRun TBin (mkO true true false) false None (Some 1%nat) None)) = Raised EAssertion /\
  out_fs (run_once NP24 2 2 (init_fs false)
            (mkRun TBin (mkO true true false) false None (Some 1%nat) None)) (PFile Orig FBin) = Complete.
Proof. vm_compute. repeat split. Qed.
