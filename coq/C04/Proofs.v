(* C04 — lemmas about the file-level model (coq/C04/Model.v). *)
From Coq Require Import ZArith List Bool Arith Lia.
From IBL.C04 Require Import Model.
Import ListNotations.

Lemma np1_noop : forall n w fs r k,
  r_target r <> TShank k -> input_state NP1 n fs (r_target r) = Present ->
  out_outcome (run_once NP1 n w fs r) = Status (-1) /\
  (forall p, out_fs (run_once NP1 n w fs r) p = fs p).
Proof.
  intros n w fs r k _ Hin. unfold run_once. rewrite Hin.
  destruct (r_target r); cbn; auto.
  unfold input_state in Hin. destruct (negb _); discriminate.
Qed.
